(* Convergence of the target RIB under the reconciler's operations sent in the documented order
   (C15): every operation is acknowledged at its turn and the contents end up those of the intended RIB. *)
From Coq Require Import List Bool NArith Lia Permutation ZifyN ZifyNat ZifyBool.
From GV.Base Require Import Alist U128 Op.
From GV.Rib Require Import Model Lemmas RefDefs RefCount Closed Run Spec Refine.
From GV.Tools Require Import Reconciler ReconcilerDefs ReconcilerFacts.
Import ListNotations.
Open Scope N_scope.

(* ================================================================== reading entries by key *)
Lemma look_ceq s1 s2 k : ceq s1 s2 -> tlook (tabs_of s1) k = tlook (tabs_of s2) k.
Proof.
  intros (Hg & Hh & Ht). destruct k as [t k|id|i]; cbn [tlook].
  - rewrite !sp_top_tabs_of, Ht. reflexivity.
  - cbn [tabs_of sg]. rewrite Hg. reflexivity.
  - cbn [tabs_of sh]. rewrite Hh. reflexivity.
Qed.
Lemma get_top_set_tabg t m s : get_top t (set_tabg m s) = get_top t s. Proof. destruct t; reflexivity. Qed.
Lemma get_top_set_tabh t m s : get_top t (set_tabh m s) = get_top t s. Proof. destruct t; reflexivity. Qed.

Lemma tlook_top_same t (f : amap top -> amap top) s k :
  tlook (tabs_of (set_top t (f (get_top t s)) s)) (KTop t k) = option_map (STop t k) (nget k (f (get_top t s))).
Proof. cbn [tlook]. rewrite sp_top_tabs_of, get_set_top_same. reflexivity. Qed.
Lemma tlook_top_other t (f : amap top -> amap top) s k k' :
  (forall j, j <> k -> nget j (f (get_top t s)) = nget j (get_top t s)) -> k' <> KTop t k ->
  tlook (tabs_of (set_top t (f (get_top t s)) s)) k' = tlook (tabs_of s) k'.
Proof.
  intros Hf Hne. destruct k' as [t' k2|id|i]; cbn [tlook].
  - rewrite !sp_top_tabs_of, get_set_top'. destruct (tk_eqb t' t) eqn:E; [|reflexivity].
    apply tk_eqb_eq in E. subst t'. rewrite Hf; [reflexivity|]. intros ->. apply Hne. reflexivity.
  - cbn [tabs_of sg]. rewrite tabg_set_top. reflexivity.
  - cbn [tabs_of sh]. rewrite tabh_set_top. reflexivity.
Qed.
Lemma tlook_grp_same (f : amap grp -> amap grp) s id :
  tlook (tabs_of (set_tabg (f (tabg s)) s)) (KGrp id) = option_map (SGrp id) (nget id (f (tabg s))).
Proof. reflexivity. Qed.
Lemma tlook_grp_other (f : amap grp -> amap grp) s id k' :
  (forall j, j <> id -> nget j (f (tabg s)) = nget j (tabg s)) -> k' <> KGrp id ->
  tlook (tabs_of (set_tabg (f (tabg s)) s)) k' = tlook (tabs_of s) k'.
Proof.
  intros Hf Hne. destruct k' as [t' k2|id'|i]; cbn [tlook].
  - rewrite !sp_top_tabs_of, get_top_set_tabg. reflexivity.
  - cbn [tabs_of sg set_tabg tabg]. rewrite Hf; [reflexivity|]. intros ->. apply Hne. reflexivity.
  - reflexivity.
Qed.
Lemma tlook_nh_same (f : amap nhp -> amap nhp) s i :
  tlook (tabs_of (set_tabh (f (tabh s)) s)) (KNh i) = option_map (SNh i) (nget i (f (tabh s))).
Proof. reflexivity. Qed.
Lemma tlook_nh_other (f : amap nhp -> amap nhp) s i k' :
  (forall j, j <> i -> nget j (f (tabh s)) = nget j (tabh s)) -> k' <> KNh i ->
  tlook (tabs_of (set_tabh (f (tabh s)) s)) k' = tlook (tabs_of s) k'.
Proof.
  intros Hf Hne. destruct k' as [t' k2|id'|i']; cbn [tlook].
  - rewrite !sp_top_tabs_of, get_top_set_tabh. reflexivity.
  - reflexivity.
  - cbn [tabs_of sh set_tabh tabh]. rewrite Hf; [reflexivity|]. intros ->. apply Hne. reflexivity.
Qed.

Definition skey_of (e : sentry) : skey := match e with STop t k _ => KTop t k | SGrp id _ => KGrp id | SNh i _ => KNh i end.
Lemma tlook_key x k e : tlook x k = Some e -> skey_of e = k.
Proof.
  destruct k as [t k|id|i]; cbn [tlook]; intros H.
  - destruct (nget k (sp_top t x)); inversion H; reflexivity.
  - destruct (nget id (sg x)); inversion H; reflexivity.
  - destruct (nget i (sh x)); inversion H; reflexivity.
Qed.
Lemma ekey_entry_of' e : ekey (entry_of e) = Some (skey_of e).
Proof. destruct e; reflexivity. Qed.
Lemma look_missing r n k : has_ni r n = false -> look r n k = None.
Proof. intros H. unfold look. rewrite (sget_missing _ _ H). destruct k as [[]?|?|?]; reflexivity. Qed.
Lemma look_top r n t k : look r n (KTop t k) = option_map (STop t k) (nget k (get_top t (sget r n))).
Proof. unfold look. cbn [tlook]. rewrite sp_top_tabs_of. reflexivity. Qed.
Lemma look_grp r n id : look r n (KGrp id) = option_map (SGrp id) (nget id (tabg (sget r n))).
Proof. reflexivity. Qed.
Lemma look_nh r n i : look r n (KNh i) = option_map (SNh i) (nget i (tabh (sget r n))).
Proof. reflexivity. Qed.

Lemma skey_eq_dec (a b : skey) : {a = b} + {a <> b}.
Proof. decide equality; try apply N.eq_dec. decide equality. Qed.
Lemma nk_eq_dec (a b : N * skey) : {a = b} + {a <> b}.
Proof. decide equality; [apply skey_eq_dec|apply N.eq_dec]. Qed.

(* ================================================================== the effect of one call *)
(* r' is r with the entry under key k of instance n set to v (None: removed) *)
Definition eff (r r' : rib) (n : ni) (k : skey) (v : option sentry) : Prop :=
  (forall m, has_ni r' m = has_ni r m) /\ look r' n k = v
  /\ (forall n' k', (n', k') <> (n, k) -> look r' n' k' = look r n' k').

Lemma eff_of_teq r r' n f k v : has_ni r n = true -> teq r' (upd_ni n f r) ->
  tlook (tabs_of (f (sget r n))) k = v ->
  (forall k', k' <> k -> tlook (tabs_of (f (sget r n))) k' = tlook (tabs_of (sget r n)) k') ->
  eff r r' n k v.
Proof.
  intros Hn (_ & _ & Hh & Hc) H1 H2. split; [intros m; rewrite Hh; apply has_ni_upd|].
  assert (L : forall m k', look r' m k' = tlook (tabs_of (if n =? m then f (sget r n) else sget r m)) k').
  { intros m k'. unfold look. rewrite (look_ceq _ _ k' (Hc m)). rewrite sget_upd_ni_ex by exact Hn. reflexivity. }
  split.
  - rewrite L, N.eqb_refl. exact H1.
  - intros n' k' Hne. rewrite L. destruct (N.eqb_spec n n') as [<-|]; [|reflexivity].
    apply H2. intros ->. apply Hne; reflexivity.
Qed.
Lemma eff_refl r n k : eff r r n k (look r n k).
Proof. split; [reflexivity|]. split; reflexivity. Qed.

Lemma teq_set_pend_nil r1 x : teq r1 x -> pend x = [] -> teq (set_pend [] r1) x.
Proof. intros (H1 & H2 & H3 & H4) Hp. split; [cbn; congruence|]. split; [exact H2|]. split; [exact H3|exact H4]. Qed.

(* AddEntry of an installable operation into a RIB that holds nothing: it alone is acknowledged *)
Lemma add_entry_quiet ord r n o r1 h rv : (forall l, Permutation (ord l) l) -> pend r = [] -> n <> 0 ->
  try_install v_fixed r n o = Installed r1 h rv ->
  add_entry v_fixed ord r n o = (set_pend [] r1, add_rev rv (add_hev h (add_ok n o out0))).
Proof.
  intros Hord Hp Hn0 Hi. pose proof (try_install_effect _ _ _ _ _ _ _ Hi) as [Hn He].
  pose proof (inst_eff_le _ _ _ _ Hn He) as (_ & Hp1 & _).
  assert (Ho : ord [] = []) by (apply Permutation_nil, Permutation_sym, Hord).
  unfold add_entry. apply N.eqb_neq in Hn0. rewrite Hn0, Hn. cbn [orb negb].
  assert (Hne : op_entry o <> ENone).
  { intros E. unfold try_install in Hi. destruct (nget n (nis r)); [rewrite E in Hi|]; discriminate. }
  assert (Ha : aei v_fixed ord (S (length (pend r))) (r, out0, []) n o
               = (set_pend [] r1, add_rev rv (add_hev h (add_ok n o out0)), [op_id o])).
  { cbn [aei existsb]. rewrite Hi. rewrite Hp1, Hp.
    change (ndel (op_id o) (@nil (N * (ni * rop)))) with (@nil (N * (ni * rop))).
    cbn [pend set_pend]. rewrite Ho. reflexivity. }
  rewrite Ha. destruct (op_entry o); try reflexivity. congruence.
Qed.

Lemma delete_entry_nofatal v r n o : has_ni r n = true -> op_entry o <> ENone ->
  fatal (snd (delete_entry v r n o)) = false /\ nofuel (snd (delete_entry v r n o)) = false.
Proof.
  intros Hn Hne. unfold delete_entry. rewrite (has_ni_true r n Hn).
  destruct (op_entry o) as [t k kv p|id p|i p|]; [| | |congruence].
  - destruct (fixF6 v && negb (key_ok t k kv)); split; reflexivity.
  - destruct (id =? 0); [split; reflexivity|]. destruct (nget id (tabg (sget r n))); [|split; reflexivity].
    destruct (0 <? cnt (rcg (sget r n)) id); split; reflexivity.
  - destruct (i =? 0); [split; reflexivity|]. destruct (nget i (tabh (sget r n))); [|split; reflexivity].
    destruct (0 <? cnt (rch (sget r n)) i); split; reflexivity.
Qed.

(* no referrer => counter zero (the converse of RefDefs.refs_nhg_zero / refs_nh_zero) *)
Lemma refs_nhg_zero_intro r n g : WF r ->
  (forall m t k p, has_ni r m = true -> nget k (get_top t (sget r m)) = Some p -> target m p <> (n, g)) ->
  refs_nhg r n g = 0%nat.
Proof.
  intros HWF U. unfold refs_nhg. apply asum_all_zero. intros [m s] Hin.
  assert (Hs : nget m (nis r) = Some s) by (apply in_nget; [apply HWF|exact Hin]).
  pose proof (has_ni_some _ _ _ Hs) as Hm. pose proof (sget_some _ _ _ Hs) as Hsg.
  assert (Hw : wf_ni s) by (destruct HWF as (_ & _ & H); eapply H; eauto).
  assert (Z : forall t, top_refs n g m (get_top t s) = 0%nat).
  { intros t. unfold top_refs. apply asum_all_zero. intros [k p] Hkp. cbn [snd].
    assert (Hp : nget k (get_top t s) = Some p) by (apply in_nget; [apply wf_get_top; exact Hw|exact Hkp]).
    rewrite <- Hsg in Hp. specialize (U m t k p Hm Hp).
    destruct (tgt_is n g m p) eqn:E; [|reflexivity]. apply tgt_is_spec in E. contradiction. }
  pose proof (Z T4) as Z4. pose proof (Z T6) as Z6. pose proof (Z TL) as ZL. cbn [get_top] in Z4, Z6, ZL.
  unfold ni_refs. cbn [fst snd]. rewrite Z4, Z6, ZL. reflexivity.
Qed.
Lemma refs_nh_zero_intro r n i : wf (tabg (sget r n)) ->
  (forall id g, nget id (tabg (sget r n)) = Some g -> has_member i g = false) -> refs_nh r n i = 0%nat.
Proof.
  intros Hwf U. unfold refs_nh. apply asum_all_zero. intros [id g] Hin. cbn [snd].
  rewrite (U id g); [reflexivity|]. apply in_nget; assumption.
Qed.

Lemma dedup_nhs_id l : NoDup (map fst l) -> dedup_nhs l = l.
Proof.
  induction l as [|[i w] l IH]; cbn [map fst dedup_nhs]; intros H; [reflexivity|].
  inversion H as [|? ? Hni Hnd]; subst. rewrite (IH Hnd).
  destruct (nmem i l) eqn:E; [|reflexivity]. apply nmem_in_keys in E. contradiction.
Qed.
Lemma norm_grp_id g : wf_grp g -> norm_grp g = g.
Proof. intros H. destruct g as [l b x bad]. unfold norm_grp; cbn. rewrite (dedup_nhs_id l H). reflexivity. Qed.

Lemma look_nh_nmem r n i : look r n (KNh i) <> None <-> nmem i (tabh (sget r n)) = true.
Proof. rewrite look_nh. unfold nmem. destruct (nget i (tabh (sget r n))); cbn; split; congruence. Qed.
Lemma look_grp_nmem r n i : look r n (KGrp i) <> None <-> nmem i (tabg (sget r n)) = true.
Proof. rewrite look_grp. unfold nmem. destruct (nget i (tabg (sget r n))); cbn; split; congruence. Qed.
Lemma look_some_has_ni r n k e : look r n k = Some e -> has_ni r n = true.
Proof. intros H. destruct (has_ni r n) eqn:E; [reflexivity|]. rewrite (look_missing _ _ _ E) in H. discriminate. Qed.

Lemma delete_top_teq r n o t k kv p : has_ni r n = true -> op_entry o = ETop t k kv p -> key_ok t k kv = true ->
  teq (fst (delete_entry v_fixed r n o)) (upd_ni n (fun s' => set_top t (ndel k (get_top t s')) s') r).
Proof.
  intros Hn He Hk. unfold delete_entry. rewrite (has_ni_true r n Hn), He. cbn [fixF6 v_fixed andb]. rewrite Hk. cbn [negb].
  assert (Hkk : match t with TL => k | _ => k end = k) by (destruct t; reflexivity). rewrite Hkk. cbn [fst snd].
  destruct (nget k (get_top t (sget r n))) as [d|]; [|apply teq_refl].
  destruct (target n d) as [tn tg]. apply teq_upd_keep. intros s. apply ceq_set_rcg.
Qed.

Lemma delete_grp_eff r n o id p : INV r -> has_ni r n = true -> op_entry o = EGrp id p -> id <> 0 ->
  refs_nhg r n id = 0%nat ->
  let res := delete_entry v_fixed r n o in
  oks (snd res) = [op_id o] /\ fails (snd res) = [] /\ eff r (fst res) n (KGrp id) None.
Proof.
  intros (HWF & (HRC & _) & _) Hn He Hid Hz. cbv zeta. unfold delete_entry. rewrite (has_ni_true r n Hn), He.
  apply N.eqb_neq in Hid. rewrite Hid.
  destruct (nget id (tabg (sget r n))) as [g|] eqn:Hg.
  - assert (Hc : 0 <? cnt (rcg (sget r n)) id = false).
    { apply N.ltb_ge. specialize (HRC n id). rewrite Hz in HRC. lia. }
    rewrite Hc. cbn [fst snd]. split; [reflexivity|]. split; [reflexivity|].
    apply (eff_of_teq r _ n (fun s' => set_tabg (ndel id (tabg s')) s')); [exact Hn| | |].
    + apply teq_upd_keep. intros s. apply ceq_set_rch.
    + cbv beta. rewrite (tlook_grp_same (ndel id) (sget r n) id), nget_ndel_same. reflexivity.
    + intros k' Hk'. cbv beta. apply (tlook_grp_other (ndel id) (sget r n) id); [|exact Hk']. intros j Hj. apply nget_ndel_other. exact Hj.
  - cbn [fst snd]. split; [reflexivity|]. split; [reflexivity|].
    assert (E : look r n (KGrp id) = None) by (rewrite look_grp, Hg; reflexivity).
    rewrite <- E. apply eff_refl.
Qed.

Lemma delete_nh_eff r n o i p : INV r -> has_ni r n = true -> op_entry o = ENh i p -> i <> 0 ->
  refs_nh r n i = 0%nat ->
  let res := delete_entry v_fixed r n o in
  oks (snd res) = [op_id o] /\ fails (snd res) = [] /\ eff r (fst res) n (KNh i) None.
Proof.
  intros (HWF & (_ & HRC) & _) Hn He Hid Hz. cbv zeta. unfold delete_entry. rewrite (has_ni_true r n Hn), He.
  apply N.eqb_neq in Hid. rewrite Hid.
  destruct (nget i (tabh (sget r n))) as [g|] eqn:Hg.
  - assert (Hc : 0 <? cnt (rch (sget r n)) i = false).
    { apply N.ltb_ge. specialize (HRC n i). rewrite Hz in HRC. lia. }
    rewrite Hc. cbn [fst snd]. split; [reflexivity|]. split; [reflexivity|].
    apply (eff_of_teq r _ n (fun s' => set_tabh (ndel i (tabh s')) s')); [exact Hn| | |].
    + apply teq_refl.
    + cbv beta. rewrite (tlook_nh_same (ndel i) (sget r n) i), nget_ndel_same. reflexivity.
    + intros k' Hk'. cbv beta. apply (tlook_nh_other (ndel i) (sget r n) i); [|exact Hk']. intros j Hj. apply nget_ndel_other. exact Hj.
  - cbn [fst snd]. split; [reflexivity|]. split; [reflexivity|].
    assert (E : look r n (KNh i) = None) by (rewrite look_nh, Hg; reflexivity).
    rewrite <- E. apply eff_refl.
Qed.

Lemma has_member_nget i g : has_member i g = true -> nget i (g_nhs g) <> None.
Proof.
  intros H. rewrite has_member_inl in H. apply inl_In in H. apply nmem_in_keys in H.
  unfold nmem in H. destruct (nget i (g_nhs g)); [discriminate|discriminate].
Qed.

(* ================================================================== one operation at its turn *)
Section Converge.
  Variable ord : amap (ni * rop) -> amap (ni * rop).
  Hypothesis Hord : forall l, Permutation (ord l) l.
  Variables I T : rib.
  Hypothesis HI : INV I.
  Hypothesis HcI : closed I.
  Hypothesis HsI : stored_ok I.
  Hypothesis HT : INV T.
  Hypothesis HsT : stored_ok T.
  Hypothesis Hsub : forall n, has_ni I n = true -> has_ni T n = true.

  (* the target while the operations are being sent *)
  Definition Good (r : rib) : Prop := INV r /\ pend r = [] /\ forall m, has_ni r m = has_ni T m.
  (* key k of instance n has the intended content / exists if intended *)
  Definition Fixed (r : rib) (n : ni) (k : skey) : Prop := osent_equiv (look r n k) (look I n k).
  Definition Present (r : rib) (n : ni) (k : skey) : Prop := look I n k <> None -> look r n k <> None.
  Definition adv (r r' : rib) : Prop :=
    (forall n k, Fixed r n k -> Fixed r' n k) /\ (forall n k, Present r n k -> Present r' n k).
  Lemma adv_refl r : adv r r. Proof. split; auto. Qed.
  Lemma adv_trans a b c : adv a b -> adv b c -> adv a c.
  Proof. intros [A1 A2] [B1 B2]. split; auto. Qed.
  Lemma Fixed_Present r n k : Fixed r n k -> Present r n k.
  Proof.
    unfold Fixed, Present. intros H Hn E. rewrite E in H. destruct (look I n k); [|congruence]. exact H.
  Qed.

  Lemma eff_adv r r' n k v : eff r r' n k v -> osent_equiv v (look I n k) -> adv r r' /\ Fixed r' n k.
  Proof.
    intros (_ & Hv & Ho) He.
    assert (F : Fixed r' n k) by (unfold Fixed; rewrite Hv; exact He).
    split; [|exact F]. split; intros n' k' H.
    - destruct (nk_eq_dec (n', k') (n, k)) as [E|E]; [inversion E; subst; exact F|].
      unfold Fixed. rewrite (Ho _ _ E). exact H.
    - destruct (nk_eq_dec (n', k') (n, k)) as [E|E]; [inversion E; subst; apply Fixed_Present; exact F|].
      unfold Present. rewrite (Ho _ _ E). exact H.
  Qed.

  Definition step_good (r : rib) (o : rop) : Prop :=
    let res := apply_one v_fixed ord r o in
    op_ok (o, snd res) /\ Good (fst res) /\ adv r (fst res)
    /\ forall k, ekey (op_entry o) = Some k -> Fixed (fst res) (op_ni o) k.

  Lemma ni_nonzero n : has_ni T n = true -> n <> 0.
  Proof. destruct HsT as (H & _). apply H. Qed.

  (* ---- ADD of something installable ---- *)
  Lemma put_general r o : Good r -> op_kind o = ADD -> op_ni o <> 0 -> classify r (op_ni o) o = CInst ->
    let res := apply_one v_fixed ord r o in
    op_ok (o, snd res) /\ Good (fst res) /\ inst_eff r (op_ni o) o (fst res).
  Proof.
    intros (HIr & Hp & Hh) Hk Hn0 Hc. cbv zeta. unfold apply_one. rewrite Hk.
    apply (installable_iff v_fixed) in Hc. destruct Hc as (r1 & h & rv & Hi).
    pose proof (add_entry_INV ord r (op_ni o) o HIr) as HI'.
    rewrite (add_entry_quiet ord r _ o r1 h rv Hord Hp Hn0 Hi) in *. cbn [fst snd] in *.
    pose proof (try_install_effect _ _ _ _ _ _ _ Hi) as [Hn He].
    pose proof (inst_eff_le _ _ _ _ Hn He) as ([Hle _] & Hp1 & _).
    split; [repeat split; reflexivity|].
    split. { split; [exact HI'|]. split; [reflexivity|]. intros m. rewrite has_ni_set_pend, <- Hle. apply Hh. }
    destruct He as [t k kv pl Eo H1 H2 Tq|id pl Eo H1 Tq|idx pl Eo Tq].
    - eapply IE_top; eauto. apply teq_set_pend_nil; [exact Tq|]. rewrite pend_upd_ni. exact Hp.
    - eapply IE_grp; eauto. apply teq_set_pend_nil; [exact Tq|]. rewrite pend_upd_ni. exact Hp.
    - eapply IE_nh; eauto. apply teq_set_pend_nil; [exact Tq|]. rewrite pend_upd_ni. exact Hp.
  Qed.

  Lemma finish_put r o k v :
    (let res := apply_one v_fixed ord r o in op_ok (o, snd res) /\ Good (fst res) /\ eff r (fst res) (op_ni o) k v) ->
    ekey (op_entry o) = Some k -> osent_equiv v (look I (op_ni o) k) -> step_good r o.
  Proof.
    cbv zeta. intros (H1 & H2 & H3) Hk Hv. unfold step_good. cbv zeta.
    destruct (eff_adv _ _ _ _ _ H3 Hv) as [A F].
    split; [exact H1|]. split; [exact H2|]. split; [exact A|].
    intros k' Hk'. rewrite Hk in Hk'. inversion Hk'; subst. exact F.
  Qed.

  Lemma step_put_nh r id n i h : Good r -> has_ni T n = true -> look I n (KNh i) = Some (SNh i h) ->
    step_good r (mk_op id n ADD None (e_nh i h)).
  Proof.
    intros HG Hn HL. set (o := mk_op id n ADD None (e_nh i h)).
    assert (Hh : nget i (tabh (sget I n)) = Some h).
    { rewrite look_nh in HL. destruct (nget i (tabh (sget I n))); inversion HL; reflexivity. }
    destruct HsI as (_ & _ & _ & SH). destruct (SH _ _ _ Hh) as [Hi0 Hbad].
    pose proof HG as (_ & _ & Hhas).
    assert (Hc : classify r (op_ni o) o = CInst).
    { unfold classify. cbn [op_ni op_entry o mk_op e_nh]. rewrite Hhas, Hn, Hbad. cbn [negb is_replace op_kind mk_op andb].
      apply N.eqb_neq in Hi0. rewrite Hi0. reflexivity. }
    destruct (put_general r o HG eq_refl (ni_nonzero n Hn) Hc) as (H1 & H2 & H3).
    apply (finish_put r o (KNh i) (Some (SNh i h))); [|reflexivity|cbn [op_ni o mk_op]; rewrite HL; apply osent_equiv_refl].
    cbv zeta. split; [exact H1|]. split; [exact H2|].
    cbn [op_ni o mk_op] in *. assert (Hrn : has_ni r n = true) by (rewrite Hhas; exact Hn).
    destruct H3 as [t k kv pl Eo _ _ Tq|id' pl Eo _ Tq|idx pl Eo Tq]; cbn [op_entry mk_op e_nh] in Eo; inversion Eo; subst.
    apply (eff_of_teq r _ n _ _ _ Hrn Tq).
    - cbv beta. rewrite (tlook_nh_same (nset idx pl) (sget r n) idx), nget_nset_same. reflexivity.
    - intros k' Hk'. cbv beta. apply (tlook_nh_other (nset idx pl) (sget r n) idx); [|exact Hk'].
      intros j Hj. apply nget_nset_other. exact Hj.
  Qed.

  Lemma step_put_grp r id n g gid : Good r -> has_ni T n = true -> look I n (KGrp gid) = Some (SGrp gid g) ->
    (forall k, lvl_of k = LNh -> Present r n k) ->
    step_good r (mk_op id n ADD None (e_grp gid g)).
  Proof.
    intros HG Hn HL HP. set (o := mk_op id n ADD None (e_grp gid g)).
    assert (Hg : nget gid (tabg (sget I n)) = Some g).
    { rewrite look_grp in HL. destruct (nget gid (tabg (sget I n))); inversion HL; reflexivity. }
    destruct HsI as (_ & _ & SG & _). destruct (SG _ _ _ Hg) as (Hi0 & Hbad & Hne & Hz).
    pose proof HG as (_ & _ & Hhas).
    assert (HIn : has_ni I n = true) by (eapply look_some_has_ni; eauto).
    assert (Hwg : wf_grp g).
    { destruct HI as (HWF & _). destruct (WF_sget I n HWF) as (_ & _ & _ & _ & _ & _ & _ & HN). eapply HN; eauto. }
    assert (Hf : forallb (fun iw => nmem (fst iw) (tabh (sget r n))) (g_nhs g) = true).
    { apply forallb_forall. intros iw Hiw. destruct HcI as [C1 _].
      pose proof (C1 n gid g HIn Hg iw Hiw) as Hm. apply look_nh_nmem. apply (HP (KNh (fst iw)) eq_refl).
      apply look_nh_nmem. exact Hm. }
    assert (Hc : classify r (op_ni o) o = CInst).
    { unfold classify. cbn [op_ni op_entry o mk_op e_grp]. rewrite Hhas, Hn, Hbad. cbn [negb is_replace op_kind mk_op andb].
      apply N.eqb_neq in Hi0. rewrite Hi0. destruct (g_nhs g) as [|x l] eqn:E; [congruence|].
      rewrite Hz, Hf. reflexivity. }
    destruct (put_general r o HG eq_refl (ni_nonzero n Hn) Hc) as (H1 & H2 & H3).
    apply (finish_put r o (KGrp gid) (Some (SGrp gid g))); [|reflexivity|cbn [op_ni o mk_op]; rewrite HL; apply osent_equiv_refl].
    cbv zeta. split; [exact H1|]. split; [exact H2|].
    cbn [op_ni o mk_op] in *. assert (Hrn : has_ni r n = true) by (rewrite Hhas; exact Hn).
    destruct H3 as [t k kv pl Eo _ _ Tq|id' pl Eo _ Tq|idx pl Eo Tq]; cbn [op_entry mk_op e_grp] in Eo; inversion Eo; subst.
    apply (eff_of_teq r _ n _ _ _ Hrn Tq).
    - cbv beta. rewrite (tlook_grp_same (nset id' (norm_grp pl)) (sget r n) id'), nget_nset_same.
      rewrite (norm_grp_id pl Hwg). reflexivity.
    - intros k' Hk'. cbv beta. apply (tlook_grp_other (nset id' (norm_grp pl)) (sget r n) id'); [|exact Hk'].
      intros j Hj. apply nget_nset_other. exact Hj.
  Qed.

  Lemma step_put_top r id n t k p : Good r -> has_ni T n = true -> look I n (KTop t k) = Some (STop t k p) ->
    (forall m k', lvl_of k' = LNhg -> Present r m k') ->
    step_good r (mk_op id n ADD None (e_top t k p)).
  Proof.
    intros HG Hn HL HP. set (o := mk_op id n ADD None (e_top t k p)).
    assert (Hp : nget k (get_top t (sget I n)) = Some p).
    { rewrite look_top in HL. destruct (nget k (get_top t (sget I n))); inversion HL; reflexivity. }
    destruct HsI as (_ & ST & _ & _). destruct (ST _ _ _ _ Hp) as (Hko & Hbad & Hg0).
    pose proof HG as (_ & _ & Hhas).
    assert (HIn : has_ni I n = true) by (eapply look_some_has_ni; eauto).
    assert (Htn : has_ni r (fst (target n p)) = true).
    { rewrite Hhas. apply Hsub. destruct HI as (_ & _ & HTE). eapply HTE; eauto. }
    assert (Hm : nmem (t_nhg p) (tabg (sget r (fst (target n p)))) = true).
    { destruct HcI as [_ C2]. pose proof (C2 n t k p HIn Hp) as Hm.
      apply look_grp_nmem. apply (HP _ (KGrp (t_nhg p)) eq_refl). apply look_grp_nmem. exact Hm. }
    assert (Hc : classify r (op_ni o) o = CInst).
    { unfold classify. cbn [op_ni op_entry o mk_op e_top]. rewrite Hhas, Hn, Hko, Hbad. cbn [negb is_replace op_kind mk_op andb orb].
      apply N.eqb_neq in Hg0. rewrite Hg0, Htn, Hm. reflexivity. }
    destruct (put_general r o HG eq_refl (ni_nonzero n Hn) Hc) as (H1 & H2 & H3).
    apply (finish_put r o (KTop t k) (Some (STop t k p))); [|reflexivity|cbn [op_ni o mk_op]; rewrite HL; apply osent_equiv_refl].
    cbv zeta. split; [exact H1|]. split; [exact H2|].
    cbn [op_ni o mk_op] in *. assert (Hrn : has_ni r n = true) by (rewrite Hhas; exact Hn).
    destruct H3 as [t' k' kv pl Eo _ _ Tq|id' pl Eo _ Tq|idx pl Eo Tq]; cbn [op_entry mk_op e_top] in Eo; inversion Eo; subst.
    apply (eff_of_teq r _ n _ _ _ Hrn Tq).
    - cbv beta. rewrite (tlook_top_same t' (nset k' pl) (sget r n) k'), nget_nset_same. reflexivity.
    - intros k2 Hk2. cbv beta. apply (tlook_top_other t' (nset k' pl) (sget r n) k'); [|exact Hk2].
      intros j Hj. apply nget_nset_other. exact Hj.
  Qed.

  (* ---- DELETE ---- *)
  Lemma Good_delete r n o : Good r -> Good (fst (delete_entry v_fixed r n o)).
  Proof.
    intros (H1 & H2 & H3). destruct (delete_entry_le v_fixed r n o) as ([Hh _] & Hp & _).
    split; [apply delete_entry_INV; exact H1|]. split; [congruence|]. intros m. rewrite Hh. apply H3.
  Qed.

  Lemma finish_del r o k :
    op_kind o = DELETE -> has_ni r (op_ni o) = true -> Good r ->
    (let res := delete_entry v_fixed r (op_ni o) o in
     oks (snd res) = [op_id o] /\ fails (snd res) = [] /\ eff r (fst res) (op_ni o) k None) ->
    ekey (op_entry o) = Some k -> look I (op_ni o) k = None -> step_good r o.
  Proof.
    cbv zeta. intros Hk Hn HG (H1 & H2 & H3) Hkey HL. unfold step_good, apply_one. rewrite Hk. cbv zeta.
    assert (Hne : op_entry o <> ENone) by (intros E; rewrite E in Hkey; discriminate).
    destruct (delete_entry_nofatal v_fixed r (op_ni o) o Hn Hne) as [F1 F2].
    assert (Hv : osent_equiv None (look I (op_ni o) k)) by (rewrite HL; exact Logic.I).
    destruct (eff_adv _ _ _ _ _ H3 Hv) as [A F].
    split; [repeat split; assumption|]. split; [apply Good_delete; exact HG|]. split; [exact A|].
    intros k' Hk'. rewrite Hkey in Hk'. inversion Hk'; subst. exact F.
  Qed.

  Lemma step_del_top r id n t k p : Good r -> has_ni T n = true -> key_ok t k true = true ->
    look I n (KTop t k) = None -> step_good r (mk_op id n DELETE None (e_top t k p)).
  Proof.
    intros HG Hn Hk HL. set (o := mk_op id n DELETE None (e_top t k p)).
    pose proof HG as (_ & _ & Hhas). assert (Hrn : has_ni r n = true) by (rewrite Hhas; exact Hn).
    apply (finish_del r o (KTop t k)); [reflexivity|exact Hrn|exact HG| |reflexivity|exact HL].
    cbv zeta. cbn [op_ni o mk_op].
    destruct (delete_top_verdict r n o t k true (Some p) Hrn eq_refl Hk) as (V1 & V2 & _).
    split; [exact V1|]. split; [exact V2|].
    apply (eff_of_teq r _ n _ _ _ Hrn (delete_top_teq r n o t k true (Some p) Hrn eq_refl Hk)).
    - cbv beta. rewrite (tlook_top_same t (ndel k) (sget r n) k), nget_ndel_same. reflexivity.
    - intros k2 Hk2. cbv beta. apply (tlook_top_other t (ndel k) (sget r n) k); [|exact Hk2].
      intros j Hj. apply nget_ndel_other. exact Hj.
  Qed.

  Lemma step_del_grp r id n gid g : Good r -> has_ni T n = true -> gid <> 0 -> look I n (KGrp gid) = None ->
    (forall m k', lvl_of k' = LTop -> Fixed r m k') ->
    step_good r (mk_op id n DELETE None (e_grp gid g)).
  Proof.
    intros HG Hn Hg0 HL HF. set (o := mk_op id n DELETE None (e_grp gid g)).
    pose proof HG as (HIr & _ & Hhas). assert (Hrn : has_ni r n = true) by (rewrite Hhas; exact Hn).
    apply (finish_del r o (KGrp gid)); [reflexivity|exact Hrn|exact HG| |reflexivity|exact HL].
    cbn [op_ni o mk_op]. apply (delete_grp_eff r n o gid (Some g) HIr Hrn eq_refl Hg0).
    apply refs_nhg_zero_intro; [apply HIr|].
    intros m t k p Hm Hp Ht.
    pose proof (HF m (KTop t k) eq_refl) as Fx. unfold Fixed in Fx. rewrite !look_top, Hp in Fx. cbn [option_map] in Fx.
    destruct (nget k (get_top t (sget I m))) as [p'|] eqn:Hp'; cbn [option_map osent_equiv sent_equiv] in Fx; [|contradiction].
    inversion Fx; subst p'.
    assert (HIm : has_ni I m = true).
    { destruct (has_ni I m) eqn:E; [reflexivity|]. rewrite (sget_missing _ _ E) in Hp'. destruct t; discriminate. }
    destruct HcI as [_ C2]. pose proof (C2 m t k p HIm Hp') as Hmem. rewrite Ht in Hmem. cbn [fst snd] in Hmem.
    assert (Hgid : t_nhg p = gid) by (unfold target in Ht; inversion Ht; reflexivity).
    rewrite Hgid in Hmem. apply look_grp_nmem in Hmem. congruence.
  Qed.

  Lemma step_del_nh r id n i h : Good r -> has_ni T n = true -> i <> 0 -> look I n (KNh i) = None ->
    (forall k', lvl_of k' = LNhg -> Fixed r n k') ->
    step_good r (mk_op id n DELETE None (e_nh i h)).
  Proof.
    intros HG Hn Hi0 HL HF. set (o := mk_op id n DELETE None (e_nh i h)).
    pose proof HG as (HIr & _ & Hhas). assert (Hrn : has_ni r n = true) by (rewrite Hhas; exact Hn).
    apply (finish_del r o (KNh i)); [reflexivity|exact Hrn|exact HG| |reflexivity|exact HL].
    cbn [op_ni o mk_op]. apply (delete_nh_eff r n o i (Some h) HIr Hrn eq_refl Hi0).
    assert (Hwr : wf_ni (sget r n)) by (apply WF_sget, HIr).
    apply refs_nh_zero_intro; [apply Hwr|].
    intros gid g Hg. destruct (has_member i g) eqn:E; [|reflexivity]. exfalso.
    pose proof (HF (KGrp gid) eq_refl) as Fx. unfold Fixed in Fx. rewrite !look_grp, Hg in Fx. cbn [option_map] in Fx.
    destruct (nget gid (tabg (sget I n))) as [g'|] eqn:Hg'; cbn [option_map osent_equiv sent_equiv] in Fx; [|contradiction].
    destruct Fx as [_ (Hmem & _)].
    apply has_member_nget in E. rewrite Hmem in E.
    destruct (nget i (g_nhs g')) as [w|] eqn:Ew; [|congruence].
    assert (HIn : has_ni I n = true).
    { destruct (has_ni I n) eqn:E'; [reflexivity|]. rewrite (sget_missing _ _ E') in Hg'. discriminate. }
    destruct HcI as [C1 _]. pose proof (C1 n gid g' HIn Hg' (i, w) (nget_in _ _ _ Ew)) as Hm. cbn [fst] in Hm.
    apply look_nh_nmem in Hm. congruence.
  Qed.

  (* ---- the items of diff, at their turn ---- *)
  Lemma WF_I : WF I. Proof. apply HI. Qed.
  Lemma WF_T : WF T. Proof. apply HT. Qed.
  Notation items := (diff_items rv_fixed (abs I) (abs T)).

  Lemma look_top_some r n t k e : look r n (KTop t k) = Some e -> exists p, e = STop t k p /\ nget k (get_top t (sget r n)) = Some p.
  Proof. rewrite look_top. destruct (nget k (get_top t (sget r n))) as [p|]; cbn; intros H; inversion H. eauto. Qed.
  Lemma look_grp_some r n id e : look r n (KGrp id) = Some e -> exists g, e = SGrp id g /\ nget id (tabg (sget r n)) = Some g.
  Proof. rewrite look_grp. destruct (nget id (tabg (sget r n))) as [p|]; cbn; intros H; inversion H. eauto. Qed.
  Lemma look_nh_some r n i e : look r n (KNh i) = Some e -> exists h, e = SNh i h /\ nget i (tabh (sget r n)) = Some h.
  Proof. rewrite look_nh. destruct (nget i (tabh (sget r n))) as [p|]; cbn; intros H; inversion H. eauto. Qed.

  Lemma item_put it id r : In it items -> it_cat it <> CDelete -> Good r ->
    match it_lvl it with
    | LNh => True
    | LNhg => forall n k, lvl_of k = LNh -> Present r n k
    | LTop => forall n k, lvl_of k = LNhg -> Present r n k
    end -> step_good r (op_of id it).
  Proof.
    intros Hin Hc HG HR. destruct (diff_sound I T it WF_I WF_T Hsub Hin) as (Hn & k & Hk & Hl & Hm).
    assert (X : exists e, look I (it_ni it) k = Some e /\ it_entry it = entry_of e)
      by (destruct (it_cat it); [exact Hm|exact Hm|congruence]).
    destruct X as (e & He & Hent).
    assert (Hkind : kind_of (it_cat it) = ADD) by (destruct (it_cat it); [reflexivity|reflexivity|congruence]).
    unfold op_of. rewrite Hkind, Hent. rewrite Hl in HR.
    destruct k as [t k|gid|i]; cbn [lvl_of] in HR.
    - destruct (look_top_some _ _ _ _ _ He) as (p & -> & _). cbn [entry_of]. apply step_put_top; auto.
    - destruct (look_grp_some _ _ _ _ He) as (g & -> & _). cbn [entry_of]. apply step_put_grp; auto.
    - destruct (look_nh_some _ _ _ _ He) as (h & -> & _). cbn [entry_of]. apply step_put_nh; auto.
  Qed.

  Lemma item_del it id r : In it items -> it_cat it = CDelete -> Good r ->
    match it_lvl it with
    | LTop => True
    | LNhg => forall n k, lvl_of k = LTop -> Fixed r n k
    | LNh => forall n k, lvl_of k = LNhg -> Fixed r n k
    end -> step_good r (op_of id it).
  Proof.
    intros Hin Hc HG HR. destruct (diff_sound I T it WF_I WF_T Hsub Hin) as (Hn & k & Hk & Hl & Hm).
    rewrite Hc in Hm. destruct Hm as (HIk & e & He & Hent).
    unfold op_of. rewrite Hc, Hent. cbn [kind_of]. rewrite Hl in HR.
    destruct HsT as (_ & ST & SG & SH).
    destruct k as [t k|gid|i]; cbn [lvl_of] in HR.
    - destruct (look_top_some _ _ _ _ _ He) as (p & -> & Hp). cbn [entry_of]. apply step_del_top; auto.
      apply (ST _ _ _ _ Hp).
    - destruct (look_grp_some _ _ _ _ He) as (g & -> & Hg). cbn [entry_of]. apply step_del_grp; auto.
      apply (SG _ _ _ Hg).
    - destruct (look_nh_some _ _ _ _ He) as (h & -> & Hh). cbn [entry_of]. apply step_del_nh; auto.
      apply (SH _ _ _ Hh).
  Qed.

  (* ---- running a list of operations ---- *)
  Lemma apply_list_app r l1 l2 :
    apply_list v_fixed ord r (l1 ++ l2) =
    let '(r1, xs1) := apply_list v_fixed ord r l1 in
    let '(r2, xs2) := apply_list v_fixed ord r1 l2 in (r2, xs1 ++ xs2).
  Proof.
    revert r; induction l1 as [|o l1 IH]; intros r; cbn [app apply_list].
    - destruct (apply_list v_fixed ord r l2); reflexivity.
    - destruct (apply_one v_fixed ord r o) as [r1 x]. rewrite IH.
      destruct (apply_list v_fixed ord r1 l1) as [ra xa]. destruct (apply_list v_fixed ord ra l2). reflexivity.
  Qed.

  Definition run_ok (r : rib) (l : list rop) : Prop :=
    let res := apply_list v_fixed ord r l in
    Forall op_ok (snd res) /\ Good (fst res) /\ adv r (fst res)
    /\ forall o, In o l -> forall k, ekey (op_entry o) = Some k -> Fixed (fst res) (op_ni o) k.

  Lemma run_list (Ready : rib -> Prop) l :
    (forall r r', adv r r' -> Ready r -> Ready r') ->
    (forall r o, In o l -> Good r -> Ready r -> step_good r o) ->
    forall r, Good r -> Ready r -> run_ok r l.
  Proof.
    intros Hmono. induction l as [|o l IH]; intros Hstep r HG HR; unfold run_ok; cbn [apply_list].
    - cbn [fst snd]. split; [constructor|]. split; [exact HG|]. split; [apply adv_refl|]. intros o [].
    - pose proof (Hstep r o (or_introl eq_refl) HG HR) as S. unfold step_good in S. cbv zeta in S.
      destruct (apply_one v_fixed ord r o) as [r1 x] eqn:E1. cbn [fst snd] in S. destruct S as (S1 & S2 & S3 & S4).
      assert (IH' : run_ok r1 l).
      { apply IH; [intros r' o' Ho'; apply Hstep; right; exact Ho'|exact S2|eapply Hmono; eauto]. }
      unfold run_ok in IH'. cbv zeta in IH'. destruct (apply_list v_fixed ord r1 l) as [r2 xs] eqn:E2.
      cbn [fst snd] in *. destruct IH' as (I1 & I2 & I3 & I4).
      split; [constructor; assumption|]. split; [exact I2|]. split; [eapply adv_trans; eauto|].
      intros o' [<-|Hin] k Hk; [apply I3, S4; exact Hk|eapply I4; eauto].
  Qed.

  Lemma run_app r l1 l2 : run_ok r l1 -> run_ok (fst (apply_list v_fixed ord r l1)) l2 -> run_ok r (l1 ++ l2).
  Proof.
    unfold run_ok. cbv zeta. rewrite apply_list_app. destruct (apply_list v_fixed ord r l1) as [r1 xs1]. cbn [fst snd].
    destruct (apply_list v_fixed ord r1 l2) as [r2 xs2]. cbn [fst snd].
    intros (A1 & A2 & A3 & A4) (B1 & B2 & B3 & B4).
    split; [apply Forall_app; auto|]. split; [exact B2|]. split; [eapply adv_trans; eauto|].
    intros o Hin k Hk. apply in_app_iff in Hin. destruct Hin as [Hin|Hin]; [apply B3; eapply A4; eauto|eapply B4; eauto].
  Qed.

  Lemma run_extend (Ready : rib -> Prop) P L :
    run_ok T P -> (forall r r', adv r r' -> Ready r -> Ready r') ->
    Ready (fst (apply_list v_fixed ord T P)) ->
    (forall r o, In o L -> Good r -> Ready r -> step_good r o) -> run_ok T (P ++ L).
  Proof.
    intros HP Hm HR Hs. apply run_app; [exact HP|]. apply (run_list Ready); auto. apply HP.
  Qed.

  (* ---- the lists of the ReconcileOps ---- *)
  Variable base : N.
  Notation xs := (diff_seq rv_fixed (abs I) (abs T) base).

  Lemma cat_eqb_eq a b : cat_eqb a b = true -> a = b. Proof. destruct a, b; cbn; congruence. Qed.
  Lemma lvl_eqb_eq a b : lvl_eqb a b = true -> a = b. Proof. destruct a, b; cbn; congruence. Qed.
  Lemma cat_eqb_refl a : cat_eqb a a = true. Proof. destruct a; reflexivity. Qed.
  Lemma lvl_eqb_refl a : lvl_eqb a a = true. Proof. destruct a; reflexivity. Qed.

  Lemma sel_in c l o : In o (sel c l xs) ->
    exists it id, In it items /\ it_cat it = c /\ it_lvl it = l /\ o = op_of id it.
  Proof.
    unfold sel. intros H. apply in_map_iff in H. destruct H as ([it o'] & Eo & H). cbn [snd] in Eo. subst o'.
    apply filter_In in H. destruct H as [Hin Hf]. cbn [fst] in Hf. apply andb_true_iff in Hf. destruct Hf as [Hc Hl].
    apply number_in in Hin. destruct Hin as [Hit (i & ->)]. exists it, i.
    split; [exact Hit|]. split; [apply cat_eqb_eq; exact Hc|]. split; [apply lvl_eqb_eq; exact Hl|reflexivity].
  Qed.
  Lemma in_sel it : In it items -> exists id, In (op_of id it) (sel (it_cat it) (it_lvl it) xs).
  Proof.
    intros H. destruct (number_complete base _ _ H) as [i Hi]. exists i. unfold sel. apply in_map_iff.
    exists (it, op_of i it). split; [reflexivity|]. apply filter_In. split; [exact Hi|].
    cbn [fst]. rewrite cat_eqb_refl, lvl_eqb_refl. reflexivity.
  Qed.

  Lemma item_fixed P it : run_ok T P -> In it items ->
    (forall o, In o (sel (it_cat it) (it_lvl it) xs) -> In o P) ->
    forall k, ekey (it_entry it) = Some k -> Fixed (fst (apply_list v_fixed ord T P)) (it_ni it) k.
  Proof.
    intros (_ & _ & _ & HF) Hin Hs k Hk. destruct (in_sel it Hin) as [id Ho].
    apply (HF (op_of id it) (Hs _ Ho) k). exact Hk.
  Qed.

  (* after the additions of a level, every intended entry of that level exists on the target *)
  Lemma present_after P X : run_ok T P -> (forall o, In o (sel CAdd X xs) -> In o P) ->
    forall n k, lvl_of k = X -> Present (fst (apply_list v_fixed ord T P)) n k.
  Proof.
    intros HP Hs n k Hl. pose proof HP as (_ & _ & [AF AP] & _).
    destruct (look I n k) as [e|] eqn:He; [|unfold Present; congruence].
    assert (HIn : has_ni I n = true) by (eapply look_some_has_ni; eauto).
    pose proof (diff_complete I T n k WF_I WF_T Hsub (Hsub n HIn)) as C. rewrite He in C.
    destruct (look T n k) as [e'|] eqn:He'.
    - apply AP. unfold Present. intros _. rewrite He'. discriminate.
    - apply Fixed_Present.
      pose proof (item_fixed P _ HP C) as F. cbn [it_cat it_lvl it_ni it_entry mk_item] in F. rewrite Hl in F.
      apply (F Hs). rewrite ekey_entry_of'. unfold look in He. rewrite (tlook_key _ _ _ He). reflexivity.
  Qed.

  (* after the additions, replaces and deletions of a level, that level is as intended *)
  Lemma fixed_after P X : run_ok T P -> (forall c o, In o (sel c X xs) -> In o P) ->
    forall n k, lvl_of k = X -> Fixed (fst (apply_list v_fixed ord T P)) n k.
  Proof.
    intros HP Hs n k Hl. pose proof HP as (_ & (_ & _ & Hhas) & [AF AP] & _).
    destruct (has_ni T n) eqn:HTn.
    2:{ unfold Fixed. rewrite look_missing by (rewrite Hhas; exact HTn).
        rewrite look_missing; [exact Logic.I|]. destruct (has_ni I n) eqn:E; [|reflexivity]. rewrite (Hsub n E) in HTn. discriminate. }
    pose proof (diff_complete I T n k WF_I WF_T Hsub HTn) as C.
    destruct (look I n k) as [e|] eqn:He, (look T n k) as [e'|] eqn:He'.
    - destruct C as [C|C].
      + apply AF. unfold Fixed. rewrite He, He'. exact C.
      + pose proof (item_fixed P _ HP C) as F. cbn [it_cat it_lvl it_ni it_entry mk_item] in F. rewrite Hl in F.
        apply (F (Hs CReplace)). rewrite ekey_entry_of'. unfold look in He. rewrite (tlook_key _ _ _ He). reflexivity.
    - pose proof (item_fixed P _ HP C) as F. cbn [it_cat it_lvl it_ni it_entry mk_item] in F. rewrite Hl in F.
      apply (F (Hs CAdd)). rewrite ekey_entry_of'. unfold look in He. rewrite (tlook_key _ _ _ He). reflexivity.
    - pose proof (item_fixed P _ HP C) as F. cbn [it_cat it_lvl it_ni it_entry mk_item] in F. rewrite Hl in F.
      apply (F (Hs CDelete)). rewrite ekey_entry_of'. unfold look in He'. rewrite (tlook_key _ _ _ He'). reflexivity.
    - apply AF. unfold Fixed. rewrite He, He'. exact Logic.I.
  Qed.

  Lemma mono_present X r r' : adv r r' -> (forall n k, lvl_of k = X -> Present r n k) -> forall n k, lvl_of k = X -> Present r' n k.
  Proof. intros [_ A] H n k Hl. apply A, H, Hl. Qed.
  Lemma mono_fixed X r r' : adv r r' -> (forall n k, lvl_of k = X -> Fixed r n k) -> forall n k, lvl_of k = X -> Fixed r' n k.
  Proof. intros [A _] H n k Hl. apply A, H, Hl. Qed.

  Lemma steps_put l c (Ready : rib -> Prop) : c <> CDelete ->
    (forall r, Ready r -> match l with
                          | LNh => True
                          | LNhg => forall n k, lvl_of k = LNh -> Present r n k
                          | LTop => forall n k, lvl_of k = LNhg -> Present r n k
                          end) ->
    forall r o, In o (sel c l xs) -> Good r -> Ready r -> step_good r o.
  Proof.
    intros Hc HR r o Ho HG Hr. destruct (sel_in _ _ _ Ho) as (it & id & Hin & Hcat & Hlvl & ->).
    apply item_put; [exact Hin|congruence|exact HG|]. rewrite Hlvl. apply HR, Hr.
  Qed.
  Lemma steps_del l (Ready : rib -> Prop) :
    (forall r, Ready r -> match l with
                          | LTop => True
                          | LNhg => forall n k, lvl_of k = LTop -> Fixed r n k
                          | LNh => forall n k, lvl_of k = LNhg -> Fixed r n k
                          end) ->
    forall r o, In o (sel CDelete l xs) -> Good r -> Ready r -> step_good r o.
  Proof.
    intros HR r o Ho HG Hr. destruct (sel_in _ _ _ Ho) as (it & id & Hin & Hcat & Hlvl & ->).
    apply item_del; [exact Hin|exact Hcat|exact HG|]. rewrite Hlvl. apply HR, Hr.
  Qed.

  Theorem converges : pend T = [] ->
    let res := apply_in_order v_fixed ord T (diff rv_fixed (abs I) (abs T) base) in
    Forall op_ok (snd res) /\ INV (fst res) /\ pend (fst res) = []
    /\ forall n, has_ni (fst res) n = has_ni T n /\ tabs_equiv (tabs_of (sget (fst res) n)) (tabs_of (sget I n)).
  Proof.
    intros HpT. cbv zeta. unfold apply_in_order, ordered, diff.
    cbn [r_add r_replace r_delete ops_of o_nh o_nhg o_top].
    set (A1 := sel CAdd LNh xs). set (A2 := sel CAdd LNhg xs). set (A3 := sel CAdd LTop xs).
    set (P1 := sel CReplace LNh xs). set (P2 := sel CReplace LNhg xs). set (P3 := sel CReplace LTop xs).
    set (D3 := sel CDelete LTop xs). set (D2 := sel CDelete LNhg xs). set (D1 := sel CDelete LNh xs).
    assert (GT : Good T) by (split; [exact HT|split; [exact HpT|reflexivity]]).
    assert (R0 : run_ok T []).
    { unfold run_ok; cbn. split; [constructor|]. split; [exact GT|]. split; [apply adv_refl|]. intros o []. }
    assert (mono_true : forall r r' : rib, adv r r' -> True -> True) by auto.
    assert (R1 : run_ok T ([] ++ A1)).
    { apply (run_extend (fun _ => True)); auto. apply steps_put; [discriminate|auto]. }
    assert (R2 : run_ok T (([] ++ A1) ++ A2)).
    { apply (run_extend (fun r => forall n k, lvl_of k = LNh -> Present r n k)); [exact R1|apply mono_present| |].
      - apply present_after; [exact R1|]. intros o Ho. rewrite !in_app_iff. tauto.
      - apply steps_put; [discriminate|auto]. }
    assert (R3 : run_ok T ((([] ++ A1) ++ A2) ++ A3)).
    { apply (run_extend (fun r => forall n k, lvl_of k = LNhg -> Present r n k)); [exact R2|apply mono_present| |].
      - apply present_after; [exact R2|]. intros o Ho. rewrite !in_app_iff. tauto.
      - apply steps_put; [discriminate|auto]. }
    assert (R4 : run_ok T (((([] ++ A1) ++ A2) ++ A3) ++ P1)).
    { apply (run_extend (fun _ => True)); auto. apply steps_put; [discriminate|auto]. }
    assert (R5 : run_ok T ((((([] ++ A1) ++ A2) ++ A3) ++ P1) ++ P2)).
    { apply (run_extend (fun r => forall n k, lvl_of k = LNh -> Present r n k)); [exact R4|apply mono_present| |].
      - apply present_after; [exact R4|]. intros o Ho. rewrite !in_app_iff. tauto.
      - apply steps_put; [discriminate|auto]. }
    assert (R6 : run_ok T (((((([] ++ A1) ++ A2) ++ A3) ++ P1) ++ P2) ++ P3)).
    { apply (run_extend (fun r => forall n k, lvl_of k = LNhg -> Present r n k)); [exact R5|apply mono_present| |].
      - apply present_after; [exact R5|]. intros o Ho. rewrite !in_app_iff. tauto.
      - apply steps_put; [discriminate|auto]. }
    assert (R7 : run_ok T ((((((([] ++ A1) ++ A2) ++ A3) ++ P1) ++ P2) ++ P3) ++ D3)).
    { apply (run_extend (fun _ => True)); auto. apply steps_del; auto. }
    assert (R8 : run_ok T (((((((([] ++ A1) ++ A2) ++ A3) ++ P1) ++ P2) ++ P3) ++ D3) ++ D2)).
    { apply (run_extend (fun r => forall n k, lvl_of k = LTop -> Fixed r n k)); [exact R7|apply mono_fixed| |].
      - apply fixed_after; [exact R7|]. intros c o Ho. rewrite !in_app_iff. destruct c; tauto.
      - apply steps_del; auto. }
    assert (R9 : run_ok T ((((((((([] ++ A1) ++ A2) ++ A3) ++ P1) ++ P2) ++ P3) ++ D3) ++ D2) ++ D1)).
    { apply (run_extend (fun r => forall n k, lvl_of k = LNhg -> Fixed r n k)); [exact R8|apply mono_fixed| |].
      - apply fixed_after; [exact R8|]. intros c o Ho. rewrite !in_app_iff. destruct c; tauto.
      - apply steps_del; auto. }
    assert (E : A1 ++ A2 ++ A3 ++ P1 ++ P2 ++ P3 ++ D3 ++ D2 ++ D1
                = (((((((([] ++ A1) ++ A2) ++ A3) ++ P1) ++ P2) ++ P3) ++ D3) ++ D2) ++ D1).
    { cbn [app]. rewrite !app_assoc. reflexivity. }
    rewrite E. pose proof R9 as (F1 & (F2 & F3 & F4) & _ & _).
    split; [exact F1|]. split; [exact F2|]. split; [exact F3|].
    intros n. split; [apply F4|]. intros k.
    assert (Fx : Fixed (fst (apply_list v_fixed ord T
                  ((((((((([] ++ A1) ++ A2) ++ A3) ++ P1) ++ P2) ++ P3) ++ D3) ++ D2) ++ D1))) n k).
    { apply (fixed_after _ (lvl_of k)); [exact R9| |reflexivity].
      intros c o Ho. rewrite !in_app_iff. destruct c, (lvl_of k); tauto. }
    exact Fx.
  Qed.
End Converge.

(* ================================================================== concrete states *)
Lemma stored_okb_sound r : stored_okb r = true -> stored_ok r.
Proof.
  unfold stored_okb. rewrite forallb_forall. intros H.
  assert (G : forall n, has_ni r n = true ->
    n <> 0 /\ forallb (top_okb T4) (tab4 (sget r n)) = true /\ forallb (top_okb T6) (tab6 (sget r n)) = true
    /\ forallb (top_okb TL) (tabl (sget r n)) = true /\ forallb grp_okb (tabg (sget r n)) = true
    /\ forallb nh_okb (tabh (sget r n)) = true).
  { intros n Hn. apply has_ni_true in Hn. apply nget_in in Hn. specialize (H _ Hn). cbn [fst snd] in H.
    rewrite !andb_true_iff in H. destruct H as (((((H0 & H4) & H6) & HL) & HG) & HH).
    split; [intros ->; discriminate|]. auto. }
  assert (E : forall n, has_ni r n = false -> sget r n = ni_empty false) by (intros; apply sget_missing; assumption).
  split; [intros n Hn; apply (G n Hn)|]. split; [|split].
  - intros n t k p Hp. destruct (has_ni r n) eqn:Hn.
    + destruct (G n Hn) as (_ & H4 & H6 & HL & _).
      assert (Hf : forallb (top_okb t) (get_top t (sget r n)) = true) by (destruct t; assumption).
      rewrite forallb_forall in Hf. specialize (Hf _ (nget_in _ _ _ Hp)). unfold top_okb in Hf. cbn [fst snd] in Hf.
      rewrite !andb_true_iff, !negb_true_iff in Hf. destruct Hf as ((A & B) & C).
      split; [exact A|]. split; [exact B|]. apply N.eqb_neq. exact C.
    + rewrite (E n Hn) in Hp. destruct t; discriminate.
  - intros n id g Hg. destruct (has_ni r n) eqn:Hn.
    + destruct (G n Hn) as (_ & _ & _ & _ & HG & _).
      rewrite forallb_forall in HG. specialize (HG _ (nget_in _ _ _ Hg)). unfold grp_okb in HG. cbn [fst snd] in HG.
      rewrite !andb_true_iff, !negb_true_iff in HG. destruct HG as (((A & B) & C) & D).
      split; [apply N.eqb_neq; exact A|]. split; [exact B|]. split; [|exact D].
      destruct (g_nhs g); [discriminate|discriminate].
    + rewrite (E n Hn) in Hg. discriminate.
  - intros n i h Hh. destruct (has_ni r n) eqn:Hn.
    + destruct (G n Hn) as (_ & _ & _ & _ & _ & HH).
      rewrite forallb_forall in HH. specialize (HH _ (nget_in _ _ _ Hh)). unfold nh_okb in HH. cbn [fst snd] in HH.
      rewrite !andb_true_iff, !negb_true_iff in HH. destruct HH as (A & B).
      split; [apply N.eqb_neq; exact A|exact B].
    + rewrite (E n Hn) in Hh. discriminate.
Qed.

(* RIBs built by [Reconciler.build] (instances, then ADDs) satisfy the counter invariant *)
Lemma build_INV nf nisl l : INV (build nf nisl l).
Proof.
  unfold build.
  assert (A : forall nisl r, INV r -> INV (fold_left (fun r n => add_network_instance v_fixed n r) nisl r)).
  { induction nisl0 as [|n tl IH]; intros r Hr; cbn [fold_left]; [exact Hr|]. apply IH, add_network_instance_INV, Hr. }
  assert (B : forall l r, INV r -> INV (fold_left (fun r o => fst (add_entry v_fixed (canon [] []) r (op_ni o) o)) l r)).
  { induction l0 as [|o tl IH]; intros r Hr; cbn [fold_left]; [exact Hr|]. apply IH, add_entry_INV, Hr. }
  apply B, A, INV_rib0.
Qed.

(* ---- the pinned tree: an instance only the target has is never visited ---- *)
(* intended: DEFAULT (1) with next-hop 1, group 1 over it and 1.0.0.0/8 -> group 1;
   target: the same, plus instance 2 holding a next-hop and an IPv4 entry that points at group 1 of instance 1 *)
Definition ex_ops : list rop :=
  [mk_op 1 1 ADD None (ENh 1 (Some (mk_nh [])));
   mk_op 2 1 ADD None (EGrp 1 (Some (mk_grp [(1, 1)] 0 [])));
   mk_op 3 1 ADD None (ETop T4 1 true (Some (mk_top 1 0 [])))].
Definition ex_intended : rib := build false [] ex_ops.
Definition ex_target : rib :=
  build false [2] (ex_ops ++ [mk_op 4 2 ADD None (ENh 7 (Some (mk_nh [])));
                              mk_op 5 2 ADD None (ETop T4 2 true (Some (mk_top 1 1 [])))]).
(* intended: group 1 over next-hop 2 only, and no 2.0.0.0/8 any more; target as above without instance 2's contents *)
Definition ex_intended2 : rib :=
  build false [] [mk_op 1 1 ADD None (ENh 2 (Some (mk_nh [])));
                  mk_op 2 1 ADD None (EGrp 2 (Some (mk_grp [(2, 1)] 0 [])));
                  mk_op 3 1 ADD None (ETop T4 1 true (Some (mk_top 2 0 [])))].

Lemma ex_nis_sub :
  (forall n, has_ni ex_intended n = true -> has_ni ex_target n = true)
  /\ (forall n, has_ni ex_intended2 n = true -> has_ni ex_target n = true).
Proof.
  split; intros n; unfold has_ni, nmem, nget, aget; vm_compute; destruct n as [|[p|p|]]; try discriminate; reflexivity.
Qed.
Lemma ex_hyps :
  (INV ex_intended /\ closed ex_intended /\ stored_ok ex_intended /\ pend ex_intended = [])
  /\ (INV ex_target /\ closed ex_target /\ stored_ok ex_target /\ pend ex_target = [])
  /\ (INV ex_intended2 /\ closed ex_intended2 /\ stored_ok ex_intended2 /\ pend ex_intended2 = []).
Proof.
  assert (X : forall r nf nisl l, r = build nf nisl l -> closedb r = true -> stored_okb r = true -> pend r = [] ->
              INV r /\ closed r /\ stored_ok r /\ pend r = []).
  { intros r nf nisl l -> H1 H2 H3. split; [apply build_INV|]. split; [apply closedb_sound; exact H1|].
    split; [apply stored_okb_sound; exact H2|exact H3]. }
  split; [|split]; eapply X; try reflexivity; vm_compute; reflexivity.
Qed.

Lemma op_ok_okb x : op_ok x -> op_okb x = true.
Proof.
  intros (H1 & H2 & H3 & H4). unfold op_okb. rewrite H1, H2, H3, H4. cbn. rewrite N.eqb_refl. reflexivity.
Qed.
Lemma Forall_op_ok_okb l : Forall op_ok l -> forallb op_okb l = true.
Proof. intros H. apply forallb_forall. intros x Hx. apply op_ok_okb. rewrite Forall_forall in H. apply H, Hx. Qed.

(* no operation at all, and instance 2 keeps its entries *)
Lemma tree_ignores_target_only_instance :
  let ro := diff rv_tree (abs ex_intended) (abs ex_target) 0 in
  let res := apply_in_order v_fixed idord ex_target ro in
  is_empty ro = true /\ has_ni ex_target 2 = true
  /\ ~ tabs_equiv (tabs_of (sget (fst res) 2)) (tabs_of (sget ex_intended 2)).
Proof.
  cbv zeta. split; [vm_compute; reflexivity|]. split; [vm_compute; reflexivity|].
  intros H. specialize (H (KNh 7)). vm_compute in H. exact H.
Qed.
(* the group the forgotten instance still points at cannot be deleted *)
Lemma tree_delete_fails :
  let ro := diff rv_tree (abs ex_intended2) (abs ex_target) 0 in
  let res := apply_in_order v_fixed idord ex_target ro in
  ~ Forall op_ok (snd res).
Proof.
  cbv zeta. intros H. apply Forall_op_ok_okb in H. vm_compute in H. discriminate.
Qed.
(* with the instance visited the same pair converges (an instance of [converges], here by evaluation) *)
Lemma fixed_example :
  let ro := diff rv_fixed (abs ex_intended2) (abs ex_target) 0 in
  let res := apply_in_order v_fixed idord ex_target ro in
  map op_id (ordered ro) = [3; 2; 1; 6; 4; 5; 7] /\ forallb op_okb (snd res) = true
  /\ state_eqb (state_obs (fst res))
               (state_obs (build false [2] [mk_op 1 1 ADD None (ENh 2 (Some (mk_nh [])));
                                             mk_op 2 1 ADD None (EGrp 2 (Some (mk_grp [(2, 1)] 0 [])));
                                             mk_op 3 1 ADD None (ETop T4 1 true (Some (mk_top 2 0 [])))])) = true.
Proof. vm_compute. repeat split. Qed.

(* ---- the statements of Properties/C15.v ---- *)
Lemma converges_stmt ord I T base :
  (forall l, Permutation (ord l) l) ->
  INV I -> closed I -> stored_ok I ->
  INV T -> stored_ok T -> pend T = [] ->
  (forall n, has_ni I n = true -> has_ni T n = true) ->
  let res := apply_in_order v_fixed ord T (diff rv_fixed (abs I) (abs T) base) in
  Forall op_ok (snd res) /\ INV (fst res) /\ pend (fst res) = []
  /\ forall n, has_ni (fst res) n = has_ni T n
               /\ tabs_equiv (tabs_of (sget (fst res) n)) (tabs_of (sget I n)).
Proof. intros Hord HI HcI HsI HT HsT Hp Hsub. exact (converges ord Hord I T HI HcI HsI HT HsT Hsub base Hp). Qed.

Lemma tree_refuted_contents :
  exists I T base,
    INV I /\ closed I /\ stored_ok I /\ INV T /\ closed T /\ stored_ok T /\ pend T = []
    /\ (forall n, has_ni I n = true -> has_ni T n = true)
    /\ let ro := diff rv_tree (abs I) (abs T) base in
       let res := apply_in_order v_fixed idord T ro in
       is_empty ro = true
       /\ exists n, has_ni T n = true /\ ~ tabs_equiv (tabs_of (sget (fst res) n)) (tabs_of (sget I n)).
Proof.
  exists ex_intended, ex_target, 0.
  destruct ex_hyps as ((A1 & A2 & A3 & _) & (B1 & B2 & B3 & B4) & _). destruct ex_nis_sub as [S _].
  generalize tree_ignores_target_only_instance. cbv zeta. intros (E1 & E2 & E3).
  do 8 (split; [assumption|]). cbv zeta. split; [exact E1|]. exists 2. split; [exact E2|exact E3].
Qed.
Lemma tree_refuted_failed :
  exists I T base,
    INV I /\ closed I /\ stored_ok I /\ INV T /\ closed T /\ stored_ok T /\ pend T = []
    /\ (forall n, has_ni I n = true -> has_ni T n = true)
    /\ ~ Forall op_ok (snd (apply_in_order v_fixed idord T (diff rv_tree (abs I) (abs T) base))).
Proof.
  exists ex_intended2, ex_target, 0.
  destruct ex_hyps as (_ & (B1 & B2 & B3 & B4) & (A1 & A2 & A3 & _)). destruct ex_nis_sub as [_ S].
  do 8 (split; [assumption|]). exact tree_delete_fails.
Qed.
