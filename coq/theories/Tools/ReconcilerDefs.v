(* Vocabulary of the C15 statements: stored entries by key, sameness of contents, acceptable stored
   entries.  Definitions only (proofs in Tools/ReconcilerFacts.v, Tools/ReconcilerConv.v). *)
From Coq Require Import List Bool NArith.
From GV.Base Require Import Alist U128 Op.
From GV.Rib Require Import Model Lemmas Run Spec.
From GV.Tools Require Import Reconciler.
Import ListNotations.
Open Scope N_scope.

(* ================================================================== vocabulary of the statements *)
(* a stored entry by table key: [Spec.tlook] on the tables of an instance (empty if it does not exist) *)
Definition look (r : rib) (n : ni) (k : skey) : option sentry := tlook (tabs_of (sget r n)) k.

(* the members of a group are a map, so two groups are the same when they bind the same members *)
Definition grp_equiv (a b : grp) : Prop :=
  (forall i, nget i (g_nhs a) = nget i (g_nhs b)) /\ g_bk a = g_bk b /\ g_x a = g_x b /\ g_bad a = g_bad b.
Definition sent_equiv (a b : sentry) : Prop :=
  match a, b with
  | SGrp i g, SGrp j h => i = j /\ grp_equiv g h
  | _, _ => a = b
  end.
Definition osent_equiv (a b : option sentry) : Prop :=
  match a, b with
  | Some x, Some y => sent_equiv x y
  | None, None => True
  | _, _ => False
  end.
(* the same contents in all five tables *)
Definition tabs_equiv (x y : tabs) : Prop := forall k, osent_equiv (tlook x k) (tlook y k).

(* the stored entries are ones AddEntry accepts (it installs nothing else) *)
Definition stored_ok (r : rib) : Prop :=
  (forall n, has_ni r n = true -> n <> 0)
  /\ (forall n t k p, nget k (get_top t (sget r n)) = Some p ->
        key_ok t k true = true /\ t_bad p = false /\ t_nhg p <> 0)
  /\ (forall n id g, nget id (tabg (sget r n)) = Some g ->
        id <> 0 /\ g_bad g = false /\ g_nhs g <> [] /\ existsb (fun iw => fst iw =? 0) (g_nhs g) = false)
  /\ (forall n i h, nget i (tabh (sget r n)) = Some h -> i <> 0 /\ h_bad h = false).

Definition op_ok (x : rop * out) : Prop :=
  oks (snd x) = [op_id (fst x)] /\ fails (snd x) = [] /\ fatal (snd x) = false /\ nofuel (snd x) = false.

Definition entry_of (e : sentry) : entry :=
  match e with STop t k p => e_top t k p | SGrp id g => e_grp id g | SNh i h => e_nh i h end.
Definition lvl_of (k : skey) : lvl := match k with KTop _ _ => LTop | KGrp _ => LNhg | KNh _ => LNh end.

(* boolean checker of [stored_ok] for concrete states *)
Definition top_okb (t : tkind) (kp : N * top) : bool :=
  key_ok t (fst kp) true && negb (t_bad (snd kp)) && negb (t_nhg (snd kp) =? 0).
Definition grp_okb (ig : N * grp) : bool :=
  negb (fst ig =? 0) && negb (g_bad (snd ig)) && match g_nhs (snd ig) with [] => false | _ => true end
  && negb (existsb (fun iw => fst iw =? 0) (g_nhs (snd ig))).
Definition nh_okb (ih : N * nhp) : bool := negb (fst ih =? 0) && negb (h_bad (snd ih)).
Definition stored_okb (r : rib) : bool :=
  forallb (fun ns : N * nistate =>
    negb (fst ns =? 0)
    && forallb (top_okb T4) (tab4 (snd ns)) && forallb (top_okb T6) (tab6 (snd ns)) && forallb (top_okb TL) (tabl (snd ns))
    && forallb grp_okb (tabg (snd ns)) && forallb nh_okb (tabh (snd ns))) (nis r).
