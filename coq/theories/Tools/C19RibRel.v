(* C19 support: the RIB model's operations respect an observational relation between two RIB
   states: same instances, same installed tables and hook flags per instance, held operations
   equal up to a renaming g of operations that keeps everything the RIB looks at.  Reference
   counters and the order of the instance list are not compared: under INV they are determined
   (up to observation) by the tables. *)
From Coq Require Import List NArith Bool Lia Permutation.
From GV.Base Require Import Alist U128 Op.
From GV.Rib Require Import Model Lemmas RefDefs RefCount FlushFacts Run.
From GV.Server Require Import Inst.
Import ListNotations.
Open Scope N_scope.

(* ------------------------------------------------------------------ generic helpers *)
Definition phi {V} (f : N * V -> nat) (k : N) (o : option V) : nat :=
  match o with Some v => f (k, v) | None => 0%nat end.

Lemma nget_cons {V} k k' (v : V) l : nget k ((k', v) :: l) = if k =? k' then Some v else nget k l.
Proof. unfold nget, aget. cbn [find fst]. destruct (k =? k'); reflexivity. Qed.

(* two duplicate-free association lists with the same keys and key-wise equal summands have equal sums,
   whatever their order *)
Lemma asum_keyed {V V'} (f : N * V -> nat) (f' : N * V' -> nat) (l : amap V) : forall (l' : amap V'),
  wf l -> wf l' ->
  (forall k, nmem k l = nmem k l') ->
  (forall k, phi f k (nget k l) = phi f' k (nget k l')) ->
  asum f l = asum f' l'.
Proof.
  induction l as [|[k v] l IH]; intros l' Hw Hw' Hm Hp.
  - destruct l' as [|[k' v'] l']; [reflexivity|]. specialize (Hm k'). unfold nmem in Hm.
    rewrite nget_cons, N.eqb_refl in Hm. discriminate.
  - rewrite asum_cons. rewrite (asum_ndel f' k l' Hw').
    unfold wf, keys in Hw. cbn [map fst] in Hw. inversion Hw as [|? ? Hni Hnd]; subst.
    assert (Hnl : nget k l = None).
    { destruct (nget k l) eqn:E; [|reflexivity]. exfalso. apply Hni. apply nmem_in_keys. unfold nmem. rewrite E. reflexivity. }
    pose proof (Hp k) as Hk. rewrite nget_cons, N.eqb_refl in Hk. cbn [phi] in Hk.
    pose proof (Hm k) as Hmk. unfold nmem in Hmk. rewrite nget_cons, N.eqb_refl in Hmk.
    destruct (nget k l') as [v'|] eqn:E'; [|discriminate]. cbn [phi] in Hk.
    rewrite (IH (ndel k l')).
    + lia.
    + exact Hnd.
    + apply wf_ndel. exact Hw'.
    + intros k2. unfold nmem. rewrite nget_ndel. destruct (N.eqb_spec k k2) as [<-|Hne].
      * rewrite Hnl. reflexivity.
      * specialize (Hm k2). unfold nmem in Hm. rewrite nget_cons in Hm.
        destruct (N.eqb_spec k2 k); [congruence|]. exact Hm.
    + intros k2. rewrite nget_ndel. destruct (N.eqb_spec k k2) as [<-|Hne].
      * rewrite Hnl. reflexivity.
      * specialize (Hp k2). rewrite nget_cons in Hp.
        destruct (N.eqb_spec k2 k); [congruence|]. exact Hp.
Qed.

Lemma forallb_ext_all {A} (f f' : A -> bool) l : (forall x, f x = f' x) -> forallb f l = forallb f' l.
Proof. intros H. induction l as [|x l IH]; cbn [forallb]; [reflexivity|]. rewrite H, IH. reflexivity. Qed.

Lemma tabs_of_inj s s' : tabs_of s = tabs_of s' ->
  tab4 s = tab4 s' /\ tab6 s = tab6 s' /\ tabl s = tabl s' /\ tabg s = tabg s' /\ tabh s = tabh s'.
Proof. unfold tabs_of. intros H. inversion H. repeat split; reflexivity. Qed.
Lemma get_top_tabs t s s' : tabs_of s = tabs_of s' -> get_top t s = get_top t s'.
Proof. intros H. destruct (tabs_of_inj _ _ H) as (E4 & E6 & EL & _). destruct t; assumption. Qed.

Lemma dflt_upd_ni a f r : dflt (upd_ni a f r) = dflt r.
Proof. unfold upd_ni. destruct (nget a (nis r)); reflexivity. Qed.

Lemma phi_sget r n i k : phi (ni_refs n i) k (nget k (nis r)) = ni_refs n i (k, sget r k).
Proof. unfold sget. destruct (nget k (nis r)); reflexivity. Qed.

(* ------------------------------------------------------------------ frame of flush: hook flags and configuration *)
Definition fr (r r' : GV.Rib.Model.rib) : Prop :=
  (forall m, hooked (sget r' m) = hooked (sget r m))
  /\ dflt r' = dflt r /\ nofwd r' = nofwd r /\ rib_hooked r' = rib_hooked r /\ res_hooked r' = res_hooked r.
Lemma fr_refl r : fr r r.
Proof. repeat split; reflexivity. Qed.
Lemma fr_trans r1 r2 r3 : fr r1 r2 -> fr r2 r3 -> fr r1 r3.
Proof.
  intros (A1 & A2 & A3 & A4 & A5) (B1 & B2 & B3 & B4 & B5).
  split; [intros m; rewrite B1; apply A1|]. repeat split; congruence.
Qed.
Lemma fr_upd x f r : (forall s, hooked (f s) = hooked s) -> fr r (upd_ni x f r).
Proof.
  intros Hf. split; [|split; [apply dflt_upd_ni|split; [apply nofwd_upd_ni|split; [apply rib_hooked_upd_ni|apply res_hooked_upd_ni]]]].
  intros m. rewrite sget_upd_ni. destruct (N.eqb_spec x m) as [->|]; cbn [andb]; [|reflexivity].
  destruct (has_ni r m); [apply Hf|reflexivity].
Qed.

Lemma flush_top_fr t n r : fr r (fst (flush_top t n r)).
Proof.
  unfold flush_top. destruct (nget n (nis r)) as [s|]; [|apply fr_refl]. cbn [fst].
  eapply fr_trans; [|apply fr_upd; intros s0; apply hooked_set_top].
  generalize (get_top t s). intros l. revert r. induction l as [|kv l IH]; intros r; cbn [fold_left]; [apply fr_refl|].
  eapply fr_trans; [|apply IH]. destruct (target n (snd kv)) as [tn tg]. apply fr_upd. reflexivity.
Qed.

Lemma flush_ni_fr v n r : fr r (fst (fst (flush_ni v n r))).
Proof.
  unfold flush_ni. destruct (nget n (nis r)) as [s0|]; [|apply fr_refl].
  pose proof (flush_top_fr T4 n r) as F1. destruct (flush_top T4 n r) as [r1 h4]. cbn [fst] in F1.
  pose proof (flush_top_fr T6 n r1) as F2. destruct (flush_top T6 n r1) as [r2 h6]. cbn [fst] in F2.
  pose proof (flush_top_fr TL n r2) as F3. destruct (flush_top TL n r2) as [r3 hl]. cbn [fst] in F3.
  cbn [fst].
  eapply fr_trans; [|apply fr_upd; reflexivity].
  eapply fr_trans; [|apply fr_upd; reflexivity].
  eapply fr_trans; [exact F1|]. eapply fr_trans; [exact F2|exact F3].
Qed.

Lemma flush_fr v l r : fr r (fst (fst (flush v l r))).
Proof.
  unfold flush.
  assert (G : forall l (acc : GV.Rib.Model.rib * list hevent * bool),
             fr (fst (fst acc))
                (fst (fst (fold_left (fun acc n => let '(r', h, e) := acc in
                                                   let '(r'', h', e') := flush_ni v n r' in (r'', h ++ h', e || e')) l acc)))).
  { clear l r. induction l as [|n l IH]; intros [[r h] e]; cbn [fold_left fst]; [apply fr_refl|].
    pose proof (flush_ni_fr v n r) as F. destruct (flush_ni v n r) as [[r'' h'] e']. cbn [fst] in F.
    eapply fr_trans; [exact F|]. apply (IH (r'', h ++ h', e || e')). }
  apply (G l (r, [], false)).
Qed.

(* functions on instance states whose effect on tables and hook flag depends on tables and hook flag only *)
Definition resp (f : nistate -> nistate) : Prop :=
  forall s s', tabs_of s = tabs_of s' -> hooked s = hooked s' ->
               tabs_of (f s) = tabs_of (f s') /\ hooked (f s) = hooked (f s').

Ltac resp_tac :=
  let Ht := fresh "Ht" in let Hh := fresh "Hh" in
  intros [? ? ? ? ? ? ? ?] [? ? ? ? ? ? ? ?] Ht Hh; unfold tabs_of in Ht; cbn in Ht, Hh;
  inversion Ht; subst;
  repeat match goal with t : tkind |- _ => destruct t end; split; reflexivity.

Definition oeq (x y : out) : Prop :=
  oks x = oks y /\ fails x = fails y /\ fatal x = fatal y /\ nofuel x = nofuel y.

Section RibRel.
  Variable g : rop -> rop.                       (* a renaming of operations that keeps everything the RIB looks at *)
  Hypothesis g_id : forall o, op_id (g o) = op_id o.
  Hypothesis g_kind : forall o, op_kind (g o) = op_kind o.
  Hypothesis g_entry : forall o, op_entry (g o) = op_entry o.

  Definition gp (e : N * (N * rop)) : N * (N * rop) := (fst e, (fst (snd e), g (snd (snd e)))).

  (* same instances, same installed tables and hook flags per instance, held operations equal up to g,
     same configuration; the reference counters and the order of the instance list are NOT compared
     (they are determined up to observation by INV) *)
  Definition rrel (a b : ribt) : Prop :=
    INV a /\ INV b
    /\ (forall n, has_ni a n = has_ni b n)
    /\ (forall n, tabs_of (Lemmas.sget a n) = tabs_of (Lemmas.sget b n) /\ hooked (Lemmas.sget a n) = hooked (Lemmas.sget b n))
    /\ pend b = map gp (pend a)
    /\ dflt a = dflt b /\ nofwd a = nofwd b /\ rib_hooked a = rib_hooked b /\ res_hooked a = res_hooked b.

  (* the part of rrel that does not mention the invariant *)
  Definition rr (a b : ribt) : Prop :=
    (forall n, has_ni a n = has_ni b n)
    /\ (forall n, tabs_of (Lemmas.sget a n) = tabs_of (Lemmas.sget b n) /\ hooked (Lemmas.sget a n) = hooked (Lemmas.sget b n))
    /\ pend b = map gp (pend a)
    /\ dflt a = dflt b /\ nofwd a = nofwd b /\ rib_hooked a = rib_hooked b /\ res_hooked a = res_hooked b.

  Lemma rrel_rr a b : rrel a b <-> INV a /\ INV b /\ rr a b.
  Proof. unfold rrel, rr. tauto. Qed.

  (* ---------------------------------------------------------------- counters *)
  (* key lemma: under INV the counters are determined by the tables *)
  Lemma rrel_cnt a b : rrel a b -> forall n i,
      cnt (rcg (Lemmas.sget a n)) i = cnt (rcg (Lemmas.sget b n)) i /\ cnt (rch (Lemmas.sget a n)) i = cnt (rch (Lemmas.sget b n)) i.
  Proof.
    intros (HIa & HIb & Hh & Ht & _) n i.
    destruct HIa as (HWFa & (Ga & Ha) & _). destruct HIb as (HWFb & (Gb & Hb) & _).
    split; apply N2Nat.inj.
    - rewrite Ga, Gb. unfold refs_nhg. apply asum_keyed.
      + apply HWFa.
      + apply HWFb.
      + intros k. apply (Hh k).
      + intros k. rewrite !phi_sget. destruct (tabs_of_inj _ _ (proj1 (Ht k))) as (E4 & E6 & EL & _).
        apply ni_refs_tops_only; assumption.
    - rewrite Ha, Hb. unfold refs_nh. destruct (tabs_of_inj _ _ (proj1 (Ht n))) as (_ & _ & _ & EG & _).
      rewrite EG. reflexivity.
  Qed.

  (* ---------------------------------------------------------------- updates *)
  Lemma rr_upd x f a b : rr a b -> resp f -> rr (upd_ni x f a) (upd_ni x f b).
  Proof.
    intros (Hh & Ht & Hp & Hd & Hnf & Hrh & Hres) Hf. split; [|split; [|split]].
    - intros n. rewrite !has_ni_upd. apply Hh.
    - intros n. rewrite !sget_upd_ni, (Hh x). destruct ((x =? n) && has_ni b x).
      + apply Hf; apply (Ht x).
      + apply Ht.
    - rewrite !pend_upd_ni. exact Hp.
    - rewrite !dflt_upd_ni, !nofwd_upd_ni, !rib_hooked_upd_ni, !res_hooked_upd_ni. repeat split; assumption.
  Qed.

  Lemma rr_set_pend pa pb a b : rr a b -> pb = map gp pa -> rr (set_pend pa a) (set_pend pb b).
  Proof.
    intros (Hh & Ht & Hp & Hd & Hnf & Hrh & Hres) E. split; [|split; [|split]].
    - intros n. apply Hh.
    - intros n. apply Ht.
    - exact E.
    - cbn [set_pend dflt nofwd rib_hooked res_hooked]. repeat split; assumption.
  Qed.

  Ltac rr_tac Hr := repeat first [exact Hr | apply rr_upd; [|resp_tac]].
  Ltac oeq_tac :=
    unfold oeq; cbn [oks fails fatal nofuel add_rev add_hev add_ok add_fail set_fatal set_nofuel out0];
    rewrite ?g_id; repeat split; reflexivity.

  (* ---------------------------------------------------------------- lists of held operations under gp *)
  Definition gv (x : N * rop) : N * rop := (fst x, g (snd x)).

  Lemma nget_map_gp i l : nget i (map gp l) = option_map gv (nget i l).
  Proof.
    unfold nget, aget. induction l as [|[k v] l IH]; cbn [map find]; [reflexivity|].
    cbn [gp fst snd]. destruct (i =? k); [reflexivity|exact IH].
  Qed.
  Lemma ndel_map_gp i l : ndel i (map gp l) = map gp (ndel i l).
  Proof.
    unfold ndel, adel. induction l as [|[k v] l IH]; cbn [map filter]; [reflexivity|].
    cbn [gp fst snd]. destruct (i =? k); cbn [negb map]; [exact IH|]. rewrite IH. reflexivity.
  Qed.
  Lemma nset_map_gp i n o l : nset i (n, g o) (map gp l) = map gp (nset i (n, o) l).
  Proof.
    unfold nset, aset. cbn [map]. f_equal. apply ndel_map_gp.
  Qed.
  Lemma filter_map_gp (P : N * (N * rop) -> bool) l : (forall x, P (gp x) = P x) -> filter P (map gp l) = map gp (filter P l).
  Proof.
    intros H. induction l as [|x l IH]; cbn [map filter]; [reflexivity|].
    rewrite H. destruct (P x); cbn [map]; rewrite IH; reflexivity.
  Qed.
  Lemma ins_by_map_gp x l : ins_by fst (gp x) (map gp l) = map gp (ins_by fst x l).
  Proof.
    induction l as [|y l IH]; cbn [map ins_by]; [reflexivity|].
    change (fst (gp x)) with (fst x). change (fst (gp y)) with (fst y).
    destruct (fst x <=? fst y); cbn [map]; [reflexivity|]. rewrite IH. reflexivity.
  Qed.
  Lemma sort_by_map_gp l : sort_by fst (map gp l) = map gp (sort_by fst l).
  Proof.
    unfold sort_by. induction l as [|x l IH]; cbn [map fold_right]; [reflexivity|].
    rewrite IH. apply ins_by_map_gp.
  Qed.
  Lemma canon_map_gp hf ho l : canon hf ho (map gp l) = map gp (canon hf ho l).
  Proof.
    unfold canon. rewrite !map_app.
    assert (Hpick : forall ids,
               flat_map (fun i => match nget i (map gp l) with Some x => [(i, x)] | None => [] end) ids
               = map gp (flat_map (fun i => match nget i l with Some x => [(i, x)] | None => [] end) ids)).
    { induction ids as [|i ids IH]; cbn [flat_map map]; [reflexivity|].
      rewrite map_app, IH, nget_map_gp. destruct (nget i l) as [[m o]|]; reflexivity. }
    rewrite !Hpick. f_equal. f_equal.
    rewrite filter_map_gp by reflexivity. apply sort_by_map_gp.
  Qed.

  (* ---------------------------------------------------------------- try_install *)
  Definition tr_rel (x y : tryres) : Prop :=
    match x, y with
    | Err, Err => True
    | NotYet, NotYet => True
    | Installed a' _ _, Installed b' _ _ => rr a' b'
    | _, _ => False
    end.

  Lemma try_add_top_rr a b n sa sb e t k kv p : rr a b -> tabs_of sa = tabs_of sb ->
    tr_rel (try_add_top a n sa e t k kv p) (try_add_top b n sb e t k kv p).
  Proof.
    intros Hr Hs. pose proof Hr as (Hh & Ht & _).
    unfold try_add_top. destruct p as [pl|]; [|exact I].
    destruct (negb (key_ok t k kv) || t_bad pl); [exact I|].
    rewrite (get_top_tabs t _ _ Hs).
    destruct (e && negb (nmem k (get_top t sb))); [exact I|].
    destruct (t_nhg pl =? 0); [exact I|].
    destruct (target n pl) as [tn tg].
    rewrite (Hh tn). destruct (has_ni b tn); cbn [negb]; [|exact I].
    rewrite !has_grp_sget. destruct (tabs_of_inj _ _ (proj1 (Ht tn))) as (_ & _ & _ & EG & _). rewrite EG.
    destruct (nmem tg (tabg (sget b tn))); cbn [negb]; [|exact I].
    destruct (nget k (get_top t sb)) as [o0|].
    - destruct (same_ref o0 pl).
      + cbv beta iota zeta delta [tr_rel]. rr_tac Hr.
      + destruct (target n o0) as [on og]. cbv beta iota zeta delta [tr_rel]. rr_tac Hr.
    - cbv beta iota zeta delta [tr_rel]. rr_tac Hr.
  Qed.

  Lemma try_add_grp_rr v a b n sa sb e id p : rr a b -> tabs_of sa = tabs_of sb ->
    tr_rel (try_add_grp v a n sa e id p) (try_add_grp v b n sb e id p).
  Proof.
    intros Hr Hs. pose proof Hr as (Hh & Ht & _).
    destruct (tabs_of_inj _ _ Hs) as (_ & _ & _ & EG & _).
    assert (Hf : forall l : list (N * N), forallb (fun iw => has_nh a n (fst iw)) l = forallb (fun iw => has_nh b n (fst iw)) l).
    { intros l. apply forallb_ext_all. intros x. rewrite !has_nh_sget.
      destruct (tabs_of_inj _ _ (proj1 (Ht n))) as (_ & _ & _ & _ & EH). rewrite EH. reflexivity. }
    unfold try_add_grp. destruct p as [pl|]; [|exact I].
    destruct (g_bad pl); [exact I|].
    rewrite EG.
    destruct (e && negb (nmem id (tabg sb))); [exact I|].
    destruct (id =? 0); [exact I|].
    destruct (g_nhs pl) as [|x l] eqn:El; [exact I|].
    destruct (existsb (fun iw : N * N => fst iw =? 0) (x :: l)); [exact I|].
    rewrite Hf. destruct (forallb (fun iw : N * N => has_nh b n (fst iw)) (x :: l)); cbn [negb]; [|exact I].
    destruct (nget id (tabg sb)) as [o0|]; cbv beta iota zeta delta [tr_rel]; rr_tac Hr.
  Qed.

  Lemma try_add_nh_rr a b n sa sb e idx p : rr a b -> tabs_of sa = tabs_of sb ->
    tr_rel (try_add_nh a n sa e idx p) (try_add_nh b n sb e idx p).
  Proof.
    intros Hr Hs. destruct (tabs_of_inj _ _ Hs) as (_ & _ & _ & _ & EH).
    unfold try_add_nh. destruct p as [pl|]; [|exact I].
    destruct (h_bad pl); [exact I|]. rewrite EH.
    destruct (e && negb (nmem idx (tabh sb))); [exact I|].
    destruct (idx =? 0); [exact I|].
    cbv beta iota zeta delta [tr_rel]. rr_tac Hr.
  Qed.

  Lemma try_install_rr v a b n o : rr a b -> tr_rel (try_install v a n o) (try_install v b n (g o)).
  Proof.
    intros Hr. pose proof Hr as (Hh & Ht & _).
    unfold try_install. rewrite g_kind, g_entry.
    destruct (nget n (nis a)) as [sa|] eqn:Ea; destruct (nget n (nis b)) as [sb|] eqn:Eb.
    - assert (Hs : tabs_of sa = tabs_of sb).
      { rewrite <- (sget_some a n sa Ea), <- (sget_some b n sb Eb). apply Ht. }
      destruct (op_entry o) as [t k kv p|id p|idx p|].
      + apply try_add_top_rr; assumption.
      + apply try_add_grp_rr; assumption.
      + apply try_add_nh_rr; assumption.
      + exact I.
    - exfalso. specialize (Hh n). unfold has_ni, nmem in Hh. rewrite Ea, Eb in Hh. discriminate.
    - exfalso. specialize (Hh n). unfold has_ni, nmem in Hh. rewrite Ea, Eb in Hh. discriminate.
    - exact I.
  Qed.

  (* ---------------------------------------------------------------- the cascade *)
  Definition strel (sa sb : ribt * out * list N) : Prop :=
    rr (fst (fst sa)) (fst (fst sb)) /\ oeq (snd (fst sa)) (snd (fst sb)) /\ snd sa = snd sb.

  Section Aei.
    Variable v : variant.
    Variable ord : amap (N * rop) -> amap (N * rop).
    Hypothesis Hord : forall l, ord (map gp l) = map gp (ord l).

    Lemma fold_aei_rr f :
      (forall sa sb n o, strel sa sb -> strel (aei v ord f sa n o) (aei v ord f sb n (g o))) ->
      forall l sa sb, strel sa sb ->
        strel (fold_left (fun st' e => aei v ord f st' (fst (snd e)) (snd (snd e))) l sa)
              (fold_left (fun st' e => aei v ord f st' (fst (snd e)) (snd (snd e))) (map gp l) sb).
    Proof.
      intros IH. induction l as [|x l IHl]; intros sa sb H; cbn [map fold_left]; [exact H|].
      apply IHl. cbn [gp fst snd]. apply IH. exact H.
    Qed.

    Lemma aei_rr fuel : forall sa sb n o, strel sa sb -> strel (aei v ord fuel sa n o) (aei v ord fuel sb n (g o)).
    Proof.
      induction fuel as [|f IH]; intros [[ra acca] sta] [[rb accb] stb] n o (Hr & Ho & Hs); cbn [fst snd] in *; subst stb.
      - cbn [aei]. split; [exact Hr|]. split; [|reflexivity]. cbn [fst snd].
        destruct Ho as (O1 & O2 & O3 & O4). unfold oeq. cbn [oks fails fatal nofuel set_nofuel]. repeat split; assumption.
      - cbn [aei]. rewrite g_id.
        destruct (existsb (N.eqb (op_id o)) sta).
        { split; [exact Hr|]. split; [exact Ho|reflexivity]. }
        pose proof (try_install_rr v ra rb n o Hr) as Ht.
        pose proof Hr as (_ & _ & Hp & _ & Hnf & _).
        destruct Ho as (O1 & O2 & O3 & O4).
        destruct (try_install v ra n o) as [| |ra' ha rva]; destruct (try_install v rb n (g o)) as [| |rb' hb rvb];
          cbv beta iota delta [tr_rel] in Ht; try contradiction.
        + (* Err *)
          destruct (fixF5 v).
          * split; [|split; [|reflexivity]]; cbn [fst snd].
            -- apply rr_set_pend; [exact Hr|]. rewrite Hp. apply ndel_map_gp.
            -- unfold oeq. cbn [oks fails fatal nofuel add_fail]. repeat split; congruence.
          * split; [|split; [|reflexivity]]; cbn [fst snd]; [exact Hr|].
            unfold oeq. cbn [oks fails fatal nofuel add_fail]. repeat split; congruence.
        + (* NotYet *)
          rewrite <- Hnf. destruct (nofwd ra).
          * split; [|split; [|reflexivity]]; cbn [fst snd]; [exact Hr|].
            unfold oeq. cbn [oks fails fatal nofuel add_fail]. repeat split; congruence.
          * split; [|split; [|reflexivity]]; cbn [fst snd].
            -- apply rr_set_pend; [exact Hr|]. rewrite Hp. apply nset_map_gp.
            -- unfold oeq. repeat split; assumption.
        + (* Installed *)
          pose proof Ht as (_ & _ & Hp' & _).
          cbn [pend set_pend]. rewrite Hp', ndel_map_gp, Hord.
          apply fold_aei_rr; [exact IH|].
          split; [|split; [|reflexivity]]; cbn [fst snd].
          * apply rr_set_pend; [exact Ht|]. reflexivity.
          * unfold oeq. cbn [oks fails fatal nofuel add_rev add_hev add_ok]. rewrite g_id. repeat split; congruence.
    Qed.

    Lemma add_rr a b n o : rr a b ->
      rr (fst (add_entry v ord a n o)) (fst (add_entry v ord b n (g o)))
      /\ oeq (snd (add_entry v ord a n o)) (snd (add_entry v ord b n (g o))).
    Proof.
      intros Hr. pose proof Hr as (Hh & _ & Hp & _).
      unfold add_entry. rewrite g_entry, <- (Hh n).
      destruct ((n =? 0) || negb (has_ni a n)).
      { cbn [fst snd]. split; [exact Hr|]. repeat split; reflexivity. }
      assert (Hl : length (pend b) = length (pend a)) by (rewrite Hp; apply map_length). rewrite Hl.
      assert (H0 : strel (a, out0, []) (b, out0, [])).
      { split; [exact Hr|]. split; [|reflexivity]. repeat split; reflexivity. }
      pose proof (aei_rr (S (length (pend a))) _ _ n o H0) as H.
      destruct (aei v ord (S (length (pend a))) (a, out0, []) n o) as [[ra' acca'] sa'].
      destruct (aei v ord (S (length (pend a))) (b, out0, []) n (g o)) as [[rb' accb'] sb'].
      destruct H as (H1 & H2 & _). cbn [fst snd] in H1, H2.
      destruct (op_entry o); cbn [fst snd]; try (split; assumption).
      split; [exact Hr|]. repeat split; reflexivity.
    Qed.
  End Aei.

  Theorem rrel_add hf ho a b n o : rrel a b ->
    let ra := add_entry v_fixed (canon hf ho) a n o in
    let rb := add_entry v_fixed (canon hf ho) b n (g o) in
    rrel (fst ra) (fst rb)
    /\ oks (snd ra) = oks (snd rb) /\ fails (snd ra) = fails (snd rb)
    /\ fatal (snd ra) = fatal (snd rb) /\ nofuel (snd ra) = nofuel (snd rb).
  Proof.
    intros (HIa & HIb & Hr). cbn zeta.
    destruct (add_rr v_fixed (canon hf ho) (canon_map_gp hf ho) a b n o Hr) as (H1 & H2).
    split; [|exact H2].
    split; [apply add_entry_INV; exact HIa|]. split; [apply add_entry_INV; exact HIb|]. exact H1.
  Qed.

  (* ---------------------------------------------------------------- DeleteEntry *)
  Lemma del_rr a b n o : rrel a b ->
    rr (fst (delete_entry v_fixed a n o)) (fst (delete_entry v_fixed b n (g o)))
    /\ oeq (snd (delete_entry v_fixed a n o)) (snd (delete_entry v_fixed b n (g o))).
  Proof.
    intros Hrel. pose proof (rrel_cnt a b Hrel) as Hc. destruct Hrel as (HIa & HIb & Hr).
    pose proof Hr as (Hh & Ht & _).
    unfold delete_entry. rewrite g_entry, g_id.
    destruct (nget n (nis a)) as [sa|] eqn:Ea; destruct (nget n (nis b)) as [sb|] eqn:Eb.
    2,3: exfalso; specialize (Hh n); unfold has_ni, nmem in Hh; rewrite Ea, Eb in Hh; discriminate.
    2:{ cbn [fst snd]. split; [exact Hr|oeq_tac]. }
    assert (Hs : tabs_of sa = tabs_of sb).
    { rewrite <- (sget_some a n sa Ea), <- (sget_some b n sb Eb). apply Ht. }
    assert (Hcs : forall i, cnt (rcg sa) i = cnt (rcg sb) i /\ cnt (rch sa) i = cnt (rch sb) i).
    { intros i. rewrite <- (sget_some a n sa Ea), <- (sget_some b n sb Eb). apply Hc. }
    destruct (tabs_of_inj _ _ Hs) as (E4 & E6 & EL & EG & EH).
    destruct (op_entry o) as [t k kv p|id p|idx p|].
    - cbn [fixF6 v_fixed andb]. destruct (negb (key_ok t k kv)).
      { cbn [fst snd]. split; [exact Hr|oeq_tac]. }
      assert (Hk : match t with TL => k | _ => k end = k) by (destruct t; reflexivity). rewrite Hk.
      rewrite (get_top_tabs t _ _ Hs).
      destruct (nget k (get_top t sb)) as [d|].
      + destruct (target n d) as [tn tg]. cbn [fst snd]. split; [rr_tac Hr|oeq_tac].
      + cbn [fst snd]. split; [rr_tac Hr|oeq_tac].
    - destruct (id =? 0).
      { cbn [fst snd]. split; [exact Hr|oeq_tac]. }
      rewrite EG. destruct (nget id (tabg sb)) as [gg|].
      2:{ cbn [fst snd]. split; [exact Hr|oeq_tac]. }
      rewrite (proj1 (Hcs id)). destruct (0 <? cnt (rcg sb) id).
      { cbn [fst snd]. split; [exact Hr|oeq_tac]. }
      cbn [fst snd]. split; [rr_tac Hr|oeq_tac].
    - destruct (idx =? 0).
      { cbn [fst snd]. split; [exact Hr|oeq_tac]. }
      rewrite EH. destruct (nget idx (tabh sb)) as [hh|].
      2:{ cbn [fst snd]. split; [exact Hr|oeq_tac]. }
      rewrite (proj2 (Hcs idx)). destruct (0 <? cnt (rch sb) idx).
      { cbn [fst snd]. split; [exact Hr|oeq_tac]. }
      cbn [fst snd]. split; [rr_tac Hr|oeq_tac].
    - cbn [fst snd]. split; [exact Hr|oeq_tac].
  Qed.

  Theorem rrel_del a b n o : rrel a b ->
    let ra := delete_entry v_fixed a n o in
    let rb := delete_entry v_fixed b n (g o) in
    rrel (fst ra) (fst rb)
    /\ oks (snd ra) = oks (snd rb) /\ fails (snd ra) = fails (snd rb)
    /\ fatal (snd ra) = fatal (snd rb) /\ nofuel (snd ra) = nofuel (snd rb).
  Proof.
    intros Hrel. cbn zeta. destruct (del_rr a b n o Hrel) as (H1 & H2). destruct Hrel as (HIa & HIb & Hr).
    split; [|exact H2].
    split; [apply delete_entry_INV; exact HIa|]. split; [apply delete_entry_INV; exact HIb|]. exact H1.
  Qed.

  (* ---------------------------------------------------------------- Flush *)
  (* flush of the same SET of instances, possibly listed in a different order *)
  Theorem rrel_flush a b l l' : rrel a b -> (forall m, inlN m l = inlN m l') ->
    rrel (fst (fst (flush v_fixed l a))) (fst (fst (flush v_fixed l' b)))
    /\ snd (flush v_fixed l a) = false /\ snd (flush v_fixed l' b) = false.
  Proof.
    intros (HIa & HIb & Hh & Ht & Hp & Hd & Hnf & Hrh & Hres) Hl.
    pose proof (flush_effect l a HIa) as (A1 & A2 & A3 & A4 & A5).
    pose proof (flush_effect l' b HIb) as (B1 & B2 & B3 & B4 & B5).
    pose proof (flush_fr v_fixed l a) as (FA1 & FA2 & FA3 & FA4 & FA5).
    pose proof (flush_fr v_fixed l' b) as (FB1 & FB2 & FB3 & FB4 & FB5).
    cbn zeta in *.
    split; [|split; assumption].
    split; [exact A2|]. split; [exact B2|]. split; [|split; [|split]].
    - intros n. rewrite A3, B3. apply Hh.
    - intros n. rewrite A5, B5, FA1, FB1, (Hl n). split; [|apply Ht].
      destruct (inlN n l'); [reflexivity|apply Ht].
    - rewrite A4, B4. exact Hp.
    - repeat split; congruence.
  Qed.

  (* ---------------------------------------------------------------- observations *)
  Lemma rrel_keys a b : rrel a b -> Permutation (map fst (nis a)) (map fst (nis b)).
  Proof.
    intros (HIa & HIb & Hh & _).
    destruct HIa as ((Wa & _) & _). destruct HIb as ((Wb & _) & _).
    apply NoDup_Permutation; [exact Wa|exact Wb|].
    intros x. split; intros H; apply nmem_in_keys; apply nmem_in_keys in H.
    - change (has_ni b x = true). rewrite <- Hh. exact H.
    - change (has_ni a x = true). rewrite Hh. exact H.
  Qed.

  Lemma rrel_get_ni a b : rrel a b -> forall x n, get_ni x n (Lemmas.sget a n) = get_ni x n (Lemmas.sget b n).
  Proof.
    intros (_ & _ & _ & Ht & _) x n.
    destruct (tabs_of_inj _ _ (proj1 (Ht n))) as (E4 & E6 & EL & EG & EH).
    unfold get_ni. rewrite E4, E6, EL, EG, EH. reflexivity.
  Qed.
End RibRel.

Lemma map_gp_id (l : amap (N * rop)) : map (gp (fun o => o)) l = l.
Proof.
  induction l as [|[k [n o]] l IH]; cbn [map]; [reflexivity|]. rewrite IH. reflexivity.
Qed.

Lemma rrel_refl a : INV a -> rrel (fun o => o) a a.
Proof.
  intros HI. split; [exact HI|]. split; [exact HI|]. split; [reflexivity|]. split; [intros n; split; reflexivity|].
  split; [symmetry; apply map_gp_id|]. repeat split; reflexivity.
Qed.

Lemma rrel_sym a b : rrel (fun o => o) a b -> rrel (fun o => o) b a.
Proof.
  intros (HIa & HIb & Hh & Ht & Hp & Hd & Hnf & Hrh & Hres). rewrite map_gp_id in Hp.
  split; [exact HIb|]. split; [exact HIa|]. split; [intros n; symmetry; apply Hh|].
  split; [intros n; split; symmetry; apply Ht|]. split; [rewrite map_gp_id; symmetry; exact Hp|].
  repeat split; symmetry; assumption.
Qed.

Lemma rrel_trans g g' a b c : rrel g a b -> rrel g' b c -> rrel (fun o => g' (g o)) a c.
Proof.
  intros (HIa & HIb & Hh & Ht & Hp & Hd & Hnf & Hrh & Hres) (_ & HIc & Hh' & Ht' & Hp' & Hd' & Hnf' & Hrh' & Hres').
  split; [exact HIa|]. split; [exact HIc|]. split; [intros n; rewrite Hh; apply Hh'|].
  split; [intros n; destruct (Ht n) as [T1 T2]; destruct (Ht' n) as [T1' T2']; split; congruence|].
  split; [rewrite Hp', Hp, map_map; apply map_ext; intros [k [n o]]; reflexivity|].
  repeat split; congruence.
Qed.

Print Assumptions rrel_cnt.
Print Assumptions rrel_add.
Print Assumptions rrel_del.
Print Assumptions rrel_flush.
Print Assumptions rrel_keys.
Print Assumptions rrel_get_ni.
Print Assumptions rrel_refl.
Print Assumptions rrel_sym.
Print Assumptions rrel_trans.
