(* Facts about the reconciler model (Tools/Reconciler.v): operation ids, idempotence, and convergence
   of the target RIB when the operations are sent in the documented order. *)
From Coq Require Import List Bool NArith Lia Permutation ZifyN ZifyNat ZifyBool.
From GV.Base Require Import Alist U128 Op.
From GV.Rib Require Import Model Lemmas RefDefs RefCount Closed Run Spec Refine.
From GV.Tools Require Import Reconciler ReconcilerDefs.
Import ListNotations.
Open Scope N_scope.

(* ================================================================== ids *)
Lemma number_length id l : length (number id l) = length l.
Proof. revert id; induction l as [|x l IH]; intros id; cbn; [reflexivity|]. rewrite IH. reflexivity. Qed.
Lemma number_items id l : map fst (number id l) = l.
Proof. revert id; induction l as [|x l IH]; intros id; cbn; [reflexivity|]. rewrite IH. reflexivity. Qed.
Lemma number_ids id l : map (fun x => op_id (snd x)) (number id l) = ids_from id (length l).
Proof. revert id; induction l as [|x l IH]; intros id; cbn; [reflexivity|]. rewrite IH. reflexivity. Qed.
Lemma number_in id l it o : In (it, o) (number id l) -> In it l /\ exists i, o = op_of i it.
Proof.
  revert id; induction l as [|x l IH]; intros id; cbn; [tauto|].
  intros [H|H]; [inversion H; subst; split; [auto|eauto]|]. destruct (IH _ H) as [H1 H2]. auto.
Qed.
Lemma number_complete id l it : In it l -> exists i, In (it, op_of i it) (number id l).
Proof.
  revert id; induction l as [|x l IH]; intros id; cbn; [tauto|].
  intros [->|H]; [eexists; left; reflexivity|]. destruct (IH (id + 1) H) as [i Hi]. exists i. right. exact Hi.
Qed.

Lemma ids_from_in id k x : In x (ids_from id k) <-> id < x <= id + N.of_nat k.
Proof.
  revert id; induction k as [|k IH]; intros id; cbn [ids_from In]; [lia|].
  rewrite IH. lia.
Qed.
Lemma ids_from_nodup id k : NoDup (ids_from id k).
Proof.
  revert id; induction k as [|k IH]; intros id; cbn; constructor; [|apply IH].
  rewrite ids_from_in. lia.
Qed.

(* a list split by a classifier into the lists of a duplicate-free enumeration of the classes *)
Lemma filter_or_perm {A} (p q : A -> bool) l : (forall x, p x = true -> q x = false) ->
  Permutation (filter p l ++ filter q l) (filter (fun x => p x || q x) l).
Proof.
  intros D. induction l as [|x l IH]; cbn; [constructor|].
  destruct (p x) eqn:P; cbn.
  - rewrite (D x P). constructor. exact IH.
  - destruct (q x); cbn; [|exact IH]. symmetry. apply Permutation_cons_app. symmetry. exact IH.
Qed.
Lemma filter_ext' {A} (p q : A -> bool) l : (forall x, p x = q x) -> filter p l = filter q l.
Proof. intros H. induction l as [|x l IH]; cbn; [reflexivity|]. rewrite H, IH. reflexivity. Qed.
Lemma filter_all {A} (p : A -> bool) l : (forall x, p x = true) -> filter p l = l.
Proof. intros H. induction l as [|x l IH]; cbn; [reflexivity|]. rewrite H, IH. reflexivity. Qed.

Definition cl_eqb (a b : cat * lvl) : bool := cat_eqb (fst a) (fst b) && lvl_eqb (snd a) (snd b).
Definition cl_of (x : item * rop) : cat * lvl := (it_cat (fst x), it_lvl (fst x)).
Definition sending_order : list (cat * lvl) :=
  [(CAdd, LNh); (CAdd, LNhg); (CAdd, LTop); (CReplace, LNh); (CReplace, LNhg); (CReplace, LTop);
   (CDelete, LTop); (CDelete, LNhg); (CDelete, LNh)].
Lemma cl_eqb_eq a b : cl_eqb a b = true <-> a = b.
Proof. destruct a as [[] []], b as [[] []]; cbn; split; intros H; try discriminate; try reflexivity; inversion H. Qed.

Lemma split_perm (xs : list (item * rop)) (cs : list (cat * lvl)) : NoDup cs ->
  Permutation (flat_map (fun c => filter (fun x => cl_eqb (cl_of x) c) xs) cs)
              (filter (fun x => existsb (cl_eqb (cl_of x)) cs) xs).
Proof.
  induction cs as [|c cs IH]; intros Hnd; cbn [flat_map existsb].
  - induction xs; cbn; auto.
  - inversion Hnd as [|? ? Hni Hnd']; subst.
    eapply Permutation_trans; [apply Permutation_app_head, IH, Hnd'|].
    apply filter_or_perm. intros x Hx. apply cl_eqb_eq in Hx. subst c.
    destruct (existsb (cl_eqb (cl_of x)) cs) eqn:E; [|reflexivity].
    apply existsb_exists in E. destruct E as (c & Hc & E). apply cl_eqb_eq in E. subst c. contradiction.
Qed.

Lemma ordered_diff v s d base :
  ordered (diff v s d base) =
  map snd (flat_map (fun c => filter (fun x => cl_eqb (cl_of x) c) (diff_seq v s d base)) sending_order).
Proof.
  unfold ordered, diff, ops_of, sel, sending_order. cbn [r_add r_replace r_delete o_nh o_nhg o_top flat_map].
  rewrite !map_app. cbn [map app]. rewrite app_nil_r. reflexivity.
Qed.

(* the operations in the structure are those diff created, each once *)
Lemma ordered_perm v s d base : Permutation (ordered (diff v s d base)) (map snd (diff_seq v s d base)).
Proof.
  rewrite ordered_diff. apply Permutation_map.
  eapply Permutation_trans; [apply split_perm|].
  - unfold sending_order. repeat constructor; cbn; intuition discriminate.
  - rewrite filter_all; [apply Permutation_refl|].
    intros [[[] [] n e] o]; reflexivity.
Qed.

(* in the order of creation the ids are base+1, base+2, ...; the counter ends at the last one *)
Lemma diff_ids_in_order v s d base :
  map (fun x => op_id (snd x)) (diff_seq v s d base) = ids_from base (length (diff_items v s d)).
Proof. apply number_ids. Qed.

Lemma all_ids_perm v s d base :
  Permutation (all_ids (diff v s d base)) (ids_from base (length (diff_items v s d))).
Proof.
  unfold all_ids. rewrite <- diff_ids_in_order, <- (map_map snd op_id).
  apply Permutation_map, ordered_perm.
Qed.
Lemma all_ids_nodup v s d base : NoDup (all_ids (diff v s d base)).
Proof. eapply Permutation_NoDup; [apply Permutation_sym, all_ids_perm|apply ids_from_nodup]. Qed.
Lemma all_ids_range v s d base x :
  In x (all_ids (diff v s d base)) <-> base < x <= diff_next_id v s d base.
Proof.
  unfold diff_next_id. rewrite <- ids_from_in. split; apply Permutation_in; [|apply Permutation_sym]; apply all_ids_perm.
Qed.

(* ================================================================== sameness of payloads *)
Lemma pairN_eqb_eq a b : pairN_eqb a b = true <-> a = b.
Proof.
  destruct a as [a1 a2], b as [b1 b2]. unfold pairN_eqb; cbn. rewrite andb_true_iff, !N.eqb_eq.
  split; [intros [-> ->]; reflexivity|intros H; inversion H; auto].
Qed.
Lemma xs_same_eq a b : xs_same a b = true <-> a = b.
Proof.
  unfold xs_same. revert b; induction a as [|x a IH]; intros [|y b]; cbn; try (split; [discriminate|discriminate]); [tauto|].
  rewrite andb_true_iff, pairN_eqb_eq, IH. split; [intros [-> ->]; reflexivity|intros H; inversion H; auto].
Qed.
Lemma bool_eqb_eq a b : Bool.eqb a b = true <-> a = b.
Proof. destruct a, b; cbn; split; congruence. Qed.
Lemma top_same_eq a b : top_same a b = true <-> a = b.
Proof.
  unfold top_same. rewrite !andb_true_iff, !N.eqb_eq, xs_same_eq, bool_eqb_eq.
  destruct a, b; cbn. split; [intros [[[-> ->] ->] ->]; reflexivity|intros H; inversion H; auto].
Qed.
Lemma nhp_same_eq a b : nhp_same a b = true <-> a = b.
Proof.
  unfold nhp_same. rewrite !andb_true_iff, xs_same_eq, bool_eqb_eq.
  destruct a, b; cbn. split; [intros [-> ->]; reflexivity|intros H; inversion H; auto].
Qed.

Lemma nhs_sub_spec a b : nhs_sub a b = true <-> forall i w, In (i, w) a -> nget i b = Some w.
Proof.
  unfold nhs_sub. rewrite forallb_forall. split.
  - intros H i w Hi. specialize (H _ Hi). cbn [fst snd] in H. destruct (nget i b) as [w'|]; [|discriminate].
    apply N.eqb_eq in H. subst. reflexivity.
  - intros H [i w] Hi. cbn [fst snd]. rewrite (H _ _ Hi). apply N.eqb_refl.
Qed.
Lemma nhs_same_spec a b : wf a -> wf b ->
  (nhs_sub a b && nhs_sub b a = true <-> forall i, nget i a = nget i b).
Proof.
  intros Ha Hb. rewrite andb_true_iff, !nhs_sub_spec. split.
  - intros [H1 H2] i. destruct (nget i a) as [w|] eqn:Ea.
    + symmetry. apply H1. apply nget_in. exact Ea.
    + destruct (nget i b) as [w|] eqn:Eb; [|reflexivity].
      rewrite (H2 i w (nget_in _ _ _ Eb)) in Ea. discriminate.
  - intros H. split; intros i w Hi.
    + rewrite <- H. apply in_nget; assumption.
    + rewrite H. apply in_nget; assumption.
Qed.
Lemma grp_same_equiv a b : wf_grp a -> wf_grp b -> (grp_same a b = true <-> grp_equiv a b).
Proof.
  intros Ha Hb. unfold grp_same, grp_equiv.
  rewrite <- (nhs_same_spec _ _ Ha Hb), !andb_true_iff, N.eqb_eq, xs_same_eq, bool_eqb_eq. tauto.
Qed.

Lemma grp_equiv_refl g : grp_equiv g g.
Proof. unfold grp_equiv. auto. Qed.
Lemma grp_equiv_sym a b : grp_equiv a b -> grp_equiv b a.
Proof. unfold grp_equiv. intros (H1 & H2 & H3 & H4). repeat split; auto. Qed.
Lemma grp_equiv_trans a b c : grp_equiv a b -> grp_equiv b c -> grp_equiv a c.
Proof.
  unfold grp_equiv. intros (H1 & H2 & H3 & H4) (G1 & G2 & G3 & G4).
  repeat split; try congruence; intros i; rewrite H1; apply G1.
Qed.
Lemma sent_equiv_refl e : sent_equiv e e.
Proof. destruct e; cbn; auto using grp_equiv_refl. Qed.
Lemma sent_equiv_sym a b : sent_equiv a b -> sent_equiv b a.
Proof.
  destruct a, b; cbn; try congruence. intros [-> H]. split; [reflexivity|apply grp_equiv_sym; exact H].
Qed.
Lemma sent_equiv_trans a b c : sent_equiv a b -> sent_equiv b c -> sent_equiv a c.
Proof.
  destruct a, b; cbn; try discriminate; try (intros ->; auto; fail).
  intros [-> H]. destruct c; cbn; try discriminate. intros [-> G]. split; [reflexivity|eapply grp_equiv_trans; eauto].
Qed.
Lemma osent_equiv_refl e : osent_equiv e e.
Proof. destruct e; cbn; auto using sent_equiv_refl. Qed.
Lemma osent_equiv_sym a b : osent_equiv a b -> osent_equiv b a.
Proof. destruct a, b; cbn; auto using sent_equiv_sym. Qed.
Lemma osent_equiv_trans a b c : osent_equiv a b -> osent_equiv b c -> osent_equiv a c.
Proof. destruct a, b, c; cbn; try tauto. apply sent_equiv_trans. Qed.
Lemma osent_equiv_some_l e b : osent_equiv (Some e) b -> b <> None.
Proof. destruct b; cbn; [discriminate|tauto]. Qed.
Lemma osent_equiv_none_r a : osent_equiv a None -> a = None.
Proof. destruct a; cbn; tauto. Qed.

(* ================================================================== what diff emits *)
Lemma nget_none_nmem {V} k (l : amap V) : nget k l = None -> nmem k l = false.
Proof. unfold nmem. intros ->. reflexivity. Qed.
Lemma nmem_false_nget {V} k (l : amap V) : nmem k l = false -> nget k l = None.
Proof. unfold nmem. destruct (nget k l); [discriminate|reflexivity]. Qed.

Lemma puts_add {V} same l n mk (src dst : amap V) k v :
  nget k src = Some v -> nget k dst = None -> In (mk_item CAdd l n (mk k v)) (puts same l n mk src dst).
Proof.
  intros Hs Hd. unfold puts. apply in_flat_map. exists (k, v). split; [apply nget_in; exact Hs|].
  cbn [fst snd]. rewrite Hd. left; reflexivity.
Qed.
Lemma puts_rep {V} same l n mk (src dst : amap V) k v d :
  nget k src = Some v -> nget k dst = Some d -> same v d = false ->
  In (mk_item CReplace l n (mk k v)) (puts same l n mk src dst).
Proof.
  intros Hs Hd Hne. unfold puts. apply in_flat_map. exists (k, v). split; [apply nget_in; exact Hs|].
  cbn [fst snd]. rewrite Hd, Hne. left; reflexivity.
Qed.
Lemma dels_in {V} l n mk (src dst : amap V) k d :
  nget k dst = Some d -> nget k src = None -> In (mk_item CDelete l n (mk k d)) (dels l n mk src dst).
Proof.
  intros Hd Hs. unfold dels. apply in_flat_map. exists (k, d). split; [apply nget_in; exact Hd|].
  cbn [fst snd]. rewrite (nget_none_nmem _ _ Hs). left; reflexivity.
Qed.
Lemma puts_inv {V} same l n mk (src dst : amap V) it : wf src -> In it (puts same l n mk src dst) ->
  exists k v, nget k src = Some v /\ it_lvl it = l /\ it_ni it = n /\ it_entry it = mk k v
              /\ (it_cat it = CAdd \/ it_cat it = CReplace).
Proof.
  intros Hwf H. unfold puts in H. apply in_flat_map in H. destruct H as ([k v] & Hin & H). cbn [fst snd] in H.
  exists k, v. split; [apply in_nget; assumption|].
  destruct (nget k dst) as [d|].
  - destruct (same v d); [destruct H|]. destruct H as [<-|[]]. cbn. auto.
  - destruct H as [<-|[]]. cbn. auto.
Qed.
Lemma dels_inv {V} l n mk (src dst : amap V) it : wf dst -> In it (dels l n mk src dst) ->
  exists k d, nget k dst = Some d /\ nget k src = None /\ it = mk_item CDelete l n (mk k d).
Proof.
  intros Hwf H. unfold dels in H. apply in_flat_map in H. destruct H as ([k d] & Hin & H). cbn [fst snd] in H.
  exists k, d. split; [apply in_nget; assumption|].
  destruct (nmem k src) eqn:E; [destruct H|]. destruct H as [<-|[]]. split; [apply nmem_false_nget; exact E|reflexivity].
Qed.

Definition wf_tabs (x : tabs) : Prop :=
  wf (s4 x) /\ wf (s6 x) /\ wf (sl x) /\ wf (sg x) /\ wf (sh x) /\ (forall id g, nget id (sg x) = Some g -> wf_grp g).
Lemma wf_tabs_of s : wf_ni s -> wf_tabs (tabs_of s).
Proof. intros (H4 & H6 & HL & HG & HH & _ & _ & HN). unfold wf_tabs; cbn. auto 10. Qed.
Lemma wf_tabs0 : wf_tabs tabs0.
Proof. unfold wf_tabs; cbn. repeat split; try apply wf_nil. intros id g H; discriminate. Qed.
Lemma wf_sp_top t x : wf_tabs x -> wf (sp_top t x).
Proof. intros (H4 & H6 & HL & _). destruct t; assumption. Qed.

Lemma ekey_entry_of e : ekey (entry_of e) = Some (match e with STop t k _ => KTop t k | SGrp id _ => KGrp id | SNh i _ => KNh i end).
Proof. destruct e; reflexivity. Qed.

(* soundness: an emitted item names a key; additions and replaces carry the source's entry, deletions
   name a key the source lacks and carry the destination's entry *)
Lemma diff_ni_sound n s d it : wf_tabs s -> wf_tabs d -> In it (diff_ni n s d) ->
  it_ni it = n /\ exists k, ekey (it_entry it) = Some k /\ it_lvl it = lvl_of k /\
  match it_cat it with
  | CDelete => tlook s k = None /\ exists e, tlook d k = Some e /\ it_entry it = entry_of e
  | _ => exists e, tlook s k = Some e /\ it_entry it = entry_of e
  end.
Proof.
  intros Hs Hd H. unfold diff_ni in H. rewrite !in_app_iff in H.
  assert (P : forall t, In it (puts top_same LTop n (e_top t) (sp_top t s) (sp_top t d)) ->
     it_ni it = n /\ exists k, ekey (it_entry it) = Some k /\ it_lvl it = lvl_of k /\
     match it_cat it with
     | CDelete => tlook s k = None /\ exists e, tlook d k = Some e /\ it_entry it = entry_of e
     | _ => exists e, tlook s k = Some e /\ it_entry it = entry_of e
     end).
  { intros t Hp. apply puts_inv in Hp; [|apply wf_sp_top; exact Hs].
    destruct Hp as (k & v & Hv & Hl & Hn & He & Hc). split; [exact Hn|]. exists (KTop t k).
    rewrite He. split; [reflexivity|]. split; [exact Hl|].
    assert (X : exists e, tlook s (KTop t k) = Some e /\ e_top t k v = entry_of e).
    { exists (STop t k v). cbn [tlook]. rewrite Hv. split; reflexivity. }
    destruct Hc as [-> | ->]; exact X. }
  assert (D : forall t, In it (dels LTop n (e_top t) (sp_top t s) (sp_top t d)) ->
     it_ni it = n /\ exists k, ekey (it_entry it) = Some k /\ it_lvl it = lvl_of k /\
     match it_cat it with
     | CDelete => tlook s k = None /\ exists e, tlook d k = Some e /\ it_entry it = entry_of e
     | _ => exists e, tlook s k = Some e /\ it_entry it = entry_of e
     end).
  { intros t Hp. apply dels_inv in Hp; [|apply wf_sp_top; exact Hd].
    destruct Hp as (k & v & Hv & Hn & ->). cbn [it_ni it_entry it_lvl it_cat mk_item]. split; [reflexivity|].
    exists (KTop t k). split; [reflexivity|]. split; [reflexivity|]. cbn [tlook]. rewrite Hn, Hv. split; [reflexivity|].
    exists (STop t k v). split; reflexivity. }
  destruct Hs as (Hs4 & Hs6 & HsL & HsG & HsH & HsN). destruct Hd as (Hd4 & Hd6 & HdL & HdG & HdH & HdN).
  destruct H as [H|[H|[H|[H|[H|[H|[H|[H|[H|H]]]]]]]]].
  - exact (P T4 H).
  - exact (P T6 H).
  - exact (P TL H).
  - apply puts_inv in H; [|exact HsG]. destruct H as (k & v & Hv & Hl & Hn & He & Hc). split; [exact Hn|].
    exists (KGrp k). rewrite He. split; [reflexivity|]. split; [exact Hl|].
    assert (X : exists e, tlook s (KGrp k) = Some e /\ e_grp k v = entry_of e).
    { exists (SGrp k v). cbn [tlook]. rewrite Hv. split; reflexivity. }
    destruct Hc as [-> | ->]; exact X.
  - apply puts_inv in H; [|exact HsH]. destruct H as (k & v & Hv & Hl & Hn & He & Hc). split; [exact Hn|].
    exists (KNh k). rewrite He. split; [reflexivity|]. split; [exact Hl|].
    assert (X : exists e, tlook s (KNh k) = Some e /\ e_nh k v = entry_of e).
    { exists (SNh k v). cbn [tlook]. rewrite Hv. split; reflexivity. }
    destruct Hc as [-> | ->]; exact X.
  - exact (D T4 H).
  - exact (D T6 H).
  - exact (D TL H).
  - apply dels_inv in H; [|exact HdG]. destruct H as (k & v & Hv & Hn & ->).
    cbn [it_ni it_entry it_lvl it_cat mk_item]. split; [reflexivity|].
    exists (KGrp k). split; [reflexivity|]. split; [reflexivity|]. cbn [tlook]. rewrite Hn, Hv. split; [reflexivity|].
    exists (SGrp k v). split; reflexivity.
  - apply dels_inv in H; [|exact HdH]. destruct H as (k & v & Hv & Hn & ->).
    cbn [it_ni it_entry it_lvl it_cat mk_item]. split; [reflexivity|].
    exists (KNh k). split; [reflexivity|]. split; [reflexivity|]. cbn [tlook]. rewrite Hn, Hv. split; [reflexivity|].
    exists (SNh k v). split; reflexivity.
Qed.

(* completeness: every key on which the two sides differ has its item *)
Lemma diff_ni_complete n s d k : wf_tabs s -> wf_tabs d ->
  match tlook s k, tlook d k with
  | Some e, None => In (mk_item CAdd (lvl_of k) n (entry_of e)) (diff_ni n s d)
  | Some e, Some e' => sent_equiv e' e \/ In (mk_item CReplace (lvl_of k) n (entry_of e)) (diff_ni n s d)
  | None, Some e' => In (mk_item CDelete (lvl_of k) n (entry_of e')) (diff_ni n s d)
  | None, None => True
  end.
Proof.
  intros Hs Hd. unfold diff_ni.
  assert (P : forall t k0,
    match tlook s (KTop t k0), tlook d (KTop t k0) with
    | Some e, None => In (mk_item CAdd LTop n (entry_of e)) (puts top_same LTop n (e_top t) (sp_top t s) (sp_top t d))
    | Some e, Some e' => sent_equiv e' e \/ In (mk_item CReplace LTop n (entry_of e)) (puts top_same LTop n (e_top t) (sp_top t s) (sp_top t d))
    | None, Some e' => In (mk_item CDelete LTop n (entry_of e')) (dels LTop n (e_top t) (sp_top t s) (sp_top t d))
    | None, None => True
    end).
  { intros t k0. cbn [tlook]. destruct (nget k0 (sp_top t s)) as [v|] eqn:Ev, (nget k0 (sp_top t d)) as [v'|] eqn:Ev'; cbn [option_map entry_of]; auto.
    - destruct (top_same v v') eqn:E.
      + left. apply top_same_eq in E. subst. reflexivity.
      + right. eapply puts_rep; eauto.
    - apply puts_add; assumption.
    - apply dels_in; assumption. }
  destruct k as [t k|id|i].
  - specialize (P t k). cbn [lvl_of].
    destruct (tlook s (KTop t k)) as [e|], (tlook d (KTop t k)) as [e'|]; auto; rewrite !in_app_iff.
    + destruct P as [P|P]; [left; exact P|right]. destruct t; cbn [sp_top] in P; tauto.
    + destruct t; cbn [sp_top] in P; tauto.
    + destruct t; cbn [sp_top] in P; tauto.
  - destruct Hs as (_ & _ & _ & HsG & _ & HsN). destruct Hd as (_ & _ & _ & HdG & _ & HdN).
    cbn [tlook lvl_of].
    destruct (nget id (sg s)) as [v|] eqn:Ev, (nget id (sg d)) as [v'|] eqn:Ev'; cbn [option_map entry_of]; auto; rewrite !in_app_iff.
    + destruct (grp_same v v') eqn:E.
      * left. apply grp_same_equiv in E; [|eapply HsN; eauto|eapply HdN; eauto]. split; [reflexivity|apply grp_equiv_sym; exact E].
      * right. do 3 right. left. eapply puts_rep; eauto.
    + do 3 right. left. apply puts_add; assumption.
    + do 8 right. left. apply dels_in; assumption.
  - cbn [tlook lvl_of].
    destruct (nget i (sh s)) as [v|] eqn:Ev, (nget i (sh d)) as [v'|] eqn:Ev'; cbn [option_map entry_of]; auto; rewrite !in_app_iff.
    + destruct (nhp_same v v') eqn:E.
      * left. apply nhp_same_eq in E. subst. reflexivity.
      * right. do 4 right. left. eapply puts_rep; eauto.
    + do 4 right. left. apply puts_add; assumption.
    + do 9 right. apply dels_in; assumption.
Qed.

(* ---- the same at the level of two RIBs ---- *)
Lemma tabs_or_empty_abs r n : tabs_or_empty (nget n (abs r)) = tabs_of (sget r n).
Proof. rewrite nget_abs. unfold sget. destruct (nget n (nis r)); reflexivity. Qed.
Lemma nmem_abs r n : nmem n (abs r) = has_ni r n.
Proof. unfold nmem, has_ni, nmem. rewrite nget_abs. destruct (nget n (nis r)); reflexivity. Qed.
Lemma in_abs r n x : wf (nis r) -> In (n, x) (abs r) -> has_ni r n = true /\ x = tabs_of (sget r n).
Proof.
  intros Hwf H. unfold abs in H. apply in_map_iff in H. destruct H as ([n' s] & E & Hin). cbn [fst snd] in E.
  inversion E; subst. apply in_nget in Hin; [|exact Hwf].
  split; [eapply has_ni_some; eauto|]. rewrite (sget_some _ _ _ Hin). reflexivity.
Qed.
Lemma abs_in r n : has_ni r n = true -> In (n, tabs_of (sget r n)) (abs r).
Proof.
  intros H. apply has_ni_true in H. apply nget_in in H. unfold abs.
  apply in_map_iff. exists (n, sget r n). split; [reflexivity|exact H].
Qed.

Lemma diff_items_in I T it : WF I -> WF T -> (forall n, has_ni I n = true -> has_ni T n = true) ->
  (In it (diff_items rv_fixed (abs I) (abs T)) <->
   exists n, has_ni T n = true /\ In it (diff_ni n (tabs_of (sget I n)) (tabs_of (sget T n)))).
Proof.
  intros (HwI & _) (HwT & _) Hsub. unfold diff_items. cbn [fixF14 rv_fixed]. rewrite in_app_iff, !in_flat_map. split.
  - intros [([n s] & Hin & Hit)|([n d] & Hin & Hit)]; cbn [fst snd] in Hit.
    + apply in_abs in Hin; [|exact HwI]. destruct Hin as [Hn ->]. rewrite tabs_or_empty_abs in Hit.
      exists n. split; [apply Hsub; exact Hn|exact Hit].
    + apply in_abs in Hin; [|exact HwT]. destruct Hin as [Hn ->]. rewrite nmem_abs in Hit.
      destruct (has_ni I n) eqn:HI; [destruct Hit|].
      exists n. split; [exact Hn|]. rewrite (sget_missing _ _ HI). exact Hit.
  - intros (n & Hn & Hit). destruct (has_ni I n) eqn:HI.
    + left. exists (n, tabs_of (sget I n)). split; [apply abs_in; exact HI|].
      cbn [fst snd]. rewrite tabs_or_empty_abs. exact Hit.
    + right. exists (n, tabs_of (sget T n)). split; [apply abs_in; exact Hn|].
      cbn [fst snd]. rewrite nmem_abs, HI. rewrite (sget_missing _ _ HI) in Hit. exact Hit.
Qed.

Lemma diff_sound I T it : WF I -> WF T -> (forall n, has_ni I n = true -> has_ni T n = true) ->
  In it (diff_items rv_fixed (abs I) (abs T)) ->
  has_ni T (it_ni it) = true /\ exists k, ekey (it_entry it) = Some k /\ it_lvl it = lvl_of k /\
  match it_cat it with
  | CDelete => look I (it_ni it) k = None /\ exists e, look T (it_ni it) k = Some e /\ it_entry it = entry_of e
  | _ => exists e, look I (it_ni it) k = Some e /\ it_entry it = entry_of e
  end.
Proof.
  intros HI HT Hsub H. apply diff_items_in in H; try assumption. destruct H as (n & Hn & H).
  apply diff_ni_sound in H; [|apply wf_tabs_of, WF_sget; assumption|apply wf_tabs_of, WF_sget; assumption].
  destruct H as [-> H]. split; [exact Hn|exact H].
Qed.

Lemma diff_complete I T n k : WF I -> WF T -> (forall n, has_ni I n = true -> has_ni T n = true) ->
  has_ni T n = true ->
  match look I n k, look T n k with
  | Some e, None => In (mk_item CAdd (lvl_of k) n (entry_of e)) (diff_items rv_fixed (abs I) (abs T))
  | Some e, Some e' => sent_equiv e' e \/ In (mk_item CReplace (lvl_of k) n (entry_of e)) (diff_items rv_fixed (abs I) (abs T))
  | None, Some e' => In (mk_item CDelete (lvl_of k) n (entry_of e')) (diff_items rv_fixed (abs I) (abs T))
  | None, None => True
  end.
Proof.
  intros HI HT Hsub Hn.
  pose proof (diff_ni_complete n (tabs_of (sget I n)) (tabs_of (sget T n)) k
                (wf_tabs_of _ (WF_sget _ _ HI)) (wf_tabs_of _ (WF_sget _ _ HT))) as H.
  unfold look. destruct (tlook (tabs_of (sget I n)) k) as [e|], (tlook (tabs_of (sget T n)) k) as [e'|]; auto.
  - destruct H as [H|H]; [left; exact H|right]. apply diff_items_in; try assumption. eauto.
  - apply diff_items_in; try assumption. eauto.
  - apply diff_items_in; try assumption. eauto.
Qed.

(* ================================================================== reconciling a RIB with itself *)
Lemma puts_self {V} (same : V -> V -> bool) l n mk (m : amap V) : wf m ->
  (forall k v, nget k m = Some v -> same v v = true) -> puts same l n mk m m = [].
Proof.
  intros Hwf Hs. unfold puts.
  assert (G : forall sub, (forall x, In x sub -> In x m) ->
    flat_map (fun kv => match nget (fst kv) m with
                        | None => [mk_item CAdd l n (mk (fst kv) (snd kv))]
                        | Some d => if same (snd kv) d then [] else [mk_item CReplace l n (mk (fst kv) (snd kv))]
                        end) sub = []).
  { induction sub as [|[k v] sub IH]; intros Hsub; cbn [flat_map fst snd]; [reflexivity|].
    assert (E : nget k m = Some v) by (apply in_nget; [exact Hwf|apply Hsub; left; reflexivity]).
    rewrite E, (Hs k v E). cbn [app]. apply IH. intros x Hx. apply Hsub. right. exact Hx. }
  apply G. auto.
Qed.
Lemma dels_self {V} l n mk (m : amap V) : dels l n mk m m = [].
Proof.
  unfold dels.
  assert (G : forall sub, (forall x, In x sub -> In x m) ->
    flat_map (fun kv => if nmem (fst kv) m then [] else [mk_item CDelete l n (mk (fst kv) (snd kv))]) sub = []).
  { induction sub as [|[k v] sub IH]; intros Hsub; cbn [flat_map fst snd]; [reflexivity|].
    assert (E : nmem k m = true).
    { apply nmem_in_keys. apply in_map_iff. exists (k, v). split; [reflexivity|apply Hsub; left; reflexivity]. }
    rewrite E. cbn [app]. apply IH. intros x Hx. apply Hsub. right. exact Hx. }
  apply G. auto.
Qed.
Lemma top_same_refl v : top_same v v = true. Proof. apply top_same_eq. reflexivity. Qed.
Lemma nhp_same_refl v : nhp_same v v = true. Proof. apply nhp_same_eq. reflexivity. Qed.
Lemma diff_ni_self n x : wf_tabs x -> diff_ni n x x = [].
Proof.
  intros (H4 & H6 & HL & HG & HH & HN). unfold diff_ni.
  rewrite !puts_self, !dels_self; auto using top_same_refl, nhp_same_refl.
  intros k v Hv. apply grp_same_equiv; try (eapply HN; eauto). apply grp_equiv_refl.
Qed.
Lemma flat_map_nil {A B} (f : A -> list B) l : (forall x, In x l -> f x = []) -> flat_map f l = [].
Proof. induction l as [|x l IH]; cbn; intros H; [reflexivity|]. rewrite H by auto. apply IH. auto. Qed.

Lemma diff_items_self v r : WF r -> diff_items v (abs r) (abs r) = [].
Proof.
  intros HWF. pose proof HWF as (Hw & _). unfold diff_items. rewrite !flat_map_nil; [destruct (fixF14 v); reflexivity| |].
  - intros [n d] Hin. cbn [fst snd]. apply in_abs in Hin; [|exact Hw]. destruct Hin as [Hn _].
    rewrite nmem_abs, Hn. reflexivity.
  - intros [n s] Hin. cbn [fst snd]. apply in_abs in Hin; [|exact Hw]. destruct Hin as [Hn ->].
    rewrite tabs_or_empty_abs. apply diff_ni_self. apply wf_tabs_of, WF_sget. exact HWF.
Qed.

Lemma diff_self_empty v r base : WF r ->
  ordered (diff v (abs r) (abs r) base) = [] /\ diff_next_id v (abs r) (abs r) base = base.
Proof.
  intros H. unfold diff, diff_seq, diff_next_id. rewrite (diff_items_self v r H). cbn. split; [reflexivity|lia].
Qed.

(* ================================================================== reconciling two RIBs with the same contents *)
Lemma puts_nil {V} (same : V -> V -> bool) l n mk (src dst : amap V) : wf src ->
  (forall k v, nget k src = Some v -> exists d, nget k dst = Some d /\ same v d = true) ->
  puts same l n mk src dst = [].
Proof.
  intros Hwf H. unfold puts. apply flat_map_nil. intros [k v] Hin. cbn [fst snd].
  destruct (H k v (in_nget _ _ _ Hwf Hin)) as (d & -> & ->). reflexivity.
Qed.
Lemma dels_nil {V} l n mk (src dst : amap V) : wf dst ->
  (forall k d, nget k dst = Some d -> nmem k src = true) -> dels l n mk src dst = [].
Proof.
  intros Hwf H. unfold dels. apply flat_map_nil. intros [k d] Hin. cbn [fst snd].
  rewrite (H k d (in_nget _ _ _ Hwf Hin)). reflexivity.
Qed.

Lemma diff_ni_equiv n s d : wf_tabs s -> wf_tabs d -> tabs_equiv s d -> diff_ni n s d = [].
Proof.
  intros Hs Hd E. unfold diff_ni.
  assert (PT : forall t, puts top_same LTop n (e_top t) (sp_top t s) (sp_top t d) = []).
  { intros t. apply puts_nil; [apply wf_sp_top; exact Hs|]. intros k v Hv.
    specialize (E (KTop t k)). cbn [tlook] in E. rewrite Hv in E. cbn [option_map] in E.
    destruct (nget k (sp_top t d)) as [v'|]; cbn [option_map osent_equiv sent_equiv] in E; [|contradiction].
    inversion E; subst. exists v'. split; [reflexivity|apply top_same_eq; reflexivity]. }
  assert (DT : forall t, dels LTop n (e_top t) (sp_top t s) (sp_top t d) = []).
  { intros t. apply dels_nil; [apply wf_sp_top; exact Hd|]. intros k v Hv.
    specialize (E (KTop t k)). cbn [tlook] in E. rewrite Hv in E. cbn [option_map] in E. unfold nmem.
    destruct (nget k (sp_top t s)) as [v'|]; cbn [option_map osent_equiv] in E; [reflexivity|contradiction]. }
  pose proof (PT T4) as P4. pose proof (PT T6) as P6. pose proof (PT TL) as PL.
  pose proof (DT T4) as D4. pose proof (DT T6) as D6. pose proof (DT TL) as DL. cbn [sp_top] in *.
  rewrite P4, P6, PL, D4, D6, DL. cbn [app].
  destruct Hs as (_ & _ & _ & HsG & HsH & HsN). destruct Hd as (_ & _ & _ & HdG & HdH & HdN).
  rewrite (puts_nil grp_same), (puts_nil nhp_same), !dels_nil; auto.
  - intros k v Hv. specialize (E (KNh k)). cbn [tlook] in E. rewrite Hv in E. cbn [option_map] in E. unfold nmem.
    destruct (nget k (sh s)); cbn [option_map osent_equiv] in E; [reflexivity|contradiction].
  - intros k v Hv. specialize (E (KGrp k)). cbn [tlook] in E. rewrite Hv in E. cbn [option_map] in E. unfold nmem.
    destruct (nget k (sg s)); cbn [option_map osent_equiv] in E; [reflexivity|contradiction].
  - intros k v Hv. specialize (E (KNh k)). cbn [tlook] in E. rewrite Hv in E. cbn [option_map] in E.
    destruct (nget k (sh d)) as [v'|]; cbn [option_map osent_equiv sent_equiv] in E; [|contradiction].
    inversion E; subst. exists v'. split; [reflexivity|apply nhp_same_eq; reflexivity].
  - intros k v Hv. specialize (E (KGrp k)). cbn [tlook] in E. rewrite Hv in E. cbn [option_map] in E.
    destruct (nget k (sg d)) as [v'|] eqn:Hv'; cbn [option_map osent_equiv sent_equiv] in E; [|contradiction].
    destruct E as [_ E]. exists v'. split; [reflexivity|]. apply grp_same_equiv; [eapply HsN; eauto|eapply HdN; eauto|exact E].
Qed.

(* two RIBs with the same instances and the same contents: no operation, whatever the variant *)
Lemma diff_equal_empty v I T base : WF I -> WF T -> (forall n, has_ni I n = has_ni T n) ->
  (forall n, tabs_equiv (tabs_of (sget I n)) (tabs_of (sget T n))) ->
  ordered (diff v (abs I) (abs T) base) = [] /\ diff_next_id v (abs I) (abs T) base = base.
Proof.
  intros HI HT Hn E.
  assert (Z : diff_items v (abs I) (abs T) = []).
  { pose proof HI as (HwI & _). pose proof HT as (HwT & _). unfold diff_items.
    rewrite !flat_map_nil; [destruct (fixF14 v); reflexivity| |].
    - intros [n d] Hin. cbn [fst snd]. apply in_abs in Hin; [|exact HwT]. destruct Hin as [Hd _].
      rewrite nmem_abs, Hn, Hd. reflexivity.
    - intros [n s] Hin. cbn [fst snd]. apply in_abs in Hin; [|exact HwI]. destruct Hin as [_ ->].
      rewrite tabs_or_empty_abs. apply diff_ni_equiv; [apply wf_tabs_of, WF_sget, HI|apply wf_tabs_of, WF_sget, HT|apply E]. }
  unfold diff, diff_seq, diff_next_id. rewrite Z. cbn. split; [reflexivity|lia].
Qed.
