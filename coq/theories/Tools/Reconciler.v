(* Executable model of rib/reconciler/reconcile.go (diff, ReconcileOps) over the tables of the RIB
   model, and of a client that sends the operations to the target RIB in the documented order.
   No proofs here (Tools/ReconcilerFacts.v). *)
From Coq Require Import List Bool NArith.
From GV.Base Require Import Alist U128 Op.
From GV.Rib Require Import Model Run Spec.
Import ListNotations.
Open Scope N_scope.

(* which repair of the pinned tree is present in the modelled reconciler *)
Record rvariant := { fixF14 : bool (* diff also visits the network instances only the target has *) }.
Definition rv_fixed := {| fixF14 := true |}.
Definition rv_tree := {| fixF14 := false |}.

(* ---- reflect.DeepEqual on the stored structs ---- *)
Definition xs_same (a b : list (N * N)) : bool := list_eqb pairN_eqb a b.
Definition top_same (a b : top) : bool :=
  (t_nhg a =? t_nhg b) && (t_ni a =? t_ni b) && xs_same (t_x a) (t_x b) && Bool.eqb (t_bad a) (t_bad b).
(* the members of a stored group are a Go map: index -> weight *)
Definition nhs_sub (a b : amap N) : bool :=
  forallb (fun iw => match nget (fst iw) b with Some w => w =? snd iw | None => false end) a.
Definition grp_same (a b : grp) : bool :=
  nhs_sub (g_nhs a) (g_nhs b) && nhs_sub (g_nhs b) (g_nhs a) && (g_bk a =? g_bk b) && xs_same (g_x a) (g_x b)
  && Bool.eqb (g_bad a) (g_bad b).
Definition nhp_same (a b : nhp) : bool := xs_same (h_x a) (h_x b) && Bool.eqb (h_bad a) (h_bad b).

(* ---- what diff emits, before the ids are assigned ---- *)
Inductive cat := CAdd | CReplace | CDelete.
Inductive lvl := LNh | LNhg | LTop.
Record item := { it_cat : cat; it_lvl : lvl; it_ni : ni; it_entry : entry }.
Definition mk_item c l n e := {| it_cat := c; it_lvl := l; it_ni := n; it_entry := e |}.
Definition cat_eqb (a b : cat) : bool :=
  match a, b with CAdd, CAdd | CReplace, CReplace | CDelete, CDelete => true | _, _ => false end.
Definition lvl_eqb (a b : lvl) : bool :=
  match a, b with LNh, LNh | LNhg, LNhg | LTop, LTop => true | _, _ => false end.

(* the operation carries the stored entry (rib.ConcreteXXXProto); a stored prefix is well-formed *)
Definition e_top (t : tkind) (k : N) (p : top) : entry := ETop t k true (Some p).
Definition e_grp (id : N) (g : grp) : entry := EGrp id (Some g).
Definition e_nh (i : N) (h : nhp) : entry := ENh i (Some h).

(* one table: present in src only -> Add; in both with different contents -> Replace (an implicit
   one: the operation is an ADD, explicitReplace is never set by Reconcile) *)
Definition puts {V} (same : V -> V -> bool) (l : lvl) (n : ni) (mk : N -> V -> entry) (src dst : amap V) : list item :=
  flat_map (fun kv => match nget (fst kv) dst with
                      | None => [mk_item CAdd l n (mk (fst kv) (snd kv))]
                      | Some d => if same (snd kv) d then [] else [mk_item CReplace l n (mk (fst kv) (snd kv))]
                      end) src.
(* present in dst only -> Delete, carrying dst's entry *)
Definition dels {V} (l : lvl) (n : ni) (mk : N -> V -> entry) (src dst : amap V) : list item :=
  flat_map (fun kv => if nmem (fst kv) src then [] else [mk_item CDelete l n (mk (fst kv) (snd kv))]) dst.

(* reconcile.go:268-436, one network instance: IPv4, IPv6, MPLS, NHG, NH additions/replaces, then
   the deletions in the same table order *)
Definition diff_ni (n : ni) (s d : tabs) : list item :=
  puts top_same LTop n (e_top T4) (s4 s) (s4 d)
  ++ puts top_same LTop n (e_top T6) (s6 s) (s6 d)
  ++ puts top_same LTop n (e_top TL) (sl s) (sl d)
  ++ puts grp_same LNhg n e_grp (sg s) (sg d)
  ++ puts nhp_same LNh n e_nh (sh s) (sh d)
  ++ dels LTop n (e_top T4) (s4 s) (s4 d)
  ++ dels LTop n (e_top T6) (s6 s) (s6 d)
  ++ dels LTop n (e_top TL) (sl s) (sl d)
  ++ dels LNhg n e_grp (sg s) (sg d)
  ++ dels LNh n e_nh (sh s) (sh d).

Definition tabs_or_empty (o : option tabs) : tabs := match o with Some x => x | None => tabs0 end.

(* reconcile.go:261: the loop ranges over the network instances of the SOURCE; an instance the
   destination lacks is compared with an empty one.  With fix F14 the instances only the destination
   has are visited as well (compared with an empty source). *)
Definition diff_items (v : rvariant) (src dst : spec) : list item :=
  flat_map (fun ns => diff_ni (fst ns) (snd ns) (tabs_or_empty (nget (fst ns) dst))) src
  ++ (if fixF14 v
      then flat_map (fun nd => if nmem (fst nd) src then [] else diff_ni (fst nd) tabs0 (snd nd)) dst
      else []).

(* ---- ids: id.Add(1) before every operation, in emission order ---- *)
Definition kind_of (c : cat) : okind := match c with CDelete => DELETE | _ => ADD end.
Definition op_of (id : N) (it : item) : rop := mk_op id (it_ni it) (kind_of (it_cat it)) None (it_entry it).
Fixpoint number (id : N) (l : list item) : list (item * rop) :=
  match l with
  | [] => []
  | it :: tl => (it, op_of (id + 1) it) :: number (id + 1) tl
  end.

Record ops := { o_nh : list rop; o_nhg : list rop; o_top : list rop }.
Record reconcile_ops := { r_add : ops; r_replace : ops; r_delete : ops }.

Definition sel (c : cat) (l : lvl) (xs : list (item * rop)) : list rop :=
  map snd (filter (fun x => cat_eqb (it_cat (fst x)) c && lvl_eqb (it_lvl (fst x)) l) xs).
Definition ops_of (c : cat) (xs : list (item * rop)) : ops :=
  {| o_nh := sel c LNh xs; o_nhg := sel c LNhg xs; o_top := sel c LTop xs |}.

(* the operations in the order diff created them *)
Definition diff_seq (v : rvariant) (src dst : spec) (base : N) : list (item * rop) :=
  number base (diff_items v src dst).
(* ... and sorted into the ReconcileOps structure *)
Definition diff (v : rvariant) (src dst : spec) (base : N) : reconcile_ops :=
  let xs := diff_seq v src dst base in
  {| r_add := ops_of CAdd xs; r_replace := ops_of CReplace xs; r_delete := ops_of CDelete xs |}.
(* the value of the id counter afterwards *)
Definition diff_next_id (v : rvariant) (src dst : spec) (base : N) : N :=
  base + N.of_nat (length (diff_items v src dst)).

(* the documented dependency order (reconcile.go:101-104): additions NH, NHG, top-level; replaces in
   the same order; deletions top-level, NHG, NH *)
Definition ordered (ro : reconcile_ops) : list rop :=
  o_nh (r_add ro) ++ o_nhg (r_add ro) ++ o_top (r_add ro)
  ++ o_nh (r_replace ro) ++ o_nhg (r_replace ro) ++ o_top (r_replace ro)
  ++ o_top (r_delete ro) ++ o_nhg (r_delete ro) ++ o_nh (r_delete ro).
Definition is_empty (ro : reconcile_ops) : bool := match ordered ro with [] => true | _ => false end.
Definition all_ids (ro : reconcile_ops) : list N := map op_id (ordered ro).

(* ---- sending them to the target ---- *)
Section Apply.
  Variable v : variant.                                   (* of the target RIB *)
  Variable ord : amap (ni * rop) -> amap (ni * rop).      (* iteration order of its held operations *)

  (* the server hands ADD / REPLACE to AddEntry and DELETE to DeleteEntry, with the operation's instance *)
  Definition apply_one (r : rib) (o : rop) : rib * out :=
    match op_kind o with
    | DELETE => delete_entry v r (op_ni o) o
    | _ => add_entry v ord r (op_ni o) o
    end.
  Fixpoint apply_list (r : rib) (l : list rop) : rib * list (rop * out) :=
    match l with
    | [] => (r, [])
    | o :: tl => let '(r1, x) := apply_one r o in
                 let '(r2, xs) := apply_list r1 tl in (r2, (o, x) :: xs)
    end.
  Definition apply_in_order (r : rib) (ro : reconcile_ops) : rib * list (rop * out) :=
    apply_list r (ordered ro).
End Apply.

(* one call answered exactly its own operation as programmed: not failed, not held, nothing else *)
Definition op_okb (x : rop * out) : bool :=
  list_eqb N.eqb (oks (snd x)) [op_id (fst x)]
  && match fails (snd x) with [] => true | _ => false end
  && negb (fatal (snd x)) && negb (nofuel (snd x)).

(* ================================================================== correspondence cases *)
(* building a RIB: instances, then ADDs through the validated RIB model *)
Definition build (nofwd : bool) (nisl : list ni) (l : list rop) : rib :=
  let r0 := fold_left (fun r n => add_network_instance v_fixed n r) nisl (rib0 1 nofwd) in
  fold_left (fun r o => fst (add_entry v_fixed (canon [] []) r (op_ni o) o)) l r0.

(* an emitted operation with the list it was found in *)
Record emitted := { em_cat : cat; em_lvl : lvl; em_op : rop }.
Definition mk_em c l o := {| em_cat := c; em_lvl := l; em_op := o |}.

Definition opt_eqb {A} (f : A -> A -> bool) (a b : option A) : bool :=
  match a, b with Some x, Some y => f x y | None, None => true | _, _ => false end.
Definition tkind_eqb (a b : tkind) : bool := match a, b with T4, T4 | T6, T6 | TL, TL => true | _, _ => false end.
Definition entry_same (a b : entry) : bool :=
  match a, b with
  | ETop t k kv p, ETop t' k' kv' p' => tkind_eqb t t' && (k =? k') && Bool.eqb kv kv' && opt_eqb top_same p p'
  | EGrp i p, EGrp i' p' => (i =? i') && opt_eqb grp_same p p'
  | ENh i p, ENh i' p' => (i =? i') && opt_eqb nhp_same p p'
  | ENone, ENone => true
  | _, _ => false
  end.
Definition okind_eqb (a b : okind) : bool :=
  match a, b with ADD, ADD | REPLACE, REPLACE | DELETE, DELETE | OTHERKIND, OTHERKIND => true | _, _ => false end.
(* same list, instance, kind and entry; the ids depend on Go's map order and are judged separately *)
Definition em_same (a b : emitted) : bool :=
  cat_eqb (em_cat a) (em_cat b) && lvl_eqb (em_lvl a) (em_lvl b)
  && (op_ni (em_op a) =? op_ni (em_op b)) && okind_eqb (op_kind (em_op a)) (op_kind (em_op b))
  && entry_same (op_entry (em_op a)) (op_entry (em_op b)).
Definition em_subset (a b : list emitted) : bool := forallb (fun x => existsb (em_same x) b) a.
Definition em_set_eqb (a b : list emitted) : bool :=
  (N.of_nat (length a) =? N.of_nat (length b)) && em_subset a b && em_subset b a.
Definition emitted_of (xs : list (item * rop)) : list emitted :=
  map (fun x => mk_em (it_cat (fst x)) (it_lvl (fst x)) (snd x)) xs.

(* ids: a permutation of base+1 .. base+k *)
Fixpoint ids_from (id : N) (k : nat) : list N := match k with O => [] | S k' => (id + 1) :: ids_from (id + 1) k' end.

Record ccase := {
  cc_nis_i : list ni; cc_ops_i : list rop;             (* intended RIB *)
  cc_nis_t : list ni; cc_ops_t : list rop;             (* target RIB *)
  cc_base : N;
  cc_emitted : list emitted;                           (* what Reconcile returned, list by list *)
  cc_next : N;                                         (* the id counter afterwards *)
  cc_sent : list rop;                                  (* the same operations in the documented order *)
  cc_res : list (list N * list N * bool);              (* per operation sent: oks, fails, error *)
  cc_final : amap obs_ni                               (* target contents and counters afterwards *)
}.
Definition mk_ccase a b c d e f g h i j :=
  {| cc_nis_i := a; cc_ops_i := b; cc_nis_t := c; cc_ops_t := d; cc_base := e; cc_emitted := f; cc_next := g;
     cc_sent := h; cc_res := i; cc_final := j |}.

Definition res_of (x : rop * out) : list N * list N * bool :=
  (oks (snd x), sortN (fails (snd x)), fatal (snd x) || nofuel (snd x)).
Definition res_eqb (a b : list N * list N * bool) : bool :=
  list_eqb N.eqb (fst (fst a)) (fst (fst b)) && list_eqb N.eqb (snd (fst a)) (snd (fst b)) && Bool.eqb (snd a) (snd b).

Definition ccase_ok_v (rv : rvariant) (c : ccase) : bool :=
  let i := build false (cc_nis_i c) (cc_ops_i c) in
  let t := build false (cc_nis_t c) (cc_ops_t c) in
  (* the operations diff emits: same lists; the id counter advanced by their number *)
  em_set_eqb (emitted_of (diff_seq rv (abs i) (abs t) (cc_base c))) (cc_emitted c)
  && (diff_next_id rv (abs i) (abs t) (cc_base c) =? cc_next c)
  (* the RIB's answer to each operation the implementation sent, in its order, and the contents afterwards *)
  && (let '(tf, xs) := apply_list v_fixed (canon [] []) t (cc_sent c) in
      list_eqb res_eqb (map res_of xs) (cc_res c) && state_eqb (state_obs tf) (cc_final c)).
Definition ccase_ok := ccase_ok_v rv_fixed.
Definition cmismatches (cs : list ccase) : list N := bad_indices ccase_ok cs 0.
Definition cmismatches_tree (cs : list ccase) : list N := bad_indices (ccase_ok_v rv_tree) cs 0.
(* diagnostic *)
Definition cmodel (c : ccase) :=
  let i := build false (cc_nis_i c) (cc_ops_i c) in
  let t := build false (cc_nis_t c) (cc_ops_t c) in
  (emitted_of (diff_seq rv_fixed (abs i) (abs t) (cc_base c)),
   let '(tf, xs) := apply_list v_fixed (canon [] []) t (cc_sent c) in (map res_of xs, state_obs tf)).
