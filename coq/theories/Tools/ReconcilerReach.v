(* The hypotheses of C15_converges hold of every reachable RIB: the stored entries are ones AddEntry
   accepts ([stored_ok]) in every state reached by a history of AddEntry (cascades in any order),
   DeleteEntry, Flush, AddNetworkInstance (of a named instance) and hook registration. *)
From Coq Require Import List Bool NArith Lia Permutation.
From GV.Base Require Import Alist U128 Op.
From GV.Rib Require Import Model Lemmas RefDefs RefCount Closed Run Spec Refine.
From GV.Tools Require Import Reconciler ReconcilerDefs ReconcilerFacts ReconcilerConv.
Import ListNotations.
Open Scope N_scope.

Definition ni_ok (s : nistate) : Prop :=
  (forall t k p, nget k (get_top t s) = Some p -> key_ok t k true = true /\ t_bad p = false /\ t_nhg p <> 0)
  /\ (forall id g, nget id (tabg s) = Some g ->
        id <> 0 /\ g_bad g = false /\ g_nhs g <> [] /\ existsb (fun iw => fst iw =? 0) (g_nhs g) = false)
  /\ (forall i h, nget i (tabh s) = Some h -> i <> 0 /\ h_bad h = false).
Definition ents_ok (r : rib) : Prop := forall n, ni_ok (sget r n).
Definition nis_named (r : rib) : Prop := forall n, has_ni r n = true -> n <> 0.

Lemma stored_ok_iff r : stored_ok r <-> nis_named r /\ ents_ok r.
Proof.
  unfold stored_ok, nis_named, ents_ok, ni_ok. split.
  - intros (H1 & H2 & H3 & H4). split; [exact H1|]. intros n. split; [|split].
    + intros t k p Hp. eapply H2; eauto.
    + intros id g Hg. eapply H3; eauto.
    + intros i h Hh. eapply H4; eauto.
  - intros (H1 & H). split; [exact H1|]. split; [|split].
    + intros n t k p Hp. destruct (H n) as (A & _ & _). eapply A; eauto.
    + intros n id g Hg. destruct (H n) as (_ & A & _). eapply A; eauto.
    + intros n i h Hh. destruct (H n) as (_ & _ & A). eapply A; eauto.
Qed.

Lemma ni_ok_ceq s1 s2 : ceq s1 s2 -> ni_ok s2 -> ni_ok s1.
Proof.
  intros (Hg & Hh & Ht) (A & B & C). unfold ni_ok. rewrite Hg, Hh. split; [|split; assumption].
  intros t k p. rewrite Ht. apply A.
Qed.
Lemma ni_ok_empty h : ni_ok (ni_empty h).
Proof. unfold ni_ok. split; [|split]; intros; try (destruct t); discriminate. Qed.
Lemma ni_ok_tempty s : tempty s -> ni_ok s.
Proof.
  intros (Hg & Hh & Ht). unfold ni_ok. rewrite Hg, Hh. split; [|split]; try (intros; discriminate).
  intros t k p. rewrite Ht. discriminate.
Qed.

Lemma ents_ok_teq r' r : teq r' r -> ents_ok r -> ents_ok r'.
Proof. intros (_ & _ & _ & Hc) H n. eapply ni_ok_ceq; [apply Hc|apply H]. Qed.
Lemma ents_ok_set_pend m r : ents_ok (set_pend m r) <-> ents_ok r.
Proof. unfold ents_ok. split; intros H n; specialize (H n); rewrite ?sget_set_pend in *; exact H. Qed.
Lemma ents_ok_upd n f r : ents_ok r -> (forall s, ni_ok s -> ni_ok (f s)) -> ents_ok (upd_ni n f r).
Proof.
  intros H Hf m. rewrite sget_upd_ni. destruct ((n =? m) && has_ni r n); [apply Hf, H|apply H].
Qed.

(* removing a binding / touching a counter keeps the entries acceptable *)
Lemma nget_ndel_sub {V} k j (l : amap V) v : nget j (ndel k l) = Some v -> nget j l = Some v.
Proof. rewrite nget_ndel. destruct (k =? j); [discriminate|auto]. Qed.
Lemma ni_ok_set_rcg m s : ni_ok s -> ni_ok (set_rcg m s).
Proof. apply ni_ok_ceq, ceq_set_rcg. Qed.
Lemma ni_ok_set_rch m s : ni_ok s -> ni_ok (set_rch m s).
Proof. apply ni_ok_ceq, ceq_set_rch. Qed.
Lemma ni_ok_del_top t k s : ni_ok s -> ni_ok (set_top t (ndel k (get_top t s)) s).
Proof.
  intros (A & B & C). unfold ni_ok. rewrite tabg_set_top, tabh_set_top. split; [|split; assumption].
  intros t' k' p. rewrite get_set_top'. destruct (tk_eqb t' t) eqn:E; [|apply A].
  apply tk_eqb_eq in E. subst t'. intros H. apply nget_ndel_sub in H. eapply A; eauto.
Qed.
Lemma ni_ok_del_grp id s : ni_ok s -> ni_ok (set_tabg (ndel id (tabg s)) s).
Proof.
  intros (A & B & C). unfold ni_ok. cbn [tabg tabh set_tabg]. split; [|split; [|assumption]].
  - intros t k p. rewrite get_top_set_tabg. apply A.
  - intros j g H. apply nget_ndel_sub in H. eapply B; eauto.
Qed.
Lemma ni_ok_del_nh i s : ni_ok s -> ni_ok (set_tabh (ndel i (tabh s)) s).
Proof.
  intros (A & B & C). unfold ni_ok. cbn [tabg tabh set_tabh]. split; [|split; [assumption|]].
  - intros t k p. rewrite get_top_set_tabh. apply A.
  - intros j g H. apply nget_ndel_sub in H. eapply C; eauto.
Qed.

(* installing an operation try_install accepts *)
Lemma key_ok_true t k kv : key_ok t k kv = true -> key_ok t k true = true.
Proof. destruct t; cbn; auto. Qed.
Lemma dedup_nhs_nonempty l : l <> [] -> dedup_nhs l <> [].
Proof.
  intros H E. destruct l as [|[i w] l]; [congruence|].
  assert (X : In i (map fst (dedup_nhs ((i, w) :: l)))) by (apply dedup_nhs_keys; left; reflexivity).
  rewrite E in X. destruct X.
Qed.
Lemma dedup_nhs_nozero l : existsb (fun iw : N * N => fst iw =? 0) l = false ->
  existsb (fun iw : N * N => fst iw =? 0) (dedup_nhs l) = false.
Proof.
  intros H. destruct (existsb _ (dedup_nhs l)) eqn:E; [|reflexivity].
  apply existsb_exists in E. destruct E as ([i w] & Hin & Hz). cbn [fst] in Hz. apply N.eqb_eq in Hz. subst i.
  assert (X : In 0 (map fst l)) by (apply dedup_nhs_keys; apply in_map_iff; exists (0, w); auto).
  apply in_map_iff in X. destruct X as ([j w'] & Ej & Hj). cbn [fst] in Ej. subst j.
  assert (Y : existsb (fun iw : N * N => fst iw =? 0) l = true) by (apply existsb_exists; exists (0, w'); auto).
  congruence.
Qed.

Lemma install_ents_ok r n o r' h rv : try_install v_fixed r n o = Installed r' h rv -> ents_ok r -> ents_ok r'.
Proof.
  intros Hi H.
  assert (Hc : classify r n o = CInst) by (rewrite (classify_spec v_fixed), Hi; reflexivity).
  destruct (try_install_effect _ _ _ _ _ _ _ Hi) as [Hn He].
  unfold classify in Hc. rewrite Hn in Hc. cbn [negb] in Hc.
  destruct He as [t k kv pl Eo _ _ Tq|id pl Eo _ Tq|idx pl Eo Tq]; rewrite Eo in Hc; apply (ents_ok_teq _ _ Tq);
    apply ents_ok_upd; try exact H; intros s (A & B & C).
  - destruct (negb (key_ok t k kv) || t_bad pl) eqn:E1; [discriminate|]. apply orb_false_iff in E1. destruct E1 as [E1 E2].
    apply negb_false_iff in E1.
    destruct (is_replace o && negb (nmem k (get_top t (sget r n)))); [discriminate|].
    destruct (t_nhg pl =? 0) eqn:E3; [discriminate|]. apply N.eqb_neq in E3.
    unfold ni_ok. rewrite tabg_set_top, tabh_set_top. split; [|split; assumption].
    intros t' k' p. rewrite get_set_top'. destruct (tk_eqb t' t) eqn:E; [|apply A].
    apply tk_eqb_eq in E. subst t'. rewrite nget_nset. destruct (N.eqb_spec k k') as [<-|]; [|apply A].
    intros X; inversion X; subst. split; [eapply key_ok_true; eauto|]. split; assumption.
  - destruct (g_bad pl) eqn:E1; [discriminate|].
    destruct (is_replace o && negb (nmem id (tabg (sget r n)))); [discriminate|].
    destruct (id =? 0) eqn:E3; [discriminate|]. apply N.eqb_neq in E3.
    assert (Hne : g_nhs pl <> []) by (intros E; rewrite E in Hc; discriminate).
    assert (E4 : existsb (fun iw => fst iw =? 0) (g_nhs pl) = false).
    { revert Hc. destruct (g_nhs pl) as [|x l]; [intros; discriminate|].
      destruct (existsb _ (x :: l)); [intros; discriminate|reflexivity]. }
    unfold ni_ok. cbn [tabg tabh set_tabg]. split; [|split; [|assumption]].
    + intros t k p. rewrite get_top_set_tabg. apply A.
    + intros j g. rewrite nget_nset. destruct (N.eqb_spec id j) as [<-|]; [|apply B].
      intros X; inversion X; subst. cbn [norm_grp g_bad g_nhs].
      split; [exact E3|]. split; [exact E1|]. split; [apply dedup_nhs_nonempty; exact Hne|apply dedup_nhs_nozero; exact E4].
  - destruct (h_bad pl) eqn:E1; [discriminate|].
    destruct (is_replace o && negb (nmem idx (tabh (sget r n)))); [discriminate|].
    destruct (idx =? 0) eqn:E3; [discriminate|]. apply N.eqb_neq in E3.
    unfold ni_ok. cbn [tabg tabh set_tabh]. split; [|split; [assumption|]].
    + intros t k p. rewrite get_top_set_tabh. apply A.
    + intros j g. rewrite nget_nset. destruct (N.eqb_spec idx j) as [<-|]; [|apply C].
      intros X; inversion X; subst. split; assumption.
Qed.

Lemma aei_ents_ok ord F st n o : ents_ok (fst (fst st)) -> ents_ok (fst (fst (aei v_fixed ord F st n o))).
Proof.
  apply (aei_rel v_fixed ord (fun a b => ents_ok (fst (fst a)) -> ents_ok (fst (fst b)))); cbn [fst]; auto.
  intros r acc stk n' o' r' h rv _ Hi H. apply ents_ok_set_pend. eapply install_ents_ok; eauto.
Qed.
Lemma add_entry_ents_ok ord r n o : ents_ok r -> ents_ok (fst (add_entry v_fixed ord r n o)).
Proof.
  intros H. destruct (add_entry_cases v_fixed ord r n o) as [E|(_ & _ & _ & stk & E)].
  - rewrite E. exact H.
  - pose proof (aei_ents_ok ord (S (length (pend r))) (r, out0, []) n o H) as X. rewrite E in X. exact X.
Qed.

Lemma delete_entry_ents_ok r n o : ents_ok r -> ents_ok (fst (delete_entry v_fixed r n o)).
Proof.
  intros H. unfold delete_entry. destruct (nget n (nis r)) as [s|]; [|exact H].
  destruct (op_entry o) as [t k kv p|id p|i p|]; [| | |exact H].
  - destruct (fixF6 v_fixed && negb (key_ok t k kv)); [exact H|]. cbv zeta. cbn [fst].
    set (k' := match t with TL => if fixF6 v_fixed then k else k mod W32 | _ => k end).
    assert (X : ents_ok (upd_ni n (fun s' => set_top t (ndel k' (get_top t s')) s') r))
      by (apply ents_ok_upd; [exact H|intros; apply ni_ok_del_top; assumption]).
    destruct (nget k' (get_top t s)) as [d|]; [|exact X]. destruct (target n d) as [tn tg].
    apply ents_ok_upd; [exact X|intros; apply ni_ok_set_rcg; assumption].
  - destruct (id =? 0); [exact H|]. destruct (nget id (tabg s)); [|exact H].
    destruct (0 <? cnt (rcg s) id); [exact H|]. cbn [fst].
    apply ents_ok_upd; [|intros; apply ni_ok_set_rch; assumption].
    apply ents_ok_upd; [exact H|intros; apply ni_ok_del_grp; assumption].
  - destruct (i =? 0); [exact H|]. destruct (nget i (tabh s)); [|exact H].
    destruct (0 <? cnt (rch s) i); [exact H|]. cbn [fst].
    apply ents_ok_upd; [exact H|intros; apply ni_ok_del_nh; assumption].
Qed.

Lemma flush_ents_ok l r : ents_ok r -> ents_ok (fst (fst (flush v_fixed l r))).
Proof.
  intros H n. destruct (flush_spec v_fixed l r [] false) as (_ & _ & _ & S). fold (flush v_fixed l r) in S.
  destruct (S n) as [Te|[_ C]]; [apply ni_ok_tempty; exact Te|eapply ni_ok_ceq; [exact C|apply H]].
Qed.
Lemma add_ni_ents_ok n r : ents_ok r -> ents_ok (add_network_instance v_fixed n r).
Proof. intros H m. eapply ni_ok_ceq; [apply add_ni_ceq|apply H]. Qed.

Definition hist_named (h : list rinput) : Prop := forall n, In (IAddNI n) h -> n <> 0.

Lemma has_ni_add_ni n r m : has_ni (add_network_instance v_fixed n r) m = true -> has_ni r m = true \/ m = n.
Proof.
  unfold add_network_instance. destruct (has_ni r n) eqn:E; [auto|].
  unfold has_ni, nmem. cbn [nis set_nis]. rewrite Closed.nget_app.
  destruct (nget m (nis r)); [auto|]. unfold nget, aget; cbn. destruct (N.eqb_spec m n); [auto|discriminate].
Qed.

Lemma rstep_stored_ok r i : (forall n, i = IAddNI n -> n <> 0) -> stored_ok r -> stored_ok (fst (fst (rstep v_fixed r i))).
Proof.
  intros Hi H. apply stored_ok_iff in H. destruct H as [Hn He]. apply stored_ok_iff.
  destruct i as [n o hf ho|n o|l|n| |]; cbn [rstep].
  - destruct (add_entry v_fixed (canon hf ho) r n o) as [r' o'] eqn:E. cbn [fst].
    replace r' with (fst (add_entry v_fixed (canon hf ho) r n o)) by (rewrite E; reflexivity). split.
    + intros m Hm. apply Hn. destruct (add_entry_le v_fixed (canon hf ho) r n o) as [Hh _]. rewrite Hh. exact Hm.
    + apply add_entry_ents_ok. exact He.
  - destruct (delete_entry v_fixed r n o) as [r' o'] eqn:E. cbn [fst].
    replace r' with (fst (delete_entry v_fixed r n o)) by (rewrite E; reflexivity). split.
    + intros m Hm. apply Hn. destruct (delete_entry_le v_fixed r n o) as ([Hh _] & _). rewrite <- Hh. exact Hm.
    + apply delete_entry_ents_ok. exact He.
  - destruct (flush v_fixed l r) as [[r' h] e] eqn:E. cbn [fst].
    replace r' with (fst (fst (flush v_fixed l r))) by (rewrite E; reflexivity). split.
    + intros m Hm. apply Hn. destruct (flush_le v_fixed l r) as [Hh _]. rewrite <- Hh. exact Hm.
    + apply flush_ents_ok. exact He.
  - cbn [fst]. split.
    + intros m Hm. apply has_ni_add_ni in Hm. destruct Hm as [Hm| ->]; [apply Hn; exact Hm|apply Hi; reflexivity].
    + apply add_ni_ents_ok. exact He.
  - cbn [fst]. pose proof (teq_post_hook r) as Tq. split.
    + intros m Hm. apply Hn. destruct Tq as (_ & _ & Hh & _). rewrite <- Hh. exact Hm.
    + eapply ents_ok_teq; eauto.
  - cbn [fst]. pose proof (teq_res_hook r) as Tq. split.
    + intros m Hm. apply Hn. destruct Tq as (_ & _ & Hh & _). rewrite <- Hh. exact Hm.
    + eapply ents_ok_teq; eauto.
Qed.

Lemma rtrace_stored_ok h : forall r, hist_named h -> stored_ok r -> stored_ok (snd (rtrace v_fixed r h)).
Proof.
  induction h as [|i h IH]; intros r Hh H; cbn [rtrace snd]; [exact H|].
  pose proof (rstep_stored_ok r i) as S. destruct (rstep v_fixed r i) as [[r' o] fe]. cbn [fst] in S.
  assert (H' : stored_ok r') by (apply S; [intros n ->; apply Hh; left; reflexivity|exact H]).
  specialize (IH r' (fun n Hin => Hh n (or_intror Hin)) H'). destruct (rtrace v_fixed r' h) as [os rf]. exact IH.
Qed.

Lemma stored_ok_rib0 d nf : d <> 0 -> stored_ok (rib0 d nf).
Proof.
  intros Hd. apply stored_ok_iff. split.
  - intros n Hn. unfold has_ni, nmem, nget, aget, rib0 in Hn; cbn in Hn. destruct (N.eqb_spec n d); [congruence|discriminate].
  - intros n. assert (E : sget (rib0 d nf) n = ni_empty false).
    { unfold sget, rib0, nget, aget. cbn. destruct (n =? d); reflexivity. }
    rewrite E. apply ni_ok_empty.
Qed.

Theorem reachable_stored_ok d nf h : d <> 0 -> hist_named h -> stored_ok (snd (rtrace v_fixed (rib0 d nf) h)).
Proof. intros Hd Hh. apply rtrace_stored_ok; [exact Hh|apply stored_ok_rib0; exact Hd]. Qed.

(* convergence stated over reachable RIBs: only the property's own conditions remain as hypotheses *)
Theorem converges_reachable ord dI nfI hI dT nfT hT base :
  (forall l, Permutation (ord l) l) ->
  dI <> 0 -> hist_named hI -> dT <> 0 -> hist_named hT ->
  let I := snd (rtrace v_fixed (rib0 dI nfI) hI) in
  let T := snd (rtrace v_fixed (rib0 dT nfT) hT) in
  closed I -> pend T = [] -> (forall n, has_ni I n = true -> has_ni T n = true) ->
  let res := apply_in_order v_fixed ord T (diff rv_fixed (abs I) (abs T) base) in
  Forall op_ok (snd res) /\ INV (fst res) /\ pend (fst res) = []
  /\ forall n, has_ni (fst res) n = has_ni T n
               /\ tabs_equiv (tabs_of (sget (fst res) n)) (tabs_of (sget I n)).
Proof.
  intros Hord HdI HhI HdT HhT I T Hc Hp Hsub.
  apply converges_stmt; auto.
  - apply reachable_INV, INV_rib0.
  - apply reachable_stored_ok; assumption.
  - apply reachable_INV, INV_rib0.
  - apply reachable_stored_ok; assumption.
Qed.
