(* What C18 demands of the fluent builders, written independently of the step-by-step model:
   for every field of an emitted message a table saying which calls set it (and to what) or
   append to it; the field's value is the argument of the LAST call in the table, the
   concatenation of the appended arguments for the three appending methods (AddNextHop,
   AddEncapHeader, WithLabels), and its default ("" / 0 / absent / empty) when no call of
   the table occurs.  Also the projections of a program on one builder / one client.
   Definitions only; the theorems relating them to Tools/Fluent.v are in FluentFacts.v. *)
From Coq Require Import String List NArith ZArith Bool.
From GV.Base Require Import Alist U128.
From GV.Tools Require Import Fluent.
Import ListNotations.
Open Scope N_scope.

(* value given by the last element of l on which f is defined, d if there is none *)
Definition last_or {A B} (f : A -> option B) (d : B) (l : list A) : B :=
  fold_left (fun acc a => match f a with Some v => v | None => acc end) l d.

(* ---- which call sets which field ---- *)
Definition sets_ni c := match c with WithNetworkInstance n => Some n | _ => None end.
Definition sets_elec c : option (option u128) := match c with WithElectionID lo hi => Some (Some (hi, lo)) | _ => None end.
(* ipv4 / ipv6 *)
Definition sets_prefix c := match c with WithPrefix p => Some p | _ => None end.
Definition sets_nhg c := match c with WithNextHopGroup u => Some (Some u) | _ => None end.
Definition sets_nhg_ni c := match c with WithNextHopGroupNetworkInstance n => Some (Some n) | _ => None end.
Definition sets_meta c := match c with WithMetadata b => Some (Some b) | _ => None end.
(* label *)
Definition sets_label c := match c with WithLabel v => Some (Some v) | _ => None end.
Definition sets_popped c := match c with WithPoppedLabelStack ls => Some ls | _ => None end.
(* next hop *)
Definition sets_index c := match c with WithIndex i => Some i | _ => None end.
Definition sets_nb_ip c := match c with WithIPAddress a => Some (Some a) | _ => None end.
Definition sets_ifref c : option (option (string * option N)) :=
  match c with WithInterfaceRef n => Some (Some (n, None)) | WithSubinterfaceRef n s => Some (Some (n, Some s)) | _ => None end.
Definition sets_mac c := match c with WithMacAddress m => Some (Some m) | _ => None end.
Definition sets_ipinip c := match c with WithIPinIP s d => Some (Some (s, d)) | _ => None end.
Definition sets_nb_ni c := match c with WithNextHopNetworkInstance n => Some (Some n) | _ => None end.
Definition sets_pop c := match c with WithPopTopLabel => Some (Some true) | _ => None end.
Definition sets_pushed c := match c with WithPushedLabelStack ls => Some ls | _ => None end.
Definition sets_decap c := match c with WithDecapsulateHeader h => Some (encap_map h) | _ => None end.
Definition sets_encapsulate c := match c with WithEncapsulateHeader h => Some (encap_map h) | _ => None end.
Definition hdrs_of c : list bid := match c with AddEncapHeader hs => hs | _ => [] end.     (* appends *)
(* next-hop group *)
Definition sets_id c := match c with WithID i => Some i | _ => None end.
Definition sets_backup c := match c with WithBackupNHG i => Some (Some i) | _ => None end.
Definition nhs_of c : list (N * N) := match c with AddNextHop i w => [(i, w)] | _ => [] end.  (* appends *)
(* encapsulation headers *)
Definition labels_of c : list N := match c with WithLabels l => l | _ => [] end.           (* appends *)
Definition sets_dscp c := match c with WithDSCP v => Some (Some v) | _ => None end.
Definition sets_dst_ip c := match c with WithDstIP s => Some (Some s) | _ => None end.
Definition sets_dst_port c := match c with WithDstUDPPort p => Some (Some p) | _ => None end.
Definition sets_ttl c := match c with WithIPTTL v => Some (Some v) | _ => None end.
Definition sets_src_ip c := match c with WithSrcIP s => Some (Some s) | _ => None end.
Definition sets_src_port c := match c with WithSrcUDPPort p => Some (Some p) | _ => None end.

(* key indices 1, 2, 3, ... in order *)
Definition numbered {H} (l : list H) : list (N * H) := combine (map N.of_nat (seq 1 (List.length l))) l.

(* ---- the state a builder of kind k must be in after the calls cs ---- *)
Definition spec_ip cs := MkIp (last_or sets_prefix EmptyString cs) (last_or sets_nhg None cs) (last_or sets_nhg_ni None cs) (last_or sets_meta None cs).
Definition spec_label cs := MkLabel (last_or sets_label None cs) (last_or sets_nhg None cs) (last_or sets_nhg_ni None cs) (last_or sets_popped [] cs).
Definition spec_body cs : nh_body bid :=
  MkBody (last_or sets_nb_ip None cs) (last_or sets_ifref None cs) (last_or sets_mac None cs) (last_or sets_ipinip None cs)
         (last_or sets_nb_ni None cs) (last_or sets_pop None cs) (last_or sets_pushed [] cs)
         (numbered (flat_map hdrs_of cs)) (last_or sets_decap 0 cs) (last_or sets_encapsulate 0 cs).
Definition spec_nh cs := MkNhSt (last_or sets_index 0 cs) (existsb touches_body cs) (spec_body cs).
Definition spec_nhg cs := MkNhg (last_or sets_id 0 cs) (last_or sets_backup None cs) (flat_map nhs_of cs).
Definition spec_udp6 cs := MkUdp6 (last_or sets_dscp None cs) (last_or sets_dst_ip None cs) (last_or sets_dst_port None cs)
                                  (last_or sets_ttl None cs) (last_or sets_src_ip None cs) (last_or sets_src_port None cs).

Definition spec_builder (k : kind) (cs : list call) : builder :=
  match k with
  | KIPv4 => BE (MkEB (last_or sets_ni EmptyString cs) (last_or sets_elec None cs) (EIPv4 (spec_ip cs)))
  | KIPv6 => BE (MkEB (last_or sets_ni EmptyString cs) (last_or sets_elec None cs) (EIPv6 (spec_ip cs)))
  | KLabel => BE (MkEB (last_or sets_ni EmptyString cs) None (ELabel (spec_label cs)))     (* no WithElectionID on label entries *)
  | KNH => BE (MkEB (last_or sets_ni EmptyString cs) (last_or sets_elec None cs) (ENH (spec_nh cs)))
  | KNHG => BE (MkEB (last_or sets_ni EmptyString cs) (last_or sets_elec None cs) (ENHG (spec_nhg cs)))
  | KMplsHdr => BMpls (flat_map labels_of cs)
  | KUdp6Hdr => BUdp6 (spec_udp6 cs)
  end.

(* ---- projection of a program on one builder ---- *)
Notation kenv := (alist bid kind) (only parsing).

Definition is_hdr_kind (k : kind) : bool := match k with KMplsHdr | KUdp6Hdr => true | _ => false end.
Definition kind_of (b : builder) : kind :=
  match b with
  | BE e => match b_pb e with EIPv4 _ => KIPv4 | EIPv6 _ => KIPv6 | ELabel _ => KLabel | ENH _ => KNH | ENHG _ => KNHG end
  | BMpls _ => KMplsHdr
  | BUdp6 _ => KUdp6Hdr
  end.
Definition declare (env : kenv) (b : bid) (k : kind) : kenv :=
  match aget N.eqb b env with Some _ => env | None => aset N.eqb b k env end.
(* an AddEncapHeader argument that does not name a header builder is not a Go program; it is dropped *)
Definition norm_k (env : kenv) (c : call) : call :=
  match c with
  | AddEncapHeader hs => AddEncapHeader (filter (fun r => match aget N.eqb r env with Some k => is_hdr_kind k | None => false end) hs)
  | _ => c
  end.
(* the builders a program creates, with their kinds (the first SNew of a name counts) *)
Fixpoint kinds_from (env : kenv) (p : list step) : kenv :=
  match p with
  | [] => env
  | SNew b k :: p' => kinds_from (declare env b k) p'
  | _ :: p' => kinds_from env p'
  end.
(* the calls the program makes on builder b (after it exists), in order *)
Fixpoint calls_from (env : kenv) (b : bid) (p : list step) : list call :=
  match p with
  | [] => []
  | SNew x k :: p' => calls_from (declare env x k) b p'
  | SCall x c :: p' => (if (x =? b) && amem N.eqb x env then [norm_k env c] else []) ++ calls_from env b p'
  | _ :: p' => calls_from env b p'
  end.
Definition kinds (p : list step) : kenv := kinds_from [] p.
Definition calls_on (b : bid) (p : list step) : list call := calls_from [] b p.

(* the state of builder b after program p, from the tables alone *)
Definition spec_store (p : list step) (b : bid) : option builder :=
  match aget N.eqb b (kinds p) with Some k => Some (spec_builder k (calls_on b p)) | None => None end.

(* the header message that builder name r stands for after program p, from the tables alone *)
Definition spec_resolve (p : list step) (r : bid) : encap_msg :=
  match spec_store p r with Some h => encap_proto h | None => encap0 end.

(* ---- projection of a program on one client ---- *)
(* the calls made on client c, each with the program prefix that precedes it *)
Fixpoint client_calls_from (pre : list step) (c : cid) (p : list step) : list (list step * ccall) :=
  match p with
  | [] => []
  | SClient x cc :: p' => (if x =? c then [(pre, cc)] else []) ++ client_calls_from (pre ++ [SClient x cc]) c p'
  | s :: p' => client_calls_from (pre ++ [s]) c p'
  end.
Definition client_calls (c : cid) (p : list step) := client_calls_from [] c p.

(* the SProto observations, each with the program prefix that precedes it *)
Fixpoint proto_calls_from (pre : list step) (p : list step) : list (list step * bid) :=
  match p with
  | [] => []
  | SProto b :: p' => (pre, b) :: proto_calls_from (pre ++ [SProto b]) p'
  | s :: p' => proto_calls_from (pre ++ [s]) p'
  end.
Definition proto_calls (p : list step) := proto_calls_from [] p.

(* start, start+1, ..., start+len-1 *)
Fixpoint nseq (start : N) (len : nat) : list N :=
  match len with O => [] | S n => start :: nseq (start + 1) n end.
(* ids 1 .. n *)
Definition ids_upto (n : nat) : list N := nseq 1 n.

Definition opk_of (cc : ccall) : option (N * list bid) :=
  match cc with CAddEntry bs => Some (1, bs) | CReplaceEntry bs => Some (2, bs) | CDeleteEntry bs => Some (3, bs) | _ => None end.

(* the operations one client call must add to the queue, given the builder store and the client
   at that moment: none unless it is AddEntry / ReplaceEntry / DeleteEntry (on a started client);
   then one operation per entry passed, in order, numbered on from the operations queued before,
   of the type of the call, carrying the entry's network instance and payload as they are NOW and
   the entry's own election id if it has one, else the client's current id in elected-primary
   mode, else none *)
Definition ops_of_call (st : alist bid builder) (cl : client) (cc : ccall) : list op_msg :=
  match opk_of cc with
  | Some (k, bs) =>
    if c_started cl then
      let es := entries st bs in
      map (fun ie => MkOp (fst ie) (b_ni (snd ie)) k
                          (match b_elec (snd ie) with
                           | Some own => Some own
                           | None => if c_mode cl =? 2 then c_cur cl else None
                           end)
                          (payload_of st (b_pb (snd ie))))
          (combine (nseq (c_count cl + 1) (List.length es)) es)
    else []
  | None => []
  end.

(* which client calls set the current election id / the redundancy mode *)
Definition sets_cur (started : bool) (cc : ccall) : option (option u128) :=
  match cc with
  | CWithInitialElectionID lo hi => Some (Some (hi, lo))
  | CUpdateElectionID lo hi => if started then Some (Some (hi, lo)) else None   (* before Start: g.c is nil, the call panics *)
  | _ => None
  end.
Definition sets_mode (cc : ccall) : option N := match cc with CWithRedundancyMode m => Some m | _ => None end.
