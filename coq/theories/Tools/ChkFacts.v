(* Proofs about the model of package chk (Tools/Chk.v). *)
From Coq Require Import List NArith ZArith Bool String Lia.
From GV.Base Require Import Alist.
From GV.Tools Require Import Chk.
Import ListNotations.
Open Scope N_scope.

(* ------------------------------------------------------------------------- small facts *)
Lemma verdict_of_pass b : verdict_of b = Pass <-> b = true.
Proof. destruct b; simpl; split; congruence. Qed.
Lemma verdict_of_fatal b : verdict_of b = Fatal <-> b = false.
Proof. destruct b; simpl; split; congruence. Qed.
Lemma not_pass v : v <> Pass <-> v = Fatal.
Proof. destruct v; split; congruence. Qed.

Lemma all_pass_iff {A} (f : A -> verdict) l : all_pass f l = Pass <-> forall a, In a l -> f a = Pass.
Proof.
  induction l as [|a t IH]; simpl.
  - split; [intros _ a []|reflexivity].
  - destruct (f a) eqn:E.
    + rewrite IH. split; [intros H x [<-|Hx]; auto|intros H x Hx; apply H; auto].
    + split; [discriminate|]. intros H. rewrite <- E. apply H. auto.
Qed.

Lemma str_eqb_refl s : String.eqb s s = true.
Proof. apply String.eqb_eq. reflexivity. Qed.
Lemma str_nonempty_true s : str_nonempty s = true <-> s <> EmptyString.
Proof.
  unfold str_nonempty. destruct (String.eqb_spec s EmptyString); simpl; split; congruence.
Qed.

Lemma opt_eqb_eq {A} (eqb : A -> A -> bool) (H : forall a b, eqb a b = true <-> a = b) x y :
  opt_eqb eqb x y = true <-> x = y.
Proof.
  destruct x, y; simpl; try (split; congruence). rewrite H. split; congruence.
Qed.
Lemma pairN_eqb_eq a b : pairN_eqb a b = true <-> a = b.
Proof.
  destruct a, b; unfold pairN_eqb; simpl. rewrite andb_true_iff, !N.eqb_eq. split; [intros [-> ->]; reflexivity|intros H; inversion H; auto].
Qed.
Lemma details_eqb_eq a b : details_eqb a b = true <-> a = b.
Proof.
  destruct a, b; unfold details_eqb; simpl.
  rewrite !andb_true_iff, !N.eqb_eq, !String.eqb_eq, Z.eqb_eq.
  split; [intros [[[[[-> ->] ->] ->] ->] ->]; reflexivity|intros H; inversion H; tauto].
Qed.

(* ------------------------------------------------------------------------- HasResult *)
Lemma eq_mod_spec o r w : eq_mod o r w = true <-> Matches o r w.
Proof.
  unfold eq_mod, Matches.
  rewrite !andb_true_iff, (opt_eqb_eq _ pairN_eqb_eq), (opt_eqb_eq _ N.eqb_eq), String.eqb_eq, Z.eqb_eq.
  assert (Hop : (o_ign_opid o || (r_opid r =? r_opid w)) = true <-> (o_ign_opid o = false -> r_opid r = r_opid w)).
  { destruct (o_ign_opid o); simpl; [split; [discriminate|reflexivity]|rewrite N.eqb_eq; tauto]. }
  assert (Hse : (negb (o_inc_serr o) || String.eqb (r_serr r) (r_serr w)) = true <-> (o_inc_serr o = true -> r_serr r = r_serr w)).
  { destruct (o_inc_serr o); simpl; [rewrite String.eqb_eq; tauto|split; [discriminate|reflexivity]]. }
  assert (Hd : match r_details w with
               | Some dw => match r_details r with Some dr => details_eqb dr dw | None => false end
               | None => true end = true <-> (forall dw, r_details w = Some dw -> r_details r = Some dw)).
  { destruct (r_details w) as [dw|]; [|split; [discriminate|reflexivity]].
    destruct (r_details r) as [dr|].
    - rewrite details_eqb_eq. split; [intros -> ? H; inversion H; reflexivity|intros H; specialize (H dw eq_refl); congruence].
    - split; [discriminate|intros H; specialize (H dw eq_refl); discriminate]. }
  rewrite Hop, Hse, Hd. tauto.
Qed.

Lemma has_result_pass o res w :
  has_result o res w = Pass <-> exists r, In (Some r) res /\ eq_mod o r w = true.
Proof.
  unfold has_result. rewrite verdict_of_pass, existsb_exists. split.
  - intros ([r|] & Hin & H); [eauto|discriminate].
  - intros (r & Hin & H). exists (Some r). auto.
Qed.

Lemma has_result_plain_pass o res w :
  has_result_plain o res w = Pass <-> exists r, In r res /\ eq_mod o r w = true.
Proof.
  unfold has_result_plain. rewrite has_result_pass. split; intros (r & Hin & H); exists r; split; auto.
  - apply in_map_iff in Hin. destruct Hin as (x & Hx & Hin). congruence.
  - apply in_map. exact Hin.
Qed.

Theorem has_result_iff o res w : has_result_plain o res w = Pass <-> Present o res w.
Proof.
  rewrite has_result_plain_pass. unfold Present.
  split; intros (r & Hin & H); exists r; (split; [exact Hin|]); apply eq_mod_spec; exact H.
Qed.

Corollary has_result_fatal_iff o res w : has_result_plain o res w = Fatal <-> ~ Present o res w.
Proof. rewrite <- has_result_iff. rewrite not_pass. tauto. Qed.

Lemma has_result_single o x w :
  has_result o [x] w = Pass <-> exists r, x = Some r /\ eq_mod o r w = true.
Proof.
  rewrite has_result_pass. split.
  - intros (r & [H|[]] & E). eauto.
  - intros (r & -> & E). exists r. simpl. auto.
Qed.

(* ------------------------------------------------------------------------- last-wins indexes *)
Section Index.
  Context {K : Type}.
  Variable eqb : K -> K -> bool.
  Hypothesis eqb_spec : forall a b, reflect (a = b) (eqb a b).
  Variable keyf : opresult -> option K.

  Definition gstep (m : alist K opresult) (r : opresult) : alist K opresult :=
    match keyf r with Some k => aset eqb k r m | None => m end.
  Definition gbuild (res : list opresult) (m : alist K opresult) := fold_left gstep res m.

  Lemma aget_gstep k m r :
    aget eqb k (gstep m r) = match keyf r with
                              | Some k' => if eqb k k' then Some r else aget eqb k m
                              | None => aget eqb k m end.
  Proof.
    unfold gstep. destruct (keyf r) as [k'|]; [|reflexivity].
    destruct (eqb_spec k k') as [->|Hne].
    - apply (aget_aset_same eqb eqb_spec).
    - apply (aget_aset_other eqb eqb_spec). exact Hne.
  Qed.

  (* what a lookup returns is an element of the list filed under that key ... *)
  Lemma gbuild_sound res : forall m k r,
    aget eqb k (gbuild res m) = Some r -> (In r res /\ keyf r = Some k) \/ aget eqb k m = Some r.
  Proof.
    induction res as [|a t IH]; simpl; intros m k r H; [right; exact H|].
    apply IH in H. destruct H as [[Hin Hk]|H]; [left; split; auto|].
    rewrite aget_gstep in H. destruct (keyf a) as [k'|] eqn:Ek; [|right; exact H].
    destruct (eqb_spec k k') as [->|Hne]; [|right; exact H].
    inversion H; subst. left. split; auto.
  Qed.

  Lemma in_somes_map {B} (f : opresult -> option B) l a b : In a l -> f a = Some b -> In b (somes (map f l)).
  Proof.
    induction l as [|x t IH]; simpl; [tauto|]. intros [->|Hin] Hf.
    - rewrite Hf. left. reflexivity.
    - destruct (f x); [right|]; apply IH; auto.
  Qed.

  Lemma gbuild_keeps t : forall m k r,
    aget eqb k m = Some r -> (forall x, In x t -> keyf x <> Some k) -> aget eqb k (gbuild t m) = Some r.
  Proof.
    induction t as [|b t IH]; simpl; intros m k r Hm Hno; [exact Hm|].
    apply IH; [|intros x Hx; apply Hno; auto].
    rewrite aget_gstep. destruct (keyf b) as [k'|] eqn:Eb; [|exact Hm].
    destruct (eqb_spec k k') as [->|Hne]; [|exact Hm].
    exfalso. apply (Hno b); auto.
  Qed.

  (* ... and with unique keys every element is what the lookup of its key returns *)
  Lemma gbuild_complete res : forall m k r,
    NoDup (somes (map keyf res)) -> In r res -> keyf r = Some k -> aget eqb k (gbuild res m) = Some r.
  Proof.
    induction res as [|a t IH]; simpl; intros m k r Hnd Hin Hk; [tauto|].
    destruct Hin as [->|Hin].
    - rewrite Hk in Hnd. inversion Hnd as [|? ? Hni Hnd']; subst.
      apply gbuild_keeps.
      + rewrite aget_gstep, Hk. destruct (eqb_spec k k); congruence.
      + intros x Hx Hkx. apply Hni. eapply in_somes_map; eauto.
    - apply IH; auto. destruct (keyf a); [inversion Hnd; auto|auto].
  Qed.
End Index.

(* uniqueness of a finer key family follows from uniqueness of the one it embeds into *)
Lemma NoDup_somes_proj {B C} (g : opresult -> option B) (f : opresult -> option C) (h : C -> B) :
  (forall c c', h c = h c' -> c = c') -> (forall a c, f a = Some c -> g a = Some (h c)) ->
  forall l, NoDup (somes (map g l)) -> NoDup (somes (map f l)).
Proof.
  intros Hinj Hfg. induction l as [|a t IH]; simpl; intros Hnd; [constructor|].
  destruct (f a) as [c|] eqn:Ef.
  - rewrite (Hfg _ _ Ef) in Hnd. inversion Hnd as [|? ? Hni Hnd']; subst. constructor; auto.
    intros Hin. apply Hni. clear - Hin Hfg. induction t as [|x t IH]; simpl in *; [tauto|].
    destruct (f x) as [c'|] eqn:Ex.
    + rewrite (Hfg _ _ Ex). destruct Hin as [->|Hin]; [left; reflexivity|right; auto].
    + destruct (g x); [right|]; auto.
  - apply IH. destruct (g a); [inversion Hnd; auto|auto].
Qed.

(* the six maps of HasResultsCache are gbuild over these key functions *)
Definition kf_op (r : opresult) : option N := Some (r_opid r).
Definition kf_d {K} (sel : dkey -> option K) (v : variant) (r : opresult) : option K :=
  match r_details r with Some d => sel (dkey_of v d) | None => None end.
Definition sel_nhg k := match k with DNhg x => Some x | _ => None end.
Definition sel_nh k := match k with DNh x => Some x | _ => None end.
Definition sel_v4 k := match k with DV4 x => Some x | _ => None end.
Definition sel_v6 k := match k with DV6 x => Some x | _ => None end.
Definition sel_mpls k := match k with DMpls x => Some x | _ => None end.

Lemma index_add_proj v ix r :
  by_op (index_add v ix r) = gstep N.eqb kf_op (by_op ix) r
  /\ by_nhg (index_add v ix r) = gstep N.eqb (kf_d sel_nhg v) (by_nhg ix) r
  /\ by_nh (index_add v ix r) = gstep N.eqb (kf_d sel_nh v) (by_nh ix) r
  /\ by_v4 (index_add v ix r) = gstep String.eqb (kf_d sel_v4 v) (by_v4 ix) r
  /\ by_v6 (index_add v ix r) = gstep String.eqb (kf_d sel_v6 v) (by_v6 ix) r
  /\ by_mpls (index_add v ix r) = gstep N.eqb (kf_d sel_mpls v) (by_mpls ix) r.
Proof.
  unfold index_add, gstep, kf_op, kf_d.
  destruct (r_details r) as [d|]; [destruct (dkey_of v d)|]; simpl; repeat split; reflexivity.
Qed.

Lemma index_proj v res : forall ix,
  by_op (fold_left (index_add v) res ix) = gbuild N.eqb kf_op res (by_op ix)
  /\ by_nhg (fold_left (index_add v) res ix) = gbuild N.eqb (kf_d sel_nhg v) res (by_nhg ix)
  /\ by_nh (fold_left (index_add v) res ix) = gbuild N.eqb (kf_d sel_nh v) res (by_nh ix)
  /\ by_v4 (fold_left (index_add v) res ix) = gbuild String.eqb (kf_d sel_v4 v) res (by_v4 ix)
  /\ by_v6 (fold_left (index_add v) res ix) = gbuild String.eqb (kf_d sel_v6 v) res (by_v6 ix)
  /\ by_mpls (fold_left (index_add v) res ix) = gbuild N.eqb (kf_d sel_mpls v) res (by_mpls ix).
Proof.
  induction res as [|r t IH]; intros ix; [simpl; tauto|].
  cbn [fold_left]. destruct (IH (index_add v ix r)) as (H1 & H2 & H3 & H4 & H5 & H6).
  destruct (index_add_proj v ix r) as (G1 & G2 & G3 & G4 & G5 & G6).
  rewrite H1, H2, H3, H4, H5, H6, G1, G2, G3, G4, G5, G6. unfold gbuild. cbn [fold_left]. tauto.
Qed.

Lemma build_index_proj v res :
  let ix := build_index v res in
  by_op ix = gbuild N.eqb kf_op res []
  /\ by_nhg ix = gbuild N.eqb (kf_d sel_nhg v) res []
  /\ by_nh ix = gbuild N.eqb (kf_d sel_nh v) res []
  /\ by_v4 ix = gbuild String.eqb (kf_d sel_v4 v) res []
  /\ by_v6 ix = gbuild String.eqb (kf_d sel_v6 v) res []
  /\ by_mpls ix = gbuild N.eqb (kf_d sel_mpls v) res [].
Proof. exact (index_proj v res rindex0). Qed.

Lemma gsound {K} eqb (spec : forall a b : K, reflect (a = b) (eqb a b)) keyf res k r :
  aget eqb k (gbuild eqb keyf res []) = Some r -> In r res /\ keyf r = Some k.
Proof. intros H. apply (gbuild_sound eqb spec) in H. destruct H as [H|H]; [exact H|discriminate]. Qed.

(* ------------------------------------------------------------------------- HasResultsCache *)
(* a want is actually looked up (in an index or, after the repair, by linear search) *)
Definition looked_up (v : variant) (o : ropts) (w : opresult) : Prop :=
  o_ign_opid o = false \/ fix_cache_nokey v = true
  \/ exists d, r_details w = Some d /\ dkey_of v d <> DNone.

Lemma cache_want_sound v o res w :
  cache_want v o res (build_index v res) w = Pass -> looked_up v o w -> has_result_plain o res w = Pass.
Proof.
  destruct (build_index_proj v res) as (Hop & Hnhg & Hnh & Hv4 & Hv6 & Hmpls).
  unfold cache_want. intros H Hl. apply has_result_plain_pass.
  destruct (o_ign_opid o) eqn:Eo; simpl in H.
  - destruct (r_details w) as [d|] eqn:Ed; [|discriminate].
    destruct (dkey_of v d) eqn:Ek.
    + rewrite Hnhg in H. apply has_result_single in H. destruct H as (r & Hg & E).
      apply (gsound _ N.eqb_spec) in Hg. exists r. tauto.
    + rewrite Hnh in H. apply has_result_single in H. destruct H as (r & Hg & E).
      apply (gsound _ N.eqb_spec) in Hg. exists r. tauto.
    + rewrite Hv4 in H. apply has_result_single in H. destruct H as (r & Hg & E).
      apply (gsound _ String.eqb_spec) in Hg. exists r. tauto.
    + rewrite Hv6 in H. apply has_result_single in H. destruct H as (r & Hg & E).
      apply (gsound _ String.eqb_spec) in Hg. exists r. tauto.
    + rewrite Hmpls in H. apply has_result_single in H. destruct H as (r & Hg & E).
      apply (gsound _ N.eqb_spec) in Hg. exists r. tauto.
    + destruct (fix_cache_nokey v) eqn:Ef.
      * apply has_result_plain_pass. exact H.
      * exfalso. destruct Hl as [Hl|[Hl|(d' & Hd' & Hne)]]; congruence.
  - rewrite Hop in H. apply has_result_single in H. destruct H as (r & Hg & E).
    apply (gsound _ N.eqb_spec) in Hg. exists r. tauto.
Qed.

(* pass of the cached checker => every looked-up want passes the plain checker (any variant) *)
Theorem cache_sound_gen v o res wants :
  has_results_cache v o res wants = Pass ->
  forall w, In w wants -> looked_up v o w -> has_result_plain o res w = Pass.
Proof.
  unfold has_results_cache. rewrite all_pass_iff. intros H w Hin Hl. apply cache_want_sound with (v := v); auto.
Qed.

Theorem cache_sound o res wants :
  has_results_cache v_fixed o res wants = Pass -> forall w, In w wants -> has_result_plain o res w = Pass.
Proof.
  intros H w Hin. apply (cache_sound_gen v_fixed o res wants H w Hin). right. left. reflexivity.
Qed.

(* the pinned tree is sound on what it does look up: every want without IgnoreOperationID, and
   NHG / NH / IPv4 wants with it *)
Theorem cache_sound_tree_partial o res wants :
  has_results_cache v_tree o res wants = Pass ->
  forall w, In w wants ->
    (o_ign_opid o = false \/ exists d, r_details w = Some d /\ (d_nhg d <> 0 \/ d_nh d <> 0 \/ d_v4 d <> EmptyString)) ->
    has_result_plain o res w = Pass.
Proof.
  intros H w Hin Hc. apply (cache_sound_gen v_tree o res wants H w Hin).
  destruct Hc as [Hc|(d & Hd & Hc)]; [left; exact Hc|]. right. right. exists d. split; [exact Hd|].
  unfold dkey_of. simpl.
  destruct (N.eqb_spec (d_nhg d) 0); simpl; [|discriminate].
  destruct (N.eqb_spec (d_nh d) 0); simpl; [|discriminate].
  destruct (str_nonempty (d_v4 d)) eqn:E; [discriminate|].
  exfalso. destruct Hc as [Hc|[Hc|Hc]]; try tauto.
  apply str_nonempty_true in Hc. congruence.
Qed.

(* projections of the uniqueness hypothesis onto the individual maps *)
Lemma unique_op o res : o_ign_opid o = false -> unique_keys o res -> NoDup (somes (map kf_op res)).
Proof.
  intros Eo. unfold unique_keys. apply (NoDup_somes_proj (rkey_of o) kf_op KOp).
  - intros c c' H; inversion H; reflexivity.
  - intros a c H. unfold kf_op in H. inversion H; subst. unfold rkey_of. rewrite Eo. reflexivity.
Qed.

Lemma unique_d {K} (sel : dkey -> option K) (mk : K -> dkey) o res :
  o_ign_opid o = true -> (forall k x, sel k = Some x -> k = mk x) -> (forall x, mk x <> DNone) ->
  (forall x y, mk x = mk y -> x = y) ->
  unique_keys o res -> NoDup (somes (map (kf_d sel v_fixed) res)).
Proof.
  intros Eo Hsel Hmk Hinj. unfold unique_keys. apply (NoDup_somes_proj (rkey_of o) (kf_d sel v_fixed) (fun x => KD (mk x))).
  - intros c c' H; inversion H; auto.
  - intros a c H. unfold kf_d in H. unfold rkey_of. rewrite Eo. simpl.
    destruct (r_details a) as [d|]; [|discriminate]. apply Hsel in H. rewrite H.
    specialize (Hmk c). destruct (mk c); congruence.
Qed.

Lemma cache_want_complete o res w :
  unique_keys o res -> (o_ign_opid o = true -> r_details w <> None) ->
  has_result_plain o res w = Pass -> cache_want v_fixed o res (build_index v_fixed res) w = Pass.
Proof.
  destruct (build_index_proj v_fixed res) as (Hop & Hnhg & Hnh & Hv4 & Hv6 & Hmpls).
  intros Hu Hd Hp. apply has_result_plain_pass in Hp. destruct Hp as (r & Hin & E).
  pose proof (proj1 (eq_mod_spec o r w) E) as (_ & _ & Hopid & _ & _ & _ & Hdet).
  unfold cache_want. destruct (o_ign_opid o) eqn:Eo; simpl.
  - destruct (r_details w) as [d|] eqn:Ed; [|exfalso; apply Hd; reflexivity].
    specialize (Hdet d eq_refl).
    destruct (dkey_of v_fixed d) eqn:Ek.
    + rewrite Hnhg. apply has_result_single. exists r. split; [|exact E].
      apply (gbuild_complete _ N.eqb_spec); auto.
      * apply (unique_d sel_nhg DNhg o res Eo); auto; try discriminate.
        -- intros k x; destruct k; simpl; congruence.
        -- intros x y H; inversion H; auto.
      * unfold kf_d. rewrite Hdet, Ek. reflexivity.
    + rewrite Hnh. apply has_result_single. exists r. split; [|exact E].
      apply (gbuild_complete _ N.eqb_spec); auto.
      * apply (unique_d sel_nh DNh o res Eo); auto; try discriminate.
        -- intros k x; destruct k; simpl; congruence.
        -- intros x y H; inversion H; auto.
      * unfold kf_d. rewrite Hdet, Ek. reflexivity.
    + rewrite Hv4. apply has_result_single. exists r. split; [|exact E].
      apply (gbuild_complete _ String.eqb_spec); auto.
      * apply (unique_d sel_v4 DV4 o res Eo); auto; try discriminate.
        -- intros k x; destruct k; simpl; congruence.
        -- intros x y H; inversion H; auto.
      * unfold kf_d. rewrite Hdet, Ek. reflexivity.
    + rewrite Hv6. apply has_result_single. exists r. split; [|exact E].
      apply (gbuild_complete _ String.eqb_spec); auto.
      * apply (unique_d sel_v6 DV6 o res Eo); auto; try discriminate.
        -- intros k x; destruct k; simpl; congruence.
        -- intros x y H; inversion H; auto.
      * unfold kf_d. rewrite Hdet, Ek. reflexivity.
    + rewrite Hmpls. apply has_result_single. exists r. split; [|exact E].
      apply (gbuild_complete _ N.eqb_spec); auto.
      * apply (unique_d sel_mpls DMpls o res Eo); auto; try discriminate.
        -- intros k x; destruct k; simpl; congruence.
        -- intros x y H; inversion H; auto.
      * unfold kf_d. rewrite Hdet, Ek. reflexivity.
    + apply has_result_plain_pass. exists r. auto.
  - rewrite Hop. apply has_result_single. exists r. split; [|exact E].
    apply (gbuild_complete _ N.eqb_spec); auto.
    + apply (unique_op o res Eo Hu).
    + unfold kf_op. rewrite (Hopid eq_refl). reflexivity.
Qed.

Theorem cache_complete_unique_keys o res wants :
  unique_keys o res -> wants_have_details o wants ->
  (has_results_cache v_fixed o res wants = Pass <-> forall w, In w wants -> has_result_plain o res w = Pass).
Proof.
  intros Hu Hw. split; [apply cache_sound|].
  intros H. unfold has_results_cache. apply all_pass_iff. intros w Hin.
  apply cache_want_complete; [exact Hu|intros Eo; apply Hw; auto|apply H; exact Hin].
Qed.

(* every kind of want is looked up: an absent want of any kind makes the cached checker fatal *)
Theorem cache_no_kind_skipped (k : okind) o res wants w d :
  r_details w = Some d -> okind_of d = Some k -> In w wants -> ~ Present o res w ->
  has_results_cache v_fixed o res wants = Fatal.
Proof.
  intros _ _ Hin Hn. apply not_pass. intros H. apply Hn. apply has_result_iff. eapply cache_sound; eauto.
Qed.

(* ------------------------------------------------------------------------- GetResponseHasEntries *)
Definition is_some {A} (x : option A) : bool := match x with Some _ => true | None => false end.
Definition look (c : nicache) (en : entry) : bool :=
  match en with
  | ENhg id => is_some (aget N.eqb id (c_nhg c))
  | ENh i => is_some (aget N.eqb i (c_nh c))
  | E4 p => is_some (aget String.eqb p (c_v4 c))
  | E6 p => is_some (aget String.eqb p (c_v6 c))
  | EMpls l => is_some (aget N.eqb l (c_mpls c))
  | EOther _ => false
  end.

Definition Has (es : list aftentry) (ni : string) (en : entry) : Prop :=
  exists e, In e es /\ e_ni e = ni /\ e_entry e = Some en /\ keyed en = true.

Lemma amem_v_pass {K V} eqb (k : K) (l : alist K V) : amem_v eqb k l = Pass <-> is_some (aget eqb k l) = true.
Proof. unfold amem_v. destruct (aget eqb k l); simpl; split; congruence. Qed.

Lemma get_want_pass m w :
  get_want v_fixed m w = Pass <->
  exists we en c, w = WEntry we /\ e_ni we <> EmptyString /\ e_entry we = Some en
                  /\ aget String.eqb (e_ni we) m = Some c /\ look c en = true.
Proof.
  destruct w as [|we]; simpl.
  - split; [discriminate|]. intros (? & ? & ? & H & _); discriminate.
  - destruct (String.eqb_spec (e_ni we) EmptyString) as [E|E].
    { split; [discriminate|]. intros (? & ? & ? & H & Hn & _). inversion H; subst. tauto. }
    destruct (e_entry we) as [en|] eqn:Een.
    2:{ split; [discriminate|]. intros (? & ? & ? & H & _ & H2 & _). inversion H; subst. congruence. }
    destruct (aget String.eqb (e_ni we) m) as [c|] eqn:Ec.
    2:{ split; [discriminate|]. intros (? & ? & ? & H & _ & _ & H2 & _). inversion H; subst. congruence. }
    assert (Hl : match en with
                 | E4 p => amem_v String.eqb p (c_v4 c) | E6 p => amem_v String.eqb p (c_v6 c)
                 | EMpls l => amem_v N.eqb l (c_mpls c) | ENhg id => amem_v N.eqb id (c_nhg c)
                 | ENh i => amem_v N.eqb i (c_nh c) | EOther _ => Fatal end = Pass <-> look c en = true).
    { destruct en; simpl; try apply amem_v_pass. split; discriminate. }
    simpl. rewrite Hl. split.
    + intros H. exists we, en, c. auto.
    + intros (we' & en' & c' & H & _ & H2 & H3 & H4). inversion H; subst. congruence.
Qed.

Lemma is_some_aset {K V} eqb (spec : forall a b : K, reflect (a = b) (eqb a b)) k k' (x : V) l :
  is_some (aget eqb k (aset eqb k' x l)) = true <-> k = k' \/ is_some (aget eqb k l) = true.
Proof.
  destruct (spec k k') as [->|Hne].
  - rewrite (aget_aset_same eqb spec). simpl. tauto.
  - rewrite (aget_aset_other eqb spec) by exact Hne. tauto.
Qed.

Lemma look_cache_add c a en :
  look (cache_add v_fixed c a) en = true <-> look c en = true \/ (e_entry a = Some en /\ keyed en = true).
Proof.
  unfold cache_add. destruct (e_entry a) as [ea|].
  2:{ split; [auto|]. intros [H|[H _]]; [exact H|discriminate]. }
  assert (Hs : forall s, str_nonempty s = true \/ str_nonempty s = false) by (intros s; destruct (str_nonempty s); auto).
  assert (Hn : forall n, negb (n =? 0) = true \/ negb (n =? 0) = false) by (intros n; destruct (n =? 0); auto).
  destruct ea as [p|p|l|id|i|t]; simpl.
  - destruct (Hs p) as [E|E]; rewrite E; destruct en; simpl;
      try rewrite (is_some_aset _ String.eqb_spec);
      split; try tauto; try (intros [H|[H H2]]; [tauto|inversion H; subst; simpl in *; try tauto; congruence]);
      intros [->|H]; [right; split; [reflexivity|exact E]|tauto].
  - destruct (Hs p) as [E|E]; rewrite E; destruct en; simpl;
      try rewrite (is_some_aset _ String.eqb_spec);
      split; try tauto; try (intros [H|[H H2]]; [tauto|inversion H; subst; simpl in *; try tauto; congruence]);
      intros [->|H]; [right; split; [reflexivity|exact E]|tauto].
  - destruct (Hn l) as [E|E]; rewrite E; destruct en; simpl;
      try rewrite (is_some_aset _ N.eqb_spec);
      split; try tauto; try (intros [H|[H H2]]; [tauto|inversion H; subst; simpl in *; try tauto; congruence]);
      intros [->|H]; [right; split; [reflexivity|exact E]|tauto].
  - destruct (Hn id) as [E|E]; rewrite E; destruct en; simpl;
      try rewrite (is_some_aset _ N.eqb_spec);
      split; try tauto; try (intros [H|[H H2]]; [tauto|inversion H; subst; simpl in *; try tauto; congruence]);
      intros [->|H]; [right; split; [reflexivity|exact E]|tauto].
  - destruct (Hn i) as [E|E]; rewrite E; destruct en; simpl;
      try rewrite (is_some_aset _ N.eqb_spec);
      split; try tauto; try (intros [H|[H H2]]; [tauto|inversion H; subst; simpl in *; try tauto; congruence]);
      intros [->|H]; [right; split; [reflexivity|exact E]|tauto].
  - split; [auto|]. intros [H|[H H2]]; [exact H|]. inversion H; subst. discriminate.
Qed.

Definition NiInv (m : alist string nicache) (es : list aftentry) : Prop :=
  forall ni, match aget String.eqb ni m with
             | None => forall e, In e es -> e_ni e <> ni
             | Some c => forall en, look c en = true <-> Has es ni en
             end.

Lemma look_nicache0 en : look nicache0 en = false.
Proof. destruct en; reflexivity. Qed.

Lemma Has_snoc es a ni en :
  Has (es ++ [a]) ni en <-> Has es ni en \/ (e_ni a = ni /\ e_entry a = Some en /\ keyed en = true).
Proof.
  unfold Has. split.
  - intros (e & Hin & H). apply in_app_iff in Hin. destruct Hin as [Hin|[<-|[]]]; [left; eauto|right; tauto].
  - intros [(e & Hin & H)|H]; [exists e|exists a]; (split; [apply in_app_iff; simpl; auto|tauto]).
Qed.

Lemma NiInv_step m es a : NiInv m es -> NiInv (netinsts_add v_fixed m a) (es ++ [a]).
Proof.
  intros Hinv ni. unfold netinsts_add.
  destruct (String.eqb_spec ni (e_ni a)) as [->|Hne].
  - rewrite (aget_aset_same String.eqb String.eqb_spec). intros en.
    rewrite look_cache_add, Has_snoc. specialize (Hinv (e_ni a)).
    destruct (aget String.eqb (e_ni a) m) as [c|].
    + rewrite (Hinv en). tauto.
    + rewrite look_nicache0. split.
      * intros [H|H]; [discriminate|tauto].
      * intros [(e & Hin & Hni & _)|H]; [exfalso; eapply Hinv; eauto|tauto].
  - rewrite (aget_aset_other String.eqb String.eqb_spec) by exact Hne. specialize (Hinv ni).
    destruct (aget String.eqb ni m) as [c|].
    + intros en. rewrite Has_snoc, (Hinv en). split; [auto|]. intros [H|[H _]]; [exact H|congruence].
    + intros e Hin. apply in_app_iff in Hin. destruct Hin as [Hin|[<-|[]]]; [auto|congruence].
Qed.

Lemma NiInv_build es : NiInv (build_netinsts v_fixed es) es.
Proof.
  unfold build_netinsts. induction es as [|a es IH] using rev_ind.
  - intros ni. simpl. intros e [].
  - rewrite fold_left_app. simpl. apply NiInv_step. exact IH.
Qed.

Lemma get_want_iff es w : get_want v_fixed (build_netinsts v_fixed es) w = Pass <-> EntryPresent es w.
Proof.
  rewrite get_want_pass. unfold EntryPresent. pose proof (NiInv_build es) as Hinv. split.
  - intros (we & en & c & -> & Hni & Hen & Hc & Hl). specialize (Hinv (e_ni we)). rewrite Hc in Hinv.
    apply Hinv in Hl. destruct Hl as (e & Hin & He & Hee & Hk). exists we, en. repeat split; auto. exists e. auto.
  - intros (we & en & -> & Hni & Hen & Hk & e & Hin & He & Hee). specialize (Hinv (e_ni we)).
    destruct (aget String.eqb (e_ni we) (build_netinsts v_fixed es)) as [c|] eqn:Ec.
    + exists we, en, c. split; [reflexivity|]. split; [exact Hni|]. split; [exact Hen|]. split; [exact Ec|].
      apply Hinv. exists e. auto.
    + exfalso. eapply Hinv; eauto.
Qed.

Theorem get_entries_iff es ws :
  get_response_has_entries v_fixed es ws = Pass <-> forall w, In w ws -> EntryPresent es w.
Proof.
  unfold get_response_has_entries. rewrite all_pass_iff. split; intros H w Hin; apply get_want_iff; auto.
Qed.

(* every kind of wanted entry is looked up: an absent one of any kind is fatal *)
Theorem get_no_kind_skipped (k : ekind) es ws ni en :
  ekind_of en = k -> In (WEntry {| e_ni := ni; e_entry := Some en |}) ws ->
  ~ EntryPresent es (WEntry {| e_ni := ni; e_entry := Some en |}) ->
  get_response_has_entries v_fixed es ws = Fatal.
Proof.
  intros _ Hin Hn. apply not_pass. intros H. apply Hn. eapply get_entries_iff; eauto.
Qed.

(* ------------------------------------------------------------------------- error counts *)
Theorem has_n_errors_iff sel e n : has_n_errors sel e n = Pass <-> n_errors sel e = Some n.
Proof.
  destruct e; simpl.
  - rewrite verdict_of_pass, Z.eqb_eq. split; [intros ->; reflexivity|intros H; inversion H; reflexivity].
  - split; discriminate.
  - rewrite verdict_of_pass, Z.eqb_eq. split; [intros ->; reflexivity|intros H; inversion H; reflexivity].
Qed.

(* ------------------------------------------------------------------------- status *)
Lemma listN_eqb_eq a : forall b, listN_eqb a b = true <-> a = b.
Proof.
  induction a as [|x a IH]; destruct b as [|y b]; simpl; try (split; congruence).
  rewrite andb_true_iff, N.eqb_eq, IH. split; [intros [-> ->]; reflexivity|intros H; inversion H; auto].
Qed.
Lemma sstatus_eqb_eq a b : sstatus_eqb a b = true <-> a = b.
Proof.
  destruct a, b; unfold sstatus_eqb; simpl. rewrite !andb_true_iff, N.eqb_eq, String.eqb_eq, listN_eqb_eq.
  split; [intros [[-> ->] ->]; reflexivity|intros H; inversion H; auto].
Qed.

Lemma existsb_allow eo : existsb is_allow eo = true <-> In AllowUnimplemented eo.
Proof.
  rewrite existsb_exists. split; [intros ([] & Hin & H); [exact Hin|discriminate]|intros H; exists AllowUnimplemented; auto].
Qed.
Lemma existsb_igndet eo : existsb is_igndet eo = true <-> In IgnoreDetails eo.
Proof.
  rewrite existsb_exists. split; [intros ([] & Hin & H); [discriminate|exact Hin]|intros H; exists IgnoreDetails; auto].
Qed.

Lemma msg_blank_ok (wm m : string) :
  (if String.eqb wm EmptyString then EmptyString else m) = wm <-> (wm = EmptyString \/ m = wm).
Proof.
  destruct (String.eqb_spec wm EmptyString) as [->|Hne]; [tauto|]. split; [auto|]. intros [H|H]; congruence.
Qed.

Lemma in_ok_msgs want eo wo :
  In wo (ok_msgs want eo) <->
  wo = want
  \/ (In AllowUnimplemented eo /\ wo = {| s_code := UNIMPLEMENTED; s_msg := EmptyString; s_dets := [] |})
  \/ (In IgnoreDetails eo /\ wo = {| s_code := s_code want; s_msg := s_msg want; s_dets := [] |}).
Proof.
  unfold ok_msgs. simpl. rewrite in_map_iff. split.
  - intros [H|([] & H & Hin)]; auto.
  - intros [H|[[Hin H]|[Hin H]]]; [auto|right; exists AllowUnimplemented; auto|right; exists IgnoreDetails; auto].
Qed.

Lemma status_fwd iu id want eo e wo :
  (iu = true -> In AllowUnimplemented eo) -> (id = true -> In IgnoreDetails eo) ->
  In wo (ok_msgs want eo) -> status_match iu id e wo = true -> StatusOk want eo e.
Proof.
  intros Hiu Hid Hin Hm. destruct e as [c m d|]; [|discriminate]. exists c, m, d. split; [reflexivity|].
  simpl in Hm. apply sstatus_eqb_eq in Hm. apply in_ok_msgs in Hin.
  destruct Hin as [->|[[Hin ->]|[Hin ->]]].
  - pose proof (f_equal s_code Hm) as Hc. pose proof (f_equal s_msg Hm) as Hmsg. pose proof (f_equal s_dets Hm) as Hd.
    simpl in Hc, Hmsg, Hd. clear Hm. subst c.
    apply msg_blank_ok in Hmsg.
    destruct id; [right; repeat split; auto|]. rewrite orb_false_r in Hd.
    destruct (iu && (s_code want =? UNIMPLEMENTED)) eqn:E.
    + apply andb_true_iff in E. destruct E as [E1 E2]. apply N.eqb_eq in E2. left. auto.
    + right. repeat split; auto.
  - pose proof (f_equal s_code Hm) as Hc. simpl in Hc. left. auto.
  - pose proof (f_equal s_code Hm) as Hc. pose proof (f_equal s_msg Hm) as Hmsg. simpl in Hc, Hmsg.
    apply msg_blank_ok in Hmsg. right. repeat split; auto.
Qed.

Lemma status_bwd iu id want eo e :
  (iu = true <-> In AllowUnimplemented eo) -> (id = true <-> In IgnoreDetails eo) ->
  StatusOk want eo e -> exists wo, In wo (ok_msgs want eo) /\ status_match iu id e wo = true.
Proof.
  intros Hiu Hid (c & m & d & -> & Hor).
  assert (Hallow : In AllowUnimplemented eo -> c = UNIMPLEMENTED ->
                   exists wo, In wo (ok_msgs want eo) /\ status_match iu id (RStatus c m d) wo = true).
  { intros Hin ->. exists {| s_code := UNIMPLEMENTED; s_msg := EmptyString; s_dets := [] |}. split.
    - apply in_ok_msgs. auto.
    - simpl. rewrite (proj2 Hiu Hin). reflexivity. }
  destruct Hor as [[Hin Hc]|(-> & Hmsg & Hd)]; [auto|].
  destruct id eqn:Eid.
  - exists {| s_code := s_code want; s_msg := s_msg want; s_dets := [] |}. split.
    + apply in_ok_msgs. right. right. split; [apply Hid; reflexivity|reflexivity].
    + simpl. rewrite orb_true_r. apply sstatus_eqb_eq. f_equal. apply msg_blank_ok. exact Hmsg.
  - destruct Hd as [Hd | ->]; [apply Hid in Hd; discriminate|].
    destruct (iu && (s_code want =? UNIMPLEMENTED)) eqn:E.
    + apply andb_true_iff in E. destruct E as [E1 E2]. apply N.eqb_eq in E2.
      apply Hallow; [apply Hiu; exact E1|exact E2].
    + exists want. split; [apply in_ok_msgs; auto|]. simpl. rewrite E. simpl.
      apply sstatus_eqb_eq. destruct want as [wc wm wd]; simpl in *. f_equal. apply msg_blank_ok. exact Hmsg.
Qed.

Lemma status_one_iff want eo e :
  existsb (status_match (existsb is_allow eo) (existsb is_igndet eo) e) (ok_msgs want eo) = true <-> StatusOk want eo e.
Proof.
  rewrite existsb_exists. split.
  - intros (wo & Hin & Hm). eapply status_fwd; [apply existsb_allow|apply existsb_igndet|exact Hin|exact Hm].
  - apply status_bwd; [apply existsb_allow|apply existsb_igndet].
Qed.

Theorem has_recv_status_iff e want eo :
  has_recv_error_with_status e want eo = Pass <->
  exists send recv x, e = EClient send recv /\ In x recv /\ StatusOk want eo x.
Proof.
  destruct e as [| |send recv]; simpl.
  - split; [discriminate|intros (? & ? & ? & H & _); discriminate].
  - split; [discriminate|intros (? & ? & ? & H & _); discriminate].
  - rewrite verdict_of_pass, existsb_exists. split.
    + intros (x & Hin & H). apply status_one_iff in H. exists send, recv, x. auto.
    + intros (s' & r' & x & H & Hin & Hok). inversion H; subst. exists x. split; [exact Hin|]. apply status_one_iff. exact Hok.
Qed.

(* ------------------------------------------------------------------------- the pinned tree: witnesses *)
Definition r0 : opresult :=
  {| r_ts := 0; r_lat := 0; r_elec := None; r_params := None; r_opid := 0; r_cerr := EmptyString; r_serr := EmptyString;
     r_status := 0; r_details := None |}.
Definition d0 : details := {| d_type := 1; d_nh := 0; d_nhg := 0; d_v4 := EmptyString; d_v6 := EmptyString; d_mpls := 0 |}.
Definition want_v6 : opresult :=
  {| r_ts := 0; r_lat := 0; r_elec := None; r_params := None; r_opid := 0; r_cerr := EmptyString; r_serr := EmptyString; r_status := 0;
     r_details := Some {| d_type := 1; d_nh := 0; d_nhg := 0; d_v4 := EmptyString; d_v6 := "2001:db8::/32"%string; d_mpls := 0 |} |}.
Definition want_mpls : opresult :=
  {| r_ts := 0; r_lat := 0; r_elec := None; r_params := None; r_opid := 0; r_cerr := EmptyString; r_serr := EmptyString; r_status := 0;
     r_details := Some {| d_type := 1; d_nh := 0; d_nhg := 0; d_v4 := EmptyString; d_v6 := EmptyString; d_mpls := 100 |} |}.
Definition want_nokey : opresult :=
  {| r_ts := 0; r_lat := 0; r_elec := None; r_params := None; r_opid := 0; r_cerr := EmptyString; r_serr := EmptyString; r_status := 0;
     r_details := Some d0 |}.
Definition o_ign : ropts := {| o_ign_opid := true; o_inc_serr := false |}.

(* an absent IPv6 / MPLS / key-less want passes the cached checker of the tree, with no results at all *)
Theorem cache_sound_tree_refuted :
  forall w, In w [want_v6; want_mpls; want_nokey] ->
    has_results_cache v_tree o_ign [] [w] = Pass /\ has_result_plain o_ign [] w = Fatal.
Proof. intros w [<-|[<-|[<-|[]]]]; vm_compute; split; reflexivity. Qed.

Definition ent ni en : aftentry := {| e_ni := ni; e_entry := Some en |}.
Definition es1 : list aftentry := [ent "DEFAULT"%string (ENh 1)].

Lemma not_present_es1 en : en <> ENh 1 -> ~ EntryPresent es1 (WEntry (ent "DEFAULT"%string en)).
Proof.
  intros Hne (we & k & Hw & _ & Hk & _ & e & [<-|[]] & _ & He). inversion Hw; subst. simpl in *. congruence.
Qed.

(* an absent IPv6 / MPLS / other-kind want passes GetResponseHasEntries of the tree as soon as the
   response mentions its network instance *)
Theorem get_entries_tree_refuted :
  forall en, In en [E6 "2001:db8::/32"%string; EMpls 100; EOther 1] ->
    get_response_has_entries v_tree es1 [WEntry (ent "DEFAULT"%string en)] = Pass
    /\ ~ EntryPresent es1 (WEntry (ent "DEFAULT"%string en)).
Proof.
  intros en [<-|[<-|[<-|[]]]]; (split; [vm_compute; reflexivity|apply not_present_es1; discriminate]).
Qed.

Theorem cache_sound_refuted :
  exists o res wants w, In w wants /\ has_results_cache v_tree o res wants = Pass /\ has_result_plain o res w = Fatal.
Proof.
  exists o_ign, [], [want_v6], want_v6. split; [left; reflexivity|]. apply cache_sound_tree_refuted. left. reflexivity.
Qed.

Theorem get_entries_iff_refuted :
  exists entries wants,
    get_response_has_entries v_tree entries wants = Pass /\ ~ (forall w, In w wants -> EntryPresent entries w).
Proof.
  exists es1, [WEntry (ent "DEFAULT"%string (E6 "2001:db8::/32"%string))].
  destruct (get_entries_tree_refuted (E6 "2001:db8::/32"%string)) as [H1 H2]; [left; reflexivity|].
  split; [exact H1|]. intros H. apply H2. apply H. left. reflexivity.
Qed.

(* non-vacuity of the repaired model on the same inputs *)
Lemma fixed_on_witnesses :
  (forall w, In w [want_v6; want_mpls; want_nokey] -> has_results_cache v_fixed o_ign [] [w] = Fatal)
  /\ (forall en, In en [E6 "2001:db8::/32"%string; EMpls 100; EOther 1] ->
        get_response_has_entries v_fixed es1 [WEntry (ent "DEFAULT"%string en)] = Fatal).
Proof.
  split; [intros w [<-|[<-|[<-|[]]]]|intros en [<-|[<-|[<-|[]]]]]; vm_compute; reflexivity.
Qed.
