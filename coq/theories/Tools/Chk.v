(* Model of /repo/chk/chk.go (package chk: assertion helpers over client results, Get
   responses and client errors).  Executable definitions only; proofs are in ChkFacts.v.

   Every helper returns [Pass] or [Fatal] (t.Fatal / t.Fatalf was called; with a real
   testing.TB that ends the test, so only the first fatal of a run is observable).

   Data: uint64 fields are N, int / int64 fields are Z, Go strings are [string], Go nil-able
   pointers are [option].  What is abstracted away is exactly what the helpers never read:
   the payload of an AFT entry below its key, and the text of non-status errors. *)
From Coq Require Import List NArith ZArith Bool String.
From GV.Base Require Import Alist.
Import ListNotations.
Open Scope N_scope.

(* ------------------------------------------------------------------------- variants *)
(* One flag per defect of the pinned tree; [true] = repaired behaviour. *)
Record variant := {
  fix_cache_v6_mpls : bool;  (* HasResultsCache(IgnoreOperationID) indexes and looks up IPv6 / MPLS wants *)
  fix_cache_nokey   : bool;  (* ... and a want whose details name no key is searched for instead of skipped *)
  fix_get_v6_mpls   : bool;  (* GetResponseHasEntries indexes and looks up IPv6 / MPLS wants *)
  fix_get_other     : bool   (* ... and a want of any other entry kind is fatal instead of skipped *)
}.
Definition v_fixed : variant := {| fix_cache_v6_mpls := true; fix_cache_nokey := true; fix_get_v6_mpls := true; fix_get_other := true |}.
Definition v_tree  : variant := {| fix_cache_v6_mpls := false; fix_cache_nokey := false; fix_get_v6_mpls := false; fix_get_other := false |}.

Inductive verdict := Pass | Fatal.
Definition verdict_of (b : bool) : verdict := if b then Pass else Fatal.
Definition is_pass (v : verdict) : bool := match v with Pass => true | Fatal => false end.

(* sequential run of a check over a list: stops at the first fatal *)
Fixpoint all_pass {A} (f : A -> verdict) (l : list A) : verdict :=
  match l with
  | [] => Pass
  | a :: t => match f a with Pass => all_pass f t | Fatal => Fatal end
  end.

(* ------------------------------------------------------------------------- client.OpResult *)
(* client.OpDetailsResults *)
Record details := {
  d_type : Z;        (* constants.OpType (int64) *)
  d_nh   : N;        (* NextHopIndex *)
  d_nhg  : N;        (* NextHopGroupID *)
  d_v4   : string;   (* IPv4Prefix *)
  d_v6   : string;   (* IPv6Prefix *)
  d_mpls : N         (* MPLSLabel *)
}.

(* client.OpResult *)
Record opresult := {
  r_ts      : Z;                 (* Timestamp *)
  r_lat     : Z;                 (* Latency *)
  r_elec    : option (N * N);    (* CurrentServerElectionID (high, low) *)
  r_params  : option N;          (* SessionParameters (its status) *)
  r_opid    : N;                 (* OperationID *)
  r_cerr    : string;            (* ClientError *)
  r_serr    : string;            (* ServerError *)
  r_status  : Z;                 (* ProgrammingResult (enum, int32) *)
  r_details : option details     (* Details *)
}.

(* the resultOpt options of HasResult / HasResultsCache, as the two has*() scans see them *)
Record ropts := { o_ign_opid : bool; o_inc_serr : bool }.

Definition opt_eqb {A} (eqb : A -> A -> bool) (a b : option A) : bool :=
  match a, b with Some x, Some y => eqb x y | None, None => true | _, _ => false end.
Definition pairN_eqb (a b : N * N) : bool := (fst a =? fst b) && (snd a =? snd b).

Definition details_eqb (a b : details) : bool :=
  Z.eqb (d_type a) (d_type b) && (d_nh a =? d_nh b) && (d_nhg a =? d_nhg b)
  && String.eqb (d_v4 a) (d_v4 b) && String.eqb (d_v6 a) (d_v6 b) && (d_mpls a =? d_mpls b).

(* cmp.Equal(r, want, IgnoreFields(OpResult{}, ...), protocmp.Transform()) as configured by
   HasResult: Timestamp and Latency always ignored; Details ignored iff want.Details == nil;
   OperationID ignored iff IgnoreOperationID; ServerError ignored unless IncludeServerError. *)
Definition eq_mod (o : ropts) (r w : opresult) : bool :=
  opt_eqb pairN_eqb (r_elec r) (r_elec w)
  && opt_eqb N.eqb (r_params r) (r_params w)
  && (o_ign_opid o || (r_opid r =? r_opid w))
  && String.eqb (r_cerr r) (r_cerr w)
  && (negb (o_inc_serr o) || String.eqb (r_serr r) (r_serr w))
  && Z.eqb (r_status r) (r_status w)
  && match r_details w with
     | None => true
     | Some dw => match r_details r with Some dr => details_eqb dr dw | None => false end
     end.

(* HasResult.  Elements of res are pointers: None is a nil *OpResult, which cmp.Equal never
   finds equal to the (non-nil) want. *)
Definition has_result (o : ropts) (res : list (option opresult)) (w : opresult) : verdict :=
  verdict_of (existsb (fun r => match r with Some r => eq_mod o r w | None => false end) res).

(* HasResult on a list of non-nil results, the way tests call it *)
Definition has_result_plain (o : ropts) (res : list opresult) (w : opresult) : verdict :=
  has_result o (map Some res) w.

(* --- HasResultsCache: the last-wins indexes *)
Definition str_nonempty (s : string) : bool := negb (String.eqb s "").

Record rindex := {
  by_op   : alist N opresult;
  by_nh   : alist N opresult;
  by_nhg  : alist N opresult;
  by_v4   : alist string opresult;
  by_v6   : alist string opresult;    (* exists only with fix_cache_v6_mpls *)
  by_mpls : alist N opresult          (* exists only with fix_cache_v6_mpls *)
}.
Definition rindex0 : rindex := {| by_op := []; by_nh := []; by_nhg := []; by_v4 := []; by_v6 := []; by_mpls := [] |}.

(* the key a details struct is filed / looked up under: the `switch` of chk.go:154-161 and 178-185 *)
Inductive dkey := DNhg (id : N) | DNh (idx : N) | DV4 (p : string) | DV6 (p : string) | DMpls (l : N) | DNone.
Definition dkey_of (v : variant) (d : details) : dkey :=
  if negb (d_nhg d =? 0) then DNhg (d_nhg d)
  else if negb (d_nh d =? 0) then DNh (d_nh d)
  else if str_nonempty (d_v4 d) then DV4 (d_v4 d)
  else if fix_cache_v6_mpls v && str_nonempty (d_v6 d) then DV6 (d_v6 d)
  else if fix_cache_v6_mpls v && negb (d_mpls d =? 0) then DMpls (d_mpls d)
  else DNone.

(* one iteration of `for _, r := range res` *)
Definition index_add (v : variant) (ix : rindex) (r : opresult) : rindex :=
  let ix := {| by_op := aset N.eqb (r_opid r) r (by_op ix); by_nh := by_nh ix; by_nhg := by_nhg ix;
               by_v4 := by_v4 ix; by_v6 := by_v6 ix; by_mpls := by_mpls ix |} in
  match r_details r with
  | None => ix
  | Some d =>
    match dkey_of v d with
    | DNhg k => {| by_op := by_op ix; by_nh := by_nh ix; by_nhg := aset N.eqb k r (by_nhg ix); by_v4 := by_v4 ix; by_v6 := by_v6 ix; by_mpls := by_mpls ix |}
    | DNh k  => {| by_op := by_op ix; by_nh := aset N.eqb k r (by_nh ix); by_nhg := by_nhg ix; by_v4 := by_v4 ix; by_v6 := by_v6 ix; by_mpls := by_mpls ix |}
    | DV4 k  => {| by_op := by_op ix; by_nh := by_nh ix; by_nhg := by_nhg ix; by_v4 := aset String.eqb k r (by_v4 ix); by_v6 := by_v6 ix; by_mpls := by_mpls ix |}
    | DV6 k  => {| by_op := by_op ix; by_nh := by_nh ix; by_nhg := by_nhg ix; by_v4 := by_v4 ix; by_v6 := aset String.eqb k r (by_v6 ix); by_mpls := by_mpls ix |}
    | DMpls k => {| by_op := by_op ix; by_nh := by_nh ix; by_nhg := by_nhg ix; by_v4 := by_v4 ix; by_v6 := by_v6 ix; by_mpls := aset N.eqb k r (by_mpls ix) |}
    | DNone => ix
    end
  end.
Definition build_index (v : variant) (res : list opresult) : rindex := fold_left (index_add v) res rindex0.

(* the check of one want *)
Definition cache_want (v : variant) (o : ropts) (res : list opresult) (ix : rindex) (w : opresult) : verdict :=
  if negb (o_ign_opid o) then has_result o [aget N.eqb (r_opid w) (by_op ix)] w
  else match r_details w with
       | None => Fatal       (* "test error: cannot check for wanted message ... with nil details" *)
       | Some d =>
         match dkey_of v d with
         | DNhg k  => has_result o [aget N.eqb k (by_nhg ix)] w
         | DNh k   => has_result o [aget N.eqb k (by_nh ix)] w
         | DV4 k   => has_result o [aget String.eqb k (by_v4 ix)] w
         | DV6 k   => has_result o [aget String.eqb k (by_v6 ix)] w
         | DMpls k => has_result o [aget N.eqb k (by_mpls ix)] w
         | DNone   => if fix_cache_nokey v then has_result_plain o res w   (* repaired: linear search *)
                      else Pass                                           (* tree: no case of the switch applies *)
         end
       end.

Definition has_results_cache (v : variant) (o : ropts) (res wants : list opresult) : verdict :=
  all_pass (cache_want v o res (build_index v res)) wants.

(* ------------------------------------------------------------------------- GetResponseHasEntries *)
(* an spb.AFTEntry as the helper reads it: network instance, and kind + key of the oneof *)
Inductive entry :=
| E4 (prefix : string) | E6 (prefix : string) | EMpls (label : N)   (* GetLabelUint64: 0 also when the enum variant is set *)
| ENhg (id : N) | ENh (index : N)
| EOther (tag : N).                                                  (* mac_entry / policy_forwarding_entry *)
Record aftentry := { e_ni : string; e_entry : option entry (* None: oneof not set *) }.

(* a want: what fluent.GRIBIEntry.EntryProto() returned *)
Inductive gwant := WErr | WEntry (e : aftentry).

Record nicache := {
  c_v4 : alist string aftentry; c_nhg : alist N aftentry; c_nh : alist N aftentry;
  c_v6 : alist string aftentry; c_mpls : alist N aftentry   (* exist only with fix_get_v6_mpls *)
}.
Definition nicache0 : nicache := {| c_v4 := []; c_nhg := []; c_nh := []; c_v6 := []; c_mpls := [] |}.

Definition cache_add (v : variant) (c : nicache) (r : aftentry) : nicache :=
  match e_entry r with
  | Some (ENhg id) => if negb (id =? 0) then {| c_v4 := c_v4 c; c_nhg := aset N.eqb id r (c_nhg c); c_nh := c_nh c; c_v6 := c_v6 c; c_mpls := c_mpls c |} else c
  | Some (ENh i)   => if negb (i =? 0) then {| c_v4 := c_v4 c; c_nhg := c_nhg c; c_nh := aset N.eqb i r (c_nh c); c_v6 := c_v6 c; c_mpls := c_mpls c |} else c
  | Some (E4 p)    => if str_nonempty p then {| c_v4 := aset String.eqb p r (c_v4 c); c_nhg := c_nhg c; c_nh := c_nh c; c_v6 := c_v6 c; c_mpls := c_mpls c |} else c
  | Some (E6 p)    => if fix_get_v6_mpls v && str_nonempty p then {| c_v4 := c_v4 c; c_nhg := c_nhg c; c_nh := c_nh c; c_v6 := aset String.eqb p r (c_v6 c); c_mpls := c_mpls c |} else c
  | Some (EMpls l) => if fix_get_v6_mpls v && negb (l =? 0) then {| c_v4 := c_v4 c; c_nhg := c_nhg c; c_nh := c_nh c; c_v6 := c_v6 c; c_mpls := aset N.eqb l r (c_mpls c) |} else c
  | _ => c
  end.

(* one iteration of `for _, r := range getres.GetEntry()`: the network instance's cache is
   created whatever the entry is *)
Definition netinsts_add (v : variant) (m : alist string nicache) (r : aftentry) : alist string nicache :=
  let c := match aget String.eqb (e_ni r) m with Some c => c | None => nicache0 end in
  aset String.eqb (e_ni r) (cache_add v c r) m.
Definition build_netinsts (v : variant) (entries : list aftentry) : alist string nicache :=
  fold_left (netinsts_add v) entries [].

Definition amem_v {K V} (eqb : K -> K -> bool) (k : K) (l : alist K V) : verdict :=
  match aget eqb k l with Some _ => Pass | None => Fatal end.

Definition get_want (v : variant) (m : alist string nicache) (w : gwant) : verdict :=
  match w with
  | WErr => Fatal                                        (* "cannot convert want to an AFTEntry protobuf" *)
  | WEntry we =>
    if String.eqb (e_ni we) "" then Fatal                (* "got nil network instance, required." *)
    else match e_entry we with
    | None => Fatal                                      (* "got nil entry, required" *)
    | Some en =>
      match aget String.eqb (e_ni we) m with
      | None => Fatal                                    (* "did not find network instance" *)
      | Some c =>
        match en with
        | ENhg id  => amem_v N.eqb id (c_nhg c)
        | ENh i    => amem_v N.eqb i (c_nh c)
        | E4 p     => amem_v String.eqb p (c_v4 c)
        | E6 p     => if fix_get_v6_mpls v then amem_v String.eqb p (c_v6 c) else Pass
        | EMpls l  => if fix_get_v6_mpls v then amem_v N.eqb l (c_mpls c) else Pass
        | EOther _ => if fix_get_other v then Fatal else Pass
        end
      end
    end
  end.

Definition get_response_has_entries (v : variant) (entries : list aftentry) (wants : list gwant) : verdict :=
  all_pass (get_want v (build_netinsts v entries)) wants.

(* ------------------------------------------------------------------------- client errors *)
(* an element of ClientErr.Send / ClientErr.Recv *)
Inductive rerr :=
| RStatus (code : N) (msg : string) (dets : list N)   (* a gRPC status error; details = list of detail messages *)
| RPlain.                                             (* any error status.FromError does not recognise *)

(* the `err error` argument *)
Inductive cerr := ENil | ENotClient | EClient (send recv : list rerr).

(* HasNSendErrors / HasNRecvErrors *)
Definition has_n_errors (sel : list rerr -> list rerr -> list rerr) (e : cerr) (count : Z) : verdict :=
  match e with
  | ENil => verdict_of (Z.eqb count 0)           (* count <> 0: clientError(t, nil) is fatal *)
  | ENotClient => Fatal
  | EClient s r => verdict_of (Z.eqb (Z.of_nat (List.length (sel s r))) count)
  end.
Definition has_n_send_errors := has_n_errors (fun s _ => s).
Definition has_n_recv_errors := has_n_errors (fun _ r => r).

(* HasRecvClientErrorWithStatus *)
Record sstatus := { s_code : N; s_msg : string; s_dets : list N }.
Inductive eopt := AllowUnimplemented | IgnoreDetails.
Definition UNIMPLEMENTED : N := 12.

Fixpoint listN_eqb (a b : list N) : bool :=
  match a, b with
  | [], [] => true
  | x :: a', y :: b' => (x =? y) && listN_eqb a' b'
  | _, _ => false
  end.
(* proto.Equal on google.rpc.Status *)
Definition sstatus_eqb (a b : sstatus) : bool :=
  (s_code a =? s_code b) && String.eqb (s_msg a) (s_msg b) && listN_eqb (s_dets a) (s_dets b).

Definition is_allow (o : eopt) : bool := match o with AllowUnimplemented => true | _ => false end.
Definition is_igndet (o : eopt) : bool := match o with IgnoreDetails => true | _ => false end.

(* okMsgs: want, then one message per option in the order given *)
Definition ok_msgs (want : sstatus) (eo : list eopt) : list sstatus :=
  want :: map (fun o => match o with
                        | AllowUnimplemented => {| s_code := UNIMPLEMENTED; s_msg := ""; s_dets := [] |}
                        | IgnoreDetails => {| s_code := s_code want; s_msg := s_msg want; s_dets := [] |}
                        end) eo.

(* the body of the inner loop for one received error e and one acceptable message wo *)
Definition status_match (ign_unimpl ign_dets : bool) (e : rerr) (wo : sstatus) : bool :=
  match e with
  | RPlain => false                                   (* status.FromError: !ok, continue *)
  | RStatus c m d =>
    let m' := if String.eqb (s_msg wo) "" then EmptyString else m in
    let d' := if (ign_unimpl && (s_code wo =? UNIMPLEMENTED)) || ign_dets then [] else d in
    sstatus_eqb {| s_code := c; s_msg := m'; s_dets := d' |} wo
  end.

Definition has_recv_error_with_status (e : cerr) (want : sstatus) (eo : list eopt) : verdict :=
  match e with
  | EClient _ recv =>
    let oks := ok_msgs want eo in
    let iu := existsb is_allow eo in
    let id := existsb is_igndet eo in
    verdict_of (existsb (fun e => existsb (status_match iu id e) oks) recv)
  | _ => Fatal                                        (* clientError(t, err) *)
  end.

(* ------------------------------------------------------------------------- specifications *)
(* What each helper is supposed to decide, written as propositions independent of the code
   paths above (no indexes, no option plumbing). *)

(* r is "a result of value want" under the options *)
Definition Matches (o : ropts) (r w : opresult) : Prop :=
  r_elec r = r_elec w /\ r_params r = r_params w
  /\ (o_ign_opid o = false -> r_opid r = r_opid w)
  /\ r_cerr r = r_cerr w
  /\ (o_inc_serr o = true -> r_serr r = r_serr w)
  /\ r_status r = r_status w
  /\ (forall dw, r_details w = Some dw -> r_details r = Some dw).

Definition Present (o : ropts) (res : list opresult) (w : opresult) : Prop :=
  exists r, In r res /\ Matches o r w.

(* the key of a result for the cached checker: operation id, or the first key its details name *)
Inductive rkey := KOp (id : N) | KD (k : dkey).
Definition rkey_of (o : ropts) (r : opresult) : option rkey :=
  if negb (o_ign_opid o) then Some (KOp (r_opid r))
  else match r_details r with
       | None => None
       | Some d => match dkey_of v_fixed d with DNone => None | k => Some (KD k) end
       end.
Fixpoint somes {A} (l : list (option A)) : list A :=
  match l with [] => [] | Some a :: t => a :: somes t | None :: t => somes t end.
Definition unique_keys (o : ropts) (res : list opresult) : Prop := NoDup (somes (map (rkey_of o) res)).

(* the documented precondition of HasResultsCache(IgnoreOperationID): wants carry details *)
Definition wants_have_details (o : ropts) (wants : list opresult) : Prop :=
  o_ign_opid o = true -> forall w, In w wants -> r_details w <> None.

(* the kind of entry a want of the cached checker is about *)
Inductive okind := OK_NHG | OK_NH | OK_V4 | OK_V6 | OK_MPLS.
Definition okind_of (d : details) : option okind :=
  match dkey_of v_fixed d with
  | DNhg _ => Some OK_NHG | DNh _ => Some OK_NH | DV4 _ => Some OK_V4 | DV6 _ => Some OK_V6 | DMpls _ => Some OK_MPLS
  | DNone => None
  end.

(* Get responses: an entry carries a key iff its key field is set *)
Definition keyed (e : entry) : bool :=
  match e with
  | E4 p | E6 p => str_nonempty p
  | EMpls n | ENhg n | ENh n => negb (n =? 0)
  | EOther _ => false
  end.
(* "an entry of that kind and key in that network instance" *)
Definition EntryPresent (entries : list aftentry) (w : gwant) : Prop :=
  exists we k, w = WEntry we /\ e_ni we <> EmptyString /\ e_entry we = Some k /\ keyed k = true
               /\ exists e, In e entries /\ e_ni e = e_ni we /\ e_entry e = Some k.

Inductive ekind := EK4 | EK6 | EKMpls | EKNhg | EKNh | EKOther.
Definition ekind_of (e : entry) : ekind :=
  match e with E4 _ => EK4 | E6 _ => EK6 | EMpls _ => EKMpls | ENhg _ => EKNhg | ENh _ => EKNh | EOther _ => EKOther end.

(* error counts: a nil error holds no errors, anything that is not a ClientErr has no count *)
Definition n_errors (sel : list rerr -> list rerr -> list rerr) (e : cerr) : option Z :=
  match e with ENil => Some 0%Z | ENotClient => None | EClient s r => Some (Z.of_nat (List.length (sel s r))) end.

(* a received error that satisfies the wanted status under the options *)
Definition StatusOk (want : sstatus) (eo : list eopt) (e : rerr) : Prop :=
  exists c m d, e = RStatus c m d /\
    ((In AllowUnimplemented eo /\ c = UNIMPLEMENTED)
     \/ (c = s_code want /\ (s_msg want = EmptyString \/ m = s_msg want)
         /\ (In IgnoreDetails eo \/ d = s_dets want))).
