(* C19: the reference step of the server model commutes with the election-id shift and does not
   depend on reference counters, on the order of the instance list, or - while the server's id is
   still below the ids a script uses - on the election state it starts from. *)
From Coq Require Import List NArith Bool Lia Permutation.
From GV.Base Require Import Alist U128 Op.
From GV.Rib Require Import Model Lemmas RefDefs RefCount FlushFacts Run.
From GV.Tools Require Import C19RibRel.
From GV.Server Require Import Model Obs Inst Facts ElectionInv FlushRpc.
From GV.Tools Require Import Compliance.
Import ListNotations.
Open Scope N_scope.

(* ------------------------------------------------------------------ the shift on ids *)
Lemma cmp0l x : x <> 0 -> (0 ?= x) = Lt.
Proof. intros. apply N.compare_lt_iff. lia. Qed.
Lemma cmp0r x : x <> 0 -> (x ?= 0) = Gt.
Proof. intros. apply N.compare_gt_iff. lia. Qed.
Lemma cmp_add x y d : (x + d ?= y + d) = (x ?= y).
Proof. destruct (N.compare_spec x y); [apply N.compare_eq_iff|apply N.compare_lt_iff|apply N.compare_gt_iff]; lia. Qed.
Lemma is_zero_shift d id : u128_is_zero (shift_id d id) = u128_is_zero id.
Proof.
  unfold shift_id. destruct (u128_is_zero id) eqn:E; [exact E|].
  unfold u128_is_zero, hi, lo in *. cbn [fst snd].
  destruct (N.eqb_spec (fst id) 0); cbn [andb] in *; [|reflexivity].
  destruct (N.eqb_spec (snd id) 0); [discriminate|]. apply N.eqb_neq. lia.
Qed.
Lemma cmp_shift d a b : u128_cmp (shift_id d a) (shift_id d b) = u128_cmp a b.
Proof.
  destruct a as [ah al], b as [bh bl]. unfold shift_id, u128_is_zero, u128_cmp, hi, lo. cbn [fst snd].
  destruct (N.eqb_spec ah 0) as [->|Ha]; destruct (N.eqb_spec bh 0) as [->|Hb]; cbn [andb fst snd].
  - destruct (N.eqb_spec al 0) as [->|Hal]; destruct (N.eqb_spec bl 0) as [->|Hbl]; cbn [fst snd]; rewrite ?N.compare_refl.
    + reflexivity.
    + rewrite !cmp0l by lia. reflexivity.
    + rewrite !cmp0r by lia. reflexivity.
    + apply cmp_add.
  - destruct (N.eqb_spec al 0) as [->|Hal]; cbn [fst snd]; rewrite (cmp0l bh) by lia; reflexivity.
  - destruct (N.eqb_spec bl 0) as [->|Hbl]; cbn [fst snd]; rewrite (cmp0r ah) by lia; reflexivity.
  - destruct (ah ?= bh); try reflexivity. apply cmp_add.
Qed.
Lemma eqb_shift d a b : u128_eqb (shift_id d a) (shift_id d b) = u128_eqb a b.
Proof.
  pose proof (cmp_shift d a b) as H. unfold u128_cmp, u128_eqb in *.
  destruct (N.compare_spec (hi (shift_id d a)) (hi (shift_id d b))) as [E|E|E];
  destruct (N.compare_spec (hi a) (hi b)) as [E'|E'|E'];
  try (destruct (N.compare_spec (lo (shift_id d a)) (lo (shift_id d b))) as [F|F|F]);
  try (destruct (N.compare_spec (lo a) (lo b)) as [F'|F'|F']); try discriminate;
  repeat match goal with |- context [?x =? ?y] => destruct (N.eqb_spec x y) end; cbn [andb]; try reflexivity; try lia.
Qed.
Lemma leb_shift d a b : u128_leb (shift_id d a) (shift_id d b) = u128_leb a b.
Proof. unfold u128_leb. rewrite cmp_shift. reflexivity. Qed.
Lemma ltb_shift d a b : u128_ltb (shift_id d a) (shift_id d b) = u128_ltb a b.
Proof. unfold u128_ltb. rewrite cmp_shift. reflexivity. Qed.
Lemma shift_id_0 id : shift_id 0 id = id.
Proof. unfold shift_id. destruct (u128_is_zero id); [reflexivity|]. destruct id as [h l]. unfold hi, lo; cbn [fst snd]. rewrite N.add_0_r. reflexivity. Qed.

Lemma gate_shift d oe mst cu me la :
  check_election (option_map (shift_id d) oe) mst (option_map (shift_id d) cu) me (option_map (shift_id d) la)
  = check_election oe mst cu me la.
Proof.
  unfold check_election. destruct oe as [oe|]; [|reflexivity]. destruct mst as [m|]; [|reflexivity].
  destruct cu as [cu|]; [|reflexivity]. destruct la as [la|]; [|reflexivity]. cbn [option_map].
  rewrite eqb_shift, cmp_shift. reflexivity.
Qed.

(* ------------------------------------------------------------------ the RIB interface *)
Definition shift_rop (d : N) (o : rop) : rop :=
  {| op_id := op_id o; op_ni := op_ni o; op_kind := op_kind o; op_elec := option_map (shift_id d) (op_elec o); op_entry := op_entry o |}.
Lemma strip_shift d o : strip (shift_hop d o) = shift_rop d (strip o).
Proof. reflexivity. Qed.
Notation rr d := (rrel (shift_rop d)).

Lemma r_add_sim d a b n o : rr d a b ->
  rr d (fst (r_add v_fixed a n o)) (fst (r_add v_fixed b n (shift_hop d o)))
  /\ snd (r_add v_fixed a n o) = snd (r_add v_fixed b n (shift_hop d o)).
Proof.
  intros H. unfold r_add. rewrite strip_shift. cbn [shift_hop op_entry].
  pose proof (rrel_add (shift_rop d) (fun _ => eq_refl) (fun _ => eq_refl) (fun _ => eq_refl)
                       (hfails (op_entry o)) (hoks (op_entry o)) a b n (strip o) H) as P. cbn zeta in P.
  destruct P as (R & O1 & O2 & O3 & O4).
  destruct (add_entry v_fixed _ a n (strip o)) as [a' oa]. destruct (add_entry v_fixed _ b n (shift_rop d (strip o))) as [b' ob].
  cbn [fst snd] in *. split; [exact R|]. rewrite O1, O2, O3, O4. reflexivity.
Qed.
Lemma r_del_sim d a b n o : rr d a b ->
  rr d (fst (r_del v_fixed a n o)) (fst (r_del v_fixed b n (shift_hop d o)))
  /\ snd (r_del v_fixed a n o) = snd (r_del v_fixed b n (shift_hop d o)).
Proof.
  intros H. unfold r_del. rewrite strip_shift.
  pose proof (rrel_del (shift_rop d) (fun _ => eq_refl) (fun _ => eq_refl) a b n (strip o) H) as P. cbn zeta in P.
  destruct P as (R & O1 & O2 & O3 & O4).
  destruct (delete_entry v_fixed a n (strip o)) as [a' oa]. destruct (delete_entry v_fixed b n (shift_rop d (strip o))) as [b' ob].
  cbn [fst snd] in *. split; [exact R|]. rewrite O1, O2, O3. reflexivity.
Qed.
Lemma has_ni_sim d a b n : rr d a b -> r_has_ni a n = r_has_ni b n.
Proof. intros (_ & _ & H & _). apply H. Qed.

Notation mentry := (modify_entry hentry ribt (r_add v_fixed) (r_del v_fixed)).
Notation dops := (do_ops hentry ribt r_has_ni (r_add v_fixed) (r_del v_fixed) sv_fixed).

Lemma modify_entry_sim d fib g o a b : rr d a b ->
  rr d (fst (fst (mentry fib g o a))) (fst (fst (mentry fib g (shift_hop d o) b)))
  /\ snd (fst (mentry fib g o a)) = snd (fst (mentry fib g (shift_hop d o) b))
  /\ snd (mentry fib g o a) = snd (mentry fib g (shift_hop d o) b).
Proof.
  intros H. unfold modify_entry. destruct g as [| |c r]; cbn [fst snd shift_hop op_id op_kind op_ni]; [|auto|auto].
  destruct (op_kind o) eqn:Ek.
  - destruct (r_add_sim d a b (op_ni o) o H) as [R O].
    destruct (r_add v_fixed a (op_ni o) o) as [a' [[ok fl] ft]]. destruct (r_add v_fixed b (op_ni o) (shift_hop d o)) as [b' [[ok' fl'] ft']].
    cbn [fst snd] in *. inversion O; subst. destruct ft'; cbn [fst snd]; auto.
  - destruct (r_add_sim d a b (op_ni o) o H) as [R O].
    destruct (r_add v_fixed a (op_ni o) o) as [a' [[ok fl] ft]]. destruct (r_add v_fixed b (op_ni o) (shift_hop d o)) as [b' [[ok' fl'] ft']].
    cbn [fst snd] in *. inversion O; subst. destruct ft'; cbn [fst snd]; auto.
  - destruct (r_del_sim d a b (op_ni o) o H) as [R O].
    destruct (r_del v_fixed a (op_ni o) o) as [a' [[ok fl] ft]]. destruct (r_del v_fixed b (op_ni o) (shift_hop d o)) as [b' [[ok' fl'] ft']].
    cbn [fst snd] in *. inversion O; subst. destruct ft'; cbn [fst snd]; auto.
  - cbn [fst snd]. auto.
Qed.

Lemma do_ops_sim d fib mst cu me la ops : forall a b acc, rr d a b ->
  let ra := dops fib mst cu me la ops a acc in
  let rb := dops fib mst (option_map (shift_id d) cu) me (option_map (shift_id d) la) (map (shift_hop d) ops) b acc in
  rr d (fst (fst ra)) (fst (fst rb)) /\ snd (fst ra) = snd (fst rb) /\ snd ra = snd rb.
Proof.
  induction ops as [|o tl IH]; intros a b acc H; cbn zeta; cbn [Model.do_ops map]; [cbn [fst snd]; auto|].
  cbn [shift_hop op_ni op_id op_elec]. cbn [fixF4 sv_fixed fixF9]. rewrite andb_true_r.
  destruct (op_ni o =? 0); [apply IH; exact H|].
  rewrite <- (has_ni_sim d a b (op_ni o) H).
  destruct (negb (r_has_ni a (op_ni o))); [apply IH; exact H|].
  rewrite gate_shift.
  pose proof (modify_entry_sim d fib (check_election (op_elec o) mst cu me la) o a b H) as (R & O & E).
  change {| op_id := op_id o; op_ni := op_ni o; op_kind := op_kind o; op_elec := option_map (shift_id d) (op_elec o); op_entry := op_entry o |}
    with (shift_hop d o).
  destruct (mentry fib (check_election (op_elec o) mst cu me la) o a) as [[a' rs] e].
  destruct (mentry fib (check_election (op_elec o) mst cu me la) (shift_hop d o) b) as [[b' rs'] e'].
  cbn [fst snd] in *. subst rs' e'. destruct e; [cbn [fst snd]; auto|]. apply IH. exact R.
Qed.

(* ------------------------------------------------------------------ sessions *)
Definition shift_sess (d : N) (x : sess) : sess :=
  {| s_params := s_params x; s_set := s_set x; s_last := option_map (shift_id d) (s_last x); s_gotmsg := s_gotmsg x |}.
Definition shift_ss (d : N) (l : alist N sess) : alist N sess := map (fun kv => (fst kv, shift_sess d (snd kv))) l.

Lemma aget_shift_ss d k l : aget N.eqb k (shift_ss d l) = option_map (shift_sess d) (aget N.eqb k l).
Proof.
  unfold aget, shift_ss. induction l as [|[k' x] l IH]; cbn [map find fst snd]; [reflexivity|].
  destruct (k =? k'); [reflexivity|exact IH].
Qed.
Lemma adel_shift_ss d k l : adel N.eqb k (shift_ss d l) = shift_ss d (adel N.eqb k l).
Proof.
  unfold adel, shift_ss. induction l as [|[k' x] l IH]; cbn [map filter fst snd]; [reflexivity|].
  destruct (negb (k =? k')); cbn [map fst snd]; rewrite IH; reflexivity.
Qed.
Lemma aset_shift_ss d k x l : aset N.eqb k (shift_sess d x) (shift_ss d l) = shift_ss d (aset N.eqb k x l).
Proof. unfold aset. rewrite adel_shift_ss. reflexivity. Qed.
Lemma in_adel k (l : alist N sess) y : In y (adel N.eqb k l) -> In y l.
Proof. unfold adel. intros H. apply filter_In in H. tauto. Qed.

(* ------------------------------------------------------------------ the simulation relation *)
Definition SRb (d : N) (s1 s2 : srv ribt) : Prop := ss s2 = shift_ss d (ss s1) /\ rr d (srib s1) (srib s2).
Definition synced (d : N) (s1 s2 : srv ribt) : Prop := cur s2 = option_map (shift_id d) (cur s1) /\ master s2 = master s1.
(* both servers still carry an id below the window of the script; no live session has announced *)
Definition staleP (d lb : N) (s1 s2 : srv ribt) : Prop :=
  below lb s1 = true /\ below (lb + d) s2 = true /\ forall k x, In (k, x) (ss s1) -> s_last x = None.
Definition SR (d lb : N) (s1 s2 : srv ribt) : Prop := SRb d s1 s2 /\ (synced d s1 s2 \/ staleP d lb s1 s2).

Lemma sget_sim d s1 s2 c : SRb d s1 s2 -> sget ribt c s2 = option_map (shift_sess d) (sget ribt c s1).
Proof. intros [H _]. unfold sget. rewrite H. apply aget_shift_ss. Qed.

Lemma SRb_upd d s1 s2 c x : SRb d s1 s2 -> SRb d (upd_sess ribt c x s1) (upd_sess ribt c (shift_sess d x) s2).
Proof. intros [H R]. split; [|exact R]. unfold upd_sess, set_ss; cbn [ss]. rewrite H. apply aset_shift_ss. Qed.
Lemma SRb_drop d s1 s2 c : SRb d s1 s2 -> SRb d (drop_sess ribt c s1) (drop_sess ribt c s2).
Proof. intros [H R]. split; [|exact R]. unfold drop_sess, set_ss; cbn [ss]. rewrite H. apply adel_shift_ss. Qed.

Lemma SR_upd d lb s1 s2 c x : SR d lb s1 s2 -> (staleP d lb s1 s2 -> s_last x = None) ->
  SR d lb (upd_sess ribt c x s1) (upd_sess ribt c (shift_sess d x) s2).
Proof.
  intros [B E] Hx. split; [apply SRb_upd; exact B|].
  destruct E as [E|E]; [left; exact E|]. right. destruct E as (E1 & E2 & E3).
  split; [exact E1|]. split; [exact E2|]. intros k y Hin. cbn [ss upd_sess set_ss] in Hin. unfold aset in Hin.
  destruct Hin as [Hin|Hin]; [inversion Hin; subst; apply Hx; repeat split; assumption|].
  apply in_adel in Hin. eapply E3; eauto.
Qed.
Lemma SR_drop d lb s1 s2 c : SR d lb s1 s2 -> SR d lb (drop_sess ribt c s1) (drop_sess ribt c s2).
Proof.
  intros [B E]. split; [apply SRb_drop; exact B|].
  destruct E as [E|E]; [left; exact E|]. right. destruct E as (E1 & E2 & E3).
  split; [exact E1|]. split; [exact E2|]. intros k y Hin. cbn [ss drop_sess set_ss] in Hin. apply in_adel in Hin. eapply E3; eauto.
Qed.

Lemma consistent_list d c p (l : alist N sess) :
  forallb (fun kv => (fst kv =? c) || cparams_eqb (s_params (snd kv)) p) (shift_ss d l)
  = forallb (fun kv => (fst kv =? c) || cparams_eqb (s_params (snd kv)) p) l.
Proof. unfold shift_ss. induction l as [|[k x] l IH]; cbn [map forallb fst snd]; [reflexivity|]. rewrite IH. reflexivity. Qed.
Lemma consistent_sim d s1 s2 c p : SRb d s1 s2 -> consistent ribt c p s2 = consistent ribt c p s1.
Proof. intros [H _]. unfold consistent. rewrite H. apply consistent_list. Qed.

(* ------------------------------------------------------------------ ids of the script are above the window base *)
Definition id_above (lb : N) (id : u128) : Prop := u128_is_zero id = true \/ (hi id = 0 /\ lb < lo id).
Definition input_above (lb : N) (i : sinput) : Prop := forall id, In id (ids_of_sinput i) -> id_above lb id.

Lemma below_leb lb s id : below lb s = true -> hi id = 0 -> lb < lo id ->
  match cur s with None => True | Some c => u128_leb c id = true end.
Proof.
  unfold below. destruct (cur s) as [c|]; [|auto]. intros H Hh Hl.
  apply andb_true_iff in H. destruct H as [H1 H2]. apply N.eqb_eq in H1. apply N.leb_le in H2.
  unfold u128_leb, u128_cmp. rewrite H1, Hh. cbn [N.compare].
  destruct (N.compare_spec (lo c) (lo id)); try reflexivity. lia.
Qed.

(* ------------------------------------------------------------------ outputs *)
Definition out_rel (d : N) (o1 o2 : sout) : Prop :=
  match o1, o2 with
  | OMod a, OMod b => b = shift_out d a
  | OFlush a, OFlush b => a = b
  | OGet None, OGet None => True
  | OGet (Some x), OGet (Some y) => Permutation x y
  | _, _ => False
  end.

Lemma shift_out_end d c r : shift_out d (out_end c r) = out_end c r. Proof. reflexivity. Qed.
Lemma shift_out_none d : shift_out d out_none = out_none. Proof. reflexivity. Qed.

(* the tail of step: the session is removed when the RPC ends *)
Lemma finish_sim d lb c s1 s2 o : SR d lb s1 s2 ->
  let r1 := match o_end o with Some _ => (drop_sess ribt c s1, o) | None => (s1, o) end in
  let r2 := match o_end (shift_out d o) with Some _ => (drop_sess ribt c s2, shift_out d o) | None => (s2, shift_out d o) end in
  SR d lb (fst r1) (fst r2) /\ snd r2 = shift_out d (snd r1).
Proof.
  intros H. cbn zeta. cbn [shift_out o_end]. destruct (o_end o); cbn [fst snd]; split; auto. apply SR_drop; exact H.
Qed.

Notation mstepf := (step hentry ribt r_has_ni (r_add v_fixed) (r_del v_fixed) sv_fixed).

Lemma stale_last d lb s1 s2 c x : staleP d lb s1 s2 -> sget ribt c s1 = Some x -> s_last x = None.
Proof. intros (_ & _ & H) Hx. apply (H c x). unfold sget in Hx. apply (aget_in N.eqb N.eqb_spec) in Hx. exact Hx. Qed.

Lemma do_params_sim d lb s1 s2 c x p : SR d lb s1 s2 -> sget ribt c s1 = Some x ->
  let r1 := do_params ribt sv_fixed c x p s1 in
  let r2 := do_params ribt sv_fixed c (shift_sess d x) p s2 in
  SR d lb (fst r1) (fst r2) /\ snd r2 = shift_out d (snd r1).
Proof.
  intros H Hx. cbn zeta. unfold do_params. cbn [shift_sess s_gotmsg s_set s_last s_params].
  rewrite (consistent_sim d s1 s2 c (cp_of p) (proj1 H)).
  destruct (s_gotmsg x); [cbn [fst snd]; auto|].
  destruct ((p_red p =? 0) && (p_pers p =? 1)); [cbn [fst snd]; auto|].
  destruct (if fixF17 sv_fixed then negb (p_red p =? 1) else p_red p =? 0); [cbn [fst snd]; auto|].
  destruct (if fixF17 sv_fixed then negb (p_pers p =? 1) else p_pers p =? 0); [cbn [fst snd]; auto|].
  destruct (negb (consistent ribt c (cp_of p) s1)); [cbn [fst snd]; auto|].
  destruct (s_set x); cbn [fst snd]; (split; [|reflexivity]).
  - apply (SR_upd d lb s1 s2 c {| s_params := cp_of p; s_set := true; s_last := s_last x; s_gotmsg := false |} H).
    intros St. cbn [s_last]. eapply stale_last; eauto.
  - apply (SR_upd d lb s1 s2 c {| s_params := cp_of p; s_set := true; s_last := s_last x; s_gotmsg := true |} H).
    intros St. cbn [s_last]. eapply stale_last; eauto.
Qed.

Lemma synced_upd d s1 s2 c x y : synced d s1 s2 -> synced d (upd_sess ribt c x s1) (upd_sess ribt c y s2).
Proof. intros H. exact H. Qed.
Lemma staleP_upd d lb s1 s2 c x y : staleP d lb s1 s2 -> s_last x = None -> staleP d lb (upd_sess ribt c x s1) (upd_sess ribt c y s2).
Proof.
  intros (E1 & E2 & E3) Hx. split; [exact E1|]. split; [exact E2|]. intros k z Hin. cbn [ss upd_sess set_ss] in Hin. unfold aset in Hin.
  destruct Hin as [Hin|Hin]; [inversion Hin; subst; exact Hx|]. apply in_adel in Hin. eapply E3; eauto.
Qed.

Lemma do_elect_sim d lb s1 s2 c x id : SR d lb s1 s2 -> id_above lb id ->
  let r1 := do_elect ribt sv_fixed c x id s1 in
  let r2 := do_elect ribt sv_fixed c (shift_sess d x) (shift_id d id) s2 in
  SR d lb (fst r1) (fst r2) /\ snd r2 = shift_out d (snd r1).
Proof.
  intros H Hid. cbn zeta. unfold do_elect. cbn [shift_sess s_params s_set s_last s_gotmsg].
  destruct (negb (cp_expect (s_params x))); [cbn [fst snd]; auto|].
  rewrite is_zero_shift. destruct (u128_is_zero id) eqn:Ez; [cbn [fst snd]; auto|].
  destruct Hid as [Hid|[Hh Hl]]; [congruence|].
  set (x1 := {| s_params := s_params x; s_set := s_set x; s_last := Some id; s_gotmsg := true |}).
  change {| s_params := s_params x; s_set := s_set x; s_last := Some (shift_id d id); s_gotmsg := true |} with (shift_sess d x1).
  destruct H as [B E].
  pose proof (SRb_upd d s1 s2 c x1 B) as B1.
  assert (Hc1 : cur (upd_sess ribt c x1 s1) = cur s1) by reflexivity.
  assert (Hc2 : cur (upd_sess ribt c (shift_sess d x1) s2) = cur s2) by reflexivity.
  rewrite Hc1, Hc2.
  assert (Hnew : forall (t1 t2 : srv ribt), SRb d t1 t2 ->
            SR d lb {| ss := ss t1; cur := Some id; master := Some c; rib := srib t1 |}
                    {| ss := ss t2; cur := Some (shift_id d id); master := Some c; rib := srib t2 |}).
  { intros t1 t2 [T1 T2]. split; [split; assumption|]. left. split; reflexivity. }
  destruct E as [[Ec Em]|St].
  - (* synced *)
    assert (Hm : is_new_master sv_fixed (shift_id d id) (cur s2) = is_new_master sv_fixed id (cur s1)).
    { rewrite Ec. unfold is_new_master. cbn [fixF1 sv_fixed]. destruct (cur s1); cbn [option_map]; [apply leb_shift|reflexivity]. }
    rewrite Hm. destruct (is_new_master sv_fixed id (cur s1)); cbn [fst snd cur].
    + split; [apply Hnew; exact B1|reflexivity].
    + split; [split; [exact B1|left; split; assumption]|]. cbn [upd_sess set_ss cur]. rewrite Ec. reflexivity.
  - (* both below the window: the announcement wins on both sides *)
    destruct St as (E1 & E2 & E3).
    assert (M1 : is_new_master sv_fixed id (cur s1) = true).
    { pose proof (below_leb lb s1 id E1 Hh Hl) as P. unfold is_new_master. cbn [fixF1 sv_fixed]. destruct (cur s1); auto. }
    assert (M2 : is_new_master sv_fixed (shift_id d id) (cur s2) = true).
    { assert (Hs : shift_id d id = (hi id, lo id + d)) by (unfold shift_id; rewrite Ez; reflexivity).
      assert (P : match cur s2 with None => True | Some c0 => u128_leb c0 (hi id, lo id + d) = true end).
      { apply (below_leb (lb + d) s2 (hi id, lo id + d) E2); unfold hi, lo in *; cbn [fst snd]; [exact Hh|lia]. }
      rewrite Hs. unfold is_new_master. cbn [fixF1 sv_fixed]. destruct (cur s2); auto. }
    rewrite M1, M2. cbn [fst snd cur]. split; [apply Hnew; exact B1|reflexivity].
Qed.

Lemma map_shift_resp_id d rs : (forall x, In x rs -> forall id, x <> RElect id) -> map (shift_resp d) rs = rs.
Proof.
  induction rs as [|r rs IH]; intros H; cbn [map]; [reflexivity|]. rewrite IH by (intros x Hx; apply H; right; exact Hx).
  destruct r as [|id|l]; cbn [shift_resp]; try reflexivity. exfalso. apply (H (RElect id) (or_introl eq_refl) id). reflexivity.
Qed.

Lemma do_modify_sim d lb s1 s2 c x ops : SRb d s1 s2 -> synced d s1 s2 ->
  let r1 := do_modify hentry ribt r_has_ni (r_add v_fixed) (r_del v_fixed) sv_fixed c x ops s1 in
  let r2 := do_modify hentry ribt r_has_ni (r_add v_fixed) (r_del v_fixed) sv_fixed c (shift_sess d x) (map (shift_hop d) ops) s2 in
  SR d lb (fst r1) (fst r2) /\ snd r2 = shift_out d (snd r1).
Proof.
  intros B [Ec Em]. cbn zeta. unfold do_modify. cbn [shift_sess s_params s_set s_last s_gotmsg].
  destruct (negb (cp_expect (s_params x)) || negb (cp_persist (s_params x))).
  { cbn [fst snd]. split; [split; [exact B|left; split; assumption]|reflexivity]. }
  rewrite Ec, Em.
  pose proof (do_ops_sim d (cp_fib (s_params x)) (master s1) (cur s1) c (s_last x) ops (srib s1) (srib s2) [] (proj2 B)) as P.
  cbn zeta in P.
  pose proof (do_ops_no_elect hentry ribt r_has_ni (r_add v_fixed) (r_del v_fixed) (cp_fib (s_params x)) (master s1) (cur s1) c (s_last x) ops (srib s1) []
                              (fun _ F => match F with end)) as Hne.
  destruct (dops (cp_fib (s_params x)) (master s1) (cur s1) c (s_last x) ops (srib s1) []) as [[a' rs] e].
  destruct (dops (cp_fib (s_params x)) (master s1) (option_map (shift_id d) (cur s1)) c (option_map (shift_id d) (s_last x)) (map (shift_hop d) ops) (srib s2) [])
    as [[b' rs'] e'].
  cbn [fst snd] in *. destruct P as (R & -> & ->).
  set (x1 := {| s_params := s_params x; s_set := s_set x; s_last := s_last x; s_gotmsg := true |}).
  change {| s_params := s_params x; s_set := s_set x; s_last := option_map (shift_id d) (s_last x); s_gotmsg := true |} with (shift_sess d x1).
  split.
  - split; [|left; split; [exact Ec|exact Em]].
    apply SRb_upd. destruct B as [B1 B2]. split; [exact B1|exact R].
  - unfold shift_out. cbn [o_resps o_end]. rewrite map_shift_resp_id by exact Hne. reflexivity.
Qed.

(* ------------------------------------------------------------------ one Modify-stream input *)
Lemma mstep_sim d lb s1 s2 (i : input hentry) : SR d lb s1 s2 -> input_above lb (SIn i) ->
  below lb s1 && risky (SIn i) = false ->
  SR d lb (fst (mstepf s1 i)) (fst (mstepf s2 (shift_in d i)))
  /\ snd (mstepf s2 (shift_in d i)) = shift_out d (snd (mstepf s1 i)).
Proof.
  intros H Hab Hrisk. pose proof H as [B E].
  destruct i as [c|c m|c|c]; cbn [shift_in Model.step].
  - rewrite (sget_sim d s1 s2 c B). destruct (sget ribt c s1) as [x|]; cbn [option_map fst snd]; [split; [exact H|reflexivity]|].
    split; [|reflexivity]. destruct E as [E|E].
    + split; [apply (SRb_upd d s1 s2 c sess0 B)|left; exact E].
    + split; [apply (SRb_upd d s1 s2 c sess0 B)|right; apply (staleP_upd d lb s1 s2 c sess0 sess0 E); reflexivity].
  - rewrite (sget_sim d s1 s2 c B). destruct (sget ribt c s1) as [x|] eqn:Hx; cbn [option_map].
    2:{ cbn [fst snd]. split; [exact H|reflexivity]. }
    assert (G : forall (r1 r2 : srv ribt * out), SR d lb (fst r1) (fst r2) -> snd r2 = shift_out d (snd r1) ->
                SR d lb (fst (let '(s', o) := r1 in match o_end o with Some _ => (drop_sess ribt c s', o) | None => (s', o) end))
                        (fst (let '(s', o) := r2 in match o_end o with Some _ => (drop_sess ribt c s', o) | None => (s', o) end))
                /\ snd (let '(s', o) := r2 in match o_end o with Some _ => (drop_sess ribt c s', o) | None => (s', o) end)
                   = shift_out d (snd (let '(s', o) := r1 in match o_end o with Some _ => (drop_sess ribt c s', o) | None => (s', o) end))).
    { intros [t1 o1] [t2 o2] HS Ho. cbn [fst snd] in *. subst o2. apply (finish_sim d lb c t1 t2 o1 HS). }
    destruct m as [p|id|ops| |]; cbn [shift_msg].
    + pose proof (do_params_sim d lb s1 s2 c x p H Hx) as [P1 P2]. apply G; assumption.
    + assert (Hid : id_above lb id) by (apply Hab; cbn [ids_of_sinput ids_of_msg]; left; reflexivity).
      pose proof (do_elect_sim d lb s1 s2 c x id H Hid) as [P1 P2]. apply G; assumption.
    + destruct E as [E|E].
      * pose proof (do_modify_sim d lb s1 s2 c x ops B E) as [P1 P2]. apply G; assumption.
      * destruct E as (E1 & _). rewrite E1 in Hrisk. cbn in Hrisk. discriminate.
    + apply (G (s1, out_end InvalidArgument NoDetail) (s2, out_end InvalidArgument NoDetail)); [exact H|reflexivity].
    + apply (G (s1, out_end Unimplemented NoDetail) (s2, out_end Unimplemented NoDetail)); [exact H|reflexivity].
  - rewrite (sget_sim d s1 s2 c B). destruct (sget ribt c s1) as [x|]; cbn [option_map fst snd]; [|split; [exact H|reflexivity]].
    split; [apply SR_drop; exact H|reflexivity].
  - rewrite (sget_sim d s1 s2 c B). destruct (sget ribt c s1) as [x|]; cbn [option_map fst snd]; [|split; [exact H|reflexivity]].
    split; [apply SR_drop; exact H|reflexivity].
Qed.

(* ------------------------------------------------------------------ Flush *)
Lemma check_flush_sim d lb s1 s2 q : synced d s1 s2 \/ staleP d lb s1 s2 ->
  below lb s1 && risky (SFlush q) = false ->
  check_flush (cur s2) (shift_flush d q) = check_flush (cur s1) q.
Proof.
  intros E Hrisk. unfold check_flush. cbn [shift_flush f_ni f_elec].
  destruct (f_ni q); [reflexivity| |]; (destruct (f_elec q) as [| |id] eqn:Ee; [|reflexivity|]);
    cbn [risky] in Hrisk; rewrite Ee in Hrisk; rewrite andb_true_r in Hrisk;
    (destruct E as [[Ec _]|(E1 & _)]; [|congruence]); rewrite Ec; destruct (cur s1); cbn [option_map]; try reflexivity;
    rewrite is_zero_shift, ltb_shift; reflexivity.
Qed.

Lemma inlN_perm d a b : rr d a b -> forall m, inlN m (map fst (nis a)) = inlN m (map fst (nis b)).
Proof. intros (_ & _ & H & _) m. rewrite !inlN_keys. apply H. Qed.

Lemma flush_sim d lb s1 s2 q : SR d lb s1 s2 -> below lb s1 && risky (SFlush q) = false ->
  SR d lb (fst (do_flush v_fixed s1 q)) (fst (do_flush v_fixed s2 (shift_flush d q)))
  /\ snd (do_flush v_fixed s2 (shift_flush d q)) = snd (do_flush v_fixed s1 q).
Proof.
  intros [B E] Hrisk. unfold do_flush. rewrite (check_flush_sim d lb s1 s2 q E Hrisk). cbn [shift_flush f_ni].
  destruct (check_flush (cur s1) q); try (cbn [fst snd]; split; [split; assumption|reflexivity]).
  pose proof B as [B1 B2].
  assert (K : forall l l', (forall m, inlN m l = inlN m l') ->
     SR d lb (fst (let '(r', _, err) := flush v_fixed l (srib s1) in (set_rib ribt r' s1, if err then F_INTERNAL else F_OK)))
             (fst (let '(r', _, err) := flush v_fixed l' (srib s2) in (set_rib ribt r' s2, if err then F_INTERNAL else F_OK)))
     /\ snd (let '(r', _, err) := flush v_fixed l' (srib s2) in (set_rib ribt r' s2, if err then F_INTERNAL else F_OK))
        = snd (let '(r', _, err) := flush v_fixed l (srib s1) in (set_rib ribt r' s1, if err then F_INTERNAL else F_OK))).
  { intros l l' Hl. pose proof (rrel_flush (shift_rop d) (srib s1) (srib s2) l l' B2 Hl) as (R & F1 & F2).
    destruct (flush v_fixed l (srib s1)) as [[a' h1] e1]. destruct (flush v_fixed l' (srib s2)) as [[b' h2] e2].
    cbn [fst snd] in *. subst e1 e2. split; [|reflexivity].
    split; [split; [exact B1|exact R]|]. destruct E as [E|(E1 & E2 & E3)]; [left; exact E|right; repeat split; assumption]. }
  destruct (f_ni q) as [| |n].
  - cbn [fst snd]. split; [split; assumption|reflexivity].
  - apply K. apply (inlN_perm d _ _ B2).
  - pose proof B2 as (_ & _ & Hh & _). rewrite <- (Hh n). destruct (has_ni (srib s1) n).
    + apply K. intros m. reflexivity.
    + cbn [fst snd]. split; [split; [exact B|exact E]|reflexivity].
Qed.

(* ------------------------------------------------------------------ Get *)
Lemma flat_map_keys (f : N -> nistate -> list gentry) (r : ribt) : WF r ->
  flat_map (fun kv => f (fst kv) (snd kv)) (nis r) = flat_map (fun k => f k (Lemmas.sget r k)) (map fst (nis r)).
Proof.
  intros (Hwf & _).
  assert (G : forall l : amap nistate, (forall kv, In kv l -> Lemmas.sget r (fst kv) = snd kv) ->
              flat_map (fun kv => f (fst kv) (snd kv)) l = flat_map (fun k => f k (Lemmas.sget r k)) (map fst l)).
  { induction l as [|kv l IH]; intros Hl; cbn [flat_map map]; [reflexivity|].
    rewrite (Hl kv (or_introl eq_refl)), IH by (intros kv' Hi; apply Hl; right; exact Hi). reflexivity. }
  apply G. intros [k v] Hin. cbn [fst snd]. unfold Lemmas.sget. rewrite (in_nget k v (nis r) Hwf Hin). reflexivity.
Qed.

Lemma get_sim d s1 s2 q : SRb d s1 s2 -> out_rel d (OGet (do_get s1 q)) (OGet (do_get s2 q)).
Proof.
  intros [_ R]. unfold do_get, out_rel.
  assert (G : forall a, match (match g_ni q with
                               | NNone => Some []
                               | NName n => if n =? 0 then None else match nget n (nis (srib s1)) with Some st => Some (get_ni a n st) | None => None end
                               | NAll => Some (flat_map (fun kv => get_ni a (fst kv) (snd kv)) (nis (srib s1)))
                               end),
                              (match g_ni q with
                               | NNone => Some []
                               | NName n => if n =? 0 then None else match nget n (nis (srib s2)) with Some st => Some (get_ni a n st) | None => None end
                               | NAll => Some (flat_map (fun kv => get_ni a (fst kv) (snd kv)) (nis (srib s2)))
                               end) with
                        | None, None => True
                        | Some x, Some y => Permutation x y
                        | _, _ => False
                        end).
  { intros a. destruct (g_ni q) as [| |n].
    - apply Permutation_refl.
    - pose proof R as (I1 & I2 & _).
      rewrite (flat_map_keys (get_ni a) (srib s1) (proj1 I1)), (flat_map_keys (get_ni a) (srib s2) (proj1 I2)).
      rewrite (flat_map_ext _ _ (fun k => rrel_get_ni (shift_rop d) (srib s1) (srib s2) R a k)).
      apply Permutation_flat_map. apply (rrel_keys (shift_rop d) _ _ R).
    - destruct (n =? 0); [exact I|].
      pose proof R as (_ & _ & Hh & _). specialize (Hh n). unfold has_ni, nmem in Hh.
      pose proof (rrel_get_ni (shift_rop d) (srib s1) (srib s2) R a n) as Hg. unfold Lemmas.sget in Hg.
      destruct (nget n (nis (srib s1))), (nget n (nis (srib s2))); try discriminate; [rewrite Hg; apply Permutation_refl|exact I]. }
  destruct (g_aft q); try apply G. exact I.
Qed.

(* ------------------------------------------------------------------ one step *)
Theorem step_sim d lb s1 s2 i : SR d lb s1 s2 -> input_above lb i -> below lb s1 && risky i = false ->
  SR d lb (fst (ref_step s1 i)) (fst (ref_step s2 (shift_sinput d i)))
  /\ out_rel d (snd (ref_step s1 i)) (snd (ref_step s2 (shift_sinput d i))).
Proof.
  intros H Hab Hr. destruct i as [x|q|q]; cbn [shift_sinput]; unfold ref_step, sstep, mstep.
  - pose proof (mstep_sim d lb s1 s2 x H Hab Hr) as [S O].
    destruct (mstepf s1 x) as [t1 o1]. destruct (mstepf s2 (shift_in d x)) as [t2 o2]. cbn [fst snd out_rel] in *. auto.
  - pose proof (flush_sim d lb s1 s2 q H Hr) as [S O].
    destruct (do_flush v_fixed s1 q) as [t1 o1]. destruct (do_flush v_fixed s2 (shift_flush d q)) as [t2 o2]. cbn [fst snd out_rel] in *. auto.
  - cbn [fst snd]. split; [exact H|]. apply get_sim. apply H.
Qed.
