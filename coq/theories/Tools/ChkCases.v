(* Case type of the C17 correspondence: inputs of one helper call and whether the real helper
   was fatal; [cmismatches] lists the indices where the (repaired) model says otherwise. *)
From Coq Require Import List NArith ZArith Bool String.
From GV.Tools Require Import Chk.
Import ListNotations.
Open Scope N_scope.

Inductive ccase :=
| CHasResult (o : ropts) (res : list opresult) (w : opresult) (fatal : bool)
| CCache (o : ropts) (res wants : list opresult) (fatal : bool)
| CGet (entries : list aftentry) (wants : list gwant) (fatal : bool)
| CNSend (e : cerr) (count : Z) (fatal : bool)
| CNRecv (e : cerr) (count : Z) (fatal : bool)
| CStatus (e : cerr) (want : sstatus) (eo : list eopt) (fatal : bool).

Definition agrees (v : verdict) (fatal : bool) : bool := Bool.eqb (is_pass v) (negb fatal).

Definition case_ok_v (v : variant) (c : ccase) : bool :=
  match c with
  | CHasResult o res w f => agrees (has_result_plain o res w) f
  | CCache o res wants f => agrees (has_results_cache v o res wants) f
  | CGet es ws f => agrees (get_response_has_entries v es ws) f
  | CNSend e n f => agrees (has_n_send_errors e n) f
  | CNRecv e n f => agrees (has_n_recv_errors e n) f
  | CStatus e w eo f => agrees (has_recv_error_with_status e w eo) f
  end.
Definition case_ok := case_ok_v v_fixed.

Fixpoint bad_indices {A} (f : A -> bool) (l : list A) (i : N) : list N :=
  match l with [] => [] | a :: tl => if f a then bad_indices f tl (i + 1) else i :: bad_indices f tl (i + 1) end.

Definition cmismatches (cs : list ccase) : list N := bad_indices case_ok cs 0.
(* the same against the model of the pinned tree (used by hand when diagnosing, never by the check) *)
Definition cmismatches_tree (cs : list ccase) : list N := bad_indices (case_ok_v v_tree) cs 0.

(* short constructors for the printed cases *)
Definition mkd t nh nhg v4 v6 mpls : details := {| d_type := t; d_nh := nh; d_nhg := nhg; d_v4 := v4; d_v6 := v6; d_mpls := mpls |}.
Definition mkr ts lat el pa op ce se st de : opresult :=
  {| r_ts := ts; r_lat := lat; r_elec := el; r_params := pa; r_opid := op; r_cerr := ce; r_serr := se; r_status := st; r_details := de |}.
Definition mko a b : ropts := {| o_ign_opid := a; o_inc_serr := b |}.
Definition mke ni en : aftentry := {| e_ni := ni; e_entry := en |}.
Definition mks c m d : sstatus := {| s_code := c; s_msg := m; s_dets := d |}.
