(* C09 — Session negotiation / protocol violations: specified status, no side effects.
   Statements only; proofs in Server/Facts.v. *)
From Coq Require Import List NArith Bool.
From GV.Base Require Import Alist U128 Op.
From GV.Server Require Import Model Facts.
Import ListNotations.
Open Scope N_scope.

(* The declarative table (Facts.violation): which status ends the RPC for each message class and
   session state.  For every RIB, server state, live session and message: if the table lists a
   status, the RPC ends with exactly that code and reason, nothing is answered, the RIB and the
   election state are unchanged, and the session's record is removed; otherwise the message is
   accepted. *)
Theorem C09_status_table (E R : Type) has_ni add del (s : srv R) c x (m : msg E) : sget R c s = Some x ->
  let st := step E R has_ni add del sv_fixed s (Msg E c m) in
  match violation E R s c x m with
  | Some e => o_end (snd st) = Some e /\ o_resps (snd st) = []
              /\ rib (fst st) = rib s /\ cur (fst st) = cur s /\ master (fst st) = master s
              /\ sget R c (fst st) = None
  | None => match m with MOps _ _ => True | _ => o_end (snd st) = None end
  end.
Proof. exact (status_table E R has_ni add del s c x m). Qed.
Print Assumptions C09_status_table.

(* the table, spelled out (each line is a computation on Facts.violation) *)
Example C09_table_rows (E R : Type) (s : srv R) c x p id ops :
  violation E R s c x (MMulti E) = Some (InvalidArgument, NoDetail)
  /\ (s_gotmsg x = true -> violation E R s c x (MParams E p) = Some (FailedPrecondition, MODIFY_NOT_ALLOWED))
  /\ (s_gotmsg x = false -> p_red p = 0 -> p_pers p = 1 -> violation E R s c x (MParams E p) = Some (FailedPrecondition, UNSUPPORTED_PARAMS))
  /\ (s_gotmsg x = false -> p_red p = 0 -> p_pers p = 0 -> violation E R s c x (MParams E p) = Some (Unimplemented, UNSUPPORTED_PARAMS))
  /\ (s_gotmsg x = false -> p_red p = 1 -> p_pers p = 0 -> violation E R s c x (MParams E p) = Some (Unimplemented, UNSUPPORTED_PARAMS))
  /\ (cp_expect (s_params x) = false -> violation E R s c x (MElect E id) = Some (FailedPrecondition, ELECTION_ID_IN_ALL_PRIMARY))
  /\ (cp_expect (s_params x) = true -> violation E R s c x (MElect E (0, 0)) = Some (InvalidArgument, NoDetail))
  /\ (cp_expect (s_params x) = false -> violation E R s c x (MOps E ops) = Some (Unimplemented, UNSUPPORTED_PARAMS)).
Proof.
  repeat split; cbn [violation]; intros; repeat match goal with H : _ = _ |- _ => rewrite H end; reflexivity.
Qed.

(* an operation without an election id ends the RPC with FAILED_PRECONDITION *)
Theorem C09_op_without_id (mst : option N) cu me last :
  check_election None mst cu me last = GateFatal FailedPrecondition R_UNKNOWN.
Proof. reflexivity. Qed.
Print Assumptions C09_op_without_id.

(* parameters are accepted only for SINGLE_PRIMARY + PRESERVE, only as the first message, only once,
   and only if identical to the current parameters of every other live session *)
Theorem C09_params_accepted_only_if (E R : Type) has_ni add del (s : srv R) c x p : sget R c s = Some x ->
  o_resps (snd (step E R has_ni add del sv_fixed s (Msg E c (MParams E p)))) = [RParamsOK] ->
  p_red p = 1 /\ p_pers p = 1 /\ s_gotmsg x = false /\ s_set x = false
  /\ (forall d y, d <> c -> In (d, y) (ss s) -> cparams_eqb (s_params y) (cp_of p) = true).
Proof. exact (params_accepted_only_if E R has_ni add del s c x p). Qed.
Print Assumptions C09_params_accepted_only_if.

(* no violation (and no other input) alters another session *)
Theorem C09_other_sessions_untouched (E R : Type) has_ni add del (s : srv R) c (m : msg E) :
  others_same R c s (fst (step E R has_ni add del sv_fixed s (Msg E c m))).
Proof. exact (proj2 (proj2 (step_frame E R has_ni add del s (Msg E c m)))). Qed.
Print Assumptions C09_other_sessions_untouched.

(* the failed session's footprint is removed: a later session's consistency check does not see it *)
Theorem C09_footprint_removed (R : Type) (s : srv R) c d p : d <> c ->
  consistent R d p (drop_sess R c s)
  = forallb (fun kv => (fst kv =? d) || (fst kv =? c) || cparams_eqb (s_params (snd kv)) p) (ss s).
Proof. exact (footprint_removed R s c d p). Qed.
Print Assumptions C09_footprint_removed.

(* the pinned tree accepted unknown enum numbers: redundancy = 2 *)
Theorem C09_tree_accepts_unknown_mode_refuted :
  let st := step unit unit (fun _ _ => true) (fun r _ _ => (r, ([], [], false))) (fun r _ _ => (r, ([], [], false))) sv_tree in
  o_resps (snd (st (fst (st (srv0 unit tt) (Connect unit 1))) (Msg unit 1 (MParams unit {| p_red := 2; p_pers := 1; p_ack := 0 |})))) = [RParamsOK].
Proof. vm_compute. reflexivity. Qed.
Print Assumptions C09_tree_accepts_unknown_mode_refuted.

Example C09_example :
  let st := step unit unit (fun _ _ => true) (fun r _ _ => (r, ([], [], false))) (fun r _ _ => (r, ([], [], false))) sv_fixed in
  let s1 := fst (st (srv0 unit tt) (Connect unit 1)) in
  let s2 := fst (st s1 (Msg unit 1 (MParams unit {| p_red := 1; p_pers := 1; p_ack := 1 |}))) in
  o_end (snd (st s2 (Msg unit 1 (MParams unit {| p_red := 1; p_pers := 1; p_ack := 1 |})))) = Some (FailedPrecondition, MODIFY_NOT_ALLOWED)
  /\ o_end (snd (st s2 (Msg unit 1 (MElect unit (0, 0))))) = Some (InvalidArgument, NoDetail)
  /\ o_end (snd (st s1 (Msg unit 1 (MParams unit {| p_red := 2; p_pers := 1; p_ack := 0 |})))) = Some (Unimplemented, UNSUPPORTED_PARAMS).
Proof. vm_compute. repeat split. Qed.
