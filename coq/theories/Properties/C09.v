(* C09 — Session negotiation / protocol violations: specified status, no side effects.
   Statements only; proofs in Server/Facts.v and Server/DecisionsFacts2.v. *)
From Coq Require Import List NArith Bool String.
From GV.Base Require Import Alist U128 Op GoLite.
From GV.Server Require Import Model Facts DecisionsFacts DecisionsFacts2.
From GV.Generated Require Import Decisions.
Import ListNotations.
Open Scope N_scope.

(* The declarative table (Facts.violation): which status ends the RPC for each message class and
   session state.  For every RIB, server state, live session and message: if the table lists a
   status, the RPC ends with exactly that code and reason, nothing is answered, the RIB and the
   election state are unchanged, and the session's record is removed; otherwise the message is
   accepted. *)
Theorem C09_status_table (E R : Type) has_ni add del (s : srv R) c x (m : msg E) : sget R c s = Some x ->
  let st := step E R has_ni add del sv_fixed s (Msg E c m) in
  match violation E R s c x m with
  | Some e => o_end (snd st) = Some e /\ o_resps (snd st) = []
              /\ rib (fst st) = rib s /\ cur (fst st) = cur s /\ master (fst st) = master s
              /\ sget R c (fst st) = None
  | None => match m with MOps _ _ => True | _ => o_end (snd st) = None end
  end.
Proof. exact (status_table E R has_ni add del s c x m). Qed.
Print Assumptions C09_status_table.

(* the table, spelled out (each line is a computation on Facts.violation) *)
Example C09_table_rows (E R : Type) (s : srv R) c x p id ops :
  violation E R s c x (MMulti E) = Some (InvalidArgument, NoDetail)
  /\ (s_gotmsg x = true -> violation E R s c x (MParams E p) = Some (FailedPrecondition, MODIFY_NOT_ALLOWED))
  /\ (s_gotmsg x = false -> p_red p = 0 -> p_pers p = 1 -> violation E R s c x (MParams E p) = Some (FailedPrecondition, UNSUPPORTED_PARAMS))
  /\ (s_gotmsg x = false -> p_red p = 0 -> p_pers p = 0 -> violation E R s c x (MParams E p) = Some (Unimplemented, UNSUPPORTED_PARAMS))
  /\ (s_gotmsg x = false -> p_red p = 1 -> p_pers p = 0 -> violation E R s c x (MParams E p) = Some (Unimplemented, UNSUPPORTED_PARAMS))
  /\ (cp_expect (s_params x) = false -> violation E R s c x (MElect E id) = Some (FailedPrecondition, ELECTION_ID_IN_ALL_PRIMARY))
  /\ (cp_expect (s_params x) = true -> violation E R s c x (MElect E (0, 0)) = Some (InvalidArgument, NoDetail))
  /\ (cp_expect (s_params x) = false -> violation E R s c x (MOps E ops) = Some (Unimplemented, UNSUPPORTED_PARAMS)).
Proof.
  repeat split; cbn [violation]; intros; repeat match goal with H : _ = _ |- _ => rewrite H end; reflexivity.
Qed.

(* checkParams as it is in /repo/server/server.go on this run (regenerated): for every session
   name, parameter message (any enum numbers), gotMsg flag, election state and client table [tbl]
   holding the calling session's record, it never panics and decides as check_params (the table
   above, written as a function); on acceptance it stores exactly cp_of p as the session's params
   and answers OK; otherwise it changes nothing.  checkClientsConsistent / setClientParams have the
   meaning of GoLite.mcall; [mal]/[mis] = what the scan of the other sessions finds. *)
Theorem C09_regenerated_checkParams (id : string) (tbl : list (string * gval)) (x : sess) (p : pmsg) (gotmsg : bool)
        (cu : option u128) (mst : string) (mal mis : bool) :
  tbl_get id tbl = Some (enc_sess x) ->
  tbl_scan id (cp_triple (cp_of p)) tbl = (mal, mis) -> mal && mis = false ->
  run_method decisions_funs "s" (cp_env id (Some p) gotmsg (srv_val cu mst tbl)) checkParams_body
  = match check_params gotmsg (Some p) (if mal then None else Some (negb mis)) with
    | Some (c, r) => Some (srv_val cu mst tbl, [VNil; enc_err c r])
    | None => Some (srv_val cu mst (tbl_set id (enc_sess (with_params x (cp_of p))) tbl), [enc_resp RParamsOK; VNil])
    end.
Proof. exact (gen_checkParams_agrees id tbl x p gotmsg cu mst mal mis). Qed.
Print Assumptions C09_regenerated_checkParams.

Theorem C09_regenerated_checkParams_nil (id : string) (gotmsg : bool) (sv : gval) :
  run_method decisions_funs "s" (cp_env id None gotmsg sv) checkParams_body
  = Some (sv, [VNil; enc_err Internal NoDetail]).
Proof. exact (gen_checkParams_nil id gotmsg sv). Qed.
Print Assumptions C09_regenerated_checkParams_nil.

(* the model's do_params is that decision, followed by updateParams *)
Theorem C09_do_params_is_checkParams (R : Type) (c : N) (x : sess) (p : pmsg) (s : srv R) :
  do_params R sv_fixed c x p s =
  match check_params (s_gotmsg x) (Some p) (Some (consistent R c (cp_of p) s)) with
  | Some (cd, r) => (s, out_end cd r)
  | None =>
    if s_set x
    then (upd_sess R c {| s_params := cp_of p; s_set := true; s_last := s_last x; s_gotmsg := s_gotmsg x |} s,
          out_end FailedPrecondition MODIFY_NOT_ALLOWED)
    else (upd_sess R c {| s_params := cp_of p; s_set := true; s_last := s_last x; s_gotmsg := true |} s,
          out_resp RParamsOK)
  end.
Proof. exact (do_params_is_check_params R c x p s). Qed.
Print Assumptions C09_do_params_is_checkParams.

(* on the model's own session table the scan of checkClientsConsistent finds no nil record and
   a difference exactly when the model's [consistent] is false *)
Theorem C09_consistency_scan (name : N -> string) (c : N) (cp : cparams) (R : Type) (s : srv R) :
  (forall a b, name a = name b -> a = b) ->
  tbl_scan (name c) (cp_triple cp) (enc_table name (ss s)) = (false, negb (consistent R c cp s)).
Proof. intros H. exact (tbl_scan_enc name H c cp (ss s)). Qed.
Print Assumptions C09_consistency_scan.

(* the dispatch switch of Modify's receive loop as it is in /repo on this run (regenerated; each
   case summarised by the status it sends or the methods it calls): for every combination of
   populated fields it picks the class of the model (more than one field: INVALID_ARGUMENT;
   none: UNIMPLEMENTED; else params / election / operations in this order) *)
Theorem C09_regenerated_dispatch (bp be bo : bool) :
  exec (in_env bp be bo) Modify_dispatch_body = Ret [enc_class (msg_class bp be bo)].
Proof. exact (gen_dispatch_agrees bp be bo). Qed.
Print Assumptions C09_regenerated_dispatch.

Theorem C09_dispatch_is_step (E R : Type) has_ni add del (s : srv R) c x (m : msg E) : sget R c s = Some x ->
  let st := step E R has_ni add del sv_fixed s (Msg E c m) in
  match class_of E m with
  | CMulti => o_end (snd st) = Some (InvalidArgument, NoDetail) /\ o_resps (snd st) = []
  | CNone => o_end (snd st) = Some (Unimplemented, NoDetail) /\ o_resps (snd st) = []
  | CParams => forall p, m = MParams E p -> snd st = snd (do_params R sv_fixed c x p s)
  | CElect => forall id, m = MElect E id -> snd st = snd (do_elect R sv_fixed c x id s)
  | COps => forall ops, m = MOps E ops -> snd st = snd (do_modify E R has_ni add del sv_fixed c x ops s)
  end.
Proof. exact (step_dispatch E R has_ni add del s c x m). Qed.
Print Assumptions C09_dispatch_is_step.

(* deleteClient (regenerated) removes the session's entry and nothing else; on the model's table
   that is drop_sess *)
Theorem C09_regenerated_deleteClient (id : string) (cu : option u128) (mst : string) (tbl : list (string * gval)) :
  run_method decisions_funs "s" (dc_env id (srv_val cu mst tbl)) deleteClient_body
  = Some (srv_val cu mst (tbl_del id tbl), []).
Proof. exact (gen_deleteClient_agrees id cu mst tbl). Qed.
Print Assumptions C09_regenerated_deleteClient.

Theorem C09_deleteClient_is_drop_sess (R : Type) (name : N -> string) (s : srv R) (c : N) :
  (forall a b, name a = name b -> a = b) ->
  tbl_del (name c) (enc_table name (ss s)) = enc_table name (ss (drop_sess R c s)).
Proof. exact (deleteClient_is_drop_sess R name s c). Qed.
Print Assumptions C09_deleteClient_is_drop_sess.

(* an operation without an election id ends the RPC with FAILED_PRECONDITION *)
Theorem C09_op_without_id (mst : option N) cu me last :
  check_election None mst cu me last = GateFatal FailedPrecondition R_UNKNOWN.
Proof. reflexivity. Qed.
Print Assumptions C09_op_without_id.

(* parameters are accepted only for SINGLE_PRIMARY + PRESERVE, only as the first message, only once,
   and only if identical to the current parameters of every other live session *)
Theorem C09_params_accepted_only_if (E R : Type) has_ni add del (s : srv R) c x p : sget R c s = Some x ->
  o_resps (snd (step E R has_ni add del sv_fixed s (Msg E c (MParams E p)))) = [RParamsOK] ->
  p_red p = 1 /\ p_pers p = 1 /\ s_gotmsg x = false /\ s_set x = false
  /\ (forall d y, d <> c -> In (d, y) (ss s) -> cparams_eqb (s_params y) (cp_of p) = true).
Proof. exact (params_accepted_only_if E R has_ni add del s c x p). Qed.
Print Assumptions C09_params_accepted_only_if.

(* no violation (and no other input) alters another session *)
Theorem C09_other_sessions_untouched (E R : Type) has_ni add del (s : srv R) c (m : msg E) :
  others_same R c s (fst (step E R has_ni add del sv_fixed s (Msg E c m))).
Proof. exact (proj2 (proj2 (step_frame E R has_ni add del s (Msg E c m)))). Qed.
Print Assumptions C09_other_sessions_untouched.

(* the failed session's footprint is removed: a later session's consistency check does not see it *)
Theorem C09_footprint_removed (R : Type) (s : srv R) c d p : d <> c ->
  consistent R d p (drop_sess R c s)
  = forallb (fun kv => (fst kv =? d) || (fst kv =? c) || cparams_eqb (s_params (snd kv)) p) (ss s).
Proof. exact (footprint_removed R s c d p). Qed.
Print Assumptions C09_footprint_removed.

(* the pinned tree accepted unknown enum numbers: redundancy = 2 *)
Theorem C09_tree_accepts_unknown_mode_refuted :
  let st := step unit unit (fun _ _ => true) (fun r _ _ => (r, ([], [], false))) (fun r _ _ => (r, ([], [], false))) sv_tree in
  o_resps (snd (st (fst (st (srv0 unit tt) (Connect unit 1))) (Msg unit 1 (MParams unit {| p_red := 2; p_pers := 1; p_ack := 0 |})))) = [RParamsOK].
Proof. vm_compute. reflexivity. Qed.
Print Assumptions C09_tree_accepts_unknown_mode_refuted.

Example C09_example :
  let st := step unit unit (fun _ _ => true) (fun r _ _ => (r, ([], [], false))) (fun r _ _ => (r, ([], [], false))) sv_fixed in
  let s1 := fst (st (srv0 unit tt) (Connect unit 1)) in
  let s2 := fst (st s1 (Msg unit 1 (MParams unit {| p_red := 1; p_pers := 1; p_ack := 1 |}))) in
  o_end (snd (st s2 (Msg unit 1 (MParams unit {| p_red := 1; p_pers := 1; p_ack := 1 |})))) = Some (FailedPrecondition, MODIFY_NOT_ALLOWED)
  /\ o_end (snd (st s2 (Msg unit 1 (MElect unit (0, 0))))) = Some (InvalidArgument, NoDetail)
  /\ o_end (snd (st s1 (Msg unit 1 (MParams unit {| p_red := 2; p_pers := 1; p_ack := 0 |})))) = Some (Unimplemented, UNSUPPORTED_PARAMS).
Proof. vm_compute. repeat split. Qed.

(* non-vacuity of C09_regenerated_checkParams: second session with the same / different parameters *)
Example C09_checkParams_example :
  let x0 := {| s_params := cp_default; s_set := false; s_last := None; s_gotmsg := false |} in
  let x1 := {| s_params := {| cp_persist := true; cp_expect := true; cp_fib := false |}; s_set := true;
               s_last := None; s_gotmsg := true |} in
  let tbl := [("a", enc_sess x1); ("b", enc_sess x0)]%string in
  run_method decisions_funs "s" (cp_env "b" (Some {| p_red := 1; p_pers := 1; p_ack := 0 |}) false (srv_val None "" tbl)) checkParams_body
  = Some (srv_val None "" [("a", enc_sess x1); ("b", enc_sess (with_params x0 (s_params x1)))]%string, [enc_resp RParamsOK; VNil])
  /\ run_method decisions_funs "s" (cp_env "b" (Some {| p_red := 1; p_pers := 1; p_ack := 1 |}) false (srv_val None "" tbl)) checkParams_body
     = Some (srv_val None "" tbl, [VNil; enc_err FailedPrecondition PARAMS_DIFFER]).
Proof. vm_compute. split; reflexivity. Qed.
