(* C05 — Primary = highest 128-bit election id; reported id is the running maximum.
   Statements only; proofs live in Server/ElectionFacts.v, Server/ElectionInv.v and
   Server/DecisionsFacts2.v. *)
From Coq Require Import List NArith String.
From GV.Base Require Import U128 U128Facts GoLite.
From GV.Server Require Import Model ElectionFacts ElectionInv DecisionsFacts DecisionsFacts2.
From GV.Generated Require Import Decisions.
Import ListNotations.
Open Scope N_scope.

(* isNewMaster as it is in /repo/server/server.go on this run (regenerated), for every pair
   of ids: never panics, and "new master" iff existing <= candidate, high word first. *)
Theorem C05_regenerated_isNewMaster (c : u128) (e : option u128) :
  exec (isNewMaster_env c e) isNewMaster_body
  = Ret [VBool (is_new_master sv_fixed c e); VBool (same_id c e); VNil].
Proof. exact (gen_isNewMaster_agrees c e). Qed.
Print Assumptions C05_regenerated_isNewMaster.

(* runElection as it is in /repo/server/server.go on this run (regenerated), for every session
   name, candidate id (any two words), election state and client table [tbl] that holds the
   calling session's record: it never panics; what it returns (error class, or the response
   carrying s.curElecID) and what it leaves in curElecID / curMaster / the session's lastElecID
   are those of the model's do_elect.  The call of isNewMaster runs the regenerated isNewMaster;
   getClientStateCopy / storeClientElectionID have the meaning of GoLite.mcall. *)
Theorem C05_regenerated_runElection (R : Type) (name : N -> string) (s : srv R) (c : N) (x : sess) (id : u128)
        (tbl : list (string * gval)) :
  tbl_get (name c) tbl = Some (enc_sess x) ->
  let st := do_elect R sv_fixed c x id s in
  run_method decisions_funs "s" (re_env (name c) id (srv_val (cur s) (mname name (master s)) tbl)) runElection_body
  = Some (srv_val (cur (fst st)) (mname name (master (fst st))) (tbl_after R name c st tbl), enc_out (snd st)).
Proof. exact (gen_runElection_agrees R name s c x id tbl). Qed.
Print Assumptions C05_regenerated_runElection.

(* ... and when [tbl] is the model's own session table, the table left by the code holds, under
   every session name, the record the model holds after upd_sess *)
Theorem C05_runElection_table (R : Type) (name : N -> string) (s : srv R) (c d : N) (x' : sess) :
  (forall a b, name a = name b -> a = b) ->
  tbl_get (name d) (tbl_set (name c) (enc_sess x') (enc_table name (ss s)))
  = option_map enc_sess (sget R d (upd_sess R c x' s)).
Proof. exact (table_after_upd R name s c d x'). Qed.
Print Assumptions C05_runElection_table.

Theorem C05_new_master_is_128bit_order (c e : u128) : inrange c -> inrange e ->
  is_new_master sv_fixed c (Some e) = (val e <=? val c).
Proof. exact (is_new_master_val c e). Qed.
Print Assumptions C05_new_master_is_128bit_order.

(* For every history of connects, messages and disconnects on any number of sessions, over
   any RIB: the election state is the fold of the accepted announcements, and the id carried
   by each election response is the running maximum. *)
Theorem C05_history (E R : Type) has_ni add del (h : list (input E)) (r : R) :
  let s0 := srv0 R r in
  let l := anns E R has_ni add del s0 h in
  st_pair R (run E R has_ni add del sv_fixed s0 h) = spec_el (map fst l)
  /\ map snd l = running None (map fst l).
Proof.
  intros s0 l.
  destruct (hist_el E R has_ni add del h s0) as (_ & H1 & H2); [split; reflexivity|].
  split; [exact H1|exact H2].
Qed.
Print Assumptions C05_history.

(* one spec step: the maximum never decreases and is the 128-bit maximum ... *)
Theorem C05_reported_is_running_max acc a :
  (forall m mx, acc = Some (m, mx) -> inrange mx) -> inrange (snd a) ->
  match ann_upd acc a with
  | Some (_, mx') => val mx' = N.max (match acc with Some (_, mx) => val mx | None => 0 end) (val (snd a))
                     /\ inrange mx'
  | None => False
  end.
Proof. exact (ann_upd_max acc a). Qed.
Print Assumptions C05_reported_is_running_max.

(* ... and the primary moves to the announcer exactly when its id is not lower than every id
   announced before (so a lower id never takes the role away from the holder). *)
Theorem C05_primary_is_latest_not_lower m mx c id : inrange mx -> inrange id ->
  ann_upd (Some (m, mx)) (c, id) = if val mx <=? val id then Some (c, id) else Some (m, mx).
Proof. exact (ann_upd_primary m mx c id). Qed.
Print Assumptions C05_primary_is_latest_not_lower.

(* the comparison of the pinned tree (high and low words compared independently) is not the
   128-bit order: witness (1,5) against (2,1) *)
Theorem C05_tree_comparison_refuted :
  exists c e, inrange c /\ inrange e /\ is_new_master sv_tree c (Some e) <> (val e <=? val c).
Proof. exact is_new_master_tree_refuted. Qed.
Print Assumptions C05_tree_comparison_refuted.

(* non-vacuity: a concrete three-session history *)
Example C05_example :
  let h := [Connect unit 1; Msg unit 1 (MParams unit {| p_red := 1; p_pers := 1; p_ack := 0 |});
            Msg unit 1 (MElect unit (2, 1));
            Connect unit 2; Msg unit 2 (MParams unit {| p_red := 1; p_pers := 1; p_ack := 0 |});
            Msg unit 2 (MElect unit (1, 5)); Msg unit 2 (MElect unit (2, 1))] in
  map snd (anns unit unit (fun _ n => n =? 1) (fun r _ o => (r, ([op_id o], [], false))) (fun r _ o => (r, ([op_id o], [], false)))
                (srv0 unit tt) h)
  = [Some (2, 1); Some (2, 1); Some (2, 1)].
Proof. vm_compute. reflexivity. Qed.

(* non-vacuity of C05_regenerated_runElection: two sessions, the second announces (2, 7) over (2, 1) *)
Example C05_runElection_example :
  let x := {| s_params := {| cp_persist := true; cp_expect := true; cp_fib := false |}; s_set := true;
              s_last := None; s_gotmsg := true |} in
  let tbl := [("a", enc_sess x); ("b", enc_sess x)]%string in
  run_method decisions_funs "s" (re_env "b" (2, 7) (srv_val (Some (2, 1)) "a" tbl)) runElection_body
  = Some (srv_val (Some (2, 7)) "b"
                  [("a", enc_sess x);
                   ("b", enc_sess {| s_params := s_params x; s_set := true; s_last := Some (2, 7); s_gotmsg := true |})]%string,
          [VPtr [("#type", VStr "ModifyResponse"); ("ElectionId", u128_ptr (Some (2, 7)))]; VNil]%string).
Proof. vm_compute. reflexivity. Qed.
