(* C16 -- change-notification hooks mirror the RIB.
   Statements only; the model is Rib/Model.v (+ Rib/Run.v, Rib/Spec.v), the consumer's fold and the
   event logs are Rib/Hooks.v (no proofs), the proofs are in Rib/HooksFacts.v.  All statements are about
   the repaired model [v_fixed] unless they say [v_tree]; which of the two /repo is, is decided by the
   correspondence check, never assumed.

   Reading guide:
   - Model.v emits, for every table mutation in an instance whose holder has the hook
     ([hooked]), [HAdd n entry] (ADD with the new entry) or [HDel n key (Some entry)] (DELETE with the
     removed entry; [None] when the key was not installed -- the implementation then passes a nil
     struct) into [hev] of the step's output, in program order; AddEntry's cascade (held operations
     resolved later) and Flush emit through the same path.  [set_post_change_hook] sets the flag on
     the instances that exist; [add_network_instance] gives a new holder the RIB-level hook when the
     variant has the repair F15 ([v_fixed]), no hook otherwise ([v_tree]).
   - [hev_log_ord ordf v r h]: all notifications of history h from state r, in order, for the walk
     order [ordf] of the held operations (an arbitrary function, possibly different at every call).
   - [fold_hook] (Hooks.v) is the consumer: tables per network instance ([Spec.spec]), started empty
     when the first notification tagged with an instance arrives; ADD files the entry under its key,
     DELETE removes the key of the entry it carries, DELETE without entry does nothing.
   - [mirror_eq a b]: every key of every table of every network instance reads the same in a and b
     ([slook], payload included).
   - [abs r]: the five tables of every instance of the model state r.
   - [rib0 d nf]: the RIB after rib.New(d) with forward references allowed (nf = false) or not. *)
From Coq Require Import List Bool NArith.
From GV.Base Require Import Alist U128 Op.
From GV.Rib Require Import Model Lemmas Run Spec Hooks HooksFacts.
Import ListNotations.
Open Scope N_scope.

(* The post-change hook is registered at ANY point of a history that started with the empty RIB
   (h1 = everything before, including AddNetworkInstance calls and operations; h2 = everything after,
   including AddNetworkInstance calls, operations whose acknowledgement comes from a later cascade, and
   flushes).  From then on the fold of the notifications, started from the tables as they were at
   registration, is the installed tables: in every network instance (whenever created), for every key,
   with the payload; for every walk order of the held operations. *)
Theorem C16_mirror (ordf : ordfun) d nf (h1 h2 : list rinput) :
  let r0 := rib0 d nf in
  let r_reg := rfinal_ord ordf v_fixed r0 (h1 ++ [ISetHook]) in
  mirror_eq (abs (rfinal_ord ordf v_fixed r0 (h1 ++ ISetHook :: h2)))
            (fold_left fold_hook (hev_log_ord ordf v_fixed r_reg h2) (abs r_reg)).
Proof. exact (mirror_rib0 ordf d nf h1 h2). Qed.
Print Assumptions C16_mirror.

(* it only depends on the hook-inheritance repair (F15), and holds from any well-formed state *)
Theorem C16_mirror_any_variant (ordf : ordfun) (v : variant) r0 (h1 h2 : list rinput) :
  fixF15 v = true -> WF r0 ->
  let r_reg := rfinal_ord ordf v r0 (h1 ++ [ISetHook]) in
  mirror_eq (abs (rfinal_ord ordf v r0 (h1 ++ ISetHook :: h2)))
            (fold_left fold_hook (hev_log_ord ordf v r_reg h2) (abs r_reg)).
Proof. exact (mirror_any_variant ordf v r0 h1 h2). Qed.
Print Assumptions C16_mirror_any_variant.

(* The server.New situation (and rib.New + SetPostChangeHook before or after AddNetworkInstance):
   nothing but configuration -- instance creation, hook registration, in any order -- happens before
   the hook is registered.  Then the fold of ALL notifications of the history, from empty tables, is
   the installed tables in every network instance. *)
Theorem C16_mirror_from_start (ordf : ordfun) d nf (h1 h2 : list rinput) :
  config_only h1 ->
  mirror_eq (abs (rfinal_ord ordf v_fixed (rib0 d nf) (h1 ++ ISetHook :: h2)))
            (fold_left fold_hook (hev_log_ord ordf v_fixed (rib0 d nf) (h1 ++ ISetHook :: h2)) []).
Proof. exact (mirror_from_start_rib0 ordf d nf h1 h2). Qed.
Print Assumptions C16_mirror_from_start.
(* the same for the executable runner the correspondence check uses *)
Theorem C16_mirror_from_start_run d nf (h1 h2 : list rinput) :
  config_only h1 ->
  mirror_eq (abs (snd (rtrace v_fixed (rib0 d nf) (h1 ++ ISetHook :: h2))))
            (fold_left fold_hook (hev_log_ord canon v_fixed (rib0 d nf) (h1 ++ ISetHook :: h2)) []).
Proof. exact (mirror_from_start_run d nf h1 h2). Qed.
Print Assumptions C16_mirror_from_start_run.

(* DELETE carries the removed entry: at its position in the stream, a DELETE notification carries
   exactly what the consumer's fold holds under that key of that instance ([None] iff it holds nothing);
   [evs_ok] checks this along the whole stream. *)
Theorem C16_delete_carries_removed (ordf : ordfun) d nf (h1 h2 : list rinput) :
  let r_reg := rfinal_ord ordf v_fixed (rib0 d nf) (h1 ++ [ISetHook]) in
  evs_ok (abs r_reg) (hev_log_ord ordf v_fixed r_reg h2).
Proof. exact (delete_carries_rib0 ordf d nf h1 h2). Qed.
Print Assumptions C16_delete_carries_removed.
Theorem C16_delete_carries_removed_from_start (ordf : ordfun) d nf (h1 h2 : list rinput) :
  config_only h1 -> evs_ok [] (hev_log_ord ordf v_fixed (rib0 d nf) (h1 ++ ISetHook :: h2)).
Proof. exact (delete_carries_from_start_rib0 ordf d nf h1 h2). Qed.
Print Assumptions C16_delete_carries_removed_from_start.

(* the no-op clause of the fold: a DELETE without entry changes nothing; a DELETE whose entry's key is
   not held changes nothing either *)
Theorem C16_fold_delete_noop sp n k e :
  fold_hook sp (HDel n k None) = sp
  /\ (slook sp n (sentry_key e) = None -> mirror_eq (fold_hook sp (HDel n k (Some e))) sp).
Proof. exact (conj (fold_hook_del_none sp n k) (fold_hook_del_absent sp n k e)). Qed.
Print Assumptions C16_fold_delete_noop.
(* what one notification does to the consumer's tables, read per instance and key *)
Theorem C16_fold_hook_reads sp ev n' k' :
  slook (fold_hook sp ev) n' k' =
  match ev with
  | HAdd n e => if (n =? n') && skey_eqb (sentry_key e) k' then Some e else slook sp n' k'
  | HDel n _ (Some e) => if (n =? n') && skey_eqb (sentry_key e) k' then None else slook sp n' k'
  | HDel _ _ None => slook sp n' k'
  end.
Proof. exact (slook_fold_hook sp ev n' k'). Qed.
Print Assumptions C16_fold_hook_reads.

(* Resolved-entry notifications: every one emitted by any step (AddEntry with its cascade, DeleteEntry)
   from any state, for any variant and walk order, carries a snapshot ([abs_nis snap] = its tables) in
   which, for an ADD, the announced key of the announced instance is bound to the payload of an
   operation on that key acknowledged by this very call; for a DELETE, the key is not bound
   ([rev_ok], Hooks.v).  The snapshot is a value of the model: that it is not affected by later changes
   is automatic here; the aliasing half of that clause is checked on the implementation only (the
   harness keeps every snapshot and compares it again at the end of the history). *)
Theorem C16_resolved_snapshot (ordf : ordfun) (v : variant) r i r' out b :
  rstep_ord ordf v r i = (r', out, b) -> forall ev, In ev (rev out) -> rev_ok (acked out) ev.
Proof. intros E. pose proof (resolved_snapshot ordf v r i) as H. rewrite E in H. exact H. Qed.
Print Assumptions C16_resolved_snapshot.
Theorem C16_resolved_snapshot_history (ordf : ordfun) (v : variant) h r ev :
  In ev (rev_log_ord ordf v r h) -> exists acks, rev_ok acks ev.
Proof. exact (resolved_snapshot_history ordf v h r ev). Qed.
Print Assumptions C16_resolved_snapshot_history.

(* The pinned tree (before "fix: apply the post-change hook to network instances created after it was
   set"): register the hook, create instance 2, ADD next-hop 1 in instance 2 -- no notification at
   all, and the fold lacks the installed next-hop. *)
Theorem C16_mirror_tree_refuted :
  exists d nf h1 h2,
    config_only h1
    /\ hev_log_ord canon v_tree (rib0 d nf) (h1 ++ ISetHook :: h2) = []
    /\ ~ mirror_eq (abs (rfinal_ord canon v_tree (rib0 d nf) (h1 ++ ISetHook :: h2)))
                   (fold_left fold_hook (hev_log_ord canon v_tree (rib0 d nf) (h1 ++ ISetHook :: h2)) []).
Proof. exact mirror_tree_refuted. Qed.
Print Assumptions C16_mirror_tree_refuted.

(* ---- non-vacuity: a history with an instance created after registration, a held operation resolved
   by a later cascade, an implicit replace, a DELETE of a missing key, and a Flush; the stream has 9
   notifications (3 of them from the Flush), the resolved-entry hook fired, and the fold reconstructs
   the one entry left ---- *)
Definition ex_hist : list rinput :=
  [ IAddNI 2;
    IAdd 2 (mk_op 1 2 ADD None (ETop T4 1 true (Some (mk_top 1 0 [])))) [] [];       (* held: group 1 missing *)
    IAdd 2 (mk_op 2 2 ADD None (EGrp 1 (Some (mk_grp [(1, 1)] 0 [])))) [] [];         (* held: next-hop 1 missing *)
    IAdd 2 (mk_op 3 2 ADD None (ENh 1 (Some (mk_nh [(1, 1)])))) [] [3; 2; 1];          (* resolves both *)
    IAdd 2 (mk_op 4 2 ADD None (ENh 1 (Some (mk_nh [(1, 2)])))) [] [4];                (* implicit replace *)
    IDel 2 (mk_op 5 2 DELETE None (ENh 3 None));                                      (* missing key *)
    IAdd 1 (mk_op 6 1 ADD None (ENh 7 (Some (mk_nh [])))) [] [6];
    IFlush [2] ].
Example C16_nonvacuous :
  let h := [ISetResHook] ++ ISetHook :: ex_hist in
  length (hev_log_ord canon v_fixed (rib0 1 false) h) = 9%nat
  /\ length (rev_log_ord canon v_fixed (rib0 1 false) h) = 1%nat
  /\ slook (fold_left fold_hook (hev_log_ord canon v_fixed (rib0 1 false) h) []) 1 (KNh 7) = Some (SNh 7 (mk_nh []))
  /\ slook (fold_left fold_hook (hev_log_ord canon v_fixed (rib0 1 false) h) []) 2 (KNh 1) = None
  /\ slook (abs (rfinal_ord canon v_fixed (rib0 1 false) ([ISetResHook] ++ ISetHook :: firstn 5 ex_hist))) 2 (KNh 1)
     = Some (SNh 1 (mk_nh [(1, 2)])).
Proof. vm_compute. repeat split. Qed.
