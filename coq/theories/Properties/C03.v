(* C03 — Referenced groups/next-hops cannot be deleted; unreferenced ones always can.
   Statements only; proofs in Rib/RefCount.v. *)
From Coq Require Import List NArith Bool PeanoNat.
From GV.Base Require Import Alist Op.
From GV.Rib Require Import Model Lemmas RefDefs RefCount RefExists Run.
Import ListNotations.
Open Scope N_scope.

(* The counters are exact — cnt(group) = number of installed IPv4/IPv6/MPLS entries, in any
   instance, that point at it; cnt(next-hop) = number of installed groups of its instance that
   contain it — in every state reachable by any history of AddEntry (incl. REPLACE, held
   operations and cascades in any order), DeleteEntry, partial or full Flush, instance creation
   and hook registration, with forward references allowed or not. *)
Theorem C03_RC_invariant (h : list rinput) (d : N) (nofwd : bool) :
  RC (snd (rtrace v_fixed (rib0 d nofwd) h)).
Proof. exact (proj1 (proj2 (reachable_INV h (rib0 d nofwd) (INV_rib0 d nofwd)))). Qed.
Print Assumptions C03_RC_invariant.

(* the same for one AddEntry under an arbitrary iteration order of the held-operation map *)
Theorem C03_add_entry_any_order ord r n o : INV r -> INV (fst (add_entry v_fixed ord r n o)).
Proof. exact (add_entry_INV ord r n o). Qed.
Print Assumptions C03_add_entry_any_order.

(* DELETE of a group: FAILED (state untouched) exactly when it is installed and referenced;
   otherwise acknowledged and the group is gone (also when it was not installed). *)
Theorem C03_delete_group_verdict r n o id p : INV r -> has_ni r n = true -> op_entry o = EGrp id p -> id <> 0 ->
  let res := delete_entry v_fixed r n o in
  if grp_installed r n id && negb (Nat.eqb (refs_nhg r n id) 0)
  then fst res = r /\ oks (snd res) = [] /\ fails (snd res) = [op_id o]
  else oks (snd res) = [op_id o] /\ fails (snd res) = [] /\ grp_installed (fst res) n id = false.
Proof. exact (delete_grp_verdict r n o id p). Qed.
Print Assumptions C03_delete_group_verdict.

Theorem C03_delete_nexthop_verdict r n o idx p : INV r -> has_ni r n = true -> op_entry o = ENh idx p -> idx <> 0 ->
  let res := delete_entry v_fixed r n o in
  if nh_installed r n idx && negb (Nat.eqb (refs_nh r n idx) 0)
  then fst res = r /\ oks (snd res) = [] /\ fails (snd res) = [op_id o]
  else oks (snd res) = [op_id o] /\ fails (snd res) = [] /\ nh_installed (fst res) n idx = false.
Proof. exact (delete_nh_verdict r n o idx p). Qed.
Print Assumptions C03_delete_nexthop_verdict.

Theorem C03_delete_top_always_succeeds r n o t k kv p :
  has_ni r n = true -> op_entry o = ETop t k kv p -> key_ok t k kv = true ->
  let res := delete_entry v_fixed r n o in
  oks (snd res) = [op_id o] /\ fails (snd res) = [] /\ nmem k (get_top t (sget (fst res) n)) = false.
Proof. exact (delete_top_verdict r n o t k kv p). Qed.
Print Assumptions C03_delete_top_always_succeeds.

(* the verdict depends only on the installed entries, never on how they got there *)
Theorem C03_history_free r1 r2 n x : tables_of r1 = tables_of r2 ->
  grp_delete_refused r1 n x = grp_delete_refused r2 n x /\ nh_delete_refused r1 n x = nh_delete_refused r2 n x.
Proof. exact (verdict_history_free r1 r2 n x). Qed.
Print Assumptions C03_history_free.


(* The property in its own words, for every state reached by any history: the counters are sums,
   and a sum is non-zero exactly when a referrer EXISTS (an installed IPv4/IPv6/MPLS entry of some
   existing instance `own` whose target is group id of n / an installed group of n listing idx). *)
Theorem C03_referenced_group_iff_referrer_exists r n g : WF r ->
  refs_nhg r n g <> 0%nat <-> exists own t k p, referrer_of_group r n g own t k p.
Proof. exact (refs_nhg_pos_iff r n g). Qed.
Print Assumptions C03_referenced_group_iff_referrer_exists.

Theorem C03_referenced_nexthop_iff_referrer_exists r n i : WF r ->
  refs_nh r n i <> 0%nat <-> exists id gp, referrer_of_nh r n i id gp.
Proof. exact (refs_nh_pos_iff r n i). Qed.
Print Assumptions C03_referenced_nexthop_iff_referrer_exists.

(* DELETE of a group after ANY history h: FAILED (and nothing changes) exactly when the group is
   installed and some installed entry in any instance points at it; acknowledged (and the group is
   gone) exactly otherwise. *)
Theorem C03_reachable_delete_group (h : list rinput) (d : N) (nofwd : bool) n o id p :
  let r := snd (rtrace v_fixed (rib0 d nofwd) h) in
  has_ni r n = true -> op_entry o = EGrp id p -> id <> 0 ->
  let res := delete_entry v_fixed r n o in
  (fails (snd res) = [op_id o] /\ oks (snd res) = [] /\ fst res = r
     <-> grp_installed r n id = true /\ exists own t k pl, referrer_of_group r n id own t k pl)
  /\ (oks (snd res) = [op_id o] /\ fails (snd res) = [] /\ grp_installed (fst res) n id = false
     <-> ~ (grp_installed r n id = true /\ exists own t k pl, referrer_of_group r n id own t k pl)).
Proof. exact (reachable_delete_group_failed_iff h d nofwd n o id p). Qed.
Print Assumptions C03_reachable_delete_group.

Theorem C03_reachable_delete_nexthop (h : list rinput) (d : N) (nofwd : bool) n o idx p :
  let r := snd (rtrace v_fixed (rib0 d nofwd) h) in
  has_ni r n = true -> op_entry o = ENh idx p -> idx <> 0 ->
  let res := delete_entry v_fixed r n o in
  (fails (snd res) = [op_id o] /\ oks (snd res) = [] /\ fst res = r
     <-> nh_installed r n idx = true /\ exists id gp, referrer_of_nh r n idx id gp)
  /\ (oks (snd res) = [op_id o] /\ fails (snd res) = [] /\ nh_installed (fst res) n idx = false
     <-> ~ (nh_installed r n idx = true /\ exists id gp, referrer_of_nh r n idx id gp)).
Proof. exact (reachable_delete_nexthop_failed_iff h d nofwd n o idx p). Qed.
Print Assumptions C03_reachable_delete_nexthop.

(* non-vacuity: after ADD nh 1, ADD nhg 1 {1}, ADD 1.0.0.0/8 -> nhg 1 the group HAS a referrer and its
   DELETE fails; the next-hop has one too *)
Definition ref_history : list rinput :=
  [IAdd 1 (mk_op 1 1 ADD None (ENh 1 (Some (mk_nh [])))) [] [1];
   IAdd 1 (mk_op 2 1 ADD None (EGrp 1 (Some (mk_grp [(1, 1)] 0 [])))) [] [2];
   IAdd 1 (mk_op 3 1 ADD None (ETop T4 8 true (Some (mk_top 1 0 [])))) [] [3]].
Example C03_reachable_example :
  let r := snd (rtrace v_fixed (rib0 1 false) ref_history) in
  has_ni r 1 = true /\ grp_installed r 1 1 = true
  /\ referrer_of_group r 1 1 1 T4 8 (mk_top 1 0 [])
  /\ referrer_of_nh r 1 1 1 (mk_grp [(1, 1)] 0 [])
  /\ fails (snd (delete_entry v_fixed r 1 (mk_op 4 1 DELETE None (EGrp 1 None)))) = [4]
  /\ fails (snd (delete_entry v_fixed r 1 (mk_op 5 1 DELETE None (ENh 1 None)))) = [5].
Proof. vm_compute. repeat split; reflexivity. Qed.

(* the pinned tree (a member listed twice counted twice): after ADD nh 1, ADD nhg 1 {1,1},
   DELETE nhg 1 the counter of nh 1 is still 1 although nothing references it, and DELETE nh 1 fails *)
Definition f8_history : list rinput :=
  [IAdd 1 (mk_op 1 1 ADD None (ENh 1 (Some (mk_nh [])))) [] [1];
   IAdd 1 (mk_op 2 1 ADD None (EGrp 1 (Some (mk_grp [(1, 1); (1, 1)] 0 [])))) [] [2];
   IDel 1 (mk_op 3 1 DELETE None (EGrp 1 None))].
Theorem C03_tree_refuted :
  let r := snd (rtrace v_tree (rib0 1 false) f8_history) in
  refs_nh r 1 1 = 0%nat /\ cnt (rch (sget r 1)) 1 = 1
  /\ fails (snd (delete_entry v_tree r 1 (mk_op 4 1 DELETE None (ENh 1 None)))) = [4].
Proof. vm_compute. repeat split. Qed.
Print Assumptions C03_tree_refuted.

(* non-vacuity: on the same history the repaired model has exact counters and the delete succeeds *)
Example C03_example :
  let r := snd (rtrace v_fixed (rib0 1 false) f8_history) in
  cnt (rch (sget r 1)) 1 = 0 /\ oks (snd (delete_entry v_fixed r 1 (mk_op 4 1 DELETE None (ENh 1 None)))) = [4].
Proof. vm_compute. split; reflexivity. Qed.
