(* C06 (RIB level) — every operation is answered exactly once.
   Statements only; definitions and proofs live in Rib/Answers.v (and Rib/Closed.v).
   A history is a list of RIB-level calls (`hin`): AddEntry (carrying the Go map order that call
   used), DeleteEntry, Flush, AddNetworkInstance, the two hook setters; `good_ord` says the order
   of an AddEntry is a permutation.  `submitted h` = the op ids of the AddEntry/DeleteEntry calls
   in order; `answers` = concatenation over the calls of `oks out ++ fails out`; `accepted_adds`
   / `accepted_dels` = ids of the AddEntry / DeleteEntry calls with `fatal out = false`;
   `held r` = keys of the held-operation map.  Everything for v_fixed, from `rib0 d nf`. *)
From Coq Require Import List NArith Permutation.
From GV.Base Require Import Alist U128 Op.
From GV.Rib Require Import Model Lemmas RefDefs Closed Answers.
Import ListNotations.
Open Scope N_scope.

(* (1) no operation id is answered twice over the whole history — in particular never both
   FAILED and programmed *)
Theorem C06_answers_nodup d nf h :
  Forall good_ord h -> NoDup (submitted h) -> NoDup (answers v_fixed d nf h).
Proof. exact (answers_nodup d nf h). Qed.
Print Assumptions C06_answers_nodup.

(* (2) at every point of a history (every prefix h1) each answered id was submitted at or
   before that point; the answers of a prefix are a prefix of the answers *)
Theorem C06_answers_are_submitted d nf h1 h2 : Forall good_ord (h1 ++ h2) ->
  (exists rest, answers v_fixed d nf (h1 ++ h2) = answers v_fixed d nf h1 ++ rest)
  /\ submitted (h1 ++ h2) = submitted h1 ++ submitted h2
  /\ incl (answers v_fixed d nf h1) (submitted h1).
Proof. exact (answers_are_submitted d nf h1 h2). Qed.
Print Assumptions C06_answers_are_submitted.

(* (3) at the end of any history every accepted AddEntry id is answered or still held, never
   both; every accepted DeleteEntry id is answered *)
Theorem C06_answered_or_held d nf h : Forall good_ord h -> NoDup (submitted h) ->
  (forall id, In id (accepted_adds v_fixed d nf h) ->
     In id (answers v_fixed d nf h) \/ In id (held (final v_fixed d nf h)))
  /\ (forall id, In id (answers v_fixed d nf h) -> ~ In id (held (final v_fixed d nf h)))
  /\ (forall id, In id (accepted_dels v_fixed d nf h) -> In id (answers v_fixed d nf h)).
Proof. exact (answered_or_held d nf h). Qed.
Print Assumptions C06_answered_or_held.

(* ... and whatever is still held is legitimately held: not resolvable, not installable (C02) *)
Theorem C06_held_is_legitimate d nf h : Forall good_ord h ->
  (forall id n o, nget id (pend (final v_fixed d nf h)) = Some (n, o) -> resolvable (final v_fixed d nf h) n o = false)
  /\ quiescent v_fixed (final v_fixed d nf h).
Proof. exact (held_is_legitimate d nf h). Qed.
Print Assumptions C06_held_is_legitimate.

(* per call: ids leave the held map only by being answered; nothing new is held but the call's own
   operation *)
Theorem C06_add_entry_accounting ord r n o : (forall l, Permutation (ord l) l) -> PWF r ->
  (forall id, In id (held (fst (add_entry v_fixed ord r n o))) -> id = op_id o \/ In id (held r))
  /\ (add_entry v_fixed ord r n o = (r, set_fatal out0) \/
      forall id, id = op_id o \/ In id (held r) ->
        In id (held (fst (add_entry v_fixed ord r n o))) \/ In id (ans_of (snd (add_entry v_fixed ord r n o)))).
Proof. exact (fun Ho HP => conj (add_entry_pend_keys v_fixed ord r n o eq_refl Ho HP) (add_entry_accounted v_fixed ord r n o)). Qed.
Print Assumptions C06_add_entry_accounting.

Theorem C06_delete_entry_answers v r n o :
  (fatal (snd (delete_entry v r n o)) = true /\ ans_of (snd (delete_entry v r n o)) = [])
  \/ (fatal (snd (delete_entry v r n o)) = false /\ ans_of (snd (delete_entry v r n o)) = [op_id o]).
Proof. exact (delete_entry_answers v r n o). Qed.
Print Assumptions C06_delete_entry_answers.

(* non-vacuity: 9 calls; ops 1 (ADD 100 -> group 5) and 2 (explicit REPLACE of 10 -> group 5) are
   held, key 10 is deleted (13), group 5 (3) is held for next-hop 7, next-hop 7 (4) arrives:
   4, 3, 1 are programmed, 2 fails (its key is gone); op 5 names no instance and is fatal *)
Example C06_example :
  Forall good_ord ex_hist
  /\ submitted ex_hist = [10; 11; 12; 1; 2; 13; 3; 4; 5]
  /\ held (final v_fixed 1 false (firstn 7 ex_hist)) = [3; 2; 1]
  /\ (let o8 := snd (hstep v_fixed (final v_fixed 1 false (firstn 7 ex_hist))
                           (JAdd idord 1 (mk_op 4 1 ADD None (ENh 7 (Some (mk_nh [])))))) in
      oks o8 = [4; 3; 1] /\ fails o8 = [2])
  /\ answers v_fixed 1 false ex_hist = [10; 11; 12; 13; 4; 3; 1; 2]
  /\ held (final v_fixed 1 false ex_hist) = []
  /\ accepted_adds v_fixed 1 false ex_hist = [10; 11; 12; 1; 2; 3; 4]
  /\ accepted_dels v_fixed 1 false ex_hist = [13].
Proof. split; [exact ex_hist_good|]. vm_compute. repeat split. Qed.

(* ---------------- server level (Server/Facts.v): for every RIB, state, session and request ---------------- *)
From GV.Server Require Import Model Facts.

(* a request of k operations is answered by exactly k responses, unless it ends the RPC *)
Theorem C06_batch (E R : Type) has_ni add del (s : srv R) c ops :
  o_end (snd (step E R has_ni add del sv_fixed s (Msg E c (MOps E ops)))) = None -> sget R c s <> None ->
  length (o_resps (snd (step E R has_ni add del sv_fixed s (Msg E c (MOps E ops))))) = length ops.
Proof. exact (ops_batch_count E R has_ni add del s c ops). Qed.
Print Assumptions C06_batch.

(* the results of one operation: RIB_PROGRAMMED for each installed id, immediately followed by
   FIB_PROGRAMMED for the same id iff FIB acknowledgement was negotiated, then the failures *)
Theorem C06_rib_before_fib fib oks fails :
  results_of fib oks fails
  = flat_map (fun i => (i, RIB_PROGRAMMED) :: (if fib then [(i, FIB_PROGRAMMED)] else [])) oks
    ++ map (fun i => (i, FAILED)) fails.
Proof. exact (results_of_shape fib oks fails). Qed.
Print Assumptions C06_rib_before_fib.

Theorem C06_no_fib_unless_negotiated oks fails i : ~ In (i, FIB_PROGRAMMED) (results_of false oks fails).
Proof. exact (results_no_fib oks fails i). Qed.
Print Assumptions C06_no_fib_unless_negotiated.
