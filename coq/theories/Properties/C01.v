(* C01 -- installed state equals the fold of the acknowledged operations.
   Statements only; the model is Rib/Model.v + Rib/Run.v, the spec Rib/Spec.v (no proofs), the proofs
   are in Rib/Refine.v.  All statements are about the repaired model [v_fixed] unless they say
   [v_tree]; which of the two /repo is, is decided by the correspondence check, never assumed.

   Reading guide (Rib/Spec.v):
   - [spec] = network instance -> the five tables; [spec_apply] applies one acknowledgement:
     ADD / REPLACE set the operation's key to its whole payload, DELETE removes exactly that key,
     a flush empties the listed instances, a new network instance starts empty.
   - [abs r] projects the five tables of every instance of the model state r (no counters, no held
     operations, no hooks).
   - [ack_log_ord ordf v r h] is the acknowledgement log of history h from state r: for AddEntry /
     DeleteEntry steps the operations behind the returned [oks], in order; one entry per Flush and
     per created instance.  FAILED and held operations are not in it.
   - [ordf hf ho] is the order in which one AddEntry call walks the held operations (Go map order):
     an arbitrary function, possibly different at every call; [Run.rstep] uses [canon].
   - [sp_eq a b]: every instance has the same tables in a and b (the tables themselves are equal
     as association lists; only the order in which the instances are listed is abstracted, because
     the model moves an updated instance to the front of its list, see [C01_instance_order_note]). *)
From Coq Require Import List Bool NArith.
From GV.Base Require Import Alist U128 Op.
From GV.Rib Require Import Model Lemmas Run Spec Refine.
Import ListNotations.
Open Scope N_scope.

(* At the end of every finite history, from any state (in particular the empty RIB [rib0 d nf], with
   forward references allowed or not), with interleaved flushes, configuration and hook changes, any
   keys / payloads / instances and any walk order of the held operations, the installed tables are
   the fold of the acknowledgements, in acknowledgement order, over the initial tables. *)
Theorem C01_state_is_fold (ordf : ordfun) (r : rib) (h : list rinput) :
  sp_eq (abs (rfinal_ord ordf v_fixed r h)) (fold_left spec_apply (ack_log_ord ordf v_fixed r h) (abs r)).
Proof. exact (state_is_fold ordf r h). Qed.
Print Assumptions C01_state_is_fold.

(* the same for the executable runner the correspondence check uses *)
Theorem C01_state_is_fold_run (r : rib) (h : list rinput) :
  sp_eq (abs (snd (rtrace v_fixed r h))) (fold_left spec_apply (ack_log v_fixed r h) (abs r)).
Proof. exact (state_is_fold_run r h). Qed.
Print Assumptions C01_state_is_fold_run.

(* it only depends on the DELETE repair (F6): every variant with that flag satisfies it *)
Theorem C01_state_is_fold_any_variant (ordf : ordfun) (v : variant) :
  fixF6 v = true -> forall r h,
  sp_eq (abs (rfinal_ord ordf v r h)) (fold_left spec_apply (ack_log_ord ordf v r h) (abs r)).
Proof. exact (state_is_fold_v ordf v). Qed.
Print Assumptions C01_state_is_fold_any_variant.

(* Every acknowledged explicit REPLACE found its key bound in the tables at its position in the log. *)
Theorem C01_replace_needs_existing (ordf : ordfun) (r : rib) (h : list rinput) pre n o post :
  ack_log_ord ordf v_fixed r h = pre ++ AckOp n o :: post -> op_kind o = REPLACE ->
  spec_has (fold_left spec_apply pre (abs r)) n (op_entry o) = true.
Proof. exact (replace_needs_existing ordf r h pre n o post). Qed.
Print Assumptions C01_replace_needs_existing.
(* per installation, on the model state: for every variant *)
Theorem C01_replace_needs_existing_install (v : variant) r n o r' hv rv :
  try_install v r n o = Installed r' hv rv -> op_kind o = REPLACE ->
  has_ni r n = true /\ model_has (sget r n) (op_entry o) = true.
Proof. exact (try_install_replace_model v r n o r' hv rv). Qed.
Print Assumptions C01_replace_needs_existing_install.

(* An acknowledged DELETE changes no key other than the one its entry names -- the key as sent, with
   the full 64-bit MPLS label ([ekey] does not truncate): over the spec ... *)
Theorem C01_delete_exact (sp : spec) n o n' k' :
  op_kind o = DELETE -> n' <> n \/ ekey (op_entry o) <> Some k' ->
  slook (spec_apply sp (AckOp n o)) n' k' = slook sp n' k'.
Proof. exact (delete_exact_spec sp n o n' k'). Qed.
Print Assumptions C01_delete_exact.
(* ... and on the model: whatever DeleteEntry answers, every other key of every instance keeps its entry *)
Theorem C01_delete_exact_model r n o r' out :
  delete_entry v_fixed r n o = (r', out) ->
  forall n' k', n' <> n \/ ekey (op_entry o) <> Some k' -> slook (abs r') n' k' = slook (abs r) n' k'.
Proof. exact (delete_exact r n o r' out). Qed.
Print Assumptions C01_delete_exact_model.

(* FAILED and still-held operations leave no trace: two histories (and walk orders) from the same
   state with the same acknowledgement log end with the same tables. *)
Theorem C01_no_trace (ordf1 ordf2 : ordfun) r h1 h2 :
  ack_log_ord ordf1 v_fixed r h1 = ack_log_ord ordf2 v_fixed r h2 ->
  sp_eq (abs (rfinal_ord ordf1 v_fixed r h1)) (abs (rfinal_ord ordf2 v_fixed r h2)).
Proof. exact (no_trace ordf1 ordf2 r h1 h2). Qed.
Print Assumptions C01_no_trace.

(* The ids a step reports as programmed are the ids of its logged operations, in order (every variant). *)
Theorem C01_oks_are_acked_ids (ordf : ordfun) v r i r' out b :
  rstep_ord ordf v r i = (r', out, b) -> oks out = map (fun x => op_id (snd x)) (acked out).
Proof. exact (oks_are_acked_ids ordf v r i r' out b). Qed.
Print Assumptions C01_oks_are_acked_ids.

(* Operations of the kinds the server hands to AddEntry / DeleteEntry are logged unchanged. *)
Theorem C01_log_keeps_dispatched_ops o :
  (op_kind o = ADD \/ op_kind o = REPLACE -> eff_add o = o) /\ (op_kind o = DELETE -> eff_del o = o).
Proof. exact (conj (eff_add_same o) (eff_del_same o)). Qed.
Print Assumptions C01_log_keeps_dispatched_ops.

(* ---- non-vacuity: a 9-operation history with a held REPLACE (4), a DELETE (8) and a cascade of
   depth 2 (9 installs 6, which installs 4 and 5) ---- *)
Definition c01_hist : list rinput :=
  [ IAdd 1 (mk_op 1 1 ADD None (ENh 5 (Some (mk_nh [])))) [] [];
    IAdd 1 (mk_op 2 1 ADD None (EGrp 5 (Some (mk_grp [(5, 1)] 0 [])))) [] [];
    IAdd 1 (mk_op 3 1 ADD None (ETop T4 20 true (Some (mk_top 5 0 [])))) [] [];
    IAdd 1 (mk_op 4 1 REPLACE None (ETop T4 20 true (Some (mk_top 1 0 [(7, 7)])))) [] [];  (* held: group 1 missing *)
    IAdd 1 (mk_op 5 1 ADD None (ETop T4 10 true (Some (mk_top 1 0 [])))) [] [];            (* held *)
    IAdd 1 (mk_op 6 1 ADD None (EGrp 1 (Some (mk_grp [(1, 1)] 0 [])))) [] [];              (* held: next hop 1 missing *)
    IAdd 1 (mk_op 7 1 ADD None (ETop TL 100 true (Some (mk_top 5 0 [])))) [] [];
    IDel 1 (mk_op 8 1 DELETE None (ETop TL 100 true None));
    IAdd 1 (mk_op 9 1 ADD None (ENh 1 (Some (mk_nh [])))) [] [] ].
Definition ack_id (a : ack) : N := match a with AckOp _ o => op_id o | _ => 0 end.

Example C01_nonvacuous :
  let r0 := rib0 1 false in
  let rf := rfinal v_fixed r0 c01_hist in
  map fst (pend (rfinal v_fixed r0 (firstn 8 c01_hist))) = [6; 5; 4]
  /\ map ack_id (ack_log v_fixed r0 c01_hist) = [1; 2; 3; 7; 8; 9; 6; 4; 5]
  /\ pend rf = []
  /\ slook (abs rf) 1 (KTop T4 20) = Some (STop T4 20 (mk_top 1 0 [(7, 7)]))
  /\ slook (abs rf) 1 (KTop T4 10) = Some (STop T4 10 (mk_top 1 0 []))
  /\ slook (abs rf) 1 (KTop TL 100) = None
  /\ abs rf = fold_left spec_apply (ack_log v_fixed r0 c01_hist) (abs r0).
Proof. vm_compute. repeat split. Qed.

(* ---- the pinned tree ---- *)
(* DELETE of MPLS label 2^32+100 is acknowledged and removes label 100, a key the acknowledged
   operation does not name: C01_delete_exact_model fails for [v_tree]. *)
Definition c01_tree_hist : list rinput :=
  [ IAdd 1 (mk_op 1 1 ADD None (ENh 1 (Some (mk_nh [])))) [] [];
    IAdd 1 (mk_op 2 1 ADD None (EGrp 1 (Some (mk_grp [(1, 1)] 0 [])))) [] [];
    IAdd 1 (mk_op 3 1 ADD None (ETop TL 100 true (Some (mk_top 1 0 [])))) [] [] ].
Definition c01_tree_del : rop := mk_op 4 1 DELETE None (ETop TL 4294967396 true None).

Theorem C01_tree_delete_refuted :
  exists r n o r' out,
    delete_entry v_tree r n o = (r', out) /\ acked out = [(n, o)] /\ op_kind o = DELETE
    /\ exists n' k', (n' <> n \/ ekey (op_entry o) <> Some k') /\ slook (abs r') n' k' <> slook (abs r) n' k'.
Proof.
  exists (rfinal v_tree (rib0 1 false) c01_tree_hist), 1, c01_tree_del. eexists. eexists.
  split; [vm_compute; reflexivity|]. split; [reflexivity|]. split; [reflexivity|].
  exists 1, (KTop TL 100). split; [right; vm_compute; discriminate|vm_compute; discriminate].
Qed.
Print Assumptions C01_tree_delete_refuted.
(* hence the tables of the pinned tree are not the fold of its acknowledgements *)
Theorem C01_tree_fold_refuted :
  exists r h, ~ sp_eq (abs (rfinal v_tree r h)) (fold_left spec_apply (ack_log v_tree r h) (abs r)).
Proof.
  exists (rib0 1 false), (c01_tree_hist ++ [IDel 1 c01_tree_del]). intros H. specialize (H 1).
  vm_compute in H. discriminate.
Qed.
Print Assumptions C01_tree_fold_refuted.

(* ---- why the statements use [sp_eq] rather than equality of lists: an installation that references
   a group of another instance touches that instance's counters, which moves it to the front of the
   model's instance list; the tables are the same, the listing order is not ---- *)
Example C01_instance_order_note :
  let h := [ IAddNI 2;
             IAdd 1 (mk_op 1 1 ADD None (ENh 1 (Some (mk_nh [])))) [] [];
             IAdd 1 (mk_op 2 1 ADD None (EGrp 1 (Some (mk_grp [(1, 1)] 0 [])))) [] [];
             IAdd 2 (mk_op 3 2 ADD None (ETop T4 10 true (Some (mk_top 1 1 [])))) [] [] ] in
  let r0 := rib0 1 false in
  map fst (abs (rfinal v_fixed r0 h)) = [1; 2]
  /\ map fst (fold_left spec_apply (ack_log v_fixed r0 h) (abs r0)) = [2; 1].
Proof. vm_compute. split; reflexivity. Qed.
