(* C15 — Reconciler output converges the target RIB to the intended RIB.
   Statements only; proofs in Tools/ReconcilerFacts.v (ids, idempotence, what diff emits) and
   Tools/ReconcilerConv.v (convergence).  Model: Tools/Reconciler.v over Rib/Model.v. *)
From Coq Require Import List NArith Bool Permutation.
From GV.Base Require Import Alist Op.
From GV.Rib Require Import Model Lemmas RefDefs RefCount Closed Run Spec.
From GV.Tools Require Import Reconciler ReconcilerDefs ReconcilerFacts ReconcilerConv ReconcilerReach.
Import ListNotations.
Open Scope N_scope.

(* In the order diff creates them (reconcile.go: id.Add(1) before each operation) the operations
   carry base+1, base+2, ..., base+k, for any two table sets, with or without fix F14. *)
Theorem C15_ids_in_creation_order v src dst base :
  map (fun x => op_id (snd x)) (diff_seq v src dst base) = ids_from base (length (diff_items v src dst)).
Proof. exact (diff_ids_in_order v src dst base). Qed.
Print Assumptions C15_ids_in_creation_order.

(* The operations filed in the ReconcileOps structure are exactly those, each once: their ids are
   distinct, are exactly base+1..base+k, and the counter is left at base+k. *)
Theorem C15_ids v src dst base :
  Permutation (ordered (diff v src dst base)) (map snd (diff_seq v src dst base))
  /\ Permutation (all_ids (diff v src dst base)) (ids_from base (length (diff_items v src dst)))
  /\ NoDup (all_ids (diff v src dst base))
  /\ (forall x, In x (all_ids (diff v src dst base)) <-> base < x <= diff_next_id v src dst base).
Proof.
  exact (conj (ordered_perm v src dst base) (conj (all_ids_perm v src dst base)
        (conj (all_ids_nodup v src dst base) (all_ids_range v src dst base)))).
Qed.
Print Assumptions C15_ids.

(* Reconciling a RIB with itself yields no operation and leaves the id counter alone. *)
Theorem C15_idempotent v r base : WF r ->
  ordered (diff v (abs r) (abs r) base) = [] /\ diff_next_id v (abs r) (abs r) base = base.
Proof. exact (diff_self_empty v r base). Qed.
Print Assumptions C15_idempotent.

(* ... and so does reconciling two different RIBs that have the same instances and the same contents
   (group members compared as maps, any order of the entries inside the tables), with or without F14. *)
Theorem C15_equal_no_ops v I T base : WF I -> WF T -> (forall n, has_ni I n = has_ni T n) ->
  (forall n, tabs_equiv (tabs_of (sget I n)) (tabs_of (sget T n))) ->
  ordered (diff v (abs I) (abs T) base) = [] /\ diff_next_id v (abs I) (abs T) base = base.
Proof. exact (diff_equal_empty v I T base). Qed.
Print Assumptions C15_equal_no_ops.

(* Convergence (reconciler with fix F14, RIB with its fixes).  For every intended RIB I that is
   reference-closed and every target RIB T without held operations, both satisfying the RIB
   invariant INV (distinct keys, exact reference counters, referenced instances exist: every
   reachable state, C03) and holding only entries AddEntry accepts, every instance of I existing in
   T; for every base id and every iteration order of the target's held-operation map:
   sending Add.NH, Add.NHG, Add.TopLevel, Replace.NH, Replace.NHG, Replace.TopLevel, Delete.TopLevel,
   Delete.NHG, Delete.NH one by one through AddEntry / DeleteEntry,
   - every call acknowledges exactly its own operation (none FAILED, none held, no error),
   - the target still satisfies INV and holds nothing,
   - in EVERY instance n (those only the target has included: I's tables there are empty) the five
     tables have the same contents as I's (group members compared as the maps they are).
   T need not be reference-closed. *)
Theorem C15_converges ord I T base :
  (forall l, Permutation (ord l) l) ->
  INV I -> closed I -> stored_ok I ->
  INV T -> stored_ok T -> pend T = [] ->
  (forall n, has_ni I n = true -> has_ni T n = true) ->
  let res := apply_in_order v_fixed ord T (diff rv_fixed (abs I) (abs T) base) in
  Forall op_ok (snd res) /\ INV (fst res) /\ pend (fst res) = []
  /\ forall n, has_ni (fst res) n = has_ni T n
               /\ tabs_equiv (tabs_of (sget (fst res) n)) (tabs_of (sget I n)).
Proof. exact (converges_stmt ord I T base). Qed.
Print Assumptions C15_converges.

(* The technical hypotheses are facts about every reachable RIB: INV is C03_RC_invariant's invariant,
   and the stored entries are acceptable in every state reached from a RIB with a named default
   instance by any history of AddEntry / DeleteEntry / Flush / AddNetworkInstance (of named
   instances) / hook registration. *)
Theorem C15_stored_ok_reachable d nofwd h : d <> 0 -> hist_named h ->
  stored_ok (snd (rtrace v_fixed (rib0 d nofwd) h)).
Proof. exact (reachable_stored_ok d nofwd h). Qed.
Print Assumptions C15_stored_ok_reachable.

(* Hence, for RIBs given by their histories, only the property's own conditions remain: the intended
   RIB is reference-closed, the target holds no operation, the intended instances exist on the target. *)
Theorem C15_converges_reachable ord dI nfI hI dT nfT hT base :
  (forall l, Permutation (ord l) l) ->
  dI <> 0 -> hist_named hI -> dT <> 0 -> hist_named hT ->
  let I := snd (rtrace v_fixed (rib0 dI nfI) hI) in
  let T := snd (rtrace v_fixed (rib0 dT nfT) hT) in
  closed I -> pend T = [] -> (forall n, has_ni I n = true -> has_ni T n = true) ->
  let res := apply_in_order v_fixed ord T (diff rv_fixed (abs I) (abs T) base) in
  Forall op_ok (snd res) /\ INV (fst res) /\ pend (fst res) = []
  /\ forall n, has_ni (fst res) n = has_ni T n
               /\ tabs_equiv (tabs_of (sget (fst res) n)) (tabs_of (sget I n)).
Proof. exact (converges_reachable ord dI nfI hI dT nfT hT base). Qed.
Print Assumptions C15_converges_reachable.

(* The pinned tree (diff ranges over the intended RIB's instances only): a pair satisfying all the
   hypotheses above for which Reconcile returns nothing while instance 2 of the target keeps entries
   the intended RIB lacks ... *)
Theorem C15_converges_tree_refuted :
  exists I T base,
    INV I /\ closed I /\ stored_ok I /\ INV T /\ closed T /\ stored_ok T /\ pend T = []
    /\ (forall n, has_ni I n = true -> has_ni T n = true)
    /\ let ro := diff rv_tree (abs I) (abs T) base in
       let res := apply_in_order v_fixed idord T ro in
       is_empty ro = true
       /\ exists n, has_ni T n = true /\ ~ tabs_equiv (tabs_of (sget (fst res) n)) (tabs_of (sget I n)).
Proof. exact tree_refuted_contents. Qed.
Print Assumptions C15_converges_tree_refuted.

(* ... and one where the forgotten instance still references a group the reconciler deletes: the
   DELETE is answered FAILED. *)
Theorem C15_all_programmed_tree_refuted :
  exists I T base,
    INV I /\ closed I /\ stored_ok I /\ INV T /\ closed T /\ stored_ok T /\ pend T = []
    /\ (forall n, has_ni I n = true -> has_ni T n = true)
    /\ ~ Forall op_ok (snd (apply_in_order v_fixed idord T (diff rv_tree (abs I) (abs T) base))).
Proof. exact tree_refuted_failed. Qed.
Print Assumptions C15_all_programmed_tree_refuted.

(* non-vacuity: on the second pair the repaired reconciler emits 7 operations (make-before-break:
   next-hop 2 and group 2 added, 1.0.0.0/8 moved, then instance 2's entry, group 1, next-hops 1 and 7
   deleted), all programmed, and the target ends up as intended with instance 2 empty *)
Example C15_example :
  let ro := diff rv_fixed (abs ex_intended2) (abs ex_target) 0 in
  let res := apply_in_order v_fixed idord ex_target ro in
  map op_id (ordered ro) = [3; 2; 1; 6; 4; 5; 7] /\ forallb op_okb (snd res) = true
  /\ state_eqb (state_obs (fst res))
               (state_obs (build false [2] [mk_op 1 1 ADD None (ENh 2 (Some (mk_nh [])));
                                             mk_op 2 1 ADD None (EGrp 2 (Some (mk_grp [(2, 1)] 0 [])));
                                             mk_op 3 1 ADD None (ETop T4 1 true (Some (mk_top 2 0 [])))])) = true.
Proof. exact fixed_example. Qed.
