(* C01 at the server level: the tables behind the Modify / Flush / Get RPCs of the server model
   (Server/Inst.v) are the fold of the operations the server acknowledged.
   Statements only; definitions and proofs are in Server/Compose.v (on top of Rib/Refine.v,
   Rib/RefCount.v, Server/Facts.v, Server/GetFacts.v).  Everything is about the repaired models
   [v_fixed] / [sv_fixed], for every history [h : list sinput] from [srv_init nofwd vrfs], any number
   of sessions, any cascade-order hints inside the operations.

   Reading guide (Server/Compose.v):
   - [step_calls s i]: the RIB-level inputs ([IAdd] / [IDel] / [IFlush]) that server step i makes in
     state s; [step_log s i] their acknowledgement log ([Rib/Spec.v]); [srv_log nofwd vrfs h] =
     [AckNewNI] for the configured instances, then the step logs in order.
   - [prog_ids rs]: the ids answered RIB_PROGRAMMED in the responses rs, in order.
   - [passed s c o']: session c is the primary in s and o' is stamped with the id c last announced,
     which is the highest id the server has learnt (the election gate lets o' through).
   - [sent_in s0 h n o]: (n, o) was submitted in h in an operations message whose sender passed the
     gate with it at that moment.
   - [spec_entries sp] / [spec_binds sp g]: the bindings of a spec state as Get entries. *)
From Coq Require Import List Bool NArith.
From GV.Base Require Import Alist U128 Op.
From GV.Rib Require Import Model Lemmas Run RefDefs RefCount.
From GV.Server Require Import Model Obs Inst Facts GetFacts Compose.
From GV.Rib Require Import Spec Refine.
Import ListNotations.
Open Scope N_scope.

Notation final_of nofwd vrfs h := (snd (strace v_fixed sv_fixed (srv_init nofwd vrfs) h)) (only parsing).

(* The server touches the RIB only through AddEntry / DeleteEntry / Flush: every step leaves the RIB
   unchanged or applies its calls, which are AddEntry / DeleteEntry calls for operations of the
   message that passed the gate, in request order (ADD / REPLACE -> AddEntry, DELETE ->
   DeleteEntry), or exactly one Flush. *)
Theorem C01_server_frame (s : srv ribt) (i : sinput) :
  srib (fst (sstep v_fixed sv_fixed s i)) = rfinal v_fixed (srib s) (step_calls s i)
  /\ match i with
     | SIn (Msg _ c (MOps _ ops)) =>
       step_calls s i = [] \/ exists x, GV.Server.Model.sget ribt c s = Some x
                                        /\ Forall (call_of (master s) (cur s) c (s_last x) ops) (step_calls s i)
     | SIn _ | SGet _ => step_calls s i = []
     | SFlush q => step_calls s i = [] \/ exists l, step_calls s i = [IFlush l]
     end.
Proof. exact (conj (sstep_frame s i) (step_calls_shape s i)). Qed.
Print Assumptions C01_server_frame.

(* (1) the reference-count invariant (counters exact, targets exist) and distinct keys hold in every
   reachable server state *)
Theorem C01_server_INV nofwd vrfs (h : list sinput) :
  INV (srib (final_of nofwd vrfs h)) /\ WF (srib (final_of nofwd vrfs h)).
Proof. exact (conj (srv_INV nofwd vrfs h) (srv_WF nofwd vrfs h)). Qed.
Print Assumptions C01_server_INV.

(* (2) the installed tables are the fold of the server's acknowledgement log over the empty RIB *)
Theorem C01_server_state_is_fold nofwd vrfs (h : list sinput) :
  sp_eq (abs (srib (final_of nofwd vrfs h))) (fold_left spec_apply (srv_log nofwd vrfs h) (abs (rib0 1 nofwd))).
Proof. exact (srv_state_is_fold nofwd vrfs h). Qed.
Print Assumptions C01_server_state_is_fold.
(* the log is the RIB-level log of the induced RIB-level history, which also yields the final RIB *)
Theorem C01_server_log_is_rib_log nofwd vrfs (h : list sinput) :
  srv_log nofwd vrfs h = ack_log v_fixed (rib0 1 nofwd) (map IAddNI vrfs ++ srv_hist (srv_init nofwd vrfs) h)
  /\ srib (final_of nofwd vrfs h) = rfinal v_fixed (rib0 1 nofwd) (map IAddNI vrfs ++ srv_hist (srv_init nofwd vrfs) h).
Proof. exact (conj (srv_log_eq nofwd vrfs h) (srv_final_eq nofwd vrfs h)). Qed.
Print Assumptions C01_server_log_is_rib_log.

(* (3) the log is observable from the wire: in the responses of a step the ids answered
   RIB_PROGRAMMED are, in order, the ids of the step's log entries; the only possible difference is
   an unanswered tail when the RPC was ended with the RIB's fatal-error status *)
Theorem C01_server_programmed_ids_are_acked (s : srv ribt) x s' o :
  sstep v_fixed sv_fixed s (SIn x) = (s', OMod o) ->
  exists rest, map ack_opid (step_log s (SIn x)) = prog_ids (o_resps o) ++ rest
               /\ (o_end o <> Some (Unimplemented, R_UNKNOWN) -> rest = []).
Proof. exact (srv_programmed_ids_are_acked s x s' o). Qed.
Print Assumptions C01_server_programmed_ids_are_acked.
Theorem C01_server_programmed_iff_acked (s : srv ribt) x s' o i :
  sstep v_fixed sv_fixed s (SIn x) = (s', OMod o) ->
  (In i (prog_ids (o_resps o)) -> In i (map ack_opid (step_log s (SIn x))))
  /\ (o_end o <> Some (Unimplemented, R_UNKNOWN) ->
      In i (map ack_opid (step_log s (SIn x))) -> In i (prog_ids (o_resps o))).
Proof. exact (srv_programmed_iff_acked s x s' o i). Qed.
Print Assumptions C01_server_programmed_iff_acked.

(* (4) every operation in the log was submitted, exactly as it stands in the log, by a session that
   was the primary with matching election ids when it sent it (held operations included: they were
   submitted by the primary of their time); operations answered FAILED by the gate or sent by
   non-primaries are not in the log, hence (2) leave no trace in the tables *)
Theorem C01_server_only_primary_in_log nofwd vrfs (h : list sinput) n o :
  In (AckOp n o) (srv_log nofwd vrfs h) -> sent_in (srv_init nofwd vrfs) h n o.
Proof. exact (srv_only_primary_in_log nofwd vrfs h n o). Qed.
Print Assumptions C01_server_only_primary_in_log.
(* per step: a message whose sender does not pass the gate with any of its operations logs nothing *)
Theorem C01_server_step_log_needs_gate (s : srv ribt) c ops :
  step_log s (SIn (Msg hentry c (MOps hentry ops))) <> [] -> exists o', In o' ops /\ passed s c o'.
Proof. exact (srv_step_log_needs_gate s c ops). Qed.
Print Assumptions C01_server_step_log_needs_gate.

(* (5) Get of every table of every instance returns exactly the entries of the abstract state: it
   succeeds, lists each key once, and lists exactly the bindings of the fold of the log *)
Theorem C01_server_get_reads_fold nofwd vrfs (h : list sinput) :
  let sf := final_of nofwd vrfs h in
  exists l, do_get sf (mk_getreq NAll A_ALL) = Some l
            /\ l = spec_entries (abs (srib sf))
            /\ NoDup (map gkey l)
            /\ forall g, In g l <-> spec_binds (fold_left spec_apply (srv_log nofwd vrfs h) (abs (rib0 1 nofwd))) g.
Proof. exact (srv_get_reads_fold nofwd vrfs h). Qed.
Print Assumptions C01_server_get_reads_fold.

(* ---- non-vacuity: two sessions; session 1 announces the lower election id, so its operation is
   answered FAILED; session 2 is the primary: its first operation (1) is held until the group it
   names arrives (3, after next hop 2) and is answered then; three more operations go to VRF 2,
   which is then flushed; the final Get returns the fold of the log ---- *)
Definition c01s_params := {| p_red := 1; p_pers := 1; p_ack := 0 |}.
Definition c01s_hist : list sinput :=
  [ SIn (Connect _ 1); SIn (Msg _ 1 (MParams _ c01s_params)); SIn (Msg _ 1 (MElect _ (0, 1)));
    SIn (Connect _ 2); SIn (Msg _ 2 (MParams _ c01s_params)); SIn (Msg _ 2 (MElect _ (0, 2)));
    SIn (Msg _ 1 (MOps _ [mk_hop 10 1 ADD (Some (0, 1)) (ENh 7 (Some (mk_nh []))) [] []]));
    SIn (Msg _ 2 (MOps _ [mk_hop 1 1 ADD (Some (0, 2)) (ETop T4 10 true (Some (mk_top 1 0 []))) [] [];
                          mk_hop 2 1 ADD (Some (0, 2)) (ENh 1 (Some (mk_nh []))) [] [];
                          mk_hop 3 1 ADD (Some (0, 2)) (EGrp 1 (Some (mk_grp [(1, 1)] 0 []))) [] []]));
    SIn (Msg _ 2 (MOps _ [mk_hop 4 2 ADD (Some (0, 2)) (ENh 1 (Some (mk_nh []))) [] [];
                          mk_hop 5 2 ADD (Some (0, 2)) (EGrp 1 (Some (mk_grp [(1, 1)] 0 []))) [] [];
                          mk_hop 6 2 ADD (Some (0, 2)) (ETop T4 20 true (Some (mk_top 1 0 []))) [] []]));
    SFlush (mk_flushreq (FId (0, 2)) (NName 2));
    SGet (mk_getreq NAll A_ALL) ].
Definition ack_tag (a : ack) : N * N :=
  match a with AckOp n o => (n, op_id o) | AckFlush _ => (0, 1000) | AckNewNI n => (n, 2000) end.

Example C01_server_nonvacuous :
  let outs := fst (strace v_fixed sv_fixed (srv_init false [2]) c01s_hist) in
  let sf := final_of false [2] c01s_hist in
  let fold := fold_left spec_apply (srv_log false [2] c01s_hist) (abs (rib0 1 false)) in
  nth 6 outs OAny = OMod (mkout [RResults [(10, FAILED)]] None)
  /\ nth 7 outs OAny = OMod (mkout [RResults []; RResults [(2, RIB_PROGRAMMED)];
                                    RResults [(3, RIB_PROGRAMMED); (1, RIB_PROGRAMMED)]] None)
  /\ nth 9 outs OAny = OFlush F_OK
  /\ map ack_tag (srv_log false [2] c01s_hist)
     = [(2, 2000); (1, 2); (1, 3); (1, 1); (2, 4); (2, 5); (2, 6); (0, 1000)]
  /\ nth 10 outs OAny = OGet (Some (spec_entries fold))
  /\ spec_entries fold = [GTop 1 T4 10 (mk_top 1 0 []); GGrp 1 1 (mk_grp [(1, 1)] 0 []); GNh 1 1 (mk_nh [])]
  /\ do_get sf (mk_getreq NAll A_ALL) = Some (spec_entries fold).
Proof. vm_compute. repeat split. Qed.
