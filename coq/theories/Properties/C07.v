(* C07 — Get returns exactly the installed entries, payload-faithful, correctly filtered.
   Statements only; proofs in Server/GetFacts.v and Codec/Roundtrip.v.

   Model: Server/Inst.v do_get / get_ni (Server.Get, doGet, RIBHolder.GetRIB) over the RIB model's
   tables; Codec/Fields.v store / load on abstract payloads (list of (field code, value code));
   Codec/Wire.v get_wire = do_get with every returned payload passed through load, and rebuild =
   rib.FromGetResponses.  `reachable s` = s is the state after any history of connects, Modify
   messages, Flush and Get calls on a fresh server (any variant flags, any set of instances). *)
From Coq Require Import List NArith Bool Permutation String.
From GV.Base Require Import Alist U128 Op.
From GV.Rib Require Import Model Lemmas Run.
From GV.Server Require Import Model Obs Inst GetFacts.
From GV.Codec Require Import Fields Wire Roundtrip.
From GV.Generated Require Import CodecTable.
Import ListNotations.
Open Scope N_scope.

(* For every reachable server state and every request (instance selector, table):
   - the RPC fails exactly when the table is unsupported, the instance name is empty or the instance
     is unknown (req_ok);
   - a request that selects no instance is answered with an empty OK stream;
   - otherwise the stream l contains no (instance, kind, key) twice, and an entry is in l exactly if
     its instance is in the request's scope, its table is wanted and the instance's table maps its
     key to its payload (installed): every returned entry is installed with that payload in the
     instance it is tagged with, every installed entry of the scope is returned exactly once;
   - if the scope holds no entry the stream is empty;
   - under the inventory obligation (Codec/Fields.v; true of the regenerated inventory for the
     repaired code: C07_inventory_obligation) the payloads on the wire are the stored payloads,
     field for field, for entries built from builder fields. *)
Theorem C07_get_exact (s : srv ribt) (q : getreq) : reachable s ->
  (do_get s q = None <-> ~ req_ok s q)
  /\ (g_ni q = NNone -> g_aft q <> A_OTHER -> do_get s q = Some [])
  /\ forall l, do_get s q = Some l ->
       NoDup (map gkey l) /\ (forall g, In g l <-> installed s q g)
       /\ ((forall g, ~ installed s q g) -> l = [])
       /\ forall tbl cv, inventory_obligation tbl cv = true -> Forall builder_gentry l -> get_wire tbl cv s q = Some l.
Proof. exact (get_exact_reachable s q). Qed.
Print Assumptions C07_get_exact.

(* Get(ALL) is a permutation of the concatenation of the five per-table Gets of the same instance
   selector, and entries of two different tables never share their (instance, kind, key) *)
Theorem C07_all_is_disjoint_union (s : srv ribt) (q : getreq) l : g_aft q = A_ALL -> do_get s q = Some l ->
  exists l4 l6 lm lg lh,
    do_get s (with_aft q A_IPV4) = Some l4 /\ do_get s (with_aft q A_IPV6) = Some l6 /\
    do_get s (with_aft q A_MPLS) = Some lm /\ do_get s (with_aft q A_NHG) = Some lg /\
    do_get s (with_aft q A_NH) = Some lh /\ Permutation l (l4 ++ l6 ++ lm ++ lg ++ lh)
    /\ forall a b la lb x y, In a five -> In b five -> a <> b ->
         do_get s (with_aft q a) = Some la -> do_get s (with_aft q b) = Some lb -> In x la -> In y lb -> gkey x <> gkey y.
Proof. exact (all_is_disjoint_union s q l). Qed.
Print Assumptions C07_all_is_disjoint_union.

(* The codec round trip.  The quantification over payloads is reduced to a FINITE boolean obligation
   over the field inventory: inventory_obligation tbl cv checks, for each of the 39 rows of the
   builder inventory (Codec/Fields.v builder_fields: every field a fluent With* / Add* method sets),
   that the inventory tbl (= resolve codec_table: the builder rows looked up by schema path in the
   table regenerated from the protobuf definition) lists it with a wrapper kind that store
   (PathsFromProto + SetNode) accepts and that load (TogNMINotifications + ProtoFromPaths, or an
   explicit copy in ConcreteXXXProto) rebuilds.  If it holds, every payload made of builder fields -
   any number of them, any values, any list-element keys - is stored whole and loaded back whole. *)
Theorem C07_roundtrip (tbl : list (N * wkind)) (cv : cvariant) (p : list (N * N)) :
  inventory_obligation tbl cv = true -> uses_only_builder p ->
  option_map (load tbl cv) (store tbl p) = Some p.
Proof. exact (roundtrip tbl cv p). Qed.
Print Assumptions C07_roundtrip.

(* the obligation holds of the inventory regenerated from the protobuf definition, for the repaired
   code (ConcreteNextHopProto copies pop-top-label explicitly) *)
Theorem C07_inventory_obligation : inventory_obligation (resolve codec_table) cv_fixed = true.
Proof. exact obligation_fixed. Qed.
Print Assumptions C07_inventory_obligation.

(* the code as it is, on either tree: the obligation holds of the regenerated inventory exactly when
   rib/rib.go's ConcreteNextHopProto assigns PopTopLabel by hand (explicit_copies_src is regenerated
   from the Go source on every run) *)
Theorem C07_obligation_iff_source_copy :
  inventory_obligation (resolve codec_table) cv_src = true <-> In pop_top_copy explicit_copies_src.
Proof. exact obligation_src_iff. Qed.
Print Assumptions C07_obligation_iff_source_copy.

Theorem C07_roundtrip_fixed (p : list (N * N)) :
  uses_only_builder p -> option_map (load (resolve codec_table) cv_fixed) (store (resolve codec_table) p) = Some p.
Proof. exact (roundtrip_fixed p). Qed.
Print Assumptions C07_roundtrip_fixed.

(* over the WHOLE regenerated inventory (builder-reachable or not) pop-top-label is the only leaf
   whose wrapper kind Get drops, and no leaf has a kind on which ProtoFromPaths fails *)
Theorem C07_inventory_census :
  dropped_rows codec_table = [("/afts/next-hops/next-hop/state/pop-top-label"%string, KBool)]
  /\ failing_rows codec_table = [].
Proof. exact (conj dropped_rows_all failing_rows_none). Qed.
Print Assumptions C07_inventory_census.

(* Rebuilding a RIB from the responses of Get(all, ALL) (rib.FromGetResponses) reproduces the
   source: for every instance name the rebuilt tables and the source's tables are the same finite
   maps (an instance without entries is the empty instance on both sides), and under the inventory
   obligation the responses on the wire are the stored entries *)
Theorem C07_rebuild (s : srv ribt) (d : N) : reachable s ->
  exists l, do_get s (mk_getreq NAll A_ALL) = Some l
            /\ (forall n, tables_eq (rget (rebuild d l) n) (Lemmas.sget (srib s) n))
            /\ forall tbl cv, inventory_obligation tbl cv = true -> Forall builder_gentry l ->
                 get_wire tbl cv s (mk_getreq NAll A_ALL) = Some l.
Proof. exact (rebuild_reachable s d). Qed.
Print Assumptions C07_rebuild.

(* ---- the pinned tree (F11): pop-top-label (BoolValue) is stored but never returned ---- *)
Theorem C07_inventory_obligation_tree_refuted : inventory_obligation (resolve codec_table) cv_tree = false /\ lost_fields (resolve codec_table) cv_tree = [27].
Proof. exact (conj obligation_tree_false lost_fields_tree). Qed.
Print Assumptions C07_inventory_obligation_tree_refuted.

Theorem C07_roundtrip_refuted :
  exists p, uses_only_builder p /\ option_map (load (resolve codec_table) cv_tree) (store (resolve codec_table) p) <> Some p.
Proof. exact roundtrip_tree_refuted. Qed.
Print Assumptions C07_roundtrip_refuted.

(* a next hop programmed through Modify with pop-top-label = true: Get(DEFAULT, NEXTHOP) on the
   pinned tree does not return the stored payload *)
Theorem C07_get_payload_refuted :
  exists (s : srv ribt) q l, reachable s /\ do_get s q = Some l /\ Forall builder_gentry l
                             /\ get_wire (resolve codec_table) cv_tree s q <> Some l.
Proof. exact get_payload_tree_refuted. Qed.
Print Assumptions C07_get_payload_refuted.

(* what does hold on the pinned tree: every builder field except pop-top-label round-trips *)
Theorem C07_roundtrip_partial (p : list (N * N)) :
  uses_only_builder p -> Forall (fun fv => fid (fst fv) <> 27) p ->
  option_map (load (resolve codec_table) cv_tree) (store (resolve codec_table) p) = Some p.
Proof. exact (roundtrip_tree_partial p). Qed.
Print Assumptions C07_roundtrip_partial.

(* non-vacuity: a next hop with an address, an encapsulation header of two labels and pop-top-label,
   a group and a prefix in another instance resolved across instances; Get by table, by instance,
   and the rebuilt RIB *)
Definition ex_hist : list sinput :=
  [SIn (Connect _ 1); SIn (Msg _ 1 (MParams _ {| p_red := 1; p_pers := 1; p_ack := 0 |}));
   SIn (Msg _ 1 (MElect _ (0, 1)));
   SIn (Msg _ 1 (MOps _ [mk_hop 1 1 ADD (Some (0, 1)) (ENh 1 (Some (mk_nh [(20, 7); (27, 1); (131, 1); (132, 2); (133, 99)]))) [] [1];
                         mk_hop 2 1 ADD (Some (0, 1)) (EGrp 1 (Some (mk_grp [(1, 3)] 0 []))) [] [2];
                         mk_hop 3 2 ADD (Some (0, 1)) (ETop T4 1 true (Some (mk_top 1 1 [(3, 5)]))) [] [3]]))].
Definition ex_state : srv ribt := snd (strace v_fixed sv_fixed (srv_init false [2]) ex_hist).
Example C07_example :
  get_wire (resolve codec_table) cv_fixed ex_state (mk_getreq (NName 2) A_ALL) = Some [GTop 2 T4 1 (mk_top 1 1 [(3, 5)])]
  /\ get_wire (resolve codec_table) cv_fixed ex_state (mk_getreq NAll A_NH)
     = Some [GNh 1 1 (mk_nh [(20, 7); (27, 1); (131, 1); (132, 2); (133, 99)])]
  /\ get_wire (resolve codec_table) cv_tree ex_state (mk_getreq NAll A_NH)
     = Some [GNh 1 1 (mk_nh [(20, 7); (131, 1); (132, 2); (133, 99)])]
  /\ get_wire (resolve codec_table) cv_fixed ex_state (mk_getreq (NName 3) A_ALL) = None
  /\ get_wire (resolve codec_table) cv_fixed ex_state (mk_getreq (NName 0) A_ALL) = None
  /\ get_wire (resolve codec_table) cv_fixed ex_state (mk_getreq NAll A_OTHER) = None
  /\ get_wire (resolve codec_table) cv_fixed ex_state (mk_getreq NNone A_ALL) = Some []
  /\ option_map (fun l => map (fun n => List.length (get_ni A_ALL n (rget (rebuild 1 l) n))) [1; 2; 3])
                (do_get ex_state (mk_getreq NAll A_ALL)) = Some [2%nat; 1%nat; 0%nat].
Proof. vm_compute. repeat split. Qed.
