(* C04 — Only the elected primary's correctly stamped operations change the RIB.
   Statements only; proofs in Server/Facts.v, Server/DecisionsFacts.v, Server/ElectionInv.v. *)
From Coq Require Import List String NArith Bool.
From GV.Base Require Import Alist U128 Op GoLite.
From GV.Server Require Import Model Facts DecisionsFacts.
From GV.Generated Require Import Decisions.
Import ListNotations.
Open Scope N_scope.

(* checkElectionForModify as it is in /repo/server/server.go on this run (regenerated), for
   every input: never panics and computes the gate of the model *)
Theorem C04_regenerated_checkElectionForModify opid oe master cu client last :
  exec (cefm_env opid oe master cu client last) checkElectionForModify_body
  = Ret (encode_gate (gate_s oe master cu client last)).
Proof. exact (gen_checkElectionForModify_agrees opid oe master cu client last). Qed.
Print Assumptions C04_regenerated_checkElectionForModify.

Theorem C04_gate_s_is_model_gate (name : N -> string) oe (mst : option N) cu me last :
  (forall a b, name a = name b -> a = b) -> (forall a, name a <> ""%string) ->
  gate_s oe (match mst with Some m => name m | None => ""%string end) cu (name me) last
  = check_election oe mst cu me last.
Proof. exact (gate_s_is_check_election name oe mst cu me last). Qed.
Print Assumptions C04_gate_s_is_model_gate.

(* an operation passes the gate iff its sender is the primary and its stamp equals both the id the
   sender last announced and the highest id the server has learnt (128-bit equality) *)
Theorem C04_gate_ok_iff oe mst cu me last :
  check_election oe mst cu me last = GateOK
  <-> exists e, oe = Some e /\ mst = Some me /\ last = Some e /\ cu = Some e.
Proof. exact (gate_ok_iff oe mst cu me last). Qed.
Print Assumptions C04_gate_ok_iff.

(* for every RIB, every reachable or unreachable server state, every session and request: if the
   request changes the RIB (tables, held operations or counters) at all, then one of its
   operations passed the gate evaluated on the state before the request *)
Theorem C04_change_needs_gate (E R : Type) has_ni add del (s : srv R) c ops :
  rib (fst (step E R has_ni add del sv_fixed s (Msg E c (MOps E ops)))) <> rib s ->
  exists x o e, sget R c s = Some x /\ In o ops /\ op_elec o = Some e
                /\ master s = Some c /\ s_last x = Some e /\ cur s = Some e.
Proof. exact (ops_change_needs_gate E R has_ni add del s c ops). Qed.
Print Assumptions C04_change_needs_gate.

(* every other operation is answered FAILED or ends the RPC, and leaves the RIB untouched *)
Theorem C04_rejected_untouched (E R : Type) add del fib g (o : op E) (r : R) : g <> GateOK ->
  fst (fst (modify_entry E R add del fib g o r)) = r
  /\ ((exists c rs, g = GateFatal c rs /\ modify_entry E R add del fib g o r = (r, [], Some (c, rs)))
      \/ (g = GateFailed /\ modify_entry E R add del fib g o r = (r, [RResults [(op_id o, FAILED)]], None))).
Proof. exact (modify_entry_not_ok E R add del fib g o r). Qed.
Print Assumptions C04_rejected_untouched.

(* nothing but an operations request touches the RIB; nothing but an announcement touches the
   election state; no input touches another session's record *)
Theorem C04_frame (E R : Type) has_ni add del (s : srv R) i :
  let s' := fst (step E R has_ni add del sv_fixed s i) in
  (match i with Msg _ _ (MOps _ _) => True | _ => rib s' = rib s end)
  /\ (match i with Msg _ _ (MElect _ _) => True | _ => cur s' = cur s /\ master s' = master s end)
  /\ (match i with
      | Connect _ c | HalfClose _ c | Abort _ c | Msg _ c _ => others_same R c s s'
      end).
Proof. exact (step_frame E R has_ni add del s i). Qed.
Print Assumptions C04_frame.

(* non-vacuity: two sessions whose ids differ only in the high word; only the higher one programs *)
Example C04_example :
  let add := fun (r : list N) (_ : N) (o : op unit) => (op_id o :: r, ([op_id o], @nil N, false)) in
  let st := step unit (list N) (fun _ n => n =? 1) add add sv_fixed in
  let h := [Connect unit 1; Msg unit 1 (MParams unit {| p_red := 1; p_pers := 1; p_ack := 0 |}); Msg unit 1 (MElect unit (1, 5));
            Connect unit 2; Msg unit 2 (MParams unit {| p_red := 1; p_pers := 1; p_ack := 0 |}); Msg unit 2 (MElect unit (2, 1));
            Msg unit 1 (MOps unit [{| op_id := 7; op_ni := 1; op_kind := ADD; op_elec := Some (1, 5); op_entry := tt |}]);
            Msg unit 2 (MOps unit [{| op_id := 8; op_ni := 1; op_kind := ADD; op_elec := Some (2, 1); op_entry := tt |}])] in
  rib (fold_left (fun s i => fst (st s i)) h (srv0 (list N) [])) = [8].
Proof. vm_compute. reflexivity. Qed.
