(* C08 — Flush empties exactly the requested instances, reports OK, is election-gated.
   Statements only; proofs in Rib/FlushFacts.v, Server/FlushRpc.v, Server/DecisionsFacts.v. *)
From Coq Require Import List String NArith Bool.
From GV.Base Require Import Alist U128 U128Facts Op GoLite.
From GV.Rib Require Import Model Lemmas RefDefs RefCount FlushFacts Run.
From GV.Server Require Import Model Inst DecisionsFacts FlushRpc.
From GV.Generated Require Import Decisions.
Import ListNotations.
Open Scope N_scope.

(* checkFlushRequest as it is in /repo/server/server.go on this run (regenerated): for every election
   state and request it never panics and returns the status of the model's decision table *)
Theorem C08_regenerated_checkFlushRequest cu q :
  exec (cfr_env cu q) checkFlushRequest_body = Ret (encode_fstatus (check_flush cu q)).
Proof. exact (gen_checkFlushRequest_agrees cu q). Qed.
Print Assumptions C08_regenerated_checkFlushRequest.

(* the table: no instance / override / missing or unexpected election field / zero id / id lower than
   the highest learnt id (as 128-bit values) *)
Theorem C08_decision_table (c id : u128) (n : N) : inrange c -> inrange id ->
  check_flush None {| f_elec := FNone; f_ni := NAll |} = F_OK
  /\ check_flush (Some c) {| f_elec := FNone; f_ni := NAll |} = F_UNSPECIFIED_ELECTION_BEHAVIOR
  /\ check_flush None {| f_elec := FId id; f_ni := NAll |} = F_ELECTION_ID_IN_ALL_PRIMARY
  /\ check_flush (Some c) {| f_elec := FOverride; f_ni := NName n |} = F_OK
  /\ check_flush (Some c) {| f_elec := FId id; f_ni := NNone |} = F_UNSPECIFIED_NETWORK_INSTANCE
  /\ check_flush (Some c) {| f_elec := FId id; f_ni := NName n |}
     = (if val id =? 0 then F_INVALID_ELECTION_ID else if val id <? val c then F_NOT_PRIMARY else F_OK).
Proof. intros Hc Hi. repeat split; try reflexivity. apply check_flush_id; assumption. Qed.
Print Assumptions C08_decision_table.

(* rejected => nothing changes; accepted => Rib.flush on exactly the selected instances *)
Theorem C08_rpc (s : srv ribt) q :
  let res := do_flush v_fixed s q in
  match check_flush (cur s) q with
  | F_OK =>
    match f_ni q with
    | NName n =>
      if has_ni (srib s) n
      then fst res = set_rib ribt (fst (fst (flush v_fixed [n] (srib s)))) s
      else res = (s, F_INVALID_NETWORK_INSTANCE)
    | NAll => fst res = set_rib ribt (fst (fst (flush v_fixed (map fst (nis (srib s))) (srib s)))) s
    | NNone => False
    end
  | st => res = (s, st)
  end.
Proof. exact (do_flush_spec s q). Qed.
Print Assumptions C08_rpc.

(* an authorised Flush, on any state satisfying the reachable-state invariant (whatever the contents:
   shared, missing or cyclic backup groups, cross-instance references): answers OK, empties exactly
   the selected instances, leaves the others' entries, the held operations and the election state
   alone, and the counter invariant still holds (so deletion protection agrees with what remains) *)
Theorem C08_effect (s : srv ribt) q : INV (srib s) ->
  check_flush (cur s) q = F_OK ->
  (match f_ni q with NName n => has_ni (srib s) n = true | _ => True end) ->
  let res := do_flush v_fixed s q in
  let selected m := match f_ni q with NName n => m =? n | NAll => has_ni (srib s) m | NNone => false end in
  snd res = F_OK
  /\ INV (srib (fst res))
  /\ cur (fst res) = cur s /\ master (fst res) = master s /\ ss (fst res) = ss s
  /\ pend (srib (fst res)) = pend (srib s)
  /\ (forall m, has_ni (srib (fst res)) m = has_ni (srib s) m)
  /\ (forall m, tabs_of (Lemmas.sget (srib (fst res)) m) = if selected m then tabs_empty else tabs_of (Lemmas.sget (srib s) m)).
Proof. exact (authorised_flush_effect s q). Qed.
Print Assumptions C08_effect.

(* RIB level, any list of instances (partial or full) *)
Theorem C08_rib_flush l r : INV r ->
  let res := flush v_fixed l r in
  snd res = false /\ INV (fst (fst res)) /\ (forall m, has_ni (fst (fst res)) m = has_ni r m)
  /\ pend (fst (fst res)) = pend r
  /\ (forall m, tabs_of (Lemmas.sget (fst (fst res)) m) = if inlN m l then tabs_empty else tabs_of (Lemmas.sget r m)).
Proof. exact (flush_effect l r). Qed.
Print Assumptions C08_rib_flush.

(* the pinned tree: two groups sharing backup group 3 (installed) => everything removed but an error *)
Definition f7_history : list rinput :=
  [IAdd 1 (mk_op 1 1 ADD None (ENh 1 (Some (mk_nh [])))) [] [1];
   IAdd 1 (mk_op 2 1 ADD None (EGrp 3 (Some (mk_grp [(1, 1)] 0 [])))) [] [2];
   IAdd 1 (mk_op 3 1 ADD None (EGrp 1 (Some (mk_grp [(1, 1)] 3 [])))) [] [3];
   IAdd 1 (mk_op 4 1 ADD None (EGrp 2 (Some (mk_grp [(1, 1)] 3 [])))) [] [4]].
Theorem C08_tree_refuted :
  let r := snd (rtrace v_tree (rib0 1 false) f7_history) in
  snd (flush v_tree [1] r) = true /\ tabs_of (Lemmas.sget (fst (fst (flush v_tree [1] r))) 1) = tabs_empty.
Proof. vm_compute. split; reflexivity. Qed.
Print Assumptions C08_tree_refuted.

Example C08_example :
  let r := snd (rtrace v_fixed (rib0 1 false) f7_history) in
  snd (flush v_fixed [1] r) = false /\ tabs_of (Lemmas.sget (fst (fst (flush v_fixed [1] r))) 1) = tabs_empty
  /\ tabs_of (Lemmas.sget r 1) <> tabs_empty.
Proof. vm_compute. repeat split; discriminate. Qed.
