(* C13 — Client accounting: ops are queued, pending or resulted; converged = answered.
   Statements only; the model is Client/Queues.v, the proofs are in Client/QueuesFacts.v.
   All statements are about every sequence of events
     Q m | StartSending | StopSending | Resp r | RecvErr | SendErr | Eof | Await
   (application calls and arbitrary server behaviour: any order across ids, any batching of results
   into responses, interleaved election / session-parameter responses, unknown ids, duplicate
   results, stream failures) in which the queued operation ids are pairwise distinct, for every
   client configuration c (RIB-ack / FIB-ack mode, with or without parameters and election id).
   "terminal for c": FAILED, FIB_PROGRAMMED, FIB_FAILED, and RIB_PROGRAMMED iff c is in RIB-ack mode
   (removes c). *)
From Coq Require Import List NArith Bool.
From GV.Base Require Import Alist.
From GV.Client Require Import Queues QueuesFacts QueuesGone.
From GV.Client Require Drain DrainFacts.
Import ListNotations.
Open Scope N_scope.

(* never lost, never completed twice: at all times every queued operation is pending with no
   terminal result, or not pending with exactly one; nothing else is pending or completed *)
Theorem C13_conservation c evs : NoDup (queued_ids evs) ->
  let s := run c init evs in
  forall id,
    (In id (queued_ids evs) ->
       (pget id (pend s) <> None /\ count_terminal c id (results s) = 0%nat) \/
       (pget id (pend s) = None /\ count_terminal c id (results s) = 1%nat))
    /\ (~ In id (queued_ids evs) -> pget id (pend s) = None /\ count_terminal c id (results s) = 0%nat).
Proof. exact (conservation c evs). Qed.
Print Assumptions C13_conservation.

(* every (non-nil) result about an operation carries the type and key of THE operation queued with
   that id; the only results without details are late RIB acknowledgements in FIB-ack mode, which
   are not terminal; pending entries are the queued operations *)
Theorem C13_result_matches_op c evs : NoDup (queued_ids evs) ->
  let s := run c init evs in
  (forall id x d, In (ROp id x d) (proj_results (results s)) ->
     match d with
     | Some dd => exists o, In o (queued_ops evs) /\ o_id o = id /\ dd = details_of o
     | None => x = SRib /\ fib_ack c = true /\ removes c x = false
     end)
  /\ (forall id o, pget id (pend s) = Some o -> In o (queued_ops evs) /\ o_id o = id)
  /\ (forall o o', In o (queued_ops evs) -> In o' (queued_ops evs) -> o_id o = o_id o' -> o = o').
Proof. exact (result_matches_op c evs). Qed.
Print Assumptions C13_result_matches_op.

(* AwaitConverged: success exactly when nothing is queued or pending (election and parameters
   included) and no error is recorded; the recorded errors otherwise *)
Theorem C13_await_sound s :
  (await s = AwOk <->
     sendq s = [] /\ pend s = [] /\ pend_elec s = false /\ pend_params s = false /\ send_errs s = 0 /\ read_errs s = 0)
  /\ (forall a b, await s = AwErr a b <-> a = send_errs s /\ b = read_errs s /\ (a <> 0 \/ b <> 0))
  /\ (await s = AwPending <-> send_errs s = 0 /\ read_errs s = 0 /\
        ~ (sendq s = [] /\ pend s = [] /\ pend_elec s = false /\ pend_params s = false)).
Proof. exact (await_sound s). Qed.
Print Assumptions C13_await_sound.

(* converged = answered *)
Theorem C13_converged_is_answered c evs : NoDup (queued_ids evs) ->
  let s := run c init evs in
  await s = AwOk ->
  forall id, In id (queued_ids evs) -> pget id (pend s) = None /\ count_terminal c id (results s) = 1%nat.
Proof. exact (converged_is_answered c evs). Qed.
Print Assumptions C13_converged_is_answered.

(* in FIB-ack mode a response that carries only RIB acknowledgements completes nothing *)
Theorem C13_rib_ack_not_terminal_in_fib_mode c s r :
  fib_ack c = true -> (forall x, In x (r_results r) -> snd x = SRib) ->
  pend (step c s (Resp r)) = pend s
  /\ (pend s <> [] -> await (step c s (Resp r)) <> AwOk).
Proof. exact (rib_ack_not_terminal_in_fib_mode c s r). Qed.
Print Assumptions C13_rib_ack_not_terminal_in_fib_mode.

(* protocol-violating servers (repaired client): a response containing a result for an operation
   that is not pending - other than the late RIB acknowledgement of an operation completed before -
   leaves a receive error on record for ever after, and AwaitConverged reports it *)
Theorem C13_violations_surface c evs r x evs' :
  v_strict_unknown (c_var c) = true ->
  In x (r_results r) -> violating c (run c init evs) x ->
  let s' := run c init (evs ++ Resp r :: evs') in
  1 <= read_errs s' /\ await s' <> AwOk /\ (exists a b, await s' = AwErr a b /\ 1 <= b).
Proof. exact (violations_surface c evs r x evs'). Qed.
Print Assumptions C13_violations_surface.

(* ... which covers ids that were never queued, with any status, ... *)
Theorem C13_unknown_id_is_violating c evs id x : NoDup (queued_ids evs) ->
  ~ In id (queued_ids evs) -> violating c (run c init evs) (id, x).
Proof. exact (unknown_id_is_violating c evs id x). Qed.
Print Assumptions C13_unknown_id_is_violating.

(* ... and a further terminal result for an operation that has one *)
Theorem C13_duplicate_terminal_is_violating c evs id x : NoDup (queued_ids evs) ->
  removes c x = true -> count_terminal c id (results (run c init evs)) = 1%nat ->
  violating c (run c init evs) (id, x).
Proof. exact (duplicate_terminal_is_violating c evs id x). Qed.
Print Assumptions C13_duplicate_terminal_is_violating.

(* ---- without any assumption on the ids: the same id twice inside one request, ids of pending or of
   completed operations in later requests ---- *)

(* never silently gone: an operation of a message that Q accepted is at all times pending as itself (the
   pending queue holds THAT operation under its id) or resulted (a result for its id with its type and key) *)
Theorem C13_never_silently_gone c evs o : In o (accepted_ops c init evs) -> accounted (run c init evs) o.
Proof. exact (never_silently_gone c evs o). Qed.
Print Assumptions C13_never_silently_gone.

(* a message is rejected when it carries the same id twice, or the id of a pending operation ... *)
Theorem C13_same_id_twice_is_rejected s m o1 o2 l1 l2 l3 :
  m_ops m = l1 ++ o1 :: l2 ++ o2 :: l3 -> o_id o1 = o_id o2 -> rejected s m = true.
Proof. exact (rejected_twice s m o1 o2 l1 l2 l3). Qed.
Print Assumptions C13_same_id_twice_is_rejected.

Theorem C13_pending_id_is_rejected s m o : In o (m_ops m) -> pget (o_id o) (pend s) <> None -> rejected s m = true.
Proof. exact (rejected_pending s m o). Qed.
Print Assumptions C13_pending_id_is_rejected.

(* ... and a rejected message leaves a send error on record for ever after: AwaitConverged never reports
   success again *)
Theorem C13_rejected_request_surfaces c evs m evs' : rejected (run c init evs) m = true ->
  let s' := run c init (evs ++ Q m :: evs') in
  1 <= send_errs s' /\ await s' <> AwOk.
Proof. exact (rejected_surfaces c evs m evs'). Qed.
Print Assumptions C13_rejected_request_surfaces.

(* the tree as it is: in FIB-ack mode a RIB_PROGRAMMED for an id that was never queued is
   accepted silently (gribiclient.go:1069-1080) and AwaitConverged reports success *)
Theorem C13_unknown_rib_ack_refuted :
  exists c evs id, c_var c = v_tree /\ NoDup (queued_ids evs) /\ ~ In id (queued_ids evs) /\
    let s' := run c init (evs ++ [Resp (mkrsp [(id, SRib)] false false)]) in
    read_errs s' = 0 /\ await s' = AwOk.
Proof. exact unknown_rib_ack_tolerated_tree. Qed.
Print Assumptions C13_unknown_rib_ack_refuted.

(* non-vacuity: FIB-ack client, two requests, results batched and out of order, RIB before FIB *)
Example C13_example :
  let c := mkcfg true true false v_fixed in
  let evs := [Q (mkmsg [mkop 1 1 1 4; mkop 2 3 5 7] false false); StartSending; Q (mkmsg [mkop 3 2 4 9] false false);
              Resp (mkrsp [] false true);
              Resp (mkrsp [(2, SRib); (1, SRib)] false false);
              Resp (mkrsp [(3, SFailed); (1, SFib)] false false);
              Resp (mkrsp [(2, SFibFailed)] false false)] in
  let s := run c init evs in
  await s = AwOk
  /\ proj_results (results s) =
       [RParams false; ROp 2 SRib (Some (2, 5, 7)); ROp 1 SRib (Some (1, 1, 4)); ROp 3 SFailed (Some (3, 4, 9));
        ROp 1 SFib (Some (1, 1, 4)); ROp 2 SFibFailed (Some (2, 5, 7))]
  /\ await (run c init (evs ++ [Resp (mkrsp [(2, SFib)] false false)])) = AwErr 0 1.
Proof. vm_compute. repeat split; reflexivity. Qed.

(* THE SEND PATH UNDER EVERY INTERLEAVING (Client/Drain.v: Q, StartSending, StopSending called from any number of
   goroutines, and the sender; one label per atomic action, every list of labels is a schedule; any capacity of
   the modify channel).  The statements above take one event at a time; these say that between "Q took the
   request" and "the stream got it" nothing is lost or sent twice, whatever overlaps with whatever - in
   particular StopSending and further Q calls while a StartSending is still handing over the queue. *)
Theorem C13_send_path_conservation cap ls :
  Permutation.Permutation (Drain.places (Drain.run cap Drain.init ls)) (Drain.issued ls).
Proof. exact (DrainFacts.conservation cap ls). Qed.
Print Assumptions C13_send_path_conservation.

Theorem C13_send_path_never_lost cap ls id :
  In id (Drain.issued ls) -> In id (Drain.places (Drain.run cap Drain.init ls)).
Proof. exact (DrainFacts.never_lost cap ls id). Qed.
Print Assumptions C13_send_path_never_lost.

Theorem C13_send_path_at_most_once cap ls : NoDup (Drain.issued ls) ->
  let s := Drain.run cap Drain.init ls in
  NoDup (Drain.handed s) /\
  forall id, In id (Drain.handed s) ->
    ~ In id (Drain.appenders s) /\ ~ In id (Drain.sendq s) /\ ~ In id (concat (Drain.drains s))
    /\ ~ In id (Drain.pushers s) /\ ~ In id (Drain.chan s).
Proof. exact (DrainFacts.handed_once cap ls). Qed.
Print Assumptions C13_send_path_at_most_once.

(* nothing in flight: every request has reached the stream or waits in the send queue for StartSending *)
Theorem C13_send_path_idle cap ls : let s := Drain.run cap Drain.init ls in
  Drain.idle s -> Permutation.Permutation (Drain.sendq s ++ Drain.handed s) (Drain.issued ls).
Proof. exact (DrainFacts.idle_all_handed cap ls). Qed.
Print Assumptions C13_send_path_idle.

(* and "in flight" ends: while the stream takes messages some action is possible, every action uses up the
   measure, and a run that cannot be extended has nothing in flight - StartSending and Q return under every schedule *)
Theorem C13_send_path_progress cap s : (0 < cap)%nat -> ~ Drain.idle s ->
  exists l, Drain.internal l = true /\ Drain.step cap s l <> None.
Proof. exact (DrainFacts.progress cap s). Qed.
Print Assumptions C13_send_path_progress.

Theorem C13_send_path_terminates cap s ls : DrainFacts.all_enabled cap s ls -> (length ls <= Drain.measure s)%nat.
Proof. exact (DrainFacts.in_flight_terminates cap s ls). Qed.
Print Assumptions C13_send_path_terminates.

Theorem C13_send_path_maximal_run_idle cap s ls : (0 < cap)%nat -> DrainFacts.all_enabled cap s ls ->
  (forall l, Drain.internal l = true -> Drain.step cap (Drain.run cap s ls) l = None) -> Drain.idle (Drain.run cap s ls).
Proof. exact (DrainFacts.maximal_run_idle cap s ls). Qed.
Print Assumptions C13_send_path_maximal_run_idle.

(* non-vacuity: the harness scenario (9 requests, StartSending against a stuck stream, StopSending, 4 more, the
   stream freed, StartSending again, 2 direct; session parameters first each time): the first StartSending has to
   wait, and the stream gets everything once, in order *)
Example C13_example_drain :
  Drain.scenario 5 9 4 2 true = (true, [0;1;2;3;4;5;6;7;8;9;0;10;11;12;13;14;15]).
Proof. vm_compute. reflexivity. Qed.

(* non-vacuity: a request with the same id twice: the first operation is registered, the second is not, the send
   error is on record; the answer for the id completes the FIRST operation; AwaitConverged reports the error *)
Example C13_example_same_id_twice :
  let c := mkcfg false false false v_fixed in
  let m := mkmsg [mkop 5 1 1 4; mkop 5 3 5 7; mkop 6 1 1 2] false false in
  let evs := [StartSending; Q m; Resp (mkrsp [(5, SRib)] false false)] in
  let s := run c init evs in
  rejected (run c init [StartSending]) m = true
  /\ results s = [ROp 5 SRib (Some (1, 1, 4))] /\ pend s = [] /\ send_errs s = 1 /\ await s = AwErr 1 0.
Proof. vm_compute. repeat split; reflexivity. Qed.
