(* C14 — The client terminates cleanly under server faults.  Statements only; the LTS model of the
   goroutine protocol is Client/Lifecycle.v, the proofs are in Client/LifecycleFacts.v.

   Everything below is for all burst sizes n_q, all fault sides and message indices f_k (including
   "no fault" and FEnd = the server ends the RPC cleanly, status OK, after f_k responses whatever is
   still unanswered), both closer modes (Close | Reset;Connect), all AwaitConverged budgets and ALL
   schedules (reach = every interleaving of the threads App, Sender, Receiver, Waiter, Closer).
   The positive theorems are about the repaired protocol lv_fixed
     (q() does not hold awaiting.RLock while it pushes into modifyCh and selects on sendExitCh);
   the _refuted theorems are about the protocol as it is in the tree, and about the patch
   "select on sendExitCh" alone.
   PARTIAL: the Go scheduler, gRPC and the mapping of goroutines to model threads are outside Coq
   (tied by the fault-injection harness vh-c14 on every run). *)
From Coq Require Import List Arith Bool.
From GV.Client Require Import Lifecycle LifecycleFacts LifecycleEnd.
Import ListNotations.

(* no reachable state has all unfinished threads blocked *)
Theorem C14_no_deadlock c s : l_var c = lv_fixed -> reach c s -> deadlocked c s = false.
Proof. exact (no_deadlock c s). Qed.
Print Assumptions C14_no_deadlock.

(* every run is finite (for every variant): at most measure(init) steps, whatever the schedule ... *)
Theorem C14_all_runs_terminate c k s' : steps c (init c) k s' -> k <= measure c (init c).
Proof. exact (all_runs_bounded c k s'). Qed.
Print Assumptions C14_all_runs_terminate.

(* ... and from every reachable state the run can be completed to a final state *)
Theorem C14_run_extends_to_final c s : l_var c = lv_fixed -> reach c s ->
  exists k s', steps c s k s' /\ final s' = true.
Proof. exact (run_extends_to_final c s). Qed.
Print Assumptions C14_run_extends_to_final.

(* C14_q_returns, C14_await_returns, C14_close_reset_return, C14_no_goroutine_left,
   C14_done_signalled, C14_reset_fresh: a state in which nothing can step any more is one in which
   the burst of Q calls and AwaitConverged have returned (with a result), Close / Reset+Connect has
   returned, and after Close the sender and the receiver goroutines have returned, Done() is
   signalled and nobody holds the lock; after Reset+Connect the client equals a fresh one *)
Theorem C14_terminal_is_clean c s : l_var c = lv_fixed -> reach c s ->
  (forall t, step c s t = None) ->
  final s = true /\ a_pc s = AFin /\ w_pc s = WFin /\ w_res s <> None
  /\ (c_mode c = MClose -> s_pc s = SFin /\ r_pc s = RFin /\ done s = true /\ readers s = 0)
  /\ (c_mode c = MReset -> fresh s = true).
Proof. exact (terminal_is_clean c s). Qed.
Print Assumptions C14_terminal_is_clean.

(* AwaitConverged never reports convergence falsely: it decides "converged" only with no error on
   record and every queued request answered; with an error on record it returns the error; its
   context expiring is the only other way out *)
Theorem C14_await_decision c s s' : step c s TWaiter = Some s' -> w_res s = None ->
  match w_res s' with
  | Some WOk => serr s = false /\ rerr s = false /\ queued s = answered s /\ w_pc s = W3
  | Some WErr => (serr s = true \/ rerr s = true) /\ w_pc s = W3
  | Some WTimeout => w_pc s = W0 /\ w_b s = 0
  | None => True
  end.
Proof. exact (await_decision c s s'). Qed.
Print Assumptions C14_await_decision.

Theorem C14_await_returns_error c s : w_pc s = W3 -> serr s || rerr s = true -> w_res s = None ->
  exists s', step c s TWaiter = Some s' /\ w_res s' = Some WErr.
Proof. exact (await_error_when_recorded c s). Qed.
Print Assumptions C14_await_returns_error.

(* ---- the end of the stream as the sender sees it (any variant, any side, FEnd included) ---- *)

(* whatever makes a Send fail - an injected status, a stream broken by the receive side, or an RPC the
   server has ended, cleanly or not (Send then returns io.EOF) - the sender's next two steps, which
   cannot block, put the send error on record (from where C14_await_returns_error surfaces it) *)
Theorem C14_send_failure_recorded c s : reconn s = false -> s_pc s = S3 -> send_fails c s = true ->
  exists s1 s2, step c s TSender = Some s1 /\ step c s1 TSender = Some s2
                /\ s_pc s2 = S5e /\ serr s2 = true /\ broken s2 = true.
Proof. exact (send_failure_recorded c s). Qed.
Print Assumptions C14_send_failure_recorded.

(* until Reset clears the lists, the sender is gone only with a send error on record, because Close /
   Reset asked it to (CloseSend done), or because the receiver saw the end of the stream (shut) *)
Theorem C14_sender_exit_reasons c s : reach c s -> before_reset c s -> sender_gone s = true ->
  serr s = true \/ half s = true \/ shut s = true.
Proof. exact (sender_exit_reasons c s). Qed.
Print Assumptions C14_sender_exit_reasons.

(* the server ends the RPC (the receiver has seen EOF: shut, and nobody called Close: half = false) while
   the sender is idle in its channel receive: whatever happens next, in any order, the sender cannot be
   gone - short of Close - without the send error on record.  With requests unanswered that error is the
   only trace of the end of the stream: a clean end is not an error for the receiver. *)
Theorem C14_clean_end_noticed_by_idle_sender c s k s' :
  reach c s -> s_pc s = S1 -> shut s = true -> half s = false ->
  steps c s k s' -> before_reset c s' -> sender_gone s' = true -> half s' = false -> serr s' = true.
Proof. exact (idle_sender_notices_end c s k s'). Qed.
Print Assumptions C14_clean_end_noticed_by_idle_sender.

(* the hypothesis "idle" is needed by the code as it is (and by the repaired q()): a sender between a
   successful Send and its look at shut leaves silently when the receiver sees the clean end first; the
   requests queued afterwards are dropped, two operations stay unanswered, no error is on record and
   AwaitConverged can only time out *)
Theorem C14_clean_end_can_go_unnoticed :
  exists c s, l_var c = lv_fixed /\ f_side c = FEnd /\ reach c s /\ final s = true
    /\ queued s = 2 /\ answered s = 0 /\ serr s = false /\ rerr s = false /\ w_res s = Some WTimeout
    /\ s_pc s = SFin /\ r_pc s = RFin.
Proof. exact clean_end_can_go_unnoticed. Qed.
Print Assumptions C14_clean_end_can_go_unnoticed.

(* the protocol as it is in the tree: Send number 0 slow then failing while 7 requests are queued:
   the 7th Q is blocked on the full channel holding awaiting.RLock, AwaitConverged on Lock (for ever,
   its context is never looked at again), the receiver on RLock; nothing can step *)
Theorem C14_q_blocks_refuted :
  exists c s, l_var c = lv_tree /\ n_q c = 7 /\ f_side c = FSend /\ f_k c = 0 /\ reach c s /\ deadlocked c s = true
    /\ a_pc s = A3 /\ a_i s = 6 /\ cnt s = cap /\ readers s = 1 /\ w_pc s = W2 /\ r_pc s = R2 KErr /\ s_pc s = SFin
    /\ serr s = true /\ w_res s = None.
Proof. exact q_blocks_tree. Qed.
Print Assumptions C14_q_blocks_refuted.

(* the patch proposed in DESIGN.md on its own (select on sendExitCh, RLock still held across the
   channel send) leaves a deadlock that needs no fault at all *)
Theorem C14_select_only_refuted :
  exists c s, l_var c = lv_select_only /\ f_side c = FNone /\ reach c s /\ deadlocked c s = true
    /\ a_pc s = A3 /\ cnt s = cap /\ s_pc s = S2 /\ w_pc s = W2 /\ sendExit s = false.
Proof. exact select_only_still_deadlocks. Qed.
Print Assumptions C14_select_only_refuted.

(* non-vacuity: the repaired protocol on the same scenario ends clean under the slow-Send schedule *)
Example C14_example :
  let c := mklcfg 7 FSend 0 MReset 40 lv_fixed in
  outcome_of c (run_slow c 900) = mkout true (Some WErr) true true 0 true
  /\ deadlocked c (run_slow c 900) = false.
Proof. vm_compute. split; reflexivity. Qed.

(* non-vacuity of the clean-end clauses: 6 requests, the server ends the RPC after 2 responses with 4
   requests received, the sender idle; the 2 further requests make the sender notice: AwaitConverged
   returns the error, Reset + Connect gives a fresh client; and the state in which the server has ended
   satisfies the hypotheses of C14_clean_end_noticed_by_idle_sender *)
Example C14_example_clean_end :
  let c := mklcfg 6 FEnd 2 MReset 40 lv_fixed in
  outcome_of c (run_end c 4 700) = mkout true (Some WErr) true true 0 true
  /\ let s := run_prio c [TSender; TReceiver] (fun _ => false) 700
                (run_prio c [TApp; TSender] (fun s => is_a0 (a_pc s) && (4 <=? a_i s)) 700 (init c)) in
     s_pc s = S1 /\ shut s = true /\ half s = false /\ queued s = 4 /\ answered s = 2 /\ serr s = false /\ rerr s = false.
Proof. vm_compute. repeat split; reflexivity. Qed.
