(* C19 - compliance verdicts: conformant passes in any order; violations are flagged.  PARTIAL.
   What is proved here is about scripts over the sequential server model (Tools/Compliance.v): a script that
   respects the contract of a compliance test (ids inside the window of the suite counter; closes its
   streams and ends with flush-all(override); expectations invariant under the election-id shift and the
   order of Get results; nothing that consults the election state before its first accepted announcement;
   no held operation left) leaves the server reset, and gets the same verdict from every reset state, for
   every value of the suite's election counter, hence in every order of the suite.  The fault catalogue is
   a finite table established by computation.  That the Go text of each compliance test is a script of this
   kind is NOT proved: the harness vh-c19 runs the real suite in random orders and configurations and
   monitors the contract on the wire.  Statements only; proofs in Tools/ComplianceFacts.v, Tools/C19Sim.v,
   Tools/C19RibRel.v. *)
From Coq Require Import List NArith Bool Permutation.
From GV.Base Require Import Alist U128 Op.
From GV.Rib Require Import Model RefCount Run.
From GV.Tools Require Import C19RibRel.
From GV.Server Require Import Model Inst.
From GV.Tools Require Import Compliance C19Sim ComplianceFacts.
Import ListNotations.
Open Scope N_scope.

(* Init cfg: a freshly configured server (no sessions, no election, empty tables, nothing held).
   Reset cfg c s: s is cfg again up to the election state, whose id is at most (0,c): no sessions, the same
   instances and options, empty tables, no held operations (reference counters may be represented
   differently and the instance list may be ordered differently: neither is observable). *)

(* a script that respects the static contract and leaves nothing held takes a reset server to a reset
   server, and the counter moves to the end of the script's window *)
Theorem C19_reset cfg c n s sc : Init cfg -> Reset cfg c s ->
  ids_within n sc = true -> ends_clean sc -> no_held (final_state s (shift_script c sc)) = true ->
  Reset cfg (c + n) (final_state s (shift_script c sc)).
Proof. exact (reset_after_script cfg c n s sc). Qed.
Print Assumptions C19_reset.

(* one step of the reference server from two related states (same sessions, same tables, held operations and
   announced ids equal up to the shift d; election state either equal up to the shift or, on both sides, still
   below the ids of the script) on an input and its shifted copy: related states again, related outputs *)
Theorem C19_step_simulation d lb s1 s2 i : SR d lb s1 s2 -> input_above lb i -> below lb s1 && risky i = false ->
  SR d lb (fst (ref_step s1 i)) (fst (ref_step s2 (shift_sinput d i)))
  /\ out_rel d (snd (ref_step s1 i)) (snd (ref_step s2 (shift_sinput d i))).
Proof. exact (step_sim d lb s1 s2 i). Qed.
Print Assumptions C19_step_simulation.

(* key lemma: the verdict of a contract-respecting test depends on the state it starts from only through its
   being reset, and not on the value of the counter: from any reset state with counter c, run shifted by c, it
   is the verdict the test gets alone on the freshly configured server; and the server is reset afterwards *)
Theorem C19_verdict_from_any_reset_state cfg c s t : Init cfg -> Reset cfg c s -> Contract cfg t ->
  snd (run_script s (shift_script c (t_script t))) = solo_on cfg t
  /\ Reset cfg (c + t_span t) (final_state s (shift_script c (t_script t))).
Proof. exact (script_from_reset cfg c s t). Qed.
Print Assumptions C19_verdict_from_any_reset_state.

Theorem C19_suite_verdicts cfg ts : Init cfg -> (forall t, In t ts -> Contract cfg t) ->
  forall s c, Reset cfg c s ->
  fst (fst (run_suite ref_step s c ts)) = map (solo_on cfg) ts
  /\ Reset cfg (snd (run_suite ref_step s c ts)) (snd (fst (run_suite ref_step s c ts)))
  /\ snd (run_suite ref_step s c ts) = fold_left (fun a t => a + t_span t) ts c.
Proof. exact (suite_verdicts cfg ts). Qed.
Print Assumptions C19_suite_verdicts.

(* every permutation of the suite, every starting election id, every reset start state: each test gets the
   same verdict *)
Theorem C19_order_independent cfg ts ts' : Init cfg -> (forall t, In t ts -> Contract cfg t) -> Permutation ts ts' ->
  forall s c s' c', Reset cfg c s -> Reset cfg c' s' ->
  Permutation (combine ts (fst (fst (run_suite ref_step s c ts)))) (combine ts' (fst (fst (run_suite ref_step s' c' ts')))).
Proof. exact (order_independent cfg ts ts'). Qed.
Print Assumptions C19_order_independent.

(* every configuration srv_init (forward references allowed or not, any list of VRFs) is Init *)
Theorem C19_configured_servers_are_init nofwd vrfs : Init (srv_init nofwd vrfs).
Proof. exact (Init_srv_init nofwd vrfs). Qed.
Print Assumptions C19_configured_servers_are_init.

(* non-vacuity of the contract: the sixteen transcribed compliance tests respect it, so they pass in every order *)
Theorem C19_transcribed_tests_respect_contract t : In t all_test_records -> Contract srv_ref t.
Proof. exact (transcribed_contract t). Qed.
Print Assumptions C19_transcribed_tests_respect_contract.
Theorem C19_transcribed_tests_pass_in_any_order ts s c : (forall t, In t ts -> In t all_test_records) -> Reset srv_ref c s ->
  fst (fst (run_suite ref_step s c ts)) = map (fun _ => Pass) ts.
Proof. exact (transcribed_any_order ts s c). Qed.
Print Assumptions C19_transcribed_tests_pass_in_any_order.

(* the fault catalogue (a finite table, not "every faulty server"): the reference server passes each
   transcribed test; each of the fifteen single-requirement faulty servers (seven requirements, most of them broken in
   more than one way: per recipient, per kind of operation, per table, per scope) fails exactly the transcribed tests
   written for the requirement it breaks *)
Theorem C19_catalogue_reference_passes t : In t all_tests -> model_pass t 0 = Some true.
Proof. exact (catalogue_reference_passes t). Qed.
Print Assumptions C19_catalogue_reference_passes.
Theorem C19_catalogue_fault_flagged f t : In f faulty -> In t all_tests ->
  model_pass t f = Some (negb (memN t (designated_of f))).
Proof. exact (catalogue_fault_flagged f t). Qed.
Print Assumptions C19_catalogue_fault_flagged.

(* examples by computation *)
Example C19_ex_suite_order :
  fst (fst (run_suite ref_step srv_ref 41 [T_flush_master; T_same_id_two_clients; T_add_ipv4_fib; T_idempotent_delete; T_connect_elect]))
  = [Pass; Pass; Pass; Pass; Pass].
Proof. vm_compute. reflexivity. Qed.
Example C19_ex_fault_flagged : solo F_omit_fib T_add_ipv4_fib = Fail /\ solo F_none T_add_ipv4_fib = Pass /\ solo F_omit_fib T_add_ipv4_rib = Pass.
Proof. vm_compute. auto. Qed.
(* the contract matters: a script that leaves a group installed (no flush) changes the verdict of a later,
   contract-respecting test *)
Example C19_ex_contract_needed :
  fst (fst (run_suite ref_step srv_ref 0 [leaky; T_idempotent_delete])) = [Pass; Fail]
  /\ fst (fst (run_suite ref_step srv_ref 0 [T_idempotent_delete; leaky])) = [Pass; Pass].
Proof. vm_compute. auto. Qed.
