(* C17 — chk assertion helpers pass exactly when the expected item is present.
   Statements only; the model is Tools/Chk.v (no proofs), the proofs are in Tools/ChkFacts.v.
   All statements are about the repaired model [v_fixed] unless they say [v_tree]; which of the
   two /repo is, is decided by the correspondence check on every run, never assumed. *)
From Coq Require Import List NArith ZArith Bool String.
From GV.Tools Require Import Chk ChkFacts.
Import ListNotations.
Open Scope N_scope.

(* HasResult is not fatal iff some result equals the want on every field except Timestamp and
   Latency, Details when the want has none, OperationID under IgnoreOperationID, and ServerError
   unless IncludeServerError -- for all result lists, wants and option combinations. *)
Theorem C17_has_result_iff (o : ropts) (res : list opresult) (w : opresult) :
  has_result_plain o res w = Pass <-> exists r, In r res /\ Matches o r w.
Proof. exact (has_result_iff o res w). Qed.
Print Assumptions C17_has_result_iff.

Theorem C17_has_result_fatal_iff_absent (o : ropts) (res : list opresult) (w : opresult) :
  has_result_plain o res w = Fatal <-> ~ Present o res w.
Proof. exact (has_result_fatal_iff o res w). Qed.
Print Assumptions C17_has_result_fatal_iff_absent.

(* The cached checker never passes where the plain one fails: for every want. *)
Theorem C17_cache_sound (o : ropts) (res wants : list opresult) :
  has_results_cache v_fixed o res wants = Pass ->
  forall w, In w wants -> has_result_plain o res w = Pass.
Proof. exact (cache_sound o res wants). Qed.
Print Assumptions C17_cache_sound.

(* ... and agrees with it whenever result keys are unique (operation ids, or under
   IgnoreOperationID the key named by the details), wants carrying details under
   IgnoreOperationID as the helper documents. *)
Theorem C17_cache_complete_unique_keys (o : ropts) (res wants : list opresult) :
  unique_keys o res -> wants_have_details o wants ->
  (has_results_cache v_fixed o res wants = Pass <-> forall w, In w wants -> has_result_plain o res w = Pass).
Proof. exact (cache_complete_unique_keys o res wants). Qed.
Print Assumptions C17_cache_complete_unique_keys.

(* GetResponseHasEntries is not fatal iff every want has an entry of its kind and key in its
   network instance (keys that are set; network instance named). *)
Theorem C17_get_entries_iff (entries : list aftentry) (wants : list gwant) :
  get_response_has_entries v_fixed entries wants = Pass <-> forall w, In w wants -> EntryPresent entries w.
Proof. exact (get_entries_iff entries wants). Qed.
Print Assumptions C17_get_entries_iff.

(* No kind is accepted without being looked up: for every kind of details key (NHG, NH, IPv4,
   IPv6, MPLS) an absent want of that kind makes the cached checker fatal under every option
   combination, and for every kind of AFT entry (IPv4, IPv6, MPLS, NHG, NH, any other) an absent
   wanted entry makes GetResponseHasEntries fatal. *)
Theorem C17_no_kind_skipped :
  (forall (k : okind) o res wants w d,
     r_details w = Some d -> okind_of d = Some k -> In w wants -> ~ Present o res w ->
     has_results_cache v_fixed o res wants = Fatal)
  /\ (forall (k : ekind) entries wants ni en,
        ekind_of en = k -> In (WEntry {| e_ni := ni; e_entry := Some en |}) wants ->
        ~ EntryPresent entries (WEntry {| e_ni := ni; e_entry := Some en |}) ->
        get_response_has_entries v_fixed entries wants = Fatal).
Proof. exact (conj cache_no_kind_skipped get_no_kind_skipped). Qed.
Print Assumptions C17_no_kind_skipped.

(* HasNSendErrors / HasNRecvErrors: not fatal iff the error holds exactly that many errors
   (nil holds none; something that is not a ClientErr has no count). *)
Theorem C17_n_send_errors_iff (e : cerr) (n : Z) :
  has_n_send_errors e n = Pass <-> n_errors (fun s _ => s) e = Some n.
Proof. exact (has_n_errors_iff _ e n). Qed.
Print Assumptions C17_n_send_errors_iff.

Theorem C17_n_recv_errors_iff (e : cerr) (n : Z) :
  has_n_recv_errors e n = Pass <-> n_errors (fun _ r => r) e = Some n.
Proof. exact (has_n_errors_iff _ e n). Qed.
Print Assumptions C17_n_recv_errors_iff.

(* HasRecvClientErrorWithStatus: not fatal iff the error is a ClientErr with a receive error that
   is a status of the wanted code, message (unless the wanted message is empty) and details
   (unless IgnoreDetails), or of code Unimplemented under AllowUnimplemented. *)
Theorem C17_recv_status_iff (e : cerr) (want : sstatus) (eo : list eopt) :
  has_recv_error_with_status e want eo = Pass <->
  exists send recv x, e = EClient send recv /\ In x recv /\ StatusOk want eo x.
Proof. exact (has_recv_status_iff e want eo). Qed.
Print Assumptions C17_recv_status_iff.

(* --- the pinned tree *)
(* What does hold of it: sound on every want it looks up. *)
Theorem C17_cache_sound_tree_partial (o : ropts) (res wants : list opresult) :
  has_results_cache v_tree o res wants = Pass ->
  forall w, In w wants ->
    (o_ign_opid o = false \/ exists d, r_details w = Some d /\ (d_nhg d <> 0 \/ d_nh d <> 0 \/ d_v4 d <> EmptyString)) ->
    has_result_plain o res w = Pass.
Proof. exact (cache_sound_tree_partial o res wants). Qed.
Print Assumptions C17_cache_sound_tree_partial.

(* C17_cache_sound / C17_no_kind_skipped fail for it: an IPv6 want, an MPLS want and a want whose
   details name no key pass HasResultsCache(IgnoreOperationID) against an empty result list. *)
Theorem C17_cache_sound_refuted :
  exists o res wants w, In w wants /\ has_results_cache v_tree o res wants = Pass /\ has_result_plain o res w = Fatal.
Proof. exact cache_sound_refuted. Qed.
Print Assumptions C17_cache_sound_refuted.

Theorem C17_no_kind_skipped_refuted :
  (forall w, In w [want_v6; want_mpls; want_nokey] ->
     has_results_cache v_tree o_ign [] [w] = Pass /\ has_result_plain o_ign [] w = Fatal)
  /\ (forall en, In en [E6 "2001:db8::/32"%string; EMpls 100; EOther 1] ->
        get_response_has_entries v_tree es1 [WEntry (ent "DEFAULT"%string en)] = Pass
        /\ ~ EntryPresent es1 (WEntry (ent "DEFAULT"%string en))).
Proof. exact (conj cache_sound_tree_refuted get_entries_tree_refuted). Qed.
Print Assumptions C17_no_kind_skipped_refuted.

(* C17_get_entries_iff fails for it. *)
Theorem C17_get_entries_iff_refuted :
  exists entries wants,
    get_response_has_entries v_tree entries wants = Pass /\ ~ (forall w, In w wants -> EntryPresent entries w).
Proof. exact get_entries_iff_refuted. Qed.
Print Assumptions C17_get_entries_iff_refuted.

(* non-vacuity: the repaired model is fatal on the witnesses, passes when the item is there, and
   the last-wins index is why completeness needs unique keys (RIB and FIB acknowledgement of one
   operation id: plain passes for the first, cached is fatal). *)
Example C17_example :
  has_results_cache v_fixed o_ign [] [want_v6] = Fatal
  /\ has_results_cache v_fixed o_ign [want_v6] [want_v6] = Pass
  /\ get_response_has_entries v_fixed es1 [WEntry (ent "DEFAULT"%string (EMpls 100))] = Fatal
  /\ get_response_has_entries v_fixed (ent "DEFAULT"%string (EMpls 100) :: es1) [WEntry (ent "DEFAULT"%string (EMpls 100))] = Pass
  /\ (let rib := {| r_ts := 0; r_lat := 0; r_elec := None; r_params := None; r_opid := 7; r_cerr := EmptyString;
                    r_serr := EmptyString; r_status := 2; r_details := None |} in
      let fib := {| r_ts := 0; r_lat := 0; r_elec := None; r_params := None; r_opid := 7; r_cerr := EmptyString;
                    r_serr := EmptyString; r_status := 3; r_details := None |} in
      let o := {| o_ign_opid := false; o_inc_serr := false |} in
      has_result_plain o [rib; fib] rib = Pass /\ has_results_cache v_fixed o [rib; fib] [rib] = Fatal).
Proof. vm_compute. repeat split; reflexivity. Qed.
