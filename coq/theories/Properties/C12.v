(* C12 — Malformed operations rejected in-band, no effect, cannot crash the server.
   Statements only; proofs in Rib/Malformed.v, Server/MalformedFacts.v.
   PARTIAL: "cannot crash / hang" is a runtime fact; its model-level shadow is that the model is total
   (every function below is a total Gallina function, the out-of-fuel flag is unreachable: C02_fuel_sufficient);
   the runtime half is the malformed-input stream of the harness, run in isolated worker processes. *)
From Coq Require Import List NArith Bool.
From GV.Base Require Import Alist U128 Op.
From GV.Rib Require Import Model Lemmas Closed Malformed.
From GV.Server Require Import Model MalformedFacts.
Import ListNotations.
Open Scope N_scope.

(* each class of invalid content is an error for AddXXX in every state, for either variant *)
Theorem C12_malformed_is_error v r n o c : malformed_add r n (op_entry o) = Some c -> try_install v r n o = Err.
Proof. exact (malformed_is_err v r n o c). Qed.
Print Assumptions C12_malformed_is_error.

(* ... and is answered FAILED exactly once with the RIB - tables, held operations, counters - literally
   unchanged, for every cascade order (the operation id must not be the id of a held operation) *)
Theorem C12_malformed_add_rejected ord r n o c : n <> 0 -> has_ni r n = true -> op_entry o <> ENone ->
  malformed_add r n (op_entry o) = Some c -> nget (op_id o) (pend r) = None ->
  add_entry v_fixed ord r n o = (r, add_fail (op_id o) out0).
Proof. exact (malformed_add_rejected ord r n o c). Qed.
Print Assumptions C12_malformed_add_rejected.

Theorem C12_error_is_noop ord r n o : n <> 0 -> has_ni r n = true -> op_entry o <> ENone ->
  try_install v_fixed r n o = Err -> nget (op_id o) (pend r) = None ->
  add_entry v_fixed ord r n o = (r, add_fail (op_id o) out0).
Proof. exact (err_is_noop ord r n o). Qed.
Print Assumptions C12_error_is_noop.

Theorem C12_malformed_delete_rejected r n o : has_ni r n = true ->
  (match op_entry o with
   | ETop t k kv _ => key_ok t k kv = false
   | EGrp id _ => id = 0
   | ENh idx _ => idx = 0
   | ENone => False
   end) ->
  delete_entry v_fixed r n o = (r, add_fail (op_id o) out0).
Proof. exact (malformed_delete_rejected r n o). Qed.
Print Assumptions C12_malformed_delete_rejected.

(* server: empty / unknown instance name and unsupported operation type never reach the RIB *)
Theorem C12_bad_instance_failed (E R : Type) has_ni add del fib mst cu me last (o : op E) (r : R) acc :
  op_ni o = 0 \/ has_ni r (op_ni o) = false ->
  do_ops E R has_ni add del sv_fixed fib mst cu me last [o] r acc = (r, acc ++ [RResults [(op_id o, FAILED)]], None).
Proof. exact (bad_instance_failed E R has_ni add del fib mst cu me last o r acc). Qed.
Print Assumptions C12_bad_instance_failed.

Theorem C12_unsupported_type_failed (E R : Type) add del fib (o : op E) (r : R) : op_kind o = OTHERKIND ->
  modify_entry E R add del fib GateOK o r = (r, [RResults [(op_id o, FAILED)]], None).
Proof. exact (other_kind_failed E R add del fib o r). Qed.
Print Assumptions C12_unsupported_type_failed.

Theorem C12_tree_refuted :
  oks (snd (delete_entry v_tree (rib0 1 false) 1 (mk_op 9 1 DELETE None (ETop TL 5 true None)))) = [9].
Proof. exact malformed_delete_tree_refuted. Qed.
Print Assumptions C12_tree_refuted.

Example C12_example :
  malformed_add (rib0 1 false) 1 (EGrp 1 (Some (mk_grp [] 0 []))) = Some B_empty_group
  /\ malformed_add (rib0 1 false) 1 (ETop T4 1 true (Some (mk_top 1 4 []))) = Some B_unknown_group_instance
  /\ add_entry v_fixed (fun l => l) (rib0 1 false) 1 (mk_op 3 1 ADD None (EGrp 1 (Some (mk_grp [] 0 []))))
     = (rib0 1 false, add_fail 3 out0).
Proof. vm_compute. repeat split. Qed.
