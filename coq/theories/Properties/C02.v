(* C02 — Programmed-acknowledgement tracks reference resolvability.
   Statements only; definitions and proofs live in Rib/Closed.v (model: Rib/Model.v).
   Everything is for every Go-map order `ord` of the held-operation map and every history.

   Side conditions that appear below (all are invariants of every history, C02_held_invariants):
     PWF r     = the held map is keyed by the operation id (PK) and is empty when forward
                 references are disallowed (NF);
     held_ok r = a held operation names existing network instances only;
     RC r      = the reference counters are exact (Rib/RefDefs.v; invariance in Rib/RefCount.v). *)
From Coq Require Import List NArith Permutation.
From GV.Base Require Import Alist U128 Op.
From GV.Rib Require Import Model Lemmas RefDefs Closed.
Import ListNotations.
Open Scope N_scope.

(* ---------------------------------------------------------------------------------------- *)
(* (a) programmed is acknowledged only when everything referenced is installed              *)
(* ---------------------------------------------------------------------------------------- *)
Theorem C02_ack_only_resolvable v r n o r' h rv :
  try_install v r n o = Installed r' h rv -> resolvable r n o = true.
Proof. exact (ack_only_resolvable v r n o r' h rv). Qed.
Print Assumptions C02_ack_only_resolvable.

(* one addEntryInternal call never removes anything from the tables ... *)
Theorem C02_aei_tables_grow v ord F r acc stk n o :
  le r (fst (fst (aei v ord F (r, acc, stk) n o))).
Proof. exact (aei_tables_grow v ord F r acc stk n o). Qed.
Print Assumptions C02_aei_tables_grow.

(* ... so every operation acknowledged by one AddEntry (the new one and the held ones it releases,
   transitively) is resolvable in the state AddEntry returns; oks are exactly their ids *)
Theorem C02_cascade_acks_resolvable v ord r n o m p :
  In (m, p) (acked (snd (add_entry v ord r n o))) ->
  resolvable (fst (add_entry v ord r n o)) m p = true.
Proof. exact (add_entry_acked_resolvable v ord r n o m p). Qed.
Print Assumptions C02_cascade_acks_resolvable.

Theorem C02_oks_are_acked v ord r n o :
  oks (snd (add_entry v ord r n o)) = map (fun x => op_id (snd x)) (acked (snd (add_entry v ord r n o))).
Proof. exact (add_entry_oks_acked v ord r n o). Qed.
Print Assumptions C02_oks_are_acked.

(* ---------------------------------------------------------------------------------------- *)
(* (b) no installed entry dangles                                                           *)
(* ---------------------------------------------------------------------------------------- *)
Theorem C02_closed_init d nf : closed (rib0 d nf).
Proof. exact (closed_rib0 d nf). Qed.
Print Assumptions C02_closed_init.

Theorem C02_closed_add v ord r n o : closed r -> closed (fst (add_entry v ord r n o)).
Proof. exact (add_entry_closed v ord r n o). Qed.
Print Assumptions C02_closed_add.

Theorem C02_closed_delete v r n o : RC r -> closed r -> closed (fst (delete_entry v r n o)).
Proof. exact (delete_entry_closed v r n o). Qed.
Print Assumptions C02_closed_delete.

Theorem C02_closed_full_flush v l r :
  (forall m, has_ni r m = true -> In m l) -> closed (fst (fst (flush v l r))).
Proof. exact (full_flush_closed v l r). Qed.
Print Assumptions C02_closed_full_flush.

Theorem C02_closed_add_network_instance v n r : closed r -> closed (add_network_instance v n r).
Proof. exact (add_ni_closed v n r). Qed.
Print Assumptions C02_closed_add_network_instance.

(* every history of Modify operations, full flushes and configuration calls *)
Theorem C02_closed_history v d nf r : safe_reach v (rib0 d nf) r -> closed r.
Proof. exact (safe_reach_closed v d nf r). Qed.
Print Assumptions C02_closed_history.

(* a flush of some instances only can leave an entry of another instance dangling *)
Theorem C02_partial_flush_breaks_closed_refuted :
  exists r l, closed r /\ ~ closed (fst (fst (flush v_fixed l r))).
Proof. exact partial_flush_breaks_closed_refuted. Qed.
Print Assumptions C02_partial_flush_breaks_closed_refuted.

(* ---------------------------------------------------------------------------------------- *)
(* (c) a held operation is acknowledged as soon as it is resolvable                         *)
(* ---------------------------------------------------------------------------------------- *)
Theorem C02_fuel_sufficient ord r n o : (forall l, Permutation (ord l) l) -> PWF r ->
  nofuel (snd (add_entry v_fixed ord r n o)) = false.
Proof. exact (fuel_sufficient ord r n o). Qed.
Print Assumptions C02_fuel_sufficient.

Theorem C02_complete ord r n o : (forall l, Permutation (ord l) l) -> PWF r ->
  quiescent v_fixed r -> quiescent v_fixed (fst (add_entry v_fixed ord r n o)).
Proof. exact (complete ord r n o). Qed.
Print Assumptions C02_complete.

Theorem C02_delete_keeps_quiescent v r n o : quiescent v r -> quiescent v (fst (delete_entry v r n o)).
Proof. exact (delete_keeps_quiescent v r n o). Qed.
Print Assumptions C02_delete_keeps_quiescent.

Theorem C02_flush_keeps_quiescent v l r : quiescent v r -> quiescent v (fst (fst (flush v l r))).
Proof. exact (flush_keeps_quiescent v l r). Qed.
Print Assumptions C02_flush_keeps_quiescent.

(* a held operation never waits for a network instance (an unknown one is answered FAILED at
   once), so creating an instance makes nothing installable *)
Theorem C02_add_network_instance_keeps_quiescent v n r :
  held_ok r -> quiescent v r -> quiescent v (add_network_instance v n r).
Proof. exact (add_ni_keeps_quiescent v n r). Qed.
Print Assumptions C02_add_network_instance_keeps_quiescent.

(* every history (AddEntry with any permutation each time, DeleteEntry, Flush of any instances,
   new instances, hooks): the side conditions hold, no held operation is resolvable, and none
   could be installed *)
Theorem C02_held_invariants d nf r : rib_reach v_fixed (rib0 d nf) r ->
  PWF r /\ held_ok r
  /\ (forall id n o, nget id (pend r) = Some (n, o) -> resolvable r n o = false)
  /\ quiescent v_fixed r.
Proof. exact (held_invariants d nf r). Qed.
Print Assumptions C02_held_invariants.

(* in one AddEntry each operation is answered at most once ... *)
Theorem C02_results_disjoint ord r n o : (forall l, Permutation (ord l) l) -> PWF r ->
  NoDup (oks (snd (add_entry v_fixed ord r n o))) /\ NoDup (fails (snd (add_entry v_fixed ord r n o)))
  /\ forall id, In id (oks (snd (add_entry v_fixed ord r n o))) -> ~ In id (fails (snd (add_entry v_fixed ord r n o))).
Proof. exact (add_entry_results_disjoint ord r n o). Qed.
Print Assumptions C02_results_disjoint.

(* ... only operations submitted now or held before are answered, and an answered operation
   (OK or FAILED, the call's own included) is not held afterwards *)
Theorem C02_results_ids ord r n o : (forall l, Permutation (ord l) l) -> PWF r ->
  forall id, In id (oks (snd (add_entry v_fixed ord r n o)) ++ fails (snd (add_entry v_fixed ord r n o))) ->
    (id = op_id o \/ In id (map fst (pend r)))
    /\ ~ In id (map fst (pend (fst (add_entry v_fixed ord r n o)))).
Proof. exact (add_entry_results_ids ord r n o). Qed.
Print Assumptions C02_results_ids.

(* the pinned tree answers an operation FAILED and then OK in the same AddEntry *)
Theorem C02_failed_then_acked_tree_refuted :
  exists ord r n o id, (forall l, Permutation (ord l) l)
    /\ In id (oks (snd (add_entry v_tree ord r n o))) /\ In id (fails (snd (add_entry v_tree ord r n o))).
Proof. exact failed_then_acked_tree_refuted. Qed.
Print Assumptions C02_failed_then_acked_tree_refuted.

(* ---------------------------------------------------------------------------------------- *)
(* (d) forward references disallowed: nothing is ever held, FAILED at once                  *)
(* ---------------------------------------------------------------------------------------- *)
Theorem C02_nofwd_never_holds d r : rib_reach v_fixed (rib0 d true) r -> nofwd r = true /\ pend r = [].
Proof. exact (nofwd_never_holds d r). Qed.
Print Assumptions C02_nofwd_never_holds.

Theorem C02_nofwd_pend_stays_empty v ord r n o : nofwd r = true -> pend r = [] ->
  nofwd (fst (add_entry v ord r n o)) = true /\ pend (fst (add_entry v ord r n o)) = [].
Proof. exact (nofwd_pend_stays_empty v ord r n o). Qed.
Print Assumptions C02_nofwd_pend_stays_empty.

Theorem C02_nofwd_immediate v ord r n o : nofwd r = true -> n <> 0 -> try_install v r n o = NotYet ->
  fst (add_entry v ord r n o) = r /\ fails (snd (add_entry v ord r n o)) = [op_id o]
  /\ oks (snd (add_entry v ord r n o)) = [].
Proof. exact (nofwd_immediate v ord r n o). Qed.
Print Assumptions C02_nofwd_immediate.

(* ---------------------------------------------------------------------------------------- *)
(* (e) legal nondeterminism: the Go map order is observable                                 *)
(* ---------------------------------------------------------------------------------------- *)
Theorem C02_order_matters_witness :
  exists ord1 ord2 r n o,
    (forall l, Permutation (ord1 l) l) /\ (forall l, Permutation (ord2 l) l)
    /\ rib_reach v_fixed (rib0 1 false) r
    /\ fails (snd (add_entry v_fixed ord1 r n o)) <> fails (snd (add_entry v_fixed ord2 r n o)).
Proof. exact order_matters_witness. Qed.
Print Assumptions C02_order_matters_witness.

(* ---------------------------------------------------------------------------------------- *)
(* non-vacuity: IPv4 entry, its group, its next-hop arrive in reverse order; the last ADD    *)
(* acknowledges all three                                                                   *)
(* ---------------------------------------------------------------------------------------- *)
Example C02_example :
  let r1 := fst (add_entry v_fixed idord (rib0 1 false) 1 (mk_op 1 1 ADD None (ETop T4 100 true (Some (mk_top 5 0 []))))) in
  let r2 := fst (add_entry v_fixed idord r1 1 (mk_op 2 1 ADD None (EGrp 5 (Some (mk_grp [(7, 1)] 0 []))))) in
  let last := add_entry v_fixed idord r2 1 (mk_op 3 1 ADD None (ENh 7 (Some (mk_nh [])))) in
  map fst (pend r2) = [2; 1]
  /\ oks (snd last) = [3; 2; 1] /\ fails (snd last) = [] /\ pend (fst last) = []
  /\ closedb (fst last) = true /\ quiescentb (fst last) = true.
Proof. vm_compute. repeat split. Qed.

Example C02_example_closed_quiescent : closed (fst ex_last) /\ quiescent v_fixed (fst ex_last).
Proof. exact (conj (closedb_sound _ (proj1 (proj2 (proj2 (proj2 (proj2 reverse_order_example))))))
                   (quiescentb_sound v_fixed _ (proj2 (proj2 (proj2 (proj2 (proj2 reverse_order_example))))))). Qed.
Print Assumptions C02_example_closed_quiescent.
