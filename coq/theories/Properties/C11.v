(* C11 — Concurrent RPCs: no race, deadlock or crash; quiescent state is consistent.
   Statements only; proofs in Conc/ElectionCS.v, Conc/LockOrder.v.
   PARTIAL: data-race freedom in the Go memory model, panics and gRPC internals are runtime facts
   (race detector + watchdogs in the harness).  The Coq half: (1) the lock discipline written in
   packages rib and server, as a boolean obligation over the table regenerated from the source on
   every run; (2) the generic reason why a ranked lock order excludes lock deadlock; (3) the election
   compare-and-set under an exclusive section, for every entry order of any number of announcements. *)
From Coq Require Import List String NArith Bool Permutation.
From GV.Base Require Import U128.
From GV.Conc Require Import LockDefs LockOrder ElectionCS.
From GV.Generated Require Import LockTable.
Import ListNotations.

(* (1) on the source of this run: every write to a guarded field (election state, session table, instance
   map, held-operation map, reference counters, the per-instance AFT) happens under the exclusive mode of
   its guard, every read under at least the shared mode (locks held locally or by every caller), and the
   order in which locks are acquired while others are held is acyclic *)
Theorem C11_lock_discipline : lock_discipline lock_table = true.
Proof. vm_compute. reflexivity. Qed.
Print Assumptions C11_lock_discipline.

Theorem C11_lock_discipline_details : bad_accesses lock_table = [] /\ cyclic_locks lock_table = [].
Proof. vm_compute. split; reflexivity. Qed.
Print Assumptions C11_lock_discipline_details.

(* (2) if every thread waits only for a lock ranked above all the locks it holds, no cycle of threads each
   waiting for a lock held by the next exists *)
Theorem C11_ranked_locks_no_deadlock_cycle (thread lock : Type) (rank : lock -> nat)
        (holds_ waits_ : thread -> lock -> Prop) :
  (forall t l l', waits_ t l -> holds_ t l' -> (rank l' < rank l)%nat) ->
  forall a lo hi, ~ chain thread lock rank holds_ waits_ a a lo hi.
Proof. intros H a lo hi. exact (no_deadlock_cycle thread lock rank holds_ waits_ H a lo hi). Qed.
Print Assumptions C11_ranked_locks_no_deadlock_cycle.

(* (3) exclusive election section: whatever the order in which any number of concurrent announcements enter
   it, the final highest id is the 128-bit maximum announced and the primary is a session that announced it *)
Theorem C11_election_max_any_order (l l' : list (N * (N * N))) :
  l <> [] -> Forall (fun a => inrange (snd a)) l -> Permutation l l' ->
  exists m mx, fold_left cas l' None = Some (m, mx) /\ val mx = maxval l /\ In (m, mx) l.
Proof. exact (exclusive_cs_max l l'). Qed.
Print Assumptions C11_election_max_any_order.

(* the pinned tree held the section in shared mode: a lost update (final id 7 although 9 was announced) *)
Theorem C11_shared_cs_lost_update_refuted :
  let s0 := {| cstate := None; pcs := [(1, (0, 7), TIdle); (2, (0, 9), TIdle)]%N |} in
  let sf := run_sched s0 [0; 1; 1; 0]%nat in
  cstate sf = Some (1, (0, 7))%N /\ Forall (fun x => snd x = TDone) (pcs sf) /\ maxval [(1, (0, 7)); (2, (0, 9))]%N = 9%N.
Proof. exact shared_cs_lost_update_refuted. Qed.
Print Assumptions C11_shared_cs_lost_update_refuted.
