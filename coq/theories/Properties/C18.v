(* C18 — Fluent builders emit exactly what was set; unique ids; current election id.
   Statements only; the model is Tools/Fluent.v, the per-field tables are Tools/FluentSpec.v,
   the proofs are in Tools/FluentFacts.v.

   Reading guide.  A program is any list of steps: create a builder (SNew), call a With*/Add*
   method on a builder or sub-builder (SCall), observe OpProto/EntryProto (SProto), call a
   client method (SClient: connection calls, Start, Stop, StartSending, AddEntry, ReplaceEntry,
   DeleteEntry, UpdateElectionID) — in any order, any number of times, on any number of
   builders and clients; in particular a client may be started, stopped and started again any
   number of times (every successful Start gives the fluent client a new client.Client).
   [run p] is the model state after p; [all_ops cl] the operations fluent client cl has queued
   over its WHOLE LIFE, restarts included, in queue order ([incarnations cl]: its client.Clients,
   oldest first, the current one last; [inc_ops i]: the operations queued on one of them);
   [client_calls c p] the calls made on client c, each with the program prefix before it.
   The theorems quantify over ALL programs. *)
From Coq Require Import String List NArith ZArith Bool Sorted.
From GV.Base Require Import Alist U128.
From GV.Tools Require Import Fluent FluentSpec FluentFacts.
Import ListNotations.
Open Scope N_scope.

(* ------------------------------------------------------------------ fields exact *)

(* [last_or f d l], used by every table: the argument of the LAST call of l that the table f
   knows, and the default d when there is no such call. *)
Theorem C18_last_call_wins (A B : Type) (f : A -> option B) (d : B) (l : list A) :
  (forall a, In a l -> f a = None) /\ last_or f d l = d
  \/ exists l1 a l2 v, l = l1 ++ a :: l2 /\ f a = Some v /\ (forall x, In x l2 -> f x = None) /\ last_or f d l = v.
Proof. exact (last_or_spec f d l). Qed.
Print Assumptions C18_last_call_wins.

(* Builder level.  After any list of calls, a fresh builder of any kind holds, for every field,
   the argument of the last call that sets it (the sets_xxx tables), the concatenation of the
   arguments of the appending calls (AddNextHop, AddEncapHeader with key indices 1,2,3,...,
   WithLabels), its default when no call sets it — and nothing else (spec_builder lists every
   component of the builder state). *)
Theorem C18_fields_exact_builder (k : kind) (cs : list call) :
  fold_left apply_call cs (new_builder k) = spec_builder k cs.
Proof. exact (builder_exact k cs). Qed.
Print Assumptions C18_fields_exact_builder.

(* Program level.  Whatever else the program does (calls on other builders, client calls), the
   state of builder b is the one the tables prescribe for the calls made on b. *)
Theorem C18_fields_exact (p : list step) (b : bid) :
  aget N.eqb b (st_store (run p)) = spec_store p b.
Proof. exact (store_exact p b). Qed.
Print Assumptions C18_fields_exact.

(* An encapsulation header inside a next-hop message is the header builder's state at the time
   the message is built (AddEncapHeader keeps the pointer). *)
Theorem C18_fields_exact_headers (p : list step) (r : bid) :
  resolve (st_store (run p)) r = match spec_store p r with Some h => encap_proto h | None => encap0 end.
Proof. exact (resolve_exact p r). Qed.
Print Assumptions C18_fields_exact_headers.

(* Emitted messages.  The operations client c has queued after program p are exactly, call by
   call and in order, what [ops_of_call] prescribes in the state reached just before the call:
   one operation per entry passed, network instance and payload of the entry AS IT IS THEN,
   the type of the call, ids continuing the count, the election id rule. *)
Theorem C18_fields_exact_emitted (p : list step) (c : cid) :
  all_ops (cget (st_clients (run p)) c)
  = flat_map (fun pc => ops_of_call (st_store (run (fst pc))) (cget (st_clients (run (fst pc))) c) (snd pc))
             (client_calls c p).
Proof. exact (ops_provenance p c). Qed.
Print Assumptions C18_fields_exact_emitted.

(* The same, operation by operation and entirely in terms of the program text and the tables: an
   operation in the queue was put there by an entry call naming a builder b; its network instance
   and payload are those the tables give for the calls made on b (and on the header builders b
   refers to) BEFORE that entry call — later calls do not show. *)
Theorem C18_fields_exact_operation (p : list step) (c : cid) (o : op_msg) :
  In o (all_ops (cget (st_clients (run p)) c)) ->
  exists pre cc k bs b e,
    In (pre, cc) (client_calls c p) /\ opk_of cc = Some (k, bs) /\ In b bs /\ spec_store pre b = Some (BE e)
    /\ o_ni o = b_ni e /\ o_entry o = payload_with (spec_resolve pre) (b_pb e).
Proof. exact (op_fields_exact p c o). Qed.
Print Assumptions C18_fields_exact_operation.

(* OpProto / EntryProto called directly: network instance and payload of the builder at that
   moment, id 0, op INVALID, the entry's own election id (AFTEntry has none). *)
Theorem C18_fields_exact_protos (p : list step) :
  st_protos (run p)
  = flat_map (fun pb => let st := st_store (run (fst pb)) in
                        match aget N.eqb (snd pb) st with
                        | Some (BE e) => [(MkOp 0 (b_ni e) 0 (b_elec e) (payload_of st (b_pb e)), MkEntry (b_ni e) (payload_of st (b_pb e)))]
                        | _ => []
                        end) (proto_calls p).
Proof. exact (protos_exact p). Qed.
Print Assumptions C18_fields_exact_protos.

(* In the model, later steps never alter operations already queued: the lifetime sequence grows at
   its end — a restart moves the operations of the replaced client.Client to the past, unchanged.
   (The aliasing half of this clause — shared Go pointers — has no counterpart in a pure model
   and is checked on the implementation by the harness.) *)
Theorem C18_queued_ops_stable (p q : list step) (c : cid) :
  exists l, all_ops (cget (st_clients (run (p ++ q))) c) = all_ops (cget (st_clients (run p)) c) ++ l.
Proof. exact (ops_stable p q c). Qed.
Print Assumptions C18_queued_ops_stable.

(* ------------------------------------------------------------------ ids *)

(* The ids of the operations of one fluent client are 1, 2, 3, ... in queue order over its whole
   life, whatever the mix of calls, Stop and Start included (and opCount is their number). *)
Theorem C18_ids (p : list step) (c : cid) :
  let ops := all_ops (cget (st_clients (run p)) c) in
  map o_id ops = ids_upto (List.length ops) /\ c_count (cget (st_clients (run p)) c) = N.of_nat (List.length ops).
Proof. exact (ids_exact p c). Qed.
Print Assumptions C18_ids.

(* Across restarts.  Over the whole life of the fluent client the ids are strictly increasing in
   queue order, hence pairwise distinct; and every operation queued on an earlier client.Client has
   a smaller id than every operation queued on a later one (the current one included): a restart
   never hands out an id again. *)
Theorem C18_ids_increasing_across_restarts (p : list step) (c : cid) :
  let cl := cget (st_clients (run p)) c in
  StronglySorted N.lt (map o_id (all_ops cl))
  /\ NoDup (map o_id (all_ops cl))
  /\ (forall l1 a l2 b l3 x y, incarnations cl = l1 ++ a :: l2 ++ b :: l3 ->
        In x (inc_ops a) -> In y (inc_ops b) -> o_id x < o_id y).
Proof. exact (ids_across_restarts p c). Qed.
Print Assumptions C18_ids_increasing_across_restarts.

(* Only AddEntry / ReplaceEntry / DeleteEntry consume ids: any other call — Start, Stop, StartSending,
   UpdateElectionID, a connection call — leaves opCount and the lifetime operations as they are. *)
Theorem C18_other_calls_keep_counter (p : list step) (c : cid) (cc : ccall) :
  opk_of cc = None ->
  let cl := cget (st_clients (run p)) c in
  let cl' := cget (st_clients (run (p ++ [SClient c cc]))) c in
  c_count cl' = c_count cl /\ all_ops cl' = all_ops cl.
Proof. exact (other_calls_keep_counter p c cc). Qed.
Print Assumptions C18_other_calls_keep_counter.

(* ------------------------------------------------------------------ lifecycle *)

(* Start — the first one or a later one, after Stop or not — keeps what belongs to the fluent client:
   the id counter, the current election id, the connection settings, everything queued so far. *)
Theorem C18_restart_keeps (p : list step) (c : cid) :
  let cl := cget (st_clients (run p)) c in
  let cl' := cget (st_clients (run (p ++ [SClient c CStart]))) c in
  c_count cl' = c_count cl /\ c_cur cl' = c_cur cl /\ c_mode cl' = c_mode cl /\ c_init cl' = c_init cl
  /\ c_persist cl' = c_persist cl /\ c_fiback cl' = c_fiback cl /\ all_ops cl' = all_ops cl.
Proof. exact (restart_keeps p c). Qed.
Print Assumptions C18_restart_keeps.

(* When it passes the check of fluent.go:178 (elected-primary mode needs an initial election id) it
   gives the fluent client a fresh client.Client: nothing queued, not sending, session parameters
   and handshake election id from the connection settings AS THEY ARE NOW (the handshake carries
   the initial id, not the current one); the replaced client.Client, if any, becomes the last of the
   past ones with its stream and its unsent queue as they were. *)
Theorem C18_restart_fresh (p : list step) (c : cid) :
  let cl := cget (st_clients (run p)) c in
  let cl' := cget (st_clients (run (p ++ [SClient c CStart]))) c in
  (c_mode cl =? 2) && (match c_init cl with None => true | Some _ => false end) = false ->
  c_started cl' = true /\ c_sending cl' = false /\ c_stopped cl' = false /\ queued cl' = [] /\ c_fatals cl' = c_fatals cl
  /\ c_params cl' = start_params cl /\ c_elec0 cl' = (if c_mode cl =? 2 then c_init cl else None)
  /\ c_past cl' = c_past cl ++ (if c_started cl then [MkInc (c_sent cl) (c_sendq cl)] else []).
Proof. exact (restart_fresh p c). Qed.
Print Assumptions C18_restart_fresh.

(* When it fails the check (t.Fatalf before client.New) the client.Client in place stays in place. *)
Theorem C18_restart_fatal (p : list step) (c : cid) :
  let cl := cget (st_clients (run p)) c in
  let cl' := cget (st_clients (run (p ++ [SClient c CStart]))) c in
  (c_mode cl =? 2) && (match c_init cl with None => true | Some _ => false end) = true ->
  c_fatals cl' = c_fatals cl + 1 /\ c_started cl' = c_started cl /\ c_sending cl' = c_sending cl /\ c_stopped cl' = c_stopped cl
  /\ c_sent cl' = c_sent cl /\ c_sendq cl' = c_sendq cl /\ c_past cl' = c_past cl.
Proof. exact (restart_fatal p c). Qed.
Print Assumptions C18_restart_fatal.

(* Stop: the current client.Client stops sending and stays in place — what it sent and what it holds
   are kept, later calls queue on it (unsent) and go on consuming ids. *)
Theorem C18_stop (p : list step) (c : cid) :
  let cl := cget (st_clients (run p)) c in
  let cl' := cget (st_clients (run (p ++ [SClient c CStop]))) c in
  c_count cl' = c_count cl /\ c_cur cl' = c_cur cl /\ c_mode cl' = c_mode cl /\ c_init cl' = c_init cl
  /\ c_started cl' = c_started cl /\ c_sent cl' = c_sent cl /\ c_sendq cl' = c_sendq cl /\ c_past cl' = c_past cl
  /\ (c_started cl = true -> c_sending cl' = false /\ c_stopped cl' = true).
Proof. exact (stop_exact p c). Qed.
Print Assumptions C18_stop.

(* The client.Clients a later Start replaced are never touched again. *)
Theorem C18_past_incarnations_stable (p q : list step) (c : cid) :
  exists l, c_past (cget (st_clients (run (p ++ q))) c) = c_past (cget (st_clients (run p)) c) ++ l.
Proof. exact (past_stable p q c). Qed.
Print Assumptions C18_past_incarnations_stable.

(* ------------------------------------------------------------------ operation type *)

(* Every queued operation was queued by an AddEntry (1 = ADD), ReplaceEntry (2 = REPLACE) or
   DeleteEntry (3 = DELETE) call on this client and carries that type. *)
Theorem C18_op_type (p : list step) (c : cid) (o : op_msg) :
  In o (all_ops (cget (st_clients (run p)) c)) ->
  exists pre cc k bs, In (pre, cc) (client_calls c p) /\ opk_of cc = Some (k, bs) /\ o_op o = k.
Proof. exact (op_type_exact p c o). Qed.
Print Assumptions C18_op_type.

Theorem C18_op_type_range (p : list step) (c : cid) (o : op_msg) :
  In o (all_ops (cget (st_clients (run p)) c)) -> o_op o = 1 \/ o_op o = 2 \/ o_op o = 3.
Proof. exact (op_type_range p c o). Qed.
Print Assumptions C18_op_type_range.

(* ------------------------------------------------------------------ election stamp *)

(* A queued operation carries the entry's own election id if the entry has one (last
   WithElectionID on it before the call); else, in elected-primary mode (mode 2 at the time of
   the call), the client's current election id at the time of the call; else none. *)
Theorem C18_election_stamp (p : list step) (c : cid) (o : op_msg) :
  In o (all_ops (cget (st_clients (run p)) c)) ->
  exists pre cc k bs b e,
    In (pre, cc) (client_calls c p) /\ opk_of cc = Some (k, bs) /\ In b bs /\ spec_store pre b = Some (BE e)
    /\ let cl := cget (st_clients (run pre)) c in
       o_elec o = match b_elec e with
                  | Some own => Some own
                  | None => if c_mode cl =? 2 then c_cur cl else None
                  end.
Proof. exact (stamp_exact p c o). Qed.
Print Assumptions C18_election_stamp.

(* The current election id of a client is the argument of the last WithInitialElectionID or
   UpdateElectionID call made on it (UpdateElectionID before a successful Start is not a
   program: g.c is nil and the call panics), none if there was no such call — Start and Stop are
   not in the table: the current id survives a restart ... *)
Theorem C18_current_election_id (p : list step) (c : cid) :
  c_cur (cget (st_clients (run p)) c)
  = last_or (fun pc => sets_cur (c_started (cget (st_clients (run (fst pc))) c)) (snd pc)) None (client_calls c p).
Proof. exact (cur_exact p c). Qed.
Print Assumptions C18_current_election_id.

(* ... and the redundancy mode is the argument of the last WithRedundancyMode call. *)
Theorem C18_current_mode (p : list step) (c : cid) :
  c_mode (cget (st_clients (run p)) c) = last_or (fun pc => sets_mode (snd pc)) 0 (client_calls c p).
Proof. exact (mode_exact p c). Qed.
Print Assumptions C18_current_mode.

(* ------------------------------------------------------------------ non-vacuity *)

(* one program with: a repeated setter (last wins), the three appending methods, a header changed
   after AddEncapHeader (visible) and after AddEntry (not visible in the queued message), an
   entry with its own election id, an election id update between two calls, queueing before
   and after StartSending *)
Open Scope string_scope.

Definition C18_prog : list step :=
  [SNew 1 KMplsHdr; SNew 2 KNH; SNew 3 KNHG;
   SCall 1 (WithLabels [10]);
   SCall 2 (WithIndex 7); SCall 2 (WithIndex 1); SCall 2 (AddEncapHeader [1; 1]);
   SCall 1 (WithLabels [20]);
   SCall 3 (WithID 5); SCall 3 (AddNextHop 1 3); SCall 3 (AddNextHop 1 4); SCall 3 (WithElectionID 9 8);
   SClient 0 (CWithRedundancyMode 2); SClient 0 (CWithInitialElectionID 1 0); SClient 0 CStart;
   SClient 0 (CAddEntry [2; 3]);
   SCall 1 (WithLabels [30]); SCall 2 (WithNetworkInstance "VRF");
   SClient 0 (CUpdateElectionID 2 0);
   SClient 0 CStartSending;
   SClient 0 (CDeleteEntry [2])].

Example C18_example_stream :
  stream_of (run C18_prog) 0
  = [MkReq [] (Some (1, 0, 0)) None;
     MkReq [] None (Some (0, 1));
     MkReq [MkOp 1 "" 1 (Some (0, 1))
                 (PNH (MkNh 1 (Some (MkBody None None None None None None [] [(1, MkEncap 4 (Some [10; 20]) None); (2, MkEncap 4 (Some [10; 20]) None)] 0 0))));
            MkOp 2 "" 1 (Some (8, 9)) (PNHG (MkNhg 5 None [(1, 3); (1, 4)]))] None None;
     MkReq [] None (Some (0, 2));
     MkReq [MkOp 3 "VRF" 3 (Some (0, 2))
                 (PNH (MkNh 1 (Some (MkBody None None None None None None [] [(1, MkEncap 4 (Some [10; 20; 30]) None); (2, MkEncap 4 (Some [10; 20; 30]) None)] 0 0))))] None None].
Proof. vm_compute. reflexivity. Qed.

Example C18_example_ids : map o_id (all_ops (cget (st_clients (run C18_prog)) 0)) = [1; 2; 3].
Proof. vm_compute. reflexivity. Qed.

Example C18_example_types : map o_op (all_ops (cget (st_clients (run C18_prog)) 0)) = [1; 1; 3].
Proof. vm_compute. reflexivity. Qed.

Example C18_example_stamps :
  map o_elec (all_ops (cget (st_clients (run C18_prog)) 0)) = [Some (0, 1); Some (8, 9); Some (0, 2)].
Proof. vm_compute. reflexivity. Qed.

(* outside elected-primary mode nothing is stamped unless the entry says so itself *)
Example C18_example_all_primary :
  map o_elec (all_ops (cget (st_clients (run
    [SNew 1 KIPv4; SNew 2 KIPv6; SCall 2 (WithElectionID 4 0);
     SClient 0 (CWithRedundancyMode 1); SClient 0 (CWithInitialElectionID 1 0); SClient 0 CStart;
     SClient 0 (CReplaceEntry [1; 2])])) 0))
  = [None; Some (0, 4)].
Proof. vm_compute. reflexivity. Qed.

(* the tables at work: last call wins, appends concatenate, unset stays absent *)
Example C18_example_tables :
  spec_builder KNH [WithIPAddress "a"; WithInterfaceRef "e0"; WithSubinterfaceRef "e1" 3; WithIPAddress "b";
                    WithInterfaceRef "e2"; AddEncapHeader [4]; AddEncapHeader [5; 4]; WithDecapsulateHeader 1; WithDecapsulateHeader 9]
  = BE (MkEB "" None (ENH (MkNhSt 0 true
         (MkBody (Some "b") (Some ("e2", None)) None None None None [] [(1, 4); (2, 5); (3, 4)] 0 0)))).
Proof. vm_compute. reflexivity. Qed.

(* the lifecycle at work (what the compliance suite's flushServer does, plus an id update in between):
   start, queue, send, update the election id, stop, queue on the stopped client (unsent), start again,
   queue, send.  Ids run on over the restart (1, 2 | 3 unsent | 4, 5); the second handshake carries the
   INITIAL election id (0,1) while the operations are stamped with the CURRENT one (0,2). *)
Definition C18_restart_prog : list step :=
  [SNew 1 KIPv4; SCall 1 (WithPrefix "1.0.0.0/8");
   SClient 0 (CWithRedundancyMode 2); SClient 0 (CWithInitialElectionID 1 0); SClient 0 CStart;
   SClient 0 (CAddEntry [1; 1]); SClient 0 CStartSending;
   SClient 0 (CUpdateElectionID 2 0);
   SClient 0 CStop;
   SClient 0 (CDeleteEntry [1]);
   SClient 0 CStart;
   SClient 0 (CReplaceEntry [1]); SClient 0 CStartSending; SClient 0 (CAddEntry [1])].

Example C18_example_restart_ids :
  map (fun i => map o_id (inc_ops i)) (incarnations (cget (st_clients (run C18_restart_prog)) 0)) = [[1; 2; 3]; [4; 5]].
Proof. vm_compute. reflexivity. Qed.

Example C18_example_restart_streams :
  incs_of (run C18_restart_prog) 0
  = [MkInc [MkReq [] (Some (1, 0, 0)) None;
            MkReq [] None (Some (0, 1));
            MkReq [MkOp 1 "" 1 (Some (0, 1)) (PIPv4 (MkIp "1.0.0.0/8" None None None));
                   MkOp 2 "" 1 (Some (0, 1)) (PIPv4 (MkIp "1.0.0.0/8" None None None))] None None;
            MkReq [] None (Some (0, 2))]
           [MkReq [MkOp 3 "" 3 (Some (0, 2)) (PIPv4 (MkIp "1.0.0.0/8" None None None))] None None];
     MkInc [MkReq [] (Some (1, 0, 0)) None;
            MkReq [] None (Some (0, 1));
            MkReq [MkOp 4 "" 2 (Some (0, 2)) (PIPv4 (MkIp "1.0.0.0/8" None None None))] None None;
            MkReq [MkOp 5 "" 1 (Some (0, 2)) (PIPv4 (MkIp "1.0.0.0/8" None None None))] None None]
           []].
Proof. vm_compute. reflexivity. Qed.
