(* C10 — Client disconnects / abandoned RPCs never change state or wedge the server.
   Statements only; proofs in Server/Facts.v, Server/Serviceable.v, Conc/GetProto.v.
   PARTIAL: part (b) is a theorem about the channel / lock protocol written in gribigo; gRPC stream
   cancellation, the Go scheduler and sync.RWMutex are modelled, not verified.  The runtime half is
   the fault enumeration of the harness. *)
From Coq Require Import List NArith Bool Relations.
From GV.Base Require Import Alist U128 Op.
From GV.Rib Require Import Model Lemmas RefCount Closed.
From GV.Server Require Import Model Obs Facts Inst Serviceable Compose MidBatch.
From GV.Conc Require Import GetProto.
Import ListNotations.
Open Scope N_scope.

(* (a) a session that goes away — clean half-close or failure — at any point leaves the RIB, the held
   operations and the election state exactly as they were, and removes only its own record *)
Theorem C10_disconnect_preserves (E R : Type) has_ni add del (s : srv R) c :
  let s1 := fst (GV.Server.Model.step E R has_ni add del sv_fixed s (HalfClose E c)) in
  let s2 := fst (GV.Server.Model.step E R has_ni add del sv_fixed s (Abort E c)) in
  rib s1 = rib s /\ cur s1 = cur s /\ master s1 = master s /\ Model.sget R c s1 = None /\ others_same R c s s1
  /\ rib s2 = rib s /\ cur s2 = cur s /\ master s2 = master s /\ Model.sget R c s2 = None /\ others_same R c s s2.
Proof. exact (disconnect_preserves E R has_ni add del s c). Qed.
Print Assumptions C10_disconnect_preserves.

(* (a) serviceability: from any state with the reachable-state invariants in which no session is live,
   a fresh session negotiates, wins the election with any non-zero id not lower than the learnt one,
   gets a next-hop programmed and reads the RIB; its Flush with that id is authorised (C08_effect) *)
Theorem C10_serviceable (s : srv ribt) c ack id opid idx x :
  ss s = [] -> INV (srib s) -> PWF (srib s) -> has_ni (srib s) 1 = true ->
  u128_is_zero id = false -> match cur s with Some cu => u128_leb cu id = true | None => True end -> idx <> 0 ->
  let st := sstep v_fixed sv_fixed in
  let op := mk_hop opid 1 ADD (Some id) (ENh idx (Some (mk_nh x))) [] [] in
  let pm := {| p_red := 1; p_pers := 1; p_ack := ack |} in
  let s1 := fst (st s (SIn (Connect hentry c))) in
  let s2 := fst (st s1 (SIn (Msg hentry c (MParams hentry pm)))) in
  let s3 := fst (st s2 (SIn (Msg hentry c (MElect hentry id)))) in
  let s4 := fst (st s3 (SIn (Msg hentry c (MOps hentry [op])))) in
  snd (st s1 (SIn (Msg hentry c (MParams hentry pm)))) = OMod (mkout [RParamsOK] None)
  /\ snd (st s2 (SIn (Msg hentry c (MElect hentry id)))) = OMod (mkout [RElect (Some id)] None)
  /\ (exists rs, snd (st s3 (SIn (Msg hentry c (MOps hentry [op])))) = OMod (mkout [RResults ((opid, RIB_PROGRAMMED) :: rs)] None))
  /\ (exists l, snd (st s4 (SGet (mk_getreq NAll A_ALL))) = OGet (Some l))
  /\ cur s4 = Some id.
Proof. intros. apply fresh_session_serviced; assumption. Qed.
Print Assumptions C10_serviceable.

(* (a) a request cut off by a transport failure while it is being answered: however many of its operations (any
   prefix: j of them) the server applies before it notices, the state is that of an ordinary history - the
   reference-count invariant and well-formedness hold, the session's record is gone, the election state and
   every other session are as they were.  (The harness checks that the implementation's state is the model's
   for one of these j.) *)
Theorem C10_cut_request_state nf vrfs h c ops j :
  let s0 := snd (strace v_fixed sv_fixed (srv_init nf vrfs) h) in
  let s' := snd (strace v_fixed sv_fixed s0 (cut_alt c ops j)) in
  INV (srib s') /\ WF (srib s') /\ Model.sget ribt c s' = None
  /\ cur s' = cur s0 /\ master s' = master s0 /\ others_same ribt c s0 s'.
Proof. exact (cut_request_state nf vrfs h c ops j). Qed.
Print Assumptions C10_cut_request_state.

Theorem C10_own_flush_authorised id n : u128_is_zero id = false ->
  check_flush (Some id) (mk_flushreq (FId id) NAll) = F_OK /\ check_flush (Some id) (mk_flushreq (FId id) (NName n)) = F_OK.
Proof. exact (own_id_flush_authorised id n). Qed.
Print Assumptions C10_own_flush_authorised.

(* (b) the Get protocol after the repair: for every number of entries n, every cut point k (the
   response at which stream.Send fails; k >= n: never) and every schedule, every execution is finite
   and every state in which nothing can move has the producer terminated and the lock released *)
Theorem C10_get_terminates n k s : Inv n true s -> Acc (fun b a => Inv n true a /\ step n k true a b) s.
Proof. exact (get_releases_lock n k true eq_refl s). Qed.
Print Assumptions C10_get_terminates.

Theorem C10_get_releases_lock n k s : Inv n true s -> (forall s', ~ step n k true s s') -> final s.
Proof. exact (terminal_is_final n k s). Qed.
Print Assumptions C10_get_releases_lock.

Theorem C10_get_invariant n k s s' : Inv n true s -> step n k true s s' -> Inv n true s'.
Proof. exact (inv_step n k true s s'). Qed.
Print Assumptions C10_get_invariant.

(* the protocol of the pinned tree wedges holding the read lock: 2 entries, Send fails at the first *)
Theorem C10_get_wedges_tree_refuted :
  clos_refl_trans _ (step 2%nat 0%nat false) init wedge /\ (forall s', ~ step 2%nat 0%nat false wedge s') /\ lock wedge = 1%nat /\ ~ final wedge.
Proof. exact (conj wedge_reachable (conj wedge_stuck wedge_holds_lock)). Qed.
Print Assumptions C10_get_wedges_tree_refuted.

(* (b) the shape of that protocol is read off the source on every run.  Generated/ChanTable.v (tools/gen_chantable)
   lists every channel operation of packages rib and server with its syntactic context; the obligations below are
   closed boolean computations on it (Conc/ChanDefs.v), so a change of the source that breaks one of them makes
   this file fail to compile.  Qualified names: ChanDefs / ChanFacts are not imported. *)
From GV.Conc Require ChanDefs ChanFacts.
From GV.Generated Require ChanTable.

(* every send on a channel made by the Get handler - the five table loops of GetRIB, doGet's deferred done signal,
   sendErr - is the comm of a select without default that also receives from stopCh: the producer can always be
   stopped (transition s_pstop / s_done_stop of the LTS).  F10 and two seeded regressions were a plain send, or a
   poll of stopCh followed by a plain send, in one of the five loops *)
Theorem C10_getrib_sends_stoppable : ChanDefs.getrib_sends_stoppable ChanTable.chan_table = true.
Proof. exact ChanFacts.getrib_sends_stoppable_ok. Qed.
Print Assumptions C10_getrib_sends_stoppable.

(* non-vacuity: the sends of (at least) five loops are seen, all of them in GetRIB *)
Theorem C10_getrib_sends_seen :
  ChanDefs.unstoppable_get_sends ChanTable.chan_table = [] /\ ChanDefs.producer_sends_in_getrib ChanTable.chan_table = true.
Proof. exact ChanFacts.getrib_sends_stoppable_details. Qed.
Print Assumptions C10_getrib_sends_seen.

(* the handler: stopCh is closed by a defer registered unconditionally before the producer is spawned and before any
   return - so on every exit, a failing stream.Send included - and nothing else is closed; stopCh is never sent on;
   the handler sends on no channel and waits for a message only in a select that also listens on errCh and doneCh;
   the four channels are unbuffered; every receive from stopCh in the producer returns *)
Theorem C10_get_handler_closes_stop :
  ChanDefs.get_handler_ok ChanTable.chan_table = true /\ ChanDefs.get_channels_rendezvous ChanTable.chan_table = true
  /\ ChanDefs.stop_receives_exit ChanTable.chan_table = true.
Proof. exact (conj ChanFacts.get_handler_ok_ok (conj ChanFacts.get_channels_rendezvous_ok ChanFacts.stop_receives_exit_ok)). Qed.
Print Assumptions C10_get_handler_closes_stop.

(* the producer: doGet's first statement defers the done signal; GetRIB releases the instance lock by a deferred
   unlock; every error report made under a failed test (unknown instance, nil request, failed GetRIB) is followed
   by return (a seeded regression dropped one and went on with a nil instance) *)
Theorem C10_doget_exits :
  ChanDefs.doget_exits_ok ChanTable.chan_table = true /\ ChanDefs.report_then_return ChanTable.chan_table = true
  /\ ChanDefs.report_views_agree ChanTable.chan_table = true.
Proof. exact (conj ChanFacts.doget_exits_ok_ok (conj ChanFacts.report_then_return_ok ChanFacts.report_views_agree_ok)). Qed.
Print Assumptions C10_doget_exits.

(* no channel operation that can block for ever once its partner has gone away with the RPC (anything but a receive
   from a stop signal or a select with one) is made holding a lock of rib / server *)
Theorem C10_blocking_ops_hold_no_lock :
  ChanDefs.blocking_ops_hold_no_lock ChanFacts.inherited_locks ChanTable.chan_table = true.
Proof. exact ChanFacts.blocking_ops_hold_no_lock_ok. Qed.
Print Assumptions C10_blocking_ops_hold_no_lock.

(* the link: the flag `fixed` of the LTS instantiated with the conjunction of these obligations computed on the
   source (ChanFacts.source_fixed) - the protocol the source follows terminates and releases the lock; with the
   flag false it is the protocol of C10_get_wedges_tree_refuted *)
Theorem C10_source_fixed_is_computed_from_table :
  ChanFacts.source_fixed = ChanFacts.get_protocol_of ChanTable.chan_table.
Proof. unfold ChanFacts.source_fixed. reflexivity. Qed.
Print Assumptions C10_source_fixed_is_computed_from_table.

Theorem C10_source_follows_fixed_protocol : ChanFacts.source_fixed = true.
Proof. exact ChanFacts.source_is_fixed_protocol. Qed.
Print Assumptions C10_source_follows_fixed_protocol.

Theorem C10_source_producer_can_stop n k s i :
  pp s = P1 i -> (i < n)%nat -> stop s = true ->
  step n k ChanFacts.source_fixed s {| pp := P3; hp := hp s; stop := stop s; lock := lock s |}.
Proof. exact (ChanFacts.source_producer_can_stop n k s i). Qed.
Print Assumptions C10_source_producer_can_stop.

Theorem C10_get_of_source_terminates n k s :
  Inv n ChanFacts.source_fixed s ->
  Acc (fun b a => Inv n ChanFacts.source_fixed a /\ step n k ChanFacts.source_fixed a b) s.
Proof. exact (ChanFacts.source_get_terminates n k s). Qed.
Print Assumptions C10_get_of_source_terminates.

Theorem C10_get_of_source_releases_lock n k s :
  Inv n ChanFacts.source_fixed s ->
  (forall s', ~ step n k ChanFacts.source_fixed s s') -> final s.
Proof. exact (ChanFacts.source_get_releases_lock n k s). Qed.
Print Assumptions C10_get_of_source_releases_lock.

(* a cut-off session is torn down (deleteClient) while other sessions announce, program and flush: the order in
   which the server's locks are taken while others are held - in the functions of this run's source, callees
   included - has no cycle, a recursive read acquisition counting as one (a writer queued in between blocks the
   second read for ever), so no set of RPCs can wedge each other (C11_ranked_locks_no_deadlock_cycle is the
   general argument) *)
From GV.Conc Require LockDefs LockOrder.
From GV.Generated Require LockTable.
Theorem C10_no_lock_cycle : LockOrder.cyclic_locks LockTable.lock_table = [].
Proof. vm_compute. reflexivity. Qed.
Print Assumptions C10_no_lock_cycle.

(* several sessions can lose their clients at the same moment (one failing transport carries many streams), and a
   new session can be negotiating meanwhile: the tear-down path writes the session table, so on the source of this
   run every write to a guarded field happens under the exclusive mode of its guard and every read under at least
   the shared mode (a table written under the shared mode is a concurrent map write: the Go runtime ends the whole
   process, a harmless disconnect taking the server down for everyone) *)
Theorem C10_teardown_lock_discipline : LockOrder.bad_accesses LockTable.lock_table = [].
Proof. vm_compute. reflexivity. Qed.
Print Assumptions C10_teardown_lock_discipline.


(* an abandoned or rejected RPC takes the error paths of the functions it runs through: none of them - in the source
   of this run - returns with a lock it took still held (each return and the end of each body, branch by branch;
   see C11_no_lock_leaked), so a session that went away cannot leave a lock behind for the next writer to wait on *)
Theorem C10_no_lock_leaked : LockOrder.no_lock_leaked LockTable.lock_table = true.
Proof. vm_compute. reflexivity. Qed.
Print Assumptions C10_no_lock_leaked.
