(* C10 — Client disconnects / abandoned RPCs never change state or wedge the server.
   Statements only; proofs in Server/Facts.v, Server/Serviceable.v, Conc/GetProto.v.
   PARTIAL: part (b) is a theorem about the channel / lock protocol written in gribigo; gRPC stream
   cancellation, the Go scheduler and sync.RWMutex are modelled, not verified.  The runtime half is
   the fault enumeration of the harness. *)
From Coq Require Import List NArith Bool Relations.
From GV.Base Require Import Alist U128 Op.
From GV.Rib Require Import Model Lemmas RefCount Closed.
From GV.Server Require Import Model Obs Facts Inst Serviceable Compose MidBatch.
From GV.Conc Require Import GetProto.
Import ListNotations.
Open Scope N_scope.

(* (a) a session that goes away — clean half-close or failure — at any point leaves the RIB, the held
   operations and the election state exactly as they were, and removes only its own record *)
Theorem C10_disconnect_preserves (E R : Type) has_ni add del (s : srv R) c :
  let s1 := fst (GV.Server.Model.step E R has_ni add del sv_fixed s (HalfClose E c)) in
  let s2 := fst (GV.Server.Model.step E R has_ni add del sv_fixed s (Abort E c)) in
  rib s1 = rib s /\ cur s1 = cur s /\ master s1 = master s /\ Model.sget R c s1 = None /\ others_same R c s s1
  /\ rib s2 = rib s /\ cur s2 = cur s /\ master s2 = master s /\ Model.sget R c s2 = None /\ others_same R c s s2.
Proof. exact (disconnect_preserves E R has_ni add del s c). Qed.
Print Assumptions C10_disconnect_preserves.

(* (a) serviceability: from any state with the reachable-state invariants in which no session is live,
   a fresh session negotiates, wins the election with any non-zero id not lower than the learnt one,
   gets a next-hop programmed and reads the RIB; its Flush with that id is authorised (C08_effect) *)
Theorem C10_serviceable (s : srv ribt) c ack id opid idx x :
  ss s = [] -> INV (srib s) -> PWF (srib s) -> has_ni (srib s) 1 = true ->
  u128_is_zero id = false -> match cur s with Some cu => u128_leb cu id = true | None => True end -> idx <> 0 ->
  let st := sstep v_fixed sv_fixed in
  let op := mk_hop opid 1 ADD (Some id) (ENh idx (Some (mk_nh x))) [] [] in
  let pm := {| p_red := 1; p_pers := 1; p_ack := ack |} in
  let s1 := fst (st s (SIn (Connect hentry c))) in
  let s2 := fst (st s1 (SIn (Msg hentry c (MParams hentry pm)))) in
  let s3 := fst (st s2 (SIn (Msg hentry c (MElect hentry id)))) in
  let s4 := fst (st s3 (SIn (Msg hentry c (MOps hentry [op])))) in
  snd (st s1 (SIn (Msg hentry c (MParams hentry pm)))) = OMod (mkout [RParamsOK] None)
  /\ snd (st s2 (SIn (Msg hentry c (MElect hentry id)))) = OMod (mkout [RElect (Some id)] None)
  /\ (exists rs, snd (st s3 (SIn (Msg hentry c (MOps hentry [op])))) = OMod (mkout [RResults ((opid, RIB_PROGRAMMED) :: rs)] None))
  /\ (exists l, snd (st s4 (SGet (mk_getreq NAll A_ALL))) = OGet (Some l))
  /\ cur s4 = Some id.
Proof. intros. apply fresh_session_serviced; assumption. Qed.
Print Assumptions C10_serviceable.

(* (a) a request cut off by a transport failure while it is being answered: however many of its operations (any
   prefix: j of them) the server applies before it notices, the state is that of an ordinary history - the
   reference-count invariant and well-formedness hold, the session's record is gone, the election state and
   every other session are as they were.  (The harness checks that the implementation's state is the model's
   for one of these j.) *)
Theorem C10_cut_request_state nf vrfs h c ops j :
  let s0 := snd (strace v_fixed sv_fixed (srv_init nf vrfs) h) in
  let s' := snd (strace v_fixed sv_fixed s0 (cut_alt c ops j)) in
  INV (srib s') /\ WF (srib s') /\ Model.sget ribt c s' = None
  /\ cur s' = cur s0 /\ master s' = master s0 /\ others_same ribt c s0 s'.
Proof. exact (cut_request_state nf vrfs h c ops j). Qed.
Print Assumptions C10_cut_request_state.

Theorem C10_own_flush_authorised id n : u128_is_zero id = false ->
  check_flush (Some id) (mk_flushreq (FId id) NAll) = F_OK /\ check_flush (Some id) (mk_flushreq (FId id) (NName n)) = F_OK.
Proof. exact (own_id_flush_authorised id n). Qed.
Print Assumptions C10_own_flush_authorised.

(* (b) the Get protocol after the repair: for every number of entries n, every cut point k (the
   response at which stream.Send fails; k >= n: never) and every schedule, every execution is finite
   and every state in which nothing can move has the producer terminated and the lock released *)
Theorem C10_get_terminates n k s : Inv n true s -> Acc (fun b a => Inv n true a /\ step n k true a b) s.
Proof. exact (get_releases_lock n k true eq_refl s). Qed.
Print Assumptions C10_get_terminates.

Theorem C10_get_releases_lock n k s : Inv n true s -> (forall s', ~ step n k true s s') -> final s.
Proof. exact (terminal_is_final n k s). Qed.
Print Assumptions C10_get_releases_lock.

Theorem C10_get_invariant n k s s' : Inv n true s -> step n k true s s' -> Inv n true s'.
Proof. exact (inv_step n k true s s'). Qed.
Print Assumptions C10_get_invariant.

(* the protocol of the pinned tree wedges holding the read lock: 2 entries, Send fails at the first *)
Theorem C10_get_wedges_tree_refuted :
  clos_refl_trans _ (step 2%nat 0%nat false) init wedge /\ (forall s', ~ step 2%nat 0%nat false wedge s') /\ lock wedge = 1%nat /\ ~ final wedge.
Proof. exact (conj wedge_reachable (conj wedge_stuck wedge_holds_lock)). Qed.
Print Assumptions C10_get_wedges_tree_refuted.
