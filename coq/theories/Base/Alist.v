(* Association lists with boolean key equality: aget / aset / adel and counting. *)
From Coq Require Import List Bool Arith Lia Permutation.
Import ListNotations.

Section Alist.
  Context {K V : Type}.
  Variable eqb : K -> K -> bool.
  Hypothesis eqb_spec : forall a b, reflect (a = b) (eqb a b).

  Definition alist := list (K * V).

  Definition aget (k : K) (l : alist) : option V :=
    match find (fun kv => eqb k (fst kv)) l with
    | Some kv => Some (snd kv)
    | None => None
    end.
  Definition adel (k : K) (l : alist) : alist :=
    filter (fun kv => negb (eqb k (fst kv))) l.
  Definition aset (k : K) (v : V) (l : alist) : alist := (k, v) :: adel k l.
  Definition amem (k : K) (l : alist) : bool :=
    match aget k l with Some _ => true | None => false end.

  Definition keys (l : alist) : list K := map fst l.
  Definition wf (l : alist) : Prop := NoDup (keys l).

  Lemma eqb_refl k : eqb k k = true.
  Proof. destruct (eqb_spec k k); congruence. Qed.
  Lemma eqb_neq a b : a <> b -> eqb a b = false.
  Proof. intros H; destruct (eqb_spec a b); congruence. Qed.

  Lemma aget_adel_same k l : aget k (adel k l) = None.
  Proof.
    unfold aget, adel. induction l as [|[k' v'] l IH]; simpl; auto.
    destruct (eqb k k') eqn:E; simpl; auto. rewrite E. auto.
  Qed.
  Lemma aget_adel_other k k' l : k <> k' -> aget k (adel k' l) = aget k l.
  Proof.
    intros Hne. unfold aget, adel. induction l as [|[k2 v2] l IH]; simpl; auto.
    destruct (eqb_spec k' k2) as [->|Hn]; simpl.
    - rewrite (eqb_neq k k2) by auto. exact IH.
    - destruct (eqb k k2); auto.
  Qed.
  Lemma aget_aset_same k v l : aget k (aset k v l) = Some v.
  Proof. unfold aget, aset; simpl. rewrite eqb_refl. reflexivity. Qed.
  Lemma aget_aset_other k k' v l : k <> k' -> aget k (aset k' v l) = aget k l.
  Proof.
    intros Hne. unfold aset. unfold aget at 1. simpl. rewrite (eqb_neq k k') by auto.
    fold (aget k (adel k' l)). apply aget_adel_other; auto.
  Qed.

  Lemma keys_adel k l : forall x, In x (keys (adel k l)) <-> In x (keys l) /\ x <> k.
  Proof.
    intros x. unfold keys, adel. induction l as [|[k2 v2] l IH]; simpl; [tauto|].
    destruct (eqb_spec k k2) as [->|Hn]; simpl; rewrite IH; intuition congruence.
  Qed.
  Lemma wf_adel k l : wf l -> wf (adel k l).
  Proof.
    unfold wf, keys, adel. induction l as [|[k2 v2] l IH]; simpl; intros H; [constructor|].
    inversion H as [|? ? Hni Hnd]; subst.
    destruct (eqb k k2); simpl; auto. constructor; auto.
    intros Hin. apply Hni. apply (proj1 (keys_adel k l k2)) in Hin. tauto.
  Qed.
  Lemma wf_aset k v l : wf l -> wf (aset k v l).
  Proof.
    intros H. unfold aset, wf; simpl. constructor.
    - intros Hin. apply keys_adel in Hin. tauto.
    - apply wf_adel; auto.
  Qed.
  Lemma wf_nil : wf [].
  Proof. constructor. Qed.

  (* Counting entries satisfying a predicate on (key,value). *)
  Definition acount (P : K * V -> bool) (l : alist) : nat := length (filter P l).

  Definition ind (b : bool) : nat := if b then 1 else 0.

  Lemma acount_cons P x l : acount P (x :: l) = ind (P x) + acount P l.
  Proof. unfold acount; simpl. destruct (P x); simpl; lia. Qed.

  Lemma aget_in k v l : aget k l = Some v -> In (k, v) l.
  Proof.
    unfold aget. destruct (find _ l) as [[k' v']|] eqn:F; [|discriminate].
    intros H; inversion H; subst. apply find_some in F. destruct F as [Hin He]. simpl in *.
    destruct (eqb_spec k k'); [subst; auto|discriminate].
  Qed.
  Lemma aget_none_notin k l : aget k l = None -> ~ In k (keys l).
  Proof.
    unfold aget, keys. induction l as [|[k2 v2] l IH]; simpl; [tauto|].
    destruct (eqb_spec k k2); [discriminate|]. intros H [Heq|Hin]; [congruence|]. apply IH; auto.
  Qed.

  (* with wf, deleting k removes exactly the binding aget returns *)
  Lemma acount_adel P k l : wf l ->
    acount P l = acount P (adel k l) + match aget k l with Some v => ind (P (k, v)) | None => 0 end.
  Proof.
    unfold wf, keys. induction l as [|[k2 v2] l IH]; simpl; intros H; [reflexivity|].
    inversion H as [|? ? Hni Hnd]; subst.
    unfold aget, adel; simpl. destruct (eqb_spec k k2) as [->|Hn]; simpl.
    - (* head is the binding; tail has no k2 *)
      rewrite acount_cons.
      assert (Hf : filter (fun kv => negb (eqb k2 (fst kv))) l = l).
      { clear IH H Hnd. induction l as [|[k3 v3] l IHl]; simpl; auto.
        destruct (eqb_spec k2 k3) as [->|]; simpl.
        - exfalso. apply Hni. simpl. auto.
        - f_equal. apply IHl. intros Hin. apply Hni. simpl. auto. }
      rewrite Hf. lia.
    - rewrite !acount_cons. specialize (IH Hnd). unfold aget, adel in IH. lia.
  Qed.

  Lemma acount_aset P k v l : wf l ->
    acount P (aset k v l) + match aget k l with Some v0 => ind (P (k, v0)) | None => 0 end
    = acount P l + ind (P (k, v)).
  Proof.
    intros H. unfold aset. rewrite acount_cons. rewrite (acount_adel P k l H). lia.
  Qed.
End Alist.

Arguments alist : clear implicits.

Section Asum.
  Context {K V : Type}.
  Variable eqb : K -> K -> bool.
  Hypothesis eqb_spec : forall a b, reflect (a = b) (eqb a b).
  Definition asum (f : K * V -> nat) (l : alist K V) : nat := fold_right (fun x a => f x + a) 0 l.

  Lemma asum_adel f k l : wf l ->
    asum f l = asum f (adel eqb k l) + match aget eqb k l with Some v => f (k, v) | None => 0 end.
  Proof.
    unfold wf, keys. induction l as [|[k2 v2] l IH]; simpl; intros H; [reflexivity|].
    inversion H as [|? ? Hni Hnd]; subst.
    unfold aget, adel; simpl. destruct (eqb_spec k k2) as [->|Hn]; simpl.
    - assert (Hf : filter (fun kv => negb (eqb k2 (fst kv))) l = l).
      { clear IH H Hnd. induction l as [|[k3 v3] l IHl]; simpl; auto.
        destruct (eqb_spec k2 k3) as [->|]; simpl.
        - exfalso. apply Hni. simpl. auto.
        - f_equal. apply IHl. intros Hin. apply Hni. simpl. auto. }
      rewrite Hf. lia.
    - specialize (IH Hnd). unfold aget, adel in IH. lia.
  Qed.
  Lemma asum_aset f k v l : wf l ->
    asum f (aset eqb k v l) + match aget eqb k l with Some v0 => f (k, v0) | None => 0 end
    = asum f l + f (k, v).
  Proof. intros H. unfold aset. simpl. rewrite (asum_adel f k l H). lia. Qed.
  Lemma asum_ext f g l : (forall x, In x l -> f x = g x) -> asum f l = asum g l.
  Proof. induction l as [|x l IH]; simpl; intros H; [reflexivity|]. rewrite H by (left; reflexivity). rewrite IH; [reflexivity|]. intros y Hy. apply H. right. exact Hy. Qed.
End Asum.
