(* A tiny deep embedding of the Go subset used by gribigo's decision functions
   (isNewMaster, checkElectionForModify, checkFlushRequest, runElection,
   checkParams, deleteClient, the dispatch switch of Modify's receive loop).
   tools/gen_decisions serialises the function bodies of the current source
   into this syntax (Generated/Decisions.v); the semantics below is fixed and
   hand-written.  [None] / [RPanic] = the Go code would panic (nil dereference)
   or uses a construct outside the subset.

   State.  A method's receiver is an ordinary variable of the environment bound
   to a [VPtr] of its fields.  The translator guarantees that the receiver is
   never copied, re-declared or passed on (it only occurs as [recv.field] and
   [recv.method(...)]), and the only field assignment of the subset is
   [recv.field = e]; pointees are therefore immutable inside the subset and
   value semantics for [VPtr] is sound.  Methods of the receiver that are not
   translated are *oracle calls*: their meaning is the table [mcall] below
   (hand-written from the Go text, see DESIGN.md). *)
From Coq Require Import List String NArith ZArith Bool.
From GV.Base Require Import U128.
Import ListNotations.
Open Scope string_scope.

Inductive gval :=
| VNil
| VU64 (n : N)
| VInt (z : Z)
| VBool (b : bool)
| VStr (s : string)
| VU128 (h l : N)
| VPtr (fields : list (string * gval))
| VOpaque (tag : string).

Inductive gexpr :=
| EVar (x : string)
| ENil
| ENum (n : N)
| EStr (s : string)
| EBool (b : bool)
| ESel (e : gexpr) (f : string)
| EBin (op : string) (a b : gexpr)
| ENot (e : gexpr)
| ECall (fn : string) (args : list gexpr)
| EOpaque (tag : string)
| EConst (name : string)                              (* spb.<enum constant> *)
| ENew (ty : string) (kvs : list (string * gexpr))    (* T{k: e, ...} / &T{...}, T a struct of package server *)
| EMsg (ty : string) (kvs : list (string * gexpr)).   (* &spb.T{k: e, ...} *)

Inductive gstmt :=
| SIf (c : gexpr) (th el : list gstmt)                (* also: a block ([SIf (EBool true) l []]) *)
| SDecl (x : string) (e : gexpr)                      (* x := e *)
| SSet (x : string) (e : gexpr)                       (* x = e, x a variable in scope *)
| SSetField (r f : string) (e : gexpr)                (* r.f = e, r the receiver *)
| SCallF (decl : bool) (xs : list string) (fn : string) (args : list gexpr)
                                                      (* xs := fn(args) / xs = fn(args), fn a translated function *)
| SCallM (decl : bool) (xs : list string) (r : string) (fn : string) (args : list gexpr)
                                                      (* xs := r.fn(args), r the receiver: may change r's fields *)
| SDelete (r f : string) (k : gexpr)                  (* delete(r.f, k) *)
| SReturn (rs : list gexpr)
| SSkip.                                              (* logging, Lock/Unlock/defer Unlock of a mutex field *)

Definition env := list (string * gval).

Fixpoint lookup (x : string) (e : list (string * gval)) : option gval :=
  match e with
  | [] => None
  | (y, v) :: tl => if String.eqb x y then Some v else lookup x tl
  end.

(* assignment to an existing variable / field: the first binding is replaced in place *)
Fixpoint set_first (x : string) (v : gval) (e : list (string * gval)) : option (list (string * gval)) :=
  match e with
  | [] => None
  | (y, w) :: tl =>
    if String.eqb x y then Some ((y, v) :: tl)
    else match set_first x v tl with Some tl' => Some ((y, w) :: tl') | None => None end
  end.

Definition cmp_int (c : comparison) : Z := match c with Lt => (-1)%Z | Eq => 0%Z | Gt => 1%Z end.

(* comparison of string *data* (kept apart from the comparison of variable / field names so that
   proofs can reduce the latter and leave the former symbolic) *)
Definition data_str_eqb (a b : string) : bool := String.eqb a b.

(* an untyped Go constant compared with an int: coerce the constant *)
Definition coerce (a b : gval) : gval * gval :=
  match a, b with
  | VInt x, VU64 y => (VInt x, VInt (Z.of_N y))
  | VU64 x, VInt y => (VInt (Z.of_N x), VInt y)
  | _, _ => (a, b)
  end.

Definition bin (op : string) (a0 b0 : gval) : option gval :=
  let '(a, b) := coerce a0 b0 in
  match op, a, b with
  | "==", VNil, VNil => Some (VBool true)
  | "==", VNil, VPtr _ | "==", VPtr _, VNil => Some (VBool false)
  | "!=", VNil, VNil => Some (VBool false)
  | "!=", VNil, VPtr _ | "!=", VPtr _, VNil => Some (VBool true)
  (* a constructed error / response is not nil *)
  | "==", VNil, VOpaque _ | "==", VOpaque _, VNil => Some (VBool false)
  | "!=", VNil, VOpaque _ | "!=", VOpaque _, VNil => Some (VBool true)
  | "==", VU64 x, VU64 y => Some (VBool (N.eqb x y))
  | "!=", VU64 x, VU64 y => Some (VBool (negb (N.eqb x y)))
  | "<", VU64 x, VU64 y => Some (VBool (N.ltb x y))
  | ">", VU64 x, VU64 y => Some (VBool (N.ltb y x))
  | "<=", VU64 x, VU64 y => Some (VBool (N.leb x y))
  | ">=", VU64 x, VU64 y => Some (VBool (N.leb y x))
  | "==", VInt x, VInt y => Some (VBool (Z.eqb x y))
  | "!=", VInt x, VInt y => Some (VBool (negb (Z.eqb x y)))
  | "<", VInt x, VInt y => Some (VBool (Z.ltb x y))
  | ">", VInt x, VInt y => Some (VBool (Z.ltb y x))
  | "<=", VInt x, VInt y => Some (VBool (Z.leb x y))
  | ">=", VInt x, VInt y => Some (VBool (Z.leb y x))
  | "==", VStr x, VStr y => Some (VBool (data_str_eqb x y))
  | "!=", VStr x, VStr y => Some (VBool (negb (data_str_eqb x y)))
  | "==", VBool x, VBool y => Some (VBool (Bool.eqb x y))
  | "!=", VBool x, VBool y => Some (VBool (negb (Bool.eqb x y)))
  | _, _, _ => None
  end.

(* enum numbers of gribi.proto (v1/proto/service/gribi.proto; wire-level constants) *)
Definition enum_val (name : string) : option gval :=
  match name with
  | "SessionParameters_ALL_PRIMARY" => Some (VInt 0)
  | "SessionParameters_SINGLE_PRIMARY" => Some (VInt 1)
  | "SessionParameters_DELETE" => Some (VInt 0)
  | "SessionParameters_PRESERVE" => Some (VInt 1)
  | "SessionParameters_RIB_ACK" => Some (VInt 0)
  | "SessionParameters_RIB_AND_FIB_ACK" => Some (VInt 1)
  | "SessionParametersResult_OK" => Some (VInt 0)
  | _ => None
  end.

(* zero values of the struct types of server.go that are built by literals *)
Definition struct_zero (ty : string) : option (list (string * gval)) :=
  match ty with
  | "clientParams" => Some [("Persist", VBool false); ("ExpectElecID", VBool false); ("FIBAck", VBool false)]
  | "clientState" => Some [("params", VNil); ("setParams", VBool false); ("lastElecID", VNil)]
  | _ => None
  end.

(* pure calls: constructors / methods of values, nil-safe protobuf getters, and read-only
   methods of the receiver *)
Definition call (fn : string) (args : list gval) : option gval :=
  match fn, args with
  | "uint128.New", [VU64 l; VU64 h] => Some (VU128 h l)
  | "Cmp", [VU128 ah al; VU128 bh bl] => Some (VInt (cmp_int (u128_cmp (ah, al) (bh, bl))))
  | "Equals", [VU128 ah al; VU128 bh bl] => Some (VBool (u128_eqb (ah, al) (bh, bl)))
  | "getElection", [VPtr fs] =>
    (* Server.getElection: a copy of the election state taken under elecMu (server.go) *)
    match lookup "curElecID" fs with
    | Some id => Some (VPtr [("master", match lookup "curMaster" fs with Some m => m | None => VStr "" end); ("ID", id)])
    | None => None
    end
  | _, [VNil] =>            (* nil-safe protobuf getter *)
    if String.prefix "Get" fn then Some VNil else None
  | _, [VPtr fs] =>
    if String.prefix "Get" fn
    then match lookup (String.substring 3 (String.length fn - 3) fn) fs with
         | Some v => Some v | None => None end
    else None
  | _, _ => None
  end.

(* ---------------- the client table (Server.cs : map[string]*clientState) ----------------
   A Go map as an association list keyed by string data; the first binding of a key counts. *)
Fixpoint tbl_get (k : string) (t : list (string * gval)) : option gval :=
  match t with
  | [] => None
  | (y, v) :: tl => if data_str_eqb k y then Some v else tbl_get k tl
  end.
Fixpoint tbl_set (k : string) (v : gval) (t : list (string * gval)) : list (string * gval) :=
  match t with
  | [] => [(k, v)]
  | (y, w) :: tl => if data_str_eqb k y then (y, v) :: tl else (y, w) :: tbl_set k v tl
  end.
Fixpoint tbl_del (k : string) (t : list (string * gval)) : list (string * gval) :=
  match t with
  | [] => []
  | (y, w) :: tl => if data_str_eqb k y then tbl_del k tl else (y, w) :: tbl_del k tl
  end.

Definition cp_view (ps : list (string * gval)) : option (bool * bool * bool) :=
  match lookup "Persist" ps, lookup "ExpectElecID" ps, lookup "FIBAck" ps with
  | Some (VBool a), Some (VBool b), Some (VBool c) => Some (a, b, c)
  | _, _, _ => None
  end.
(* clientParams.Equal *)
Definition cp_equal (x y : bool * bool * bool) : bool :=
  let '(a, b, c) := x in let '(a', b', c') := y in Bool.eqb a a' && Bool.eqb c c' && Bool.eqb b b'.

(* the loop of checkClientsConsistent over the entries other than [id]:
   (some entry is nil or has nil params, some entry has different params) *)
Fixpoint tbl_scan (id : string) (cp : bool * bool * bool) (t : list (string * gval)) : bool * bool :=
  match t with
  | [] => (false, false)
  | (y, v) :: tl =>
    let '(mal, mis) := tbl_scan id cp tl in
    if data_str_eqb id y then (mal, mis) else
    match v with
    | VPtr rec =>
      match lookup "params" rec with
      | Some (VPtr ps) =>
        match cp_view ps with
        | Some cp' => (mal, negb (cp_equal cp' cp) || mis)
        | None => (true, mis)
        end
      | _ => (true, mis)
      end
    | _ => (true, mis)
    end
  end.

Definition err_plain : gval := VOpaque "err:plain".    (* fmt.Errorf(...): an error without a gRPC status *)

(* ---------------- oracle calls: untranslated methods of *Server ----------------
   [mcall fn receiver args = Some (results, receiver')].  Anything not listed is a pure call. *)
Definition mcall (fn : string) (recv : gval) (args : list gval) : option (list gval * gval) :=
  match recv with
  | VPtr fs =>
    match lookup "cs" fs with
    | Some (VPtr tbl) =>
      match fn, args with
      | "getClientStateCopy", [VStr id] =>
        (* if s.cs[id] == nil { return nil, fmt.Errorf } ; return s.cs[id].DeepCopy(), nil
           DeepCopy keeps a copy of params only *)
        match tbl_get id tbl with
        | None | Some VNil => Some ([VNil; err_plain], recv)
        | Some (VPtr rec) =>
          match lookup "params" rec with
          | Some VNil => Some ([VPtr [("params", VNil); ("setParams", VBool false); ("lastElecID", VNil)]; VNil], recv)
          | Some (VPtr ps) => Some ([VPtr [("params", VPtr ps); ("setParams", VBool false); ("lastElecID", VNil)]; VNil], recv)
          | _ => None
          end
        | _ => None
        end
      | "storeClientElectionID", [VStr id; e] =>
        (* cs, ok := s.cs[id]; if !ok { return false }; cs.lastElecID = elecID; return true *)
        match tbl_get id tbl with
        | None => Some ([VBool false], recv)
        | Some (VPtr rec) =>
          match set_first "lastElecID" e rec with
          | Some rec' =>
            match set_first "cs" (VPtr (tbl_set id (VPtr rec') tbl)) fs with
            | Some fs' => Some ([VBool true], VPtr fs')
            | None => None
            end
          | None => None
          end
        | _ => None       (* a nil entry: the Go code dereferences it *)
        end
      | "setClientParams", [VStr id; p] =>
        (* if s.cs[id] == nil { return fmt.Errorf }; s.cs[id].params = p; return nil *)
        match tbl_get id tbl with
        | None | Some VNil => Some ([err_plain], recv)
        | Some (VPtr rec) =>
          match set_first "params" p rec with
          | Some rec' =>
            match set_first "cs" (VPtr (tbl_set id (VPtr rec') tbl)) fs with
            | Some fs' => Some ([VNil], VPtr fs')
            | None => None
            end
          | None => None
          end
        | _ => None
        end
      | "checkClientsConsistent", [VStr id; VNil] => Some ([VBool false; err_plain], recv)
      | "checkClientsConsistent", [VStr id; VPtr ps] =>
        (* for cid, state := range s.cs: skip id; nil state / nil params -> (false, err);
           !state.params.Equal(p) -> (false, nil); at the end (true, nil).  The map order is
           arbitrary: the result is determined unless both kinds of entry are present. *)
        match cp_view ps with
        | Some cp =>
          match tbl_scan id cp tbl with
          | (false, mis) => Some ([VBool (negb mis); VNil], recv)
          | (true, false) => Some ([VBool false; err_plain], recv)
          | (true, true) => None
          end
        | None => None
        end
      | _, _ => match call fn (recv :: args) with Some v => Some ([v], recv) | None => None end
      end
    | _ => match call fn (recv :: args) with Some v => Some ([v], recv) | None => None end
    end
  | _ => None
  end.

Fixpoint eval (en : env) (e : gexpr) {struct e} : option gval :=
  match e with
  | EVar x => lookup x en
  | ENil => Some VNil
  | ENum n => Some (VU64 n)
  | EStr s => Some (VStr s)
  | EBool b => Some (VBool b)
  | ESel e' f =>
    match eval en e' with
    | Some (VPtr fs) => lookup f fs
    | _ => None                               (* nil dereference panics *)
    end
  | EBin op a b =>
    if String.eqb op "&&" then
      match eval en a with
      | Some (VBool false) => Some (VBool false)
      | Some (VBool true) => match eval en b with Some (VBool y) => Some (VBool y) | _ => None end
      | _ => None
      end
    else if String.eqb op "||" then
      match eval en a with
      | Some (VBool true) => Some (VBool true)
      | Some (VBool false) => match eval en b with Some (VBool y) => Some (VBool y) | _ => None end
      | _ => None
      end
    else
      match eval en a, eval en b with
      | Some x, Some y => bin op x y
      | _, _ => None
      end
  | ENot e' => match eval en e' with Some (VBool b) => Some (VBool (negb b)) | _ => None end
  | ECall fn args =>
    (fix evs (l : list gexpr) (acc : list gval) : option gval :=
       match l with
       | [] => call fn (rev acc)
       | a :: tl => match eval en a with Some v => evs tl (v :: acc) | None => None end
       end) args []
  | EOpaque t => Some (VOpaque t)
  | EConst c => enum_val c
  | ENew ty kvs =>
    (* the zero value of the struct, then the listed fields in source order *)
    match struct_zero ty with
    | None => None
    | Some z =>
      (fix go (l : list (string * gexpr)) (acc : list (string * gval)) : option gval :=
         match l with
         | [] => Some (VPtr acc)
         | (k, a) :: tl =>
           match eval en a with
           | Some v => match set_first k v acc with Some acc' => go tl acc' | None => None end
           | None => None
           end
         end) kvs z
    end
  | EMsg ty kvs =>
    (fix go (l : list (string * gexpr)) (acc : list (string * gval)) : option gval :=
       match l with
       | [] => Some (VPtr (("#type", VStr ty) :: rev acc))
       | (k, a) :: tl => match eval en a with Some v => go tl ((k, v) :: acc) | None => None end
       end) kvs []
  end.

Fixpoint evals (en : env) (l : list gexpr) : option (list gval) :=
  match l with
  | [] => Some []
  | a :: tl => match eval en a, evals en tl with Some v, Some vs => Some (v :: vs) | _, _ => None end
  end.

(* results of a call bound to the variables on the left ("_" discards; no variables = a call
   used as a statement) *)
Fixpoint bind_res (decl : bool) (xs : list string) (vs : list gval) (en : env) : option env :=
  match xs, vs with
  | [], _ => Some en
  | x :: xt, v :: vt =>
    if String.eqb x "_" then bind_res decl xt vt en else
    match (if decl then Some ((x, v) :: en) else set_first x v en) with
    | Some en' => bind_res decl xt vt en'
    | None => None
    end
  | _ :: _, [] => None
  end.

(* leaving a block: the variables declared inside (pushed in front) disappear, assignments to
   outer variables (made in place) stay *)
Definition restore (outer inner : env) : env := skipn (List.length inner - List.length outer) inner.

Inductive result := RPanic | RFall (en : env) | RRet (en : env) (vs : list gval).

Section Exec.
  (* calls of translated functions *)
  Variable callf : string -> list gval -> option (list gval).

  Fixpoint exec_s (en : env) (s : gstmt) {struct s} : result :=
    let exec_l :=
        fix exec_l (en : env) (l : list gstmt) {struct l} : result :=
          match l with
          | [] => RFall en
          | s' :: tl => match exec_s en s' with RFall en' => exec_l en' tl | o => o end
          end in
    match s with
    | SSkip => RFall en
    | SDecl x e =>
      match eval en e with
      | Some v => RFall (if String.eqb x "_" then en else (x, v) :: en)
      | None => RPanic
      end
    | SSet x e =>
      match eval en e with
      | Some v =>
        if String.eqb x "_" then RFall en else
        match set_first x v en with Some en' => RFall en' | None => RPanic end
      | None => RPanic
      end
    | SSetField r f e =>
      match eval en e, lookup r en with
      | Some v, Some (VPtr fs) =>
        match set_first f v fs with
        | Some fs' => match set_first r (VPtr fs') en with Some en' => RFall en' | None => RPanic end
        | None => RPanic
        end
      | _, _ => RPanic
      end
    | SCallF d xs fn args =>
      match evals en args with
      | Some vs =>
        match callf fn vs with
        | Some rs => match bind_res d xs rs en with Some en' => RFall en' | None => RPanic end
        | None => RPanic
        end
      | None => RPanic
      end
    | SCallM d xs r fn args =>
      match lookup r en, evals en args with
      | Some rv, Some vs =>
        match mcall fn rv vs with
        | Some (rs, rv') =>
          match set_first r rv' en with
          | Some en1 => match bind_res d xs rs en1 with Some en' => RFall en' | None => RPanic end
          | None => RPanic
          end
        | None => RPanic
        end
      | _, _ => RPanic
      end
    | SDelete r f k =>
      match lookup r en, eval en k with
      | Some (VPtr fs), Some (VStr key) =>
        match lookup f fs with
        | Some (VPtr tbl) =>
          match set_first f (VPtr (tbl_del key tbl)) fs with
          | Some fs' => match set_first r (VPtr fs') en with Some en' => RFall en' | None => RPanic end
          | None => RPanic
          end
        | _ => RPanic
        end
      | _, _ => RPanic
      end
    | SReturn rs => match evals en rs with Some vs => RRet en vs | None => RPanic end
    | SIf c th el =>
      match eval en c with
      | Some (VBool true) => match exec_l en th with RFall en' => RFall (restore en en') | o => o end
      | Some (VBool false) => match exec_l en el with RFall en' => RFall (restore en en') | o => o end
      | _ => RPanic
      end
    end.

  Fixpoint run_l (en : env) (l : list gstmt) {struct l} : result :=
    match l with
    | [] => RFall en
    | s' :: tl => match exec_s en s' with RFall en' => run_l en' tl | o => o end
    end.
End Exec.

(* ---------------- translated functions calling translated functions ---------------- *)
Definition fundefs := list (string * (list string * list gstmt)).

Fixpoint lookup_fun (f : string) (fs : fundefs) : option (list string * list gstmt) :=
  match fs with
  | [] => None
  | (g, d) :: tl => if String.eqb f g then Some d else lookup_fun f tl
  end.

Fixpoint bind_params (ps : list string) (vs : list gval) : option env :=
  match ps, vs with
  | [], [] => Some []
  | p :: pt, v :: vt => match bind_params pt vt with Some en => Some ((p, v) :: en) | None => None end
  | _, _ => None
  end.

(* [fuel] bounds the depth of nested calls *)
Fixpoint callf_n (fuel : nat) (funs : fundefs) (f : string) (args : list gval) : option (list gval) :=
  match fuel with
  | O => None
  | S k =>
    match lookup_fun f funs with
    | Some (ps, body) =>
      match bind_params ps args with
      | Some en =>
        match run_l (callf_n k funs) en body with
        | RRet _ vs => Some vs
        | RFall _ => Some []
        | RPanic => None
        end
      | None => None
      end
    | None => None
    end
  end.

(* ---------------- entry points ---------------- *)
(* a function that calls no translated function: only what it returns *)
Inductive outcome := Panic | Fall (en : env) | Ret (vs : list gval).
Definition no_funs (f : string) (args : list gval) : option (list gval) := None.
Definition exec (en : env) (l : list gstmt) : outcome :=
  match run_l no_funs en l with
  | RPanic => Panic
  | RFall en' => Fall en'
  | RRet _ vs => Ret vs
  end.

(* a method: the receiver's fields when it returns, and what it returns
   ([] for a method without results that reaches its end) *)
Definition run_method (funs : fundefs) (recv : string) (en : env) (body : list gstmt) : option (gval * list gval) :=
  match run_l (callf_n 2 funs) en body with
  | RRet en' vs => match lookup recv en' with Some sv => Some (sv, vs) | None => None end
  | RFall en' => match lookup recv en' with Some sv => Some (sv, []) | None => None end
  | RPanic => None
  end.

(* helpers to build input values *)
Definition u128_ptr (x : option (N * N)) : gval :=
  match x with None => VNil | Some (h, l) => VPtr [("High", VU64 h); ("Low", VU64 l)] end.
