(* A tiny deep embedding of the Go subset used by gribigo's pure decision
   functions (isNewMaster, checkElectionForModify, checkFlushRequest).
   tools/gen_decisions serialises the function bodies of the current source
   into this syntax (Generated/Decisions.v); the semantics below is fixed and
   hand-written.  [None] = the Go code would panic (nil dereference) or uses a
   construct outside the subset. *)
From Coq Require Import List String NArith ZArith Bool.
From GV.Base Require Import U128.
Import ListNotations.
Open Scope string_scope.

Inductive gval :=
| VNil
| VU64 (n : N)
| VInt (z : Z)
| VBool (b : bool)
| VStr (s : string)
| VU128 (h l : N)
| VPtr (fields : list (string * gval))
| VOpaque (tag : string).

Inductive gexpr :=
| EVar (x : string)
| ENil
| ENum (n : N)
| EStr (s : string)
| EBool (b : bool)
| ESel (e : gexpr) (f : string)
| EBin (op : string) (a b : gexpr)
| ENot (e : gexpr)
| ECall (fn : string) (args : list gexpr)
| EOpaque (tag : string).

Inductive gstmt :=
| SIf (c : gexpr) (th el : list gstmt)
| SAssign (x : string) (e : gexpr)
| SReturn (rs : list gexpr)
| SSkip.

Definition env := list (string * gval).

Fixpoint lookup (x : string) (e : list (string * gval)) : option gval :=
  match e with
  | [] => None
  | (y, v) :: tl => if String.eqb x y then Some v else lookup x tl
  end.

Definition cmp_int (c : comparison) : Z := match c with Lt => (-1)%Z | Eq => 0%Z | Gt => 1%Z end.

(* comparison of string *data* (kept apart from the comparison of variable / field names so that
   proofs can reduce the latter and leave the former symbolic) *)
Definition data_str_eqb (a b : string) : bool := String.eqb a b.

(* an untyped Go constant compared with an int: coerce the constant *)
Definition coerce (a b : gval) : gval * gval :=
  match a, b with
  | VInt x, VU64 y => (VInt x, VInt (Z.of_N y))
  | VU64 x, VInt y => (VInt (Z.of_N x), VInt y)
  | _, _ => (a, b)
  end.

Definition bin (op : string) (a0 b0 : gval) : option gval :=
  let '(a, b) := coerce a0 b0 in
  match op, a, b with
  | "==", VNil, VNil => Some (VBool true)
  | "==", VNil, VPtr _ | "==", VPtr _, VNil => Some (VBool false)
  | "!=", VNil, VNil => Some (VBool false)
  | "!=", VNil, VPtr _ | "!=", VPtr _, VNil => Some (VBool true)
  | "==", VU64 x, VU64 y => Some (VBool (N.eqb x y))
  | "!=", VU64 x, VU64 y => Some (VBool (negb (N.eqb x y)))
  | "<", VU64 x, VU64 y => Some (VBool (N.ltb x y))
  | ">", VU64 x, VU64 y => Some (VBool (N.ltb y x))
  | "<=", VU64 x, VU64 y => Some (VBool (N.leb x y))
  | ">=", VU64 x, VU64 y => Some (VBool (N.leb y x))
  | "==", VInt x, VInt y => Some (VBool (Z.eqb x y))
  | "!=", VInt x, VInt y => Some (VBool (negb (Z.eqb x y)))
  | "<", VInt x, VInt y => Some (VBool (Z.ltb x y))
  | ">", VInt x, VInt y => Some (VBool (Z.ltb y x))
  | "<=", VInt x, VInt y => Some (VBool (Z.leb x y))
  | ">=", VInt x, VInt y => Some (VBool (Z.leb y x))
  | "==", VStr x, VStr y => Some (VBool (data_str_eqb x y))
  | "!=", VStr x, VStr y => Some (VBool (negb (data_str_eqb x y)))
  | "==", VBool x, VBool y => Some (VBool (Bool.eqb x y))
  | "!=", VBool x, VBool y => Some (VBool (negb (Bool.eqb x y)))
  | _, _, _ => None
  end.

Definition call (fn : string) (args : list gval) : option gval :=
  match fn, args with
  | "uint128.New", [VU64 l; VU64 h] => Some (VU128 h l)
  | "Cmp", [VU128 ah al; VU128 bh bl] => Some (VInt (cmp_int (u128_cmp (ah, al) (bh, bl))))
  | "Equals", [VU128 ah al; VU128 bh bl] => Some (VBool (u128_eqb (ah, al) (bh, bl)))
  | "getElection", [VPtr fs] =>
    (* Server.getElection: a copy of the election state taken under elecMu (server.go) *)
    match lookup "curElecID" fs with
    | Some id => Some (VPtr [("master", match lookup "curMaster" fs with Some m => m | None => VStr "" end); ("ID", id)])
    | None => None
    end
  | _, [VNil] =>            (* nil-safe protobuf getter *)
    if String.prefix "Get" fn then Some VNil else None
  | _, [VPtr fs] =>
    if String.prefix "Get" fn
    then match lookup (String.substring 3 (String.length fn - 3) fn) fs with
         | Some v => Some v | None => None end
    else None
  | _, _ => None
  end.

Fixpoint eval (en : env) (e : gexpr) {struct e} : option gval :=
  match e with
  | EVar x => lookup x en
  | ENil => Some VNil
  | ENum n => Some (VU64 n)
  | EStr s => Some (VStr s)
  | EBool b => Some (VBool b)
  | ESel e' f =>
    match eval en e' with
    | Some (VPtr fs) => lookup f fs
    | _ => None                               (* nil dereference panics *)
    end
  | EBin op a b =>
    if String.eqb op "&&" then
      match eval en a with
      | Some (VBool false) => Some (VBool false)
      | Some (VBool true) => match eval en b with Some (VBool y) => Some (VBool y) | _ => None end
      | _ => None
      end
    else if String.eqb op "||" then
      match eval en a with
      | Some (VBool true) => Some (VBool true)
      | Some (VBool false) => match eval en b with Some (VBool y) => Some (VBool y) | _ => None end
      | _ => None
      end
    else
      match eval en a, eval en b with
      | Some x, Some y => bin op x y
      | _, _ => None
      end
  | ENot e' => match eval en e' with Some (VBool b) => Some (VBool (negb b)) | _ => None end
  | ECall fn args =>
    (fix evs (l : list gexpr) (acc : list gval) : option gval :=
       match l with
       | [] => call fn (rev acc)
       | a :: tl => match eval en a with Some v => evs tl (v :: acc) | None => None end
       end) args []
  | EOpaque t => Some (VOpaque t)
  end.

Fixpoint evals (en : env) (l : list gexpr) : option (list gval) :=
  match l with
  | [] => Some []
  | a :: tl => match eval en a, evals en tl with Some v, Some vs => Some (v :: vs) | _, _ => None end
  end.

Inductive outcome := Panic | Fall (en : env) | Ret (vs : list gval).

Fixpoint exec_s (en : env) (s : gstmt) {struct s} : outcome :=
  let exec_l :=
      fix exec_l (en : env) (l : list gstmt) {struct l} : outcome :=
        match l with
        | [] => Fall en
        | s' :: tl => match exec_s en s' with Fall en' => exec_l en' tl | o => o end
        end in
  match s with
  | SSkip => Fall en
  | SAssign x e => match eval en e with Some v => Fall ((x, v) :: en) | None => Panic end
  | SReturn rs => match evals en rs with Some vs => Ret vs | None => Panic end
  | SIf c th el =>
    match eval en c with
    | Some (VBool true) => match exec_l en th with Fall _ => Fall en | o => o end
    | Some (VBool false) => match exec_l en el with Fall _ => Fall en | o => o end
    | _ => Panic
    end
  end.

Fixpoint exec (en : env) (l : list gstmt) {struct l} : outcome :=
  match l with
  | [] => Fall en
  | s' :: tl => match exec_s en s' with Fall en' => exec en' tl | o => o end
  end.

(* helpers to build input values *)
Definition u128_ptr (x : option (N * N)) : gval :=
  match x with None => VNil | Some (h, l) => VPtr [("High", VU64 h); ("Low", VU64 l)] end.
