From Coq Require Import NArith ZArith Lia Bool.
From GV.Base Require Import U128.
Open Scope N_scope.

Lemma W_pos : 0 < W. Proof. reflexivity. Qed.

Lemma cmp_is_val (a b : u128) : inrange a -> inrange b ->
  u128_cmp a b = (val a ?= val b).
Proof.
  destruct a as [ah al], b as [bh bl]; unfold inrange, u128_cmp, val, hi, lo; cbn [fst snd].
  intros [Ha1 Ha2] [Hb1 Hb2].
  destruct (N.compare_spec ah bh) as [->|Hlt|Hgt].
  - destruct (N.compare_spec al bl) as [->|H|H]; symmetry.
    + apply N.compare_eq_iff; reflexivity.
    + apply N.compare_lt_iff; lia.
    + apply N.compare_gt_iff; lia.
  - symmetry; apply N.compare_lt_iff. nia.
  - symmetry; apply N.compare_gt_iff. nia.
Qed.

Lemma ltb_is_val a b : inrange a -> inrange b -> u128_ltb a b = (val a <? val b).
Proof.
  intros Ha Hb. unfold u128_ltb. rewrite (cmp_is_val a b Ha Hb). unfold N.ltb.
  destruct (val a ?= val b); reflexivity.
Qed.
Lemma leb_is_val a b : inrange a -> inrange b -> u128_leb a b = (val a <=? val b).
Proof.
  intros Ha Hb. unfold u128_leb. rewrite (cmp_is_val a b Ha Hb). unfold N.leb.
  destruct (val a ?= val b); reflexivity.
Qed.
Lemma eqb_is_val a b : inrange a -> inrange b -> u128_eqb a b = (val a =? val b).
Proof.
  destruct a as [ah al], b as [bh bl]; unfold inrange, u128_eqb, val, hi, lo; cbn [fst snd].
  intros [Ha1 Ha2] [Hb1 Hb2].
  destruct (N.eqb_spec ah bh) as [->|Hn]; cbn [andb].
  - destruct (N.eqb_spec al bl) as [->|Hn2].
    + symmetry; apply N.eqb_eq; reflexivity.
    + symmetry; apply N.eqb_neq; lia.
  - symmetry; apply N.eqb_neq. intros H. apply Hn.
    assert (ah < bh \/ ah = bh \/ bh < ah) as [X|[X|X]] by lia; [nia|assumption|nia].
Qed.
Lemma val_inj a b : inrange a -> inrange b -> val a = val b -> a = b.
Proof.
  intros Ha Hb H. pose proof (eqb_is_val a b Ha Hb) as E.
  rewrite (proj2 (N.eqb_eq _ _) H) in E. unfold u128_eqb in E.
  apply andb_true_iff in E. destruct E as [E1 E2].
  apply N.eqb_eq in E1, E2. destruct a, b; unfold hi, lo in *; cbn in *; congruence.
Qed.
Lemma is_zero_val a : inrange a -> u128_is_zero a = (val a =? 0).
Proof.
  intros Ha. change (u128_is_zero a) with (u128_eqb a (0,0)).
  rewrite eqb_is_val; auto. split; reflexivity.
Qed.
Lemma max_val a b : inrange a -> inrange b -> val (u128_max a b) = N.max (val a) (val b).
Proof.
  intros Ha Hb. unfold u128_max. rewrite ltb_is_val by auto.
  destruct (N.ltb_spec (val a) (val b)); lia.
Qed.
Lemma max_inrange a b : inrange a -> inrange b -> inrange (u128_max a b).
Proof. intros; unfold u128_max; destruct (u128_ltb a b); auto. Qed.
