(* AFT operations as seen by both the server and the RIB. *)
From Coq Require Import NArith.
From GV.Base Require Import U128.

Inductive okind := ADD | REPLACE | DELETE | OTHERKIND.

Record op (E : Type) := { op_id : N; op_ni : N (* network instance name code, 0 = "" *);
                          op_kind : okind; op_elec : option u128; op_entry : E }.
Arguments op_id {E}. Arguments op_ni {E}. Arguments op_kind {E}. Arguments op_elec {E}. Arguments op_entry {E}.
Arguments Build_op {E}.
