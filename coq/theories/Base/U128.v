(* 128-bit election ids as (high, low) pairs of 64-bit words. *)
From Coq Require Import NArith ZArith Lia Bool.
Open Scope N_scope.

Definition W : N := 18446744073709551616.   (* 2^64 *)
Notation u128 := (N * N)%type (only parsing).   (* (high, low) *)

Definition hi (x : u128) : N := fst x.
Definition lo (x : u128) : N := snd x.
Definition inrange (x : u128) : Prop := hi x < W /\ lo x < W.
Definition val (x : u128) : N := hi x * W + lo x.

(* lexicographic comparison, high word first: what uint128.Cmp computes *)
Definition u128_cmp (a b : u128) : comparison :=
  match hi a ?= hi b with
  | Eq => lo a ?= lo b
  | c => c
  end.
Definition u128_ltb (a b : u128) : bool := match u128_cmp a b with Lt => true | _ => false end.
Definition u128_leb (a b : u128) : bool := match u128_cmp a b with Gt => false | _ => true end.
Definition u128_eqb (a b : u128) : bool := (hi a =? hi b) && (lo a =? lo b).
Definition u128_is_zero (a : u128) : bool := (hi a =? 0) && (lo a =? 0).
Definition u128_max (a b : u128) : u128 := if u128_ltb a b then b else a.
