(* C11 / C05: concurrent election announcements.  Each announcement is a compare-and-set on
   (primary, highest id).  If the critical section is held exclusively it is atomic, and an
   execution of any number of concurrent announcements is the fold of the compare-and-set over
   the order in which the threads entered the section - any permutation.  If it is only held in
   shared mode (the pinned tree: runElection took elecMu.RLock), read and write are separate
   steps and an update can be lost. *)
From Coq Require Import List NArith Bool Lia Permutation.
From GV.Base Require Import Alist U128 U128Facts.
Import ListNotations.
Open Scope N_scope.

Notation ann := (N * u128)%type (only parsing).        (* (session, announced id) *)
Definition cas (acc : option (N * u128)) (a : N * u128) : option (N * u128) :=
  match acc with
  | None => Some a
  | Some (m, mx) => if u128_leb mx (snd a) then Some a else acc
  end.

Definition maxval (l : list (N * u128)) : N := fold_right (fun a m => N.max (val (snd a)) m) 0 l.

Lemma cas_fold_val l : Forall (fun a => inrange (snd a)) l -> forall acc,
  (forall m mx, acc = Some (m, mx) -> inrange mx) ->
  match fold_left cas l acc with
  | Some (m, mx) => val mx = N.max (match acc with Some (_, x) => val x | None => 0 end) (maxval l) /\ inrange mx
                    /\ (In (m, mx) l \/ acc = Some (m, mx))
  | None => l = [] /\ acc = None
  end.
Proof.
  induction l as [|a l IH]; intros Hl acc Hacc; cbn [fold_left]; [change (maxval []) with 0|change (maxval (a :: l)) with (N.max (val (snd a)) (maxval l))].
  - destruct acc as [[m mx]|]; [|auto]. split; [lia|]. split; [eapply Hacc; eauto|auto].
  - inversion Hl as [|? ? Ha Hl']; subst. destruct a as [c id]. cbn [snd] in *.
    assert (Hacc' : forall m mx, cas acc (c, id) = Some (m, mx) -> inrange mx).
    { intros m mx. unfold cas. destruct acc as [[m0 mx0]|]; cbn [snd].
      - destruct (u128_leb mx0 id); intros H; inversion H; subst; [exact Ha|eapply Hacc; eauto].
      - intros H; inversion H; subst; exact Ha. }
    specialize (IH Hl' (cas acc (c, id)) Hacc').
    destruct (fold_left cas l (cas acc (c, id))) as [[m mx]|] eqn:Ef.
    + destruct IH as (Hv & Hr & Hin). split; [|split; [exact Hr|]].
      * rewrite Hv. unfold cas. destruct acc as [[m0 mx0]|]; cbn [snd].
        -- specialize (Hacc m0 mx0 eq_refl). rewrite leb_is_val by assumption.
           destruct (N.leb_spec (val mx0) (val id)); cbn beta iota; lia.
        -- cbn beta iota. lia.
      * destruct Hin as [Hin|Hin]; [left; right; exact Hin|].
        unfold cas in Hin. destruct acc as [[m0 mx0]|]; cbn [snd] in Hin.
        -- destruct (u128_leb mx0 id); inversion Hin; subst; [left; left; reflexivity|right; reflexivity].
        -- inversion Hin; subst. left; left; reflexivity.
    + destruct IH as (_ & Hc). unfold cas in Hc. destruct acc as [[m0 mx0]|]; cbn [snd] in Hc; [destruct (u128_leb mx0 id)|]; discriminate.
Qed.

Lemma maxval_perm l l' : Permutation l l' -> maxval l = maxval l'.
Proof.
  induction 1 as [|x l l' Hp IH|x y l|l1 l2 l3 H1 IH1 H2 IH2]; [reflexivity| | |congruence].
  - change (N.max (val (snd x)) (maxval l) = N.max (val (snd x)) (maxval l')). rewrite IH. reflexivity.
  - change (N.max (val (snd y)) (N.max (val (snd x)) (maxval l)) = N.max (val (snd x)) (N.max (val (snd y)) (maxval l))). lia.
Qed.

(* exclusive critical section: for every order in which the announcements enter it, the final highest id
   is the maximum announced (128-bit) and the primary is a session that announced it *)
Theorem exclusive_cs_max (l l' : list (N * u128)) : l <> [] -> Forall (fun a => inrange (snd a)) l -> Permutation l l' ->
  exists m mx, fold_left cas l' None = Some (m, mx) /\ val mx = maxval l /\ In (m, mx) l.
Proof.
  intros Hne Hl Hp.
  assert (Hl' : Forall (fun a => inrange (snd a)) l') by (eapply Permutation_Forall; eauto).
  pose proof (cas_fold_val l' Hl' None ltac:(intros; discriminate)) as H.
  destruct (fold_left cas l' None) as [[m mx]|].
  - destruct H as (Hv & _ & [Hin|Hin]); [|discriminate]. exists m, mx. split; [reflexivity|].
    split; [rewrite Hv, (maxval_perm l l' Hp); lia|]. eapply Permutation_in; [apply Permutation_sym; exact Hp|exact Hin].
  - destruct H as (H & _). subst l'. apply Permutation_sym, Permutation_nil in Hp. contradiction.
Qed.

(* ---- shared critical section: read and write are separate steps ---- *)
Inductive tpc := TIdle | TRead (seen : option (N * u128)) | TDone.
Record cst := { cstate : option (N * u128); pcs : list (N * u128 * tpc) }.
(* thread i reads, or writes what it decided from what it read *)
Definition sstep (s : cst) (i : nat) : cst :=
  match nth_error (pcs s) i with
  | Some (c, id, TIdle) =>
    {| cstate := cstate s; pcs := firstn i (pcs s) ++ (c, id, TRead (cstate s)) :: skipn (S i) (pcs s) |}
  | Some (c, id, TRead seen) =>
    {| cstate := (if match seen with None => true | Some (_, mx) => u128_leb mx id end then Some (c, id) else cstate s);
       pcs := firstn i (pcs s) ++ (c, id, TDone) :: skipn (S i) (pcs s) |}
  | _ => s
  end.
Definition run_sched (s : cst) (sched : list nat) : cst := fold_left sstep sched s.

(* lost update: sessions 1 and 2 announce 7 and 9; both read "no primary", 2 writes 9, then 1 writes 7:
   every thread has finished, the final id is 7 although 9 was announced *)
Theorem shared_cs_lost_update_refuted :
  let s0 := {| cstate := None; pcs := [(1, (0, 7), TIdle); (2, (0, 9), TIdle)] |} in
  let sf := run_sched s0 [0; 1; 1; 0]%nat in
  cstate sf = Some (1, (0, 7)) /\ Forall (fun x => snd x = TDone) (pcs sf) /\ maxval [(1, (0, 7)); (2, (0, 9))] = 9.
Proof. vm_compute. repeat split; repeat constructor. Qed.
