(* C10 / C11: the channel discipline written in packages rib and server, as boolean obligations over the table
   regenerated from the source on every run (Generated/ChanTable.v, tools/gen_chantable), and the link between
   these obligations and the hand-written protocol of Conc/GetProto.v.

   Each obligation is a closed boolean computation on chan_table: when the source changes so that one of them
   evaluates to false, the lemma no longer type-checks and the check of C10 / C11 reports its name.

   What the LTS of GetProto.v assumes about the code, transition by transition, and the obligation that carries it
   (fixed = true is the protocol these obligations describe):
     s_rlock, s_runlock   GetRIB takes the instance read lock and releases it by a deferred unlock, so on every
                          way out of the table loops, the stop case included   - producers_release_locks
     s_msg                rendezvous of a producer send with the handler's select; the channels are unbuffered
                                                                               - get_channels_rendezvous, get_handler_ok
     s_pstop (fixed)      every send on msgCh is the comm of a select that also receives from stopCh, and that
                          receive returns                                      - getrib_sends_stoppable, stop_receives_exit
     s_done, s_done_stop  doGet's first statement defers select { doneCh <- ; <-stopCh }
                                                                               - doget_exits_ok, getrib_sends_stoppable
     s_ret (stop := fixed) the handler closes stopCh by a defer registered before anything can return
                                                                               - get_handler_ok
   The pinned defect (F10) and the seeded regressions were each a change of one of these shapes in one place. *)
From Coq Require Import List String Bool.
From GV.Conc Require Import LockDefs LockOrder ChanDefs GetProto.
From GV.Generated Require Import LockTable ChanTable.
Import ListNotations.
Open Scope string_scope.
Open Scope list_scope.

(* ---- the table is meaningful: every channel operated on is made in the two packages, bindings are functional *)
Lemma table_resolved_ok : table_resolved chan_table = true.
Proof. vm_compute. reflexivity. Qed.

(* ---- (1) every send of the Get producer side can be stopped *)
Lemma getrib_sends_stoppable_ok : getrib_sends_stoppable chan_table = true.
Proof. vm_compute. reflexivity. Qed.
(* non-vacuity: the sends of (at least) the five table loops of GetRIB are seen, and none outside GetRIB *)
Lemma getrib_sends_stoppable_details :
  unstoppable_get_sends chan_table = [] /\ producer_sends_in_getrib chan_table = true.
Proof. vm_compute. split; reflexivity. Qed.
Lemma stop_receives_exit_ok : stop_receives_exit chan_table = true.
Proof. vm_compute. reflexivity. Qed.

(* ---- (2) the handler *)
Lemma get_handler_ok_ok : get_handler_ok chan_table = true.
Proof. vm_compute. reflexivity. Qed.
Lemma get_channels_rendezvous_ok : get_channels_rendezvous chan_table = true.
Proof. vm_compute. reflexivity. Qed.

(* ---- (3) the producer signals done and releases the lock on every path; a report under a failed test returns *)
Lemma doget_exits_ok_ok : doget_exits_ok chan_table = true.
Proof. vm_compute. reflexivity. Qed.
Lemma report_then_return_ok : report_then_return chan_table = true.
Proof. vm_compute. reflexivity. Qed.
Lemma report_views_agree_ok : report_views_agree chan_table = true.
Proof. vm_compute. reflexivity. Qed.
(* the only report that is not followed by return is the one for an AFT type that is not served (value dispatch
   in a switch: nothing the rest of doGet uses is invalid; it goes on with an empty filter) *)
Lemma reports_not_returning_census :
  forallb (fun x => (fst x =? "Server.doGet") && (snd x =? "case default")) (reports_not_returning chan_table) = true.
Proof. vm_compute. reflexivity. Qed.

(* ---- (4) close / send discipline of all channels of the two packages *)
Lemma no_close_of_sent_channel_ok : no_close_of_sent_channel chan_table = true.
Proof. vm_compute. reflexivity. Qed.
Lemma close_once_ok : close_once chan_table = true.
Proof. vm_compute. reflexivity. Qed.
Lemma sends_have_receivers_ok : sends_have_receivers chan_table = true.
Proof. vm_compute. reflexivity. Qed.
Lemma ranges_are_closed_ok : ranges_are_closed chan_table = true.
Proof. vm_compute. reflexivity. Qed.
Lemma one_shot_send_then_return_ok : one_shot_send_then_return chan_table = true.
Proof. vm_compute. reflexivity. Qed.
Lemma teardown_after_error_ok : teardown_after_error chan_table = true.
Proof. vm_compute. reflexivity. Qed.
Lemma goroutine_consumers_stay_alive_ok : goroutine_consumers_stay_alive chan_table = true.
Proof. vm_compute. reflexivity. Qed.

(* ---- (5) nothing blocks for ever holding a lock: may-hold locks on entry come from the lock table *)
Definition inherited_locks : list (string * list string) := may_entry lock_table.
Lemma blocking_ops_hold_no_lock_ok : blocking_ops_hold_no_lock inherited_locks chan_table = true.
Proof. vm_compute. reflexivity. Qed.

(* ---- all channel obligations *)
Definition chan_discipline (t : list unit_entry) : bool :=
  table_resolved t && no_close_of_sent_channel t && close_once t && sends_have_receivers t && ranges_are_closed t
  && one_shot_send_then_return t && teardown_after_error t && goroutine_consumers_stay_alive t
  && blocking_ops_hold_no_lock inherited_locks t.
Lemma chan_discipline_ok : chan_discipline chan_table = true.
Proof. vm_compute. reflexivity. Qed.
Lemma chan_discipline_details :
  unresolved chan_table = [] /\ close_send_conflicts chan_table = [] /\ sends_without_receiver chan_table = []
  /\ one_shot_sends_not_final chan_table = [] /\ early_leavers chan_table = [] /\ blocking_with_lock inherited_locks chan_table = [].
Proof. vm_compute. repeat split; reflexivity. Qed.

(* ---- the link with Conc/GetProto.v.  The flag `fixed` of the LTS is instantiated with what the source says: the
   conjunction of the obligations that license the transitions which exist only in the repaired protocol
   (s_pstop, s_done_stop, stop := true in s_ret) and that fix the shape of the others. *)
Definition get_protocol_of (t : list unit_entry) : bool :=
  table_resolved t && getrib_sends_stoppable t && stop_receives_exit t && get_handler_ok t && get_channels_rendezvous t
  && doget_exits_ok t && report_then_return t && report_views_agree t.
Definition source_fixed : bool := get_protocol_of chan_table.

Lemma source_is_fixed_protocol : source_fixed = true.
Proof. vm_compute. reflexivity. Qed.

(* the protocol the source of this run follows: the LTS with the flag computed from the table *)
Definition source_step (n k : nat) : st -> st -> Prop := step n k source_fixed.
Definition source_Inv (n : nat) : st -> Prop := Inv n source_fixed.

Lemma source_step_is_fixed n k s s' : source_step n k s s' <-> step n k true s s'.
Proof. unfold source_step. rewrite source_is_fixed_protocol. tauto. Qed.

(* the producer's stop transition exists in the protocol of the source: it is the one licensed by (1) *)
Lemma source_producer_can_stop n k s i :
  pp s = P1 i -> i < n -> stop s = true ->
  source_step n k s {| pp := P3; hp := hp s; stop := stop s; lock := lock s |}.
Proof. intros Hp Hi Hs. apply source_step_is_fixed. apply s_pstop with (i := i); auto. Qed.

Lemma source_get_invariant n k s s' : source_Inv n s -> source_step n k s s' -> source_Inv n s'.
Proof. unfold source_Inv, source_step. apply inv_step. Qed.

Lemma source_get_terminates n k s :
  source_Inv n s -> Acc (fun b a => source_Inv n a /\ source_step n k a b) s.
Proof. unfold source_Inv, source_step. exact (get_releases_lock n k source_fixed source_is_fixed_protocol s). Qed.

Lemma source_get_releases_lock n k s :
  source_Inv n s -> (forall s', ~ source_step n k s s') -> final s.
Proof.
  unfold source_Inv, source_step. generalize source_is_fixed_protocol. generalize source_fixed.
  intros f Hf. subst f. apply terminal_is_final.
Qed.

(* conversely, were the obligations false the LTS of the source would be the one that wedges *)
Lemma unfixed_protocol_wedges :
  Relation_Operators.clos_refl_trans _ (step 2 0 false) init wedge /\ (forall s', ~ step 2 0 false wedge s') /\ lock wedge = 1.
Proof. split; [exact wedge_reachable|split; [exact wedge_stuck|reflexivity]]. Qed.
