(* C10(b): the channel / lock protocol between Server.Get (handler H: the select loop, whose
   stream.Send fails at response k) and doGet -> GetRIB (producer P: RLock; per entry: poll stop /
   send on msgCh; RUnlock; doneCh), over unbuffered rendezvous channels.
   fixed = true : stop is signalled by closing stopCh and every send of P selects on it
                  (the protocol in /repo after the repair);
   fixed = false: non-blocking write to stopCh on exit, P polls it only between entries
                  (the pinned tree).
   lock = number of read locks P holds on the network instance. *)
From Coq Require Import List Bool Arith Lia Relations.
Import ListNotations.

Inductive ppc := P0 | P1 (i : nat) | P3 | P4 | Pdone.
Inductive hpc := H0 (j : nat) | H1 (j : nat) | Hret | Hdone.
Record st := { pp : ppc; hp : hpc; stop : bool; lock : nat }.
Definition init := {| pp := P0; hp := H0 0; stop := false; lock := 0 |}.
Definition final (s : st) : Prop := pp s = Pdone /\ hp s = Hdone /\ lock s = 0.

Section Get.
  Variable n : nat.          (* entries to stream *)
  Variable k : nat.          (* stream.Send fails at response k (0-based); k >= n: never fails *)
  Variable fixed : bool.     (* true: close-based stop + select on every send; false: code in the tree *)

  Inductive step : st -> st -> Prop :=
  | s_rlock s : pp s = P0 -> step s {| pp := P1 0; hp := hp s; stop := stop s; lock := S (lock s) |}
  | s_pend s : pp s = P1 n -> step s {| pp := P3; hp := hp s; stop := stop s; lock := lock s |}
  | s_msg s i j : pp s = P1 i -> i < n -> hp s = H0 j ->
                  step s {| pp := P1 (S i); hp := H1 j; stop := stop s; lock := lock s |}
  | s_pstop s i : fixed = true -> pp s = P1 i -> i < n -> stop s = true ->
                  step s {| pp := P3; hp := hp s; stop := stop s; lock := lock s |}
  | s_runlock s : pp s = P3 -> step s {| pp := P4; hp := hp s; stop := stop s; lock := pred (lock s) |}
  | s_done s j : pp s = P4 -> hp s = H0 j ->
                 step s {| pp := Pdone; hp := Hret; stop := stop s; lock := lock s |}
  | s_done_stop s : fixed = true -> pp s = P4 -> stop s = true ->
                    step s {| pp := Pdone; hp := hp s; stop := stop s; lock := lock s |}
  | s_send_ok s j : hp s = H1 j -> j <> k ->
                    step s {| pp := pp s; hp := H0 (S j); stop := stop s; lock := lock s |}
  | s_send_fail s : hp s = H1 k ->
                    step s {| pp := pp s; hp := Hret; stop := stop s; lock := lock s |}
  | s_ret s : hp s = Hret ->
              step s {| pp := pp s; hp := Hdone; stop := fixed; lock := lock s |}.

  Definition Inv (s : st) : Prop :=
    lock s = (match pp s with P1 _ | P3 => 1 | _ => 0 end) /\
    (match pp s with P1 i => i <= n | _ => True end) /\
    (match hp s with H0 j => j <= n | H1 j => j < n | _ => True end) /\
    (hp s = Hdone -> stop s = fixed) /\
    (stop s = true -> hp s = Hdone) /\
    (pp s = Pdone -> hp s = Hret \/ hp s = Hdone) /\
    (match pp s, hp s with P1 i, H0 j => i = j | P1 i, H1 j => i = S j | P0, h => h = H0 0 | _, _ => True end).

  Lemma inv_init : Inv init.
  Proof. unfold Inv, init; simpl. repeat split; auto; try lia; discriminate. Qed.

  Lemma inv_step s s' : Inv s -> step s s' -> Inv s'.
  Proof.
    intros (Hl & Hi & Hj & Hs & Hst' & Hd & Hc) Hst.
    inversion Hst; subst; unfold Inv; simpl;
      repeat match goal with H : pp s = _ |- _ => rewrite H in * end;
      repeat match goal with H : hp s = _ |- _ => rewrite H in * end;
      simpl in *.
    all: repeat split; intros; try discriminate; try lia; auto.
    all: try (destruct (hp s); simpl in *; try discriminate; try lia; auto; fail).
    all: try (destruct (pp s); simpl in *; try discriminate; try lia; auto; fail).
    all: try (intuition congruence).
  Qed.

  Definition mp (p : ppc) : nat :=
    match p with P0 => 2 * n + 5 | P1 i => 2 * (n - i) + 3 | P3 => 2 | P4 => 1 | Pdone => 0 end.
  Definition mh (h : hpc) : nat :=
    match h with H0 j => 2 * (n + 1 - j) + 3 | H1 j => 2 * (n + 1 - j) + 2 | Hret => 1 | Hdone => 0 end.
  Definition mu (s : st) : nat := mp (pp s) + mh (hp s).

  Lemma step_decreases s s' : Inv s -> step s s' -> mu s' < mu s.
  Proof.
    intros (Hl & Hi & Hj & Hs & Hst' & Hd & Hc) Hst.
    inversion Hst; subst; unfold mu; simpl;
      repeat match goal with H : pp s = _ |- _ => rewrite H in * end;
      repeat match goal with H : hp s = _ |- _ => rewrite H in * end;
      simpl in *; try lia.
    all: destruct (hp s); simpl in *; try lia.
  Qed.

  (* progress: in the repaired protocol every non-final reachable state can move *)
  Lemma progress s : fixed = true -> Inv s -> ~ final s -> exists s', step s s'.
  Proof.
    intros Hf (Hl & Hi & Hj & Hs & Hst' & Hd & Hc) Hnf.
    destruct (hp s) as [j|j| |] eqn:Hh.
    - (* handler selecting *)
      destruct (pp s) as [|i| | |] eqn:Hp.
      + eexists; apply s_rlock; auto.
      + destruct (Nat.eq_dec i n) as [->|Hne].
        * eexists; apply s_pend; auto.
        * eexists; eapply s_msg; eauto. simpl in Hi. lia.
      + eexists; apply s_runlock; auto.
      + eexists; eapply s_done; eauto.
      + destruct (Hd eq_refl) as [Hd1|Hd1]; discriminate.
    - destruct (Nat.eq_dec j k) as [->|Hne].
      + eexists; apply s_send_fail; auto.
      + eexists; eapply s_send_ok; eauto.
    - eexists; apply s_ret; auto.
    - specialize (Hs eq_refl). rewrite Hf in Hs.
      destruct (pp s) as [|i| | |] eqn:Hp.
      + eexists; apply s_rlock; auto.
      + destruct (Nat.eq_dec i n) as [->|Hne].
        * eexists; apply s_pend; auto.
        * eexists; eapply s_pstop; eauto. simpl in Hi. lia.
      + eexists; apply s_runlock; auto.
      + eexists; eapply s_done_stop; eauto.
      + exfalso. apply Hnf. unfold final. rewrite Hp, Hh. simpl in Hl. auto.
  Qed.

  (* every execution is finite and, in the repaired protocol, ends with the lock released *)
  Theorem get_releases_lock :
    fixed = true -> forall s, Inv s -> Acc (fun b a => Inv a /\ step a b) s.
  Proof.
    intros _ s _. 
    assert (forall m s, mu s < m -> Acc (fun b a => Inv a /\ step a b) s) as H.
    { induction m as [|m IH]; intros s0 Hm; [lia|].
      constructor. intros s1 [Hinv Hst]. apply IH. pose proof (step_decreases _ _ Hinv Hst). lia. }
    apply (H (S (mu s))). lia.
  Qed.
End Get.

Lemma Classical_free s : final s \/ ~ final s.
Proof.
  unfold final. destruct (pp s); try (right; intros (H & _); discriminate).
  destruct (hp s); try (right; intros (_ & H & _); discriminate).
  destruct (lock s); [left; auto|right; intros (_ & _ & H); discriminate].
Qed.

(* The protocol as it is in the tree wedges holding the read lock: 2 entries, cut at response 0. *)
Definition wedge := {| pp := P1 1; hp := Hdone; stop := false; lock := 1 |}.
Lemma wedge_reachable : clos_refl_trans _ (step 2 0 false) init wedge.
Proof.
  eapply rt_trans; [apply rt_step; apply s_rlock; reflexivity|]. simpl.
  eapply rt_trans; [apply rt_step; eapply s_msg with (i := 0) (j := 0); simpl; auto|]. simpl.
  eapply rt_trans; [apply rt_step; apply s_send_fail; reflexivity|]. simpl.
  apply rt_step. apply s_ret. reflexivity.
Qed.
Lemma wedge_stuck : forall s', ~ step 2 0 false wedge s'.
Proof. intros s' H. inversion H; subst; simpl in *; try discriminate; try congruence; try lia. Qed.
Lemma wedge_holds_lock : lock wedge = 1 /\ ~ final wedge.
Proof. split; auto. intros (H & _); discriminate. Qed.

(* terminal states of the repaired protocol are final: P has terminated and the lock is free *)
Theorem terminal_is_final n k s : Inv n true s -> (forall s', ~ step n k true s s') -> final s.
Proof.
  intros Hi Hstuck. destruct (Classical_free s) as [Hf|Hnf]; [exact Hf|].
  exfalso. destruct (progress n k true s eq_refl Hi Hnf) as [s' Hs]. exact (Hstuck s' Hs).
Qed.
