(* C11: the lock discipline of packages rib and server, checked on the table regenerated from the
   source on every run (Generated/LockTable.v), and the generic reason why an acyclic lock order
   excludes lock deadlocks. *)
From Coq Require Import List String Ascii Bool Arith Lia.
From GV.Conc Require Import LockDefs.
Import ListNotations.
Open Scope string_scope.
Open Scope list_scope.

(* ---- hand-written assumptions ---- *)
(* which lock guards which shared field *)
Definition guard_of (f : string) : option string :=
  if f =? "Server.curElecID" then Some "Server.elecMu"
  else if f =? "Server.curMaster" then Some "Server.elecMu"
  else if f =? "Server.cs" then Some "Server.csMu"
  else if f =? "RIB.niRIB" then Some "RIB.nrMu"
  else if f =? "RIB.pendingEntries" then Some "RIB.pendMu"
  else if f =? "niRefCounter.NextHop" then Some "niRefCounter.mu"
  else if f =? "niRefCounter.NextHopGroup" then Some "niRefCounter.mu"
  else if f =? "RIBHolder.r" then Some "RIBHolder.mu"
  else None.
(* functions that run only while the server is being set up (before any RPC is served) or only in tests *)
Definition setup_only (fn : string) : bool :=
  existsb (String.eqb fn)
          ["rib.New"; "rib.NewRIBHolder"; "rib.NewFake"; "rib.FromGetResponses"; "RIB.AddNetworkInstance"; "RIB.SetPostChangeHook";
           "RIB.SetResolvedEntryHook"; "server.New"; "server.NewFake"; "FakeServer.InjectRIB"; "FakeServer.InjectElectionID";
           "fakeRIB.RIB"; "fakeRIB.InjectIPv4"; "fakeRIB.InjectIPv6"; "fakeRIB.InjectNHG"; "fakeRIB.InjectNH"; "fakeRIB.InjectMPLS";
           "Server.AddNetworkInstance"].

(* ---- computations on the table ---- *)
Definition mode_eqb (a b : amode) : bool := match a, b with W, W | R, R | P, P => true | _, _ => false end.
Definition holds (h : list (string * amode)) (l : string) : bool := existsb (fun x => fst x =? l) h.
Definition holds_w (h : list (string * amode)) (l : string) : bool := existsb (fun x => (fst x =? l) && mode_eqb (snd x) W) h.
Definition inter (a b : list (string * amode)) : list (string * amode) :=
  filter (fun x => existsb (fun y => (fst x =? fst y) && mode_eqb (snd x) (snd y)) b) a.
Definition lookup_fn (t : list fn_entry) (n : string) : option fn_entry := find (fun f => fn_name f =? n) t.

(* call sites of a function: (caller, locks held locally at the call) *)
Definition callsites (t : list fn_entry) (n : string) : list (string * list (string * amode)) :=
  flat_map (fun f => map (fun c => (fn_name f, snd c)) (filter (fun c => fst c =? n) (fn_calls f))) t.

(* locks certainly held on entry: intersection over the call sites of (caller's entry locks ++ held at the call);
   functions without a call site inside the packages (RPC handlers, exported API, goroutines) start with none.
   Computed by iteration from "none", which under-approximates: sound for the guard obligations. *)
Definition entry_step (t : list fn_entry) (cur : list (string * list (string * amode))) (n : string) : list (string * amode) :=
  match callsites t n with
  | [] => []
  | cs :: rest =>
    let at_site (c : string * list (string * amode)) :=
        (match find (fun e => fst e =? fst c) cur with Some e => snd e | None => [] end) ++ snd c in
    fold_left (fun acc c => inter acc (at_site c)) rest (at_site cs)
  end.
Fixpoint entry_iter (t : list fn_entry) (k : nat) (cur : list (string * list (string * amode))) :=
  match k with
  | O => cur
  | S k' => entry_iter t k' (map (fun f => (fn_name f, entry_step t cur (fn_name f))) t)
  end.
Definition entry_locks (t : list fn_entry) : list (string * list (string * amode)) :=
  entry_iter t 6 (map (fun f => (fn_name f, [])) t).
Definition entry_of (e : list (string * list (string * amode))) (n : string) : list (string * amode) :=
  match find (fun x => fst x =? n) e with Some x => snd x | None => [] end.

(* every write to a guarded field happens under the exclusive mode of its guard, every read (dereference)
   under at least the shared mode; pointer comparisons with nil are not accesses *)
Definition access_ok (e : list (string * amode)) (a : string * amode * list (string * amode)) : bool :=
  match guard_of (fst (fst a)) with
  | None => true
  | Some l =>
    match snd (fst a) with
    | W => holds_w (snd a ++ e) l
    | R => holds (snd a ++ e) l
    | P => true
    end
  end.
Definition bad_accesses (t : list fn_entry) : list (string * (string * amode)) :=
  let e := entry_locks t in
  flat_map (fun f => if setup_only (fn_name f) then []
                     else map (fun a => (fn_name f, fst a)) (filter (fun a => negb (access_ok (entry_of e (fn_name f)) a)) (fn_accesses f))) t.

(* lock order: A -> B when B is acquired (possibly in a callee) while A is held.  A lock that is never
   acquired exclusively outside set-up cannot block a shared acquisition, so shared acquisitions of it
   are not edges. *)
Definition may_entry_step (t : list fn_entry) (cur : list (string * list string)) (n : string) : list string :=
  flat_map (fun c => (match find (fun e => fst e =? fst c) cur with Some e => snd e | None => [] end) ++ map fst (snd c)) (callsites t n).
Fixpoint may_iter (t : list fn_entry) (k : nat) (cur : list (string * list string)) :=
  match k with
  | O => cur
  | S k' => may_iter t k' (map (fun f => (fn_name f, may_entry_step t cur (fn_name f))) t)
  end.
Definition may_entry (t : list fn_entry) := may_iter t 6 (map (fun f => (fn_name f, [])) t).
Definition runtime_writer (t : list fn_entry) (l : string) : bool :=
  existsb (fun f => negb (setup_only (fn_name f)) && existsb (fun q => (fst (fst q) =? l) && mode_eqb (snd (fst q)) W) (fn_acqs f)) t.
Definition edges (t : list fn_entry) : list (string * string) :=
  let me := may_entry t in
  flat_map (fun f =>
              if setup_only (fn_name f) then [] else
              let inherited := match find (fun x => fst x =? fn_name f) me with Some x => snd x | None => [] end in
              flat_map (fun q =>
                          let b := fst (fst q) in
                          if mode_eqb (snd (fst q)) R && negb (runtime_writer t b) then []
                          else map (fun a => (a, b)) (map fst (snd q) ++ inherited))
                       (fn_acqs f)) t.
Definition succs (es : list (string * string)) (a : string) : list string := map snd (filter (fun e => fst e =? a) es).
Fixpoint reach (es : list (string * string)) (k : nat) (frontier : list string) : list string :=
  match k with
  | O => frontier
  | S k' => frontier ++ reach es k' (flat_map (succs es) frontier)
  end.
Definition cyclic_locks (t : list fn_entry) : list string :=
  let es := edges t in
  filter (fun a => existsb (String.eqb a) (reach es 8 (succs es a))) (map fst es).

Definition lock_discipline (t : list fn_entry) : bool :=
  match bad_accesses t, cyclic_locks t with [], [] => true | _, _ => false end.

(* ---- no lock is left held when a function returns ----
   fn_rets (tools/gen_locktable, leak.go): for every function in which a lock is taken, every `return` and the
   reachable end of its body - and of every function literal inside it - with the locks taken in that body that may
   still be held there (some path reaches the exit without an unlock) and that no deferred unlock covers.  A lock
   left held is not noticed at once: the next writer of it blocks for ever, and then every reader behind it. *)
(* functions that are meant to return holding a lock they took themselves (lock helpers whose caller unlocks),
   as (function, lock): there is none in rib / server.  An entry here must name its unlocking counterpart. *)
Definition returns_locked : list (string * string) := [].
(* FINDING in the tree of /repo (reported; remove the entry once repaired): RIB.copyRIBs read-locks each instance
   in its loop and, when ygot.DeepCopy fails, returns the error without the RUnlock that ends the loop body.  The
   entry names one function, one exit and one lock; nothing else is excused. *)
Definition known_leaks : list (string * string * string) := [("RIB.copyRIBs", "return1 if err != nil", "RIBHolder.mu")].
Definition leaked_locks (t : list fn_entry) : list (string * string * string) :=   (* function, exit, lock *)
  flat_map (fun f =>
              flat_map (fun r =>
                          flat_map (fun h => if existsb (fun a => (fst a =? fn_name f) && (snd a =? fst h)) returns_locked then []
                                             else [(fn_name f, fst r, fst h)]) (snd r))
                       (fn_rets f)) t.
Definition leak_eqb (a b : string * string * string) : bool :=
  (fst (fst a) =? fst (fst b)) && (snd (fst a) =? snd (fst b)) && (snd a =? snd b).
Definition unexpected_leaks (t : list fn_entry) : list (string * string * string) :=
  filter (fun x => negb (existsb (leak_eqb x) known_leaks)) (leaked_locks t).
(* the table is complete for this purpose: every function that takes a lock has its exits listed (those of a
   goroutine / deferred literal "F$go3" are listed under the enclosing declaration F as "lit<j>...") *)
Fixpoint before_dollar (s : string) : string :=
  match s with
  | EmptyString => EmptyString
  | String c r => if Ascii.eqb c "$"%char then EmptyString else String c (before_dollar r)
  end.
Definition exits_missing (t : list fn_entry) : list string :=
  map fn_name (filter (fun f => match fn_acqs f with
                                | [] => false
                                | _ :: _ => match lookup_fn t (before_dollar (fn_name f)) with
                                            | Some g => match fn_rets g with [] => true | _ => false end
                                            | None => true
                                            end
                                end) t).
Definition no_lock_leaked (t : list fn_entry) : bool :=
  match unexpected_leaks t, exits_missing t with [], [] => true | _, _ => false end.
(* how much was looked at: functions with exits listed, exits *)
Definition exits_examined (t : list fn_entry) : nat * nat :=
  (List.length (filter (fun f => match fn_rets f with [] => false | _ => true end) t), List.length (flat_map fn_rets t)).

(* ---- why a ranked (acyclic) lock order excludes a cycle of waiting threads ---- *)
(* thread i holds the locks holds_ i and waits for waits_ i; every thread waits only for a lock ranked above
   all the locks it holds.  Then there is no cycle t0 -> t1 -> ... -> t0 in which each thread waits for a lock
   held by the next. *)
Section Ranked.
  Variable thread lock : Type.
  Variable rank : lock -> nat.
  Variable holds_ : thread -> lock -> Prop.
  Variable waits_ : thread -> lock -> Prop.
  Hypothesis ordered : forall t l l', waits_ t l -> holds_ t l' -> rank l' < rank l.

  (* a chain of threads, each waiting for a lock held by the next *)
  Inductive chain : thread -> thread -> nat -> nat -> Prop :=
  | chain_one a b l : waits_ a l -> holds_ b l -> chain a b (rank l) (rank l)
  | chain_cons a b c l lo hi : waits_ a l -> holds_ b l -> chain b c lo hi -> rank l < lo -> chain a c (rank l) hi.

  Lemma chain_ranks a b lo hi : chain a b lo hi -> lo <= hi /\ exists l, waits_ a l /\ rank l = lo.
  Proof. induction 1 as [a b l Hw Hh|a b c l lo hi Hw Hh Hc IH Hlt]; [split; [lia|eauto]|]. destruct IH as [IH _]. split; [lia|eauto]. Qed.

  (* in a waits-for chain the ranks strictly increase, so it cannot close into a cycle *)
  Lemma chain_extends a b lo hi : chain a b lo hi -> forall l', waits_ b l' -> hi < rank l'.
  Proof.
    induction 1 as [a b l Hw Hh|a b c l lo hi Hw Hh Hc IH Hlt]; intros l' Hw'.
    - apply (ordered b l' l Hw' Hh).
    - apply IH. exact Hw'.
  Qed.

  Theorem no_deadlock_cycle a lo hi : ~ chain a a lo hi.
  Proof.
    intros H. destruct (chain_ranks a a lo hi H) as [Hle (l & Hw & Hr)].
    pose proof (chain_extends a a lo hi H l Hw). lia.
  Qed.
End Ranked.
