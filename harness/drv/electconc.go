package drv

import (
	"fmt"
	"sync"

	spb "github.com/openconfig/gribi/v1/proto/service"
)


// c05ConcCase: Sessions negotiated sessions announce their ids at the same time (Rounds fresh servers); afterwards
// the election id must be the 128-bit maximum, the primary one of its announcers, and a late lower
// announcement must be told the maximum.
type c05ConcCase struct {
	Seed     int64      `json:"seed"`
	Sessions int        `json:"sessions"`
	IDs      []U128 `json:"ids"` // Sessions x 2 announcements (session i announces IDs[2i] then IDs[2i+1])
	Rounds   int        `json:"rounds"`
}

func runC05ConcCase(c c05ConcCase) (string, error) {
	for round := 0; round < c.Rounds; round++ {
		d, err := NewServer()
		if err != nil {
			return "", err
		}
		sess := make([]*Sess, c.Sessions)
		for i := range sess {
			s, err := d.Connect()
			if err != nil {
				return "", err
			}
			if rs, err := s.SendN(&spb.ModifyRequest{Params: &spb.SessionParameters{Redundancy: 1, Persistence: 1}}, 1); err != nil || len(rs) != 1 {
				return "", fmt.Errorf("negotiation failed: %v", err)
			}
			sess[i] = s
		}
		var max U128
		for _, id := range c.IDs {
			if max.Less(id) {
				max = id
			}
		}
		start := make(chan struct{})
		var wg sync.WaitGroup
		var mu sync.Mutex
		problem := ""
		for i := range sess {
			i := i
			wg.Add(1)
			go func() {
				defer wg.Done()
				<-start
				var prev *spb.Uint128
				for k := 0; k < 2; k++ {
					id := c.IDs[2*((i+round)%c.Sessions)+k]
					rs, err := sess[i].SendN(&spb.ModifyRequest{ElectionId: id.Proto()}, 1)
					p := ""
					switch {
					case err != nil:
						p = err.Error()
					case len(rs) != 1 || rs[0].GetElectionId() == nil:
						p = fmt.Sprintf("announcement of %v not answered with an election id", id)
					default:
						got := U128{Hi: rs[0].GetElectionId().High, Lo: rs[0].GetElectionId().Low}
						if got.Less(id) || max.Less(got) {
							p = fmt.Sprintf("announcement of %v answered %v (maximum of all announcements %v)", id, got, max)
						}
						if prev != nil && got.Less(U128{Hi: prev.High, Lo: prev.Low}) {
							p = fmt.Sprintf("reported id decreased on one stream: %v then %v", prev, got)
						}
						prev = rs[0].GetElectionId()
					}
					if p != "" {
						mu.Lock()
						if problem == "" {
							problem = p
						}
						mu.Unlock()
						return
					}
				}
			}()
		}
		close(start)
		wg.Wait()
		if problem == "" {
			id, master := d.S.VerifElection()
			announcers := map[string]bool{}
			for i := range sess {
				for k := 0; k < 2; k++ {
					if c.IDs[2*((i+round)%c.Sessions)+k] == max {
						announcers[sess[i].UUID] = true
					}
				}
			}
			switch {
			case id == nil || id.High != max.Hi || id.Low != max.Lo:
				problem = fmt.Sprintf("after concurrent announcements the election id is %v, the maximum announced is %v", id, max)
			case !announcers[master]:
				problem = fmt.Sprintf("after concurrent announcements the primary is a session that did not announce the maximum %v", max)
			default:
				// a late lower announcement is told the maximum
				low := U128{Lo: 1}
				if low != max {
					rs, err := sess[0].SendN(&spb.ModifyRequest{ElectionId: low.Proto()}, 1)
					if err != nil || len(rs) != 1 || rs[0].GetElectionId().GetHigh() != max.Hi || rs[0].GetElectionId().GetLow() != max.Lo {
						problem = fmt.Sprintf("a later lower announcement was answered %v, want the maximum %v (%v)", rs, max, err)
					}
				}
			}
		}
		for _, s := range sess {
			s.Abort()
		}
		if problem != "" {
			return fmt.Sprintf("round %d: %s", round, problem), nil
		}
	}
	return "", nil
}

// ElectConcCmd is the sub-command "<name>": concurrent election announcements on fresh servers.
func ElectConcCmd(name, prop string) Cmd {
	return func(args []string) error { return runElectConc(name, prop, args) }
}

func runElectConc(name, prop string, args []string) error {
	f := NewFlags(name)
	if err := f.Parse(args); err != nil {
		return err
	}
	var cases []c05ConcCase
	if *f.Replay != "" {
		if err := ReadJSON(*f.Replay, &cases); err != nil {
			return err
		}
	} else {
		r := NewRng(*f.Seed)
		for i := 0; i < *f.N; i++ {
			c := c05ConcCase{Seed: *f.Seed*1000 + int64(i), Sessions: 2 + r.Intn(5), Rounds: 40}
			for k := 0; k < 2*c.Sessions; k++ {
				id := GenElectionID(r)
				for id.IsZero() {
					id = GenElectionID(r)
				}
				if k%2 == 1 && r.Chance(1, 2) { // the second announcement of a session: just above / below its first
					b := c.IDs[k-1]
					id = Pick(r, U128{Hi: b.Hi, Lo: b.Lo + 1}, U128{Hi: b.Hi + 1, Lo: 0}, b)
					if id.IsZero() {
						id = b
					}
				}
				c.IDs = append(c.IDs, id)
			}
			cases = append(cases, c)
		}
	}
	rep := Report{Property: prop, Seed: *f.Seed, Shard: ShardSize, Stats: map[string]int{}, Cases: len(cases),
		Rule: "concurrent announcements: 2-6 negotiated sessions each announce two ids (boundary lattice, random, just above/below) at the same moment, 40 fresh servers per case with the ids rotated over the sessions; every response within [own id, maximum] and non-decreasing per stream; afterwards election id = 128-bit maximum, primary announced it, a late lower announcement is told the maximum; non-trivial = at least two distinct ids"}
	for i, c := range cases {
		p, err := runC05ConcCase(c)
		if err != nil {
			return err
		}
		if p != "" {
			rep.Violations = append(rep.Violations, Verdict{Case: i, Problem: p})
		}
		rep.Stats["rounds"] += c.Rounds
		rep.Stats[fmt.Sprintf("sessions_%d", c.Sessions)]++
		ids := map[U128]bool{}
		for _, id := range c.IDs {
			ids[id] = true
		}
		if len(ids) >= 2 {
			rep.Nontrivial++
		}
	}
	if err := WriteJSON(*f.Out+"/cases.json", cases); err != nil {
		return err
	}
	// the Coq side of the concurrent clause is C11_election_max_any_order; there is no per-case model run
	if err := WriteCasesV(*f.Out, "From Coq Require Import List NArith.\nImport ListNotations.", "N", "(fun _ : list N => @nil N)", nil); err != nil {
		return err
	}
	return WriteJSON(*f.Out+"/impl.json", rep)
}

// GenElectionID draws an election id: zero (invalid), random words, or the boundary lattice.
func GenElectionID(r *Rng) U128 {
	switch r.Intn(10) {
	case 0:
		return U128{} // zero: invalid
	case 1, 2:
		return U128{Hi: r.Uint64(), Lo: r.Uint64()}
	}
	return U128{Hi: Pick(r, BoundaryWords...), Lo: Pick(r, BoundaryWords...)}
}
