// Package drv drives the real gribigo packages without a network.
package drv

import (
	"context"
	"fmt"
	"io"
	"sync"
	"sync/atomic"
	"time"

	"github.com/openconfig/gribigo/server"
	"google.golang.org/grpc"
	"google.golang.org/grpc/codes"
	"google.golang.org/grpc/metadata"
	"google.golang.org/grpc/status"

	spb "github.com/openconfig/gribi/v1/proto/service"
)

// BarrierNI is a network instance that never exists; an operation aimed at it is answered
// FAILED by doModify before any election check and touches no state.
const BarrierNI = "__barrier__"

// Watchdog bounds every wait on the server; exceeding it is reported as a hang.
var Watchdog = 5 * time.Second

type fakeModify struct {
	grpc.ServerStream
	ctx  context.Context
	in   chan *spb.ModifyRequest
	out  chan *spb.ModifyResponse
	abrt chan struct{}
	// failSend makes every later Send fail (the transport to the client is gone);
	// sendBudget >= 0: that many further Sends succeed, then they fail
	failSend   atomic.Bool
	sendBudget atomic.Int64
	// stallFail > 0: the next Send blocks for that long and then fails (a write stuck on a dying transport)
	stallFail atomic.Int64
}

func (f *fakeModify) Context() context.Context     { return f.ctx }
func (f *fakeModify) SetHeader(metadata.MD) error  { return nil }
func (f *fakeModify) SendHeader(metadata.MD) error { return nil }
func (f *fakeModify) SetTrailer(metadata.MD)       {}
func (f *fakeModify) Send(m *spb.ModifyResponse) error {
	if d := f.stallFail.Load(); d > 0 {
		f.failSend.Store(true)
		time.Sleep(time.Duration(d))
		return status.Error(codes.Unavailable, "transport is closing")
	}
	if f.failSend.Load() {
		return status.Error(codes.Unavailable, "transport is closing")
	}
	if b := f.sendBudget.Load(); b >= 0 {
		if b == 0 {
			f.failSend.Store(true)
			return status.Error(codes.Unavailable, "transport is closing")
		}
		f.sendBudget.Store(b - 1)
	}
	f.out <- m
	return nil
}
func (f *fakeModify) Recv() (*spb.ModifyRequest, error) {
	select {
	case m, ok := <-f.in:
		if !ok {
			return nil, io.EOF
		}
		return m, nil
	case <-f.abrt:
		return nil, status.Error(codes.Canceled, "context canceled")
	}
}

// End describes how a Modify RPC ended.
type End struct {
	Code   codes.Code
	Reason string // ModifyRPCErrorDetails.reason name, "" if no details, "EMPTY" for details without reason
}

// Sess is one Modify session on the driven server.
type Sess struct {
	d      *Server
	UUID   string
	f      *fakeModify
	done   chan error
	Ended  *End
	bar    uint64
	closed bool
}

// Server wraps one gribigo server.
type Server struct {
	S    *server.Server
	mu   sync.Mutex
	nbar uint64
}

// NewServer creates a gribigo server.
func NewServer(opts ...server.ServerOpt) (*Server, error) {
	s, err := server.New(opts...)
	if err != nil {
		return nil, err
	}
	return &Server{S: s, nbar: 1 << 62}, nil
}

// Connect opens a Modify session and waits until the server has registered it.
func (d *Server) Connect() (*Sess, error) {
	before := map[string]bool{}
	for _, v := range d.S.VerifSessions() {
		before[v.ID] = true
	}
	f := &fakeModify{ctx: context.Background(), in: make(chan *spb.ModifyRequest), out: make(chan *spb.ModifyResponse, 1<<16), abrt: make(chan struct{})}
	f.sendBudget.Store(-1)
	s := &Sess{d: d, f: f, done: make(chan error, 1)}
	go func() { s.done <- d.S.Modify(f) }()
	deadline := time.Now().Add(Watchdog)
	for time.Now().Before(deadline) {
		for _, v := range d.S.VerifSessions() {
			if !before[v.ID] {
				s.UUID = v.ID
				return s, nil
			}
		}
		time.Sleep(50 * time.Microsecond)
	}
	return nil, fmt.Errorf("HANG: session not registered within %v", Watchdog)
}

func endOf(err error) *End {
	if err == nil {
		return &End{Code: codes.OK}
	}
	st, _ := status.FromError(err)
	e := &End{Code: st.Code()}
	for _, d := range st.Details() {
		switch v := d.(type) {
		case *spb.ModifyRPCErrorDetails:
			e.Reason = v.GetReason().String()
			if v.GetReason() == spb.ModifyRPCErrorDetails_UNKNOWN {
				e.Reason = "UNKNOWN"
			}
		}
	}
	return e
}

// Live reports whether the RPC is still running.
func (s *Sess) Live() bool { return s != nil && s.Ended == nil && !s.closed }

func (s *Sess) nextBarrier() uint64 {
	s.d.mu.Lock()
	defer s.d.mu.Unlock()
	s.d.nbar++
	return s.d.nbar
}

// push delivers one request to the receive goroutine, or notices that the RPC has ended.
func (s *Sess) push(m *spb.ModifyRequest) (bool, error) {
	select {
	case s.f.in <- m:
		return true, nil
	case err := <-s.done:
		s.Ended = endOf(err)
		return false, nil
	case <-time.After(Watchdog):
		return false, fmt.Errorf("HANG: server did not read the next request within %v", Watchdog)
	}
}

// SendN sends m and waits for n responses or for the end of the RPC.
func (s *Sess) SendN(m *spb.ModifyRequest, n int) ([]*spb.ModifyResponse, error) {
	if !s.Live() {
		return nil, nil
	}
	ok, err := s.push(m)
	if err != nil || !ok {
		return nil, err
	}
	var got []*spb.ModifyResponse
	for len(got) < n {
		select {
		case r := <-s.f.out:
			got = append(got, r)
		case err := <-s.done:
			s.Ended = endOf(err)
			return append(got, s.drain()...), nil
		case <-time.After(Watchdog):
			return got, fmt.Errorf("HANG: %d of %d responses within %v", len(got), n, Watchdog)
		}
	}
	return got, nil
}

func (s *Sess) drain() []*spb.ModifyResponse {
	var got []*spb.ModifyResponse
	for {
		select {
		case r := <-s.f.out:
			got = append(got, r)
		default:
			return got
		}
	}
}

// SendBarrier sends m (an operations message on a negotiated session) followed by a barrier
// operation, and returns every response that precedes the barrier's own result.
func (s *Sess) SendBarrier(m *spb.ModifyRequest) ([]*spb.ModifyResponse, error) {
	if !s.Live() {
		return nil, nil
	}
	ok, err := s.push(m)
	if err != nil || !ok {
		return nil, err
	}
	id := s.nextBarrier()
	bar := &spb.ModifyRequest{Operation: []*spb.AFTOperation{{Id: id, NetworkInstance: BarrierNI, Op: spb.AFTOperation_ADD}}}
	sent := false
	var got []*spb.ModifyResponse
	t := time.After(Watchdog)
	for {
		var in chan *spb.ModifyRequest
		if !sent {
			in = s.f.in
		}
		select {
		case in <- bar:
			sent = true
		case r := <-s.f.out:
			if len(r.GetResult()) == 1 && r.GetResult()[0].GetId() == id {
				return got, nil
			}
			got = append(got, r)
		case err := <-s.done:
			s.Ended = endOf(err)
			return append(got, s.drain()...), nil
		case <-t:
			return got, fmt.Errorf("HANG: no barrier result within %v", Watchdog)
		}
	}
}

// PushClose sends m and half-closes at once, without waiting for the responses (a client that sends its last
// request and closes); it returns every response that was written until the RPC returned (and shortly after: the
// response being written at that moment).
func (s *Sess) PushClose(m *spb.ModifyRequest) ([]*spb.ModifyResponse, error) {
	if !s.Live() {
		return nil, nil
	}
	ok, err := s.push(m)
	if err != nil || !ok {
		return nil, err
	}
	s.closed = true
	close(s.f.in)
	var got []*spb.ModifyResponse
	t := time.After(Watchdog)
	for {
		select {
		case r := <-s.f.out:
			got = append(got, r)
		case err := <-s.done:
			s.Ended = endOf(err)
			grace := time.After(100 * time.Millisecond)
			for {
				select {
				case r := <-s.f.out:
					got = append(got, r)
				case <-grace:
					return got, nil
				}
			}
		case <-t:
			return got, fmt.Errorf("HANG: RPC did not return within %v", Watchdog)
		}
	}
}

// HalfClose ends the request stream cleanly and waits for the RPC to return.
func (s *Sess) HalfClose() error {
	if !s.Live() {
		return nil
	}
	s.closed = true
	close(s.f.in)
	return s.wait()
}

// Abort makes the next Recv fail (cancellation / transport failure) and waits for the RPC to return.
func (s *Sess) Abort() error {
	if !s.Live() {
		return nil
	}
	s.closed = true
	close(s.f.abrt)
	return s.wait()
}

func (s *Sess) wait() error {
	select {
	case err := <-s.done:
		s.Ended = endOf(err)
		return nil
	case <-time.After(Watchdog):
		return fmt.Errorf("HANG: RPC did not return within %v", Watchdog)
	}
}

// AbortWhileAnswering: the connection dies while a response is being written - the read side reports it first (Recv
// fails while Send is still stuck), the write fails afterwards.  A state-neutral operation gives the server
// something to answer.
func (s *Sess) AbortWhileAnswering() error {
	if !s.Live() {
		return nil
	}
	s.f.stallFail.Store(int64(40 * time.Millisecond))
	id := s.nextBarrier()
	bar := &spb.ModifyRequest{Operation: []*spb.AFTOperation{{Id: id, NetworkInstance: BarrierNI, Op: spb.AFTOperation_ADD}}}
	if ok, err := s.push(bar); err != nil || !ok {
		return err
	}
	time.Sleep(10 * time.Millisecond) // the writer is inside Send by now, the reader back in Recv
	s.closed = true
	close(s.f.abrt)
	return s.wait()
}

// SendFail simulates a transport failure: the next response cannot be written. A state-neutral
// operation (the barrier) is sent so that the server has something to answer.
func (s *Sess) SendFail() error {
	if !s.Live() {
		return nil
	}
	s.f.failSend.Store(true)
	id := s.nextBarrier()
	bar := &spb.ModifyRequest{Operation: []*spb.AFTOperation{{Id: id, NetworkInstance: BarrierNI, Op: spb.AFTOperation_ADD}}}
	if ok, err := s.push(bar); err != nil || !ok {
		return err
	}
	s.closed = true
	return s.wait()
}

// SendFailDuring sends m (a request of several operations) on a transport that delivers only the first
// `after` responses and then fails: the client goes away while its request is being answered.
func (s *Sess) SendFailDuring(m *spb.ModifyRequest, after int) ([]*spb.ModifyResponse, error) {
	if !s.Live() {
		return nil, nil
	}
	s.f.sendBudget.Store(int64(after))
	if ok, err := s.push(m); err != nil || !ok {
		return nil, err
	}
	s.closed = true
	if err := s.wait(); err != nil {
		return nil, err
	}
	return s.drain(), nil
}
