package drv

import (
	"flag"
	"fmt"
	"os"
	"path/filepath"
	"sort"
	"strings"

	"github.com/golang/glog"
)

// Verdict is what the model-free oracle says about one case.
type Verdict struct {
	Case    int    `json:"case"`
	Problem string `json:"problem"`
}

// Report is impl.json.
type Report struct {
	Property   string         `json:"property"`
	Seed       int64          `json:"seed"`
	Cases      int            `json:"cases"`
	Nontrivial int            `json:"distinct_nontrivial"`
	Rule       string         `json:"rule"`
	Stats      map[string]int `json:"stats"`
	Violations []Verdict      `json:"violations"`
	Hangs      []Verdict      `json:"hangs"`
	Samples    []any          `json:"samples"`
	Shard      int            `json:"shard"`
}

// Cmd is a sub-command of a harness binary.
type Cmd func(args []string) error

// Main dispatches os.Args[1] over cmds.
func Main(cmds map[string]Cmd) {
	if len(os.Args) < 2 {
		names := []string{}
		for n := range cmds {
			names = append(names, n)
		}
		sort.Strings(names)
		fmt.Fprintln(os.Stderr, "usage:", os.Args[0], names, "[flags]")
		os.Exit(2)
	}
	c, ok := cmds[os.Args[1]]
	if !ok {
		fmt.Fprintln(os.Stderr, "unknown command", os.Args[1])
		os.Exit(2)
	}
	flag.CommandLine.Parse([]string{})
	err := c(os.Args[2:])
	glog.Flush()
	if err != nil {
		fmt.Fprintln(os.Stderr, os.Args[0]+":", err)
		os.Exit(3)
	}
}

// Flags are shared by every sub-command.
type Flags struct {
	FS     *flag.FlagSet
	Seed   *int64
	N      *int
	Out    *string
	Replay *string
	Tier   *string
}

// NewFlags declares the standard flags.
func NewFlags(name string) *Flags {
	fs := flag.NewFlagSet(name, flag.ExitOnError)
	return &Flags{FS: fs,
		Seed:   fs.Int64("seed", 1, "PRNG seed"),
		N:      fs.Int("n", 100, "number of generated cases"),
		Out:    fs.String("out", "", "output directory"),
		Replay: fs.String("replay", "", "cases.json to run instead of generating"),
		Tier:   fs.String("tier", "quick", "quick|thorough"),
	}
}

// Parse parses args, creates the output directory and points glog into it.
func (f *Flags) Parse(args []string) error {
	if err := f.FS.Parse(args); err != nil {
		return err
	}
	if *f.Out == "" {
		return fmt.Errorf("-out is required")
	}
	if err := os.MkdirAll(*f.Out, 0o755); err != nil {
		return err
	}
	// keep glog's files in the output directory (removed by the check), not in /tmp
	gl := filepath.Join(*f.Out, "glog")
	os.MkdirAll(gl, 0o755)
	flag.Set("log_dir", gl)
	flag.Set("logtostderr", "false")
	flag.Set("alsologtostderr", "false")
	flag.Set("stderrthreshold", "FATAL")
	return nil
}

// ShardSize is the number of cases per cases_<k>.v file (evaluated in parallel by the check).
const ShardSize = 200

// WriteCasesV writes the cases files evaluated by coqc, ShardSize cases per file:
//   <requires>  Definition cases : list <caseType> := [...].  Definition M := Eval vm_compute in <mism> cases.  Print M.
// <mism> must return the list (as N or nat numerals) of the indices of the cases on which model and
// implementation disagree; the check greps "M = [...]".
func WriteCasesV(dir, requires, caseType, mism string, cases []string) error {
	for k := 0; k*ShardSize < len(cases) || k == 0; k++ {
		lo, hi := k*ShardSize, (k+1)*ShardSize
		if hi > len(cases) {
			hi = len(cases)
		}
		var b strings.Builder
		b.WriteString("(* written by the harness: the cases the implementation ran, with its observables *)\n")
		b.WriteString(requires + "\n")
		b.WriteString("Definition cases : list " + caseType + " := [\n")
		b.WriteString(strings.Join(cases[lo:hi], ";\n"))
		b.WriteString("\n].\n")
		b.WriteString("Definition M := Eval vm_compute in " + mism + " cases.\nPrint M.\n")
		if err := os.WriteFile(filepath.Join(dir, fmt.Sprintf("cases_%d.v", k)), []byte(b.String()), 0o644); err != nil {
			return err
		}
	}
	return nil
}
