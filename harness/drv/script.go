package drv

import (
	"fmt"
	"strings"

	"google.golang.org/grpc/codes"

	spb "github.com/openconfig/gribi/v1/proto/service"
)

// ObsOut is what one script step produced on its stream.
type ObsOut struct {
	Resps []*spb.ModifyResponse
	End   *End
	Hang  string
}

// StatusCoq maps an AFTResult status to the model's constructor.
func StatusCoq(s spb.AFTResult_Status) string {
	switch s {
	case spb.AFTResult_FAILED:
		return "FAILED"
	case spb.AFTResult_RIB_PROGRAMMED:
		return "RIB_PROGRAMMED"
	case spb.AFTResult_FIB_PROGRAMMED:
		return "FIB_PROGRAMMED"
	}
	return "FAILED (* unexpected status " + s.String() + " *)"
}

// RespCoq prints one ModifyResponse as a model resp.
func RespCoq(r *spb.ModifyResponse) string {
	switch {
	case r.GetSessionParamsResult() != nil:
		return "RParamsOK"
	case r.GetElectionId() != nil:
		return "RElect " + OptU128Coq(r.GetElectionId())
	}
	rs := []string{}
	for _, x := range r.GetResult() {
		rs = append(rs, fmt.Sprintf("(%d%%N, %s)", x.GetId(), StatusCoq(x.GetStatus())))
	}
	return "RResults " + CoqList(rs)
}

// CodeCoq maps a gRPC code to the model's constructor.
func CodeCoq(c codes.Code) string {
	switch c {
	case codes.OK:
		return "OK"
	case codes.Unknown:
		return "Unknown"
	case codes.InvalidArgument:
		return "InvalidArgument"
	case codes.FailedPrecondition:
		return "FailedPrecondition"
	case codes.Unimplemented:
		return "Unimplemented"
	case codes.Internal:
		return "Internal"
	case codes.Canceled:
		return "Unknown" // an aborted stream surfaces as Unknown from Modify; Canceled only from the fake itself
	}
	return "OtherCode"
}

// ReasonCoq maps a ModifyRPCErrorDetails reason name to the model's constructor.
func ReasonCoq(r string) string {
	switch r {
	case "":
		return "NoDetail"
	case "UNKNOWN":
		return "R_UNKNOWN"
	case "MODIFY_NOT_ALLOWED":
		return "MODIFY_NOT_ALLOWED"
	case "UNSUPPORTED_PARAMS":
		return "UNSUPPORTED_PARAMS"
	case "PARAMS_DIFFER_FROM_OTHER_CLIENTS":
		return "PARAMS_DIFFER"
	case "ELECTION_ID_IN_ALL_PRIMARY":
		return "ELECTION_ID_IN_ALL_PRIMARY"
	}
	return "OtherReason"
}

// OutCoq prints a step's observable as a model out.
func OutCoq(o ObsOut) string {
	rs := []string{}
	for _, r := range o.Resps {
		rs = append(rs, RespCoq(r))
	}
	end := "None"
	if o.End != nil {
		end = fmt.Sprintf("(Some (%s, %s))", CodeCoq(o.End.Code), ReasonCoq(o.End.Reason))
	}
	return fmt.Sprintf("mkout %s %s", CoqList(rs), end)
}

// OutText is a compact human-readable rendering for replay files.
func OutText(o ObsOut) string {
	var b strings.Builder
	for _, r := range o.Resps {
		b.WriteString(RespCoq(r) + " ")
	}
	if o.End != nil {
		b.WriteString(fmt.Sprintf("END(%s,%s)", o.End.Code, o.End.Reason))
	}
	if o.Hang != "" {
		b.WriteString(" " + o.Hang)
	}
	return b.String()
}
