package drv

import (
	"bufio"
	"encoding/json"
	"fmt"
	"os"
	"os/exec"
	"path/filepath"
	"strings"
	"time"
)

// IsoResult is what a worker records about one case.
type IsoResult struct {
	Case    int            `json:"case"`
	Phase   string         `json:"phase"` // start | done
	Problem string         `json:"problem,omitempty"`
	Coq     string         `json:"coq,omitempty"`
	Text    []string       `json:"text,omitempty"`
	Stats   map[string]int `json:"stats,omitempty"`
	Key     string         `json:"key,omitempty"`
	NonTriv bool           `json:"nontrivial,omitempty"`
}

// IsoWorker runs cases [start, n) in this process, announcing each before it runs.
func IsoWorker(outDir string, n int, run func(i int) IsoResult) error {
	out, err := os.Create(filepath.Join(outDir, "results.jsonl"))
	if err != nil {
		return err
	}
	defer out.Close()
	enc := json.NewEncoder(out)
	start := 0
	if s := os.Getenv("VH_ISO_START"); s != "" {
		fmt.Sscan(s, &start)
	}
	for i := start; i < n; i++ {
		enc.Encode(IsoResult{Case: i, Phase: "start"})
		out.Sync()
		r := run(i)
		r.Case, r.Phase = i, "done"
		enc.Encode(r)
		out.Sync()
	}
	return nil
}

// IsoParent runs worker processes (`<self> <sub> -worker -replay <cases> -out <dir>`) until every case has a
// result; a worker that dies is restarted behind the case it was handling, which is recorded as a crash.
func IsoParent(sub, casesPath, outDir string, n int, describe func(i int) string) (map[int]IsoResult, error) {
	results := map[int]IsoResult{}
	next := 0
	for round := 0; next < n && round < 60; round++ {
		wdir := filepath.Join(outDir, fmt.Sprintf("w%d", round))
		os.MkdirAll(wdir, 0o755)
		cmd := exec.Command(os.Args[0], sub, "-worker", "-replay", casesPath, "-out", wdir)
		cmd.Env = append(os.Environ(), fmt.Sprintf("VH_ISO_START=%d", next))
		var stderr strings.Builder
		cmd.Stderr = &stderr
		done := make(chan error, 1)
		if err := cmd.Start(); err != nil {
			return nil, err
		}
		go func() { done <- cmd.Wait() }()
		var werr error
		select {
		case werr = <-done:
		case <-time.After(25 * time.Minute):
			cmd.Process.Kill()
			werr = fmt.Errorf("worker timed out")
		}
		started := -1
		if fh, err := os.Open(filepath.Join(wdir, "results.jsonl")); err == nil {
			sc := bufio.NewScanner(fh)
			sc.Buffer(make([]byte, 1<<20), 1<<27)
			for sc.Scan() {
				var r IsoResult
				if json.Unmarshal(sc.Bytes(), &r) != nil {
					continue
				}
				if r.Phase == "start" {
					started = r.Case
				} else {
					results[r.Case] = r
					next = r.Case + 1
				}
			}
			fh.Close()
		}
		if werr != nil && started >= next {
			tail := stderr.String()
			if i := strings.Index(tail, "panic:"); i >= 0 {
				tail = tail[i:]
			}
			if len(tail) > 1800 {
				tail = tail[:1800]
			}
			results[started] = IsoResult{Case: started, Phase: "done", Problem: fmt.Sprintf("the process terminated while handling this input (%s): %v\n%s", describe(started), werr, tail),
				Stats: map[string]int{"outcome_CRASH": 1}}
			next = started + 1
		} else if werr != nil {
			// a race-built worker that finished its cases exits with the race detector's status when it logged a
			// data race: the reports are in the GORACE log, which the check reads
			if ee, ok := werr.(*exec.ExitError); !ok || ee.ExitCode() != 66 {
				return nil, fmt.Errorf("worker failed without a culprit: %v\n%s", werr, stderr.String())
			}
		}
		os.RemoveAll(wdir)
	}
	return results, nil
}
