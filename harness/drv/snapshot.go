package drv

import (
	"fmt"
	"sort"
	"sync"
	"time"

	spb "github.com/openconfig/gribi/v1/proto/service"
)

// ClosedSnapshot checks one Get result instance by instance: an installed group's next-hops and an installed
// entry's group (when it lives in the same instance) are installed too.  The server keeps this true of every
// instance at every moment (C02), and a Get reads an instance under its lock, so it holds of every Get result
// whatever Modify sessions run concurrently.  A concurrent Flush is different: AddEntry decides that an entry is
// resolvable and installs it in two steps, and a Flush in between removes what it depends on (the installed
// entry then dangles until it is flushed or deleted - no property speaks about Flush overlapping modifications,
// C11 excludes it explicitly), so with a Flush caller around only "no key twice" is required (closure = false).
func ClosedSnapshot(items []*spb.AFTEntry, closure bool) string {
	type ni struct {
		nh, nhg map[uint64]bool
		members map[uint64][]uint64
		tops    []string
		topRef  map[string][2]string // entry -> (group id text, group instance)
	}
	by := map[string]*ni{}
	get := func(n string) *ni {
		if by[n] == nil {
			by[n] = &ni{nh: map[uint64]bool{}, nhg: map[uint64]bool{}, members: map[uint64][]uint64{}, topRef: map[string][2]string{}}
		}
		return by[n]
	}
	seen := map[string]bool{}
	for _, e := range items {
		n := get(e.GetNetworkInstance())
		key := ""
		switch v := e.GetEntry().(type) {
		case *spb.AFTEntry_NextHop:
			n.nh[v.NextHop.GetIndex()] = true
			key = fmt.Sprintf("%s/nh/%d", e.GetNetworkInstance(), v.NextHop.GetIndex())
		case *spb.AFTEntry_NextHopGroup:
			id := v.NextHopGroup.GetId()
			n.nhg[id] = true
			for _, m := range v.NextHopGroup.GetNextHopGroup().GetNextHop() {
				n.members[id] = append(n.members[id], m.GetIndex())
			}
			key = fmt.Sprintf("%s/nhg/%d", e.GetNetworkInstance(), id)
		case *spb.AFTEntry_Ipv4:
			key = fmt.Sprintf("%s/v4/%s", e.GetNetworkInstance(), v.Ipv4.GetPrefix())
			n.topRef[key] = [2]string{fmt.Sprint(v.Ipv4.GetIpv4Entry().GetNextHopGroup().GetValue()), v.Ipv4.GetIpv4Entry().GetNextHopGroupNetworkInstance().GetValue()}
		case *spb.AFTEntry_Ipv6:
			key = fmt.Sprintf("%s/v6/%s", e.GetNetworkInstance(), v.Ipv6.GetPrefix())
			n.topRef[key] = [2]string{fmt.Sprint(v.Ipv6.GetIpv6Entry().GetNextHopGroup().GetValue()), v.Ipv6.GetIpv6Entry().GetNextHopGroupNetworkInstance().GetValue()}
		case *spb.AFTEntry_Mpls:
			key = fmt.Sprintf("%s/mpls/%d", e.GetNetworkInstance(), v.Mpls.GetLabelUint64())
			n.topRef[key] = [2]string{fmt.Sprint(v.Mpls.GetLabelEntry().GetNextHopGroup().GetValue()), v.Mpls.GetLabelEntry().GetNextHopGroupNetworkInstance().GetValue()}
		}
		if seen[key] {
			return "one Get result carries " + key + " twice"
		}
		seen[key] = true
	}
	if !closure {
		return ""
	}
	names := []string{}
	for n := range by {
		names = append(names, n)
	}
	sort.Strings(names)
	for _, name := range names {
		n := by[name]
		for id, ms := range n.members {
			for _, m := range ms {
				if !n.nh[m] {
					return fmt.Sprintf("one Get result has group %d of %s but not its next-hop %d: not a state the instance was ever in", id, name, m)
				}
			}
		}
		for k, ref := range n.topRef {
			if ref[1] != "" && ref[1] != name {
				continue
			}
			var id uint64
			fmt.Sscan(ref[0], &id)
			if !n.nhg[id] {
				return fmt.Sprintf("one Get result has entry %s but not its group %d in the same instance: not a state the instance was ever in", k, id)
			}
		}
	}
	return ""
}

// SnapshotStress: a primary keeps building and tearing down chains next-hop <- group <- IPv4 entry in two
// instances while slow readers stream Get(all, ALL) and, optionally, a Flush caller runs; every Get result must
// be a closed snapshot and nothing may hang.
func SnapshotStress(seed int64, cycles int, flush bool) (problem string, stats map[string]int) {
	stats = map[string]int{}
	x, err := NewSRun(SCase{VRFs: []int{2}})
	if err != nil {
		return err.Error(), stats
	}
	defer x.Finish()
	s, err := x.D.Connect()
	if err != nil {
		return err.Error(), stats
	}
	if rs, err := s.SendN(&spb.ModifyRequest{Params: &spb.SessionParameters{Redundancy: 1, Persistence: 1}}, 1); err != nil || len(rs) != 1 {
		return fmt.Sprintf("negotiation: %v", err), stats
	}
	el := U128{Lo: 7}
	if rs, err := s.SendN(&spb.ModifyRequest{ElectionId: el.Proto()}, 1); err != nil || len(rs) != 1 {
		return fmt.Sprintf("announcement: %v", err), stats
	}
	var mu sync.Mutex
	fail := func(p string) {
		mu.Lock()
		if problem == "" {
			problem = p
		}
		mu.Unlock()
	}
	stop := make(chan struct{})
	var wg sync.WaitGroup
	for g := 0; g < 2; g++ {
		wg.Add(1)
		go func() {
			defer wg.Done()
			for {
				select {
				case <-stop:
					return
				default:
				}
				items, gerr, h := x.D.DoGetSlow(GetSpec{NI: "all", AFT: "ALL"}.GetReq(), 150*time.Microsecond)
				if h != "" {
					fail(h)
					return
				}
				if gerr != nil {
					fail("Get failed: " + gerr.Error())
					return
				}
				if p := ClosedSnapshot(items, !flush); p != "" {
					fail(p)
					return
				}
				mu.Lock()
				stats["gets"]++
				stats["entries_read"] += len(items)
				mu.Unlock()
				time.Sleep(100 * time.Microsecond)
			}
		}()
	}
	if flush {
		wg.Add(1)
		go func() {
			defer wg.Done()
			for {
				select {
				case <-stop:
					return
				case <-time.After(4 * time.Millisecond):
				}
				if _, h := x.D.DoFlush(FlushSpec{Elec: "override", NI: "all"}.FlushReq()); h != "" {
					fail(h)
					return
				}
				mu.Lock()
				stats["flushes"]++
				mu.Unlock()
			}
		}()
	}
	r := NewRng(seed)
	id := uint64(0)
	send := func(ops ...OpSpec) bool {
		m := &spb.ModifyRequest{}
		for _, o := range ops {
			id++
			o.ID = id
			e := el
			o.Elec = &e
			m.Operation = append(m.Operation, o.Proto())
		}
		if _, err := s.SendBarrier(m); err != nil {
			fail("writer: " + err.Error())
			return false
		}
		mu.Lock()
		stats["writes"] += len(ops)
		mu.Unlock()
		return true
	}
	for c := 0; c < cycles && problem == ""; c++ {
		// two chains per instance stay installed (a Flush wipes them: they are re-added), a third one is churned
		base := []OpSpec{}
		for _, ni := range []int{1, 2} {
			for k := uint64(1); k <= 2; k++ {
				base = append(base, OpSpec{NI: ni, Kind: "ADD", T: "nh", Key: k}, OpSpec{NI: ni, Kind: "ADD", T: "nhg", Key: k, NHs: [][2]uint64{{k, 1}}},
					OpSpec{NI: ni, Kind: "ADD", T: "v4", Key: k, NHG: k})
			}
		}
		if c%4 == 0 && !send(base...) {
			break
		}
		ni := Pick(r, 1, 2)
		k := uint64(3)
		ok := send(OpSpec{NI: ni, Kind: "ADD", T: "nh", Key: k}) &&
			send(OpSpec{NI: ni, Kind: "ADD", T: "nhg", Key: k, NHs: [][2]uint64{{k, 1}, {1, 1}}}) &&
			send(OpSpec{NI: ni, Kind: "ADD", T: "v4", Key: k, NHG: k}, OpSpec{NI: ni, Kind: "ADD", T: "mpls", Key: 100, NHG: k}) &&
			send(OpSpec{NI: ni, Kind: "DELETE", T: "v4", Key: k}, OpSpec{NI: ni, Kind: "DELETE", T: "mpls", Key: 100}, OpSpec{NI: ni, Kind: "DELETE", T: "nhg", Key: k}, OpSpec{NI: ni, Kind: "DELETE", T: "nh", Key: k})
		if !ok {
			break
		}
	}
	close(stop)
	done := make(chan struct{})
	go func() { wg.Wait(); close(done) }()
	select {
	case <-done:
	case <-time.After(6 * Watchdog):
		fail("HANG: Get readers / Flush caller did not finish")
	}
	mu.Lock()
	defer mu.Unlock()
	return problem, stats
}
