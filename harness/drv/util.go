package drv

import (
	"encoding/json"
	"fmt"
	"math/rand"
	"os"
	"strings"

	spb "github.com/openconfig/gribi/v1/proto/service"
)

// Rng is the single source of randomness of a run.
type Rng struct{ *rand.Rand }

// NewRng seeds the run's PRNG.
func NewRng(seed int64) *Rng { return &Rng{rand.New(rand.NewSource(seed))} }

// Pick returns a uniformly chosen element.
func Pick[T any](r *Rng, xs ...T) T { return xs[r.Intn(len(xs))] }

// Chance is true with probability num/den.
func (r *Rng) Chance(num, den int) bool { return r.Intn(den) < num }

// U128 is a (high, low) election id.
type U128 struct{ Hi, Lo uint64 }

// Proto converts to the wire type.
func (u U128) Proto() *spb.Uint128 { return &spb.Uint128{High: u.Hi, Low: u.Lo} }

// Less is the 128-bit order.
func (u U128) Less(v U128) bool { return u.Hi < v.Hi || (u.Hi == v.Hi && u.Lo < v.Lo) }

// IsZero reports the invalid id.
func (u U128) IsZero() bool { return u.Hi == 0 && u.Lo == 0 }

// Coq prints the id as a Gallina pair.
func (u U128) Coq() string { return fmt.Sprintf("(%d%%N, %d%%N)", u.Hi, u.Lo) }

// OptU128Coq prints an optional id.
func OptU128Coq(u *spb.Uint128) string {
	if u == nil {
		return "None"
	}
	return fmt.Sprintf("(Some (%d%%N, %d%%N))", u.High, u.Low)
}

// BoundaryWords are the 64-bit words the boundary lattice is built from.
var BoundaryWords = []uint64{0, 1, 2, 5, 1<<63 - 1, 1<<64 - 1}

// CoqList prints a Gallina list.
func CoqList(xs []string) string { return "[" + strings.Join(xs, "; ") + "]" }

// WriteJSON writes v as indented JSON.
func WriteJSON(path string, v any) error {
	b, err := json.MarshalIndent(v, "", " ")
	if err != nil {
		return err
	}
	return os.WriteFile(path, b, 0o644)
}

// ReadJSON reads a JSON file.
func ReadJSON(path string, v any) error {
	b, err := os.ReadFile(path)
	if err != nil {
		return err
	}
	return json.Unmarshal(b, v)
}
