package drv

import (
	"context"
	"fmt"
	"sort"
	"strings"
	"time"

	"github.com/openconfig/gribigo/server"
	"google.golang.org/grpc"
	"google.golang.org/grpc/codes"
	"google.golang.org/grpc/metadata"
	"google.golang.org/grpc/status"

	aftpb "github.com/openconfig/gribi/v1/proto/gribi_aft"
	spb "github.com/openconfig/gribi/v1/proto/service"
)

// FlushSpec is a FlushRequest in script form.
type FlushSpec struct {
	Elec string `json:"elec"` // none override id
	ID   *U128  `json:"id,omitempty"`
	NI   string `json:"ni"` // none all name
	Name int    `json:"name,omitempty"`
}

// GetSpec is a GetRequest in script form.
type GetSpec struct {
	NI   string `json:"ni"` // none all name
	Name int    `json:"name,omitempty"`
	AFT  string `json:"aft"` // ALL IPV4 IPV6 MPLS NHG NH OTHER
}

// SStep is one step of a server-level script.
type SStep struct {
	K     string     `json:"k"` // connect params elect ops multi none close abort sendfail flush get getcut
	Cut   int        `json:"cut,omitempty"` // getcut / sendfailbatch: Send fails once Cut responses were delivered
	Stall int        `json:"stall,omitempty"` // getcut: the failing Send first stalls for that many milliseconds
	S     int        `json:"s,omitempty"`
	Red   int        `json:"red,omitempty"`
	Pers  int        `json:"pers,omitempty"`
	Ack   int        `json:"ack,omitempty"`
	ID    *U128      `json:"id,omitempty"`
	// Unk (elect): the Uint128 carries a field this schema does not know (a client built from a newer revision);
	// the id it announces is (High, Low) all the same
	Unk   bool       `json:"unk,omitempty"`
	// CloseAfter (ops): the client half-closes right behind the request, without waiting for its responses; for the
	// model this is the request followed by the half-close
	CloseAfter bool `json:"close_after,omitempty"`
	Ops   []OpSpec   `json:"ops,omitempty"`
	Flush *FlushSpec `json:"flush,omitempty"`
	Get   *GetSpec   `json:"get,omitempty"`
}

// SCase is a server-level script.
type SCase struct {
	NoFwd bool    `json:"nofwd"`
	VRFs  []int   `json:"vrfs"`
	Steps []SStep `json:"steps"`
	// Late: those of VRFs that are not configured when the server is built but created at run time
	// (Server.AddNetworkInstance) just before step number LateAt is executed; nothing may refer to them earlier,
	// so for the model they simply exist (whatever the server computed from the set of instances before - a Get or
	// Flush of "all" - must not be remembered)
	Late   []int `json:"late,omitempty"`
	LateAt int   `json:"late_at,omitempty"`
}

// SObs is what one step produced.
type SObs struct {
	Resps    []*spb.ModifyResponse
	End      *End
	Hang     string
	FlushSt  string // model constructor name
	GetOK    bool
	GetErr   string
	GetItems []*spb.AFTEntry
}

type fakeGet struct {
	grpc.ServerStream
	ctx   context.Context
	items []*spb.AFTEntry
	// failAfter >= 0: Send fails once that many responses were delivered (client went away);
	// stall: the failing Send first blocks for a while (a client that stalls, then disconnects)
	failAfter int
	sent      int
	stall     time.Duration
	slow      time.Duration // every Send takes that long (a slow reader)
}

func (f *fakeGet) Context() context.Context     { return f.ctx }
func (f *fakeGet) SetHeader(metadata.MD) error  { return nil }
func (f *fakeGet) SendHeader(metadata.MD) error { return nil }
func (f *fakeGet) SetTrailer(metadata.MD)       {}
func (f *fakeGet) Send(r *spb.GetResponse) error {
	if f.failAfter >= 0 && f.sent >= f.failAfter {
		time.Sleep(f.stall)
		return status.Error(codes.Canceled, "client went away")
	}
	if f.slow > 0 {
		time.Sleep(f.slow)
	}
	f.sent++
	f.items = append(f.items, r.GetEntry()...)
	return nil
}

// GetReq builds the request.
func (g GetSpec) GetReq() *spb.GetRequest {
	r := &spb.GetRequest{}
	switch g.NI {
	case "all":
		r.NetworkInstance = &spb.GetRequest_All{All: &spb.Empty{}}
	case "name":
		r.NetworkInstance = &spb.GetRequest_Name{Name: NINames[g.Name]}
	}
	switch g.AFT {
	case "ALL":
		r.Aft = spb.AFTType_ALL
	case "IPV4":
		r.Aft = spb.AFTType_IPV4
	case "IPV6":
		r.Aft = spb.AFTType_IPV6
	case "MPLS":
		r.Aft = spb.AFTType_MPLS
	case "NHG":
		r.Aft = spb.AFTType_NEXTHOP_GROUP
	case "NH":
		r.Aft = spb.AFTType_NEXTHOP
	default:
		r.Aft = spb.AFTType_POLICY_FORWARDING
	}
	return r
}

// FlushReq builds the request.
func (f FlushSpec) FlushReq() *spb.FlushRequest {
	r := &spb.FlushRequest{}
	switch f.Elec {
	case "override":
		r.Election = &spb.FlushRequest_Override{Override: &spb.Empty{}}
	case "id":
		r.Election = &spb.FlushRequest_Id{Id: f.ID.Proto()}
	}
	switch f.NI {
	case "all":
		r.NetworkInstance = &spb.FlushRequest_All{All: &spb.Empty{}}
	case "name":
		r.NetworkInstance = &spb.FlushRequest_Name{Name: NINames[f.Name]}
	}
	return r
}

// DoGet runs a Get with a watchdog; failAfter < 0 reads the whole stream.
func (d *Server) DoGet(req *spb.GetRequest, failAfter int) (items []*spb.AFTEntry, err error, hang string) {
	return d.DoGetStall(req, failAfter, 0)
}

// DoGetStall is DoGet where the failing Send first stalls.
func (d *Server) DoGetStall(req *spb.GetRequest, failAfter int, stall time.Duration) (items []*spb.AFTEntry, err error, hang string) {
	f := &fakeGet{ctx: context.Background(), failAfter: failAfter, stall: stall}
	done := make(chan error, 1)
	go func() { done <- d.S.Get(req, f) }()
	select {
	case err = <-done:
		return f.items, err, ""
	case <-time.After(Watchdog):
		return nil, nil, fmt.Sprintf("HANG: Get did not return within %v", Watchdog)
	}
}

// DoGetSlow reads the whole stream, taking `slow` per response.
func (d *Server) DoGetSlow(req *spb.GetRequest, slow time.Duration) (items []*spb.AFTEntry, err error, hang string) {
	f := &fakeGet{ctx: context.Background(), failAfter: -1, slow: slow}
	done := make(chan error, 1)
	go func() { done <- d.S.Get(req, f) }()
	select {
	case err = <-done:
		return f.items, err, ""
	case <-time.After(4 * Watchdog):
		return nil, nil, fmt.Sprintf("HANG: Get did not return within %v", 4*Watchdog)
	}
}

// DoFlush runs a Flush with a watchdog and maps the outcome to the model's constructor.
func (d *Server) DoFlush(req *spb.FlushRequest) (st string, hang string) {
	type res struct {
		r   *spb.FlushResponse
		err error
	}
	done := make(chan res, 1)
	go func() { r, err := d.S.Flush(context.Background(), req); done <- res{r, err} }()
	select {
	case x := <-done:
		if x.err == nil {
			if x.r.GetResult() == spb.FlushResponse_OK {
				return "F_OK", ""
			}
			return "F_INTERNAL (* non-OK result *)", ""
		}
		s, _ := status.FromError(x.err)
		for _, dd := range s.Details() {
			if fe, ok := dd.(*spb.FlushResponseError); ok {
				return "F_" + fe.GetStatus().String(), ""
			}
		}
		if s.Code() == codes.Internal {
			return "F_INTERNAL", ""
		}
		return "F_INTERNAL (* " + s.Code().String() + " *)", ""
	case <-time.After(Watchdog):
		return "", fmt.Sprintf("HANG: Flush did not return within %v", Watchdog)
	}
}

// SRun is a running script: the server and its sessions.
type SRun struct {
	D    *Server
	Sess map[int]*Sess
	rep  map[*Sess]bool

	late   []int
	lateAt int
	nstep  int
}

// NewSRun starts a server for the case.
func NewSRun(c SCase) (*SRun, error) { return NewSRunOpts(c, false) }

// NewSRunOpts: noCheck builds the server with DisableRIBCheckFn (entries are installed without reference checks).
func NewSRunOpts(c SCase, noCheck bool) (*SRun, error) {
	opts := []server.ServerOpt{}
	if noCheck {
		opts = append(opts, server.DisableRIBCheckFn())
	}
	names := []string{}
	for _, v := range c.VRFs {
		isLate := false
		for _, l := range c.Late {
			isLate = isLate || l == v
		}
		if !isLate {
			names = append(names, NINames[v])
		}
	}
	if len(names) > 0 {
		opts = append(opts, server.WithVRFs(names))
	}
	if c.NoFwd {
		opts = append(opts, server.WithNoRIBForwardReferences())
	}
	d, err := NewServer(opts...)
	if err != nil {
		return nil, err
	}
	return &SRun{D: d, Sess: map[int]*Sess{}, rep: map[*Sess]bool{}, late: c.Late, lateAt: c.LateAt}, nil
}

// Step executes one step.
func (x *SRun) Step(st SStep) SObs {
	var o SObs
	if x.nstep == x.lateAt {
		for _, v := range x.late {
			if err := x.D.S.AddNetworkInstance(NINames[v]); err != nil {
				o.Hang = "AddNetworkInstance(" + NINames[v] + "): " + err.Error()
			}
		}
	}
	x.nstep++
	s := x.Sess[st.S]
	var rs []*spb.ModifyResponse
	var err error
	switch st.K {
	case "connect":
		if x.Sess[st.S] == nil {
			s, err = x.D.Connect()
			x.Sess[st.S] = s
		}
	case "params":
		rs, err = s.SendN(&spb.ModifyRequest{Params: &spb.SessionParameters{
			Redundancy: spb.SessionParameters_ClientRedundancy(st.Red), Persistence: spb.SessionParameters_AFTPersistence(st.Pers),
			AckType: spb.SessionParameters_AFTResultStatusType(st.Ack)}}, 1)
	case "elect":
		m := &spb.ModifyRequest{ElectionId: st.ID.Proto()}
		if st.Unk {
			m.ElectionId.ProtoReflect().SetUnknown([]byte{0x78, 0x01}) // field 15, varint 1
		}
		rs, err = s.SendN(m, 1)
	case "multi":
		// more than one of parameters / election id / operations populated: Red != 0, ID, Ops say which
		// (fewer than two given: parameters + election id 1)
		m := &spb.ModifyRequest{}
		n := 0
		if st.Red != 0 {
			m.Params = &spb.SessionParameters{Redundancy: spb.SessionParameters_ClientRedundancy(st.Red), Persistence: spb.SessionParameters_AFTPersistence(st.Pers)}
			n++
		}
		if st.ID != nil {
			m.ElectionId = st.ID.Proto()
			n++
		}
		for _, op := range st.Ops {
			m.Operation = append(m.Operation, op.Proto())
		}
		if len(st.Ops) > 0 {
			n++
		}
		if n < 2 {
			m = &spb.ModifyRequest{Params: &spb.SessionParameters{Redundancy: 1, Persistence: 1}, ElectionId: &spb.Uint128{Low: 1}}
		}
		rs, err = s.SendN(m, 1)
	case "none":
		rs, err = s.SendN(&spb.ModifyRequest{}, 1)
	case "ops":
		m := &spb.ModifyRequest{}
		for _, op := range st.Ops {
			m.Operation = append(m.Operation, op.Proto())
		}
		if len(m.Operation) == 0 {
			// a request with an empty operation list populates no field
			rs, err = s.SendN(m, 1)
		} else if st.CloseAfter {
			rs, err = s.PushClose(m)
		} else {
			rs, err = s.SendBarrier(m)
		}
	case "close":
		err = s.HalfClose()
	case "abort":
		err = s.Abort()
	case "sendfail":
		err = s.SendFail()
	case "abortsend":
		err = s.AbortWhileAnswering()
	case "sendfailbatch":
		m := &spb.ModifyRequest{}
		for _, op := range st.Ops {
			m.Operation = append(m.Operation, op.Proto())
		}
		rs, err = s.SendFailDuring(m, st.Cut)
	case "getcutw":
		// a Get whose reader stalls and then goes away, while a write of session S is already waiting for the
		// instance (a queued writer makes any second read acquisition of the same lock wait behind it)
		type gres struct {
			items []*spb.AFTEntry
			gerr  error
			hang  string
		}
		gch := make(chan gres, 1)
		go func() {
			items, gerr, hang := x.D.DoGetStall(st.Get.GetReq(), st.Cut, time.Duration(st.Stall)*time.Millisecond)
			gch <- gres{items, gerr, hang}
		}()
		time.Sleep(time.Duration(st.Stall) * time.Millisecond / 3)
		m := &spb.ModifyRequest{}
		for _, op := range st.Ops {
			m.Operation = append(m.Operation, op.Proto())
		}
		if s != nil {
			rs, err = s.SendBarrier(m)
		}
		select {
		case g := <-gch:
			o.Hang, o.GetOK, o.GetItems = g.hang, g.gerr == nil, g.items
		case <-time.After(2 * Watchdog):
			o.Hang = "HANG: the abandoned Get did not return"
		}
		if o.Hang == "" {
			o.Hang = x.waitLocksFree()
		}
	case "getcut":
		items, gerr, hang := x.D.DoGetStall(st.Get.GetReq(), st.Cut, time.Duration(st.Stall)*time.Millisecond)
		o.Hang = hang
		o.GetOK = gerr == nil
		o.GetItems = items
		if hang == "" {
			o.Hang = x.waitLocksFree()
		}
	case "flush":
		o.FlushSt, o.Hang = x.D.DoFlush(st.Flush.FlushReq())
	case "get":
		items, gerr, hang := x.D.DoGet(st.Get.GetReq(), -1)
		o.Hang = hang
		o.GetOK = gerr == nil
		if gerr != nil {
			o.GetErr = status.Code(gerr).String()
		}
		o.GetItems = items
	}
	if err != nil {
		o.Hang = err.Error()
	}
	o.Resps = rs
	if s != nil && s.Ended != nil && st.K != "connect" && !x.rep[s] {
		o.End = s.Ended
		x.rep[s] = true
	}
	return o
}

// waitLocksFree polls until every network instance's lock can be taken (no abandoned reader holds it).
func (x *SRun) waitLocksFree() string {
	deadline := time.Now().Add(Watchdog)
	r := x.D.S.VerifRIB()
	for {
		busy := ""
		for _, n := range r.KnownNetworkInstances() {
			h, _ := r.NetworkInstanceRIB(n)
			if !h.VerifTryLock() {
				busy = n
			}
		}
		if busy == "" {
			return ""
		}
		if time.Now().After(deadline) {
			return fmt.Sprintf("HANG: network instance %s is still locked %v after an abandoned Get", busy, Watchdog)
		}
		time.Sleep(200 * time.Microsecond)
	}
}

// Finish aborts every session that is still open.
func (x *SRun) Finish() {
	for _, s := range x.Sess {
		if s != nil {
			s.Abort()
		}
	}
}

// SessOf maps a server-side session uuid to its script number.
func (x *SRun) SessOf(uuid string) int {
	for k, s := range x.Sess {
		if s != nil && s.UUID == uuid {
			return k
		}
	}
	return 0
}

// ---------------------------------------------------------------------- Coq printers

func (f FlushSpec) coq() string {
	el := "FNone"
	switch f.Elec {
	case "override":
		el = "FOverride"
	case "id":
		el = "(FId " + f.ID.Coq() + ")"
	}
	n := "NNone"
	switch f.NI {
	case "all":
		n = "NAll"
	case "name":
		n = fmt.Sprintf("(NName %d)", f.Name)
	}
	return fmt.Sprintf("(mk_flushreq %s %s)", el, n)
}

func (g GetSpec) coq() string {
	n := "NNone"
	switch g.NI {
	case "all":
		n = "NAll"
	case "name":
		n = fmt.Sprintf("(NName %d)", g.Name)
	}
	return fmt.Sprintf("(mk_getreq %s A_%s)", n, g.AFT)
}

// hintsOf extracts the oks sequence and the fails of one operation's response.
func hintsOf(r *spb.ModifyResponse) (oks, fails []uint64) {
	for _, x := range r.GetResult() {
		switch x.GetStatus() {
		case spb.AFTResult_RIB_PROGRAMMED:
			oks = append(oks, x.GetId())
		case spb.AFTResult_FAILED:
			fails = append(fails, x.GetId())
		}
	}
	return
}

// Coq prints the step as a model sinput; the observation supplies the cascade-order hints.
func (st SStep) Coq(o SObs) string {
	switch st.K {
	case "connect":
		return fmt.Sprintf("SIn (Connect _ %d)", st.S)
	case "params":
		return fmt.Sprintf("SIn (Msg _ %d (MParams _ {| p_red := %d; p_pers := %d; p_ack := %d |}))", st.S, st.Red, st.Pers, st.Ack)
	case "elect":
		return fmt.Sprintf("SIn (Msg _ %d (MElect _ %s))", st.S, st.ID.Coq())
	case "multi":
		return fmt.Sprintf("SIn (Msg _ %d (MMulti _))", st.S)
	case "none":
		return fmt.Sprintf("SIn (Msg _ %d (MNone _))", st.S)
	case "ops":
		if len(st.Ops) == 0 {
			return fmt.Sprintf("SIn (Msg _ %d (MNone _))", st.S)
		}
		ops := []string{}
		for j, op := range st.Ops {
			var oks, fails []uint64
			if j < len(o.Resps) {
				oks, fails = hintsOf(o.Resps[j])
			}
			el := "None"
			if op.Elec != nil {
				el = "(Some " + op.Elec.Coq() + ")"
			}
			kind := op.Kind
			if kind == "OTHER" {
				kind = "OTHERKIND"
			}
			ni := op.NI
			if op.RawNI != "" {
				ni = 4
			}
			ops = append(ops, fmt.Sprintf("mk_hop %d %d %s %s (%s) %s %s", op.ID, ni, kind, el, op.EntryCoq(), CoqNs(fails), CoqNs(oks)))
		}
		if st.CloseAfter {
			return fmt.Sprintf("SIn (Msg _ %d (MOps _ %s)); SIn (HalfClose _ %d)", st.S, CoqList(ops), st.S)
		}
		return fmt.Sprintf("SIn (Msg _ %d (MOps _ %s))", st.S, CoqList(ops))
	case "close":
		return fmt.Sprintf("SIn (HalfClose _ %d)", st.S)
	case "abort", "sendfail", "abortsend":
		return fmt.Sprintf("SIn (Abort _ %d)", st.S)
	case "getcutw":
		w := st
		w.K = "ops"
		return "SGet " + st.Get.coq() + "; " + w.Coq(o)
	case "getcut":
		return "SGet " + st.Get.coq()
	case "flush":
		return "SFlush " + st.Flush.coq()
	case "get":
		return "SGet " + st.Get.coq()
	}
	return "SIn (Connect _ 0)"
}

// EntryOfAFT prints an AFTEntry of a Get response as a model gentry.
func EntryOfAFT(e *spb.AFTEntry) string {
	n := NICode(e.GetNetworkInstance())
	topx := func(md []byte, decap int64) [][2]uint64 { return xsOfTop(md, decap) }
	switch v := e.GetEntry().(type) {
	case *spb.AFTEntry_Ipv4:
		k, ok := rev(V4Keys, v.Ipv4.GetPrefix())
		if !ok {
			k = 999
		}
		p := v.Ipv4.GetIpv4Entry()
		var md []byte
		if p.GetEntryMetadata() != nil {
			md = p.GetEntryMetadata().GetValue()
		}
		return fmt.Sprintf("GTop %d T4 %d (mk_top %d %d %s)", n, k, p.GetNextHopGroup().GetValue(), NICode(p.GetNextHopGroupNetworkInstance().GetValue()), coqX(topx(md, int64(p.GetDecapsulateHeader()))))
	case *spb.AFTEntry_Ipv6:
		k, ok := rev(V6Keys, v.Ipv6.GetPrefix())
		if !ok {
			k = 999
		}
		p := v.Ipv6.GetIpv6Entry()
		var md []byte
		if p.GetEntryMetadata() != nil {
			md = p.GetEntryMetadata().GetValue()
		}
		return fmt.Sprintf("GTop %d T6 %d (mk_top %d %d %s)", n, k, p.GetNextHopGroup().GetValue(), NICode(p.GetNextHopGroupNetworkInstance().GetValue()), coqX(topx(md, int64(p.GetDecapsulateHeader()))))
	case *spb.AFTEntry_Mpls:
		p := v.Mpls.GetLabelEntry()
		var md []byte
		if p.GetEntryMetadata() != nil {
			md = p.GetEntryMetadata().GetValue()
		}
		return fmt.Sprintf("GTop %d TL %d (mk_top %d %d %s)", n, v.Mpls.GetLabelUint64(), p.GetNextHopGroup().GetValue(), NICode(p.GetNextHopGroupNetworkInstance().GetValue()), coqX(topx(md, 0)))
	case *spb.AFTEntry_NextHopGroup:
		p := v.NextHopGroup.GetNextHopGroup()
		nhs := [][2]uint64{}
		for _, nh := range p.GetNextHop() {
			nhs = append(nhs, [2]uint64{nh.GetIndex(), nh.GetNextHop().GetWeight().GetValue()})
		}
		sort.Slice(nhs, func(i, j int) bool { return nhs[i][0] < nhs[j][0] })
		x := [][2]uint64{}
		if p.GetColor() != nil {
			x = append(x, [2]uint64{1, p.GetColor().GetValue()})
		}
		return fmt.Sprintf("GGrp %d %d (mk_grp %s %d %s)", n, v.NextHopGroup.GetId(), coqX(nhs), p.GetBackupNextHopGroup().GetValue(), coqX(x))
	case *spb.AFTEntry_NextHop:
		p := v.NextHop.GetNextHop()
		return fmt.Sprintf("GNh %d %d (mk_nh %s)", n, v.NextHop.GetIndex(), coqX(nhExtras(p)))
	}
	return "GNh 999 999 (mk_nh [])"
}

func nhExtras(p *aftpb.Afts_NextHop) [][2]uint64 {
	x := [][2]uint64{}
	if p.GetIpAddress() != nil {
		k, ok := rev(IPVals, p.GetIpAddress().GetValue())
		if !ok {
			k = 999
		}
		x = append(x, [2]uint64{1, k})
	}
	if p.GetMacAddress() != nil {
		k, ok := rev(MACVals, p.GetMacAddress().GetValue())
		if !ok {
			k = 999
		}
		x = append(x, [2]uint64{2, k})
	}
	if p.GetPopTopLabel() != nil {
		x = append(x, [2]uint64{3, map[bool]uint64{true: 1, false: 2}[p.GetPopTopLabel().GetValue()]})
	}
	if len(p.GetEncapHeader()) > 0 {
		x = append(x, [2]uint64{4, uint64(len(p.GetEncapHeader()))})
	}
	return x
}

// Coq prints the observation as a model sout.
func (o SObs) Coq(st SStep) string {
	switch st.K {
	case "flush":
		return "OFlush " + o.FlushSt
	case "getcutw":
		w := st
		w.K = "ops"
		return "OAny; " + o.Coq(w)
	case "getcut":
		return "OAny"
	case "sendfail", "abortsend":
		// a response could not be written: Modify returns Internal; the model has one "went away" step
		e := o.End
		if e != nil && e.Code == codes.Internal {
			e = &End{Code: codes.Unknown}
		}
		return "OMod (" + OutCoq(ObsOut{End: e}) + ")"
	case "get":
		if !o.GetOK {
			return "OGet None"
		}
		es := []string{}
		for _, e := range o.GetItems {
			es = append(es, EntryOfAFT(e))
		}
		return "OGet (Some " + CoqList(es) + ")"
	}
	if st.K == "ops" && st.CloseAfter && len(st.Ops) > 0 {
		if o.End != nil && o.End.Code != codes.OK {
			// the request itself ended the RPC with an error; the half-close behind it finds no session
			return "OMod (" + OutCoq(ObsOut{Resps: o.Resps, End: o.End}) + "); OMod (" + OutCoq(ObsOut{}) + ")"
		}
		return "OMod (" + OutCoq(ObsOut{Resps: o.Resps}) + "); OMod (" + OutCoq(ObsOut{End: o.End}) + ")"
	}
	return "OMod (" + OutCoq(ObsOut{Resps: o.Resps, End: o.End}) + ")"
}

// Text renders an observation for humans.
func (o SObs) Text(st SStep) string {
	switch st.K {
	case "flush":
		return o.FlushSt + " " + o.Hang
	case "getcut":
		return fmt.Sprintf("cut after %d of the responses, %d received %s", st.Cut, len(o.GetItems), o.Hang)
	case "get":
		if !o.GetOK {
			return "error " + o.GetErr + " " + o.Hang
		}
		return fmt.Sprintf("%d entries %s", len(o.GetItems), o.Hang)
	}
	return OutText(ObsOut{Resps: o.Resps, End: o.End, Hang: o.Hang})
}

// Snapshot is a canonical text of everything C04/C09/C10 require to be unchanged.
func (x *SRun) Snapshot() string {
	// a wedged server (a lock that is never released) must not wedge the harness
	ch := make(chan string, 1)
	go func() { ch <- x.snapshot() }()
	select {
	case s := <-ch:
		return s
	case <-time.After(Watchdog):
		return fmt.Sprintf("HANG: the RIB could not be read within %v (%d)\n", Watchdog, time.Now().UnixNano())
	}
}

func (x *SRun) snapshot() string {
	r := x.D.S.VerifRIB()
	c, _ := r.RIBContents()
	id, m := x.D.S.VerifElection()
	var b strings.Builder
	b.WriteString(CanonText(Canon(c)))
	b.WriteString(fmt.Sprintf("held=%v\n", r.VerifPendingIDs()))
	b.WriteString(fmt.Sprintf("election=%v master=%d\n", id, x.SessOf(m)))
	rc := r.VerifRefCounts()
	names := []string{}
	for n := range rc {
		names = append(names, n)
	}
	sort.Strings(names)
	for _, n := range names {
		b.WriteString(fmt.Sprintf("rc %s %s %s\n", n, coqCounts(rc[n].NextHopGroup), coqCounts(rc[n].NextHop)))
	}
	return b.String()
}

// FinalCoq prints the model's sfinal for the current state.
func (x *SRun) FinalCoq() string {
	ch := make(chan string, 1)
	go func() { ch <- x.finalCoq() }()
	select {
	case s := <-ch:
		return s
	case <-time.After(Watchdog):
		return "mk_sfinal [] [] None None (* HANG: the RIB could not be read *)"
	}
}

func (x *SRun) finalCoq() string {
	r := x.D.S.VerifRIB()
	c, _ := r.RIBContents()
	id, m := x.D.S.VerifElection()
	master := "None"
	if m != "" {
		master = fmt.Sprintf("(Some %d%%N)", x.SessOf(m))
	}
	return fmt.Sprintf("mk_sfinal %s %s %s %s", CanonCoq(Canon(c), r.VerifRefCounts()), CoqNs(r.VerifPendingIDs()), OptU128Coq(id), master)
}
