package drv

import "fmt"

// SnapCase is one run of SnapshotStress.
type SnapCase struct {
	Seed   int64 `json:"seed"`
	Cycles int   `json:"cycles"`
	Flush  bool  `json:"flush"`
}

// SnapCmd is the sub-command "<prop>conc": Get results under concurrent writers are closed snapshots.
func SnapCmd(prop string) Cmd {
	return func(args []string) error {
		f := NewFlags(prop + "conc")
		if err := f.Parse(args); err != nil {
			return err
		}
		var cases []SnapCase
		if *f.Replay != "" {
			if err := ReadJSON(*f.Replay, &cases); err != nil {
				return err
			}
		} else {
			for i := 0; i < *f.N; i++ {
				cases = append(cases, SnapCase{Seed: *f.Seed*1000 + int64(i), Cycles: 60, Flush: i%2 == 1})
			}
		}
		rep := Report{Property: prop, Seed: *f.Seed, Shard: ShardSize, Stats: map[string]int{}, Cases: len(cases),
			Rule: "a primary builds and tears down chains next-hop <- group <- IPv4 entry in two instances (60 cycles per case) while two slow readers stream Get(all, ALL) and, in every second case, a Flush caller runs: every Get result must be free of repeated keys and, in the cases without a Flush caller, instance by instance a closed state (a group's next-hops and an entry's same-instance group present); non-trivial = at least one Get completed while writes were going on"}
		for i, c := range cases {
			p, st := SnapshotStress(c.Seed, c.Cycles, c.Flush)
			if p != "" {
				rep.Violations = append(rep.Violations, Verdict{Case: i, Problem: p})
			}
			for k, v := range st {
				rep.Stats[k] += v
			}
			if st["gets"] > 0 && st["writes"] > 0 {
				rep.Nontrivial++
			}
		}
		if err := WriteJSON(*f.Out+"/cases.json", cases); err != nil {
			return err
		}
		if err := WriteCasesV(*f.Out, "From Coq Require Import List NArith.\nImport ListNotations.", "N", "(fun _ : list N => @nil N)", nil); err != nil {
			return err
		}
		_ = fmt.Sprint
		return WriteJSON(*f.Out+"/impl.json", rep)
	}
}
