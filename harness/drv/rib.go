package drv

import (
	"fmt"
	"sort"
	"strings"

	"github.com/openconfig/gribigo/aft"
	"github.com/openconfig/gribigo/rib"
	"github.com/openconfig/ygot/proto/ywrapper"

	aftpb "github.com/openconfig/gribi/v1/proto/gribi_aft"
	enums "github.com/openconfig/gribi/v1/proto/gribi_aft/enums"
	spb "github.com/openconfig/gribi/v1/proto/service"
)

// Network instance names by model code. Code 0 is the empty string, code 4 never exists.
var NINames = []string{"", "DEFAULT", "VRF-A", "VRF-B", "NOPE"}

// NICode maps a name back to its model code.
func NICode(name string) int {
	for i, n := range NINames {
		if n == name {
			return i
		}
	}
	return 99
}

// Key tables: code -> string. Codes < 10 are syntactically valid, codes >= 10 are not.
var (
	V4Keys = map[uint64]string{1: "1.0.0.0/8", 2: "2.0.0.0/8", 3: "3.3.3.0/24", 4: "4.4.4.4/32",
		11: "1.2.3.4/33", 12: "256.1.1.0/24", 13: "", 14: "garbage", 15: "1.1.1.1", 16: "2001:db8::/32", 17: "::ffff:198.51.100.0/120"}
	// (v4 codes 16, 17 and v6 code 12 are well-formed prefixes of the other address family)
	// 5 and 6 are other spellings of 2 and 1 (upper-case hex, uncompressed zeros): valid, and distinct keys for the RIB
	V6Keys = map[uint64]string{1: "2001:db8::/32", 2: "2001:db8:1::/48", 3: "::/0", 4: "2001:db8::1/128", 5: "2001:DB8:1::/48", 6: "2001:db8:0:0::/32",
		11: "2001:db8::/129", 12: "1.0.0.0/8", 13: "", 14: "garbage"}
	// metadata byte strings by value code (extra field 1 of top-level entries)
	MetaVals = map[uint64][]byte{1: {1}, 2: {2, 3}, 3: {0xff, 0, 7}}
	// next-hop extras: field 1 ip-address, field 2 mac-address
	IPVals  = map[uint64]string{1: "192.0.2.1", 2: "192.0.2.2", 3: "2001:db8::9"}
	MACVals = map[uint64]string{1: "00:11:22:33:44:55", 2: "0a:0b:0c:0d:0e:0f"}
)

func rev[K comparable, V comparable](m map[K]V, v V) (K, bool) {
	for k, x := range m {
		if x == v {
			return k, true
		}
	}
	var z K
	return z, false
}

// OpSpec is the JSON form of one AFT operation; it maps 1:1 onto the Coq model's op.
type OpSpec struct {
	ID   uint64 `json:"id"`
	NI   int    `json:"ni"`
	Kind string `json:"kind"` // ADD REPLACE DELETE OTHER
	T    string `json:"t"`    // v4 v6 mpls nhg nh none
	Key  uint64 `json:"key"`  // v4/v6: key code; mpls: label; nhg: id; nh: index
	Nil  bool   `json:"nil,omitempty"` // inner entry message is nil
	NHG  uint64 `json:"nhg,omitempty"`
	NHGN int    `json:"nhgni,omitempty"`
	NHs  [][2]uint64 `json:"nhs,omitempty"` // (index, weight), proto order
	Bk   uint64 `json:"bk,omitempty"`
	X    [][2]uint64 `json:"x,omitempty"` // extras (field code, value code), sorted by field
	Elec *U128  `json:"elec,omitempty"`
	Bad  bool   `json:"bad,omitempty"` // an enum field carries a number the schema does not define (v4, v6, nh)
	// BadList (nh): a repeated field carries an undefined enum number in one element: 1 = first of two pushed labels,
	// 2 = last of two pushed labels, 3 = first of two encapsulation headers, 4 = last of two encapsulation headers,
	// 5 = middle of three pushed labels.  The model treats it like Bad.
	BadList int `json:"badlist,omitempty"`
	RawNI string `json:"rawni,omitempty"` // network instance name outside the table (e.g. invalid UTF-8); model code 4 (unknown)
}

// KindProto maps the op kind.
func (o OpSpec) KindProto() spb.AFTOperation_Operation {
	switch o.Kind {
	case "ADD":
		return spb.AFTOperation_ADD
	case "REPLACE":
		return spb.AFTOperation_REPLACE
	case "DELETE":
		return spb.AFTOperation_DELETE
	}
	return spb.AFTOperation_INVALID
}

func uv(v uint64) *ywrapper.UintValue { return &ywrapper.UintValue{Value: v} }

// Proto builds the AFTOperation.
func (o OpSpec) Proto() *spb.AFTOperation {
	op := &spb.AFTOperation{Id: o.ID, NetworkInstance: NINames[o.NI], Op: o.KindProto()}
	if o.RawNI != "" {
		op.NetworkInstance = o.RawNI
	}
	if o.Kind == "OTHER" {
		op.Op = spb.AFTOperation_Operation(7)
	}
	if o.Elec != nil {
		op.ElectionId = o.Elec.Proto()
	}
	xs := map[uint64]uint64{}
	for _, x := range o.X {
		xs[x[0]] = x[1]
	}
	switch o.T {
	case "v4":
		k := &aftpb.Afts_Ipv4EntryKey{Prefix: V4Keys[o.Key]}
		if !o.Nil {
			e := &aftpb.Afts_Ipv4Entry{}
			if o.NHG != 0 {
				e.NextHopGroup = uv(o.NHG)
			}
			if o.NHGN != 0 {
				e.NextHopGroupNetworkInstance = &ywrapper.StringValue{Value: NINames[o.NHGN]}
			}
			if v, ok := xs[1]; ok {
				e.EntryMetadata = &ywrapper.BytesValue{Value: MetaVals[v]}
			}
			if v, ok := xs[2]; ok {
				e.DecapsulateHeader = enums.OpenconfigAftTypesEncapsulationHeaderType(v)
			}
			if o.Bad {
				e.DecapsulateHeader = enums.OpenconfigAftTypesEncapsulationHeaderType(99)
			}
			k.Ipv4Entry = e
		}
		op.Entry = &spb.AFTOperation_Ipv4{Ipv4: k}
	case "v6":
		k := &aftpb.Afts_Ipv6EntryKey{Prefix: V6Keys[o.Key]}
		if !o.Nil {
			e := &aftpb.Afts_Ipv6Entry{}
			if o.NHG != 0 {
				e.NextHopGroup = uv(o.NHG)
			}
			if o.NHGN != 0 {
				e.NextHopGroupNetworkInstance = &ywrapper.StringValue{Value: NINames[o.NHGN]}
			}
			if v, ok := xs[1]; ok {
				e.EntryMetadata = &ywrapper.BytesValue{Value: MetaVals[v]}
			}
			if v, ok := xs[2]; ok {
				e.DecapsulateHeader = enums.OpenconfigAftTypesEncapsulationHeaderType(v)
			}
			if o.Bad {
				e.DecapsulateHeader = enums.OpenconfigAftTypesEncapsulationHeaderType(99)
			}
			k.Ipv6Entry = e
		}
		op.Entry = &spb.AFTOperation_Ipv6{Ipv6: k}
	case "mpls":
		k := &aftpb.Afts_LabelEntryKey{Label: &aftpb.Afts_LabelEntryKey_LabelUint64{LabelUint64: o.Key}}
		if !o.Nil {
			e := &aftpb.Afts_LabelEntry{}
			if o.NHG != 0 {
				e.NextHopGroup = uv(o.NHG)
			}
			if o.NHGN != 0 {
				e.NextHopGroupNetworkInstance = &ywrapper.StringValue{Value: NINames[o.NHGN]}
			}
			if v, ok := xs[1]; ok {
				e.EntryMetadata = &ywrapper.BytesValue{Value: MetaVals[v]}
			}
			k.LabelEntry = e
		}
		op.Entry = &spb.AFTOperation_Mpls{Mpls: k}
	case "nhg":
		k := &aftpb.Afts_NextHopGroupKey{Id: o.Key}
		if !o.Nil {
			e := &aftpb.Afts_NextHopGroup{}
			for _, nh := range o.NHs {
				e.NextHop = append(e.NextHop, &aftpb.Afts_NextHopGroup_NextHopKey{Index: nh[0], NextHop: &aftpb.Afts_NextHopGroup_NextHop{Weight: uv(nh[1])}})
			}
			if o.Bk != 0 {
				e.BackupNextHopGroup = uv(o.Bk)
			}
			if v, ok := xs[1]; ok {
				e.Color = uv(v)
			}
			k.NextHopGroup = e
		}
		op.Entry = &spb.AFTOperation_NextHopGroup{NextHopGroup: k}
	case "nh":
		k := &aftpb.Afts_NextHopKey{Index: o.Key}
		if !o.Nil {
			e := &aftpb.Afts_NextHop{}
			if v, ok := xs[1]; ok {
				e.IpAddress = &ywrapper.StringValue{Value: IPVals[v]}
			}
			if v, ok := xs[2]; ok {
				e.MacAddress = &ywrapper.StringValue{Value: MACVals[v]}
			}
			if v, ok := xs[3]; ok { // pop-top-label: 1 = true, 2 = explicitly false
				e.PopTopLabel = &ywrapper.BoolValue{Value: v == 1}
			}
			if v, ok := xs[4]; ok { // a list of v encapsulation headers (a keyed list: its order on the wire is not fixed)
				for i := uint64(1); i <= v; i++ {
					e.EncapHeader = append(e.EncapHeader, &aftpb.Afts_NextHop_EncapHeaderKey{Index: i,
						EncapHeader: &aftpb.Afts_NextHop_EncapHeader{Type: enums.OpenconfigAftTypesEncapsulationHeaderType(4)}})
				}
			}
			if o.Bad {
				e.EncapsulateHeader = enums.OpenconfigAftTypesEncapsulationHeaderType(99)
			}
			lbl := func(v uint64) *aftpb.Afts_NextHop_PushedMplsLabelStackUnion {
				return &aftpb.Afts_NextHop_PushedMplsLabelStackUnion{PushedMplsLabelStackUint64: v}
			}
			badLbl := &aftpb.Afts_NextHop_PushedMplsLabelStackUnion{PushedMplsLabelStackOpenconfigmplstypesmplslabelenum: enums.OpenconfigMplsTypesMplsLabelEnum(99)}
			hdr := func(i uint64, t int32) *aftpb.Afts_NextHop_EncapHeaderKey {
				return &aftpb.Afts_NextHop_EncapHeaderKey{Index: i, EncapHeader: &aftpb.Afts_NextHop_EncapHeader{Type: enums.OpenconfigAftTypesEncapsulationHeaderType(t)}}
			}
			switch o.BadList {
			case 1:
				e.PushedMplsLabelStack = []*aftpb.Afts_NextHop_PushedMplsLabelStackUnion{badLbl, lbl(42)}
			case 2:
				e.PushedMplsLabelStack = []*aftpb.Afts_NextHop_PushedMplsLabelStackUnion{lbl(42), badLbl}
			case 3:
				e.EncapHeader = []*aftpb.Afts_NextHop_EncapHeaderKey{hdr(1, 99), hdr(2, 4)}
			case 4:
				e.EncapHeader = []*aftpb.Afts_NextHop_EncapHeaderKey{hdr(1, 4), hdr(2, 99)}
			case 5:
				e.PushedMplsLabelStack = []*aftpb.Afts_NextHop_PushedMplsLabelStackUnion{lbl(41), badLbl, lbl(42)}
			case 6: // a string leaf that has no schema pattern (the interface name) carries bytes that are not UTF-8
				e.InterfaceRef = &aftpb.Afts_NextHop_InterfaceRef{Interface: &ywrapper.StringValue{Value: "eth\xff0"}}
			}
			k.NextHop = e
		}
		op.Entry = &spb.AFTOperation_NextHop{NextHop: k}
	}
	return op
}

func coqX(x [][2]uint64) string {
	s := []string{}
	for _, p := range x {
		s = append(s, fmt.Sprintf("(%d%%N, %d%%N)", p[0], p[1]))
	}
	return CoqList(s)
}

// EntryCoq prints the model's entry.
func (o OpSpec) EntryCoq() string {
	switch o.T {
	case "v4", "v6", "mpls":
		tk := map[string]string{"v4": "T4", "v6": "T6", "mpls": "TL"}[o.T]
		valid := "true"
		if o.T != "mpls" && o.Key >= 10 {
			valid = "false"
		}
		pl := "None"
		if !o.Nil {
			pl = fmt.Sprintf("(Some (mk_top %d %d %s))", o.NHG, o.NHGN, coqX(o.X))
			if o.Bad && o.T != "mpls" {
				pl = fmt.Sprintf("(Some {| t_nhg := %d; t_ni := %d; t_x := %s; t_bad := true |})", o.NHG, o.NHGN, coqX(o.X))
			}
		}
		return fmt.Sprintf("ETop %s %d %s %s", tk, o.Key, valid, pl)
	case "nhg":
		pl := "None"
		if !o.Nil {
			pl = fmt.Sprintf("(Some (mk_grp %s %d %s))", coqX(o.NHs), o.Bk, coqX(o.X))
		}
		return fmt.Sprintf("EGrp %d %s", o.Key, pl)
	case "nh":
		pl := "None"
		if !o.Nil {
			pl = fmt.Sprintf("(Some (mk_nh %s))", coqX(o.X))
			if o.Bad || o.BadList != 0 {
				pl = fmt.Sprintf("(Some {| h_x := %s; h_bad := true |})", coqX(o.X))
			}
		}
		return fmt.Sprintf("ENh %d %s", o.Key, pl)
	}
	return "ENone"
}

// Coq prints the model's op.
func (o OpSpec) Coq() string {
	el := "None"
	if o.Elec != nil {
		el = "(Some " + o.Elec.Coq() + ")"
	}
	kind := o.Kind
	if kind == "OTHER" {
		kind = "OTHERKIND"
	}
	return fmt.Sprintf("(mk_op %d %d %s %s (%s))", o.ID, o.NI, kind, el, o.EntryCoq())
}

// ---------------------------------------------------------------- canonical RIB contents

func xsOfTop(md []byte, decap int64) [][2]uint64 {
	x := [][2]uint64{}
	if md != nil {
		c, ok := func() (uint64, bool) {
			for k, v := range MetaVals {
				if string(v) == string(md) {
					return k, true
				}
			}
			return 0, false
		}()
		if !ok {
			c = 999
		}
		x = append(x, [2]uint64{1, c})
	}
	if decap != 0 {
		x = append(x, [2]uint64{2, uint64(decap)})
	}
	return x
}

// CanonNI is the canonical content of one network instance, as lines and as a Coq term.
type CanonNI struct {
	NI    int
	Lines []string // "table|key|payload" sorted
	T4, T6, TL, TG, TH []string // Coq (key, payload) pairs sorted by key
}

// Canon canonicalises RIBContents.
func Canon(contents map[string]*aft.RIB) []CanonNI {
	out := []CanonNI{}
	names := []string{}
	for n := range contents {
		names = append(names, n)
	}
	sort.Slice(names, func(i, j int) bool { return NICode(names[i]) < NICode(names[j]) })
	for _, n := range names {
		a := contents[n].GetAfts()
		c := CanonNI{NI: NICode(n)}
		type kv struct {
			k uint64
			s string
		}
		top := func(nhg uint64, nhgni string, x [][2]uint64) string {
			return fmt.Sprintf("mk_top %d %d %s", nhg, NICode(nhgni), coqX(x))
		}
		collect := func(m []kv) []string {
			sort.Slice(m, func(i, j int) bool { return m[i].k < m[j].k })
			r := []string{}
			for _, e := range m {
				r = append(r, fmt.Sprintf("(%d%%N, %s)", e.k, e.s))
			}
			return r
		}
		var l []kv
		if a != nil {
			for p, e := range a.Ipv4Entry {
				k, ok := rev(V4Keys, p)
				if !ok {
					k = 999
				}
				l = append(l, kv{k, top(e.GetNextHopGroup(), e.GetNextHopGroupNetworkInstance(), xsOfTop(e.EntryMetadata, int64(e.DecapsulateHeader)))})
			}
			c.T4 = collect(l)
			l = nil
			for p, e := range a.Ipv6Entry {
				k, ok := rev(V6Keys, p)
				if !ok {
					k = 999
				}
				l = append(l, kv{k, top(e.GetNextHopGroup(), e.GetNextHopGroupNetworkInstance(), xsOfTop(e.EntryMetadata, int64(e.DecapsulateHeader)))})
			}
			c.T6 = collect(l)
			l = nil
			for lbl, e := range a.LabelEntry {
				k := uint64(999999999)
				if u, ok := lbl.(aft.UnionUint32); ok {
					k = uint64(u)
				}
				l = append(l, kv{k, top(e.GetNextHopGroup(), e.GetNextHopGroupNetworkInstance(), xsOfTop(e.EntryMetadata, 0))})
			}
			c.TL = collect(l)
			l = nil
			for id, g := range a.NextHopGroup {
				nhs := [][2]uint64{}
				for idx, nh := range g.NextHop {
					nhs = append(nhs, [2]uint64{idx, nh.GetWeight()})
				}
				sort.Slice(nhs, func(i, j int) bool { return nhs[i][0] < nhs[j][0] })
				x := [][2]uint64{}
				if g.Color != nil {
					x = append(x, [2]uint64{1, *g.Color})
				}
				l = append(l, kv{id, fmt.Sprintf("mk_grp %s %d %s", coqX(nhs), g.GetBackupNextHopGroup(), coqX(x))})
			}
			c.TG = collect(l)
			l = nil
			for idx, nh := range a.NextHop {
				x := [][2]uint64{}
				if nh.IpAddress != nil {
					k, ok := rev(IPVals, *nh.IpAddress)
					if !ok {
						k = 999
					}
					x = append(x, [2]uint64{1, k})
				}
				if nh.MacAddress != nil {
					k, ok := rev(MACVals, *nh.MacAddress)
					if !ok {
						k = 999
					}
					x = append(x, [2]uint64{2, k})
				}
				if nh.PopTopLabel != nil {
					x = append(x, [2]uint64{3, map[bool]uint64{true: 1, false: 2}[*nh.PopTopLabel]})
				}
				if len(nh.EncapHeader) > 0 {
					x = append(x, [2]uint64{4, uint64(len(nh.EncapHeader))})
				}
				l = append(l, kv{idx, fmt.Sprintf("mk_nh %s", coqX(x))})
			}
			c.TH = collect(l)
		}
		for _, t := range []struct {
			n string
			l []string
		}{{"v4", c.T4}, {"v6", c.T6}, {"mpls", c.TL}, {"nhg", c.TG}, {"nh", c.TH}} {
			for _, e := range t.l {
				c.Lines = append(c.Lines, t.n+"|"+e)
			}
		}
		out = append(out, c)
	}
	return out
}

// CanonCoq prints canonical contents as the model's observable: list (ni * tables).
func CanonCoq(cs []CanonNI, rc map[string]rib.VerifRefCounts) string {
	parts := []string{}
	for _, c := range cs {
		cnt := rc[NINames[c.NI]]
		parts = append(parts, fmt.Sprintf("(%d%%N, mk_obs_ni %s %s %s %s %s %s %s)", c.NI, CoqList(c.T4), CoqList(c.T6), CoqList(c.TL), CoqList(c.TG), CoqList(c.TH),
			coqCounts(cnt.NextHopGroup), coqCounts(cnt.NextHop)))
	}
	return CoqList(parts)
}

func coqCounts(m map[uint64]uint64) string {
	ks := []uint64{}
	for k, v := range m {
		if v != 0 {
			ks = append(ks, k)
		}
	}
	sort.Slice(ks, func(i, j int) bool { return ks[i] < ks[j] })
	s := []string{}
	for _, k := range ks {
		s = append(s, fmt.Sprintf("(%d%%N, %d%%N)", k, m[k]))
	}
	return CoqList(s)
}

// CanonText renders canonical contents for humans / replay files.
func CanonText(cs []CanonNI) string {
	var b strings.Builder
	for _, c := range cs {
		for _, l := range c.Lines {
			b.WriteString(fmt.Sprintf("%s|%s\n", NINames[c.NI], l))
		}
	}
	return b.String()
}

// IDs extracts result ids.
func IDs(rs []*rib.OpResult) []uint64 {
	out := []uint64{}
	for _, r := range rs {
		out = append(out, r.ID)
	}
	return out
}

// CoqNs prints a list of N.
func CoqNs(xs []uint64) string {
	s := []string{}
	for _, x := range xs {
		s = append(s, fmt.Sprintf("%d%%N", x))
	}
	return CoqList(s)
}
