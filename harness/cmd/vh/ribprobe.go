package main

import (
	"fmt"

	"verifharness/drv"

	"github.com/openconfig/gribigo/rib"
)

func init() { cmds["ribprobe"] = runRibProbe }

// runRibProbe runs a JSON list of OpSpec against a fresh RIB and prints what happens (exploration aid).
func runRibProbe(args []string) error {
	f := drv.NewFlags("ribprobe")
	if err := f.Parse(args); err != nil {
		return err
	}
	var ops []drv.OpSpec
	if err := drv.ReadJSON(*f.Replay, &ops); err != nil {
		return err
	}
	r := rib.New("DEFAULT")
	r.AddNetworkInstance("VRF-A")
	r.AddNetworkInstance("VRF-B")
	for _, o := range ops {
		func() {
			defer func() {
				if e := recover(); e != nil {
					fmt.Printf("op %d PANIC %v\n", o.ID, e)
				}
			}()
			var oks, fails []*rib.OpResult
			var err error
			if o.Kind == "DELETE" {
				oks, fails, err = r.DeleteEntry(drv.NINames[o.NI], o.Proto())
			} else {
				oks, fails, err = r.AddEntry(drv.NINames[o.NI], o.Proto())
			}
			msg := ""
			for _, x := range fails {
				msg += x.Error + "; "
			}
			fmt.Printf("op %d %s %s key=%d: oks=%v fails=%v err=%v pend=%v  %s\n", o.ID, o.Kind, o.T, o.Key, drv.IDs(oks), drv.IDs(fails), err, r.VerifPendingIDs(), msg)
		}()
	}
	c, _ := r.RIBContents()
	fmt.Print(drv.CanonText(drv.Canon(c)))
	fmt.Println(r.VerifRefCounts())
	return nil
}
