package main

import (
	"regexp"
	"fmt"
	"sort"
	"strings"

	"verifharness/drv"

	spb "github.com/openconfig/gribi/v1/proto/service"
)

func init() {
	for _, p := range []string{"c04", "c06", "c09", "c08"} {
		p := p
		cmds[p] = func(a []string) error { return runSrv(strings.ToUpper(p), a) }
	}
	// C01 at the server: the scripts of C06, judged by "installed = fold of the acknowledgements seen on the streams"
	cmds["c01srv"] = func(a []string) error { return runSrv("C01S", a) }
}

// ---------------------------------------------------------------------------- generator

type srvGen struct {
	r      *drv.Rng
	prof   string
	nextID uint64
	live   map[int]bool
	neg    map[int]bool       // negotiated SINGLE_PRIMARY + PRESERVE
	fib    map[int]bool
	last   map[int]*drv.U128 // last accepted announcement (generator's belief)
	max    *drv.U128
	next   int
	c      *drv.SCase
	rg     *ribGen
	idsOf  map[int][]uint64 // operation ids each session has used
	closeAfter bool          // the next operations message is followed by a half-close at once
}

func (g *srvGen) add(st drv.SStep) { g.c.Steps = append(g.c.Steps, st) }

func (g *srvGen) connect(valid bool) int {
	s := g.next
	g.next++
	g.add(drv.SStep{K: "connect", S: s})
	g.live[s] = true
	if valid {
		ack := 0
		// every live session must negotiate the same parameters: reuse the first one's ack type
		for o := range g.fib {
			if g.fib[o] {
				ack = 1
			}
		}
		if len(g.neg) == 0 && g.r.Chance(1, 3) {
			ack = 1
		}
		g.add(drv.SStep{K: "params", S: s, Red: 1, Pers: 1, Ack: ack})
		g.neg[s] = true
		g.fib[s] = ack == 1
	}
	return s
}

func (g *srvGen) drop(s int) {
	delete(g.live, s)
	delete(g.neg, s)
	delete(g.fib, s)
	delete(g.last, s)
}

func (g *srvGen) liveList() []int {
	ls := []int{}
	for s := range g.live {
		ls = append(ls, s)
	}
	sort.Ints(ls)
	return ls
}

func (g *srvGen) announce(s int, id drv.U128) {
	g.add(drv.SStep{K: "elect", S: s, ID: &id, Unk: g.r.Chance(1, 8)})
	if !g.neg[s] || id.IsZero() {
		g.drop(s)
		return
	}
	idc := id
	g.last[s] = &idc
	if g.max == nil || g.max.Less(id) {
		m := id
		g.max = &m
	}
}

// stamp chooses the election id written on an operation of session s.
func (g *srvGen) stamp(s int) *drv.U128 {
	own := g.last[s]
	switch x := g.r.Intn(20); {
	case x < 14 && own != nil:
		c := *own
		return &c
	case x < 15:
		return nil
	case x < 17 && g.max != nil:
		c := *g.max
		return &c
	case x < 18 && g.max != nil:
		return &drv.U128{Hi: g.max.Hi, Lo: g.max.Lo + 1} // future
	case x < 19 && own != nil && own.Lo > 0:
		switch g.r.Intn(3) {
		case 0:
			return &drv.U128{Hi: own.Hi + 1, Lo: own.Lo} // same low word, higher high word
		case 1:
			if own.Hi > 0 {
				return &drv.U128{Hi: own.Hi - 1, Lo: own.Lo} // same low word, lower high word
			}
		}
		return &drv.U128{Hi: own.Hi, Lo: own.Lo - 1} // stale
	}
	if own != nil {
		c := *own
		return &c
	}
	return nil
}

func (g *srvGen) opsMsg(s int, n int) {
	st := drv.SStep{K: "ops", S: s}
	el := g.stamp(s)
	for i := 0; i < n; i++ {
		x := g.rg.step()
		for x.Op == nil {
			x = g.rg.step()
		}
		op := *x.Op
		op.ID = g.id()
		if g.prof == "C04" && len(g.idsOf) > 0 && g.r.Chance(1, 5) && (g.last[s] == nil || (g.max != nil && g.last[s].Less(*g.max))) {
			// clients number their operations independently: a session that is not the primary uses an id that
			// another session has used (perhaps for an operation that is still held); its operation is rejected
			// and must leave that operation alone
			for _, other := range g.liveListAll() {
				if other != s && len(g.idsOf[other]) > 0 {
					op.ID = g.idsOf[other][g.r.Intn(len(g.idsOf[other]))]
					break
				}
			}
		}
		if g.idsOf == nil {
			g.idsOf = map[int][]uint64{}
		}
		g.idsOf[s] = append(g.idsOf[s], op.ID)
		if g.r.Chance(1, 60) {
			op.Kind = "OTHER"
		}
		op.Elec = el
		if g.r.Chance(1, 12) {
			op.Elec = g.stamp(s)
		}
		st.Ops = append(st.Ops, op)
	}
	if n >= 2 && g.r.Chance(1, 8) {
		// an empty / unknown instance name on an operation that is not the last of its request
		st.Ops[g.r.Intn(n-1)].NI = drv.Pick(g.r, 0, 0, 4)
	}
	if g.closeAfter {
		st.CloseAfter = true
	}
	g.add(st)
	// a fatal error ends the RPC: the generator cannot know, but the runner tolerates steps on dead sessions
}

func (g *srvGen) id() uint64 { g.nextID++; return g.nextID }

// liveListAll: every session that has used an operation id, in session order.
func (g *srvGen) liveListAll() []int {
	ls := []int{}
	for s := range g.idsOf {
		ls = append(ls, s)
	}
	sort.Ints(ls)
	return ls
}

func genSCase(r *drv.Rng, prof string) drv.SCase {
	c := drv.SCase{NoFwd: r.Chance(1, 8), VRFs: []int{2, 3}}
	g := &srvGen{r: r, prof: prof, live: map[int]bool{}, neg: map[int]bool{}, fib: map[int]bool{}, last: map[int]*drv.U128{}, next: 1, c: &c}
	g.rg = &ribGen{r: r, prof: "srv"}
	switch prof {
	case "C09":
		return genC09(g)
	case "C08":
		return genC08(g)
	}
	if prof == "C06" && !c.NoFwd && r.Chance(1, 5) {
		return genHeldFail(g)
	}
	if prof == "C06" && !c.NoFwd && r.Chance(1, 12) {
		return genMassResolve(g)
	}
	if prof == "C06" && !c.NoFwd && r.Chance(1, 12) {
		return genHandoverReuse(g)
	}
	s1 := g.connect(true)
	g.announce(s1, drv.U128{Hi: uint64(r.Intn(3)), Lo: uint64(1 + r.Intn(3))})
	steps := 6 + r.Intn(16)
	for i := 0; i < steps; i++ {
		ls := g.liveList()
		if len(ls) == 0 {
			s := g.connect(true)
			g.announce(s, genID(r))
			continue
		}
		s := ls[r.Intn(len(ls))]
		switch x := r.Intn(100); {
		case x < 50:
			n := 1
			if prof == "C06" {
				n = 1 + r.Intn(6)
				if r.Chance(1, 10) {
					n = 10 + r.Intn(11)
				}
			} else if r.Chance(1, 4) {
				n = 2 + r.Intn(3)
			}
			g.opsMsg(s, n)
		case x < 68:
			id := genID(r)
			if g.last[s] != nil && r.Chance(1, 6) {
				id = *g.last[s] // the session repeats its own last id (after a tie this takes the role back)
			} else if g.max != nil && r.Chance(1, 2) {
				switch r.Intn(4) {
				case 0:
					id = *g.max
				case 1:
					id = drv.U128{Hi: g.max.Hi, Lo: g.max.Lo + 1}
				case 2:
					id = drv.U128{Hi: g.max.Hi + 1, Lo: 0}
				case 3:
					id = drv.U128{Hi: g.max.Hi, Lo: g.max.Lo - 1}
				}
			}
			g.announce(s, id)
		case x < 78:
			if len(ls) < 3 {
				ns := g.connect(true)
				if r.Chance(4, 5) {
					id := genID(r)
					if g.max != nil && r.Chance(2, 3) {
						id = drv.U128{Hi: g.max.Hi, Lo: g.max.Lo + uint64(r.Intn(2))}
					}
					g.announce(ns, id)
				}
			}
		case x < 84:
			if prof == "C06" && r.Chance(1, 3) {
				// the session sends a last, long request and half-closes behind it without waiting for the answers
				g.closeAfter = true
				g.opsMsg(s, 8+r.Intn(13))
				g.closeAfter = false
				g.drop(s)
				break
			}
			g.add(drv.SStep{K: drv.Pick(r, "close", "abort"), S: s})
			g.drop(s)
		case x < 90:
			g.add(drv.SStep{K: "get", Get: &drv.GetSpec{NI: drv.Pick(r, "all", "all", "name"), Name: 1 + r.Intn(3), AFT: drv.Pick(r, "ALL", "ALL", "IPV4", "NHG", "NH", "MPLS", "IPV6")}})
		case x < 94:
			f := &drv.FlushSpec{Elec: "override", NI: drv.Pick(r, "all", "all", "name"), Name: 1 + r.Intn(3)}
			if g.max != nil && r.Chance(1, 2) {
				f.Elec = "id"
				id := *g.max
				f.ID = &id
			}
			g.add(drv.SStep{K: "flush", Flush: f})
		default:
			g.opsMsg(s, 1)
		}
	}
	g.add(drv.SStep{K: "get", Get: &drv.GetSpec{NI: "all", AFT: "ALL"}})
	return c
}

// genHeldFail: held operations that fail when they are retried.  An explicit REPLACE of an installed entry towards a
// group that does not exist yet is held; the entry is then deleted; the group arrives (alone or inside a batch, along
// with other held operations that do resolve): the retried REPLACE fails and must be answered FAILED under its own id.
func genHeldFail(g *srvGen) drv.SCase {
	r := g.r
	s := g.connect(true)
	id := drv.U128{Hi: uint64(r.Intn(2)), Lo: uint64(1 + r.Intn(3))}
	g.announce(s, id)
	mk := func(ops ...drv.OpSpec) {
		st := drv.SStep{K: "ops", S: s}
		for _, op := range ops {
			op.ID = g.id()
			e := id
			op.Elec = &e
			st.Ops = append(st.Ops, op)
		}
		g.add(st)
	}
	ni := drv.Pick(r, 1, 1, 2)
	gni := drv.Pick(r, 0, 0, 1, 3) // where the groups live (0: the entry's own instance)
	gi := ni
	if gni != 0 {
		gi = gni
	}
	mk(drv.OpSpec{NI: gi, Kind: "ADD", T: "nh", Key: 1})
	mk(drv.OpSpec{NI: gi, Kind: "ADD", T: "nhg", Key: 1, NHs: [][2]uint64{{1, 1}}})
	n := 1 + r.Intn(2)
	var tops []drv.OpSpec
	for i := 0; i < n; i++ {
		t := drv.OpSpec{NI: ni, T: []string{"v4", "v6", "mpls"}[(i+r.Intn(3))%3], NHGN: gni}
		t.Key = map[string]uint64{"v4": uint64(1 + i), "v6": 1, "mpls": 100}[t.T]
		tops = append(tops, t)
		a := t
		a.Kind, a.NHG = "ADD", 1
		mk(a)
	}
	// held: explicit replaces towards group 2, plus an ADD of another entry towards group 2 (this one will resolve)
	for _, t := range tops {
		h := t
		h.Kind, h.NHG = "REPLACE", 2
		mk(h)
	}
	if r.Chance(1, 2) {
		mk(drv.OpSpec{NI: ni, Kind: "ADD", T: "v4", Key: 3, NHG: 2, NHGN: gni})
	}
	if r.Chance(1, 3) {
		mk(drv.OpSpec{NI: gi, Kind: "ADD", T: "nh", Key: 2})
	}
	for i, t := range tops {
		if i == 0 || r.Chance(1, 2) {
			d := t
			d.Kind = "DELETE"
			mk(d)
		}
	}
	grp := drv.OpSpec{NI: gi, Kind: "ADD", T: "nhg", Key: 2, NHs: [][2]uint64{{1, 1}}}
	if r.Chance(1, 2) {
		mk(grp)
	} else {
		mk(drv.OpSpec{NI: gi, Kind: "ADD", T: "nh", Key: 3}, grp, drv.OpSpec{NI: gi, Kind: "DELETE", T: "nh", Key: 3})
	}
	if r.Chance(1, 2) {
		id2 := drv.U128{Hi: id.Hi, Lo: id.Lo + 1}
		g.announce(s, id2)
		id = id2
	}
	mk(drv.OpSpec{NI: gi, Kind: "DELETE", T: "nhg", Key: 1})
	g.add(drv.SStep{K: "get", Get: &drv.GetSpec{NI: "all", AFT: "ALL"}})
	return *g.c
}

// genMassResolve: many entries, in several instances, are held for one missing group; one operation then resolves
// them all, so that a single response carries many results (per id: RIB before FIB, each exactly once).
func genMassResolve(g *srvGen) drv.SCase {
	r := g.r
	s := g.connect(true)
	if r.Chance(2, 3) { // mostly with FIB acknowledgements: two results per resolved operation
		g.c.Steps[len(g.c.Steps)-1].Ack = 1
		g.fib[s] = true
	}
	id := drv.U128{Hi: uint64(r.Intn(2)), Lo: uint64(1 + r.Intn(3))}
	g.announce(s, id)
	mk := func(ops ...drv.OpSpec) {
		st := drv.SStep{K: "ops", S: s}
		for _, op := range ops {
			op.ID = g.id()
			e := id
			op.Elec = &e
			st.Ops = append(st.Ops, op)
		}
		g.add(st)
	}
	gi := drv.Pick(r, 1, 2, 3)
	var held []drv.OpSpec
	for _, ni := range []int{1, 2, 3} {
		for k := uint64(1); k <= 3; k++ {
			held = append(held, drv.OpSpec{NI: ni, Kind: "ADD", T: "v4", Key: k, NHG: 1, NHGN: gi})
		}
		for k := uint64(1); k <= 2; k++ {
			held = append(held, drv.OpSpec{NI: ni, Kind: "ADD", T: "v6", Key: k, NHG: 1, NHGN: gi})
		}
		for _, k := range []uint64{16, 100, 200} {
			held = append(held, drv.OpSpec{NI: ni, Kind: "ADD", T: "mpls", Key: k, NHG: 1, NHGN: gi})
		}
	}
	r.Shuffle(len(held), func(i, j int) { held[i], held[j] = held[j], held[i] })
	held = held[:8+r.Intn(len(held)-7)]
	for len(held) > 0 { // sent in requests of 1..6 operations
		n := 1 + r.Intn(6)
		if n > len(held) {
			n = len(held)
		}
		mk(held[:n]...)
		held = held[n:]
	}
	mk(drv.OpSpec{NI: gi, Kind: "ADD", T: "nh", Key: 1})
	mk(drv.OpSpec{NI: gi, Kind: "ADD", T: "nhg", Key: 1, NHs: [][2]uint64{{1, 1}}}) // resolves them all
	g.add(drv.SStep{K: "get", Get: &drv.GetSpec{NI: "all", AFT: "ALL"}})
	return *g.c
}

// genHandoverReuse: every client numbers its operations from 1.  The old primary leaves operations held; the new
// primary sends its own forward references under the same ids; they must be held and acknowledged like any other.
func genHandoverReuse(g *srvGen) drv.SCase {
	r := g.r
	a := g.connect(true)
	ida := drv.U128{Hi: uint64(r.Intn(2)), Lo: uint64(1 + r.Intn(3))}
	g.announce(a, ida)
	send := func(s int, el drv.U128, ops ...drv.OpSpec) {
		st := drv.SStep{K: "ops", S: s}
		for _, op := range ops {
			e := el
			op.Elec = &e
			st.Ops = append(st.Ops, op)
		}
		g.add(st)
	}
	n := 1 + r.Intn(3)
	for i := 1; i <= n; i++ { // held by A: groups 5.. never arrive
		send(a, ida, drv.OpSpec{ID: uint64(i), NI: 1, Kind: "ADD", T: "v4", Key: uint64(i), NHG: uint64(4 + i)})
	}
	b := g.connect(true)
	idb := drv.U128{Hi: ida.Hi, Lo: ida.Lo + 1}
	g.announce(b, idb)
	if r.Chance(1, 2) {
		g.add(drv.SStep{K: drv.Pick(r, "close", "abort"), S: a})
		g.drop(a)
	}
	// B numbers from 1 as well: entries ahead of group 2, then the next-hop and the group
	for i := 1; i <= n; i++ {
		t := drv.Pick(r, "v4", "v6", "mpls")
		key := map[string]uint64{"v4": uint64(i), "v6": uint64(1 + i%2), "mpls": uint64(100 * i)}[t]
		send(b, idb, drv.OpSpec{ID: uint64(i), NI: 2, Kind: "ADD", T: t, Key: key, NHG: 2})
	}
	send(b, idb, drv.OpSpec{ID: uint64(n + 1), NI: 2, Kind: "ADD", T: "nh", Key: 1})
	send(b, idb, drv.OpSpec{ID: uint64(n + 2), NI: 2, Kind: "ADD", T: "nhg", Key: 2, NHs: [][2]uint64{{1, 1}}})
	g.nextID = uint64(n + 10)
	g.add(drv.SStep{K: "get", Get: &drv.GetSpec{NI: "all", AFT: "ALL"}})
	return *g.c
}

// genC08: a primary builds RIB shapes biased to shared / missing / cyclic backup groups and
// cross-instance references, then Flush requests walk the decision table.
func genC08(g *srvGen) drv.SCase {
	r := g.r
	if r.Chance(1, 3) {
		// the set of instances is asked for (Get and Flush of all, on the empty server) before one or both of the
		// VRFs exist: they are created at run time, before anything refers to them
		g.add(drv.SStep{K: "get", Get: &drv.GetSpec{NI: "all", AFT: "ALL"}})
		g.add(drv.SStep{K: "flush", Flush: &drv.FlushSpec{Elec: "override", NI: "all"}})
		g.c.Late, g.c.LateAt = drv.Pick(r, []int{2}, []int{3}, []int{2, 3}), 2
	}
	s := g.connect(true)
	base := drv.U128{Hi: uint64(r.Intn(2)), Lo: uint64(2 + r.Intn(3))}
	noElection := r.Chance(1, 8)
	if !noElection {
		g.announce(s, base)
	}
	el := &base
	mk := func(op drv.OpSpec) {
		op.ID = g.id()
		op.Elec = el
		g.add(drv.SStep{K: "ops", S: s, Ops: []drv.OpSpec{op}})
	}
	if !noElection {
		for _, n := range []int{1, 2, 3} {
			if n != 1 && r.Chance(1, 3) {
				continue
			}
			for i := 1; i <= 1+r.Intn(2); i++ {
				mk(drv.OpSpec{NI: n, Kind: "ADD", T: "nh", Key: uint64(i)})
			}
			ng := 1 + r.Intn(3)
			for gi := 1; gi <= ng; gi++ {
				op := drv.OpSpec{NI: n, Kind: "ADD", T: "nhg", Key: uint64(gi), NHs: [][2]uint64{{1, 1}}}
				switch r.Intn(5) {
				case 0: // shared backup
					op.Bk = 3
				case 1: // backup that is never installed (7), or whose id is also the index of an installed next-hop
					op.Bk = drv.Pick(r, uint64(7), 7, uint64(ng+1), uint64(ng+1), 4)
				case 2: // cyclic / self
					op.Bk = uint64(1 + (gi % ng))
				}
				mk(op)
			}
			for i := 0; i < r.Intn(4); i++ {
				op := drv.OpSpec{NI: n, Kind: "ADD", T: drv.Pick(r, "v4", "v6", "mpls"), NHG: uint64(1 + r.Intn(ng))}
				switch op.T {
				case "v4":
					op.Key = uint64(1 + r.Intn(3))
				case "v6":
					op.Key = uint64(1 + r.Intn(2))
				default:
					op.Key = drv.Pick(r, uint64(100), 200)
				}
				if r.Chance(1, 3) {
					op.NHGN = drv.Pick(r, 1, 2, 3)
				}
				mk(op)
			}
		}
	}
	if !noElection && r.Chance(1, 3) && base.Lo > 1 {
		// the primary announces a lower id (it keeps the role and the server keeps the highest id it has learnt: the
		// Flush decisions below are still made against base); its operations are stamped with the new, lower id and rejected
		g.announce(s, drv.U128{Hi: base.Hi, Lo: base.Lo - 1})
	}
	if !noElection && base.Hi >= 1 && r.Chance(1, 3) {
		// a second session announces an id that is lower as a 128-bit number although its low word is higher: it does
		// not become primary and the highest id the server has learnt - the one Flush is judged against - stays
		s2 := g.connect(true)
		g.announce(s2, drv.U128{Hi: base.Hi - 1, Lo: base.Lo + uint64(1+r.Intn(60))})
	}
	nflush := 1 + r.Intn(3)
	for i := 0; i < nflush; i++ {
		f := &drv.FlushSpec{}
		f.NI = drv.Pick(r, "all", "all", "name", "name", "name", "none")
		f.Name = drv.Pick(r, 1, 2, 3, 1, 2, 4, 0)
		switch r.Intn(6) {
		case 0:
			f.Elec = "none"
		case 1:
			f.Elec = "override"
		default:
			f.Elec = "id"
			id := base
			switch r.Intn(6) {
			case 0:
				id = drv.U128{}
			case 1:
				id = drv.U128{Hi: base.Hi, Lo: base.Lo - 1}
			case 2:
				id = drv.U128{Hi: base.Hi + 1, Lo: 0}
			case 3:
				if base.Hi > 0 {
					id = drv.U128{Hi: base.Hi - 1, Lo: base.Lo + 5}
				}
			}
			f.ID = &id
		}
		g.add(drv.SStep{K: "get", Get: &drv.GetSpec{NI: "all", AFT: "ALL"}})
		g.add(drv.SStep{K: "flush", Flush: f})
		g.add(drv.SStep{K: "get", Get: &drv.GetSpec{NI: "all", AFT: "ALL"}})
		// deletion protection after the flush agrees with what remains: probe deletes, also of a group that is
		// programmed again in the flushed instance (entries of other instances may still point at it)
		if !noElection {
			if f.NI == "name" && f.Name >= 1 && f.Name <= 3 && r.Chance(1, 2) {
				mk(drv.OpSpec{NI: f.Name, Kind: "ADD", T: "nh", Key: 1})
				mk(drv.OpSpec{NI: f.Name, Kind: "ADD", T: "nhg", Key: uint64(1 + r.Intn(2)), NHs: [][2]uint64{{1, 1}}})
				mk(drv.OpSpec{NI: f.Name, Kind: "DELETE", T: "nhg", Key: uint64(1 + r.Intn(2))})
			}
			mk(drv.OpSpec{NI: drv.Pick(r, 1, 2, 3), Kind: "DELETE", T: drv.Pick(r, "nh", "nhg"), Key: uint64(1 + r.Intn(2))})
		}
	}
	return *g.c
}

// genC09: protocol-violation alphabet on up to three concurrently open sessions.
func genC09(g *srvGen) drv.SCase {
	r := g.r
	nsess := 1 + r.Intn(3)
	alphabet := func(s int) drv.SStep {
		switch x := r.Intn(22); {
		case x < 7:
			// params: every mode combination, including unknown enum numbers
			return drv.SStep{K: "params", S: s, Red: drv.Pick(r, 1, 1, 1, 0, 2), Pers: drv.Pick(r, 1, 1, 1, 0, 2), Ack: drv.Pick(r, 0, 1, 0, 1, 2)}
		case x < 12:
			id := drv.Pick(r, drv.U128{}, drv.U128{Lo: 1}, drv.U128{Lo: 2}, drv.U128{Hi: 1}, drv.U128{Lo: 5})
			return drv.SStep{K: "elect", S: s, ID: &id}
		case x < 17:
			op := drv.OpSpec{ID: g.id(), NI: 1, Kind: "ADD", T: "nh", Key: uint64(1 + r.Intn(3))}
			if r.Chance(3, 4) {
				op.Elec = &drv.U128{Lo: uint64(1 + r.Intn(2))}
				if g.last[s] != nil && r.Chance(2, 3) {
					c := *g.last[s]
					op.Elec = &c
				}
			}
			ops := []drv.OpSpec{op}
			if r.Chance(1, 4) {
				op2 := drv.OpSpec{ID: g.id(), NI: 1, Kind: "ADD", T: "nh", Key: uint64(1 + r.Intn(3)), Elec: op.Elec}
				if r.Chance(1, 2) {
					op2.Elec, ops[0].Elec = ops[0].Elec, nil // [op without election id; valid op]
				}
				ops = append(ops, op2)
			}
			return drv.SStep{K: "ops", S: s, Ops: ops}
		case x < 19:
			// two or three fields populated at once; the election id high enough to win and the operation one
			// that would be accepted, so that any effect of the rejected message shows
			st := drv.SStep{K: "multi", S: s}
			hi := drv.U128{Hi: 3, Lo: uint64(1 + r.Intn(5))}
			op := drv.OpSpec{ID: g.id(), NI: 1, Kind: "ADD", T: "nh", Key: uint64(1 + r.Intn(3))}
			if g.last[s] != nil {
				c := *g.last[s]
				op.Elec = &c
			}
			switch r.Intn(5) {
			case 0:
				st.Red, st.Pers, st.ID = 1, 1, &hi
			case 1:
				st.Red, st.Pers, st.Ops = 1, 1, []drv.OpSpec{op}
			case 2:
				st.ID, st.Ops = &hi, []drv.OpSpec{op}
			case 3:
				op.Elec = &hi
				st.ID, st.Ops = &hi, []drv.OpSpec{op}
			case 4:
				st.Red, st.Pers, st.ID, st.Ops = 1, 1, &hi, []drv.OpSpec{op}
			}
			return st
		case x < 20:
			return drv.SStep{K: "none", S: s}
		case x < 21:
			return drv.SStep{K: "close", S: s}
		}
		return drv.SStep{K: "get", Get: &drv.GetSpec{NI: "all", AFT: "ALL"}}
	}
	if r.Chance(1, 5) {
		// a session that connects and stays silent: it holds the default parameters, which every negotiation is compared with
		g.add(drv.SStep{K: "connect", S: 9})
		g.live[9] = true
	}
	for s := 1; s <= nsess; s++ {
		g.add(drv.SStep{K: "connect", S: s})
		g.live[s] = true
		g.next = s + 1
		// mostly negotiate first so that later violations are reached; sessions connect one at a time
		if r.Chance(2, 3) {
			g.add(drv.SStep{K: "params", S: s, Red: 1, Pers: 1, Ack: 0})
			g.neg[s] = true
			if r.Chance(1, 2) {
				id := drv.U128{Lo: uint64(s)}
				g.add(drv.SStep{K: "elect", S: s, ID: &id})
				g.last[s] = &id
			}
		} else {
			for i := 0; i < 1+r.Intn(2); i++ {
				g.add(alphabet(s))
			}
		}
	}
	for i := 0; i < 2+r.Intn(8); i++ {
		s := 1 + r.Intn(nsess)
		st := alphabet(s)
		if st.K == "elect" && g.neg[s] && !st.ID.IsZero() {
			c := *st.ID
			g.last[s] = &c
		}
		g.add(st)
		if r.Chance(1, 6) && g.next <= 4 {
			ns := g.next
			g.next++
			g.add(drv.SStep{K: "connect", S: ns})
			g.add(drv.SStep{K: "params", S: ns, Red: 1, Pers: 1, Ack: drv.Pick(r, 0, 0, 1)})
		}
	}
	g.add(drv.SStep{K: "get", Get: &drv.GetSpec{NI: "all", AFT: "ALL"}})
	return *g.c
}

// ---------------------------------------------------------------------------- oracles

// electionTracker recomputes, from the script and the server's own responses, who is primary.
type electionTracker struct {
	max     *drv.U128
	primary int
	last    map[int]*drv.U128
}

func (e *electionTracker) observe(st drv.SStep, o drv.SObs) {
	if st.K == "elect" && len(o.Resps) == 1 && o.Resps[0].GetElectionId() != nil {
		id := *st.ID
		e.last[st.S] = &id
		if e.max == nil || !id.Less(*e.max) {
			e.primary = st.S
		}
		if e.max == nil || e.max.Less(id) {
			m := id
			e.max = &m
		}
	}
	if o.End != nil {
		delete(e.last, st.S)
	}
}

// mustReject: the property's own condition for an operation to be allowed to change state.
func (e *electionTracker) mustReject(s int, op drv.OpSpec) bool {
	if s != e.primary || e.max == nil || e.last[s] == nil || op.Elec == nil {
		return true
	}
	return *op.Elec != *e.last[s] || *op.Elec != *e.max
}

func runOracle(prop string, c drv.SCase, x *drv.SRun, obs []drv.SObs, snaps []string) string {
	el := &electionTracker{last: map[int]*drv.U128{}}
	liveParams := map[int][3]int{} // C09: session -> (redundancy, persistence, ack type) it holds
	spoke := map[int]bool{}        // C09: the session has sent a message that was read
	owner := map[uint64]int{}      // op id -> session that sent it
	terminal := map[string]string{} // "sess/id" -> FAILED | RIB_PROGRAMMED
	fibAck := map[string]bool{}
	negFib := map[int]bool{}
	ended := map[int]bool{}
	heldOf := map[uint64]int{} // op id -> session on whose stream it was held (answered with an empty result list)
	for i, st := range c.Steps {
		o := obs[i]
		if o.Hang != "" {
			return fmt.Sprintf("step %d (%s): %s", i, st.K, o.Hang)
		}
		before, after := snaps[i], snaps[i+1]
		switch st.K {
		case "params":
			if len(o.Resps) == 1 && o.Resps[0].GetSessionParamsResult() != nil {
				negFib[st.S] = st.Ack == 1
			}
		case "ops":
			if ended[st.S] || x.Sess[st.S] == nil {
				if before != after {
					return fmt.Sprintf("step %d: operations on a stream that has ended changed server state", i)
				}
				break
			}
			allRejected := true
			for _, op := range st.Ops {
				owner[op.ID] = st.S
				if !el.mustReject(st.S, op) {
					allRejected = false
				}
			}
			if prop == "C04" || prop == "C09" {
				if allRejected && before != after {
					return fmt.Sprintf("step %d: every operation of this message had to be rejected (sender %d, primary %d, highest id %v) but server state changed:\n--- before\n%s--- after\n%s", i, st.S, el.primary, el.max, before, after)
				}
				for j, r := range o.Resps {
					if j >= len(st.Ops) {
						break
					}
					if el.mustReject(st.S, st.Ops[j]) {
						for _, res := range r.GetResult() {
							if res.GetStatus() != spb.AFTResult_FAILED {
								return fmt.Sprintf("step %d: operation %d had to be rejected (sender %d, primary %d, stamp %v, highest %v) but got %s for id %d", i, st.Ops[j].ID, st.S, el.primary, st.Ops[j].Elec, el.max, res.GetStatus(), res.GetId())
							}
						}
					}
				}
			}
			if prop == "C06" {
				if o.End == nil && len(o.Resps) != len(st.Ops) {
					return fmt.Sprintf("step %d: request with %d operations answered by %d responses", i, len(st.Ops), len(o.Resps))
				}
			}
			for j, r := range o.Resps {
				if len(r.GetResult()) == 0 && j < len(st.Ops) {
					heldOf[st.Ops[j].ID] = st.S
				}
			}
			// also from the server itself: what was held before this request (the empty response of a held operation
			// is lost when a later operation of the same request ends the RPC)
			if m := regexp.MustCompile(`held=\[([0-9 ]*)\]`).FindStringSubmatch(snaps[i]); m != nil {
				for _, f := range strings.Fields(m[1]) {
					var id uint64
					fmt.Sscan(f, &id)
					if ow, ok := owner[id]; ok {
						if _, known := heldOf[id]; !known {
							heldOf[id] = ow
						}
					}
				}
			}
			for _, r := range o.Resps {
				for _, res := range r.GetResult() {
					key := fmt.Sprintf("%d/%d", st.S, res.GetId())
					if prop == "C06" {
						if ow, ok := owner[res.GetId()]; !ok || ow != st.S {
							tag := ""
							if heldOf[res.GetId()] == ow && ok {
								// the operation was held on behalf of its sender and an operation of this stream resolved it
								tag = " [held-op-of-other-session-acked-on-resolver-stream]"
							}
							return fmt.Sprintf("step %d: stream of session %d carries a result for operation %d, which was sent by session %d%s", i, st.S, res.GetId(), ow, tag)
						}
						switch res.GetStatus() {
						case spb.AFTResult_FAILED, spb.AFTResult_RIB_PROGRAMMED:
							if prev, dup := terminal[key]; dup {
								return fmt.Sprintf("step %d: operation %d answered %s after it was already answered %s on the same stream", i, res.GetId(), res.GetStatus(), prev)
							}
							terminal[key] = res.GetStatus().String()
						case spb.AFTResult_FIB_PROGRAMMED:
							if !negFib[st.S] {
								return fmt.Sprintf("step %d: FIB_PROGRAMMED for %d although FIB acknowledgement was not negotiated", i, res.GetId())
							}
							if terminal[key] != "RIB_PROGRAMMED" {
								return fmt.Sprintf("step %d: FIB_PROGRAMMED for %d before RIB_PROGRAMMED", i, res.GetId())
							}
							if fibAck[key] {
								return fmt.Sprintf("step %d: FIB_PROGRAMMED for %d twice", i, res.GetId())
							}
							fibAck[key] = true
						}
					}
				}
			}
		case "flush":
			if prop == "C08" {
				if p := checkC08(st, o, i, el, before, after, x); p != "" {
					return p
				}
			}
		case "multi", "none":
			if before != after {
				return fmt.Sprintf("step %d: protocol violation (%s) changed server state", i, st.K)
			}
		case "close", "abort":
			if before != after {
				return fmt.Sprintf("step %d: %s changed server state:\n--- before\n%s--- after\n%s", i, st.K, before, after)
			}
		}
		if o.End != nil {
			ended[st.S] = true
			// a violation that ends the RPC must not have changed the RIB, held operations or election state,
			// unless the ending message was an accepted announcement (it never is) or operations partly applied
			// before the fatal one (those were acknowledged)
			if st.K != "ops" && st.K != "close" && st.K != "abort" && before != after {
				return fmt.Sprintf("step %d: message %s ended the RPC with %v/%s but changed server state", i, st.K, o.End.Code, o.End.Reason)
			}
		}
		if prop == "C09" {
			if p := checkC09(st, o, i, el, x); p != "" {
				return p
			}
			// a second parameters message on a stream is MODIFY_NOT_ALLOWED whatever it carries; an election id from a
			// session that has not negotiated elected-primary mode is ELECTION_ID_IN_ALL_PRIMARY whatever the server has learnt
			switch {
			case st.K == "params" && spoke[st.S] && x.Sess[st.S] != nil && (o.End != nil || len(o.Resps) > 0):
				if o.End == nil || o.End.Code.String() != "FailedPrecondition" || o.End.Reason != "MODIFY_NOT_ALLOWED" {
					return fmt.Sprintf("step %d: session parameters sent after another message on the same stream: %s, specification requires the RPC to end with FailedPrecondition/MODIFY_NOT_ALLOWED", i, drv.OutText(drv.ObsOut{Resps: o.Resps, End: o.End}))
				}
			case st.K == "elect" && !st.ID.IsZero() && len(o.Resps) > 0 && o.End == nil:
				if p, ok := liveParams[st.S]; !ok || p[0] != 1 {
					return fmt.Sprintf("step %d: an election id from a session that has not negotiated elected-primary mode was answered (%s) instead of ending the RPC with FailedPrecondition/ELECTION_ID_IN_ALL_PRIMARY", i, drv.OutText(drv.ObsOut{Resps: o.Resps}))
				}
			}
			if (st.K == "params" || st.K == "elect" || st.K == "ops" || st.K == "multi" || st.K == "none") && (o.End != nil || len(o.Resps) > 0) {
				spoke[st.S] = true
			}
			// parameters are accepted only if every other live session - negotiated or not - holds the same ones
			// (a session that has connected and not negotiated holds the defaults: ALL_PRIMARY / DELETE / RIB_ACK)
			switch {
			case st.K == "connect":
				liveParams[st.S] = [3]int{0, 0, 0}
			case st.K == "params" && len(o.Resps) == 1 && o.Resps[0].GetSessionParamsResult() != nil && o.End == nil:
				// what the server keeps of them: elected-primary?, preserve?, FIB acknowledgements?
				b := func(x bool) int {
					if x {
						return 1
					}
					return 0
				}
				mine := [3]int{b(st.Red == 1), b(st.Pers == 1), b(st.Ack == 1)}
				for other, p := range liveParams {
					if other != st.S && p != mine {
						return fmt.Sprintf("step %d: session %d's parameters %v were accepted although live session %d holds %v", i, st.S, mine, other, p)
					}
				}
				liveParams[st.S] = mine
			}
			if o.End != nil || st.K == "close" || st.K == "abort" {
				delete(liveParams, st.S)
			}
		}
		el.observe(st, o)
		if st.K == "elect" && len(o.Resps) == 1 {
			got := o.Resps[0].GetElectionId()
			if got == nil || el.max == nil || got.High != el.max.Hi || got.Low != el.max.Lo {
				return fmt.Sprintf("step %d: election response %v, running maximum %v", i, got, el.max)
			}
		}
	}
	if prop == "C06" {
		// exactly once or excused: at the end every operation sent on a live primary stream is answered or held
		held := map[uint64]bool{}
		for _, id := range x.D.S.VerifRIB().VerifPendingIDs() {
			held[id] = true
		}
		for i, st := range c.Steps {
			if st.K != "ops" || obs[i].End != nil {
				continue
			}
			for _, op := range st.Ops {
				key := fmt.Sprintf("%d/%d", st.S, op.ID)
				if _, ok := terminal[key]; ok || held[op.ID] || ended[st.S] {
					continue
				}
				_, m := x.D.S.VerifElection()
				if x.SessOf(m) != st.S {
					continue
				}
				return fmt.Sprintf("operation %d of session %d has no terminal result, is not held, and its stream is still the primary's", op.ID, st.S)
			}
		}
	}
	return ""
}

// checkC08: the Flush decision table and effect, from the script alone.
func checkC08(st drv.SStep, o drv.SObs, i int, el *electionTracker, before, after string, x *drv.SRun) string {
	f := st.Flush
	want := "F_OK"
	switch {
	case f.NI == "none":
		want = "F_UNSPECIFIED_NETWORK_INSTANCE"
	case f.Elec == "override":
	case f.Elec == "none" && el.max != nil:
		want = "F_UNSPECIFIED_ELECTION_BEHAVIOR"
	case f.Elec == "none":
	case el.max == nil:
		want = "F_ELECTION_ID_IN_ALL_PRIMARY"
	case f.ID.IsZero():
		want = "F_INVALID_ELECTION_ID"
	case f.ID.Less(*el.max):
		want = "F_NOT_PRIMARY"
	}
	known := map[int]bool{1: true, 2: true, 3: true}
	if want == "F_OK" && f.NI == "name" && !known[f.Name] {
		want = "F_INVALID_NETWORK_INSTANCE"
	}
	split := func(snap string) (per map[string][]string, rest []string) {
		per = map[string][]string{}
		for _, l := range strings.Split(snap, "\n") {
			if k := strings.Index(l, "|"); k > 0 && !strings.HasPrefix(l, "rc ") && !strings.HasPrefix(l, "held") && !strings.HasPrefix(l, "election") {
				per[l[:k]] = append(per[l[:k]], l)
			} else if !strings.HasPrefix(l, "rc ") {
				rest = append(rest, l)
			}
		}
		return
	}
	b, brest := split(before)
	a, arest := split(after)
	if strings.Join(brest, ";") != strings.Join(arest, ";") {
		return fmt.Sprintf("step %d: Flush changed held operations or election state", i)
	}
	if want != "F_OK" {
		if o.FlushSt != want {
			return fmt.Sprintf("step %d: Flush %+v answered %s, the specification assigns %s", i, *f, o.FlushSt, want)
		}
		if before != after {
			return fmt.Sprintf("step %d: rejected Flush (%s) changed the RIB", i, want)
		}
		return ""
	}
	sel := map[string]bool{}
	if f.NI == "all" {
		sel["DEFAULT"], sel["VRF-A"], sel["VRF-B"] = true, true, true
	} else {
		sel[drv.NINames[f.Name]] = true
	}
	removedAll := true
	for n := range sel {
		if len(a[n]) != 0 {
			removedAll = false
		}
	}
	for n, lines := range b {
		if !sel[n] && strings.Join(lines, ";") != strings.Join(a[n], ";") {
			return fmt.Sprintf("step %d: Flush of %v changed entries of instance %s", i, sel, n)
		}
	}
	if !removedAll {
		return fmt.Sprintf("step %d: authorised Flush left entries in a selected instance", i)
	}
	if o.FlushSt != "F_OK" {
		return fmt.Sprintf("step %d: authorised Flush removed every entry of the selected instances but answered %s", i, o.FlushSt)
	}
	return ""
}

// checkC09: the status the specification assigns to each violation (declarative table).
func checkC09(st drv.SStep, o drv.SObs, i int, el *electionTracker, x *drv.SRun) string {
	if st.K == "params" && len(o.Resps) == 1 && o.Resps[0].GetSessionParamsResult() != nil && (st.Red != 1 || st.Pers != 1) {
		return fmt.Sprintf("step %d: session parameters redundancy=%d persistence=%d accepted, only SINGLE_PRIMARY(1)/PRESERVE(1) is supported", i, st.Red, st.Pers)
	}
	// a violation that is answered instead of ending the RPC
	if len(o.Resps) > 0 && o.End == nil {
		switch {
		case st.K == "elect" && st.ID.IsZero():
			return fmt.Sprintf("step %d: a zero election id was answered (%s) instead of ending the RPC with InvalidArgument", i, drv.OutText(drv.ObsOut{Resps: o.Resps}))
		case st.K == "multi", st.K == "none":
			return fmt.Sprintf("step %d: a %s message was answered (%s) instead of ending the RPC", i, st.K, drv.OutText(drv.ObsOut{Resps: o.Resps}))
		case st.K == "ops" && len(st.Ops) > 0 && st.Ops[0].Elec == nil && st.Ops[0].NI >= 1 && st.Ops[0].NI <= 3 && st.Ops[0].Kind != "OTHER":
			// the first operation names an existing instance and carries no election id: whoever sends it
			return fmt.Sprintf("step %d: an operation without election id was answered (%s) instead of ending the RPC with FailedPrecondition", i, drv.OutText(drv.ObsOut{Resps: o.Resps}))
		}
	}
	if o.End == nil || x.Sess[st.S] == nil {
		return ""
	}
	want := func(code, reason string) string {
		if o.End.Code.String() != code || o.End.Reason != reason {
			return fmt.Sprintf("step %d: %s ended the RPC with %s/%q, specification requires %s/%q", i, st.K, o.End.Code, o.End.Reason, code, reason)
		}
		return ""
	}
	switch st.K {
	case "multi":
		return want("InvalidArgument", "")
	case "elect":
		if st.ID.IsZero() {
			// a zero id from a session in elected-primary mode is INVALID_ARGUMENT; otherwise the mode error wins
			if o.End.Code.String() == "InvalidArgument" && o.End.Reason == "" {
				return ""
			}
		}
		if o.End.Code.String() == "FailedPrecondition" && o.End.Reason == "ELECTION_ID_IN_ALL_PRIMARY" {
			return ""
		}
		if st.ID.IsZero() {
			return want("InvalidArgument", "")
		}
		return want("FailedPrecondition", "ELECTION_ID_IN_ALL_PRIMARY")
	}
	return ""
}

// ackFold: C01 at the server.  The entries installed in the RIB must be the fold, in acknowledgement order, of the
// operations answered RIB_PROGRAMMED on any stream (looked up by id in the script) and of the authorised flushes.
type ackFold struct {
	spec specRIB
	ops  map[uint64]drv.OpSpec
}

func newAckFold() *ackFold { return &ackFold{spec: specRIB{}, ops: map[uint64]drv.OpSpec{}} }

func (a *ackFold) observe(i int, st drv.SStep, o drv.SObs, x *drv.SRun) string {
	for _, op := range st.Ops {
		if st.K == "ops" {
			a.ops[op.ID] = op
		}
	}
	for _, rsp := range o.Resps {
		for _, res := range rsp.GetResult() {
			if res.GetStatus() != spb.AFTResult_RIB_PROGRAMMED {
				continue
			}
			op, ok := a.ops[res.GetId()]
			if !ok {
				return fmt.Sprintf("step %d: RIB_PROGRAMMED for id %d, which was never sent", i, res.GetId())
			}
			switch op.Kind {
			case "ADD":
				a.spec[keyText(op)] = payloadText(op)
			case "REPLACE":
				if _, ok := a.spec[keyText(op)]; !ok {
					return fmt.Sprintf("step %d: REPLACE id %d acknowledged but its key %s was not installed", i, op.ID, keyText(op))
				}
				a.spec[keyText(op)] = payloadText(op)
			case "DELETE":
				delete(a.spec, keyText(op))
			}
		}
	}
	if st.K == "flush" && o.FlushSt == "F_OK" {
		sel := map[int]bool{}
		if st.Flush.NI == "all" {
			sel = map[int]bool{1: true, 2: true, 3: true}
		} else {
			sel[st.Flush.Name] = true
		}
		for k := range a.spec {
			for n := range sel {
				if strings.HasPrefix(k, fmt.Sprintf("%d|", n)) {
					delete(a.spec, k)
				}
			}
		}
	}
	got, err := implText(x.D.S.VerifRIB())
	if err != nil {
		return fmt.Sprintf("step %d: RIBContents: %v", i, err)
	}
	if st.K == "ops" && o.End != nil {
		// the request ended the RPC: results of its earlier operations race with the termination of the stream and may
		// be lost although the operations were applied - the fold restarts from what is installed
		a.spec = got
		return ""
	}
	if d := diffSpec(a.spec, got); d != "" {
		return fmt.Sprintf("step %d (%s): entries installed in the server differ from the fold of the operations acknowledged on the streams: %s", i, st.K, d)
	}
	return ""
}

// ---------------------------------------------------------------------------- command

func runSrv(prop string, args []string) error {
	f := drv.NewFlags(prop)
	if err := f.Parse(args); err != nil {
		return err
	}
	r := drv.NewRng(*f.Seed)
	var cases []drv.SCase
	if *f.Replay != "" {
		if err := drv.ReadJSON(*f.Replay, &cases); err != nil {
			return err
		}
	} else {
		gprof := prop
		if prop == "C01S" {
			gprof = "C06"
		}
		for i := 0; i < *f.N; i++ {
			cases = append(cases, genSCase(r, gprof))
		}
	}
	rules := map[string]string{
		"C01S": "the multi-session scripts of C06 (held operations that later resolve or fail, batches, hand-overs, Flush, both acknowledgement modes), judged after every step by: entries installed in the server's RIB = fold of the operations acknowledged RIB_PROGRAMMED on any stream (by id) and of the authorised flushes; non-trivial = some operation was held and acknowledged later; distinct by script text",
		"C04": "multi-session scripts (connect / negotiate / announce / operate / disconnect, Get, Flush) with operation stamps drawn from {own last, highest, stale, future, none}; non-trivial = at least two sessions announced and at least one operation was rejected and one accepted; distinct by script text",
		"C06": "one to three sessions (a fifth of the scripts: held explicit replaces whose entry is deleted before the missing group arrives, so that the retry fails), requests of 1..20 operations, held operations that later resolve or fail, empty/unknown instance names, primary hand-overs, RIB and FIB acknowledgement modes; non-trivial = some operation was held and acknowledged later, or a hand-over happened while operations were held; distinct by script text",
		"C08": "a primary programs RIB shapes biased to shared / missing / cyclic backup groups and cross-instance references, then Flush requests over the decision table (instance none/all/name/unknown x election none/override/zero/lower/equal/higher, with and without server election state), Get before and after, delete probes; non-trivial = an authorised flush removed at least one entry while another instance kept entries, or a flush was rejected on a non-empty RIB; distinct by script text",
		"C09": "message sequences over {params (every mode combination), election (zero/low/equal/high), operation (with/without id), multi-field, empty} on up to three concurrently open sessions; non-trivial = at least one RPC ended with a non-OK status; distinct by script text",
	}
	rep := drv.Report{Property: prop, Seed: *f.Seed, Shard: drv.ShardSize, Stats: map[string]int{}, Cases: len(cases), Rule: rules[prop]}
	var coq []string
	distinct := map[string]bool{}
	for i, c := range cases {
		x, err := drv.NewSRun(c)
		if err != nil {
			return err
		}
		obs := []drv.SObs{}
		snaps := []string{x.Snapshot()}
		fold := newAckFold()
		foldProblem := ""
		for j, st := range c.Steps {
			obs = append(obs, x.Step(st))
			snaps = append(snaps, x.Snapshot())
			if prop == "C01S" && foldProblem == "" {
				foldProblem = fold.observe(j, st, obs[j], x)
			}
			if prop == "C08" && foldProblem == "" {
				// deletion protection agrees with what remains: every counter = number of installed referrers
				if p := refcountProblem(x.D.S.VerifRIB()); p != "" {
					foldProblem = fmt.Sprintf("step %d (%s): %s", j, st.K, p)
				}
			}
		}
		if foldProblem != "" {
			rep.Violations = append(rep.Violations, drv.Verdict{Case: i, Problem: foldProblem})
		}
		if p := runOracle(prop, c, x, obs, snaps); p != "" {
			rep.Violations = append(rep.Violations, drv.Verdict{Case: i, Problem: p})
		}
		hs, os := []string{}, []string{}
		announcers := map[int]bool{}
		rejected, accepted, heldLater, ends := false, false, false, 0
		heldSeen := map[uint64]bool{}
		for j, st := range c.Steps {
			hs = append(hs, st.Coq(obs[j]))
			os = append(os, obs[j].Coq(st))
			rep.Stats["step_"+st.K]++
			if obs[j].End != nil {
				rep.Stats["rpc_end_"+obs[j].End.Code.String()+"_"+obs[j].End.Reason]++
				if obs[j].End.Code.String() != "OK" && st.K != "abort" {
					ends++
				}
			}
			if st.K == "elect" && len(obs[j].Resps) == 1 {
				announcers[st.S] = true
			}
			for k, rsp := range obs[j].Resps {
				if st.K != "ops" {
					continue
				}
				if len(rsp.GetResult()) == 0 && k < len(st.Ops) {
					heldSeen[st.Ops[k].ID] = true
					rep.Stats["ops_held"]++
				}
				for _, res := range rsp.GetResult() {
					rep.Stats["result_"+res.GetStatus().String()]++
					if res.GetStatus() == spb.AFTResult_FAILED {
						rejected = true
					} else {
						accepted = true
						if heldSeen[res.GetId()] {
							heldLater = true
						}
					}
				}
			}
			if st.K == "ops" {
				rep.Stats[fmt.Sprintf("batch_%02d", min(len(st.Ops), 20))]++
			}
		}
		nt := false
		switch prop {
		case "C04":
			nt = len(announcers) >= 2 && rejected && accepted
		case "C06", "C01S":
			nt = heldLater
		case "C09":
			nt = ends > 0
		case "C08":
			nt = accepted
		}
		if nt {
			distinct[strings.Join(hs, ";")] = true
		}
		vr := []uint64{}
		for _, v := range c.VRFs {
			vr = append(vr, uint64(v))
		}
		coq = append(coq, fmt.Sprintf("mk_scase %v %s\n %s\n %s\n (%s)", c.NoFwd, drv.CoqNs(vr), drv.CoqList(hs), drv.CoqList(os), x.FinalCoq()))
		if i < 2 {
			txt := []string{}
			for j, st := range c.Steps {
				txt = append(txt, st.Coq(obs[j])+" => "+obs[j].Text(st))
			}
			rep.Samples = append(rep.Samples, txt)
		}
		x.Finish()
	}
	rep.Nontrivial = len(distinct)
	if err := drv.WriteJSON(*f.Out+"/cases.json", cases); err != nil {
		return err
	}
	req := "From Coq Require Import List NArith Bool.\nFrom GV.Base Require Import Op U128.\nFrom GV.Rib Require Import Model Run.\nFrom GV.Server Require Import Model Obs Inst.\nImport ListNotations.\nOpen Scope N_scope."
	if err := drv.WriteCasesV(*f.Out, req, "scase", "smismatches", coq); err != nil {
		return err
	}
	return drv.WriteJSON(*f.Out+"/impl.json", rep)
}
