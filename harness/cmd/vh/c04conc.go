package main

import (
	"fmt"
	"sync"

	"verifharness/drv"

	spb "github.com/openconfig/gribi/v1/proto/service"
)

func init() {
	cmds["c04conc"] = runC04Conc
	cmds["c08nocheck"] = runC08NoCheck
}

// c04conc: the election gate under concurrency.  Session A is and stays the primary (it announced the higher id);
// session B announced a lower id.  Both send requests of several operations at the same time, B stamping its
// operations with A's id or with its own.  Whatever the interleaving, none of B's operations may be programmed.
type gateCase struct {
	Seed   int64 `json:"seed"`
	Rounds int   `json:"rounds"`
	Batch  int   `json:"batch"`
}

func runGateCase(c gateCase) (string, map[string]int) {
	stats := map[string]int{}
	x, err := drv.NewSRun(drv.SCase{VRFs: []int{2}})
	if err != nil {
		return err.Error(), stats
	}
	defer x.Finish()
	mk := func(id drv.U128) (*drv.Sess, string) {
		s, err := x.D.Connect()
		if err != nil {
			return nil, err.Error()
		}
		if rs, err := s.SendN(&spb.ModifyRequest{Params: &spb.SessionParameters{Redundancy: 1, Persistence: 1}}, 1); err != nil || len(rs) != 1 {
			return nil, fmt.Sprintf("negotiation: %v", err)
		}
		if rs, err := s.SendN(&spb.ModifyRequest{ElectionId: id.Proto()}, 1); err != nil || len(rs) != 1 {
			return nil, fmt.Sprintf("announcement: %v", err)
		}
		return s, ""
	}
	ida, idb := drv.U128{Lo: 10}, drv.U128{Lo: 5}
	b, p := mk(idb)
	if p != "" {
		return p, stats
	}
	a, p := mk(ida)
	if p != "" {
		return p, stats
	}
	var mu sync.Mutex
	problem := ""
	fail := func(s string) {
		mu.Lock()
		if problem == "" {
			problem = s
		}
		mu.Unlock()
	}
	var wg sync.WaitGroup
	run := func(s *drv.Sess, who string, ni int, base uint64, stamp func(int) drv.U128, primary bool) {
		defer wg.Done()
		r := drv.NewRng(c.Seed + int64(base))
		id := base << 32
		for round := 0; round < c.Rounds; round++ {
			m := &spb.ModifyRequest{}
			for k := 0; k < c.Batch; k++ {
				id++
				st := stamp(round)
				m.Operation = append(m.Operation, drv.OpSpec{ID: id, NI: ni, Kind: drv.Pick(r, "ADD", "ADD", "DELETE"), T: "nh", Key: base + uint64(r.Intn(3)), Elec: &st}.Proto())
			}
			rs, err := s.SendBarrier(m)
			if err != nil {
				fail(fmt.Sprintf("session %s: %v", who, err))
				return
			}
			for _, rsp := range rs {
				for _, res := range rsp.GetResult() {
					mu.Lock()
					stats[who+"_"+res.GetStatus().String()]++
					mu.Unlock()
					if !primary && res.GetStatus() != spb.AFTResult_FAILED {
						fail(fmt.Sprintf("round %d: operation %d of session B (not the primary: it announced %v, the primary announced %v) was answered %s", round, res.GetId(), idb, ida, res.GetStatus()))
						return
					}
				}
			}
		}
	}
	wg.Add(2)
	go run(a, "A", 1, 1, func(int) drv.U128 { return ida }, true)
	go run(b, "B", 2, 101, func(k int) drv.U128 {
		if k%2 == 0 {
			return ida
		}
		return idb
	}, false)
	wg.Wait()
	if problem == "" {
		cont, _ := x.D.S.VerifRIB().RIBContents()
		for name, rr := range cont {
			for idx := range rr.GetAfts().NextHop {
				if idx >= 101 {
					fail(fmt.Sprintf("next-hop %d of %s is installed: only session B, which never was the primary, sent it", idx, name))
				}
			}
		}
	}
	return problem, stats
}

func runC04Conc(args []string) error {
	f := drv.NewFlags("c04conc")
	if err := f.Parse(args); err != nil {
		return err
	}
	var cases []gateCase
	if *f.Replay != "" {
		if err := drv.ReadJSON(*f.Replay, &cases); err != nil {
			return err
		}
	} else {
		r := drv.NewRng(*f.Seed)
		for i := 0; i < *f.N; i++ {
			cases = append(cases, gateCase{Seed: *f.Seed*1000 + int64(i), Rounds: 150, Batch: 2 + r.Intn(4)})
		}
	}
	rep := drv.Report{Property: "C04", Seed: *f.Seed, Shard: drv.ShardSize, Stats: map[string]int{}, Cases: len(cases),
		Rule: "the election gate under concurrency: the primary A (id 10) and the standby B (id 5) send requests of 2-5 operations at the same time, 150 rounds each, B stamping with A's id or its own; none of B's operations may be answered anything but FAILED or reach the RIB; non-trivial = both sessions were answered"}
	for i, c := range cases {
		p, st := runGateCase(c)
		if p != "" {
			rep.Violations = append(rep.Violations, drv.Verdict{Case: i, Problem: p})
		}
		for k, v := range st {
			rep.Stats[k] += v
		}
		if st["A_RIB_PROGRAMMED"] > 0 && st["B_FAILED"] > 0 {
			rep.Nontrivial++
		}
	}
	if err := drv.WriteJSON(*f.Out+"/cases.json", cases); err != nil {
		return err
	}
	if err := drv.WriteCasesV(*f.Out, "From Coq Require Import List NArith.\nImport ListNotations.", "N", "(fun _ : list N => @nil N)", nil); err != nil {
		return err
	}
	return drv.WriteJSON(*f.Out+"/impl.json", rep)
}

// c08nocheck: Flush on a server whose RIB runs without the reference checks (DisableRIBCheckFn): entries are
// installed as they come, including entries whose group, next-hops or group network instance do not exist.  An
// authorised Flush must still remove every entry of the selected instances and answer OK.
type noCheckCase struct {
	Ops   []drv.OpSpec   `json:"ops"`
	Flush *drv.FlushSpec `json:"flush"`
}

func runNoCheckCase(c noCheckCase) string {
	x, err := drv.NewSRunOpts(drv.SCase{VRFs: []int{2, 3}}, true)
	if err != nil {
		return err.Error()
	}
	defer x.Finish()
	s, err := x.D.Connect()
	if err != nil {
		return err.Error()
	}
	el := drv.U128{Lo: 3}
	if rs, err := s.SendN(&spb.ModifyRequest{Params: &spb.SessionParameters{Redundancy: 1, Persistence: 1}}, 1); err != nil || len(rs) != 1 {
		return fmt.Sprintf("negotiation: %v", err)
	}
	if rs, err := s.SendN(&spb.ModifyRequest{ElectionId: el.Proto()}, 1); err != nil || len(rs) != 1 {
		return fmt.Sprintf("announcement: %v", err)
	}
	for _, o := range c.Ops {
		e := el
		o.Elec = &e
		if _, err := s.SendBarrier(&spb.ModifyRequest{Operation: []*spb.AFTOperation{o.Proto()}}); err != nil {
			return "programming: " + err.Error()
		}
	}
	before, _ := x.D.S.VerifRIB().RIBContents()
	st, hang := x.D.DoFlush(c.Flush.FlushReq())
	if hang != "" {
		return hang
	}
	if st != "F_OK" {
		return fmt.Sprintf("authorised Flush %+v on a RIB without reference checks answered %s", *c.Flush, st)
	}
	after, _ := x.D.S.VerifRIB().RIBContents()
	count := func(r map[string]int, name string) int { return r[name] }
	n := func(m map[string]int, name string, k int) { m[name] += k }
	cb, ca := map[string]int{}, map[string]int{}
	for name, rr := range before {
		a := rr.GetAfts()
		n(cb, name, len(a.Ipv4Entry)+len(a.Ipv6Entry)+len(a.LabelEntry)+len(a.NextHopGroup)+len(a.NextHop))
	}
	for name, rr := range after {
		a := rr.GetAfts()
		n(ca, name, len(a.Ipv4Entry)+len(a.Ipv6Entry)+len(a.LabelEntry)+len(a.NextHopGroup)+len(a.NextHop))
	}
	for name := range before {
		selected := c.Flush.NI == "all" || drv.NINames[c.Flush.Name] == name
		switch {
		case selected && count(ca, name) != 0:
			return fmt.Sprintf("Flush %+v answered OK but %s still holds %d of its %d entries (RIB without reference checks)", *c.Flush, name, ca[name], cb[name])
		case !selected && ca[name] != cb[name]:
			return fmt.Sprintf("Flush %+v changed %s, which it did not select: %d entries before, %d after", *c.Flush, name, cb[name], ca[name])
		}
	}
	return ""
}

func runC08NoCheck(args []string) error {
	f := drv.NewFlags("c08nocheck")
	if err := f.Parse(args); err != nil {
		return err
	}
	var cases []noCheckCase
	if *f.Replay != "" {
		if err := drv.ReadJSON(*f.Replay, &cases); err != nil {
			return err
		}
	} else {
		r := drv.NewRng(*f.Seed)
		for i := 0; i < *f.N; i++ {
			c := noCheckCase{}
			id := uint64(0)
			for k := 0; k < 4+r.Intn(10); k++ {
				id++
				ni := drv.Pick(r, 1, 1, 2, 3)
				switch r.Intn(5) {
				case 0:
					c.Ops = append(c.Ops, drv.OpSpec{ID: id, NI: ni, Kind: "ADD", T: "nh", Key: uint64(1 + r.Intn(3))})
				case 1:
					c.Ops = append(c.Ops, drv.OpSpec{ID: id, NI: ni, Kind: "ADD", T: "nhg", Key: uint64(1 + r.Intn(3)), NHs: [][2]uint64{{uint64(1 + r.Intn(4)), 1}}, Bk: uint64(r.Intn(4))})
				default:
					o := drv.OpSpec{ID: id, NI: ni, Kind: "ADD", T: drv.Pick(r, "v4", "v6", "mpls"), NHG: uint64(1 + r.Intn(4)), NHGN: drv.Pick(r, 0, 0, 1, 2, 3, 4, 4)}
					o.Key = map[string]uint64{"v4": uint64(1 + r.Intn(3)), "v6": uint64(1 + r.Intn(2)), "mpls": drv.Pick(r, uint64(100), 200, 16)}[o.T]
					c.Ops = append(c.Ops, o)
				}
			}
			c.Flush = &drv.FlushSpec{Elec: "override", NI: drv.Pick(r, "all", "name", "name"), Name: 1 + r.Intn(3)}
			cases = append(cases, c)
		}
	}
	rep := drv.Report{Property: "C08", Seed: *f.Seed, Shard: drv.ShardSize, Stats: map[string]int{}, Cases: len(cases),
		Rule: "Flush on a server built with DisableRIBCheckFn: 4-13 entries installed as they come (groups, next-hops or the group's network instance may not exist), then an authorised Flush of all / one instance: OK, every selected instance empty, the others untouched; non-trivial = an entry naming a network instance that does not exist was installed"}
	for i, c := range cases {
		if p := runNoCheckCase(c); p != "" {
			rep.Violations = append(rep.Violations, drv.Verdict{Case: i, Problem: p})
		}
		for _, o := range c.Ops {
			if o.NHGN == 4 {
				rep.Nontrivial++
				break
			}
		}
		rep.Stats["flush_"+c.Flush.NI]++
	}
	if err := drv.WriteJSON(*f.Out+"/cases.json", cases); err != nil {
		return err
	}
	if err := drv.WriteCasesV(*f.Out, "From Coq Require Import List NArith.\nImport ListNotations.", "N", "(fun _ : list N => @nil N)", nil); err != nil {
		return err
	}
	return drv.WriteJSON(*f.Out+"/impl.json", rep)
}
