package main

import (
	"fmt"
	"sort"
	"strings"

	"verifharness/drv"

	"github.com/openconfig/gribigo/rib"
)

func init() {
	cmds["c01"] = func(a []string) error { return runRib("C01", a) }
	cmds["c02"] = func(a []string) error { return runRib("C02", a) }
	cmds["c03"] = func(a []string) error { return runRib("C03", a) }
}

// RStep is one step of a RIB-level history.
type RStep struct {
	K   string      `json:"k"` // add del flush addni hook reshook
	Op  *drv.OpSpec `json:"op,omitempty"`
	NIs []int       `json:"nis,omitempty"`
	NI  int         `json:"ni,omitempty"`
}

// RCase is a RIB-level history.
type RCase struct {
	NoFwd bool    `json:"nofwd"`
	Steps []RStep `json:"steps"`
}

// StepObs is what the implementation did at one step.
type StepObs struct {
	Oks, Fails []uint64
	Fatal      bool
	Pend       []uint64
	FlushErr   bool
	Panic      string
}

// ribRun executes a history on a fresh rib.RIB; after is called after every step.
func ribRun(c RCase, after func(i int, st RStep, o StepObs, r *rib.RIB)) ([]StepObs, *rib.RIB) {
	opts := []rib.RIBOpt{}
	if c.NoFwd {
		opts = append(opts, rib.DisableForwardReferences())
	}
	r := rib.New("DEFAULT", opts...)
	var obs []StepObs
	for i, st := range c.Steps {
		var o StepObs
		func() {
			defer func() {
				if e := recover(); e != nil {
					o.Panic = fmt.Sprint(e)
				}
			}()
			switch st.K {
			case "add", "del":
				if st.Op == nil {
					return
				}
				var oks, fails []*rib.OpResult
				var err error
				if st.K == "del" {
					oks, fails, err = r.DeleteEntry(drv.NINames[st.Op.NI], st.Op.Proto())
				} else {
					oks, fails, err = r.AddEntry(drv.NINames[st.Op.NI], st.Op.Proto())
				}
				o.Oks, o.Fails, o.Fatal = drv.IDs(oks), drv.IDs(fails), err != nil
				if err != nil {
					o.Oks, o.Fails = nil, nil
				}
			case "flush":
				names := []string{}
				for _, n := range st.NIs {
					if _, ok := r.NetworkInstanceRIB(drv.NINames[n]); ok {
						names = append(names, drv.NINames[n])
					}
				}
				o.FlushErr = r.Flush(names) != nil
			case "addni":
				r.AddNetworkInstance(drv.NINames[st.NI])
			}
		}()
		o.Pend = r.VerifPendingIDs()
		obs = append(obs, o)
		if after != nil {
			after(i, st, o, r)
		}
	}
	return obs, r
}

func (st RStep) coq(o StepObs) string {
	switch st.K {
	case "add":
		return fmt.Sprintf("IAdd %d %s %s %s", st.Op.NI, st.Op.Coq(), drv.CoqNs(o.Fails), drv.CoqNs(o.Oks))
	case "del":
		return fmt.Sprintf("IDel %d %s", st.Op.NI, st.Op.Coq())
	case "flush":
		ns := []uint64{}
		for _, n := range st.NIs {
			ns = append(ns, uint64(n))
		}
		return "IFlush " + drv.CoqNs(ns)
	case "addni":
		return fmt.Sprintf("IAddNI %d", st.NI)
	case "hook":
		return "ISetHook"
	case "reshook":
		return "ISetResHook"
	}
	return "IAddNI 0"
}

func (o StepObs) coq() string {
	f := append([]uint64{}, o.Fails...)
	sort.Slice(f, func(i, j int) bool { return f[i] < f[j] })
	return fmt.Sprintf("mk_robs %s %s %v %s %v", drv.CoqNs(o.Oks), drv.CoqNs(f), o.Fatal, drv.CoqNs(o.Pend), o.FlushErr)
}

// ---------------------------------------------------------------------------- generator

type ribGen struct {
	hist []drv.OpSpec // earlier ADD / REPLACE operations (to program them again)
	r      *drv.Rng
	nextID uint64
	// what the generator believes is installed (only to bias choices; never used as an oracle)
	nh, nhg map[[2]int]bool
	prof    string
	queue   []RStep // steps of a scripted block still to be emitted
}

func (g *ribGen) id() uint64 { g.nextID++; return g.nextID }

func (g *ribGen) ni() int {
	switch x := g.r.Intn(40); {
	case x < 22:
		return 1
	case x < 30:
		return 2
	case x < 37:
		return 3
	case x < 38:
		return 0
	default:
		return 4
	}
}

func (g *ribGen) small() uint64 {
	if g.r.Chance(1, 40) {
		return 0
	}
	return uint64(1 + g.r.Intn(3))
}

func (g *ribGen) extras(max int) [][2]uint64 {
	x := [][2]uint64{}
	if g.r.Chance(1, 3) {
		x = append(x, [2]uint64{1, uint64(1 + g.r.Intn(max))})
	}
	return x
}

func (g *ribGen) entry(o *drv.OpSpec) {
	malformed := g.prof == "C12" || g.r.Chance(1, 25)
	switch x := g.r.Intn(20); {
	case x < 5:
		o.T = "nh"
		o.Key = g.small()
		o.X = g.extras(3)
		if g.r.Chance(1, 4) {
			o.X = append(o.X, [2]uint64{2, uint64(1 + g.r.Intn(2))})
		}
		if g.r.Chance(1, 5) { // pop-top-label true / explicitly false
			o.X = append(o.X, [2]uint64{3, uint64(1 + g.r.Intn(2))})
		}
	case x < 10:
		o.T = "nhg"
		o.Key = g.small()
		n := 1 + g.r.Intn(2)
		if malformed && g.r.Chance(1, 4) {
			n = 0
		}
		ws := map[uint64]uint64{} // a repeated member keeps its weight (else the stored weight depends on Go map order)
		for i := 0; i < n; i++ {
			idx := uint64(1 + g.r.Intn(3))
			if _, ok := ws[idx]; !ok {
				ws[idx] = uint64(1 + g.r.Intn(4))
			}
			o.NHs = append(o.NHs, [2]uint64{idx, ws[idx]})
		}
		if g.r.Chance(1, 6) && len(o.NHs) > 0 { // duplicate member
			o.NHs = append(o.NHs, o.NHs[0]) // same weight: with differing weights the stored one depends on Go map order
		}
		if g.r.Chance(1, 4) {
			o.Bk = uint64(1 + g.r.Intn(4))
		}
		if g.r.Chance(1, 5) {
			o.X = [][2]uint64{{1, uint64(1 + g.r.Intn(3))}}
		}
	default:
		o.T = drv.Pick(g.r, "v4", "v4", "v4", "v6", "mpls")
		switch o.T {
		case "v4":
			o.Key = uint64(1 + g.r.Intn(3))
			if malformed && g.r.Chance(1, 2) {
				o.Key = uint64(11 + g.r.Intn(7))
			}
		case "v6":
			o.Key = drv.Pick(g.r, uint64(1), 2, 1, 2, 1, 2, 5, 6)
			if malformed && g.r.Chance(1, 2) {
				o.Key = uint64(11 + g.r.Intn(4))
			}
		case "mpls":
			o.Key = drv.Pick(g.r, uint64(100), 200, 16, 1048575)
			if malformed && g.r.Chance(1, 2) {
				o.Key = drv.Pick(g.r, uint64(15), 0, 1048576, 1<<32+100, 1<<32+5)
			}
		}
		o.NHG = g.small()
		if g.r.Chance(1, 3) {
			o.NHGN = drv.Pick(g.r, 1, 2, 3, 2, 3, 1)
			if malformed && g.r.Chance(1, 6) {
				o.NHGN = 4
			}
		}
		o.X = g.extras(3)
		if o.T != "mpls" && g.r.Chance(1, 6) {
			o.X = append(o.X, [2]uint64{2, uint64(1 + g.r.Intn(3))})
		}
	}
	if malformed && g.r.Chance(1, 8) {
		o.Nil = true
		o.NHG, o.NHGN, o.NHs, o.Bk, o.X = 0, 0, nil, 0, nil
	}
}

func (g *ribGen) step() RStep {
	if len(g.queue) > 0 {
		st := g.queue[0]
		g.queue = g.queue[1:]
		return st
	}
	if g.r.Chance(1, 25) {
		// scripted block: two next-hops, a group of both, and the group programmed again with a list of the
		// same length that names only the first ({a,b} -> [a,a]); the probes at the end ask for b's DELETE
		ni := g.ni()
		a := uint64(1 + g.r.Intn(3))
		b := 1 + a%3
		k := g.small()
		w := uint64(1 + g.r.Intn(4))
		mk := func(o drv.OpSpec) RStep {
			o.ID, o.NI = g.id(), ni
			g.hist = append(g.hist, o)
			return RStep{K: "add", Op: &o}
		}
		g.queue = []RStep{
			mk(drv.OpSpec{Kind: "ADD", T: "nh", Key: b}),
			mk(drv.OpSpec{Kind: "ADD", T: "nhg", Key: k, NHs: [][2]uint64{{a, w}, {b, 1}}}),
			mk(drv.OpSpec{Kind: drv.Pick(g.r, "ADD", "REPLACE"), T: "nhg", Key: k, NHs: [][2]uint64{{a, w}, {a, w}}}),
		}
		return mk(drv.OpSpec{Kind: "ADD", T: "nh", Key: a})
	}
	if g.r.Chance(1, 50) {
		// the configuration is applied again: a network instance that exists already (refused, nothing changes)
		return RStep{K: "addni", NI: drv.Pick(g.r, 1, 2, 3)}
	}
	switch x := g.r.Intn(100); {
	case x < 3:
		if g.r.Chance(1, 2) {
			return RStep{K: "flush", NIs: []int{1, 2, 3}}
		}
		return RStep{K: "flush", NIs: [][]int{{1}, {2}, {3}, {1, 2}, {2, 3}}[g.r.Intn(5)]}
	}
	if len(g.hist) > 0 && g.r.Chance(1, 8) {
		// an earlier group of two or more members is programmed again with every position naming its first
		// member: the list is as long as before, all of it was a member already, and the others lose a referrer
		var c []drv.OpSpec
		for _, h := range g.hist {
			if h.T == "nhg" && !h.Nil && len(h.NHs) >= 2 && h.NHs[0][0] != h.NHs[1][0] {
				c = append(c, h)
			}
		}
		if len(c) > 0 {
			o := c[len(c)-1-g.r.Intn((len(c)+1)/2)] // one of the later ones: more likely still installed
			nhs := make([][2]uint64, len(o.NHs))
			for i := range nhs {
				nhs[i] = o.NHs[0]
			}
			o.NHs = nhs
			o.ID = g.id()
			o.Kind = drv.Pick(g.r, "ADD", "REPLACE")
			return RStep{K: "add", Op: &o}
		}
	}
	if len(g.hist) > 0 && g.r.Chance(1, 12) {
		// an earlier operation's key is deleted (exactly as it was spelled)
		h := g.hist[g.r.Intn(len(g.hist))]
		return RStep{K: "del", Op: &drv.OpSpec{ID: g.id(), NI: h.NI, Kind: "DELETE", T: h.T, Key: h.Key}}
	}
	if len(g.hist) > 0 && g.r.Chance(1, 6) {
		// an earlier operation is programmed again: identical, with leaves removed, or with one leaf changed
		o := g.hist[g.r.Intn(len(g.hist))]
		for try := 0; try < 4 && len(o.X) == 0 && o.NHGN == 0 && o.Bk == 0; try++ { // prefer one that has optional leaves
			o = g.hist[g.r.Intn(len(g.hist))]
		}
		o.ID = g.id()
		o.Kind = drv.Pick(g.r, "ADD", "ADD", "REPLACE")
		switch g.r.Intn(4) {
		case 0:
		case 1, 2: // only removes leaves
			if len(o.X) > 0 {
				o.X = append([][2]uint64{}, o.X[:g.r.Intn(len(o.X))]...)
			}
			if g.r.Chance(1, 2) {
				o.Bk = 0
			}
			if o.NHGN == o.NI {
				o.NHGN = 0 // the same instance, named or not
			}
			if len(o.NHs) > 1 && g.r.Chance(1, 2) {
				o.NHs = append([][2]uint64{}, o.NHs[:1]...)
			}
		default:
			if o.T == "nhg" && len(o.NHs) >= 2 && g.r.Chance(1, 2) {
				// the next-hop set is rewritten at equal list length: every position names the first member
				// ({a,b} -> [a,a]: b loses its referrer although the list is as long as before), or the
				// last position moves to another index
				nhs := append([][2]uint64{}, o.NHs...)
				if g.r.Chance(1, 2) {
					for i := range nhs {
						nhs[i] = nhs[0]
					}
				} else {
					nhs[len(nhs)-1] = [2]uint64{1 + nhs[len(nhs)-1][0]%3, nhs[len(nhs)-1][1]}
					for i := range nhs[:len(nhs)-1] { // a repeated member keeps its weight
						if nhs[i][0] == nhs[len(nhs)-1][0] {
							nhs[len(nhs)-1][1] = nhs[i][1]
						}
					}
				}
				o.NHs = nhs
			} else if len(o.X) > 0 {
				x := append([][2]uint64{}, o.X...)
				x[0][1] = 1 + x[0][1]%2
				o.X = x
			} else if o.T == "nhg" {
				o.Bk = uint64(1 + g.r.Intn(3))
			}
		}
		return RStep{K: "add", Op: &o}
	}
	o := &drv.OpSpec{ID: g.id(), NI: g.ni()}
	g.entry(o)
	k := "add"
	switch x := g.r.Intn(100); {
	case x < 55:
		o.Kind = "ADD"
	case x < 70:
		o.Kind = "REPLACE"
	default:
		o.Kind = "DELETE"
		k = "del"
	}
	if g.r.Chance(1, 200) {
		o.T = "none"
	}
	if k == "add" && !o.Nil && o.T != "none" {
		g.hist = append(g.hist, *o)
	}
	return RStep{K: k, Op: o}
}

// dagCase: a dependency graph NH <- NHG <- top-level entries (cross-NI references) whose
// operations arrive in a random order, some dependencies deleted and re-added, some never.
func (g *ribGen) dagCase() RCase {
	c := RCase{NoFwd: g.r.Chance(1, 5), Steps: []RStep{{K: "addni", NI: 2}, {K: "addni", NI: 3}}}
	var ops []RStep
	nis := []int{1, 2, 3}
	for _, n := range nis {
		if g.r.Chance(1, 3) && n != 1 {
			continue
		}
		nnh := 1 + g.r.Intn(3)
		for i := 1; i <= nnh; i++ {
			if g.r.Chance(5, 6) {
				ops = append(ops, RStep{K: "add", Op: &drv.OpSpec{NI: n, Kind: "ADD", T: "nh", Key: uint64(i), X: g.extras(3)}})
			}
		}
		for gi := 1; gi <= 1+g.r.Intn(2); gi++ {
			o := &drv.OpSpec{NI: n, Kind: "ADD", T: "nhg", Key: uint64(gi)}
			for j := 0; j < 1+g.r.Intn(2); j++ {
				o.NHs = append(o.NHs, [2]uint64{uint64(1 + g.r.Intn(nnh)), 1})
			}
			ops = append(ops, RStep{K: "add", Op: o})
		}
	}
	for i := 0; i < 2+g.r.Intn(4); i++ {
		o := &drv.OpSpec{NI: drv.Pick(g.r, nis...), Kind: drv.Pick(g.r, "ADD", "ADD", "ADD", "REPLACE"), T: drv.Pick(g.r, "v4", "v6", "mpls"), NHG: uint64(1 + g.r.Intn(2))}
		switch o.T {
		case "v4":
			o.Key = uint64(1 + g.r.Intn(3))
		case "v6":
			o.Key = uint64(1 + g.r.Intn(2))
		default:
			o.Key = drv.Pick(g.r, uint64(100), 200)
		}
		if g.r.Chance(1, 3) {
			o.NHGN = drv.Pick(g.r, nis...)
		}
		ops = append(ops, RStep{K: "add", Op: o})
	}
	// deletes / re-adds of dependencies
	for i := 0; i < g.r.Intn(4); i++ {
		src := ops[g.r.Intn(len(ops))].Op
		d := *src
		d.Kind = "DELETE"
		ops = append(ops, RStep{K: "del", Op: &d})
		if g.r.Chance(1, 2) {
			a := *src
			ops = append(ops, RStep{K: "add", Op: &a})
		}
	}
	g.r.Shuffle(len(ops), func(i, j int) { ops[i], ops[j] = ops[j], ops[i] })
	for _, s := range ops {
		s.Op.ID = g.id()
		c.Steps = append(c.Steps, s)
	}
	if g.r.Chance(1, 2) {
		// teardown: some of the top-level entries are deleted, then every group and every next-hop is asked to go:
		// each is refused exactly while something installed still uses it (a counter that moved in the wrong
		// instance or by the wrong amount lets a group go that an acknowledged entry points at)
		for _, s := range ops {
			if s.K == "add" && (s.Op.T == "v4" || s.Op.T == "v6" || s.Op.T == "mpls") && g.r.Chance(1, 2) {
				c.Steps = append(c.Steps, RStep{K: "del", Op: &drv.OpSpec{ID: g.id(), NI: s.Op.NI, Kind: "DELETE", T: s.Op.T, Key: s.Op.Key}})
			}
		}
		for _, n := range nis {
			for gi := uint64(1); gi <= 2; gi++ {
				c.Steps = append(c.Steps, RStep{K: "del", Op: &drv.OpSpec{ID: g.id(), NI: n, Kind: "DELETE", T: "nhg", Key: gi}})
			}
		}
		for _, n := range nis {
			for i := uint64(1); i <= 3; i++ {
				c.Steps = append(c.Steps, RStep{K: "del", Op: &drv.OpSpec{ID: g.id(), NI: n, Kind: "DELETE", T: "nh", Key: i}})
			}
		}
	}
	if g.r.Chance(1, 4) {
		c.Steps = append(c.Steps, RStep{K: "flush", NIs: []int{1, 2, 3}})
	}
	return c
}

// retargetCase: every instance holds a next-hop and two groups; top-level entries are then pointed from group to
// group, within and across instances (implicit and explicit replace), interleaved with deletes of the groups and of
// the entries, re-adds and the occasional flush.
func (g *ribGen) retargetCase() RCase {
	c := RCase{NoFwd: g.r.Chance(1, 5), Steps: []RStep{{K: "addni", NI: 2}, {K: "addni", NI: 3}}}
	add := func(k string, o drv.OpSpec) {
		o.ID = g.id()
		c.Steps = append(c.Steps, RStep{K: k, Op: &o})
	}
	nis := []int{1, 2, 3}
	// in some instances group 2 names group 1 as its backup (a backup is not a counted reference: the groups can be
	// deleted in any order, and a flush releases what the backup group itself references like that of any group)
	// ... and in some both groups share a third group as their backup (a flush meets it twice)
	bk := map[int]uint64{}
	for _, n := range nis {
		switch g.r.Intn(4) {
		case 0, 1:
			bk[n] = 1
		case 2:
			bk[n] = 3
		}
	}
	grp := func(n int, gi uint64) drv.OpSpec {
		o := drv.OpSpec{NI: n, Kind: "ADD", T: "nhg", Key: gi, NHs: [][2]uint64{{1, 1}}}
		if (gi == 2 && bk[n] == 1) || (gi <= 2 && bk[n] == 3) {
			o.Bk = bk[n]
		}
		return o
	}
	for _, n := range nis {
		add("add", drv.OpSpec{NI: n, Kind: "ADD", T: "nh", Key: 1})
		if bk[n] == 3 {
			add("add", grp(n, 3))
		}
		for gi := uint64(1); gi <= 2; gi++ {
			add("add", grp(n, gi))
		}
	}
	top := func() drv.OpSpec {
		o := drv.OpSpec{NI: drv.Pick(g.r, nis...), T: drv.Pick(g.r, "v4", "v4", "v6", "mpls")}
		switch o.T {
		case "v4":
			o.Key = uint64(1 + g.r.Intn(2))
		case "v6":
			o.Key = drv.Pick(g.r, uint64(1), 1, 2, 5, 6) // 5 and 6: other spellings of 2 and 1, distinct keys
		default:
			o.Key = drv.Pick(g.r, uint64(100), 100, 16)
		}
		return o
	}
	var added []drv.OpSpec
	for i := 0; i < 6+g.r.Intn(14); i++ {
		switch x := g.r.Intn(20); {
		case x < 11:
			o := top()
			o.Kind = drv.Pick(g.r, "ADD", "ADD", "REPLACE")
			o.NHG = uint64(1 + g.r.Intn(2))
			if g.r.Chance(3, 4) {
				o.NHGN = drv.Pick(g.r, nis...)
			}
			add("add", o)
			added = append(added, o)
		case x < 14:
			o := top()
			if len(added) > 0 && g.r.Chance(2, 3) { // delete an entry that was programmed, by the key it was programmed with
				a := added[g.r.Intn(len(added))]
				o = drv.OpSpec{NI: a.NI, T: a.T, Key: a.Key}
			}
			o.Kind = "DELETE"
			add("del", o)
		case x < 17:
			add("del", drv.OpSpec{NI: drv.Pick(g.r, nis...), Kind: "DELETE", T: "nhg", Key: uint64(1 + g.r.Intn(2))})
		case x < 19:
			add("add", grp(drv.Pick(g.r, nis...), uint64(1+g.r.Intn(2))))
		default:
			c.Steps = append(c.Steps, RStep{K: "flush", NIs: [][]int{{1}, {2}, {3}, {1, 2}, {1, 2, 3}}[g.r.Intn(5)]})
		}
	}
	if len(added) > 0 && g.r.Chance(1, 3) {
		// a REPLACE towards a group that does not exist yet is held; its entry is deleted meanwhile; the group arrives:
		// the held operation is retried as what it is - a REPLACE of an entry that is gone (FAILED, no trace)
		a := added[g.r.Intn(len(added))]
		add("add", drv.OpSpec{NI: a.NI, Kind: "REPLACE", T: a.T, Key: a.Key, NHG: 7})
		add("del", drv.OpSpec{NI: a.NI, Kind: "DELETE", T: a.T, Key: a.Key})
		add("add", drv.OpSpec{NI: a.NI, Kind: "ADD", T: "nhg", Key: 7, NHs: [][2]uint64{{1, 1}}})
		add("del", drv.OpSpec{NI: a.NI, Kind: "DELETE", T: a.T, Key: a.Key})
		add("del", drv.OpSpec{NI: a.NI, Kind: "DELETE", T: "nhg", Key: 7})
	}
	if g.r.Chance(1, 2) {
		// one instance is flushed while entries of the others may still point into it; its next-hop and groups are
		// programmed again and then deleted (refused exactly while such an entry remains)
		n := drv.Pick(g.r, nis...)
		c.Steps = append(c.Steps, RStep{K: "flush", NIs: []int{n}})
		if g.r.Chance(1, 2) {
			// the flushed groups and next-hop are deleted (again): nothing is installed under these keys, whatever
			// still points at them from another instance
			for gi := uint64(1); gi <= 2; gi++ {
				add("del", drv.OpSpec{NI: n, Kind: "DELETE", T: "nhg", Key: gi})
			}
			add("del", drv.OpSpec{NI: n, Kind: "DELETE", T: "nh", Key: 1})
		}
		add("add", drv.OpSpec{NI: n, Kind: "ADD", T: "nh", Key: 1})
		for gi := uint64(1); gi <= 2; gi++ {
			add("add", grp(n, gi))
		}
		for gi := uint64(1); gi <= 2; gi++ {
			add("del", drv.OpSpec{NI: n, Kind: "DELETE", T: "nhg", Key: gi})
		}
		add("del", drv.OpSpec{NI: n, Kind: "DELETE", T: "nh", Key: 1})
	}
	return c
}

func genRCase(r *drv.Rng, prof string) RCase {
	g := &ribGen{r: r, prof: prof}
	if (prof == "C03" && r.Chance(1, 2)) || (prof == "C01" && r.Chance(1, 3)) {
		return g.retargetCase()
	}
	if prof == "C02" && r.Chance(3, 4) {
		return g.dagCase()
	}
	c := RCase{NoFwd: r.Chance(1, 6)}
	c.Steps = append(c.Steps, RStep{K: "addni", NI: 2}, RStep{K: "addni", NI: 3})
	n := 5 + r.Intn(30)
	for i := 0; i < n; i++ {
		c.Steps = append(c.Steps, g.step())
	}
	return c
}

// ---------------------------------------------------------------------------- oracles (model-free)

type specRIB map[string]string // "ni|table|key" -> payload text

func payloadText(o drv.OpSpec) string {
	switch o.T {
	case "v4", "v6", "mpls":
		return fmt.Sprintf("top nhg=%d ni=%d x=%v", o.NHG, o.NHGN, o.X)
	case "nhg":
		m := map[uint64]uint64{}
		for _, nh := range o.NHs {
			m[nh[0]] = nh[1]
		}
		ks := []uint64{}
		for k := range m {
			ks = append(ks, k)
		}
		sort.Slice(ks, func(i, j int) bool { return ks[i] < ks[j] })
		s := ""
		for _, k := range ks {
			s += fmt.Sprintf("%d:%d,", k, m[k])
		}
		return fmt.Sprintf("grp nhs=%s bk=%d x=%v", s, o.Bk, o.X)
	case "nh":
		return fmt.Sprintf("nh x=%v", o.X)
	}
	return "?"
}

func keyText(o drv.OpSpec) string { return fmt.Sprintf("%d|%s|%d", o.NI, o.T, o.Key) }

// implText renders the implementation's contents in the same vocabulary as payloadText, straight
// from the ygot structs (independent of the Coq printers).
func implText(r *rib.RIB) (specRIB, error) {
	out := specRIB{}
	c, err := r.RIBContents()
	if err != nil {
		return nil, err
	}
	for name, rr := range c {
		n := drv.NICode(name)
		a := rr.GetAfts()
		if a == nil {
			continue
		}
		xt := func(md []byte, decap int64) [][2]uint64 {
			x := [][2]uint64{}
			if md != nil {
				for k, v := range drv.MetaVals {
					if string(v) == string(md) {
						x = append(x, [2]uint64{1, k})
					}
				}
			}
			if decap != 0 {
				x = append(x, [2]uint64{2, uint64(decap)})
			}
			return x
		}
		for p, e := range a.Ipv4Entry {
			k := uint64(999)
			for c, s := range drv.V4Keys {
				if s == p {
					k = c
				}
			}
			out[fmt.Sprintf("%d|v4|%d", n, k)] = fmt.Sprintf("top nhg=%d ni=%d x=%v", e.GetNextHopGroup(), drv.NICode(e.GetNextHopGroupNetworkInstance()), xt(e.EntryMetadata, int64(e.DecapsulateHeader)))
		}
		for p, e := range a.Ipv6Entry {
			k := uint64(999)
			for c, s := range drv.V6Keys {
				if s == p {
					k = c
				}
			}
			out[fmt.Sprintf("%d|v6|%d", n, k)] = fmt.Sprintf("top nhg=%d ni=%d x=%v", e.GetNextHopGroup(), drv.NICode(e.GetNextHopGroupNetworkInstance()), xt(e.EntryMetadata, int64(e.DecapsulateHeader)))
		}
		for l, e := range a.LabelEntry {
			out[fmt.Sprintf("%d|mpls|%v", n, l)] = fmt.Sprintf("top nhg=%d ni=%d x=%v", e.GetNextHopGroup(), drv.NICode(e.GetNextHopGroupNetworkInstance()), xt(e.EntryMetadata, 0))
		}
		for id, g := range a.NextHopGroup {
			ks := []uint64{}
			for k := range g.NextHop {
				ks = append(ks, k)
			}
			sort.Slice(ks, func(i, j int) bool { return ks[i] < ks[j] })
			s := ""
			for _, k := range ks {
				s += fmt.Sprintf("%d:%d,", k, g.NextHop[k].GetWeight())
			}
			x := [][2]uint64{}
			if g.Color != nil {
				x = append(x, [2]uint64{1, *g.Color})
			}
			out[fmt.Sprintf("%d|nhg|%d", n, id)] = fmt.Sprintf("grp nhs=%s bk=%d x=%v", s, g.GetBackupNextHopGroup(), x)
		}
		for idx, nh := range a.NextHop {
			x := [][2]uint64{}
			if nh.IpAddress != nil {
				for k, v := range drv.IPVals {
					if v == *nh.IpAddress {
						x = append(x, [2]uint64{1, k})
					}
				}
			}
			if nh.MacAddress != nil {
				for k, v := range drv.MACVals {
					if v == *nh.MacAddress {
						x = append(x, [2]uint64{2, k})
					}
				}
			}
			if nh.PopTopLabel != nil {
				x = append(x, [2]uint64{3, map[bool]uint64{true: 1, false: 2}[*nh.PopTopLabel]})
			}
			if len(nh.EncapHeader) > 0 {
				x = append(x, [2]uint64{4, uint64(len(nh.EncapHeader))})
			}
			out[fmt.Sprintf("%d|nh|%d", n, idx)] = fmt.Sprintf("nh x=%v", x)
		}
	}
	return out, nil
}

func diffSpec(want, got specRIB) string {
	var d []string
	for k, v := range want {
		if g, ok := got[k]; !ok {
			d = append(d, "missing "+k+" = "+v)
		} else if g != v {
			d = append(d, "differs "+k+": acked "+v+" installed "+g)
		}
	}
	for k, v := range got {
		if _, ok := want[k]; !ok {
			d = append(d, "unexpected "+k+" = "+v)
		}
	}
	sort.Strings(d)
	return strings.Join(d, "; ")
}

// oracleC01: installed state == fold of the acknowledged operations, after every step.
func oracleC01(c RCase) string {
	spec := specRIB{}
	failed := map[uint64]bool{}
	ops := map[uint64]drv.OpSpec{}
	problem := ""
	ribRun(c, func(i int, st RStep, o StepObs, r *rib.RIB) {
		if problem != "" {
			return
		}
		if o.Panic != "" {
			problem = fmt.Sprintf("step %d: panic %s", i, o.Panic)
			return
		}
		if st.Op != nil {
			ops[st.Op.ID] = *st.Op
		}
		for _, id := range o.Fails {
			failed[id] = true
			// DELETE is idempotent: a well-formed DELETE of a key under which nothing is installed is acknowledged
			if st.K == "del" && st.Op != nil && st.Op.ID == id && wellFormedDelete(*st.Op) {
				if _, installed := spec[keyText(*st.Op)]; !installed {
					problem = fmt.Sprintf("step %d: DELETE of %s, under which nothing is installed, was answered FAILED (DELETE is idempotent)", i, keyText(*st.Op))
					return
				}
			}
		}
		for _, id := range o.Pend {
			if failed[id] {
				problem = fmt.Sprintf("step %d: operation %d was answered FAILED and is held nevertheless", i, id)
				return
			}
		}
		for _, id := range o.Oks {
			if failed[id] {
				problem = fmt.Sprintf("step %d: operation %d is acknowledged after it was answered FAILED", i, id)
				return
			}
			op, ok := ops[id]
			if !ok {
				problem = fmt.Sprintf("step %d: acknowledged id %d was never sent", i, id)
				return
			}
			switch op.Kind {
			case "ADD":
				spec[keyText(op)] = payloadText(op)
			case "REPLACE":
				if _, ok := spec[keyText(op)]; !ok {
					problem = fmt.Sprintf("step %d: REPLACE id %d acknowledged but its key %s was not installed", i, id, keyText(op))
					return
				}
				spec[keyText(op)] = payloadText(op)
			case "DELETE":
				delete(spec, keyText(op))
			}
		}
		if st.K == "flush" {
			for k := range spec {
				for _, n := range st.NIs {
					if strings.HasPrefix(k, fmt.Sprintf("%d|", n)) {
						delete(spec, k)
					}
				}
			}
		}
		got, err := implText(r)
		if err != nil {
			problem = fmt.Sprintf("step %d: RIBContents: %v", i, err)
			return
		}
		if d := diffSpec(spec, got); d != "" {
			problem = fmt.Sprintf("step %d (%s): installed entries differ from the fold of acknowledged operations: %s", i, st.K, d)
		}
	})
	return problem
}

// wellFormedDelete: a DELETE that names an existing network instance and a syntactically valid key of its table.
func wellFormedDelete(o drv.OpSpec) bool {
	if o.Kind != "DELETE" || o.Nil || o.NI < 1 || o.NI > 3 || o.RawNI != "" || o.Bad || o.BadList != 0 {
		return false
	}
	switch o.T {
	case "v4":
		_, ok := drv.V4Keys[o.Key]
		return ok && o.Key < 10
	case "v6":
		_, ok := drv.V6Keys[o.Key]
		return ok && o.Key < 10
	case "mpls":
		return o.Key >= 16 && o.Key <= 1048575
	case "nh", "nhg":
		return o.Key != 0
	}
	return false
}

type niKey struct {
	ni int
	id uint64
}

// installedSets extracts what is installed and who references what from the implementation.
func installedSets(r *rib.RIB) (nh, nhg map[niKey]bool, grpRefs map[niKey]int, nhRefs map[niKey]int, dangling []string) {
	nh, nhg, grpRefs, nhRefs = map[niKey]bool{}, map[niKey]bool{}, map[niKey]int{}, map[niKey]int{}
	c, _ := r.RIBContents()
	for name, rr := range c {
		n := drv.NICode(name)
		a := rr.GetAfts()
		if a == nil {
			continue
		}
		for idx := range a.NextHop {
			nh[niKey{n, idx}] = true
		}
		for id := range a.NextHopGroup {
			nhg[niKey{n, id}] = true
		}
	}
	for name, rr := range c {
		n := drv.NICode(name)
		a := rr.GetAfts()
		if a == nil {
			continue
		}
		tgt := func(nin string, g uint64, what string) {
			t := n
			if nin != "" {
				t = drv.NICode(nin)
			}
			grpRefs[niKey{t, g}]++
			if !nhg[niKey{t, g}] {
				dangling = append(dangling, fmt.Sprintf("%s in %s references missing group %d in %s", what, name, g, drv.NINames[t]))
			}
		}
		for p, e := range a.Ipv4Entry {
			tgt(e.GetNextHopGroupNetworkInstance(), e.GetNextHopGroup(), "ipv4 "+p)
		}
		for p, e := range a.Ipv6Entry {
			tgt(e.GetNextHopGroupNetworkInstance(), e.GetNextHopGroup(), "ipv6 "+p)
		}
		for l, e := range a.LabelEntry {
			tgt(e.GetNextHopGroupNetworkInstance(), e.GetNextHopGroup(), fmt.Sprintf("label %v", l))
		}
		for id, g := range a.NextHopGroup {
			for idx := range g.NextHop {
				nhRefs[niKey{n, idx}]++
				if !nh[niKey{n, idx}] {
					dangling = append(dangling, fmt.Sprintf("group %d in %s contains missing next-hop %d", id, name, idx))
				}
			}
		}
	}
	sort.Strings(dangling)
	return
}

// oracleC02: nothing installed dangles (while only Modify and full flushes changed the RIB); no held
// operation is installable; with forward references disabled nothing is ever held.
func oracleC02(c RCase) string {
	ops := map[uint64]drv.OpSpec{}
	problem := ""
	partial := false
	sent := []uint64{} // ids given to AddEntry that did not end in a fatal error
	answered := map[uint64]bool{}
	ribRun(c, func(i int, st RStep, o StepObs, r *rib.RIB) {
		if problem != "" {
			return
		}
		if o.Panic != "" {
			problem = fmt.Sprintf("step %d: panic %s", i, o.Panic)
			return
		}
		if st.Op != nil {
			ops[st.Op.ID] = *st.Op
		}
		// every operation handed to the RIB is acknowledged, failed, or still held - never forgotten
		if st.K == "add" && st.Op != nil && !o.Fatal {
			sent = append(sent, st.Op.ID)
		}
		for _, id := range append(append([]uint64{}, o.Oks...), o.Fails...) {
			answered[id] = true
		}
		held := map[uint64]bool{}
		for _, id := range o.Pend {
			held[id] = true
		}
		for _, id := range sent {
			if !answered[id] && !held[id] {
				problem = fmt.Sprintf("step %d (%s): operation %d was neither acknowledged nor failed and is no longer held", i, st.K, id)
				return
			}
		}
		// deletion protection: every counter = number of installed referrers
		if p := refcountProblem(r); p != "" {
			problem = fmt.Sprintf("step %d: %s", i, p)
			return
		}
		if st.K == "flush" {
			all := map[int]bool{}
			for _, n := range st.NIs {
				all[n] = true
			}
			for _, n := range r.KnownNetworkInstances() {
				if !all[drv.NICode(n)] {
					partial = true
				}
			}
		}
		nh, nhg, _, _, dangling := installedSets(r)
		if !partial && len(dangling) > 0 {
			problem = fmt.Sprintf("step %d: installed entry dangles: %s", i, strings.Join(dangling, "; "))
			return
		}
		if c.NoFwd && len(o.Pend) > 0 {
			problem = fmt.Sprintf("step %d: forward references disabled but operations %v are held", i, o.Pend)
			return
		}
		c2, _ := r.RIBContents()
		for _, id := range o.Pend {
			op := ops[id]
			resolvable := false
			switch op.T {
			case "nhg":
				resolvable = len(op.NHs) > 0
				for _, m := range op.NHs {
					if !nh[niKey{op.NI, m[0]}] {
						resolvable = false
					}
				}
			case "v4", "v6", "mpls":
				t := op.NI
				if op.NHGN != 0 {
					t = op.NHGN
				}
				resolvable = nhg[niKey{t, op.NHG}]
			}
			if resolvable && op.Kind == "REPLACE" {
				// an explicit REPLACE of a key that is gone cannot be programmed: it is answered FAILED
				// at the next walk, not a resolvable held operation
				a := c2[drv.NINames[op.NI]].GetAfts()
				exists := false
				switch op.T {
				case "v4":
					_, exists = a.Ipv4Entry[drv.V4Keys[op.Key]]
				case "v6":
					_, exists = a.Ipv6Entry[drv.V6Keys[op.Key]]
				case "mpls":
					for l := range a.LabelEntry {
						if fmt.Sprint(l) == fmt.Sprint(op.Key) {
							exists = true
						}
					}
				case "nhg":
					_, exists = a.NextHopGroup[op.Key]
				}
				resolvable = exists
			}
			if resolvable {
				problem = fmt.Sprintf("step %d: operation %d is still held although everything it references is installed", i, id)
				return
			}
		}
	})
	return problem
}

// oracleC03: counters == recount of referrers after every step; at the end, DELETE of every group and
// next-hop (each probe on its own replay of the history) fails exactly when it is installed and referenced.
// refcountProblem: every reference counter equals the number of installed referrers, and vice versa.
func refcountProblem(r *rib.RIB) string {
	_, _, grpRefs, nhRefs, _ := installedSets(r)
	rc := r.VerifRefCounts()
	for name, cs := range rc {
		n := drv.NICode(name)
		for id, v := range cs.NextHopGroup {
			if uint64(grpRefs[niKey{n, id}]) != v {
				return fmt.Sprintf("counter of group %d in %s is %d but %d installed entries reference it", id, name, v, grpRefs[niKey{n, id}])
			}
		}
		for idx, v := range cs.NextHop {
			if uint64(nhRefs[niKey{n, idx}]) != v {
				return fmt.Sprintf("counter of next-hop %d in %s is %d but %d installed groups contain it", idx, name, v, nhRefs[niKey{n, idx}])
			}
		}
	}
	for k, v := range grpRefs {
		if rc[drv.NINames[k.ni]].NextHopGroup[k.id] != uint64(v) {
			return fmt.Sprintf("group %d in %s has %d referrers but counter %d", k.id, drv.NINames[k.ni], v, rc[drv.NINames[k.ni]].NextHopGroup[k.id])
		}
	}
	for k, v := range nhRefs {
		if rc[drv.NINames[k.ni]].NextHop[k.id] != uint64(v) {
			return fmt.Sprintf("next-hop %d in %s is in %d groups but counter %d", k.id, drv.NINames[k.ni], v, rc[drv.NINames[k.ni]].NextHop[k.id])
		}
	}
	return ""
}

func oracleC03(c RCase) string {
	problem := ""
	_, last := ribRun(c, func(i int, st RStep, o StepObs, r *rib.RIB) {
		if problem != "" {
			return
		}
		if o.Panic != "" {
			problem = fmt.Sprintf("step %d: panic %s", i, o.Panic)
			return
		}
		if p := refcountProblem(r); p != "" {
			problem = fmt.Sprintf("step %d: %s", i, p)
		}
	})
	if problem != "" {
		return problem
	}
	for _, name := range last.KnownNetworkInstances() {
		n := drv.NICode(name)
		for id := uint64(1); id <= 3; id++ {
			for _, t := range []string{"nhg", "nh"} {
				probe := &drv.OpSpec{ID: 1 << 40, NI: n, Kind: "DELETE", T: t, Key: id}
				pc := RCase{NoFwd: c.NoFwd, Steps: append(append([]RStep{}, c.Steps...), RStep{K: "del", Op: probe})}
				// what is installed is read in the same run, just before the probe: the order in which several held
				// operations that became resolvable together are applied may differ from run to run
				var nh, nhg map[niKey]bool
				var grpRefs, nhRefs map[niKey]int
				obs, _ := ribRun(pc, func(i int, st RStep, o StepObs, r *rib.RIB) {
					if i == len(c.Steps)-1 {
						nh, nhg, grpRefs, nhRefs, _ = installedSets(r)
					}
				})
				if nh == nil {
					continue
				}
				o := obs[len(obs)-1]
				failed := len(o.Fails) == 1 && len(o.Oks) == 0
				okd := len(o.Oks) == 1 && len(o.Fails) == 0
				var want bool
				if t == "nhg" {
					want = nhg[niKey{n, id}] && grpRefs[niKey{n, id}] > 0
				} else {
					want = nh[niKey{n, id}] && nhRefs[niKey{n, id}] > 0
				}
				if failed != want || okd == want {
					return fmt.Sprintf("after the history: DELETE %s %d in %s answered failed=%v ok=%v, but installed-and-referenced=%v", t, id, name, failed, okd, want)
				}
			}
		}
	}
	return ""
}

// ---------------------------------------------------------------------------- command

func runRib(prop string, args []string) error {
	f := drv.NewFlags(prop)
	if err := f.Parse(args); err != nil {
		return err
	}
	r := drv.NewRng(*f.Seed)
	var cases []RCase
	if *f.Replay != "" {
		if err := drv.ReadJSON(*f.Replay, &cases); err != nil {
			return err
		}
	} else {
		for i := 0; i < *f.N; i++ {
			cases = append(cases, genRCase(r, prop))
		}
	}
	rules := map[string]string{
		"C01": "random RIB histories (ADD/REPLACE/DELETE over 5 entry kinds, 3 network instances, key reuse, payload changes, cross-instance references, flushes, both forward-reference modes); non-trivial = at least one REPLACE or DELETE acknowledged and at least one operation resolved by a cascade; distinct by canonical history text",
		"C02": "arrival-order permutations of random dependency DAGs plus random histories; non-trivial = some operation was held and later acknowledged by a cascade; distinct by canonical history text",
		"C03": "random histories, half of them retarget histories (entries pointed from group to group within and across network instances by implicit/explicit replace, interleaved with deletes, re-adds, flushes); non-trivial = some reference counter changed by a replace that moved a reference or by a flush, and some delete was refused; distinct by canonical history text",
	}
	rep := drv.Report{Property: prop, Seed: *f.Seed, Shard: drv.ShardSize, Stats: map[string]int{}, Cases: len(cases), Rule: rules[prop]}
	var coq []string
	distinct := map[string]bool{}
	for i, c := range cases {
		obs, rr := ribRun(c, nil)
		var p string
		switch prop {
		case "C01":
			p = oracleC01(c)
		case "C02":
			p = oracleC02(c)
		case "C03":
			p = oracleC03(c)
		}
		if p != "" {
			rep.Violations = append(rep.Violations, drv.Verdict{Case: i, Problem: p})
		}
		hs, os := []string{}, []string{}
		cascade, held, ackRD, refused := false, false, false, false
		kinds := map[uint64]string{}
		for j, st := range c.Steps {
			hs = append(hs, st.coq(obs[j]))
			os = append(os, obs[j].coq())
			rep.Stats["step_"+st.K]++
			if st.Op != nil {
				rep.Stats["op_"+st.Op.Kind+"_"+st.Op.T]++
				kinds[st.Op.ID] = st.Op.Kind
			}
			if len(obs[j].Oks) > 1 {
				cascade = true
				rep.Stats["cascades"]++
			}
			if len(obs[j].Pend) > 0 {
				held = true
			}
			for _, id := range obs[j].Oks {
				if kinds[id] != "ADD" {
					ackRD = true
				}
			}
			if st.K == "del" && len(obs[j].Fails) > 0 {
				refused = true
				rep.Stats["deletes_refused"]++
			}
			rep.Stats["oks"] += len(obs[j].Oks)
			rep.Stats["fails"] += len(obs[j].Fails)
			if obs[j].Fatal {
				rep.Stats["fatal"]++
			}
			if obs[j].Panic != "" {
				rep.Stats["panic"]++
			}
		}
		nt := false
		switch prop {
		case "C01":
			nt = cascade && ackRD
		case "C02":
			nt = cascade && held
		case "C03":
			nt = refused && ackRD
		}
		if nt {
			distinct[strings.Join(hs, ";")] = true
		}
		cont, _ := rr.RIBContents()
		final := drv.CanonCoq(drv.Canon(cont), rr.VerifRefCounts())
		coq = append(coq, fmt.Sprintf("mk_rcase %v\n %s\n %s\n %s", c.NoFwd, drv.CoqList(hs), drv.CoqList(os), final))
		if i < 2 {
			txt := []string{}
			for j, st := range c.Steps {
				txt = append(txt, fmt.Sprintf("%s => oks=%v fails=%v fatal=%v held=%v", st.coq(obs[j]), obs[j].Oks, obs[j].Fails, obs[j].Fatal, obs[j].Pend))
			}
			rep.Samples = append(rep.Samples, txt)
		}
	}
	rep.Nontrivial = len(distinct)
	if err := drv.WriteJSON(*f.Out+"/cases.json", cases); err != nil {
		return err
	}
	if err := drv.WriteCasesV(*f.Out, "From Coq Require Import List NArith Bool.\nFrom GV.Base Require Import Op.\nFrom GV.Rib Require Import Model Run.\nImport ListNotations.\nOpen Scope N_scope.", "rcase", "rmismatches", coq); err != nil {
		return err
	}
	return drv.WriteJSON(*f.Out+"/impl.json", rep)
}
