// vh is the correspondence / oracle harness: it drives the real gribigo packages and writes
//   <out>/cases.json   the generated cases (replayable inputs)
//   <out>/cases_<k>.v  the same cases with the implementation's observables, as Gallina terms
//   <out>/impl.json    oracle verdicts and input statistics
package main

import "verifharness/drv"

var cmds = map[string]drv.Cmd{}

func main() { drv.Main(cmds) }
