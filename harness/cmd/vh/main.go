// vh is the correspondence / oracle harness: it drives the real gribigo packages and writes
//   <out>/cases.json   the generated cases (replayable inputs)
//   <out>/cases.v      the same cases with the implementation's observables, as Gallina terms
//   <out>/impl.json    oracle verdicts and input statistics
package main

import (
	"flag"
	"fmt"
	"os"
	"sort"

	"github.com/golang/glog"
)

// Verdict is what the model-free oracle says about one case.
type Verdict struct {
	Case    int    `json:"case"`
	Problem string `json:"problem"`
}

// Report is impl.json.
type Report struct {
	Property   string         `json:"property"`
	Seed       int64          `json:"seed"`
	Cases      int            `json:"cases"`
	Nontrivial int            `json:"distinct_nontrivial"`
	Rule       string         `json:"rule"`
	Stats      map[string]int `json:"stats"`
	Violations []Verdict      `json:"violations"`
	Hangs      []Verdict      `json:"hangs"`
	Samples    []any          `json:"samples"`
	Shard      int            `json:"shard"`
}

type cmd func(args []string) error

var cmds = map[string]cmd{}

func main() {
	if len(os.Args) < 2 {
		names := []string{}
		for n := range cmds {
			names = append(names, n)
		}
		sort.Strings(names)
		fmt.Fprintln(os.Stderr, "usage: vh <", names, "> [flags]")
		os.Exit(2)
	}
	c, ok := cmds[os.Args[1]]
	if !ok {
		fmt.Fprintln(os.Stderr, "unknown command", os.Args[1])
		os.Exit(2)
	}
	// glog: keep its files out of /tmp
	flag.CommandLine.Parse([]string{})
	if err := c(os.Args[2:]); err != nil {
		fmt.Fprintln(os.Stderr, "vh:", err)
		glog.Flush()
		os.Exit(3)
	}
	glog.Flush()
}
