package main

import (
	"fmt"
	"sort"

	"verifharness/drv"

	aftpb "github.com/openconfig/gribi/v1/proto/gribi_aft"
	spb "github.com/openconfig/gribi/v1/proto/service"
)

func init() {
	cmds["c05"] = runC05
	cmds["c05conc"] = drv.ElectConcCmd("c05conc", "C05")
}

// EStep is one step of an election script.
type EStep struct {
	K     string    `json:"k"` // connect params elect probe close abort
	S     int       `json:"s"`
	Red   int       `json:"red,omitempty"`
	Pers  int       `json:"pers,omitempty"`
	Ack   int       `json:"ack,omitempty"`
	ID    *drv.U128 `json:"id,omitempty"`    // elect: announced id; probe: stamp (nil = none)
	OpID  uint64    `json:"opid,omitempty"`
	// Unk (elect): the Uint128 message carries an unknown field (a client built from a newer schema); the id it
	// announces is the same
	Unk bool `json:"unk,omitempty"`
}

// ECase is an election script.
type ECase struct {
	Steps []EStep `json:"steps"`
}

func (s EStep) coq() string {
	switch s.K {
	case "connect":
		return fmt.Sprintf("uConnect %d", s.S)
	case "params":
		return fmt.Sprintf("uParams %d %d %d %d", s.S, s.Red, s.Pers, s.Ack)
	case "elect":
		return fmt.Sprintf("uElect %d %s", s.S, s.ID.Coq())
	case "probe":
		st := "None"
		if s.ID != nil {
			st = "(Some " + s.ID.Coq() + ")"
		}
		return fmt.Sprintf("uProbe %d %d %s", s.S, s.OpID, st)
	case "close":
		return fmt.Sprintf("uClose %d", s.S)
	case "abort":
		return fmt.Sprintf("uAbort %d", s.S)
	case "flush":
		return fmt.Sprintf("(* Flush with election id %s: not a step of the model *)", s.ID.Coq())
	}
	panic("bad step " + s.K)
}

func probeReq(opid uint64, stamp *drv.U128) *spb.ModifyRequest {
	op := &spb.AFTOperation{Id: opid, NetworkInstance: "DEFAULT", Op: spb.AFTOperation_ADD,
		Entry: &spb.AFTOperation_NextHop{NextHop: &aftpb.Afts_NextHopKey{Index: 1, NextHop: &aftpb.Afts_NextHop{}}}}
	if stamp != nil {
		op.ElectionId = stamp.Proto()
	}
	return &spb.ModifyRequest{Operation: []*spb.AFTOperation{op}}
}

// runEScript executes a script on a fresh server.
func runEScript(c ECase) ([]drv.ObsOut, error) {
	d, err := drv.NewServer()
	if err != nil {
		return nil, err
	}
	sess := map[int]*drv.Sess{}
	outs := []drv.ObsOut{}
	for _, st := range c.Steps {
		var o drv.ObsOut
		s := sess[st.S]
		var rs []*spb.ModifyResponse
		var err error
		switch st.K {
		case "connect":
			s, err = d.Connect()
			sess[st.S] = s
		case "params":
			rs, err = s.SendN(&spb.ModifyRequest{Params: &spb.SessionParameters{
				Redundancy: spb.SessionParameters_ClientRedundancy(st.Red), Persistence: spb.SessionParameters_AFTPersistence(st.Pers),
				AckType: spb.SessionParameters_AFTResultStatusType(st.Ack)}}, 1)
		case "elect":
			m := &spb.ModifyRequest{ElectionId: st.ID.Proto()}
			if st.Unk {
				m.ElectionId.ProtoReflect().SetUnknown([]byte{0x78, 0x01}) // field 15, varint 1
			}
			rs, err = s.SendN(m, 1)
		case "probe":
			rs, err = s.SendBarrier(probeReq(st.OpID, st.ID))
		case "flush":
			// a Flush carrying an election id is not an announcement: whatever it answers, the election state stays
			// (the model has no step for it: it is left out of the history given to Coq)
			d.DoFlush(drv.FlushSpec{Elec: "id", ID: st.ID, NI: "all"}.FlushReq())
			outs = append(outs, o)
			continue
		case "close":
			err = s.HalfClose()
		case "abort":
			err = s.Abort()
		}
		if err != nil {
			o.Hang = err.Error()
		}
		o.Resps = rs
		if s != nil && s.Ended != nil && (st.K != "connect") {
			// report the end of the RPC on the step that caused it
			if !endReported[s] {
				o.End = s.Ended
				endReported[s] = true
			}
		}
		outs = append(outs, o)
	}
	for _, s := range sess {
		if s != nil {
			s.Abort()
			delete(endReported, s)
		}
	}
	return outs, nil
}

var endReported = map[*drv.Sess]bool{}

func genID(r *drv.Rng) drv.U128 {
	switch r.Intn(10) {
	case 0:
		return drv.U128{} // zero: invalid
	case 1, 2:
		return drv.U128{Hi: r.Uint64(), Lo: r.Uint64()}
	}
	return drv.U128{Hi: drv.Pick(r, drv.BoundaryWords...), Lo: drv.Pick(r, drv.BoundaryWords...)}
}

func genECase(r *drv.Rng) ECase {
	var c ECase
	nsess := 1 + r.Intn(4)
	live := map[int]bool{}
	neg := map[int]bool{}
	last := map[int]*drv.U128{}
	next := 1
	opid := uint64(1)
	connect := func() {
		s := next
		next++
		c.Steps = append(c.Steps, EStep{K: "connect", S: s})
		live[s] = true
		if r.Chance(19, 20) {
			c.Steps = append(c.Steps, EStep{K: "params", S: s, Red: 1, Pers: 1, Ack: 0})
			neg[s] = true
		}
	}
	// sessions connect one after the other: a session that has connected but not yet
	// negotiated makes every other negotiation inconsistent (default params)
	connect()
	steps := 4 + r.Intn(14)
	for i := 0; i < steps; i++ {
		ls := []int{}
		for s := range live {
			ls = append(ls, s)
		}
		sort.Ints(ls)
		if len(ls) == 0 {
			connect()
			continue
		}
		s := ls[r.Intn(len(ls))]
		switch x := r.Intn(20); {
		case x < 11:
			id := genID(r)
			if len(last) > 0 && r.Chance(1, 3) {
				// relate the new id to an earlier one: equal, or differing in one word only
				ks := []int{}
				for k := range last {
					ks = append(ks, k)
				}
				sort.Ints(ks)
				b := *last[ks[r.Intn(len(ks))]]
				switch r.Intn(5) {
				case 0:
					id = b
				case 1:
					id = drv.U128{Hi: b.Hi + 1, Lo: 0}
				case 2:
					id = drv.U128{Hi: b.Hi, Lo: b.Lo + 1}
				case 3:
					id = drv.U128{Hi: b.Hi - 1, Lo: b.Lo + 5}
				case 4:
					id = drv.U128{Hi: b.Hi + 1, Lo: b.Lo - 1}
				}
			}
			c.Steps = append(c.Steps, EStep{K: "elect", S: s, ID: &id, Unk: r.Chance(1, 10)})
			if neg[s] && !id.IsZero() {
				idc := id
				last[s] = &idc
			} else {
				delete(live, s) // RPC ends
				delete(last, s)
			}
		case x < 16:
			// probe every live negotiated session that has announced, stamped with its own last id
			for _, p := range ls {
				if neg[p] && last[p] != nil {
					st := *last[p]
					c.Steps = append(c.Steps, EStep{K: "probe", S: p, ID: &st, OpID: opid})
					opid++
				}
			}
		case x < 17:
			if len(ls) < nsess {
				connect()
			}
		case x < 18:
			// a Flush with an election id (higher than, equal to or lower than anything announced)
			id := genID(r)
			if len(last) > 0 {
				ks := []int{}
				for k := range last {
					ks = append(ks, k)
				}
				sort.Ints(ks)
				b := last[ks[r.Intn(len(ks))]]
				id = drv.Pick(r, drv.U128{Hi: b.Hi + 1, Lo: b.Lo}, drv.U128{Hi: b.Hi, Lo: b.Lo + 3}, *b, id)
			}
			if !id.IsZero() {
				c.Steps = append(c.Steps, EStep{K: "flush", ID: &id})
			}
		case x < 19:
			c.Steps = append(c.Steps, EStep{K: "close", S: s})
			delete(live, s)
			delete(last, s)
		default:
			c.Steps = append(c.Steps, EStep{K: "abort", S: s})
			delete(live, s)
			delete(last, s)
		}
	}
	// final probes
	ls := []int{}
	for s := range live {
		ls = append(ls, s)
	}
	sort.Ints(ls)
	for _, p := range ls {
		if neg[p] && last[p] != nil {
			st := *last[p]
			c.Steps = append(c.Steps, EStep{K: "probe", S: p, ID: &st, OpID: opid})
			opid++
		}
	}
	return c
}

// latticeCases: every ordered pair of boundary ids announced by two sessions, then both probed.
func latticeCases() []ECase {
	var out []ECase
	ws := drv.BoundaryWords
	for _, ah := range ws {
		for _, al := range ws {
			for _, bh := range ws {
				for _, bl := range ws {
					a, b := drv.U128{Hi: ah, Lo: al}, drv.U128{Hi: bh, Lo: bl}
					if a.IsZero() || b.IsZero() {
						continue
					}
					a1, b1, a2, b2 := a, b, a, b
					out = append(out, ECase{Steps: []EStep{
						{K: "connect", S: 1}, {K: "params", S: 1, Red: 1, Pers: 1},
						{K: "connect", S: 2}, {K: "params", S: 2, Red: 1, Pers: 1},
						{K: "elect", S: 1, ID: &a1}, {K: "elect", S: 2, ID: &b1},
						{K: "probe", S: 1, ID: &a2, OpID: 1}, {K: "probe", S: 2, ID: &b2, OpID: 2},
					}})
				}
			}
		}
	}
	return out
}

// tieCases: announcement orders in which the same id is repeated by the same or by another session (a tie goes
// to the most recent announcer), every session probed after every announcement.
var unkSeq int

func tieCases() []ECase {
	var out []ECase
	ws := drv.BoundaryWords
	patterns := [][]int{{1, 2, 1}, {1, 2, 2, 1}, {1, 2, 1, 2}, {1, 1, 2, 1}, {1, 2, 3, 1}, {1, 2, 3, 2, 1}, {2, 1, 2}, {1, 2, -1, 1}, {1, 2, 1, -2, 2}}
	for _, h := range []uint64{ws[0], ws[1], ws[len(ws)-1]} {
		for _, l := range []uint64{ws[1], ws[2], ws[len(ws)-1]} {
			x := drv.U128{Hi: h, Lo: l}
			lower := drv.U128{Hi: h, Lo: l - 1}
			for _, pat := range patterns {
				unkSeq++
				c := ECase{}
				for s := 1; s <= 3; s++ {
					c.Steps = append(c.Steps, EStep{K: "connect", S: s}, EStep{K: "params", S: s, Red: 1, Pers: 1})
				}
				last := map[int]drv.U128{}
				opid := uint64(1)
				for _, who := range pat {
					id := x
					if who < 0 { // a lower id in between changes nothing
						who, id = -who, lower
						if id.IsZero() {
							id = x
						}
					}
					idc := id
					c.Steps = append(c.Steps, EStep{K: "elect", S: who, ID: &idc, Unk: unkSeq%3 == 0 && who == 2})
					last[who] = id
					for s := 1; s <= 3; s++ {
						if l, ok := last[s]; ok {
							lc := l
							c.Steps = append(c.Steps, EStep{K: "probe", S: s, ID: &lc, OpID: opid})
							opid++
						}
					}
				}
				out = append(out, c)
			}
		}
	}
	return out
}

// oracleC05 evaluates the property's own predicate on what the server did (no model involved).
func oracleC05(c ECase, outs []drv.ObsOut) string {
	var max *drv.U128
	primary := 0
	last := map[int]*drv.U128{}
	negotiated, gone := map[int]bool{}, map[int]bool{}
	for i, st := range c.Steps {
		o := outs[i]
		if o.Hang != "" {
			return fmt.Sprintf("step %d: %s", i, o.Hang)
		}
		wasGone := gone[st.S]
		if o.End != nil || st.K == "close" || st.K == "abort" {
			gone[st.S] = true
		}
		switch st.K {
		case "connect":
			negotiated[st.S], gone[st.S] = false, o.End != nil
		case "params":
			if len(o.Resps) == 1 && o.Resps[0].GetSessionParamsResult() != nil && o.End == nil && st.Red == 1 {
				negotiated[st.S] = true
			}
		case "elect":
			if len(o.Resps) != 1 || o.Resps[0].GetElectionId() == nil {
				// every non-zero id is a valid id: on a live SINGLE_PRIMARY session it is answered with the election id
				if negotiated[st.S] && !wasGone && st.ID != nil && !st.ID.IsZero() {
					return fmt.Sprintf("step %d: session %d announced the valid id (%d,%d) and got no election response (end of RPC: %+v)", i, st.S, st.ID.Hi, st.ID.Lo, o.End)
				}
				continue // rejected announcement (RPC ended)
			}
			id := *st.ID
			last[st.S] = &id
			if max == nil || !id.Less(*max) {
				primary = st.S
			}
			if max == nil || max.Less(id) {
				m := id
				max = &m
			}
			got := o.Resps[0].GetElectionId()
			if got.High != max.Hi || got.Low != max.Lo {
				return fmt.Sprintf("step %d: election response carries (%d,%d), running maximum is (%d,%d)", i, got.High, got.Low, max.Hi, max.Lo)
			}
		case "probe":
			if len(o.Resps) == 0 {
				continue
			}
			accepted := false
			for _, r := range o.Resps {
				for _, x := range r.GetResult() {
					if x.GetStatus() == spb.AFTResult_RIB_PROGRAMMED {
						accepted = true
					}
				}
			}
			want := st.S == primary && last[st.S] != nil && max != nil && *last[st.S] == *max && st.ID != nil && *st.ID == *max
			if accepted != want {
				return fmt.Sprintf("step %d: probe of session %d accepted=%v, but primary is session %d with id %v", i, st.S, accepted, primary, max)
			}
		}
	}
	return ""
}

func runC05(args []string) error {
	f := drv.NewFlags("c05")
	if err := f.Parse(args); err != nil {
		return err
	}
	r := drv.NewRng(*f.Seed)
	var cases []ECase
	if *f.Replay != "" {
		if err := drv.ReadJSON(*f.Replay, &cases); err != nil {
			return err
		}
	} else {
		cases = append(latticeCases(), tieCases()...)
		for i := 0; i < *f.N; i++ {
			cases = append(cases, genECase(r))
		}
	}
	rep := drv.Report{Property: "C05", Seed: *f.Seed, Shard: drv.ShardSize, Stats: map[string]int{}, Cases: len(cases),
		Rule: "election scripts: all ordered pairs over the 6x6 boundary lattice of (high,low) words, tie scripts (the same id repeated by the same / another / a third session in 9 orders x 9 ids, every session probed after every announcement) plus random multi-session scripts; non-trivial = at least two accepted announcements with different ids, distinct by the announced id sequence"}
	var coq []string
	distinct := map[string]bool{}
	for i, c := range cases {
		outs, err := runEScript(c)
		if err != nil {
			return err
		}
		if p := oracleC05(c, outs); p != "" {
			rep.Violations = append(rep.Violations, drv.Verdict{Case: i, Problem: p})
		}
		hs, os := []string{}, []string{}
		key := ""
		nann := 0
		ids := map[drv.U128]bool{}
		for j, st := range c.Steps {
			if st.K == "flush" {
				rep.Stats["step_flush"]++
				continue
			}
			hs = append(hs, st.coq())
			os = append(os, drv.OutCoq(outs[j]))
			rep.Stats["step_"+st.K]++
			if outs[j].End != nil {
				rep.Stats["rpc_end_"+outs[j].End.Code.String()]++
			}
			if st.K == "elect" && len(outs[j].Resps) == 1 {
				key += fmt.Sprintf("%d:%d.%d;", st.S, st.ID.Hi, st.ID.Lo)
				nann++
				ids[*st.ID] = true
			}
		}
		if nann >= 2 && len(ids) >= 2 {
			distinct[key] = true
		}
		coq = append(coq, fmt.Sprintf("(%s,\n  %s)", drv.CoqList(hs), drv.CoqList(os)))
		if i < 2 || i == len(cases)-1 {
			txt := []string{}
			for j, st := range c.Steps {
				txt = append(txt, st.coq()+" => "+drv.OutText(outs[j]))
			}
			rep.Samples = append(rep.Samples, txt)
		}
	}
	rep.Nontrivial = len(distinct)
	if err := drv.WriteJSON(*f.Out+"/cases.json", cases); err != nil {
		return err
	}
	if err := drv.WriteCasesV(*f.Out, "From Coq Require Import List NArith.\nFrom GV.Server Require Import Model Obs InstUnit.\nImport ListNotations.", "ucase", "umismatches", coq); err != nil {
		return err
	}
	return drv.WriteJSON(*f.Out+"/impl.json", rep)
}
