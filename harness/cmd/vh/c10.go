package main

import (
	"time"
	"fmt"
	"strings"

	"verifharness/drv"

	spb "github.com/openconfig/gribi/v1/proto/service"
)

func init() { cmds["c10"] = runC10 }

// C10 cases: a base Modify script is cut at a prefix by one of three termination modes (clean
// half-close, cancellation, transport failure), or a Get is abandoned after k responses; after each
// fault a probe session must be serviced; sequences of several faults.
type c10Case struct {
	drv.SCase
	// Faults are the indices (into Steps) of the fault steps; Probes the indices of probe steps.
	Faults []int `json:"faults"`
	Probes []int `json:"probes"`
}

var probeSeq uint64

const probeLen = 13

// probeSteps: a fresh session negotiates, wins, programs, reads, flushes, and programs an entry ahead of its group
// (a forward reference that must be acknowledged once the group arrives).  Clients number their operations from 1:
// the forward reference reuses the id of an operation the departed session left held (fwdID), if there is one.
func probeSteps(s int, k uint64, ack int, fwdID uint64) []drv.SStep {
	id := drv.U128{Hi: 1 << 40, Lo: k}
	idc, idf := id, id
	if fwdID == 0 {
		fwdID = 1<<49 + k
	}
	op := func(o drv.OpSpec) drv.SStep {
		e := id
		o.Elec = &e
		return drv.SStep{K: "ops", S: s, Ops: []drv.OpSpec{o}}
	}
	return []drv.SStep{
		{K: "connect", S: s},
		{K: "params", S: s, Red: 1, Pers: 1, Ack: ack},
		{K: "elect", S: s, ID: &idc},
		op(drv.OpSpec{ID: 1<<50 + k, NI: 1, Kind: "ADD", T: "nh", Key: 3}),
		{K: "get", Get: &drv.GetSpec{NI: "all", AFT: "ALL"}},
		{K: "flush", Flush: &drv.FlushSpec{Elec: "id", ID: &idf, NI: "name", Name: 3}},
		op(drv.OpSpec{ID: fwdID, NI: 1, Kind: "ADD", T: "v4", Key: 4, NHG: 9}), // held
		op(drv.OpSpec{ID: 1<<51 + 8*k, NI: 1, Kind: "ADD", T: "nh", Key: 9}),
		op(drv.OpSpec{ID: 1<<51 + 8*k + 1, NI: 1, Kind: "ADD", T: "nhg", Key: 9, NHs: [][2]uint64{{9, 1}}}), // resolves it
		op(drv.OpSpec{ID: 1<<51 + 8*k + 2, NI: 1, Kind: "DELETE", T: "v4", Key: 4}),
		op(drv.OpSpec{ID: 1<<51 + 8*k + 3, NI: 1, Kind: "DELETE", T: "nhg", Key: 9}),
		op(drv.OpSpec{ID: 1<<51 + 8*k + 4, NI: 1, Kind: "DELETE", T: "nh", Key: 9}),
		{K: "close", S: s},
	}
}

// baseScript: one session that negotiates, wins the election and programs a few entries (some held).
func baseScript(r *drv.Rng) []drv.SStep {
	id := drv.U128{Lo: uint64(2 + r.Intn(3))}
	st := []drv.SStep{{K: "connect", S: 1}, {K: "params", S: 1, Red: 1, Pers: 1, Ack: r.Intn(2)}, {K: "elect", S: 1, ID: &id}}
	opid := uint64(1)
	mk := func(o drv.OpSpec) {
		o.ID = opid
		opid++
		e := id
		o.Elec = &e
		st = append(st, drv.SStep{K: "ops", S: 1, Ops: []drv.OpSpec{o}})
	}
	n := 2 + r.Intn(3)
	for i := 1; i <= n; i++ {
		mk(drv.OpSpec{NI: 1, Kind: "ADD", T: "nh", Key: uint64(i)})
	}
	// several groups and entries per table, so that a Get can be abandoned inside every table's loop
	mk(drv.OpSpec{NI: 1, Kind: "ADD", T: "nhg", Key: 1, NHs: [][2]uint64{{1, 1}, {2, 1}}})
	mk(drv.OpSpec{NI: 1, Kind: "ADD", T: "nhg", Key: 3, NHs: [][2]uint64{{1, 1}}})
	mk(drv.OpSpec{NI: 1, Kind: "ADD", T: "nhg", Key: 4, NHs: [][2]uint64{{2, 2}}})
	mk(drv.OpSpec{NI: 1, Kind: "ADD", T: "v4", Key: 1, NHG: 1})
	mk(drv.OpSpec{NI: 1, Kind: "ADD", T: "v4", Key: 3, NHG: 3})
	mk(drv.OpSpec{NI: 2, Kind: "ADD", T: "v4", Key: 2, NHG: 1, NHGN: 1})
	mk(drv.OpSpec{NI: 1, Kind: "ADD", T: "v6", Key: 2, NHG: 4})
	mk(drv.OpSpec{NI: 1, Kind: "ADD", T: "v6", Key: 1, NHG: 3})
	mk(drv.OpSpec{NI: 1, Kind: "ADD", T: "mpls", Key: 200, NHG: 4})
	mk(drv.OpSpec{NI: 1, Kind: "ADD", T: "mpls", Key: 16, NHG: 1})
	mk(drv.OpSpec{NI: 1, Kind: "ADD", T: "mpls", Key: 1048575, NHG: 3})
	mk(drv.OpSpec{NI: 1, Kind: "ADD", T: "v4", Key: 2, NHG: 2}) // held: group 2 never arrives
	if r.Chance(1, 2) {
		id2 := drv.U128{Lo: id.Lo + 1}
		st = append(st, drv.SStep{K: "elect", S: 1, ID: &id2})
		id = id2
		mk(drv.OpSpec{NI: 1, Kind: "ADD", T: "mpls", Key: 100, NHG: 1})
	}
	return st
}

func genC10(r *drv.Rng, base []drv.SStep, cut int, mode string) c10Case {
	c := c10Case{SCase: drv.SCase{VRFs: []int{2, 3}}}
	c.Steps = append(c.Steps, base[:cut]...)
	heldID := uint64(0) // the id of the operation the base session leaves held, if the cut is behind it
	for _, st := range c.Steps {
		for _, o := range st.Ops {
			if o.T == "v4" && o.Key == 2 && o.NHG == 2 {
				heldID = o.ID
			}
		}
	}
	// every live session must use the same parameters; when no negotiated session is live, the next one takes the
	// other acknowledgement mode, so that anything a departed session left behind gets in its way
	liveAck := map[int]int{}
	if cut >= 2 {
		liveAck[1] = base[1].Ack
	}
	lastAck := base[1].Ack
	nextAck := func() int {
		for _, a := range liveAck {
			return a
		}
		lastAck = 1 - lastAck
		return lastAck
	}
	if (mode == "sendfail" || mode == "sendfailbatch" || mode == "abortsend") && cut < 2 {
		mode = "abort" // a transport failure is simulated on a response; an un-negotiated session has none coming
	}
	fault := func(mode string, s int) {
		c.Faults = append(c.Faults, len(c.Steps))
		if mode != "getcut" && mode != "getcutw" && mode != "getcutmany" {
			delete(liveAck, s)
		}
		switch mode {
		case "getcutmany":
			// one abandoned Get after the other (whatever an abandoned Get keeps - a lock, a slot, a goroutine that
			// still holds something - adds up), then the probe's Modify, Get and Flush
			for i, n := 0, 5+r.Intn(5); i < n; i++ {
				c.Steps = append(c.Steps, drv.SStep{K: "getcut", Cut: r.Intn(6), Stall: drv.Pick(r, 0, 0, 0, 10), Get: &drv.GetSpec{NI: drv.Pick(r, "all", "all", "name"), Name: 1, AFT: drv.Pick(r, "ALL", "ALL", "NH")}})
			}
		case "getcut":
			c.Steps = append(c.Steps, drv.SStep{K: "getcut", Cut: r.Intn(16), Stall: drv.Pick(r, 0, 0, 25), Get: &drv.GetSpec{NI: drv.Pick(r, "all", "name"), Name: 1, AFT: drv.Pick(r, "ALL", "ALL", "NHG", "IPV4", "NH")}})
		case "getcutw":
			// an abandoned Get while a write of the (live) base session is queued on the same instance
			var el *drv.U128
			for _, st := range c.Steps {
				if st.K == "elect" && st.S == 1 {
					e := *st.ID
					el = &e
				}
			}
			probeSeq++
			c.Steps = append(c.Steps, drv.SStep{K: "getcutw", S: 1, Cut: 1 + r.Intn(14), Stall: 30, Get: &drv.GetSpec{NI: "all", AFT: "ALL"},
				Ops: []drv.OpSpec{{ID: 1<<53 + probeSeq, NI: 1, Kind: "ADD", T: "nh", Key: 8, Elec: el}}})
		case "sendfailbatch":
			// the transport fails while a request of several operations is being answered
			k := 2 + r.Intn(4)
			ops := []drv.OpSpec{}
			var el *drv.U128
			for _, st := range c.Steps {
				if st.K == "elect" && st.S == s {
					e := *st.ID
					el = &e
				}
			}
			for j := 0; j < k; j++ {
				probeSeq++
				ops = append(ops, drv.OpSpec{ID: 1<<52 + probeSeq, NI: 1, Kind: drv.Pick(r, "ADD", "ADD", "DELETE"), T: "nh", Key: uint64(5 + r.Intn(3)), Elec: el})
			}
			c.Steps = append(c.Steps, drv.SStep{K: "sendfailbatch", S: s, Ops: ops, Cut: r.Intn(k)})
		default:
			c.Steps = append(c.Steps, drv.SStep{K: mode, S: s})
		}
	}
	probe := func() {
		probeSeq++
		c.Probes = append(c.Probes, len(c.Steps))
		c.Steps = append(c.Steps, probeSteps(100+len(c.Probes), probeSeq, nextAck(), heldID)...)
	}
	fault(mode, 1)
	probe()
	// sequences of further faults
	for i := 0; i < r.Intn(3); i++ {
		switch r.Intn(3) {
		case 0:
			fault("getcut", 0)
		default:
			// a second client that is cut off in the middle of its own negotiation / programming
			s := 10 + i
			c.Steps = append(c.Steps, drv.SStep{K: "connect", S: s})
			negotiated := false
			if r.Chance(2, 3) {
				negotiated = true
				a := nextAck()
				liveAck[s] = a
				c.Steps = append(c.Steps, drv.SStep{K: "params", S: s, Red: 1, Pers: 1, Ack: a})
				if r.Chance(1, 2) {
					probeSeq++
					id := drv.U128{Hi: 1 << 40, Lo: probeSeq}
					c.Steps = append(c.Steps, drv.SStep{K: "elect", S: s, ID: &id})
					if r.Chance(1, 2) {
						e := id
						c.Steps = append(c.Steps, drv.SStep{K: "ops", S: s, Ops: []drv.OpSpec{{ID: 1<<51 + probeSeq, NI: 2, Kind: "ADD", T: "nh", Key: 1, Elec: &e}}})
					}
				}
			}
			m := drv.Pick(r, "close", "abort", "sendfail", "sendfailbatch", "abortsend")
			if (m == "sendfail" || m == "sendfailbatch" || m == "abortsend") && !negotiated {
				m = "abort"
			}
			fault(m, s)
		}
		probe()
	}
	return c
}

func oracleC10(c c10Case, obs []drv.SObs, snaps []string) string {
	isFault := map[int]bool{}
	for _, f := range c.Faults {
		isFault[f] = true
	}
	for i, st := range c.Steps {
		if obs[i].Hang != "" {
			return fmt.Sprintf("step %d (%s): %s", i, st.K, obs[i].Hang)
		}
		if st.K == "getcutw" {
			// the queued write is a legitimate change; it must have been answered
			ok := false
			for _, rsp := range obs[i].Resps {
				for _, res := range rsp.GetResult() {
					if res.GetId() == st.Ops[0].ID && res.GetStatus() == spb.AFTResult_RIB_PROGRAMMED {
						ok = true
					}
				}
			}
			if !ok {
				return fmt.Sprintf("step %d: the write that was waiting for the instance while a Get was abandoned was not programmed: %s", i, obs[i].Text(st))
			}
			continue
		}
		if st.K == "sendfailbatch" {
			// the operations of the interrupted request were received before the client went away: they may apply
			if obs[i].End == nil || obs[i].End.Code.String() == "OK" {
				return fmt.Sprintf("step %d: the transport failed while a request was being answered but the RPC did not end with an error", i)
			}
			continue
		}
		if isFault[i] && snaps[i] != snaps[i+1] {
			return fmt.Sprintf("step %d: the client going away (%s) changed installed entries, held operations or the election state:\n--- before\n%s--- after\n%s", i, st.K, snaps[i], snaps[i+1])
		}
		if (st.K == "sendfail" || st.K == "abortsend") && obs[i].End != nil && obs[i].End.Code.String() == "OK" {
			return fmt.Sprintf("step %d: a response could not be written but the RPC ended OK", i)
		}
	}
	for _, p := range c.Probes {
		o := obs[p : p+probeLen]
		switch {
		case len(o[1].Resps) != 1 || o[1].Resps[0].GetSessionParamsResult() == nil:
			return fmt.Sprintf("probe at step %d: session parameters not accepted: %s", p, drv.OutText(drv.ObsOut{Resps: o[1].Resps, End: o[1].End}))
		case len(o[2].Resps) != 1 || o[2].Resps[0].GetElectionId() == nil || o[2].Resps[0].GetElectionId().High != c.Steps[p+2].ID.Hi || o[2].Resps[0].GetElectionId().Low != c.Steps[p+2].ID.Lo:
			return fmt.Sprintf("probe at step %d: did not win the election: %s", p, drv.OutText(drv.ObsOut{Resps: o[2].Resps, End: o[2].End}))
		case len(o[3].Resps) != 1 || len(o[3].Resps[0].GetResult()) == 0 || o[3].Resps[0].GetResult()[0].GetStatus() != spb.AFTResult_RIB_PROGRAMMED:
			return fmt.Sprintf("probe at step %d: operation not programmed: %s", p, drv.OutText(drv.ObsOut{Resps: o[3].Resps, End: o[3].End}))
		case !o[4].GetOK:
			return fmt.Sprintf("probe at step %d: Get failed: %s", p, o[4].GetErr)
		case o[5].FlushSt != "F_OK":
			return fmt.Sprintf("probe at step %d: Flush answered %s", p, o[5].FlushSt)
		default:
			want := c.Steps[p+6].Ops[0].ID
			seen := false
			for _, x := range o[6:9] {
				for _, r := range x.Resps {
					for _, res := range r.GetResult() {
						if res.GetId() == want && res.GetStatus() == spb.AFTResult_RIB_PROGRAMMED {
							seen = true
						}
					}
				}
			}
			if !seen {
				return fmt.Sprintf("probe at step %d: operation %d, sent ahead of its group, was not acknowledged once the group was programmed", p, want)
			}
		}
	}
	return ""
}

func runC10(args []string) error {
	f := drv.NewFlags("c10")
	workerFlag := f.FS.Bool("worker", false, "run the cases of -replay in this process")
	if err := f.Parse(args); err != nil {
		return err
	}
	r := drv.NewRng(*f.Seed)
	var cases []c10Case
	if *f.Replay != "" {
		if err := drv.ReadJSON(*f.Replay, &cases); err != nil {
			return err
		}
	} else {
		// every prefix of nbase scripts x the three termination modes, plus a Get cut after every k
		nbase := 1 + *f.N/40
		for b := 0; b < nbase; b++ {
			base := baseScript(r)
			for cut := 1; cut <= len(base); cut++ {
				for _, mode := range []string{"close", "abort", "sendfail", "abortsend"} {
					cases = append(cases, genC10(r, base, cut, mode))
				}
			}
			for k := 0; k < 4; k++ {
				c := genC10(r, base, len(base), "sendfailbatch")
				c.Steps[c.Faults[0]].Cut = k % len(c.Steps[c.Faults[0]].Ops)
				cases = append(cases, c)
			}
			for k := 0; k < 6; k++ {
				c := genC10(r, base, len(base), "getcutw")
				c.Steps[c.Faults[0]].Cut = 1 + 3*k
				cases = append(cases, c)
			}
			for k := 0; k < 2; k++ {
				cases = append(cases, genC10(r, base, len(base), "getcutmany"))
			}
			for k := 0; k < 18; k++ {
				for _, stall := range []int{0, 25} {
					c := genC10(r, base, len(base), "getcut")
					c.Steps[c.Faults[0]].Cut = k
					c.Steps[c.Faults[0]].Get = &drv.GetSpec{NI: "all", AFT: "ALL"}
					c.Steps[c.Faults[0]].Stall = stall
					cases = append(cases, c)
				}
			}
		}
	}
	worker := *workerFlag
	runOne := func(i int) drv.IsoResult {
		c := cases[i]
		res := drv.IsoResult{Stats: map[string]int{}}
		x, err := drv.NewSRun(c.SCase)
		if err != nil {
			res.Problem = err.Error()
			return res
		}
		obs := []drv.SObs{}
		snaps := []string{x.Snapshot()}
		trunc, truncFinal := -1, ""
		for j, st := range c.Steps {
			obs = append(obs, x.Step(st))
			if st.K == "sendfailbatch" && trunc < 0 {
				// the model is compared up to here, and then with each prefix of the interrupted request: how many of
				// its operations are applied before the server notices the failure depends on goroutine timing.
				// The state is read once it has settled.
				trunc = j
				for try := 0; try < 100; try++ {
					a := x.FinalCoq()
					time.Sleep(3 * time.Millisecond)
					truncFinal = x.FinalCoq()
					if a == truncFinal {
						break
					}
				}
			}
			snaps = append(snaps, x.Snapshot())
		}
		res.Problem = oracleC10(c, obs, snaps)
		hs, os := []string{}, []string{}
		programmed := 0
		for j, st := range c.Steps {
			if trunc < 0 || j < trunc {
				hs = append(hs, st.Coq(obs[j]))
				os = append(os, obs[j].Coq(st))
			}
			res.Stats["step_"+st.K]++
			if st.K == "ops" && len(c.Faults) > 0 && j < c.Faults[0] {
				programmed++
			}
			if st.K == "getcut" {
				res.Stats[fmt.Sprintf("getcut_k%02d_received%02d", st.Cut, len(obs[j].GetItems))]++
			}
			res.Text = append(res.Text, st.Coq(obs[j])+" => "+obs[j].Text(st))
		}
		res.NonTriv = programmed > 0
		res.Key = strings.Join(hs, ";") + fmt.Sprint(c.Faults)
		vr := []uint64{}
		for _, v := range c.VRFs {
			vr = append(vr, uint64(v))
		}
		final := truncFinal
		if trunc < 0 {
			final = x.FinalCoq()
		}
		alts := []string{}
		if trunc >= 0 {
			st := c.Steps[trunc]
			gone := drv.SStep{K: "abort", S: st.S}.Coq(drv.SObs{})
			// Cut responses were delivered, the next write fails: the operation whose response that was has been
			// carried out, and the one after it may have been (the reader hands each result to the writer before it
			// goes on); nothing behind that is carried out for a client that is gone
			lo, hi := st.Cut+1, st.Cut+2
			if hi > len(st.Ops) {
				hi = len(st.Ops)
			}
			for j := lo; j <= hi; j++ {
				alts = append(alts, drv.CoqList([]string{drv.SStep{K: "ops", S: st.S, Ops: st.Ops[:j]}.Coq(drv.SObs{}), gone}))
			}
			res.Stats["midbatch_cases"]++
		}
		res.Coq = fmt.Sprintf("mk_scase_alt (mk_scase %v %s\n %s\n %s\n (%s))\n %s", c.NoFwd, drv.CoqNs(vr), drv.CoqList(hs), drv.CoqList(os), final, drv.CoqList(alts))
		x.Finish()
		return res
	}
	if worker {
		// a server that wedges costs a watchdog period per wait: after five cases that hung the rest is skipped
		// (five replays are enough to report; the run stays within minutes)
		hung := 0
		return drv.IsoWorker(*f.Out, len(cases), func(i int) drv.IsoResult {
			if hung >= 5 {
				return drv.IsoResult{Stats: map[string]int{"skipped_after_five_hangs": 1}}
			}
			r := runOne(i)
			if strings.Contains(r.Problem, "HANG") {
				hung++
			}
			return r
		})
	}
	if err := drv.WriteJSON(*f.Out+"/cases.json", cases); err != nil {
		return err
	}
	results, err := drv.IsoParent("c10", *f.Out+"/cases.json", *f.Out, len(cases), func(i int) string {
		if len(cases[i].Faults) > 0 {
			return "fault " + cases[i].Steps[cases[i].Faults[0]].K
		}
		return "case"
	})
	if err != nil {
		return err
	}
	rep := drv.Report{Property: "C10", Seed: *f.Seed, Shard: drv.ShardSize, Stats: map[string]int{}, Cases: len(cases),
		Rule: "every prefix of base Modify scripts (negotiate, announce, program several entries per table incl. held operations, re-announce) cut by each of {half-close, cancellation, transport failure on a response, the connection dying while a response is being written (the read side fails first, the stuck write afterwards)}; the transport failing after each j of the k responses of a multi-operation request; a Get abandoned after each k responses (failing at once or after a stall; also while a write of the live primary is queued on the instance; also 5-9 abandoned Gets in a row); followed by a probe session (negotiate, win, ADD, Get, Flush) and by random sequences of 0-2 further faults each followed by a probe; every case in a worker process; non-trivial = the fault hit a session that had programmed or held at least one operation; distinct by (script, cut, mode) text"}
	var coq []string
	distinct := map[string]bool{}
	for i := range cases {
		r, ok := results[i]
		if !ok {
			r = drv.IsoResult{Problem: "no result recorded"}
		}
		if r.Problem != "" {
			v := drv.Verdict{Case: i, Problem: r.Problem}
			if strings.Contains(r.Problem, "HANG") {
				rep.Hangs = append(rep.Hangs, v)
			} else {
				rep.Violations = append(rep.Violations, v)
			}
		}
		for k, v := range r.Stats {
			rep.Stats[k] += v
		}
		if r.Coq != "" {
			coq = append(coq, r.Coq)
		} else {
			coq = append(coq, "mk_scase_alt (mk_scase false [] [] [] (mk_sfinal (state_obs (srib (srv_init false []))) [] None None)) []")
		}
		if r.NonTriv {
			distinct[r.Key] = true
		}
		if i < 2 {
			rep.Samples = append(rep.Samples, r.Text)
		}
	}
	rep.Nontrivial = len(distinct)
	req := "From Coq Require Import List NArith Bool.\nFrom GV.Base Require Import Op U128.\nFrom GV.Rib Require Import Model Run.\nFrom GV.Server Require Import Model Obs Inst.\nImport ListNotations.\nOpen Scope N_scope."
	if err := drv.WriteCasesV(*f.Out, req, "scase_alt", "samismatches", coq); err != nil {
		return err
	}
	return drv.WriteJSON(*f.Out+"/impl.json", rep)
}
