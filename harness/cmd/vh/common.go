package main

import (
	"flag"
	"fmt"
	"os"
	"path/filepath"
	"strings"
)

// stdFlags are shared by every sub-command.
type stdFlags struct {
	fs     *flag.FlagSet
	seed   *int64
	n      *int
	out    *string
	replay *string
	tier   *string
}

func newFlags(name string) *stdFlags {
	fs := flag.NewFlagSet(name, flag.ExitOnError)
	return &stdFlags{fs: fs,
		seed:   fs.Int64("seed", 1, "PRNG seed"),
		n:      fs.Int("n", 100, "number of generated cases"),
		out:    fs.String("out", "", "output directory"),
		replay: fs.String("replay", "", "cases.json to run instead of generating"),
		tier:   fs.String("tier", "quick", "quick|thorough"),
	}
}

func (f *stdFlags) parse(args []string) error {
	if err := f.fs.Parse(args); err != nil {
		return err
	}
	if *f.out == "" {
		return fmt.Errorf("-out is required")
	}
	if err := os.MkdirAll(*f.out, 0o755); err != nil {
		return err
	}
	// keep glog's files in the output directory (removed by the check), not in /tmp
	gl := filepath.Join(*f.out, "glog")
	os.MkdirAll(gl, 0o755)
	flag.Set("log_dir", gl)
	flag.Set("logtostderr", "false")
	flag.Set("alsologtostderr", "false")
	flag.Set("stderrthreshold", "FATAL")
	return nil
}

// ShardSize is the number of cases per cases_<k>.v file (evaluated in parallel by the check).
const ShardSize = 200

// writeCasesV writes the cases files evaluated by coqc, ShardSize cases per file.
func writeCasesV(dir, requires, caseType, mism string, cases []string) error {
	for k := 0; k*ShardSize < len(cases) || k == 0; k++ {
		lo, hi := k*ShardSize, (k+1)*ShardSize
		if hi > len(cases) {
			hi = len(cases)
		}
		var b strings.Builder
		b.WriteString("(* written by vh: the cases the implementation ran, with its observables *)\n")
		b.WriteString(requires + "\n")
		b.WriteString("Definition cases : list " + caseType + " := [\n")
		b.WriteString(strings.Join(cases[lo:hi], ";\n"))
		b.WriteString("\n].\n")
		b.WriteString("Definition M := Eval vm_compute in " + mism + " cases.\nPrint M.\n")
		if err := os.WriteFile(filepath.Join(dir, fmt.Sprintf("cases_%d.v", k)), []byte(b.String()), 0o644); err != nil {
			return err
		}
	}
	return nil
}
