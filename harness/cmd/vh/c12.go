package main

import (
	"bufio"
	"encoding/json"
	"fmt"
	"os"
	"os/exec"
	"path/filepath"
	"strings"
	"time"

	"verifharness/drv"

	spb "github.com/openconfig/gribi/v1/proto/service"
)

func init() { cmds["c12"] = runC12 }

// C12: a valid prefix (one primary session programs a small RIB, possibly with a held operation, a
// second session stays connected), then one request carrying malformed operations, then a valid
// request on the same session (if it survived) and one on the second session.  Cases run in worker
// processes so that a crash is attributed to its input.
type c12Case struct {
	drv.SCase
	Bad   int    `json:"bad"`   // index of the step that carries the malformed operations
	Class string `json:"class"` // what is wrong with it
}

type c12Result struct {
	Case    int    `json:"case"`
	Phase   string `json:"phase"` // start | done
	Problem string `json:"problem,omitempty"`
	Coq     string `json:"coq,omitempty"`
	Text    []string `json:"text,omitempty"`
	Stats   map[string]int `json:"stats,omitempty"`
	Key     string `json:"key,omitempty"`
}

var c12Classes = []string{"nil-payload", "zero-index", "zero-id", "empty-group", "zero-member", "zero-member-missing", "unset-group", "bad-prefix", "bad-label",
	"label-ge-2^32", "empty-ni", "unknown-ni", "invalid-utf8-ni", "unknown-group-ni", "other-op-type", "undefined-enum", "undefined-enum-in-list", "no-entry",
	"delete-bad-prefix", "delete-bad-label", "delete-zero-id", "delete-zero-index", "delete-no-entry", "duplicate-members", "boundary-ints",
	"replace-missing", "invalid-utf8-leaf", "empty-group-with-backup", "empty-group-with-backup-replace", "get-empty-name", "get-unknown-ni", "get-bad-aft", "flush-no-ni", "flush-unknown-ni", "flush-empty-name"}

var badListSeq int

func malformedOp(r *drv.Rng, class string, id uint64, el *drv.U128) (drv.OpSpec, *drv.SStep) {
	o := drv.OpSpec{ID: id, NI: 1, Kind: "ADD", Elec: el}
	top := func() {
		o.T = drv.Pick(r, "v4", "v6", "mpls")
		o.NHG = 1
		switch o.T {
		case "v4":
			o.Key = uint64(1 + r.Intn(3))
		case "v6":
			o.Key = uint64(1 + r.Intn(2))
		default:
			o.Key = 200
		}
	}
	switch class {
	case "nil-payload":
		top()
		if r.Chance(1, 2) {
			o.T = drv.Pick(r, "nh", "nhg")
			o.Key = 2
		}
		o.Nil = true
		o.NHG = 0
	case "zero-index":
		o.T, o.Key = "nh", 0
	case "zero-id":
		o.T, o.Key, o.NHs = "nhg", 0, [][2]uint64{{1, 1}}
	case "empty-group":
		o.T, o.Key = "nhg", 2
	case "empty-group-with-backup": // no next-hop at all; the backup (installed or not) does not make it a group
		o.T, o.Key, o.Bk = "nhg", 2, drv.Pick(r, uint64(1), 9)
	case "empty-group-with-backup-replace": // the same as a REPLACE of the installed, referenced group
		o.Kind, o.T, o.Key, o.Bk = drv.Pick(r, "REPLACE", "ADD"), "nhg", 1, drv.Pick(r, uint64(1), 9)
	case "zero-member":
		o.T, o.Key, o.NHs = "nhg", 2, [][2]uint64{{0, 1}, {1, 1}}
	case "zero-member-missing": // index zero beside members that are not installed (yet)
		o.T, o.Key, o.NHs = "nhg", 2, [][2]uint64{{0, 1}, {5, 1}, {6, 1}, {7, 1}}
	case "unset-group":
		top()
		o.NHG = 0
	case "bad-prefix":
		o.T = drv.Pick(r, "v4", "v6")
		o.NHG = 1
		if o.T == "v4" {
			o.Key = uint64(11 + r.Intn(7))
		} else {
			o.Key = uint64(11 + r.Intn(4))
		}
	case "bad-label":
		o.T, o.NHG, o.Key = "mpls", 1, drv.Pick(r, uint64(0), 15, 1048576)
	case "label-ge-2^32":
		badListSeq++
		o.T, o.NHG, o.Key = "mpls", 1, []uint64{1<<32 + 100, 1<<32 + 16, 1 << 63, 5<<32 + 100}[badListSeq%4]
	case "empty-ni":
		top()
		o.NI = 0
	case "unknown-ni":
		top()
		o.NI = 4
	case "invalid-utf8-ni":
		top()
		o.NI = 4
		o.RawNI = "VRF-\xff\xfe"
	case "unknown-group-ni":
		top()
		o.NHGN = 4
	case "other-op-type":
		top()
		o.Kind = "OTHER"
	case "undefined-enum":
		o.T = drv.Pick(r, "nh", "v4", "v6")
		o.Key, o.NHG, o.Bad = 2, 1, true
	case "undefined-enum-in-list":
		badListSeq++
		o.T, o.Key, o.BadList = "nh", 2, 1+badListSeq%5 // every position in turn
	case "invalid-utf8-leaf": // reachable by an in-process caller; the wire codec refuses such a message
		o.T, o.Key, o.BadList = "nh", 2, 6
	case "no-entry":
		o.T = "none"
	case "delete-bad-prefix":
		// every kind of bad key in turn, in both tables: syntax errors and well-formed prefixes of the other family
		badListSeq++
		if badListSeq%3 == 0 {
			o.Kind, o.T, o.Key = "DELETE", "v6", []uint64{11, 12, 13, 14}[(badListSeq/3)%4]
		} else {
			o.Kind, o.T, o.Key = "DELETE", "v4", []uint64{11, 12, 13, 14, 15, 16, 17}[badListSeq%7]
		}
	case "delete-bad-label":
		// every kind of bad label in turn: reserved, too large, and above 2^32 with a low half that is a valid (installed) label
		badListSeq++
		o.Kind, o.T, o.Key = "DELETE", "mpls", []uint64{5, 1048576, 1<<32 + 100, 7<<32 + 100, 1<<63 + 100}[badListSeq%5]
	case "delete-zero-id":
		o.Kind, o.T, o.Key = "DELETE", "nhg", 0
	case "delete-zero-index":
		o.Kind, o.T, o.Key = "DELETE", "nh", 0
	case "delete-no-entry":
		o.Kind, o.T = "DELETE", "none"
	case "duplicate-members": // valid, but must not corrupt the counters
		o.T, o.Key, o.NHs = "nhg", 2, [][2]uint64{{1, 2}, {1, 2}, {2, 1}}
	case "boundary-ints":
		o.T, o.Key = "nh", 1<<64-1
		o.ID = 1<<63 + id
	case "replace-missing":
		top()
		o.Kind = "REPLACE"
		o.Key = 3
		if o.T == "v6" {
			o.Key = 2
		}
	case "get-empty-name":
		return o, &drv.SStep{K: "get", Get: &drv.GetSpec{NI: "name", Name: 0, AFT: "ALL"}}
	case "get-unknown-ni":
		return o, &drv.SStep{K: "get", Get: &drv.GetSpec{NI: "name", Name: 4, AFT: "IPV4"}}
	case "get-bad-aft":
		return o, &drv.SStep{K: "get", Get: &drv.GetSpec{NI: "all", AFT: "OTHER"}}
	case "flush-no-ni":
		return o, &drv.SStep{K: "flush", Flush: &drv.FlushSpec{Elec: "override", NI: "none"}}
	case "flush-empty-name":
		return o, &drv.SStep{K: "flush", Flush: &drv.FlushSpec{Elec: "override", NI: "name", Name: 0}}
	case "flush-unknown-ni":
		return o, &drv.SStep{K: "flush", Flush: &drv.FlushSpec{Elec: "override", NI: "name", Name: 4}}
	}
	return o, nil
}

func genC12(r *drv.Rng, class string) c12Case {
	c := c12Case{SCase: drv.SCase{VRFs: []int{2, 3}, NoFwd: r.Chance(1, 6)}, Class: class}
	id := drv.U128{Lo: uint64(1 + r.Intn(3))}
	c.Steps = []drv.SStep{{K: "connect", S: 1}, {K: "params", S: 1, Red: 1, Pers: 1, Ack: 0}, {K: "elect", S: 1, ID: &id},
		{K: "connect", S: 2}, {K: "params", S: 2, Red: 1, Pers: 1, Ack: 0}}
	opid := uint64(0)
	mk := func(o drv.OpSpec) {
		opid++
		o.ID = opid
		e := id
		o.Elec = &e
		c.Steps = append(c.Steps, drv.SStep{K: "ops", S: 1, Ops: []drv.OpSpec{o}})
	}
	mk(drv.OpSpec{NI: 1, Kind: "ADD", T: "nh", Key: 1})
	mk(drv.OpSpec{NI: 1, Kind: "ADD", T: "nh", Key: 2})
	mk(drv.OpSpec{NI: 1, Kind: "ADD", T: "nhg", Key: 1, NHs: [][2]uint64{{1, 1}}})
	mk(drv.OpSpec{NI: 1, Kind: "ADD", T: "v4", Key: 1, NHG: 1})
	if r.Chance(1, 2) {
		mk(drv.OpSpec{NI: 1, Kind: "ADD", T: "mpls", Key: 100, NHG: 1})
	}
	if r.Chance(1, 2) && !c.NoFwd {
		mk(drv.OpSpec{NI: 2, Kind: "ADD", T: "v4", Key: 2, NHG: 3}) // held
	}
	e := id
	opid++
	bad, other := malformedOp(r, class, opid, &e)
	c.Bad = len(c.Steps)
	if other != nil {
		c.Steps = append(c.Steps, *other)
	} else {
		ops := []drv.OpSpec{bad}
		if r.Chance(1, 3) { // the malformed operation in the middle of a batch of valid ones
			opid++
			e2 := id
			ops = append([]drv.OpSpec{{ID: opid, NI: 1, Kind: "ADD", T: "nh", Key: 3, Elec: &e2}}, ops...)
			opid++
			ops = append(ops, drv.OpSpec{ID: opid, NI: 1, Kind: "DELETE", T: "v6", Key: 2, Elec: &e2})
		}
		c.Steps = append(c.Steps, drv.SStep{K: "ops", S: 1, Ops: ops})
	}
	// the session (if it survived) and the other session are still served
	opid++
	e3 := id
	c.Steps = append(c.Steps, drv.SStep{K: "ops", S: 1, Ops: []drv.OpSpec{{ID: opid, NI: 1, Kind: "ADD", T: "nh", Key: 3, Elec: &e3}}})
	id2 := drv.U128{Lo: id.Lo + 1}
	c.Steps = append(c.Steps, drv.SStep{K: "elect", S: 2, ID: &id2})
	opid++
	e4 := id2
	c.Steps = append(c.Steps, drv.SStep{K: "ops", S: 2, Ops: []drv.OpSpec{{ID: opid, NI: 1, Kind: "ADD", T: "nh", Key: 3, Elec: &e4}}})
	c.Steps = append(c.Steps, drv.SStep{K: "get", Get: &drv.GetSpec{NI: "all", AFT: "ALL"}})
	return c
}

// validIn: operations of the malformed request that are themselves valid (they may change state).
func isMalformedClass(class string) bool {
	return class != "duplicate-members" && class != "boundary-ints"
}

func runC12Case(i int, c c12Case) c12Result {
	res := c12Result{Case: i, Phase: "done", Stats: map[string]int{}}
	x, err := drv.NewSRun(c.SCase)
	if err != nil {
		res.Problem = err.Error()
		return res
	}
	obs := []drv.SObs{}
	snaps := []string{x.Snapshot()}
	for _, st := range c.Steps {
		obs = append(obs, x.Step(st))
		snaps = append(snaps, x.Snapshot())
	}
	hs, os := []string{}, []string{}
	for j, st := range c.Steps {
		hs = append(hs, st.Coq(obs[j]))
		os = append(os, obs[j].Coq(st))
		res.Text = append(res.Text, st.Coq(obs[j])+" => "+obs[j].Text(st))
		if obs[j].Hang != "" && res.Problem == "" {
			res.Problem = fmt.Sprintf("step %d (%s): %s", j, st.K, obs[j].Hang)
		}
	}
	bst := c.Steps[c.Bad]
	bo := obs[c.Bad]
	res.Stats["class_"+c.Class]++
	if res.Problem == "" && bst.K == "ops" {
		single := len(bst.Ops) == 1
		if bo.End != nil {
			res.Stats["outcome_rpc_end_"+bo.End.Code.String()]++
		}
		// find the malformed op's own result
		var mal drv.OpSpec
		for _, o := range bst.Ops {
			if o.T == "none" || o.Nil || o.Bad || o.Kind == "OTHER" || o.NI == 0 || o.NI == 4 || o.Key == 0 || len(bst.Ops) == 1 {
				mal = o
			}
		}
		if len(bst.Ops) == 3 {
			mal = bst.Ops[1]
		}
		if isMalformedClass(c.Class) {
			answered := ""
			for _, r := range bo.Resps {
				for _, rr := range r.GetResult() {
					if rr.GetId() == mal.ID {
						answered = rr.GetStatus().String()
					}
				}
			}
			switch {
			case answered == "FAILED":
				res.Stats["outcome_FAILED"]++
			case answered != "":
				res.Problem = fmt.Sprintf("malformed operation (%s) answered %s", c.Class, answered)
			case bo.End == nil:
				res.Problem = fmt.Sprintf("malformed operation (%s) neither answered nor ending the RPC", c.Class)
			}
			if res.Problem == "" && single && snaps[c.Bad] != snaps[c.Bad+1] {
				res.Problem = fmt.Sprintf("malformed operation (%s) changed the RIB, held operations, counters or election state:\n--- before\n%s--- after\n%s", c.Class, snaps[c.Bad], snaps[c.Bad+1])
			}
		}
	}
	if res.Problem == "" && (bst.K == "get" || bst.K == "flush") {
		if snaps[c.Bad] != snaps[c.Bad+1] {
			res.Problem = fmt.Sprintf("malformed %s request (%s) changed server state", bst.K, c.Class)
		}
		if bst.K == "get" && bo.GetOK {
			res.Problem = fmt.Sprintf("malformed Get (%s) answered OK", c.Class)
		}
		if bst.K == "flush" && bo.FlushSt == "F_OK" {
			res.Problem = fmt.Sprintf("malformed Flush (%s) answered OK", c.Class)
		}
	}
	// other sessions are not terminated: session 2 must still win the election and program
	if res.Problem == "" {
		n := len(c.Steps)
		el, op2 := obs[n-3], obs[n-2]
		if len(el.Resps) != 1 || el.Resps[0].GetElectionId() == nil {
			res.Problem = "after the malformed request the other session could not announce its election id: " + el.Text(c.Steps[n-3])
		} else if len(op2.Resps) != 1 || len(op2.Resps[0].GetResult()) == 0 || op2.Resps[0].GetResult()[0].GetStatus() != spb.AFTResult_RIB_PROGRAMMED {
			res.Problem = "after the malformed request the other session's operation was not programmed: " + op2.Text(c.Steps[n-2])
		}
	}
	vr := []uint64{}
	for _, v := range c.VRFs {
		vr = append(vr, uint64(v))
	}
	res.Coq = fmt.Sprintf("mk_scase %v %s\n %s\n %s\n (%s)", c.NoFwd, drv.CoqNs(vr), drv.CoqList(hs), drv.CoqList(os), x.FinalCoq())
	res.Key = strings.Join(hs, ";")
	// after everything was recorded for the model: the server still takes configuration and traffic - a network
	// instance is added at run time (it needs the instance table exclusively), then a Get over all instances
	if res.Problem == "" {
		done := make(chan error, 1)
		go func() { done <- x.D.S.AddNetworkInstance("LATE-NI") }()
		select {
		case err := <-done:
			if err != nil {
				res.Problem = "after the malformed request a network instance could not be added: " + err.Error()
			} else if _, gerr, hang := x.D.DoGet(drv.GetSpec{NI: "all", AFT: "ALL"}.GetReq(), -1); hang != "" || gerr != nil {
				res.Problem = fmt.Sprintf("after the malformed request and a run-time AddNetworkInstance, Get: %s %v", hang, gerr)
			}
		case <-time.After(drv.Watchdog):
			res.Problem = fmt.Sprintf("HANG: after the malformed request (%s) AddNetworkInstance did not return within %v: the instance table is still locked", c.Class, drv.Watchdog)
		}
	}
	x.Finish()
	return res
}

func runC12(args []string) error {
	f := drv.NewFlags("c12")
	worker := f.FS.Bool("worker", false, "run the cases of -replay in this process, writing results.jsonl")
	if err := f.Parse(args); err != nil {
		return err
	}
	var cases []c12Case
	if *f.Replay != "" {
		if err := drv.ReadJSON(*f.Replay, &cases); err != nil {
			return err
		}
	} else {
		r := drv.NewRng(*f.Seed)
		for i := 0; i < *f.N; i++ {
			cases = append(cases, genC12(r, c12Classes[i%len(c12Classes)]))
		}
	}
	if *worker {
		out, err := os.Create(filepath.Join(*f.Out, "results.jsonl"))
		if err != nil {
			return err
		}
		defer out.Close()
		enc := json.NewEncoder(out)
		start := 0
		if s := os.Getenv("C12_START"); s != "" {
			fmt.Sscan(s, &start)
		}
		for i := start; i < len(cases); i++ {
			enc.Encode(c12Result{Case: i, Phase: "start"})
			out.Sync()
			enc.Encode(runC12Case(i, cases[i]))
			out.Sync()
		}
		return nil
	}
	// parent: run workers, restart after a crash behind the culprit
	if err := drv.WriteJSON(*f.Out+"/cases.json", cases); err != nil {
		return err
	}
	results := map[int]c12Result{}
	next := 0
	for round := 0; next < len(cases) && round < 50; round++ {
		wdir := filepath.Join(*f.Out, fmt.Sprintf("w%d", round))
		os.MkdirAll(wdir, 0o755)
		cmd := exec.Command(os.Args[0], "c12", "-worker", "-replay", *f.Out+"/cases.json", "-out", wdir)
		cmd.Env = append(os.Environ(), fmt.Sprintf("C12_START=%d", next))
		var stderr strings.Builder
		cmd.Stderr = &stderr
		done := make(chan error, 1)
		cmd.Start()
		go func() { done <- cmd.Wait() }()
		var werr error
		select {
		case werr = <-done:
		case <-time.After(20 * time.Minute):
			cmd.Process.Kill()
			werr = fmt.Errorf("worker timed out")
		}
		started := -1
		if fh, err := os.Open(filepath.Join(wdir, "results.jsonl")); err == nil {
			sc := bufio.NewScanner(fh)
			sc.Buffer(make([]byte, 1<<20), 1<<26)
			for sc.Scan() {
				var r c12Result
				if json.Unmarshal(sc.Bytes(), &r) != nil {
					continue
				}
				if r.Phase == "start" {
					started = r.Case
				} else {
					results[r.Case] = r
					next = r.Case + 1
				}
			}
			fh.Close()
		}
		if werr != nil && started >= next {
			tail := stderr.String()
			if len(tail) > 1500 {
				tail = tail[:1500]
			}
			results[started] = c12Result{Case: started, Phase: "done", Problem: fmt.Sprintf("the process terminated while handling this input (%s): %v\n%s", cases[started].Class, werr, tail),
				Stats: map[string]int{"class_" + cases[started].Class: 1, "outcome_CRASH": 1}}
			next = started + 1
		} else if werr != nil {
			return fmt.Errorf("worker failed without a culprit: %v\n%s", werr, stderr.String())
		}
		os.RemoveAll(wdir)
	}
	rep := drv.Report{Property: "C12", Seed: *f.Seed, Shard: drv.ShardSize, Stats: map[string]int{}, Cases: len(cases),
		Rule: "a valid prefix (primary programs a small RIB, possibly with a held operation; a second session stays connected), then one request carrying a malformed operation of each class in turn (alone or in the middle of a batch) or a malformed Get/Flush, then valid requests on both sessions; run in worker processes so that a crash is attributed to its input; non-trivial = the malformed request was answered FAILED or ended the RPC while the RIB was non-empty; distinct by script text"}
	var coq []string
	distinct := map[string]bool{}
	for i := range cases {
		r, ok := results[i]
		if !ok {
			r = c12Result{Case: i, Problem: "no result recorded"}
		}
		if r.Problem != "" {
			v := drv.Verdict{Case: i, Problem: r.Problem}
			if strings.Contains(r.Problem, "HANG") {
				rep.Hangs = append(rep.Hangs, v)
			} else {
				rep.Violations = append(rep.Violations, v)
			}
		}
		for k, v := range r.Stats {
			rep.Stats[k] += v
		}
		if r.Coq != "" {
			coq = append(coq, r.Coq)
			distinct[r.Key] = true
		} else {
			// keep indices aligned with cases.json: an empty history always matches
			coq = append(coq, "mk_scase false [] [] [] (mk_sfinal (state_obs (srib (srv_init false []))) [] None None)")
		}
		if i < 2 {
			rep.Samples = append(rep.Samples, r.Text)
		}
	}
	rep.Nontrivial = len(distinct)
	req := "From Coq Require Import List NArith Bool.\nFrom GV.Base Require Import Op U128.\nFrom GV.Rib Require Import Model Run.\nFrom GV.Server Require Import Model Obs Inst.\nImport ListNotations.\nOpen Scope N_scope."
	if err := drv.WriteCasesV(*f.Out, req, "scase", "smismatches", coq); err != nil {
		return err
	}
	return drv.WriteJSON(*f.Out+"/impl.json", rep)
}
