package main

import (
	"context"
	"fmt"
	"runtime"
	"strings"
	"time"

	"github.com/openconfig/gribigo/client"
	spb "github.com/openconfig/gribi/v1/proto/service"
)

func init() { extra["c14-exp2"] = runExp2 }

// runExp2: lock-order experiment, no fault at all: StartSending (sendMu -> awaiting.RLock) against
// AwaitConverged (awaiting.Lock -> sendMu.RLock).
func runExp2(args []string) error {
	client.BusyLoopDelay = 0
	f, err := newFabric()
	if err != nil {
		return err
	}
	for iter := 0; iter < 3000; iter++ {
		c, _ := client.New()
		p := newProbe()
		f.setProbe(p)
		c.UseStub(spb.NewGRIBIClient(f.conn))
		ctx, cancel := context.WithCancel(context.Background())
		if err := c.Connect(ctx); err != nil {
			return err
		}
		h := f.nextStream()
		for i := 0; i < 3; i++ {
			c.Q(&spb.ModifyRequest{Operation: []*spb.AFTOperation{{Id: uint64(i + 1)}}})
		}
		actx, acancel := context.WithTimeout(context.Background(), 20*time.Millisecond)
		adone := make(chan error, 1)
		go func() { adone <- c.AwaitConverged(actx) }()
		sdone := make(chan struct{})
		go func() { c.StartSending(); close(sdone) }()
		hung := ""
		select {
		case <-sdone:
		case <-time.After(2 * time.Second):
			hung = "StartSending"
		}
		select {
		case <-adone:
		case <-time.After(2 * time.Second):
			hung += " AwaitConverged"
		}
		acancel()
		if hung != "" {
			buf := make([]byte, 1<<20)
			buf = buf[:runtime.Stack(buf, true)]
			fmt.Printf("iteration %d: HANG of %s\n", iter, hung)
			for _, g := range strings.Split(string(buf), "\n\n") {
				if strings.Contains(g, "gribigo/client.") {
					lines := strings.Split(g, "\n")
					if len(lines) > 9 {
						lines = lines[:9]
					}
					fmt.Println(strings.Join(lines, "\n"))
					fmt.Println()
				}
			}
			return nil
		}
		cancel()
		h.end(nil)
		c.Close()
	}
	fmt.Println("no hang in 3000 iterations")
	return nil
}
