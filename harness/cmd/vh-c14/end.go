package main

// "clean end" scenarios: the server ENDS THE RPC WITH STATUS OK (the handler returns nil) while operations
// are unanswered and the sender goroutine is idle.  The receiver sees io.EOF, which it does not record as an
// error; the only trace of the end of the stream is the io.EOF that the next Send returns.  So: the
// application queues the first First requests, the server answers K of them and - once the harness has
// seen the client absorb those answers and the sender parked in its channel receive - returns nil; the
// application then queues the rest of the burst.  AwaitConverged must return the recorded error (a
// ClientErr) within the watchdog - not nil, not the expiry of its context -, Status() must show it, Done()
// is signalled, Close / Reset + Connect + a further exchange work, no goroutine is left.
// Without further requests nothing makes the client notice (that is the code as it is: the outcome is
// compared with the model, the oracle only asks for the calls to return).

import (
	"context"
	"errors"
	"fmt"
	"runtime"
	"strings"
	"sync/atomic"
	"time"

	"github.com/openconfig/gribigo/client"

	spb "github.com/openconfig/gribi/v1/proto/service"
)

// endShape returns (first, answered) of an "end" case, clamped to what the burst allows (shrinking deletes
// elements of the burst).
func (c LCase) endShape() (first, answered int) {
	first, answered = c.First, c.K
	if first < 0 {
		first = 0
	}
	// StartSending queues the handshake messages of the options by itself: the application cannot pause before
	if first < c.handshake() {
		first = c.handshake()
	}
	if first > c.total() {
		first = c.total()
	}
	if answered < 0 {
		answered = 0
	}
	if answered > first {
		answered = first
	}
	return
}

// senderIdle: the sender goroutine of the current client is parked in its receive from modifyCh.
func senderIdle() bool {
	buf := make([]byte, 4<<20)
	buf = buf[:runtime.Stack(buf, true)]
	for _, g := range strings.Split(string(buf), "\n\n") {
		if !strings.Contains(g, "client.(*Client).Connect.func") {
			continue
		}
		var gid int
		fmt.Sscanf(g, "goroutine %d ", &gid)
		if oldGoroutines[gid] {
			continue
		}
		if nl := strings.IndexByte(g, '\n'); nl > 0 && strings.Contains(g[:nl], "[chan receive") {
			return true
		}
	}
	return false
}

func (r *lrunner) runEnd(cs LCase) (out Outcome, problem string) {
	note := func(format string, a ...any) {
		if problem == "" {
			problem = fmt.Sprintf(format, a...)
		}
	}
	n := cs.total() // handshake messages included: First and K count them
	hs := cs.handshake()
	first, answered := cs.endShape()
	further := n - first
	unanswered := first - answered
	what := fmt.Sprintf("the server ended the RPC with status OK after %d of %d requests were answered, the sender idle; %d further request(s) queued afterwards", answered, first, further)

	p := newProbe()
	echo := &echoCfg{failAfter: -1, end: true, endAfter: first, answer: answered, endGate: make(chan struct{}), fib: cs.fib()}
	gateOpen := false
	openGate := func() {
		if !gateOpen {
			gateOpen = true
			close(echo.endGate)
		}
	}
	defer openGate()
	markOldGoroutines()
	c, err := client.New(cs.clientOpts()...)
	if err != nil {
		return out, "client.New: " + err.Error()
	}
	done0 := c.Done() // the application keeps this channel for the whole life of the client (Reset included)
	r.f.setProbe(p)
	r.f.stub.setEcho(echo)
	if err := c.UseStub(spb.NewGRIBIClient(r.f.conn)); err != nil {
		return out, err.Error()
	}
	ctx, cancel := context.WithCancel(context.Background())
	defer cancel()
	if err := c.Connect(ctx); err != nil {
		return out, "Connect: " + err.Error()
	}
	h := r.f.nextStream()
	if h == nil {
		return out, "server did not see the Modify RPC"
	}
	hang := func(format string, a ...any) (Outcome, string) {
		d, _ := clientGoroutines()
		note("HANG: "+format+" ("+what+")\n%s", append(a, d)...)
		_, out.Left = clientGoroutines()
		select {
		case <-c.Done():
			out.Done = true
		default:
		}
		out.Fresh = cs.Mode != "reset"
		cancel()
		return out, problem
	}

	// the application: StartSending (with the handshake messages of the options), then the first part of the burst
	var completed atomic.Int64
	if !timed(shortWatchdog, func() {
		c.StartSending()
		completed.Add(int64(hs))
		for _, id := range cs.Burst[:first-hs] {
			c.Q(req(id))
			completed.Add(1)
		}
	}) {
		return hang("Q did not return without any fault (%d of %d calls completed)", completed.Load(), first)
	}
	// the server has them all, the client has absorbed the answers (the receiver is in its next Recv), the
	// sender is parked in its channel receive
	if !waitFor(func() bool {
		return h.recvd.Load() >= int64(first) && h.answered.Load() >= int64(answered) && p.recvEntered.Load() >= int64(answered)+1 && p.sendReturned.Load() >= int64(first)
	}) {
		return hang("the first %d requests were not exchanged", first)
	}
	if !waitFor(senderIdle) {
		return hang("the sender did not become idle")
	}

	type awaitRes struct {
		class string
		err   error
	}
	adone := make(chan awaitRes, 1)
	waiter := func() {
		actx, acancel := context.WithTimeout(context.Background(), 300*time.Millisecond)
		defer acancel()
		err := c.AwaitConverged(actx)
		var ce *client.ClientErr
		switch {
		case err == nil:
			adone <- awaitRes{"WOk", nil}
		case errors.As(err, &ce):
			adone <- awaitRes{"WErr", err}
		default:
			adone <- awaitRes{"WTimeout", err}
		}
	}
	// a caller is already waiting when the server ends the RPC (with nothing unanswered it would rightly
	// return nil at once: then AwaitConverged is called afterwards)
	early := cs.Early && unanswered > 0
	if early {
		go waiter()
		time.Sleep(500 * time.Microsecond)
	}

	// the server ends the RPC cleanly; the receiver sees io.EOF and leaves (signalling Done)
	openGate()
	select {
	case <-h.ended:
	case <-time.After(watchdog):
		return hang("the server handler did not return")
	}
	select {
	case <-c.Done():
		out.Done = true
	case <-time.After(shortWatchdog):
		note("Done() was not signalled after the server ended the RPC (%s)", what)
	}
	if !waitFor(func() bool { return p.recvFailed.Load() >= 1 }) {
		note("the receiver never saw the end of the stream")
	}
	recordedAtEnd := statusErrs(c)
	if further > 0 && !senderIdle() && recordedAtEnd == 0 {
		// cannot happen with the waits above; reported rather than silently tolerated
		note("harness: the sender was not idle when the RPC ended (%s)", what)
	}

	// the application queues the rest
	completed.Store(0)
	if !timed(shortWatchdog, func() {
		for _, id := range cs.Burst[first-hs:] {
			c.Q(req(id))
			completed.Add(1)
		}
	}) {
		return hang("Q did not return (%d of %d further calls completed)", completed.Load(), further)
	}
	out.Q = true
	if !early {
		go waiter()
	}
	var ares awaitRes
	select {
	case ares = <-adone:
		out.Await = ares.class
	case <-time.After(shortWatchdog):
		return hang("AwaitConverged did not return, long after its context expired")
	}
	switch {
	case further > 0:
		// the Send of the next request fails: that error must surface
		if ares.class != "WErr" {
			st, _ := guardedStatus(c)
			ns, nr, np := 0, 0, 0
			if st != nil {
				ns, nr, np = len(st.SendErrs), len(st.ReadErrs), len(st.PendingTransactions)
			}
			note("AwaitConverged = %s (%v), want the recorded error: %s; Status shows %d send / %d receive errors and %d pending transactions",
				ares.class, ares.err, what, ns, nr, np)
		} else if statusErrs(c) == 0 {
			note("AwaitConverged returned %v but Status() shows no error (%s)", ares.err, what)
		}
		// the sender has left after the failed Send: Done() again (the first signal was consumed above)
		select {
		case <-c.Done():
		case <-time.After(shortWatchdog):
			out.Done = false
			note("Done() was not signalled after the sender noticed the end of the stream (%s)", what)
		}
	case unanswered > 0:
		if ares.class == "WOk" {
			note("AwaitConverged = nil although %d operations are unanswered (%s)", unanswered, what)
		}
	default:
		if ares.class != "WOk" {
			note("AwaitConverged = %s (%v) although every request was answered before the clean end and nothing was queued afterwards", ares.class, ares.err)
		}
	}

	switch cs.Mode {
	case "reset":
		if timed(shortWatchdog, func() { c.Reset() }) {
			out.Closed = true
		} else {
			d, _ := clientGoroutines()
			note("HANG: Reset did not return (%s)\n%s", what, d)
		}
		if out.Closed {
			out.Fresh = r.furtherExchange(c, done0, cs, &problem)
		}
	default:
		if timed(shortWatchdog, func() { c.Close() }) {
			out.Closed = true
		} else {
			d, _ := clientGoroutines()
			note("HANG: Close did not return (%s)\n%s", what, d)
		}
		out.Fresh = true
	}
	cancel()
	var after int
	var dump string
	waitForD(func() bool { dump, after = clientGoroutines(); return after == 0 }, 500*time.Millisecond)
	if after > 0 {
		out.Left = after
		note("%d sender/receiver goroutine(s) of the client left behind (%s)\n%s", out.Left, what, dump)
	}
	return out, problem
}
