package main

import (
	"context"
	"fmt"
	"time"

	"github.com/openconfig/gribigo/client"
	spb "github.com/openconfig/gribi/v1/proto/service"
)

// runExp: the expected finding, by hand: Send blocks, the application queues 7 more requests,
// then Send fails.
func runExp(args []string) error {
	client.BusyLoopDelay = time.Millisecond
	f, err := newFabric()
	if err != nil {
		return err
	}
	c, _ := client.New()
	p := newProbe()
	p.sendGate = make(chan struct{})
	p.failSendAt.Store(0)
	f.setProbe(p)
	c.UseStub(spb.NewGRIBIClient(f.conn))
	ctx, cancel := context.WithCancel(context.Background())
	defer cancel()
	if err := c.Connect(ctx); err != nil {
		return err
	}
	f.nextStream()
	c.StartSending()
	qdone := make(chan int, 1)
	go func() {
		for i := 0; i < 8; i++ {
			c.Q(&spb.ModifyRequest{Operation: []*spb.AFTOperation{{Id: uint64(i + 1)}}})
			fmt.Println("Q returned", i)
		}
		qdone <- 1
	}()
	time.Sleep(200 * time.Millisecond)
	close(p.sendGate) // Send index 0 now fails
	adone := make(chan error, 1)
	go func() {
		actx, acancel := context.WithTimeout(context.Background(), 300*time.Millisecond)
		defer acancel()
		adone <- c.AwaitConverged(actx)
	}()
	select {
	case <-qdone:
		fmt.Println("burst returned")
	case <-time.After(2 * time.Second):
		fmt.Println("HANG: Q did not return")
	}
	select {
	case e := <-adone:
		fmt.Println("AwaitConverged:", e)
	case <-time.After(2 * time.Second):
		fmt.Println("HANG: AwaitConverged did not return 1.7 s after its context expired")
	}
	return nil
}
