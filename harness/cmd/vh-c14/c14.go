package main

// C14 — the client terminates cleanly under server faults.  Fault injection on the REAL client:
// a stream error at message index k (send side: the k-th SendMsg fails; receive side: the server
// ends the RPC with a status after k responses, or the k-th RecvMsg fails), for a few gRPC status
// classes, while the application queues a burst of requests; then Close, or Reset + Connect + a
// further exchange.  Watchdogs on Q / AwaitConverged / Close / Reset, Done(), goroutine census.
// The terminal outcome class is printed for the comparison with Client/Lifecycle.v.

import (
	"context"
	"errors"
	"fmt"
	"runtime"
	"sort"
	"strings"
	"sync/atomic"
	"time"

	"verifharness/drv"

	"github.com/openconfig/gribigo/client"
	"google.golang.org/grpc/codes"
	"google.golang.org/grpc/status"

	spb "github.com/openconfig/gribi/v1/proto/service"
)

// LCase is one fault scenario.
type LCase struct {
	Kind   string   `json:"kind"`           // "fault" | "lockorder" | "end" (clean end of the RPC, see end.go)
	Burst  []uint64 `json:"burst"`          // ids of the requests queued (one operation each)
	Side   string   `json:"side"`           // send | recv | none
	K      int      `json:"k"`              // message index of the fault
	Inject string   `json:"inject"`         // send: probe; recv: server (status from the server) | probe (RecvMsg fails)
	Code   int      `json:"code"`           // gRPC status code of the fault
	Mode   string   `json:"mode"`           // close | reset
	Slow   bool     `json:"slow"`           // send side: the failing Send is slow (the application gets ahead)
	Iter   int      `json:"iter,omitempty"` // lockorder: repetitions
	// end: the first First requests of the burst are queued before the server ends the RPC with status OK
	// (K of them answered), the others afterwards; Early: AwaitConverged is already running when it ends
	First int  `json:"first,omitempty"`
	Early bool `json:"early,omitempty"`
	// Opts: the options the client is created with: "" | persist | fib | elec | elec+fib.  StartSending then
	// queues the session parameters (and the election id) ahead of the burst: these handshake messages are
	// messages 0 (and 1) of the exchange, K counts them, and they are pending transactions like operations
	Opts string `json:"opts,omitempty"`
}

// handshake returns the number of messages StartSending queues by itself for the options of the case.
func (c LCase) handshake() int {
	switch c.Opts {
	case "persist", "fib":
		return 1
	case "elec", "elec+fib":
		return 2
	}
	return 0
}

// total is the number of requests of the exchange: handshake + burst.
func (c LCase) total() int { return c.handshake() + len(c.Burst) }

func (c LCase) fib() bool { return c.Opts == "fib" || c.Opts == "elec+fib" }

func (c LCase) clientOpts() []client.Opt {
	switch c.Opts {
	case "persist":
		return []client.Opt{client.PersistEntries()}
	case "fib":
		return []client.Opt{client.FIBACK()}
	case "elec":
		return []client.Opt{client.ElectedPrimaryClient(&spb.Uint128{High: 0, Low: 11})}
	case "elec+fib":
		return []client.Opt{client.ElectedPrimaryClient(&spb.Uint128{High: 1, Low: 2}), client.FIBACK()}
	}
	return nil
}

// Outcome is the terminal outcome class of a scenario.
type Outcome struct {
	Q      bool
	Await  string // WOk WErr WTimeout "" (did not return)
	Done   bool
	Closed bool
	Left   int
	Fresh  bool
}

func (o Outcome) coq() string {
	aw := "None"
	if o.Await != "" {
		aw = "(Some " + o.Await + ")"
	}
	return fmt.Sprintf("mkout %s %s %s %s %d %s", bcoq(o.Q), aw, bcoq(o.Done), bcoq(o.Closed), o.Left, bcoq(o.Fresh))
}

func bcoq(b bool) string {
	if b {
		return "true"
	}
	return "false"
}

func (c LCase) coq(o Outcome) string {
	side := map[string]string{"send": "FSend", "recv": "FRecv"}[c.Side]
	if side == "" {
		side = "FNone"
	}
	mode := "MClose"
	if c.Mode == "reset" {
		mode = "MReset"
	}
	if c.Kind == "end" {
		first, answered := c.endShape()
		return fmt.Sprintf("mklcase true %d FEnd %d %s false %d (%s)", c.total(), answered, mode, first, o.coq())
	}
	return fmt.Sprintf("mklcase %s %d %s %d %s %s 0 (%s)", bcoq(c.Kind != "lockorder"), c.total(), side, c.K, mode, bcoq(c.Slow && c.Side == "send"), o.coq())
}

// clientGoroutines returns the stacks of the goroutines that are inside the client package, and how
// many of them are the sender/receiver goroutines started by Connect.
func clientGoroutines() (dump string, connect int) {
	buf := make([]byte, 4<<20)
	buf = buf[:runtime.Stack(buf, true)]
	var out []string
	for _, g := range strings.Split(string(buf), "\n\n") {
		if !strings.Contains(g, "gribigo/client.") {
			continue
		}
		var gid int
		fmt.Sscanf(g, "goroutine %d ", &gid)
		if oldGoroutines[gid] {
			continue // leaked by an earlier (hung) scenario
		}
		if strings.Contains(g, "client.(*Client).Connect.func") {
			connect++
		}
		lines := strings.Split(g, "\n")
		keep := []string{lines[0]}
		for i := 1; i < len(lines); i++ {
			if strings.Contains(lines[i], "gribigo/client.") || strings.HasPrefix(lines[i], "sync.") || strings.HasPrefix(lines[i], "runtime.chan") {
				keep = append(keep, strings.TrimSpace(lines[i]))
				if i+1 < len(lines) && strings.Contains(lines[i+1], "gribiclient.go") {
					keep = append(keep, "    "+strings.TrimSpace(lines[i+1]))
				}
			}
		}
		out = append(out, strings.Join(keep, "\n"))
	}
	sort.Strings(out)
	return strings.Join(out, "\n--\n"), connect
}

// oldGoroutines: ids of client goroutines that existed before the current scenario started.
var oldGoroutines = map[int]bool{}

func markOldGoroutines() {
	oldGoroutines = map[int]bool{}
	buf := make([]byte, 4<<20)
	buf = buf[:runtime.Stack(buf, true)]
	for _, g := range strings.Split(string(buf), "\n\n") {
		if strings.Contains(g, "gribigo/client.") {
			var gid int
			fmt.Sscanf(g, "goroutine %d ", &gid)
			oldGoroutines[gid] = true
		}
	}
}

type lrunner struct {
	f *fabric
	// goroutines leaked by earlier (hung) scenarios are not this scenario's
	baseline int
}

func req(id uint64) *spb.ModifyRequest {
	return &spb.ModifyRequest{Operation: []*spb.AFTOperation{{Id: id, NetworkInstance: "DEFAULT", Op: spb.AFTOperation_ADD}}}
}

var shortWatchdog = 1200 * time.Millisecond

// timed runs fn and reports whether it returned within d.
func timed(d time.Duration, fn func()) bool {
	done := make(chan struct{})
	go func() { defer close(done); fn() }()
	select {
	case <-done:
		return true
	case <-time.After(d):
		return false
	}
}

// guardedStatus / guardedPending: the client's own accessors under a watchdog (a client whose locks are wedged must
// not wedge the harness: the caller sees "no status" and its own watchdogs report the hang)
func guardedStatus(c *client.Client) (st *client.ClientStatus, err error) {
	type res struct {
		st  *client.ClientStatus
		err error
	}
	ch := make(chan res, 1)
	go func() { s, e := c.Status(); ch <- res{s, e} }()
	select {
	case r := <-ch:
		return r.st, r.err
	case <-time.After(shortWatchdog):
		return nil, fmt.Errorf("HANG: Status() did not return within %v", shortWatchdog)
	}
}

func guardedPending(c *client.Client) (pt []client.PendingRequest, err error) {
	type res struct {
		pt  []client.PendingRequest
		err error
	}
	ch := make(chan res, 1)
	go func() { p, e := c.Pending(); ch <- res{p, e} }()
	select {
	case r := <-ch:
		return r.pt, r.err
	case <-time.After(shortWatchdog):
		return nil, fmt.Errorf("HANG: Pending() did not return within %v", shortWatchdog)
	}
}

func statusErrs(c *client.Client) int {
	st, err := guardedStatus(c)
	if err != nil || st == nil {
		return 0
	}
	return len(st.SendErrs) + len(st.ReadErrs)
}

// runFault runs one fault scenario; problem is the oracle's verdict ("" = the property holds).
func (r *lrunner) runFault(cs LCase) (out Outcome, problem string) {
	note := func(format string, a ...any) {
		if problem == "" {
			problem = fmt.Sprintf(format, a...)
		}
	}
	n := cs.total() // handshake messages included: they are requests 0.. of the exchange
	hs := cs.handshake()
	code := codes.Code(cs.Code)
	if code == codes.OK {
		code = codes.Unavailable
	}
	ferr := status.Error(code, "injected stream failure")
	faultExpected := false
	p := newProbe()
	p.failErr = ferr
	echo := &echoCfg{failAfter: -1, err: ferr, fib: cs.fib()}
	switch cs.Side {
	case "send":
		p.failSendAt.Store(int64(cs.K))
		faultExpected = n > cs.K
		if cs.Slow {
			p.sendGate = make(chan struct{})
			p.gateAt = int64(cs.K)
		}
	case "recv":
		faultExpected = n >= cs.K
		if cs.Inject == "probe" {
			p.failRecvAt.Store(int64(cs.K)) // the Recv call after k messages fails
		} else {
			echo.failAfter = cs.K
		}
	}
	markOldGoroutines()
	before := 0
	c, err := client.New(cs.clientOpts()...)
	if err != nil {
		return out, "client.New: " + err.Error()
	}
	done0 := c.Done() // the application keeps this channel for the whole life of the client (Reset included)
	r.f.setProbe(p)
	r.f.stub.setEcho(echo)
	if err := c.UseStub(spb.NewGRIBIClient(r.f.conn)); err != nil {
		return out, err.Error()
	}
	ctx, cancel := context.WithCancel(context.Background())
	defer cancel()
	if err := c.Connect(ctx); err != nil {
		return out, "Connect: " + err.Error()
	}
	if r.f.nextStream() == nil {
		return out, "server did not see the Modify RPC"
	}
	// the application: StartSending (which queues the handshake messages of the options), then the burst
	var completed atomic.Int64
	qdone := make(chan struct{})
	go func() {
		defer close(qdone)
		c.StartSending()
		completed.Add(int64(hs))
		for _, id := range cs.Burst {
			c.Q(req(id))
			completed.Add(1)
		}
	}()

	// AwaitConverged, repeated while it reports convergence before the fault has been recorded
	type awaitRes struct {
		class      string
		okAfterErr bool
	}
	adone := make(chan awaitRes, 1)
	waiter := func() {
		res := awaitRes{}
		retryUntil := time.Now().Add(shortWatchdog / 2)
		for {
			errsBefore := statusErrs(c)
			actx, acancel := context.WithTimeout(context.Background(), 200*time.Millisecond)
			err := c.AwaitConverged(actx)
			acancel()
			var ce *client.ClientErr
			switch {
			case err == nil:
				res.class = "WOk"
				if errsBefore > 0 {
					res.okAfterErr = true
				}
				if faultExpected && !res.okAfterErr && time.Now().Before(retryUntil) {
					time.Sleep(time.Millisecond)
					continue // converged before the fault: ask again
				}
			case errors.As(err, &ce):
				res.class = "WErr"
			default:
				res.class = "WTimeout"
			}
			adone <- res
			return
		}
	}

	slow := cs.Slow && cs.Side == "send"
	if slow && faultExpected {
		// the sender is inside the failing Send; the application gets as far as it can
		want := int64(cs.K + 1 + 5)
		if int64(n) < want {
			want = int64(n)
		}
		if !waitFor(func() bool { return p.sendEntered.Load() >= int64(cs.K)+1 }) {
			note("HANG: the sender never reached Send number %d", cs.K)
		}
		waitForD(func() bool { return completed.Load() >= want }, shortWatchdog)
		time.Sleep(2 * time.Millisecond)
		go waiter()
		time.Sleep(2 * time.Millisecond)
		close(p.sendGate)
	} else {
		if slow {
			close(p.sendGate)
		}
		go waiter()
	}

	deadline := time.After(shortWatchdog)
	var ares *awaitRes
	for (!out.Q || ares == nil) && deadline != nil {
		select {
		case <-qdone:
			out.Q = true
			qdone = nil
		case a := <-adone:
			ares = &a
		case <-deadline:
			deadline = nil
		}
	}
	if ares != nil {
		out.Await = ares.class
	}
	if !out.Q || ares == nil {
		d, _ := clientGoroutines()
		what := []string{}
		if !out.Q {
			what = append(what, fmt.Sprintf("Q did not return (%d of %d calls completed)", completed.Load(), n))
		}
		if ares == nil {
			what = append(what, "AwaitConverged did not return, long after its context expired")
		}
		note("HANG: %s after the stream failed on the %s side at message %d (code %s)\n%s", strings.Join(what, "; "), cs.Side, cs.K, code, d)
		_, out.Left = clientGoroutines()
		out.Done = true
		select {
		case <-c.Done():
		default:
			out.Done = false
		}
		out.Fresh = cs.Mode != "reset"
		cancel()
		return out, problem
	}
	if ares.okAfterErr {
		note("AwaitConverged reported convergence although errors were recorded before the call")
	}
	if faultExpected && ares.class != "WErr" {
		note("AwaitConverged = %s after the stream failed (want the recorded error)", ares.class)
	}
	if faultExpected && ares.class == "WErr" {
		// the two views of the recorded errors agree, side by side: Status().SendErrs / ReadErrs and the ClientErr of
		// AwaitConverged (read while nothing is being recorded: the Status before and after the call are equal)
		for try := 0; try < 25; try++ {
			s1, _ := guardedStatus(c)
			actx, acancel := context.WithTimeout(context.Background(), 200*time.Millisecond)
			err := c.AwaitConverged(actx)
			acancel()
			s2, _ := guardedStatus(c)
			var ce *client.ClientErr
			if s1 != nil && s2 != nil && len(s1.SendErrs) == len(s2.SendErrs) && len(s1.ReadErrs) == len(s2.ReadErrs) && errors.As(err, &ce) {
				if len(ce.Send) != len(s2.SendErrs) || len(ce.Recv) != len(s2.ReadErrs) {
					note("Status() shows %d send and %d receive errors, the ClientErr of AwaitConverged %d and %d (fault on the %s side)", len(s2.SendErrs), len(s2.ReadErrs), len(ce.Send), len(ce.Recv), cs.Side)
				}
				break
			}
			time.Sleep(2 * time.Millisecond)
		}
	}
	if !faultExpected && ares.class != "WOk" {
		note("AwaitConverged = %s without any fault (all %d requests answered)", ares.class, n)
	}
	if faultExpected {
		select {
		case <-c.Done():
			out.Done = true
		case <-time.After(shortWatchdog):
			note("Done() was not signalled after the stream failed")
		}
	}

	// Close, or Reset + Connect + a further exchange
	switch cs.Mode {
	case "reset":
		if timed(shortWatchdog, func() { c.Reset() }) {
			out.Closed = true
		} else {
			d, _ := clientGoroutines()
			note("HANG: Reset did not return\n%s", d)
		}
		if !faultExpected {
			out.Done = true // Reset drains Done(): not observable in this mode
		}
		if out.Closed {
			out.Fresh = r.furtherExchange(c, done0, cs, &problem)
		}
	default:
		if timed(shortWatchdog, func() { c.Close() }) {
			out.Closed = true
		} else {
			d, _ := clientGoroutines()
			note("HANG: Close did not return\n%s", d)
		}
		out.Fresh = true
		if !faultExpected {
			select {
			case <-c.Done():
				out.Done = true
			case <-time.After(shortWatchdog):
				note("Done() was not signalled by Close")
			}
		}
	}
	cancel()
	// goroutine census: sender and receiver of this client must be gone
	var after int
	var dump string
	waitForD(func() bool { dump, after = clientGoroutines(); return after <= before }, 500*time.Millisecond)
	if after > before {
		out.Left = after - before
		note("%d sender/receiver goroutine(s) of the client left behind\n%s", out.Left, dump)
	}
	return out, problem
}

// furtherExchange: after Reset the client must be as new: nothing pending, no results, no errors,
// Done() empty; after Connect on a new stream three requests are answered and the client converges.
func (r *lrunner) furtherExchange(c *client.Client, done0 <-chan struct{}, cs LCase, problem *string) bool {
	ok := true
	note := func(format string, a ...any) {
		ok = false
		if *problem == "" {
			*problem = fmt.Sprintf(format, a...)
		}
	}
	st, err := guardedStatus(c)
	if err != nil {
		note("Status() after Reset: %v", err)
		return false
	}
	if len(st.PendingTransactions) != 0 || len(st.Results) != 0 || len(st.SendErrs) != 0 || len(st.ReadErrs) != 0 {
		note("stale state after Reset (client options %q): %d pending %s, %d results, %d send errors, %d receive errors", cs.Opts, len(st.PendingTransactions), pendingKinds(st.PendingTransactions), len(st.Results), len(st.SendErrs), len(st.ReadErrs))
	}
	if pt, err := guardedPending(c); err != nil || len(pt) != 0 {
		note("Pending() after Reset (client options %q): %d transactions %s, err %v", cs.Opts, len(pt), pendingKinds(pt), err)
	}
	select {
	case <-c.Done():
		note("stale Done() signal after Reset")
	default:
	}
	p := newProbe()
	r.f.setProbe(p)
	r.f.stub.setEcho(&echoCfg{failAfter: -1, fib: cs.fib(), staleOn: 1004, staleID: 1})
	ctx, cancel := context.WithCancel(context.Background())
	defer cancel()
	if err := c.Connect(ctx); err != nil {
		note("Connect after Reset: %v", err)
		return false
	}
	if r.f.nextStream() == nil {
		note("server did not see the second Modify RPC")
		return false
	}
	if !timed(shortWatchdog, func() {
		c.StartSending()
		for id := uint64(1001); id <= 1003; id++ {
			c.Q(req(id))
		}
	}) {
		note("HANG: StartSending/Q on the reconnected client")
		return false
	}
	var aerr error
	actx, acancel := context.WithTimeout(context.Background(), time.Second)
	defer acancel()
	if !timed(watchdog, func() { aerr = c.AwaitConverged(actx) }) {
		note("HANG: AwaitConverged on the reconnected client")
		return false
	}
	if aerr != nil {
		note("AwaitConverged on the reconnected client: %v", aerr)
	}
	// the new stream's own handshake (session parameters, election id) and the three requests, one response each
	// (in FIB-ack mode a response carries the RIB and the FIB result)
	wantRes := cs.handshake() + 3
	if cs.fib() {
		wantRes += 3
	}
	if st, _ := guardedStatus(c); st != nil && (len(st.Results) != wantRes || len(st.PendingTransactions) != 0) {
		note("reconnected client (options %q): %d results (want %d), %d pending %s after its handshake and 3 requests were answered", cs.Opts, len(st.Results), wantRes, len(st.PendingTransactions), pendingKinds(st.PendingTransactions))
	}
	// nothing of the connection before Reset is remembered: a result for operation 1 - which that connection may
	// have completed, and which this one never sent - is a result for an unknown operation
	if ok && timed(shortWatchdog, func() { c.Q(req(1004)) }) {
		var serr error
		sctx, scancel := context.WithTimeout(context.Background(), time.Second)
		if !timed(watchdog, func() { serr = c.AwaitConverged(sctx) }) {
			note("HANG: AwaitConverged on the reconnected client (stale result)")
		}
		scancel()
		var ce *client.ClientErr
		if !errors.As(serr, &ce) || len(ce.Recv) == 0 {
			note("the reconnected client (options %q) accepted RIB_PROGRAMMED for operation 1, which only the connection before Reset had sent: AwaitConverged = %v", cs.Opts, serr)
		}
	}
	if !timed(shortWatchdog, func() { c.Close() }) {
		note("HANG: Close of the reconnected client")
		return false
	}
	// an application that obtained Done() when it created the client still holds that channel
	select {
	case <-done0:
	case <-time.After(shortWatchdog):
		note("the Done() channel obtained before Reset was not signalled when the reconnected client ended")
	}
	return ok
}

// pendingKinds describes a list of pending transactions: operations / election / session parameters.
func pendingKinds(pt []client.PendingRequest) string {
	ops, el, sp := 0, 0, 0
	for _, x := range pt {
		switch x.(type) {
		case *client.PendingOp:
			ops++
		case *client.ElectionReqDetails:
			el++
		case *client.SessionParamReqDetails:
			sp++
		}
	}
	return fmt.Sprintf("(%d operations, %d election, %d session parameters)", ops, el, sp)
}

// runLockOrder: no fault at all.  The burst is queued while not sending; StartSending (which pushes
// the queue holding sendMu) runs concurrently with AwaitConverged.
func (r *lrunner) runLockOrder(cs LCase) (out Outcome, problem string) {
	iters := cs.Iter
	if iters <= 0 {
		iters = 100
	}
	out = Outcome{Q: true, Await: "WOk", Done: true, Closed: true, Fresh: true}
	markOldGoroutines()
	for it := 0; it < iters; it++ {
		c, _ := client.New()
		r.f.setProbe(newProbe())
		r.f.stub.setEcho(&echoCfg{failAfter: -1})
		c.UseStub(spb.NewGRIBIClient(r.f.conn))
		ctx, cancel := context.WithCancel(context.Background())
		if err := c.Connect(ctx); err != nil {
			cancel()
			return out, "Connect: " + err.Error()
		}
		r.f.nextStream()
		for _, id := range cs.Burst {
			c.Q(req(id))
		}
		var aerr error
		adone := make(chan struct{})
		go func() {
			defer close(adone)
			actx, acancel := context.WithTimeout(context.Background(), time.Second)
			defer acancel()
			aerr = c.AwaitConverged(actx)
		}()
		sok := timed(shortWatchdog, func() { c.StartSending() })
		aok := true
		select {
		case <-adone:
		case <-time.After(shortWatchdog):
			aok = false
		}
		if !sok || !aok {
			d, _ := clientGoroutines()
			out.Q, out.Closed = sok, false
			if !aok {
				out.Await = ""
			}
			cancel()
			return out, fmt.Sprintf("HANG (iteration %d, no fault injected): StartSending returned=%v, concurrent AwaitConverged returned=%v with %d requests queued\n%s", it, sok, aok, len(cs.Burst), d)
		}
		if aerr != nil {
			problem = fmt.Sprintf("iteration %d: AwaitConverged = %v without any fault", it, aerr)
		}
		if !timed(shortWatchdog, func() { c.Close() }) {
			cancel()
			return out, "HANG: Close did not return (no fault)"
		}
		cancel()
	}
	return out, problem
}

var codeClasses = []int{int(codes.Unavailable), int(codes.Internal), int(codes.Canceled), int(codes.DeadlineExceeded), int(codes.FailedPrecondition), int(codes.ResourceExhausted)}

func genCases(r *drv.Rng, n int, tier string) []LCase {
	var cases []LCase
	burst := func(k int) []uint64 {
		b := make([]uint64, k)
		for i := range b {
			b[i] = uint64(i + 1)
		}
		return b
	}
	// no fault at all: StartSending against AwaitConverged (first, so that it is reported)
	cases = append(cases, LCase{Kind: "lockorder", Burst: burst(3), Side: "none", Mode: "close", Iter: 150})
	// systematic part: every message index of the exchange, both sides, burst 1..12
	sizes := []int{1, 3, 7, 12}
	if tier != "quick" {
		sizes = []int{1, 2, 3, 4, 5, 6, 7, 8, 9, 10, 11, 12}
	}
	ci := 0
	for _, sz := range sizes {
		for k := 0; k <= sz; k++ {
			for _, side := range []string{"send", "recv"} {
				if side == "send" && k == sz {
					continue // no Send with that index
				}
				mode := []string{"close", "reset"}[(k+sz+ci)%2]
				c := LCase{Kind: "fault", Burst: burst(sz), Side: side, K: k, Mode: mode, Code: codeClasses[ci%len(codeClasses)], Inject: "server"}
				ci++
				if side == "send" {
					c.Inject = "probe"
					c.Slow = true
					cases = append(cases, c)
					c.Slow = false
					c.Mode = []string{"reset", "close"}[(k+sz+ci)%2]
				} else if ci%3 == 0 {
					c.Inject = "probe"
				}
				cases = append(cases, c)
			}
		}
	}
	cases = append(cases, LCase{Kind: "fault", Burst: burst(5), Side: "none", Mode: "close"}, LCase{Kind: "fault", Burst: burst(9), Side: "none", Mode: "reset"})
	// clients created with options: StartSending queues the session parameters (and the election id) ahead of the
	// burst; the fault hits before / between / after their answers (message index 0 .. handshake+1), both sides;
	// mostly Reset + Connect + further exchange: nothing stale may be pending, the new stream converges once ITS
	// handshake and requests are answered
	oi := 0
	for _, opts := range []string{"persist", "fib", "elec", "elec+fib"} {
		hs := LCase{Opts: opts}.handshake()
		for k := 0; k <= hs+1; k++ {
			for _, v := range []struct {
				side, inject string
				slow         bool
			}{{"send", "probe", true}, {"send", "probe", false}, {"recv", "server", false}, {"recv", "probe", false}} {
				if tier == "quick" && v.side == "send" && !v.slow && k > hs {
					continue
				}
				mode := "reset"
				if oi%5 == 4 {
					mode = "close"
				}
				cases = append(cases, LCase{Kind: "fault", Burst: burst(1 + oi%3), Side: v.side, K: k, Mode: mode, Code: codeClasses[oi%len(codeClasses)], Inject: v.inject, Slow: v.slow, Opts: opts})
				oi++
			}
		}
		cases = append(cases, LCase{Kind: "fault", Burst: burst(2), Side: "none", Mode: "reset", Opts: opts})
		// clean end with handshake messages unanswered
		cases = append(cases, LCase{Kind: "end", Burst: burst(3), Side: "end", First: hs + 1, K: hs - 1, Mode: "reset", Opts: opts},
			LCase{Kind: "end", Burst: burst(2), Side: "end", First: hs, K: 0, Mode: "reset", Early: true, Opts: opts})
	}
	// the server ends the RPC with status OK while requests are unanswered and the sender is idle; further
	// requests afterwards (1, up to the channel capacity, beyond it); also nothing unanswered / nothing further
	ends := [][3]int{{2, 1, 0}, {3, 1, 0}, {4, 3, 2}, {8, 2, 1}, {12, 5, 3}, {12, 1, 0}, {9, 8, 1}, {7, 0, 0}, {3, 2, 2}, {4, 4, 2}, {5, 5, 5}}
	if tier != "quick" {
		seen := map[[3]int]bool{}
		for _, e := range ends {
			seen[e] = true
		}
		for sz := 1; sz <= 12; sz++ {
			for first := 0; first <= sz; first++ {
				for _, ans := range []int{0, first / 2, first - 1, first} {
					e := [3]int{sz, first, ans}
					// nothing further and something unanswered: AwaitConverged runs into its context (300 ms): a few only
					if ans < 0 || seen[e] || (first == sz && ans < first && sz > 3) {
						continue
					}
					seen[e] = true
					ends = append(ends, e)
				}
			}
		}
	}
	for i, e := range ends {
		cases = append(cases, LCase{Kind: "end", Burst: burst(e[0]), Side: "end", First: e[1], K: e[2], Mode: []string{"close", "reset"}[i%2], Early: i%3 == 2})
	}
	// random part
	for i := 0; i < n; i++ {
		sz := 1 + r.Intn(12)
		if r.Chance(1, 4) {
			sz++ // 2..13
			first := 1 + r.Intn(sz-1)
			c := LCase{Kind: "end", Burst: burst(sz), Side: "end", First: first, K: r.Intn(first), Mode: drv.Pick(r, "close", "reset"), Early: r.Chance(1, 3)}
			if r.Chance(1, 3) {
				c.Opts = drv.Pick(r, "persist", "fib", "elec", "elec+fib")
				c.First += c.handshake()
			}
			cases = append(cases, c)
			continue
		}
		opts := ""
		if r.Chance(1, 3) {
			opts = drv.Pick(r, "persist", "fib", "elec", "elec+fib")
		}
		c := LCase{Kind: "fault", Opts: opts, Burst: burst(sz), Side: drv.Pick(r, "send", "send", "recv"), Mode: drv.Pick(r, "close", "reset"), Code: drv.Pick(r, codeClasses...)}
		c.K = r.Intn(sz + 1)
		if c.Side == "send" {
			c.Inject = "probe"
			c.Slow = r.Chance(2, 3)
			if c.K == sz {
				c.K = sz - 1
			}
		} else {
			c.Inject = drv.Pick(r, "server", "server", "probe")
		}
		cases = append(cases, c)
	}
	cases = append(cases, LCase{Kind: "lockorder", Burst: burst(8), Side: "none", Mode: "close", Iter: 100})
	return cases
}

func caseKey(c LCase) string {
	if c.Kind == "end" {
		first, answered := c.endShape()
		return fmt.Sprintf("end/%d/%d/%d/%s/%v/%s", len(c.Burst), first, answered, c.Mode, c.Early, c.Opts)
	}
	return fmt.Sprintf("%s/%d/%s/%d/%s/%v/%s/%s", c.Kind, len(c.Burst), c.Side, c.K, c.Mode, c.Slow, c.Inject, c.Opts)
}

func runC14(args []string) error {
	f := drv.NewFlags("c14")
	if err := f.Parse(args); err != nil {
		return err
	}
	client.BusyLoopDelay = 200 * time.Microsecond
	rng := drv.NewRng(*f.Seed)
	var cases []LCase
	if *f.Replay != "" {
		if err := drv.ReadJSON(*f.Replay, &cases); err != nil {
			return err
		}
		if len(cases) == 1 {
			shortWatchdog = 700 * time.Millisecond // shrinking: many runs of one hanging scenario
		}
	} else {
		cases = genCases(rng, *f.N, *f.Tier)
	}
	fab, err := newFabric()
	if err != nil {
		return err
	}
	run := &lrunner{f: fab}
	rep := drv.Report{Property: "C14", Seed: *f.Seed, Shard: drv.ShardSize, Stats: map[string]int{}, Cases: len(cases),
		Rule: "fault scenarios on the real client over in-memory gRPC: (burst size 1..12) x (fault side) x (message index 0..burst) x (status class) x (Close | Reset+Connect+exchange) x (slow | fast Send); plus the server ending the RPC with status OK while 0..n requests are unanswered and the sender is idle, further requests queued afterwards (AwaitConverged before | after); non-trivial = a fault that fires while at least one request is still to be queued or answered (clean end: at least one unanswered and one further request); distinct by (kind, burst, side, index, mode, slow, injection)"}
	var coq []string
	distinct := map[string]bool{}
	for i, c := range cases {
		if c.Side == "" {
			c.Side = "none"
		}
		var o Outcome
		var problem string
		switch c.Kind {
		case "lockorder":
			o, problem = run.runLockOrder(c)
		case "end":
			o, problem = run.runEnd(c)
		default:
			o, problem = run.runFault(c)
		}
		if problem != "" {
			rep.Violations = append(rep.Violations, drv.Verdict{Case: i, Problem: problem})
			rep.Stats["outcome_violation"]++
		} else {
			rep.Stats["outcome_clean"]++
		}
		rep.Stats["kind_"+c.Kind]++
		rep.Stats["side_"+c.Side]++
		rep.Stats["mode_"+c.Mode]++
		rep.Stats["code_"+codes.Code(c.Code).String()]++
		rep.Stats[fmt.Sprintf("burst_%02d", len(c.Burst))]++
		if c.Slow {
			rep.Stats["slow_send"]++
		}
		rep.Stats["await_"+o.Await]++
		if c.Opts != "" {
			rep.Stats["opts_"+c.Opts]++
			if c.Kind != "lockorder" && c.Side != "none" && c.K < c.handshake() {
				rep.Stats["fault_inside_handshake"]++
			}
		}
		if c.Kind == "fault" && c.Side != "none" && c.K < c.total() {
			distinct[caseKey(c)] = true
		}
		if c.Kind == "end" {
			first, answered := c.endShape()
			rep.Stats[fmt.Sprintf("end_unanswered_%d", min(first-answered, 3))]++
			rep.Stats[fmt.Sprintf("end_further_%d", min(c.total()-first, 7))]++
			if c.Early {
				rep.Stats["end_await_already_running"]++
			}
			if first-answered >= 1 && c.total() > first {
				distinct[caseKey(c)] = true
			}
		}
		coq = append(coq, c.coq(o))
		if i < 2 || i == len(cases)-1 {
			rep.Samples = append(rep.Samples, fmt.Sprintf("%s => %s", caseKey(c), o.coq()))
		}
	}
	rep.Nontrivial = len(distinct)
	if err := drv.WriteJSON(*f.Out+"/cases.json", cases); err != nil {
		return err
	}
	if err := drv.WriteCasesV(*f.Out, "From Coq Require Import List Arith Bool.\nFrom GV.Client Require Import Lifecycle.\nImport ListNotations.", "lcase", "lmismatches", coq); err != nil {
		return err
	}
	return drv.WriteJSON(*f.Out+"/impl.json", rep)
}
