package main

// In-memory gRPC plumbing shared by the client harnesses: a scripted stub gRIBI server on a
// bufconn listener, and a client connection whose Modify stream is wrapped by a probe that counts
// SendMsg/RecvMsg calls (so that the harness knows when the real client has absorbed a message)
// and can make the next Send fail.

import (
	"context"
	"io"
	"net"
	"sync"
	"sync/atomic"
	"time"

	"google.golang.org/grpc"
	"google.golang.org/grpc/codes"
	"google.golang.org/grpc/credentials/insecure"
	"google.golang.org/grpc/status"
	"google.golang.org/grpc/test/bufconn"

	spb "github.com/openconfig/gribi/v1/proto/service"
)

// watchdog bounds every wait; exceeding it is reported as a hang.
var watchdog = 5 * time.Second

// srvCmd is one instruction of the script to the server side of a Modify RPC.
type srvCmd struct {
	resp *spb.ModifyResponse // send this response ...
	end  bool                // ... or end the RPC with err (nil = OK)
	err  error
	done chan error
}

// srvStream is the server side of one Modify RPC.
type srvStream struct {
	cmd      chan srvCmd
	recvd    atomic.Int64  // requests received from the client
	answered atomic.Int64  // responses sent by the echo server
	recvDone chan struct{} // closed when the client half-closed or the stream broke
	ended    chan struct{} // closed when the handler returned
	// eofEnds: return OK from the handler when the client half-closes (what a real server does)
	eofEnds bool
}

// echoCfg makes the server side answer every request by itself: one response per request with a
// RIB_PROGRAMMED result per operation; after failAfter responses (if >= 0) the RPC ends with err.
//
// end selects the "clean end" behaviour instead: the server answers only the first `answer`
// requests, and once it has received endAfter requests it waits for endGate to be closed (the harness
// decides when) and then returns nil from the handler - the RPC ends with status OK whatever is still
// unanswered.
type echoCfg struct {
	failAfter int
	err       error

	// fib: the client runs a FIB-ack session: an operation is answered with its RIB and its FIB result
	fib bool

	end      bool
	endAfter int
	answer   int
	endGate  chan struct{}

	// staleOn != 0: the response to the request carrying operation staleOn also carries a RIB_PROGRAMMED for
	// operation staleID, which this connection never sent
	staleOn, staleID uint64
}

type stubServer struct {
	spb.UnimplementedGRIBIServer
	streams chan *srvStream
	eofEnds atomic.Bool
	mu      sync.Mutex
	echo    *echoCfg // configuration of the next stream (nil: command driven)
}

func (s *stubServer) setEcho(e *echoCfg) {
	s.mu.Lock()
	s.echo = e
	s.mu.Unlock()
}

func (s *stubServer) echoModify(e *echoCfg, stream spb.GRIBI_ModifyServer) error {
	h := &srvStream{cmd: make(chan srvCmd), recvDone: make(chan struct{}), ended: make(chan struct{})}
	defer close(h.ended)
	s.streams <- h
	n := 0
	for {
		if e.failAfter >= 0 && n >= e.failAfter {
			return e.err
		}
		if e.end && n >= e.endAfter {
			select {
			case <-e.endGate:
				return nil // status OK
			case <-stream.Context().Done():
				return status.Error(codes.Canceled, "stream context done")
			}
		}
		m, err := stream.Recv()
		if err != nil {
			if err == io.EOF {
				return nil
			}
			return err
		}
		h.recvd.Add(1)
		// one response per request: the session parameters are accepted, the election id is echoed, the
		// operations are acknowledged (the client's handshake messages carry one of the three each)
		r := &spb.ModifyResponse{}
		switch {
		case m.GetParams() != nil:
			r.SessionParamsResult = &spb.SessionParametersResult{Status: spb.SessionParametersResult_OK}
		case m.GetElectionId() != nil:
			r.ElectionId = m.GetElectionId()
		}
		for _, o := range m.GetOperation() {
			r.Result = append(r.Result, &spb.AFTResult{Id: o.GetId(), Status: spb.AFTResult_RIB_PROGRAMMED})
			if e.fib {
				r.Result = append(r.Result, &spb.AFTResult{Id: o.GetId(), Status: spb.AFTResult_FIB_PROGRAMMED})
			}
			if e.staleOn != 0 && o.GetId() == e.staleOn {
				r.Result = append(r.Result, &spb.AFTResult{Id: e.staleID, Status: spb.AFTResult_RIB_PROGRAMMED})
			}
		}
		if !e.end || n < e.answer {
			if err := stream.Send(r); err != nil {
				return err
			}
			h.answered.Add(1)
		}
		n++
	}
}

func (s *stubServer) Modify(stream spb.GRIBI_ModifyServer) error {
	s.mu.Lock()
	e := s.echo
	s.mu.Unlock()
	if e != nil {
		return s.echoModify(e, stream)
	}
	h := &srvStream{cmd: make(chan srvCmd), recvDone: make(chan struct{}), ended: make(chan struct{}), eofEnds: s.eofEnds.Load()}
	defer close(h.ended)
	go func() {
		defer close(h.recvDone)
		for {
			if _, err := stream.Recv(); err != nil {
				return
			}
			h.recvd.Add(1)
		}
	}()
	s.streams <- h
	recvDone := h.recvDone
	if !h.eofEnds {
		recvDone = nil
	}
	for {
		select {
		case c, ok := <-h.cmd:
			if !ok {
				return nil
			}
			if c.end {
				if c.done != nil {
					c.done <- nil
				}
				return c.err
			}
			err := stream.Send(c.resp)
			if c.done != nil {
				c.done <- err
			}
		case <-recvDone:
			return nil
		case <-stream.Context().Done():
			return status.Error(codes.Canceled, "stream context done")
		}
	}
}

// send makes the server send r; false if the RPC is over.
func (h *srvStream) send(r *spb.ModifyResponse) bool {
	c := srvCmd{resp: r, done: make(chan error, 1)}
	select {
	case h.cmd <- c:
		return <-c.done == nil
	case <-h.ended:
		return false
	case <-time.After(watchdog):
		return false
	}
}

// end makes the handler return err (nil = OK status).
func (h *srvStream) end(err error) {
	c := srvCmd{end: true, err: err, done: make(chan error, 1)}
	select {
	case h.cmd <- c:
		<-c.done
		<-h.ended
	case <-h.ended:
	case <-time.After(watchdog):
	}
}

// probe observes (and can break) the client side of one Modify stream.
type probe struct {
	sendEntered, sendReturned, sendFailed atomic.Int64
	recvEntered, recvReturned, recvFailed atomic.Int64
	// failSendAt >= 0: the SendMsg call with this index (0-based) and every later one fail with failErr
	failSendAt atomic.Int64
	// failRecvAt >= 0: the RecvMsg call with this index and every later one fail with failErr
	failRecvAt atomic.Int64
	failNext   atomic.Bool // the next SendMsg fails (once)
	failErr    error
	// sendGate, if non-nil, is waited on by the SendMsg call with index gateAt (slow Send)
	sendGate chan struct{}
	gateAt   int64
	// cancel breaks the underlying stream (a real stream whose Send failed is finished: Recv fails too)
	cancel context.CancelFunc
}

func newProbe() *probe {
	p := &probe{failErr: status.Error(codes.Unavailable, "injected stream failure")}
	p.failSendAt.Store(-1)
	p.failRecvAt.Store(-1)
	return p
}

type probedStream struct {
	grpc.ClientStream
	p *probe
}

func (s *probedStream) SendMsg(m any) error {
	n := s.p.sendEntered.Add(1) - 1
	defer s.p.sendReturned.Add(1)
	if s.p.sendGate != nil && n == s.p.gateAt {
		<-s.p.sendGate
	}
	if at := s.p.failSendAt.Load(); (at >= 0 && n >= at) || s.p.failNext.CompareAndSwap(true, false) {
		s.p.sendFailed.Add(1)
		if s.p.cancel != nil {
			s.p.cancel()
		}
		return s.p.failErr
	}
	err := s.ClientStream.SendMsg(m)
	if err != nil {
		s.p.sendFailed.Add(1)
	}
	return err
}

func (s *probedStream) RecvMsg(m any) error {
	n := s.p.recvEntered.Add(1) - 1
	defer s.p.recvReturned.Add(1)
	if at := s.p.failRecvAt.Load(); at >= 0 && n >= at {
		s.p.recvFailed.Add(1)
		if s.p.cancel != nil {
			s.p.cancel()
		}
		return s.p.failErr
	}
	err := s.ClientStream.RecvMsg(m)
	if err != nil {
		s.p.recvFailed.Add(1)
	}
	return err
}

// fabric is the in-memory network: one server, one client connection.
type fabric struct {
	lis  *bufconn.Listener
	srv  *grpc.Server
	stub *stubServer
	conn *grpc.ClientConn
	mu   sync.Mutex
	cur  *probe // the probe given to the next stream that is opened
}

func newFabric() (*fabric, error) {
	f := &fabric{lis: bufconn.Listen(1 << 20), stub: &stubServer{streams: make(chan *srvStream, 16)}}
	f.srv = grpc.NewServer()
	spb.RegisterGRIBIServer(f.srv, f.stub)
	go f.srv.Serve(f.lis)
	icpt := func(ctx context.Context, desc *grpc.StreamDesc, cc *grpc.ClientConn, method string, streamer grpc.Streamer, opts ...grpc.CallOption) (grpc.ClientStream, error) {
		f.mu.Lock()
		p := f.cur
		f.mu.Unlock()
		if p == nil {
			return streamer(ctx, desc, cc, method, opts...)
		}
		ctx, cancel := context.WithCancel(ctx)
		cs, err := streamer(ctx, desc, cc, method, opts...)
		if err != nil {
			cancel()
			return nil, err
		}
		p.cancel = cancel
		return &probedStream{ClientStream: cs, p: p}, nil
	}
	conn, err := grpc.NewClient("passthrough:///bufnet",
		grpc.WithContextDialer(func(ctx context.Context, _ string) (net.Conn, error) { return f.lis.DialContext(ctx) }),
		grpc.WithTransportCredentials(insecure.NewCredentials()),
		grpc.WithStreamInterceptor(icpt))
	if err != nil {
		return nil, err
	}
	f.conn = conn
	return f, nil
}

func (f *fabric) setProbe(p *probe) {
	f.mu.Lock()
	f.cur = p
	f.mu.Unlock()
}

// nextStream returns the server side of the RPC the client has just opened.
func (f *fabric) nextStream() *srvStream {
	select {
	case h := <-f.stub.streams:
		return h
	case <-time.After(watchdog):
		return nil
	}
}

// waitFor polls cond (cheaply) until it holds or the watchdog expires.
func waitFor(cond func() bool) bool {
	return waitForD(cond, watchdog)
}

func waitForD(cond func() bool, d time.Duration) bool {
	deadline := time.Now().Add(d)
	for i := 0; ; i++ {
		if cond() {
			return true
		}
		if time.Now().After(deadline) {
			return false
		}
		if i < 200 {
			time.Sleep(20 * time.Microsecond)
		} else {
			time.Sleep(500 * time.Microsecond)
		}
	}
}
