// vh-c14 is the fault-injection harness of property C14 (client lifecycle under stream faults).
package main

import "verifharness/drv"

func main() { drv.Main(map[string]drv.Cmd{"c14": runC14}) }
