// vh-c14 is the fault-injection harness of property C14 (client lifecycle under stream faults).
package main

import "verifharness/drv"

var extra = map[string]drv.Cmd{}

func main() {
	cmds := map[string]drv.Cmd{"c14": runC14, "c14-exp": runExp}
	for k, v := range extra {
		cmds[k] = v
	}
	drv.Main(cmds)
}
