package main

import (
	"fmt"
	"sort"
	"sync"
	"sync/atomic"
	"time"

	"verifharness/drv"

	"github.com/openconfig/gribigo/rib"
)

// c11rib: the RIB's own locks (nrMu, RIBHolder.mu, refCounts, pendMu) under concurrent callers of the public
// rib.RIB API - the callers a server with several writers has.  2-6 goroutines program their own key spaces in two
// shared network instances (next-hops, groups over them that are held until the next-hop exists, IPv4 entries over
// the groups, deletes), 0-2 readers walk RIBContents / GetRIB meanwhile.  Built with -race; every call under a
// watchdog; each case in a worker process (a fatal runtime error ends the process it is in).  Quiescent check:
// the next-hops installed in each caller's key space are the fold of the calls that were acknowledged, and no
// operation is still held although everything it references is installed.
type ribConcCase struct {
	Seed    int64 `json:"seed"`
	Callers int   `json:"callers"`
	Readers int   `json:"readers"`
	Rounds  int   `json:"rounds"`
}

func runRibConc(c ribConcCase) (problem string, stats map[string]int) {
	stats = map[string]int{}
	r := rib.New("DEFAULT")
	if err := r.AddNetworkInstance("VRF-A"); err != nil {
		return err.Error(), stats
	}
	var first atomic.Value
	fail := func(s string) {
		if first.Load() == nil {
			first.Store(s)
		}
	}
	var mu sync.Mutex
	acked := make([][]string, c.Callers)
	stop := make(chan struct{})
	var wg, wgR sync.WaitGroup
	call := func(what string, f func()) bool {
		done := make(chan struct{})
		go func() { defer close(done); f() }()
		select {
		case <-done:
			return true
		case <-time.After(10 * time.Second):
			fail(fmt.Sprintf("HANG: %s did not return within 10s\n%s", what, stacks()))
			return false
		}
	}
	for i := 0; i < c.Callers; i++ {
		i := i
		wg.Add(1)
		go func() {
			defer wg.Done()
			rg := drv.NewRng(c.Seed*100 + int64(i))
			opid := uint64(i+1) << 32
			base := uint64(10 * (i + 1))
			for round := 0; round < c.Rounds; round++ {
				if first.Load() != nil {
					return
				}
				opid++
				ni := drv.Pick(rg, 1, 2)
				var o drv.OpSpec
				switch x := rg.Intn(10); {
				case x < 4:
					o = drv.OpSpec{ID: opid, NI: ni, Kind: drv.Pick(rg, "ADD", "ADD", "DELETE"), T: "nh", Key: base + 1 + uint64(rg.Intn(4))}
				case x < 8:
					// a group over one of the caller's own next-hops: held until that next-hop exists
					o = drv.OpSpec{ID: opid, NI: ni, Kind: drv.Pick(rg, "ADD", "ADD", "ADD", "DELETE"), T: "nhg", Key: base + 1 + uint64(rg.Intn(3)),
						NHs: [][2]uint64{{base + 1 + uint64(rg.Intn(4)), 1}}}
				default:
					// an IPv4 entry over one of the caller's groups (held until the group is installed); the three prefixes are shared
					o = drv.OpSpec{ID: opid, NI: ni, Kind: drv.Pick(rg, "ADD", "ADD", "DELETE"), T: "v4", Key: uint64(1 + rg.Intn(3)), NHG: base + 1 + uint64(rg.Intn(3))}
				}
				var oks, fails []*rib.OpResult
				var err error
				if !call(fmt.Sprintf("caller %d: %s %s", i, o.Kind, o.T), func() {
					if o.Kind == "DELETE" {
						oks, fails, err = r.DeleteEntry(drv.NINames[o.NI], o.Proto())
					} else {
						oks, fails, err = r.AddEntry(drv.NINames[o.NI], o.Proto())
					}
				}) {
					return
				}
				if err != nil {
					fail(fmt.Sprintf("caller %d: %s %s %d in %s: fatal error %v", i, o.Kind, o.T, o.Key, drv.NINames[o.NI], err))
					return
				}
				_ = fails
				mu.Lock()
				stats["calls"]++
				for _, ok := range oks {
					stats["acknowledged"]++
					if ok.ID == o.ID && o.T == "nh" {
						acked[i] = append(acked[i], fmt.Sprintf("%s %d nh %d", o.Kind, o.NI, o.Key))
					}
					if ok.ID != o.ID {
						stats["resolved_later"]++
					}
				}
				mu.Unlock()
			}
		}()
	}
	for g := 0; g < c.Readers; g++ {
		wgR.Add(1)
		go func() {
			defer wgR.Done()
			for {
				select {
				case <-stop:
					return
				default:
				}
				if !call("RIBContents", func() {
					if _, err := r.RIBContents(); err != nil {
						fail("RIBContents: " + err.Error())
					}
				}) {
					return
				}
				mu.Lock()
				stats["reads"]++
				mu.Unlock()
				time.Sleep(time.Millisecond)
			}
		}()
	}
	wg.Wait()
	close(stop)
	wgR.Wait()
	if p := first.Load(); p != nil {
		return p.(string), stats
	}
	// quiescence: installed next-hops of each key space = fold of the acknowledged calls
	contents, err := r.RIBContents()
	if err != nil {
		return "RIBContents: " + err.Error(), stats
	}
	for i := 0; i < c.Callers; i++ {
		want := map[string]bool{}
		for _, a := range acked[i] {
			var kind string
			var ni int
			var key uint64
			fmt.Sscanf(a, "%s %d nh %d", &kind, &ni, &key)
			k := fmt.Sprintf("%d/%d", ni, key)
			if kind == "DELETE" {
				delete(want, k)
			} else {
				want[k] = true
			}
		}
		got := map[string]bool{}
		for ni := 1; ni <= 2; ni++ {
			if rr := contents[drv.NINames[ni]]; rr != nil && rr.Afts != nil {
				for idx := range rr.Afts.NextHop {
					if idx/10 == uint64(i+1) {
						got[fmt.Sprintf("%d/%d", ni, idx)] = true
					}
				}
			}
		}
		if fmt.Sprint(keys(want)) != fmt.Sprint(keys(got)) {
			return fmt.Sprintf("caller %d: installed next-hops %v, fold of its acknowledged calls %v", i, keys(got), keys(want)), stats
		}
	}
	return "", stats
}

func keys(m map[string]bool) []string {
	out := []string{}
	for k := range m {
		out = append(out, k)
	}
	sort.Strings(out)
	return out
}

func runRibConcCmd(args []string) error {
	f := drv.NewFlags("c11rib")
	workerFlag := f.FS.Bool("worker", false, "run the cases of -replay in this process")
	if err := f.Parse(args); err != nil {
		return err
	}
	var cases []ribConcCase
	if *f.Replay != "" {
		if err := drv.ReadJSON(*f.Replay, &cases); err != nil {
			return err
		}
	} else {
		r := drv.NewRng(*f.Seed)
		for i := 0; i < *f.N; i++ {
			cases = append(cases, ribConcCase{Seed: *f.Seed*1000 + int64(i), Callers: 2 + r.Intn(5), Readers: r.Intn(3), Rounds: 80 + r.Intn(120)})
		}
	}
	rep := drv.Report{Property: "C11", Seed: *f.Seed, Shard: drv.ShardSize, Stats: map[string]int{}, Cases: len(cases),
		Rule: "the RIB under concurrent callers of rib.RIB (race detector on): 2-6 goroutines program next-hops, groups over them (held until the next-hop exists), IPv4 entries over the groups and deletes in their own key spaces of two shared network instances, 0-2 readers walk RIBContents; watchdog on every call; each case in a worker process; quiescent: installed next-hops per key space = fold of the acknowledged calls; non-trivial = some held operation was resolved by a later call while other callers were active"}
	runOne := func(i int) drv.IsoResult {
		p, st := runRibConc(cases[i])
		return drv.IsoResult{Problem: p, Stats: st}
	}
	if *workerFlag {
		return drv.IsoWorker(*f.Out, len(cases), runOne)
	}
	if err := drv.WriteJSON(*f.Out+"/cases.json", cases); err != nil {
		return err
	}
	results, err := drv.IsoParent("c11rib", *f.Out+"/cases.json", *f.Out, len(cases), func(i int) string { return fmt.Sprintf("%+v", cases[i]) })
	if err != nil {
		return err
	}
	for i := range cases {
		r, ok := results[i]
		if !ok {
			r = drv.IsoResult{Problem: "no result recorded"}
		}
		for k, v := range r.Stats {
			rep.Stats[k] += v
		}
		if r.Problem != "" {
			rep.Violations = append(rep.Violations, drv.Verdict{Case: i, Problem: r.Problem})
		}
		if r.Stats["resolved_later"] > 0 {
			rep.Nontrivial++
		}
	}
	if err := drv.WriteCasesV(*f.Out, "From Coq Require Import List NArith.\nImport ListNotations.", "N", "(fun _ : list N => @nil N)", nil); err != nil {
		return err
	}
	return drv.WriteJSON(*f.Out+"/impl.json", rep)
}
