// vh-c11 is the runtime half of C11: built with -race, it runs concurrent Modify sessions, Get
// readers and Flush callers against one in-process server (no network), with a watchdog on every
// RPC, and checks the quiescent state.  Data races are reported by the race detector on stderr
// (GORACE=log_path=...), hangs and panics by this program.
package main

import (
	"bytes"
	"fmt"
	"runtime"
	"runtime/pprof"
	"sort"
	"strings"
	"sync"
	"sync/atomic"
	"time"

	"verifharness/drv"

	spb "github.com/openconfig/gribi/v1/proto/service"
)

func main() {
	drv.Main(map[string]drv.Cmd{"c11": run, "c11elect": drv.ElectConcCmd("c11elect", "C11"), "c11snap": drv.SnapCmd("C11"), "c11rib": runRibConcCmd})
}

type c11Case struct {
	Seed     int64 `json:"seed"`
	Sessions int   `json:"sessions"`
	Readers  int   `json:"readers"`
	Flushers int   `json:"flushers"`
	Rounds   int   `json:"rounds"`
	// Departers: goroutines that keep opening Modify sessions whose transport fails while a request of
	// several operations is being answered.  Abandoners: Get readers that go away mid-stream (at once or after a stall).
	Departers  int `json:"departers,omitempty"`
	Abandoners int `json:"abandoners,omitempty"`
}

type sessLog struct {
	announced []drv.U128 // accepted announcements
	acked     []string   // "ADD nh 12" / "DELETE nh 12" in acknowledgement order (own key space)
}

func stacks() string {
	var b bytes.Buffer
	pprof.Lookup("goroutine").WriteTo(&b, 1)
	s := b.String()
	if len(s) > 6000 {
		s = s[:6000]
	}
	return s
}

func runCase(c c11Case) (problem string, stats map[string]int) {
	stats = map[string]int{}
	defer func() {
		if e := recover(); e != nil {
			problem = fmt.Sprintf("PANIC: %v", e)
		}
	}()
	x, err := drv.NewSRun(drv.SCase{VRFs: []int{2, 3}})
	if err != nil {
		return err.Error(), stats
	}
	var wg, wgB sync.WaitGroup
	var hang atomic.Value
	stop := make(chan struct{})
	logs := make([]*sessLog, c.Sessions)
	uuids := make([]string, c.Sessions)
	var mu sync.Mutex
	fail := func(s string) {
		if hang.Load() == nil {
			hang.Store(s)
		}
	}
	// sessions connect one after the other (a session that has connected but not negotiated makes
	// every other negotiation inconsistent), then run concurrently
	sess := make([]*drv.Sess, c.Sessions)
	for i := 0; i < c.Sessions; i++ {
		s, err := x.D.Connect()
		if err != nil {
			return err.Error(), stats
		}
		rs, err := s.SendN(&spb.ModifyRequest{Params: &spb.SessionParameters{Redundancy: 1, Persistence: 1}}, 1)
		if err != nil || len(rs) != 1 {
			return fmt.Sprintf("session %d could not negotiate: %v", i, err), stats
		}
		sess[i], uuids[i], logs[i] = s, s.UUID, &sessLog{}
	}
	if c.Abandoners > 0 {
		// something to stream: session 0 announces (0,1) and installs two next-hops and four groups per instance
		el := drv.U128{Lo: 1}
		if rs, err := sess[0].SendN(&spb.ModifyRequest{ElectionId: el.Proto()}, 1); err != nil || len(rs) != 1 {
			return fmt.Sprintf("prelude announce: %v", err), stats
		}
		logs[0].announced = append(logs[0].announced, el)
		m := &spb.ModifyRequest{}
		id := uint64(80) << 32
		for _, ni := range []int{1, 2} {
			for k := uint64(5); k <= 6; k++ {
				id++
				m.Operation = append(m.Operation, drv.OpSpec{ID: id, NI: ni, Kind: "ADD", T: "nh", Key: k, Elec: &el}.Proto())
				logs[0].acked = append(logs[0].acked, fmt.Sprintf("ADD %d nh %d", ni, k))
			}
			for k := uint64(5); k <= 8; k++ {
				id++
				m.Operation = append(m.Operation, drv.OpSpec{ID: id, NI: ni, Kind: "ADD", T: "nhg", Key: k, NHs: [][2]uint64{{5 + k%2, 1}}, Elec: &el}.Proto())
			}
		}
		if rs, err := sess[0].SendBarrier(m); err != nil || len(rs) < 12 {
			return fmt.Sprintf("prelude operations: %d responses, %v", len(rs), err), stats
		}
	}
	for i := 0; i < c.Sessions; i++ {
		i := i
		wg.Add(1)
		go func() {
			defer wg.Done()
			r := drv.NewRng(c.Seed*100 + int64(i))
			s := sess[i]
			var last *drv.U128
			opid := uint64(i+1) << 32
			specs := map[uint64]drv.OpSpec{}
			for round := 0; round < c.Rounds && s.Live(); round++ {
				select {
				case <-stop:
					return
				default:
				}
				if last == nil || r.Chance(1, 3) {
					id := drv.U128{Hi: uint64(r.Intn(2)), Lo: uint64(2 + round*c.Sessions + i)}
					rs, err := s.SendN(&spb.ModifyRequest{ElectionId: id.Proto()}, 1)
					if err != nil {
						fail(fmt.Sprintf("session %d announce: %v\n%s", i, err, stacks()))
						return
					}
					if len(rs) == 1 && rs[0].GetElectionId() != nil {
						idc := id
						last = &idc
						mu.Lock()
						logs[i].announced = append(logs[i].announced, id)
						mu.Unlock()
					}
					continue
				}
				// operations in the session's own key space: next-hops 10i+1 .. 10i+4
				n := 1 + r.Intn(3)
				m := &spb.ModifyRequest{}
				for k := 0; k < n; k++ {
					opid++
					ni := drv.Pick(r, 1, 2)
					o := drv.OpSpec{ID: opid, NI: ni, Kind: drv.Pick(r, "ADD", "ADD", "DELETE"), T: "nh", Key: uint64(10*(i+1) + 1 + r.Intn(4)), Elec: last}
					if r.Chance(1, 4) {
						// a group over one of the session's own next-hops (held until that next-hop exists)
						o = drv.OpSpec{ID: opid, NI: ni, Kind: drv.Pick(r, "ADD", "ADD", "ADD", "DELETE"), T: "nhg", Key: uint64(10*(i+1) + 1 + r.Intn(3)),
							NHs: [][2]uint64{{uint64(10*(i+1) + 1 + r.Intn(4)), 1}}, Elec: last}
					}
					specs[opid] = o
					m.Operation = append(m.Operation, o.Proto())
				}
				rs, err := s.SendBarrier(m)
				if err != nil {
					fail(fmt.Sprintf("session %d operations: %v\n%s", i, err, stacks()))
					return
				}
				mu.Lock()
				for _, rsp := range rs {
					for _, res := range rsp.GetResult() {
						if sp, ok := specs[res.GetId()]; ok && res.GetStatus() == spb.AFTResult_RIB_PROGRAMMED && sp.T == "nh" {
							logs[i].acked = append(logs[i].acked, fmt.Sprintf("%s %d nh %d", sp.Kind, sp.NI, sp.Key))
						}
						if res.GetStatus() == spb.AFTResult_RIB_PROGRAMMED {
							stats["programmed_"+specs[res.GetId()].T]++
						}
					}
				}
				mu.Unlock()
			}
		}()
	}
	for g := 0; g < c.Readers; g++ {
		wgB.Add(1)
		go func() {
			defer wgB.Done()
			for {
				select {
				case <-stop:
					return
				default:
				}
				items, _, h := x.D.DoGet(drv.GetSpec{NI: "all", AFT: "ALL"}.GetReq(), -1)
				if h != "" {
					fail(h + "\n" + stacks())
					return
				}
				if p := drv.ClosedSnapshot(items, c.Flushers == 0); p != "" {
					fail(p)
					return
				}
				mu.Lock()
				stats["gets"]++
				mu.Unlock()
			}
		}()
	}
	for dp := 0; dp < c.Departers; dp++ {
		dp := dp
		wgB.Add(1)
		go func() {
			defer wgB.Done()
			r := drv.NewRng(c.Seed*100 + 77 + int64(dp))
			opid := uint64(90+dp) << 32
			for {
				select {
				case <-stop:
					return
				case <-time.After(2 * time.Millisecond):
				}
				s, err := x.D.Connect()
				if err != nil {
					fail("departing session: " + err.Error())
					return
				}
				if rs, err := s.SendN(&spb.ModifyRequest{Params: &spb.SessionParameters{Redundancy: 1, Persistence: 1}}, 1); err != nil {
					fail(fmt.Sprintf("departing session could not negotiate: %v\n%s", err, stacks()))
					return
				} else if len(rs) != 1 {
					// refused: another departing session had connected and not negotiated yet (it counts with default parameters)
					mu.Lock()
					stats["negotiations_refused"]++
					mu.Unlock()
					continue
				}
				// it announces a low id (usually not the highest; if it is, it is the primary and is recorded like any other)
				el := drv.U128{Lo: uint64(1 + r.Intn(3))}
				rs, err := s.SendN(&spb.ModifyRequest{ElectionId: el.Proto()}, 1)
				if err != nil {
					fail(fmt.Sprintf("departing session announce: %v\n%s", err, stacks()))
					return
				}
				if len(rs) == 1 && rs[0].GetElectionId() != nil {
					mu.Lock()
					logs = append(logs, &sessLog{announced: []drv.U128{el}})
					uuids = append(uuids, s.UUID)
					mu.Unlock()
				}
				k := 2 + r.Intn(4)
				m := &spb.ModifyRequest{}
				for j := 0; j < k; j++ {
					opid++
					// its own instance (VRF-B) and key space: one response per operation, PROGRAMMED or FAILED
					m.Operation = append(m.Operation, drv.OpSpec{ID: opid, NI: 3, Kind: "ADD", T: "nh", Key: uint64(900 + j), Elec: &el}.Proto())
				}
				if _, err := s.SendFailDuring(m, r.Intn(k)); err != nil {
					fail(fmt.Sprintf("departing session: %v\n%s", err, stacks()))
					return
				}
				mu.Lock()
				stats["departures"]++
				mu.Unlock()
			}
		}()
	}
	for g := 0; g < c.Abandoners; g++ {
		g := g
		wgB.Add(1)
		go func() {
			defer wgB.Done()
			r := drv.NewRng(c.Seed*100 + 88 + int64(g))
			for {
				select {
				case <-stop:
					return
				case <-time.After(time.Millisecond):
				}
				_, _, h := x.D.DoGetStall(drv.GetSpec{NI: "all", AFT: "ALL"}.GetReq(), r.Intn(8), time.Duration(drv.Pick(r, 0, 5, 5))*time.Millisecond)
				if h != "" {
					fail(h + "\n" + stacks())
					return
				}
				mu.Lock()
				stats["abandoned_gets"]++
				mu.Unlock()
			}
		}()
	}
	for f := 0; f < c.Flushers; f++ {
		wgB.Add(1)
		go func() {
			defer wgB.Done()
			nfl := 0
			for {
				select {
				case <-stop:
					return
				case <-time.After(3 * time.Millisecond):
				}
				fs := drv.FlushSpec{Elec: "override", NI: "all"}
				if nfl%2 == 1 {
					// an id-carrying Flush compares with the server's highest id (mostly rejected: NOT_PRIMARY)
					fs = drv.FlushSpec{Elec: "id", ID: &drv.U128{Lo: uint64(nfl)}, NI: "name", Name: 3}
					if nfl%4 == 3 {
						// ... or lies above every id a session announces: a Flush is judged against the election state,
						// it never changes it
						fs.ID = &drv.U128{Hi: 1 << 40, Lo: uint64(nfl)}
					}
				}
				nfl++
				_, h := x.D.DoFlush(fs.FlushReq())
				if h != "" {
					fail(h + "\n" + stacks())
					return
				}
				mu.Lock()
				stats["flushes"]++
				mu.Unlock()
			}
		}()
	}
	// the sessions decide when the run ends; readers and flushers run until then
	waitFor := func(w *sync.WaitGroup, what string, d time.Duration) string {
		done := make(chan struct{})
		go func() { w.Wait(); close(done) }()
		select {
		case <-done:
			return ""
		case <-time.After(d):
			return "HANG: " + what + " did not finish within " + d.String() + "\n" + stacks()
		}
	}
	if p := waitFor(&wg, "Modify sessions", time.Duration(c.Rounds)*50*time.Millisecond+20*time.Second); p != "" {
		close(stop)
		return p, stats
	}
	close(stop)
	if p := waitFor(&wgB, "Get readers / Flush callers", 20*time.Second); p != "" {
		return p, stats
	}
	if h := hang.Load(); h != nil {
		return h.(string), stats
	}
	// ---- quiescent checks ----
	id, master := x.D.S.VerifElection()
	var max *drv.U128
	announcers := map[string]bool{}
	for i, l := range logs {
		for _, a := range l.announced {
			if max == nil || max.Less(a) {
				m := a
				max = &m
				announcers = map[string]bool{}
			}
			if *max == a {
				announcers[uuids[i]] = true
			}
		}
		stats["announcements"] += len(l.announced)
		stats["acks"] += len(l.acked)
	}
	if max != nil {
		if id == nil || id.High != max.Hi || id.Low != max.Lo {
			return fmt.Sprintf("quiescent election id %v, maximum announced %v", id, *max), stats
		}
		if !announcers[master] {
			return fmt.Sprintf("quiescent primary %q did not announce the maximum id %v", master, *max), stats
		}
	}
	if c.Flushers == 0 {
		want := map[string]bool{}
		for _, l := range logs {
			for _, a := range l.acked {
				f := strings.Fields(a)
				k := f[1] + " " + f[3]
				if f[0] == "ADD" {
					want[k] = true
				} else {
					delete(want, k)
				}
			}
		}
		got := map[string]bool{}
		cont, _ := x.D.S.VerifRIB().RIBContents()
		for name, rr := range cont {
			for idx := range rr.GetAfts().NextHop {
				if drv.NICode(name) == 3 {
					continue // the departing sessions' instance
				}
				got[fmt.Sprintf("%d %d", drv.NICode(name), idx)] = true
			}
		}
		var diff []string
		for k := range want {
			if !got[k] {
				diff = append(diff, "missing "+k)
			}
		}
		for k := range got {
			if !want[k] {
				diff = append(diff, "unexpected "+k)
			}
		}
		sort.Strings(diff)
		if len(diff) > 0 {
			return "quiescent installed next-hops differ from the acknowledged operations: " + strings.Join(diff, "; "), stats
		}
	}
	x.Finish()
	runtime.GC()
	return "", stats
}

func run(args []string) error {
	f := drv.NewFlags("c11")
	workerFlag := f.FS.Bool("worker", false, "run the cases of -replay in this process")
	if err := f.Parse(args); err != nil {
		return err
	}
	var cases []c11Case
	if *f.Replay != "" {
		if err := drv.ReadJSON(*f.Replay, &cases); err != nil {
			return err
		}
	} else {
		r := drv.NewRng(*f.Seed)
		for i := 0; i < *f.N; i++ {
			c := c11Case{Seed: *f.Seed*1000 + int64(i), Sessions: 2 + r.Intn(3), Readers: r.Intn(3), Flushers: r.Intn(3), Rounds: 60 + r.Intn(120)}
			if i%2 == 1 {
				c.Departers, c.Abandoners = r.Intn(3), r.Intn(3)
				if i%4 == 1 {
					c.Flushers = 0
				}
				if c.Departers+c.Abandoners == 0 {
					c.Departers = 1
				}
			}
			cases = append(cases, c)
		}
	}
	rep := drv.Report{Property: "C11", Seed: *f.Seed, Shard: drv.ShardSize, Stats: map[string]int{}, Cases: len(cases),
		Rule: "stress runs under the Go race detector: 2-4 Modify sessions announcing contested election ids and programming their own next-hop and next-hop-group key spaces (groups may be held until their next-hop arrives), 0-2 Get readers, 0-1 Flush caller, in every second case also Modify sessions whose transport fails while a multi-operation request is being answered and Get readers that go away mid-stream (at once or after a stall), all concurrent on one server, watchdog on every RPC; quiescent checks: election id = maximum announced, primary announced it, without Flush the installed next-hops = fold of acknowledged operations; non-trivial = at least two sessions had announcements accepted and at least one Get or Flush overlapped; distinct by (seed, shape)"}
	runOne := func(i int) drv.IsoResult {
		p, st := runCase(cases[i])
		return drv.IsoResult{Problem: p, Stats: st}
	}
	if *workerFlag {
		return drv.IsoWorker(*f.Out, len(cases), runOne)
	}
	if err := drv.WriteJSON(*f.Out+"/cases.json", cases); err != nil {
		return err
	}
	// every case runs in a worker process: a panic in a server goroutine ends the process it is in
	results, err := drv.IsoParent("c11", *f.Out+"/cases.json", *f.Out, len(cases), func(i int) string { return fmt.Sprintf("%+v", cases[i]) })
	if err != nil {
		return err
	}
	nt := 0
	for i, c := range cases {
		r, ok := results[i]
		if !ok {
			r = drv.IsoResult{Problem: "no result recorded"}
		}
		p, st := r.Problem, r.Stats
		for k, v := range st {
			rep.Stats[k] += v
		}
		if p != "" {
			v := drv.Verdict{Case: i, Problem: p}
			if strings.Contains(p, "HANG") {
				rep.Hangs = append(rep.Hangs, v)
			} else {
				rep.Violations = append(rep.Violations, v)
			}
		}
		if st["announcements"] >= 2 && (st["gets"] > 0 || st["flushes"] > 0 || st["departures"] > 0 || st["abandoned_gets"] > 0) {
			nt++
		}
		if i < 2 {
			rep.Samples = append(rep.Samples, map[string]any{"case": c, "stats": st})
		}
	}
	rep.Nontrivial = nt
	// the Coq side of C11 is about the regenerated lock table and the election model; no per-case model run
	if err := drv.WriteCasesV(*f.Out, "From Coq Require Import List NArith.\nImport ListNotations.", "N", "(fun _ : list N => @nil N)", nil); err != nil {
		return err
	}
	return drv.WriteJSON(*f.Out+"/impl.json", rep)
}
