// vh-c17 is the correspondence / oracle harness of property C17 (package chk): it runs the real
// chk helpers against a capturing testing.TB on generated result lists, Get responses and client
// errors, and writes
//
//	<out>/cases.json   the generated cases (replayable inputs)
//	<out>/cases_<k>.v  the same cases with fatal / not fatal, as Gallina terms for Tools/ChkCases.v
//	<out>/impl.json    verdicts of the model-free oracle (direct search for the wanted item) and statistics
package main

import "verifharness/drv"

func main() { drv.Main(map[string]drv.Cmd{"c17": runC17}) }
