package main

import (
	"io"
	"encoding/json"
	"errors"
	"fmt"
	"sort"
	"strings"
	"testing"

	"verifharness/drv"

	"github.com/openconfig/gribigo/chk"
	"github.com/openconfig/gribigo/client"
	"github.com/openconfig/gribigo/constants"
	"github.com/openconfig/gribigo/fluent"
	"google.golang.org/grpc/codes"
	"google.golang.org/grpc/status"

	aftpb "github.com/openconfig/gribi/v1/proto/gribi_aft"
	enums "github.com/openconfig/gribi/v1/proto/gribi_aft/enums"
	spb "github.com/openconfig/gribi/v1/proto/service"
)

// ----------------------------------------------------------------------------- case format

// Det is a client.OpDetailsResults.
type Det struct {
	Type int64  `json:"type,omitempty"`
	NH   uint64 `json:"nh,omitempty"`
	NHG  uint64 `json:"nhg,omitempty"`
	V4   string `json:"v4,omitempty"`
	V6   string `json:"v6,omitempty"`
	MPLS uint64 `json:"mpls,omitempty"`
}

// Res is a client.OpResult.
type Res struct {
	TS     int64      `json:"ts,omitempty"`
	Lat    int64      `json:"lat,omitempty"`
	Elec   *[2]uint64 `json:"elec,omitempty"` // high, low
	Params *int32     `json:"params,omitempty"`
	OpID   uint64     `json:"opid,omitempty"`
	CErr   string     `json:"cerr,omitempty"`
	SErr   string     `json:"serr,omitempty"`
	Status int32      `json:"status,omitempty"`
	Det    *Det       `json:"det,omitempty"`
}

// Ent is an spb.AFTEntry of a Get response, or a wanted entry.
type Ent struct {
	NI   string `json:"ni"`
	Kind string `json:"kind"` // v4 v6 mpls mplsenum nhg nh mac pf nil; for wants also err
	S    string `json:"s,omitempty"`
	N    uint64 `json:"n,omitempty"`
	Pay  int    `json:"pay,omitempty"` // payload variation below the key: must not matter
	Raw  bool   `json:"raw,omitempty"` // want built by hand instead of through the fluent builder
}

// St is a gRPC status error (or an unrelated error) of ClientErr.Send / Recv, or the wanted status.
type St struct {
	Plain bool    `json:"plain,omitempty"` // errors.New: not a status
	Code  uint32  `json:"code,omitempty"`
	Msg   string  `json:"msg,omitempty"`
	Dets  []int32 `json:"dets,omitempty"` // one ModifyRPCErrorDetails{Reason} per element
}

// Item is one element of the list a case is shrunk over.
type Item struct {
	T string `json:"t"` // res want | entry gwant | send recv
	R *Res   `json:"r,omitempty"`
	E *Ent   `json:"e,omitempty"`
	S *St    `json:"s,omitempty"`
}

// Case is one call of one helper.
type Case struct {
	K       string   `json:"k"` // hasresult cache get nsend nrecv status
	IgnOp   bool     `json:"ign_opid,omitempty"`
	IncSerr bool     `json:"inc_serr,omitempty"`
	Want    *Res     `json:"want,omitempty"`  // hasresult
	Count   int      `json:"count,omitempty"` // nsend nrecv
	Err     string   `json:"err,omitempty"`   // nil other client (nsend nrecv status)
	SWant   *St      `json:"swant,omitempty"` // status
	EOpts   []string `json:"eopts,omitempty"` // status: allow ign, in call order
	Items   []Item   `json:"items"`
}

func (c Case) list(t string) []Item {
	var out []Item
	for _, it := range c.Items {
		switch {
		case it.T != t:
		case (t == "res" || t == "want") && it.R == nil:
		case (t == "entry" || t == "gwant") && it.E == nil:
		case (t == "send" || t == "recv") && (it.S == nil || (!it.S.Plain && it.S.Code == 0)):
			// a status with code OK is no error (status.Err() is nil): not representable, dropped
		default:
			out = append(out, it)
		}
	}
	return out
}

// ----------------------------------------------------------------------------- to the real types

func (d *Det) real() *client.OpDetailsResults {
	if d == nil {
		return nil
	}
	return &client.OpDetailsResults{Type: constants.OpType(d.Type), NextHopIndex: d.NH, NextHopGroupID: d.NHG,
		IPv4Prefix: d.V4, IPv6Prefix: d.V6, MPLSLabel: d.MPLS}
}

func (r *Res) real() *client.OpResult {
	o := &client.OpResult{Timestamp: r.TS, Latency: r.Lat, OperationID: r.OpID, ClientError: r.CErr, ServerError: r.SErr,
		ProgrammingResult: spb.AFTResult_Status(r.Status), Details: r.Det.real()}
	if r.Elec != nil {
		o.CurrentServerElectionID = &spb.Uint128{High: r.Elec[0], Low: r.Elec[1]}
	}
	if r.Params != nil {
		o.SessionParameters = &spb.SessionParametersResult{Status: spb.SessionParametersResult_Status(*r.Params)}
	}
	return o
}

func (e *Ent) proto() *spb.AFTEntry {
	p := &spb.AFTEntry{NetworkInstance: e.NI}
	if e.Pay >= 2 {
		p.RibStatus = spb.AFTEntry_PROGRAMMED
		p.FibStatus = spb.AFTEntry_NOT_PROGRAMMED
	}
	switch e.Kind {
	case "v4":
		k := &aftpb.Afts_Ipv4EntryKey{Prefix: e.S}
		if e.Pay >= 1 {
			k.Ipv4Entry = &aftpb.Afts_Ipv4Entry{}
		}
		p.Entry = &spb.AFTEntry_Ipv4{Ipv4: k}
	case "v6":
		k := &aftpb.Afts_Ipv6EntryKey{Prefix: e.S}
		if e.Pay >= 1 {
			k.Ipv6Entry = &aftpb.Afts_Ipv6Entry{}
		}
		p.Entry = &spb.AFTEntry_Ipv6{Ipv6: k}
	case "mpls":
		k := &aftpb.Afts_LabelEntryKey{Label: &aftpb.Afts_LabelEntryKey_LabelUint64{LabelUint64: e.N}}
		if e.Pay >= 1 {
			k.LabelEntry = &aftpb.Afts_LabelEntry{}
		}
		p.Entry = &spb.AFTEntry_Mpls{Mpls: k}
	case "mplsenum":
		p.Entry = &spb.AFTEntry_Mpls{Mpls: &aftpb.Afts_LabelEntryKey{Label: &aftpb.Afts_LabelEntryKey_LabelOpenconfigmplstypesmplslabelenum{
			LabelOpenconfigmplstypesmplslabelenum: enums.OpenconfigMplsTypesMplsLabelEnum(1 + e.N%4)}}}
	case "nhg":
		k := &aftpb.Afts_NextHopGroupKey{Id: e.N}
		if e.Pay >= 1 {
			k.NextHopGroup = &aftpb.Afts_NextHopGroup{}
		}
		p.Entry = &spb.AFTEntry_NextHopGroup{NextHopGroup: k}
	case "nh":
		k := &aftpb.Afts_NextHopKey{Index: e.N}
		if e.Pay >= 1 {
			k.NextHop = &aftpb.Afts_NextHop{}
		}
		p.Entry = &spb.AFTEntry_NextHop{NextHop: k}
	case "mac":
		p.Entry = &spb.AFTEntry_MacEntry{MacEntry: &aftpb.Afts_MacEntryKey{MacAddress: e.S}}
	case "pf":
		p.Entry = &spb.AFTEntry_PolicyForwardingEntry{PolicyForwardingEntry: &aftpb.Afts_PolicyForwardingEntryKey{}}
	}
	return p
}

// rawWant implements fluent.GRIBIEntry by hand (any AFTEntry, or an error).
type rawWant struct {
	e   *spb.AFTEntry
	err error
}

func (r rawWant) OpProto() (*spb.AFTOperation, error) { return nil, errors.New("not an operation") }
func (r rawWant) EntryProto() (*spb.AFTEntry, error)  { return r.e, r.err }

// want returns the fluent.GRIBIEntry: through the fluent builder whenever it can express the entry.
func (e *Ent) want() fluent.GRIBIEntry {
	if e.Kind == "err" {
		return rawWant{err: errors.New("cannot build entry")}
	}
	if !e.Raw {
		switch e.Kind {
		case "v4":
			return fluent.IPv4Entry().WithNetworkInstance(e.NI).WithPrefix(e.S)
		case "v6":
			return fluent.IPv6Entry().WithNetworkInstance(e.NI).WithPrefix(e.S)
		case "mpls":
			if e.N < 1<<32 {
				return fluent.LabelEntry().WithNetworkInstance(e.NI).WithLabel(uint32(e.N))
			}
		case "nhg":
			return fluent.NextHopGroupEntry().WithNetworkInstance(e.NI).WithID(e.N)
		case "nh":
			return fluent.NextHopEntry().WithNetworkInstance(e.NI).WithIndex(e.N)
		}
	}
	return rawWant{e: e.proto()}
}

// status builds the *status.Status (details cannot be attached to code OK: swant0 drops them).
func (s *St) status() *status.Status {
	st := status.New(codes.Code(s.Code), s.Msg)
	for _, d := range s.Dets {
		var err error
		if st, err = st.WithDetails(&spb.ModifyRPCErrorDetails{Reason: spb.ModifyRPCErrorDetails_Reason(d)}); err != nil {
			panic(err)
		}
	}
	return st
}

func (s *St) err() error {
	if s.Plain {
		switch s.Msg {
		case "EOF": // what the client records when a write races with the server tearing the stream down
			return io.EOF
		case "wrapped EOF":
			return fmt.Errorf("sending: %w", io.EOF)
		}
		return errors.New("not a status: " + s.Msg)
	}
	return s.status().Err()
}

func errList(items []Item) []error {
	var out []error
	for _, it := range items {
		out = append(out, it.S.err())
	}
	return out
}

func (c Case) clientErr() error {
	switch c.Err {
	case "nil", "":
		return nil
	case "other":
		return errors.New("some other error")
	}
	return &client.ClientErr{Send: errList(c.list("send")), Recv: errList(c.list("recv"))}
}

// ----------------------------------------------------------------------------- running the real helpers

func resList(items []Item) []*client.OpResult {
	out := []*client.OpResult{}
	for _, it := range items {
		out = append(out, it.R.real())
	}
	return out
}

func (c Case) want0() *Res {
	if c.Want == nil {
		return &Res{}
	}
	return c.Want
}

func (c Case) swant0() *St {
	if c.SWant == nil {
		return &St{}
	}
	w := *c.SWant
	w.Plain = false
	if w.Code == 0 {
		w.Dets = nil // status.WithDetails refuses code OK
	}
	return &w
}

func (c Case) eopts() []chk.ErrorOpt {
	var out []chk.ErrorOpt
	for _, o := range c.EOpts {
		switch o {
		case "allow":
			out = append(out, chk.AllowUnimplemented())
		case "ign":
			out = append(out, chk.IgnoreDetails())
		}
	}
	return out
}

// run calls the real helper of the case.
func run(c Case) (fatal bool, odd string) {
	return capture(func(t testing.TB) {
		switch c.K {
		case "hasresult":
			res, w := resList(c.list("res")), c.want0().real()
			switch {
			case c.IgnOp && c.IncSerr:
				chk.HasResult(t, res, w, chk.IgnoreOperationID(), chk.IncludeServerError())
			case c.IgnOp:
				chk.HasResult(t, res, w, chk.IgnoreOperationID())
			case c.IncSerr:
				chk.HasResult(t, res, w, chk.IncludeServerError())
			default:
				chk.HasResult(t, res, w)
			}
		case "cache":
			res, ws := resList(c.list("res")), resList(c.list("want"))
			switch {
			case c.IgnOp && c.IncSerr:
				chk.HasResultsCache(t, res, ws, chk.IncludeServerError(), chk.IgnoreOperationID())
			case c.IgnOp:
				chk.HasResultsCache(t, res, ws, chk.IgnoreOperationID())
			case c.IncSerr:
				chk.HasResultsCache(t, res, ws, chk.IncludeServerError())
			default:
				chk.HasResultsCache(t, res, ws)
			}
		case "get":
			g := &spb.GetResponse{}
			for _, it := range c.list("entry") {
				g.Entry = append(g.Entry, it.E.proto())
			}
			var ws []fluent.GRIBIEntry
			for _, it := range c.list("gwant") {
				ws = append(ws, it.E.want())
			}
			chk.GetResponseHasEntries(t, g, ws...)
		case "nsend":
			chk.HasNSendErrors(t, c.clientErr(), c.Count)
		case "nrecv":
			chk.HasNRecvErrors(t, c.clientErr(), c.Count)
		case "status":
			chk.HasRecvClientErrorWithStatus(t, c.clientErr(), c.swant0().status(), c.eopts()...)
		}
	})
}

// ----------------------------------------------------------------------------- model-free oracle
// The property's own predicates, by direct search over the inputs; nothing of chk's structure
// (indexes, option plumbing) is reproduced.

func detEq(a, b *Det) bool { return *a == *b }

// matches: r is "a result of value w" under the documented ignore rules.
func matches(c Case, r, w *Res) bool {
	if (r.Elec == nil) != (w.Elec == nil) || (r.Elec != nil && *r.Elec != *w.Elec) {
		return false
	}
	if (r.Params == nil) != (w.Params == nil) || (r.Params != nil && *r.Params != *w.Params) {
		return false
	}
	if !c.IgnOp && r.OpID != w.OpID {
		return false
	}
	if r.CErr != w.CErr || r.Status != w.Status {
		return false
	}
	if c.IncSerr && r.SErr != w.SErr {
		return false
	}
	if w.Det != nil && (r.Det == nil || !detEq(r.Det, w.Det)) {
		return false
	}
	return true
}

func present(c Case, res []Item, w *Res) bool {
	for _, it := range res {
		if matches(c, it.R, w) {
			return true
		}
	}
	return false
}

// detKey is the first key a details struct names ("" if none).
func detKey(d *Det) string {
	switch {
	case d == nil:
		return ""
	case d.NHG != 0:
		return fmt.Sprintf("nhg:%d", d.NHG)
	case d.NH != 0:
		return fmt.Sprintf("nh:%d", d.NH)
	case d.V4 != "":
		return "v4:" + d.V4
	case d.V6 != "":
		return "v6:" + d.V6
	case d.MPLS != 0:
		return fmt.Sprintf("mpls:%d", d.MPLS)
	}
	return ""
}

func kindOfKey(k string) string {
	if k == "" {
		return "nokey"
	}
	return k[:strings.Index(k, ":")]
}

func resKeysUnique(c Case, res []Item) bool {
	seen := map[string]bool{}
	for _, it := range res {
		k := fmt.Sprintf("op:%d", it.R.OpID)
		if c.IgnOp {
			if k = detKey(it.R.Det); k == "" {
				continue
			}
		}
		if seen[k] {
			return false
		}
		seen[k] = true
	}
	return true
}

func entKey(e *Ent) string {
	switch e.Kind {
	case "v4", "v6":
		if e.S != "" {
			return e.Kind + ":" + e.S
		}
	case "mpls", "nhg", "nh":
		if e.N != 0 {
			return fmt.Sprintf("%s:%d", e.Kind, e.N)
		}
	}
	return "" // no key set (or a kind without one)
}

func entPresent(entries []Item, w *Ent) bool {
	k := entKey(w)
	if w.Kind == "err" || w.NI == "" || k == "" {
		return false
	}
	for _, it := range entries {
		if it.E.NI == w.NI && entKey(it.E) == k {
			return true
		}
	}
	return false
}

func statusOK(c Case, e, w *St) bool {
	if e.Plain {
		return false
	}
	allow, ign := false, false
	for _, o := range c.EOpts {
		allow = allow || o == "allow"
		ign = ign || o == "ign"
	}
	if allow && e.Code == 12 {
		return true
	}
	if e.Code != w.Code || (w.Msg != "" && e.Msg != w.Msg) {
		return false
	}
	if ign {
		return true
	}
	if len(e.Dets) != len(w.Dets) {
		return false
	}
	for i := range e.Dets {
		if e.Dets[i] != w.Dets[i] {
			return false
		}
	}
	return true
}

// oracle returns "" or what is wrong with the observed verdict, plus facts for the statistics.
func oracle(c Case, fatal bool, odd string, st map[string]int) (problem string, nontrivial bool) {
	if odd != "" {
		return c.K + ": " + odd, true
	}
	verdict := func(f bool) string {
		if f {
			return "fatal"
		}
		return "passed"
	}
	switch c.K {
	case "hasresult":
		p := present(c, c.list("res"), c.want0())
		st["hasresult_want_"+map[bool]string{true: "present", false: "absent"}[p]]++
		if fatal == p {
			return fmt.Sprintf("HasResult %s although the wanted result is %s", verdict(fatal), map[bool]string{true: "present", false: "absent"}[p]), true
		}
		return "", !p
	case "cache":
		res, ws := c.list("res"), c.list("want")
		uniq := resKeysUnique(c, res)
		if !uniq {
			st["cache_duplicate_keys"]++
		}
		all, nodet := true, false
		absent := ""
		for i, it := range ws {
			kind := kindOfKey(detKey(it.R.Det))
			if it.R.Det == nil {
				kind = "nodetails"
				nodet = true
			}
			p := present(c, res, it.R)
			st[fmt.Sprintf("cache_want_%s_%s", kind, map[bool]string{true: "present", false: "absent"}[p])]++
			if !p && absent == "" {
				all = false
				absent = fmt.Sprintf("want #%d (%s%s) is absent from the results", i, kind, map[bool]string{true: ", IgnoreOperationID", false: ""}[c.IgnOp])
			}
		}
		if !fatal && !all {
			return "HasResultsCache passed although " + absent + " (plain HasResult is fatal)", true
		}
		if fatal && all && uniq && !(c.IgnOp && nodet) {
			return "HasResultsCache fatal although every want is present and result keys are unique", true
		}
		return "", !all || !uniq
	case "get":
		es, ws := c.list("entry"), c.list("gwant")
		all := true
		absent := ""
		for i, it := range ws {
			p := entPresent(es, it.E)
			st[fmt.Sprintf("get_want_%s_%s", it.E.Kind, map[bool]string{true: "present", false: "absent"}[p])]++
			if !p && absent == "" {
				all = false
				absent = fmt.Sprintf("want #%d (kind %s) has no entry of that kind and key in network instance %q", i, it.E.Kind, it.E.NI)
			}
		}
		if !fatal && !all {
			return "GetResponseHasEntries passed although " + absent, true
		}
		if fatal && all {
			return "GetResponseHasEntries fatal although every wanted entry is present", true
		}
		return "", !all
	case "nsend", "nrecv":
		n := -1
		switch c.Err {
		case "nil", "":
			n = 0
		case "client":
			n = len(c.list(c.K[1:]))
		}
		ok := n >= 0 && n == c.Count
		st[c.K+"_count_"+map[bool]string{true: "equal", false: "different"}[ok]]++
		if fatal == ok {
			return fmt.Sprintf("%s %s: error holds %d errors (-1: not a ClientErr), wanted %d", c.K, verdict(fatal), n, c.Count), true
		}
		return "", !ok
	case "status":
		ok := false
		if c.Err == "client" {
			for _, it := range c.list("recv") {
				ok = ok || statusOK(c, it.S, c.swant0())
			}
		}
		st["status_want_"+map[bool]string{true: "present", false: "absent"}[ok]]++
		if fatal == ok {
			return fmt.Sprintf("HasRecvClientErrorWithStatus %s although a matching receive error is %s", verdict(fatal), map[bool]string{true: "present", false: "absent"}[ok]), true
		}
		return "", !ok
	}
	return "", false
}

// ----------------------------------------------------------------------------- Gallina printers

func cstr(s string) string { return `"` + strings.ReplaceAll(s, `"`, `""`) + `"%string` }
func cN(n uint64) string   { return fmt.Sprintf("%d%%N", n) }
func cZ(n int64) string    { return fmt.Sprintf("(%d)%%Z", n) }
func cbool(b bool) string {
	if b {
		return "true"
	}
	return "false"
}

func (d *Det) coq() string {
	if d == nil {
		return "None"
	}
	return fmt.Sprintf("(Some (mkd %s %s %s %s %s %s))", cZ(d.Type), cN(d.NH), cN(d.NHG), cstr(d.V4), cstr(d.V6), cN(d.MPLS))
}

func (r *Res) coq() string {
	el, pa := "None", "None"
	if r.Elec != nil {
		el = fmt.Sprintf("(Some (%s, %s))", cN(r.Elec[0]), cN(r.Elec[1]))
	}
	if r.Params != nil {
		pa = fmt.Sprintf("(Some %s)", cN(uint64(uint32(*r.Params))))
	}
	return fmt.Sprintf("mkr %s %s %s %s %s %s %s %s %s", cZ(r.TS), cZ(r.Lat), el, pa, cN(r.OpID), cstr(r.CErr), cstr(r.SErr), cZ(int64(r.Status)), r.Det.coq())
}

func (e *Ent) coq() string {
	en := "None"
	switch e.Kind {
	case "v4":
		en = "(Some (E4 " + cstr(e.S) + "))"
	case "v6":
		en = "(Some (E6 " + cstr(e.S) + "))"
	case "mpls":
		en = "(Some (EMpls " + cN(e.N) + "))"
	case "mplsenum":
		en = "(Some (EMpls 0%N))" // GetLabelUint64() of the enum variant
	case "nhg":
		en = "(Some (ENhg " + cN(e.N) + "))"
	case "nh":
		en = "(Some (ENh " + cN(e.N) + "))"
	case "mac":
		en = "(Some (EOther 1%N))"
	case "pf":
		en = "(Some (EOther 2%N))"
	}
	return fmt.Sprintf("mke %s %s", cstr(e.NI), en)
}

func (e *Ent) coqWant() string {
	if e.Kind == "err" {
		return "WErr"
	}
	return "WEntry (" + e.coq() + ")"
}

func (s *St) coqDets() string {
	ds := []string{}
	for _, d := range s.Dets {
		ds = append(ds, cN(uint64(uint32(d))))
	}
	return drv.CoqList(ds)
}

func (s *St) coqErr() string {
	if s.Plain {
		return "RPlain"
	}
	return fmt.Sprintf("RStatus %s %s %s", cN(uint64(s.Code)), cstr(s.Msg), s.coqDets())
}

func coqItems(items []Item, f func(Item) string) string {
	xs := []string{}
	for _, it := range items {
		xs = append(xs, f(it))
	}
	return drv.CoqList(xs)
}

func (c Case) coqErr() string {
	switch c.Err {
	case "nil", "":
		return "ENil"
	case "other":
		return "ENotClient"
	}
	f := func(it Item) string { return it.S.coqErr() }
	return fmt.Sprintf("(EClient %s %s)", coqItems(c.list("send"), f), coqItems(c.list("recv"), f))
}

func (c Case) coq(fatal bool) string {
	o := fmt.Sprintf("(mko %s %s)", cbool(c.IgnOp), cbool(c.IncSerr))
	fr := func(it Item) string { return it.R.coq() }
	switch c.K {
	case "hasresult":
		return fmt.Sprintf("CHasResult %s %s (%s) %s", o, coqItems(c.list("res"), fr), c.want0().coq(), cbool(fatal))
	case "cache":
		return fmt.Sprintf("CCache %s %s %s %s", o, coqItems(c.list("res"), fr), coqItems(c.list("want"), fr), cbool(fatal))
	case "get":
		return fmt.Sprintf("CGet %s %s %s", coqItems(c.list("entry"), func(it Item) string { return it.E.coq() }),
			coqItems(c.list("gwant"), func(it Item) string { return it.E.coqWant() }), cbool(fatal))
	case "nsend":
		return fmt.Sprintf("CNSend %s %s %s", c.coqErr(), cZ(int64(c.Count)), cbool(fatal))
	case "nrecv":
		return fmt.Sprintf("CNRecv %s %s %s", c.coqErr(), cZ(int64(c.Count)), cbool(fatal))
	case "status":
		eo := []string{}
		for _, x := range c.EOpts {
			switch x {
			case "allow":
				eo = append(eo, "AllowUnimplemented")
			case "ign":
				eo = append(eo, "IgnoreDetails")
			}
		}
		w := c.swant0()
		return fmt.Sprintf("CStatus %s (mks %s %s %s) %s %s", c.coqErr(), cN(uint64(w.Code)), cstr(w.Msg), w.coqDets(), drv.CoqList(eo), cbool(fatal))
	}
	// an unknown helper name (hand-edited replay): a call that does nothing and passes
	return "CNSend ENil (0)%Z " + cbool(fatal)
}

// ----------------------------------------------------------------------------- main

// roundRobin orders the verdicts so that different kinds of failure come first (the check reports
// the first few): first one verdict of every class, then the second of every class, ...
// A class is the problem text without its numbers.
func roundRobin(vs []drv.Verdict) []drv.Verdict {
	class := func(p string) string {
		return strings.Map(func(r rune) rune {
			if r >= '0' && r <= '9' {
				return -1
			}
			return r
		}, p)
	}
	rank := map[string]int{}
	type kv struct {
		rank, pos int
	}
	keys := make([]kv, len(vs))
	for i, v := range vs {
		c := class(v.Problem)
		keys[i] = kv{rank[c], i}
		rank[c]++
	}
	idx := make([]int, len(vs))
	for i := range idx {
		idx[i] = i
	}
	sort.SliceStable(idx, func(a, b int) bool { return keys[idx[a]].rank < keys[idx[b]].rank })
	out := make([]drv.Verdict, 0, len(vs))
	for _, i := range idx {
		out = append(out, vs[i])
	}
	return out
}

func runC17(args []string) error {
	f := drv.NewFlags("c17")
	if err := f.Parse(args); err != nil {
		return err
	}
	r := drv.NewRng(*f.Seed)
	var cases []Case
	if *f.Replay != "" {
		if err := drv.ReadJSON(*f.Replay, &cases); err != nil {
			return err
		}
	} else {
		cases = fixedCases()
		for i := 0; i < *f.N; i++ {
			cases = append(cases, genCase(r))
		}
	}
	rep := drv.Report{Property: "C17", Seed: *f.Seed, Shard: drv.ShardSize, Stats: map[string]int{}, Cases: len(cases),
		Rule: "one call of one chk helper per case (every entry kind x every option combination enumerated once, then random); " +
			"non-trivial = a wanted item is ABSENT by direct search (or the wanted count differs), or result keys are duplicated; " +
			"distinct by the canonical JSON of the case"}
	// serialise before running: a crash still leaves the replay
	if err := drv.WriteJSON(*f.Out+"/cases.json", cases); err != nil {
		return err
	}
	var coq []string
	distinct := map[string]bool{}
	for i, c := range cases {
		fatal, odd := run(c)
		rep.Stats["helper_"+c.K]++
		if fatal {
			rep.Stats["fatal_"+c.K]++
		}
		if c.K == "hasresult" || c.K == "cache" {
			rep.Stats[fmt.Sprintf("opts_ignopid=%v_incserr=%v", c.IgnOp, c.IncSerr)]++
		}
		if c.K == "status" {
			rep.Stats["eopts_"+strings.Join(c.EOpts, "+")]++
		}
		p, nt := oracle(c, fatal, odd, rep.Stats)
		if p != "" {
			rep.Violations = append(rep.Violations, drv.Verdict{Case: i, Problem: p})
		}
		if nt {
			b, _ := json.Marshal(c)
			distinct[string(b)] = true
		}
		coq = append(coq, c.coq(fatal))
		if len(rep.Samples) < 3 && i%97 == 0 {
			rep.Samples = append(rep.Samples, map[string]any{"case": c, "fatal": fatal})
		}
	}
	rep.Nontrivial = len(distinct)
	rep.Violations = roundRobin(rep.Violations)
	if err := drv.WriteCasesV(*f.Out, "From Coq Require Import List NArith ZArith String.\nFrom GV.Tools Require Import Chk ChkCases.\nImport ListNotations.",
		"ccase", "cmismatches", coq); err != nil {
		return err
	}
	return drv.WriteJSON(*f.Out+"/impl.json", rep)
}
