package main

import (
	"verifharness/drv"
)

// Tiny key spaces so that collisions and near misses actually happen.
var (
	opIDs   = []uint64{0, 1, 2, 3, 4, 1<<64 - 1}
	nums    = []uint64{1, 2, 3, 100}
	// keys are compared as the strings they are: a prefix with host bits set, or spelled in upper case, is another key
	v4s     = []string{"1.0.0.0/8", "2.0.0.0/8", "10.1.1.1/32", "1.0.0.1/8"}
	v6s     = []string{"2001:db8::/32", "::1/128", "fe80::/10", "2001:db8::1/32", "2001:DB8::/32"}
	nis     = []string{"DEFAULT", "VRF-A", "VRF-B"}
	serrs   = []string{"", "e1", "e2"}
	dkinds  = []string{"nhg", "nh", "v4", "v6", "mpls"}
	ekinds  = []string{"v4", "v6", "mpls", "nhg", "nh"}
	codesIn = []uint32{2, 3, 9, 12, 13}
	msgs    = []string{"", "m1", "m2"}
)

func setKey(d *Det, kind string, r *drv.Rng) {
	switch kind {
	case "nhg":
		d.NHG = drv.Pick(r, nums...)
	case "nh":
		d.NH = drv.Pick(r, nums...)
	case "v4":
		d.V4 = drv.Pick(r, v4s...)
	case "v6":
		d.V6 = drv.Pick(r, v6s...)
	case "mpls":
		d.MPLS = drv.Pick(r, nums...)
	}
}

func genDet(r *drv.Rng) *Det {
	switch x := r.Intn(20); {
	case x < 2:
		return nil
	case x < 3:
		return &Det{Type: int64(r.Intn(4))} // details that name no key
	case x < 5:
		d := &Det{Type: int64(r.Intn(4))} // two keys
		setKey(d, drv.Pick(r, dkinds...), r)
		setKey(d, drv.Pick(r, dkinds...), r)
		return d
	}
	d := &Det{Type: int64(1 + r.Intn(3))}
	setKey(d, drv.Pick(r, dkinds...), r)
	return d
}

func genRes(r *drv.Rng) *Res {
	x := &Res{TS: r.Int63n(1000), Lat: r.Int63n(1000), OpID: drv.Pick(r, opIDs...), Status: int32(r.Intn(4)), Det: genDet(r)}
	if r.Chance(1, 10) {
		x.Elec = &[2]uint64{uint64(r.Intn(2)), uint64(r.Intn(3))}
	}
	if r.Chance(1, 15) {
		p := int32(r.Intn(2))
		x.Params = &p
	}
	if r.Chance(1, 15) {
		x.CErr = "client error"
	}
	if r.Chance(1, 4) {
		x.SErr = drv.Pick(r, serrs...)
	}
	return x
}

func cloneRes(x *Res) *Res {
	y := *x
	if x.Det != nil {
		d := *x.Det
		y.Det = &d
	}
	if x.Elec != nil {
		e := *x.Elec
		y.Elec = &e
	}
	if x.Params != nil {
		p := *x.Params
		y.Params = &p
	}
	return &y
}

// otherKey changes the key of the details to another key of the same kind.
func otherKey(d *Det, r *drv.Rng) {
	switch {
	case d.NHG != 0:
		d.NHG += 1 + uint64(r.Intn(3))
	case d.NH != 0:
		d.NH += 1 + uint64(r.Intn(3))
	case d.V4 != "":
		d.V4 = "9." + d.V4
	case d.V6 != "":
		d.V6 = "9" + d.V6
	case d.MPLS != 0:
		d.MPLS += 1 + uint64(r.Intn(3))
	default:
		d.Type += 5
	}
}

// genWant derives a want from the results: a copy (present, ignored fields perturbed), a near miss
// (ABSENT: one compared field changed), or an unrelated one.
func genWant(r *drv.Rng, res []*Res, ignOp, incSerr bool) *Res {
	if len(res) == 0 || r.Chance(1, 10) {
		w := genRes(r)
		if ignOp && w.Det == nil && r.Chance(9, 10) {
			w.Det = &Det{Type: 1}
			setKey(w.Det, drv.Pick(r, dkinds...), r)
		}
		return w
	}
	w := cloneRes(res[r.Intn(len(res))])
	w.TS, w.Lat = r.Int63n(1000), 0
	if r.Chance(9, 20) {
		// present: perturb only what the options ignore
		if ignOp && r.Chance(1, 2) {
			w.OpID = drv.Pick(r, opIDs...)
		}
		if !incSerr && r.Chance(1, 2) {
			w.SErr = drv.Pick(r, serrs...)
		}
		if !ignOp && r.Chance(1, 6) {
			w.Det = nil
		}
		return w
	}
	// absent: change one compared field
	switch x := r.Intn(10); {
	case x < 6 && w.Det != nil:
		otherKey(w.Det, r)
	case x < 6:
		w.Status = (w.Status + 1) % 4
	case x < 7 && w.Det != nil:
		w.Det.Type = (w.Det.Type + 1) % 4
	case x < 8:
		w.Status = (w.Status + 1) % 4
	case x < 9 && !ignOp:
		w.OpID += 7
	case incSerr:
		if w.SErr != "" && r.Chance(1, 2) {
			w.SErr = "" // wanted: no server error text at all
		} else {
			w.SErr += "x"
		}
	default:
		w.CErr += "x"
	}
	return w
}

func genResults(r *drv.Rng, max int) []*Res {
	var res []*Res
	n := r.Intn(max + 1)
	for len(res) < n {
		x := genRes(r)
		res = append(res, x)
		if r.Chance(1, 4) {
			// the RIB and FIB acknowledgement of one operation: same id and key, other status
			y := cloneRes(x)
			y.Status = (x.Status + 1) % 4
			y.TS++
			res = append(res, y)
		}
	}
	if r.Chance(1, 3) {
		// unique operation ids (other keys may still collide)
		for i, x := range res {
			x.OpID = uint64(10 + i)
		}
	}
	return res
}

func genEnt(r *drv.Rng) *Ent {
	e := &Ent{NI: drv.Pick(r, nis...), Kind: drv.Pick(r, ekinds...), Pay: r.Intn(3)}
	switch x := r.Intn(40); {
	case x == 0:
		e.Kind = "mac"
		e.S = "00:00:5e:00:53:01"
	case x == 1:
		e.Kind = "pf"
	case x == 2:
		e.Kind = "nil"
	case x == 3:
		e.Kind = "mplsenum"
		e.N = uint64(r.Intn(4))
	case x == 4:
		e.NI = ""
	}
	switch e.Kind {
	case "v4":
		e.S = drv.Pick(r, v4s...)
	case "v6":
		e.S = drv.Pick(r, v6s...)
	case "mpls", "nhg", "nh":
		e.N = drv.Pick(r, nums...)
	}
	if r.Chance(1, 30) {
		e.S, e.N = "", 0 // key not set
	}
	return e
}

// siblingKey: a different key string that denotes the same network (host bits set, upper case)
var siblingKey = map[string]string{"1.0.0.0/8": "1.0.0.1/8", "1.0.0.1/8": "1.0.0.0/8", "2001:db8::/32": "2001:db8::1/32",
	"2001:db8::1/32": "2001:DB8::/32", "2001:DB8::/32": "2001:db8::/32"}

func genGWant(r *drv.Rng, es []*Ent) *Ent {
	if len(es) == 0 || r.Chance(1, 10) {
		w := genEnt(r)
		if r.Chance(1, 10) {
			w.Kind = "err"
		}
		w.Raw = r.Chance(1, 3)
		return w
	}
	w := *es[r.Intn(len(es))]
	w.Pay = r.Intn(3)
	w.Raw = r.Chance(1, 3)
	if r.Chance(9, 20) {
		return &w // present
	}
	switch r.Intn(4) {
	case 0, 1: // another key of the same kind
		switch w.Kind {
		case "v4", "v6", "mac":
			if sib, ok := siblingKey[w.S]; ok && r.Chance(1, 2) {
				w.S = sib // the same network spelled otherwise: another key
			} else {
				w.S = "9" + w.S
			}
		default:
			w.N += 1 + uint64(r.Intn(3))
		}
	case 2: // another network instance
		w.NI = w.NI + "-X"
	case 3: // the same number under another kind
		switch w.Kind {
		case "nh":
			w.Kind = drv.Pick(r, "nhg", "mpls")
		case "nhg":
			w.Kind = drv.Pick(r, "nh", "mpls")
		case "mpls":
			w.Kind = drv.Pick(r, "nh", "nhg")
		case "v4":
			w.Kind = "v6"
		case "v6":
			w.Kind = "v4"
		}
	}
	return &w
}

func genSt(r *drv.Rng) *St {
	if r.Chance(1, 6) {
		return &St{Plain: true, Msg: drv.Pick(r, "x", "x", "EOF", "wrapped EOF")}
	}
	s := &St{Code: drv.Pick(r, codesIn...), Msg: drv.Pick(r, msgs...)}
	for n := r.Intn(3); n > 0 && r.Chance(2, 3); n-- {
		s.Dets = append(s.Dets, int32(r.Intn(4)))
	}
	return s
}

func genErrCase(r *drv.Rng, k string) Case {
	c := Case{K: k, Err: "client"}
	switch x := r.Intn(20); {
	case x < 3:
		c.Err = "nil"
	case x < 5:
		c.Err = "other"
	}
	var recv []*St
	for n := r.Intn(4); n > 0; n-- {
		c.Items = append(c.Items, Item{T: "send", S: genSt(r)})
	}
	for n := r.Intn(4); n > 0; n-- {
		s := genSt(r)
		recv = append(recv, s)
		c.Items = append(c.Items, Item{T: "recv", S: s})
	}
	if k != "status" {
		c.Count = r.Intn(5) - 1
		if r.Chance(1, 2) {
			c.Count = len(c.list(k[1:]))
			if c.Err != "client" {
				c.Count = 0
			}
		}
		return c
	}
	c.EOpts = drv.Pick(r, nil, nil, []string{"allow"}, []string{"ign"}, []string{"allow", "ign"}, []string{"ign", "allow"}, []string{"allow", "allow"})
	w := genSt(r)
	w.Plain = false
	if len(recv) > 0 && r.Chance(8, 10) {
		e := recv[r.Intn(len(recv))]
		w = &St{Code: e.Code, Msg: e.Msg, Dets: append([]int32{}, e.Dets...)}
		if e.Plain {
			w.Code = 2
		}
		switch r.Intn(8) {
		case 0:
			w.Msg = "" // message not checked
		case 1:
			w.Msg += "x"
		case 2:
			w.Code = drv.Pick(r, codesIn...)
		case 3:
			w.Dets = append(w.Dets, 2)
		case 4:
			w.Dets = nil
		case 5:
			if len(w.Dets) > 0 {
				w.Dets[0] = (w.Dets[0] + 1) % 4
			}
		}
	}
	if r.Chance(1, 40) {
		w.Code = 0
	}
	for _, e := range recv {
		if e.Plain && r.Chance(1, 2) {
			// a receive error that is not a gRPC status, and a want it would satisfy if it were read as one
			// (code Unknown, message unchecked or equal to the error text)
			w = &St{Code: 2, Msg: drv.Pick(r, "", e.err().Error())}
		}
	}
	c.SWant = w
	return c
}

func genCase(r *drv.Rng) Case {
	switch x := r.Intn(20); {
	case x < 4:
		c := Case{K: "hasresult", IgnOp: r.Chance(1, 2), IncSerr: r.Chance(1, 2)}
		res := genResults(r, 5)
		for _, x := range res {
			c.Items = append(c.Items, Item{T: "res", R: x})
		}
		c.Want = genWant(r, res, c.IgnOp, c.IncSerr)
		return c
	case x < 10:
		c := Case{K: "cache", IgnOp: r.Chance(2, 3), IncSerr: r.Chance(1, 2)}
		res := genResults(r, 7)
		for _, x := range res {
			c.Items = append(c.Items, Item{T: "res", R: x})
		}
		for n := r.Intn(4); n > 0; n-- {
			c.Items = append(c.Items, Item{T: "want", R: genWant(r, res, c.IgnOp, c.IncSerr)})
		}
		return c
	case x < 15:
		c := Case{K: "get"}
		var es []*Ent
		for n := r.Intn(8); n > 0; n-- {
			e := genEnt(r)
			es = append(es, e)
			c.Items = append(c.Items, Item{T: "entry", E: e})
		}
		for n := 1 + r.Intn(3); n > 0; n-- {
			c.Items = append(c.Items, Item{T: "gwant", E: genGWant(r, es)})
		}
		return c
	case x < 16:
		return genErrCase(r, "nsend")
	case x < 17:
		return genErrCase(r, "nrecv")
	}
	return genErrCase(r, "status")
}

// fixedCases enumerates, for every entry kind and every option combination, a want that is
// present and one that is absent (another key of the same kind; and no results at all).
func fixedCases() []Case {
	var out []Case
	mk := func(kind string, n uint64, s string) *Det {
		d := &Det{Type: 1}
		switch kind {
		case "nhg":
			d.NHG = n
		case "nh":
			d.NH = n
		case "v4":
			d.V4 = "10.0.0." + s + "/32"
		case "v6":
			d.V6 = "2001:db8::" + s + "/128"
		case "mpls":
			d.MPLS = n
		}
		return d
	}
	for _, kind := range []string{"v6", "mpls", "nokey", "nhg", "nh", "v4"} {
		for o := 0; o < 4; o++ {
			ign, inc := o&1 != 0, o&2 != 0
			have := &Res{OpID: 1, Status: 2, Det: mk(kind, 1, "1"), SErr: "e1"}
			same := &Res{OpID: 1, Status: 2, Det: mk(kind, 1, "1"), SErr: "e1"}
			miss := &Res{OpID: 1, Status: 2, Det: mk(kind, 2, "2"), SErr: "e1"}
			if kind == "nokey" {
				miss.Det.Type = 2
			}
			noText := &Res{OpID: 1, Status: 2, Det: mk(kind, 1, "1")}                 // differs from have only in the (empty) server error text
			otherText := &Res{OpID: 1, Status: 2, Det: mk(kind, 1, "1"), SErr: "e2"} // ... in another text
			for _, w := range []*Res{same, miss, noText, otherText} {
				out = append(out,
					Case{K: "hasresult", IgnOp: ign, IncSerr: inc, Want: w, Items: []Item{{T: "res", R: have}}},
					Case{K: "cache", IgnOp: ign, IncSerr: inc, Items: []Item{{T: "res", R: have}, {T: "want", R: w}}},
					Case{K: "cache", IgnOp: ign, IncSerr: inc, Items: []Item{{T: "want", R: w}}})
			}
		}
	}
	for _, kind := range []string{"v4", "v6", "mpls", "nhg", "nh", "mac", "pf", "mplsenum", "nil"} {
		for _, raw := range []bool{false, true} {
			have := &Ent{NI: "DEFAULT", Kind: kind, S: "k1", N: 1, Pay: 1}
			other := &Ent{NI: "DEFAULT", Kind: "nh", N: 77}
			same := &Ent{NI: "DEFAULT", Kind: kind, S: "k1", N: 1, Raw: raw}
			miss := &Ent{NI: "DEFAULT", Kind: kind, S: "k2", N: 2, Raw: raw}
			otherNI := &Ent{NI: "VRF-A", Kind: kind, S: "k1", N: 1, Raw: raw}
			for _, w := range []*Ent{same, miss, otherNI} {
				out = append(out,
					Case{K: "get", Items: []Item{{T: "entry", E: have}, {T: "entry", E: other}, {T: "gwant", E: w}}},
					Case{K: "get", Items: []Item{{T: "entry", E: other}, {T: "gwant", E: w}}})
			}
		}
	}
	return out
}
