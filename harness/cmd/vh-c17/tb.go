package main

import (
	"fmt"
	"runtime"
	"testing"
)

// capTB is a testing.TB that records instead of failing a test. It embeds the interface (nil) to
// satisfy its unexported method and overrides everything a helper can reach.
type capTB struct {
	testing.TB
	fatal   bool
	errors  int
	skipped bool
}

func (c *capTB) Helper()               {}
func (c *capTB) Name() string          { return "vh-c17" }
func (c *capTB) Log(...any)            {}
func (c *capTB) Logf(string, ...any)   {}
func (c *capTB) Error(...any)          { c.errors++ }
func (c *capTB) Errorf(string, ...any) { c.errors++ }
func (c *capTB) Fail()                 { c.errors++ }
func (c *capTB) Failed() bool          { return c.fatal || c.errors > 0 }
func (c *capTB) Fatal(...any)          { c.fatal = true; runtime.Goexit() }
func (c *capTB) Fatalf(string, ...any) { c.fatal = true; runtime.Goexit() }
func (c *capTB) FailNow()              { c.fatal = true; runtime.Goexit() }
func (c *capTB) Skip(...any)           { c.skipped = true; runtime.Goexit() }
func (c *capTB) Skipf(string, ...any)  { c.skipped = true; runtime.Goexit() }
func (c *capTB) SkipNow()              { c.skipped = true; runtime.Goexit() }
func (c *capTB) Skipped() bool         { return c.skipped }
func (c *capTB) Cleanup(func())        {}
func (c *capTB) Setenv(string, string) {}
func (c *capTB) TempDir() string       { return "" }

// capture runs one helper call in its own goroutine (t.Fatal ends it with runtime.Goexit, as the
// testing package does) and reports whether it was fatal. A panic or a non-fatal t.Error is
// reported in odd; neither is a behaviour the property allows.
func capture(f func(t testing.TB)) (fatal bool, odd string) {
	c := &capTB{}
	done := make(chan struct{})
	go func() {
		defer close(done)
		defer func() {
			if r := recover(); r != nil {
				odd = fmt.Sprintf("helper panicked: %v", r)
			}
		}()
		f(c)
	}()
	<-done
	if odd == "" && c.errors > 0 {
		odd = "helper reported a non-fatal error"
	}
	if odd == "" && c.skipped {
		odd = "helper skipped the test"
	}
	return c.fatal, odd
}
