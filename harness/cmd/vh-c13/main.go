// vh-c13 is the correspondence / oracle harness of property C13 (client accounting).
package main

import "verifharness/drv"

func main() { drv.Main(map[string]drv.Cmd{"c13": runC13, "c13race": runC13Race, "c13ack": runC13Ack, "c13drain": runC13Drain}) }
