package main

// In-memory gRPC plumbing shared by the client harnesses: a scripted stub gRIBI server on a
// bufconn listener, and a client connection whose Modify stream is wrapped by a probe that counts
// SendMsg/RecvMsg calls (so that the harness knows when the real client has absorbed a message)
// and can make the next Send fail.

import (
	"context"
	"fmt"
	"net"
	"sync"
	"sync/atomic"
	"time"

	"google.golang.org/grpc"
	"google.golang.org/grpc/codes"
	"google.golang.org/grpc/credentials/insecure"
	"google.golang.org/grpc/status"
	"google.golang.org/grpc/test/bufconn"

	spb "github.com/openconfig/gribi/v1/proto/service"
	"github.com/openconfig/gribigo/client"
)

// watchdog bounds every wait; exceeding it is reported as a hang.
var watchdog = 5 * time.Second

// srvCmd is one instruction of the script to the server side of a Modify RPC.
type srvCmd struct {
	resp *spb.ModifyResponse // send this response ...
	end  bool                // ... or end the RPC with err (nil = OK)
	err  error
	done chan error
}

// srvStream is the server side of one Modify RPC.
type srvStream struct {
	cmd      chan srvCmd
	recvd    atomic.Int64  // requests received from the client
	recvDone chan struct{} // closed when the client half-closed or the stream broke
	ended    chan struct{} // closed when the handler returned
	// eofEnds: return OK from the handler when the client half-closes (what a real server does)
	eofEnds bool
}

type stubServer struct {
	spb.UnimplementedGRIBIServer
	streams chan *srvStream
	eofEnds atomic.Bool
}

func (s *stubServer) Modify(stream spb.GRIBI_ModifyServer) error {
	h := &srvStream{cmd: make(chan srvCmd), recvDone: make(chan struct{}), ended: make(chan struct{}), eofEnds: s.eofEnds.Load()}
	defer close(h.ended)
	go func() {
		defer close(h.recvDone)
		for {
			if _, err := stream.Recv(); err != nil {
				return
			}
			h.recvd.Add(1)
		}
	}()
	s.streams <- h
	recvDone := h.recvDone
	if !h.eofEnds {
		recvDone = nil
	}
	for {
		select {
		case c, ok := <-h.cmd:
			if !ok {
				return nil
			}
			if c.end {
				if c.done != nil {
					c.done <- nil
				}
				return c.err
			}
			err := stream.Send(c.resp)
			if c.done != nil {
				c.done <- err
			}
		case <-recvDone:
			return nil
		case <-stream.Context().Done():
			return status.Error(codes.Canceled, "stream context done")
		}
	}
}

// send makes the server send r; false if the RPC is over.
func (h *srvStream) send(r *spb.ModifyResponse) bool {
	c := srvCmd{resp: r, done: make(chan error, 1)}
	select {
	case h.cmd <- c:
		return <-c.done == nil
	case <-h.ended:
		return false
	case <-time.After(watchdog):
		return false
	}
}

// end makes the handler return err (nil = OK status).
func (h *srvStream) end(err error) {
	c := srvCmd{end: true, err: err, done: make(chan error, 1)}
	select {
	case h.cmd <- c:
		<-c.done
		<-h.ended
	case <-h.ended:
	case <-time.After(watchdog):
	}
}

// probe observes (and can break) the client side of one Modify stream.
type probe struct {
	sendEntered, sendReturned, sendFailed atomic.Int64
	recvEntered, recvReturned, recvFailed atomic.Int64
	// failSendAt >= 0: the SendMsg call with this index (0-based) and every later one fail with failErr
	failSendAt atomic.Int64
	// failRecvAt >= 0: the RecvMsg call with this index and every later one fail with failErr
	failRecvAt atomic.Int64
	failNext   atomic.Bool // the next SendMsg fails (once)
	failErr    error
	// sendGate, if non-nil, is received from before each SendMsg proceeds (slow Send)
	sendGate chan struct{}
	// onSend, if non-nil, sees every message the client hands to the stream (before the gate)
	onSend func(m any)
}

func newProbe() *probe {
	p := &probe{failErr: status.Error(codes.Unavailable, "injected stream failure")}
	p.failSendAt.Store(-1)
	p.failRecvAt.Store(-1)
	return p
}

type probedStream struct {
	grpc.ClientStream
	p *probe
}

func (s *probedStream) SendMsg(m any) error {
	n := s.p.sendEntered.Add(1) - 1
	defer s.p.sendReturned.Add(1)
	if s.p.onSend != nil {
		s.p.onSend(m)
	}
	if s.p.sendGate != nil {
		<-s.p.sendGate
	}
	if at := s.p.failSendAt.Load(); (at >= 0 && n >= at) || s.p.failNext.CompareAndSwap(true, false) {
		s.p.sendFailed.Add(1)
		return s.p.failErr
	}
	err := s.ClientStream.SendMsg(m)
	if err != nil {
		s.p.sendFailed.Add(1)
	}
	return err
}

func (s *probedStream) RecvMsg(m any) error {
	n := s.p.recvEntered.Add(1) - 1
	defer s.p.recvReturned.Add(1)
	if at := s.p.failRecvAt.Load(); at >= 0 && n >= at {
		s.p.recvFailed.Add(1)
		return s.p.failErr
	}
	err := s.ClientStream.RecvMsg(m)
	if err != nil {
		s.p.recvFailed.Add(1)
	}
	return err
}

// fabric is the in-memory network: one server, one client connection.
type fabric struct {
	lis  *bufconn.Listener
	srv  *grpc.Server
	stub *stubServer
	conn *grpc.ClientConn
	mu   sync.Mutex
	cur  *probe // the probe given to the next stream that is opened
}

func newFabric() (*fabric, error) {
	f := &fabric{lis: bufconn.Listen(1 << 20), stub: &stubServer{streams: make(chan *srvStream, 16)}}
	f.srv = grpc.NewServer()
	spb.RegisterGRIBIServer(f.srv, f.stub)
	go f.srv.Serve(f.lis)
	icpt := func(ctx context.Context, desc *grpc.StreamDesc, cc *grpc.ClientConn, method string, streamer grpc.Streamer, opts ...grpc.CallOption) (grpc.ClientStream, error) {
		cs, err := streamer(ctx, desc, cc, method, opts...)
		if err != nil {
			return nil, err
		}
		f.mu.Lock()
		p := f.cur
		f.mu.Unlock()
		if p == nil {
			return cs, nil
		}
		return &probedStream{ClientStream: cs, p: p}, nil
	}
	conn, err := grpc.NewClient("passthrough:///bufnet",
		grpc.WithContextDialer(func(ctx context.Context, _ string) (net.Conn, error) { return f.lis.DialContext(ctx) }),
		grpc.WithTransportCredentials(insecure.NewCredentials()),
		grpc.WithStreamInterceptor(icpt))
	if err != nil {
		return nil, err
	}
	f.conn = conn
	return f, nil
}

func (f *fabric) setProbe(p *probe) {
	f.mu.Lock()
	f.cur = p
	f.mu.Unlock()
}

// nextStream returns the server side of the RPC the client has just opened.
func (f *fabric) nextStream() *srvStream {
	select {
	case h := <-f.stub.streams:
		return h
	case <-time.After(watchdog):
		return nil
	}
}

// waitFor polls cond (cheaply) until it holds or the watchdog expires.
func waitFor(cond func() bool) bool {
	return waitForD(cond, watchdog)
}

func waitForD(cond func() bool, d time.Duration) bool {
	deadline := time.Now().Add(d)
	for i := 0; ; i++ {
		if cond() {
			return true
		}
		if time.Now().After(deadline) {
			return false
		}
		if i < 200 {
			time.Sleep(20 * time.Microsecond)
		} else {
			time.Sleep(500 * time.Microsecond)
		}
	}
}

// guardedStatus: Status() under a watchdog (a client whose locks are wedged must not wedge the harness).
func guardedStatus(c *client.Client) (*client.ClientStatus, error) {
	type res struct {
		st  *client.ClientStatus
		err error
	}
	ch := make(chan res, 1)
	go func() { s, e := c.Status(); ch <- res{s, e} }()
	select {
	case r := <-ch:
		return r.st, r.err
	case <-time.After(watchdog):
		return nil, fmt.Errorf("HANG: Status() did not return within %v", watchdog)
	}
}
