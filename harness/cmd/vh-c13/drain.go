package main

import (
	"context"
	"fmt"
	"sort"
	"strings"
	"sync"
	"time"

	"verifharness/drv"

	"github.com/openconfig/gribigo/client"
	spb "github.com/openconfig/gribi/v1/proto/service"
)

// c13drain: StopSending and further Q calls while StartSending is still handing the queued requests to the sender.
// More requests than the modify channel buffers are queued before sending starts and the stream's Send is held, so
// that StartSending blocks half-way; the caller then pauses sending, queues a second batch, lets the stream go and
// starts sending again.  Every request must be handed to the stream exactly once, every operation must be pending
// until it is answered and have exactly one result afterwards.
type drainCase struct {
	Seed   int64 `json:"seed"`
	First  int   `json:"first"`  // requests queued before StartSending
	Second int   `json:"second"` // requests queued after StopSending, while the first batch is still draining
	Third  int   `json:"third"`  // requests queued after the second StartSending (sent directly)
	OpsPer int   `json:"ops_per"`
	Fib    bool  `json:"fib"`
}

// drainObs is what the correspondence compares with Client/Drain.v's scenario.
type drainObs struct {
	blocked bool     // the first StartSending had not returned when the stream was released
	order   []uint64 // requests in the order in which the stream got them (0 = session parameters)
	ok      bool
}

const modifyChanCap = 5 // client: make(chan *spb.ModifyRequest, 5); the theorems hold for every capacity

func runDrainCase(f *fabric, cs drainCase) (string, drainObs) {
	p, o := runDrainCase1(f, cs)
	return p, o
}

func runDrainCase1(f *fabric, cs drainCase) (problem string, obs drainObs) {
	opts := []client.Opt{}
	if cs.Fib {
		opts = append(opts, client.FIBACK())
	}
	c, err := client.New(opts...)
	if err != nil {
		return "client.New: " + err.Error(), obs
	}
	var mu sync.Mutex
	handed := map[uint64]int{}
	p := newProbe()
	p.sendGate = make(chan struct{})
	p.onSend = func(m any) {
		if r, ok := m.(*spb.ModifyRequest); ok {
			mu.Lock()
			for _, o := range r.GetOperation() {
				handed[o.GetId()]++
			}
			switch {
			case len(r.GetOperation()) > 0:
				obs.order = append(obs.order, (r.GetOperation()[0].GetId()-1)/uint64(cs.OpsPer)+1)
			case r.GetParams() != nil:
				obs.order = append(obs.order, 0)
			}
			mu.Unlock()
		}
	}
	f.setProbe(p)
	defer f.setProbe(nil)
	if err := c.UseStub(spb.NewGRIBIClient(f.conn)); err != nil {
		return err.Error(), obs
	}
	ctx, cancel := context.WithCancel(context.Background())
	defer cancel()
	if err := c.Connect(ctx); err != nil {
		return "Connect: " + err.Error(), obs
	}
	h := f.nextStream()
	if h == nil {
		return "server did not see the Modify RPC", obs
	}
	defer func() { h.end(nil); c.Close() }()
	next := uint64(0)
	var reqs [][]uint64
	mk := func() *spb.ModifyRequest {
		m := &spb.ModifyRequest{}
		var ids []uint64
		for j := 0; j < cs.OpsPer; j++ {
			next++
			ids = append(ids, next)
			m.Operation = append(m.Operation, OpJ{ID: next, Type: 1, Kind: 5, Key: next}.proto())
		}
		reqs = append(reqs, ids)
		return m
	}
	for i := 0; i < cs.First; i++ {
		c.Q(mk())
	}
	started := func() chan struct{} {
		d := make(chan struct{})
		go func() { defer close(d); c.StartSending() }()
		return d
	}
	d1 := started()
	if !waitFor(func() bool { return p.sendEntered.Load() >= 1 }) {
		return "HANG: the sender never took a request from StartSending", obs
	}
	// StartSending fills the channel; with more than the channel buffers plus the one the sender holds it waits
	inFlight := cs.First
	if cs.Fib {
		inFlight++ // the session parameters go first
	}
	if inFlight <= modifyChanCap+1 {
		select {
		case <-d1:
		case <-time.After(watchdog):
			return fmt.Sprintf("HANG: StartSending did not return although the %d requests fit the channel and the sender", inFlight), obs
		}
	} else {
		time.Sleep(3 * time.Millisecond)
	}
	c.StopSending()
	for i := 0; i < cs.Second; i++ {
		c.Q(mk())
	}
	returned := false
	select {
	case <-d1:
		returned = true
	default:
		obs.blocked = true
	}
	close(p.sendGate) // the stream accepts messages again
	if !returned {
		select {
		case <-d1:
		case <-time.After(watchdog):
			return "HANG: StartSending did not return once the stream accepted messages", obs
		}
	}
	d2 := started()
	select {
	case <-d2:
	case <-time.After(watchdog):
		return "HANG: the second StartSending did not return", obs
	}
	for i := 0; i < cs.Third; i++ {
		c.Q(mk())
	}
	want := int64(len(reqs))
	if cs.Fib {
		want += 2 // each StartSending queues the session parameters (the stub server does not judge them)
	}
	reached := waitForD(func() bool { return h.recvd.Load() >= want }, 2*time.Second)
	time.Sleep(2 * time.Millisecond)
	mu.Lock()
	var lost, twice []uint64
	for id := uint64(1); id <= next; id++ {
		switch n := handed[id]; {
		case n == 0:
			lost = append(lost, id)
		case n > 1:
			twice = append(twice, id)
		}
	}
	mu.Unlock()
	if len(lost) > 0 || len(twice) > 0 {
		return fmt.Sprintf("of %d operations (%d requests queued before StartSending, %d after StopSending while it drained, %d after restarting) %d were never handed to the stream %v and %d were handed to it more than once %v: all of them are pending, none is queued",
			next, cs.First, cs.Second, cs.Third, len(lost), head(lost), len(twice), head(twice)), obs
	}
	if !reached || h.recvd.Load() != want {
		return fmt.Sprintf("the server received %d requests, the caller queued %d", h.recvd.Load(), want), obs
	}
	pend, err := c.Pending()
	if err != nil {
		return "Pending: " + err.Error(), obs
	}
	npend := 0
	for _, pr := range pend {
		if _, ok := pr.(*client.PendingOp); ok {
			npend++
		}
	}
	if npend != int(next) {
		return fmt.Sprintf("%d operations sent and unanswered, Pending() lists %d", next, npend), obs
	}
	st := spb.AFTResult_RIB_PROGRAMMED
	if cs.Fib {
		st = spb.AFTResult_FIB_PROGRAMMED
	}
	for _, ids := range reqs {
		resp := &spb.ModifyResponse{}
		for _, id := range ids {
			resp.Result = append(resp.Result, &spb.AFTResult{Id: id, Status: st})
		}
		if !h.send(resp) {
			return "the server could not answer", obs
		}
	}
	if cs.Fib {
		// the session parameters were sent (twice): answer them, or they stay pending
		h.send(&spb.ModifyResponse{SessionParamsResult: &spb.SessionParametersResult{Status: spb.SessionParametersResult_OK}})
	}
	actx, acancel := context.WithTimeout(context.Background(), watchdog)
	defer acancel()
	if err := c.AwaitConverged(actx); err != nil {
		return fmt.Sprintf("every operation answered with its terminal result, AwaitConverged: %v", err), obs
	}
	res, err := c.Results()
	if err != nil {
		return "Results: " + err.Error(), obs
	}
	seen := map[uint64]int{}
	nres := 0
	for _, r := range res {
		if r.OperationID != 0 {
			seen[r.OperationID]++
			nres++
		}
	}
	var bad []uint64
	for id := uint64(1); id <= next; id++ {
		if seen[id] != 1 {
			bad = append(bad, id)
		}
	}
	if len(bad) > 0 || nres != int(next) {
		return fmt.Sprintf("%d results for %d answered operations; operations without exactly one result: %v", nres, next, head(bad)), obs
	}
	pend, _ = c.Pending()
	for _, pr := range pend {
		if po, ok := pr.(*client.PendingOp); ok {
			return fmt.Sprintf("operation %d still pending after every one was answered", po.Op.GetId()), obs
		}
	}
	mu.Lock()
	obs.ok = true
	mu.Unlock()
	return "", obs
}

func head(x []uint64) []uint64 {
	sort.Slice(x, func(i, j int) bool { return x[i] < x[j] })
	if len(x) > 8 {
		return x[:8]
	}
	return x
}

func runC13Drain(args []string) error {
	fl := drv.NewFlags("c13drain")
	if err := fl.Parse(args); err != nil {
		return err
	}
	var cases []drainCase
	if *fl.Replay != "" {
		if err := drv.ReadJSON(*fl.Replay, &cases); err != nil {
			return err
		}
	} else {
		r := drv.NewRng(*fl.Seed)
		for i := 0; i < *fl.N; i++ {
			first := drv.Pick(r, 3, 5, 6, 7, 9, 12, 20, 40)
			cases = append(cases, drainCase{Seed: *fl.Seed*1000 + int64(i), First: first, Second: drv.Pick(r, 0, 1, 3, first, first+5, 2*first),
				Third: r.Intn(4), OpsPer: 1 + r.Intn(3), Fib: r.Chance(1, 3)})
		}
	}
	f, err := newFabric()
	if err != nil {
		return err
	}
	rep := drv.Report{Property: "C13", Seed: *fl.Seed, Shard: drv.ShardSize, Stats: map[string]int{}, Cases: len(cases),
		Rule: "StopSending + Q while StartSending is still draining: 3..40 requests queued before StartSending with the stream's Send held (the modify channel buffers 5), then StopSending, 0..2x as many further requests, the stream released, StartSending again, 0..3 direct requests; every operation handed to the stream exactly once, all pending until answered, exactly one result each, AwaitConverged nil; non-trivial = StartSending had to block (more than 6 requests queued first)"}
	var coq []string
	for i, c := range cases {
		p, o := runDrainCase(f, c)
		if p != "" {
			rep.Violations = append(rep.Violations, drv.Verdict{Case: i, Problem: p})
		}
		if o.ok {
			var ids []string
			for _, r := range o.order {
				ids = append(ids, fmt.Sprint(r))
			}
			coq = append(coq, fmt.Sprintf("((%d, %d, %d, %d)%%nat, %v, (%v, [%s]%%N)) (* case %d *)", modifyChanCap, c.First, c.Second, c.Third, c.Fib, o.blocked, strings.Join(ids, "; "), i))
		}
		rep.Stats[fmt.Sprintf("first_%d", c.First)]++
		if c.Second > 0 {
			rep.Stats["second_batch"]++
		}
		if c.First > 6 {
			rep.Nontrivial++
		}
	}
	if err := drv.WriteJSON(*fl.Out+"/cases.json", cases); err != nil {
		return err
	}
	if err := drv.WriteCasesV(*fl.Out, "From Coq Require Import List NArith.\nFrom GV.Client Require Import Drain.\nImport ListNotations.", "drain_case", "drain_mismatches", coq); err != nil {
		return err
	}
	return drv.WriteJSON(*fl.Out+"/impl.json", rep)
}
