package main

import (
	"context"
	"errors"
	"fmt"
	"sync"
	"time"

	"verifharness/drv"

	"github.com/openconfig/gribigo/client"
	spb "github.com/openconfig/gribi/v1/proto/service"
)

// c13race: AwaitConverged racing with the receiver.  N operations are pending; the server answers all of them in
// ONE response whose last result carries an id that was never sent (a receive error).  Callers of AwaitConverged
// spinning meanwhile (BusyLoopDelay = 0) must all get the recorded error: once the response has been handled the
// client holds an error, before it the client is not converged, so "nil" is never a right answer.
type raceCase struct {
	Seed    int64 `json:"seed"`
	N       int   `json:"n"`       // pending operations
	Waiters int   `json:"waiters"` // concurrent AwaitConverged callers
	Rounds  int   `json:"rounds"`
	Fib     bool  `json:"fib"`
}

func runRaceCase(f *fabric, cs raceCase) string {
	old := client.BusyLoopDelay
	client.BusyLoopDelay = 0
	defer func() { client.BusyLoopDelay = old }()
	for round := 0; round < cs.Rounds; round++ {
		opts := []client.Opt{} // no session parameters / election id: nothing but the operations is ever pending
		if cs.Fib {
			opts = append(opts, client.FIBACK())
		}
		c, err := client.New(opts...)
		if err != nil {
			return "client.New: " + err.Error()
		}
		f.setProbe(nil)
		if err := c.UseStub(spb.NewGRIBIClient(f.conn)); err != nil {
			return err.Error()
		}
		ctx, cancel := context.WithCancel(context.Background())
		if err := c.Connect(ctx); err != nil {
			cancel()
			return "Connect: " + err.Error()
		}
		h := f.nextStream()
		if h == nil {
			cancel()
			return "server did not see the Modify RPC"
		}
		c.StartSending()
		m := &spb.ModifyRequest{}
		resp := &spb.ModifyResponse{}
		st := spb.AFTResult_RIB_PROGRAMMED
		if cs.Fib {
			st = spb.AFTResult_FIB_PROGRAMMED
		}
		for i := 1; i <= cs.N; i++ {
			m.Operation = append(m.Operation, OpJ{ID: uint64(i), Type: 1, Kind: 5, Key: uint64(i)}.proto())
			resp.Result = append(resp.Result, &spb.AFTResult{Id: uint64(i), Status: st})
		}
		resp.Result = append(resp.Result, &spb.AFTResult{Id: uint64(cs.N + 1000), Status: st})
		c.Q(m)
		if !waitFor(func() bool { return h.recvd.Load() >= 1 }) {
			cancel()
			return "HANG: the request did not reach the server"
		}
		var wg sync.WaitGroup
		results := make([]error, cs.Waiters)
		for w := 0; w < cs.Waiters; w++ {
			w := w
			wg.Add(1)
			go func() {
				defer wg.Done()
				actx, acancel := context.WithTimeout(context.Background(), watchdog)
				defer acancel()
				results[w] = c.AwaitConverged(actx)
			}()
		}
		time.Sleep(time.Duration(round%5) * 50 * time.Microsecond)
		h.send(resp)
		done := make(chan struct{})
		go func() { wg.Wait(); close(done) }()
		select {
		case <-done:
		case <-time.After(2 * watchdog):
			cancel()
			return fmt.Sprintf("round %d: HANG: AwaitConverged did not return", round)
		}
		problem := ""
		for _, e := range results {
			var ce *client.ClientErr
			switch {
			case e == nil:
				problem = fmt.Sprintf("round %d: AwaitConverged returned nil although the response that answered the last pending operation also recorded a receive error (result for id %d, never sent)", round, cs.N+1000)
			case errors.As(e, &ce):
				if len(ce.Recv) == 0 {
					problem = fmt.Sprintf("round %d: AwaitConverged returned a ClientErr without the receive error", round)
				}
			default:
				problem = fmt.Sprintf("round %d: AwaitConverged returned %v", round, e)
			}
		}
		h.end(nil)
		cancel()
		c.Close()
		if problem != "" {
			return problem
		}
	}
	return ""
}

func runC13Race(args []string) error {
	fl := drv.NewFlags("c13race")
	if err := fl.Parse(args); err != nil {
		return err
	}
	var cases []raceCase
	if *fl.Replay != "" {
		if err := drv.ReadJSON(*fl.Replay, &cases); err != nil {
			return err
		}
	} else {
		r := drv.NewRng(*fl.Seed)
		for i := 0; i < *fl.N; i++ {
			cases = append(cases, raceCase{Seed: *fl.Seed*1000 + int64(i), N: drv.Pick(r, 20, 100, 400), Waiters: 2 + r.Intn(3), Rounds: 25, Fib: r.Chance(1, 3)})
		}
	}
	f, err := newFabric()
	if err != nil {
		return err
	}
	rep := drv.Report{Property: "C13", Seed: *fl.Seed, Shard: drv.ShardSize, Stats: map[string]int{}, Cases: len(cases),
		Rule: "AwaitConverged racing with the receiver: 20/100/400 operations pending, answered by one response whose last result has an id never sent; 2-4 callers spin in AwaitConverged (BusyLoopDelay 0) while it is handled, 25 rounds per case; each must return a ClientErr holding the receive error; non-trivial = every case"}
	for i, c := range cases {
		if p := runRaceCase(f, c); p != "" {
			rep.Violations = append(rep.Violations, drv.Verdict{Case: i, Problem: p})
		}
		rep.Stats["rounds"] += c.Rounds
		rep.Stats[fmt.Sprintf("pending_%d", c.N)]++
		rep.Nontrivial++
	}
	if err := drv.WriteJSON(*fl.Out+"/cases.json", cases); err != nil {
		return err
	}
	if err := drv.WriteCasesV(*fl.Out, "From Coq Require Import List NArith.\nImport ListNotations.", "N", "(fun _ : list N => @nil N)", nil); err != nil {
		return err
	}
	return drv.WriteJSON(*fl.Out+"/impl.json", rep)
}
