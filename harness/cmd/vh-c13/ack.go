package main

import (
	"context"
	"fmt"
	"sort"
	"sync"
	"time"

	"verifharness/drv"

	spb "github.com/openconfig/gribi/v1/proto/service"
	"github.com/openconfig/gribigo/client"
)

// c13ack: AckResult / Results racing with the receiver.  N operations are pending; the server streams their
// results, ONE result per response, paced; meanwhile an application goroutine consumes the result queue the
// way the API intends it: Results(), then AckResult(...) of results it has just been shown.  The contract,
// read off Results / AckResult / handleModifyResponse:
//   - Results() returns the queue (the entries are the queue's own *OpResult values);
//   - AckResult(rs...) removes from the queue every entry whose OperationID is the OperationID of one of rs
//   - and nothing else -, and returns an error iff one of these ids is not in the queue;
//   - the receiver appends one entry per AFTResult / SessionParamsResult and takes an operation out of the
//     pending queue when its terminal result arrives.
//
// The application acknowledges an operation id only when the snapshot it holds shows the TERMINAL result of
// that id: no further result for the id can be appended afterwards, so what an acknowledgement removes is
// exactly what the application has seen (in FIB-ack mode the RIB acknowledgement of an operation stays in the
// queue until its FIB result is there and both go together).  Hence, at the end (every response sent,
// AwaitConverged = nil): the results the application acknowledged, plus what the final Results() shows, are
// EXACTLY the results the server sent, each once: none lost (an operation that has left the pending queue
// without any result while AwaitConverged reports success), none come back after having been acknowledged,
// no acknowledgement failed, nothing is pending.
type ackCase struct {
	Seed    int64 `json:"seed"`
	N       int   `json:"n"`       // operations
	Batch   int   `json:"batch"`   // operations per ModifyRequest
	Fib     bool  `json:"fib"`     // FIB-ack session: RIB_PROGRAMMED then FIB_PROGRAMMED per operation
	Fail    int   `json:"fail"`    // every Fail-th operation is answered FAILED (0: none)
	Pace    int   `json:"pace"`    // server: 0 back to back, 1 yields every few responses, 2 sleeps 20us every few
	AppPace int   `json:"apppace"` // application: 0 tight loop, 1 lets the queue grow (sleeps 30us between rounds), 2 mixed
	Always  bool  `json:"always"`  // the application calls AckResult() also with nothing to acknowledge
	Rounds  int   `json:"rounds"`
}

type resKey struct {
	id uint64
	st spb.AFTResult_Status
	// session: the result of the session parameters (OperationID 0)
	session bool
}

func keyOf(r *client.OpResult) resKey {
	if r.SessionParameters != nil {
		return resKey{session: true}
	}
	return resKey{id: r.OperationID, st: r.ProgrammingResult}
}

func terminalSt(fib bool, st spb.AFTResult_Status) bool {
	switch st {
	case spb.AFTResult_FAILED, spb.AFTResult_FIB_PROGRAMMED, spb.AFTResult_FIB_FAILED:
		return true
	case spb.AFTResult_RIB_PROGRAMMED:
		return !fib
	}
	return false
}

func runAckRound(f *fabric, cs ackCase, round int, stats map[string]int) string {
	r := drv.NewRng(cs.Seed*131 + int64(round))
	opts := []client.Opt{}
	if cs.Fib {
		opts = append(opts, client.FIBACK()) // session parameters are sent by StartSending and answered below
	}
	c, err := client.New(opts...)
	if err != nil {
		return "client.New: " + err.Error()
	}
	f.setProbe(nil)
	if err := c.UseStub(spb.NewGRIBIClient(f.conn)); err != nil {
		return err.Error()
	}
	ctx, cancel := context.WithCancel(context.Background())
	defer cancel()
	if err := c.Connect(ctx); err != nil {
		return "Connect: " + err.Error()
	}
	h := f.nextStream()
	if h == nil {
		return "server did not see the Modify RPC"
	}
	defer func() {
		h.end(nil)
		cancel()
		c.Close()
	}()
	c.StartSending()

	// what the server is going to send, in order
	type sendItem struct {
		resp *spb.ModifyResponse
		key  resKey
	}
	var script []sendItem
	want := map[resKey]int{}
	add := func(resp *spb.ModifyResponse, k resKey) {
		script = append(script, sendItem{resp, k})
		want[k]++
	}
	nreq := 0
	if cs.Fib {
		add(&spb.ModifyResponse{SessionParamsResult: &spb.SessionParametersResult{Status: spb.SessionParametersResult_OK}}, resKey{session: true})
		nreq++
	}
	batch := cs.Batch
	if batch <= 0 {
		batch = 1
	}
	var reqs []*spb.ModifyRequest
	var fibLater []sendItem
	for i := 1; i <= cs.N; i++ {
		if (i-1)%batch == 0 {
			reqs = append(reqs, &spb.ModifyRequest{})
		}
		id := uint64(i)
		m := reqs[len(reqs)-1]
		m.Operation = append(m.Operation, OpJ{ID: id, Type: 1, Kind: 5, Key: id}.proto())
		one := func(st spb.AFTResult_Status) sendItem {
			return sendItem{&spb.ModifyResponse{Result: []*spb.AFTResult{{Id: id, Status: st}}}, resKey{id: id, st: st}}
		}
		switch {
		case cs.Fail > 0 && i%cs.Fail == 0:
			it := one(spb.AFTResult_FAILED)
			add(it.resp, it.key)
		case cs.Fib:
			it := one(spb.AFTResult_RIB_PROGRAMMED)
			add(it.resp, it.key)
			fibLater = append(fibLater, one(spb.AFTResult_FIB_PROGRAMMED))
			// the FIB results follow the RIB results at a random distance
			for len(fibLater) > 0 && r.Chance(1, 2) {
				add(fibLater[0].resp, fibLater[0].key)
				fibLater = fibLater[1:]
			}
		default:
			it := one(spb.AFTResult_RIB_PROGRAMMED)
			add(it.resp, it.key)
		}
	}
	for _, it := range fibLater {
		add(it.resp, it.key)
	}
	nreq += len(reqs)
	for _, m := range reqs {
		c.Q(m)
	}
	if !waitFor(func() bool { return h.recvd.Load() >= int64(nreq) }) {
		return "HANG: the requests did not reach the server"
	}

	// the application
	acked := map[resKey]int{}
	var appProblem string
	stop := make(chan struct{})
	var wg sync.WaitGroup
	nAcks, nSnap, maxQ := 0, 0, 0
	consume := func() {
		rs, err := c.Results()
		if err != nil {
			appProblem = "Results(): " + err.Error()
			return
		}
		nSnap++
		if len(rs) > maxQ {
			maxQ = len(rs)
		}
		term := map[uint64]bool{}
		for _, x := range rs {
			if x == nil {
				appProblem = "Results() contains a nil entry"
				return
			}
			if x.SessionParameters == nil && terminalSt(cs.Fib, x.ProgrammingResult) {
				term[x.OperationID] = true
			}
		}
		var give []*client.OpResult
		for _, x := range rs {
			if x.SessionParameters != nil || term[x.OperationID] {
				give = append(give, x)
			}
		}
		if len(give) == 0 && !cs.Always {
			return
		}
		if err := c.AckResult(give...); err != nil && appProblem == "" {
			appProblem = fmt.Sprintf("AckResult of %d results just returned by Results() failed: %v", len(give), err)
		}
		nAcks++
		for _, x := range give {
			acked[keyOf(x)]++
		}
	}
	wg.Add(1)
	go func() {
		defer wg.Done()
		ar := drv.NewRng(cs.Seed*977 + int64(round))
		for {
			select {
			case <-stop:
				return
			default:
			}
			consume()
			switch {
			case cs.AppPace == 1, cs.AppPace == 2 && ar.Chance(1, 3):
				time.Sleep(30 * time.Microsecond)
			}
		}
	}()

	// the server streams the results
	for i, it := range script {
		if !h.send(it.resp) {
			close(stop)
			wg.Wait()
			return fmt.Sprintf("round %d: the server could not send response %d of %d", round, i, len(script))
		}
		switch cs.Pace {
		case 1:
			if i%4 == 3 {
				time.Sleep(0)
			}
		case 2:
			if i%8 == 7 {
				time.Sleep(20 * time.Microsecond)
			}
		}
	}
	actx, acancel := context.WithTimeout(context.Background(), watchdog)
	aerr := c.AwaitConverged(actx)
	acancel()
	close(stop)
	wg.Wait()
	stats["ack_calls"] += nAcks
	stats["results_snapshots"] += nSnap
	if maxQ > stats["max_queue_seen"] {
		stats["max_queue_seen"] = maxQ
	}
	if aerr != nil {
		return fmt.Sprintf("round %d: AwaitConverged = %v after every one of the %d results was sent", round, aerr, len(script))
	}
	if appProblem != "" {
		return fmt.Sprintf("round %d: %s", round, appProblem)
	}
	final, err := c.Results()
	if err != nil {
		return "Results(): " + err.Error()
	}
	pend, _ := c.Pending()
	got := map[resKey]int{}
	for k, v := range acked {
		got[k] += v
	}
	for _, x := range final {
		if x == nil {
			return fmt.Sprintf("round %d: the final Results() contains a nil entry", round)
		}
		got[keyOf(x)]++
	}
	var lost, dup, alien []string
	name := func(k resKey) string {
		if k.session {
			return "session-parameters result"
		}
		return fmt.Sprintf("id %d %s", k.id, k.st)
	}
	for k, w := range want {
		switch g := got[k]; {
		case g < w:
			lost = append(lost, name(k))
		case g > w:
			dup = append(dup, fmt.Sprintf("%s (x%d)", name(k), g))
		}
	}
	for k := range got {
		if want[k] == 0 {
			alien = append(alien, name(k))
		}
	}
	sort.Strings(lost)
	sort.Strings(dup)
	sort.Strings(alien)
	short := func(xs []string) string {
		if len(xs) > 4 {
			return fmt.Sprintf("%v ... (%d)", xs[:4], len(xs))
		}
		return fmt.Sprint(xs)
	}
	switch {
	case len(lost) > 0:
		return fmt.Sprintf("round %d: LOST: %s: sent by the server, AwaitConverged = nil, %d transactions pending, yet in none of the results the application acknowledged (%d, in %d AckResult calls) nor in the final Results() (%d)",
			round, short(lost), len(pend), len(acked), nAcks, len(final))
	case len(dup) > 0:
		return fmt.Sprintf("round %d: results shown again after they were acknowledged: %s", round, short(dup))
	case len(alien) > 0:
		return fmt.Sprintf("round %d: results that the server never sent: %s", round, short(alien))
	case len(pend) != 0:
		return fmt.Sprintf("round %d: AwaitConverged = nil with %d transactions pending", round, len(pend))
	}
	return ""
}

func runC13Ack(args []string) error {
	fl := drv.NewFlags("c13ack")
	if err := fl.Parse(args); err != nil {
		return err
	}
	var cases []ackCase
	if *fl.Replay != "" {
		if err := drv.ReadJSON(*fl.Replay, &cases); err != nil {
			return err
		}
	} else {
		r := drv.NewRng(*fl.Seed)
		for i := 0; i < *fl.N; i++ {
			cases = append(cases, ackCase{Seed: *fl.Seed*1000 + int64(i), N: drv.Pick(r, 60, 150, 400), Batch: drv.Pick(r, 1, 7, 1000),
				Fib: r.Chance(1, 3), Fail: drv.Pick(r, 0, 0, 5), Pace: i % 3, AppPace: r.Intn(3), Always: r.Chance(1, 3), Rounds: 6})
		}
	}
	f, err := newFabric()
	if err != nil {
		return err
	}
	old := client.BusyLoopDelay
	client.BusyLoopDelay = 200 * time.Microsecond
	defer func() { client.BusyLoopDelay = old }()
	rep := drv.Report{Property: "C13", Seed: *fl.Seed, Shard: drv.ShardSize, Stats: map[string]int{}, Cases: len(cases),
		Rule: "AckResult / Results racing with the receiver: 60/150/400 operations pending (RIB-ack, or FIB-ack with RIB then FIB result, some FAILED), the server streams one result per response (back to back / yielding / sleeping) while one application goroutine loops Results() + AckResult(results of operations whose terminal result it has seen); 6 rounds per case; afterwards AwaitConverged = nil and acknowledged results + final Results() = exactly the results sent; non-trivial = every case"}
	for i, c := range cases {
		problem := ""
		for round := 0; round < c.Rounds && problem == ""; round++ {
			problem = runAckRound(f, c, round, rep.Stats)
			rep.Stats["rounds"]++
		}
		if problem != "" {
			rep.Violations = append(rep.Violations, drv.Verdict{Case: i, Problem: problem})
		}
		rep.Stats[fmt.Sprintf("ops_%d", c.N)]++
		if c.Fib {
			rep.Stats["fib_ack"]++
		}
		rep.Stats[fmt.Sprintf("server_pace_%d", c.Pace)]++
		rep.Stats[fmt.Sprintf("app_pace_%d", c.AppPace)]++
		rep.Nontrivial++
	}
	if err := drv.WriteJSON(*fl.Out+"/cases.json", cases); err != nil {
		return err
	}
	if err := drv.WriteCasesV(*fl.Out, "From Coq Require Import List NArith.\nImport ListNotations.", "N", "(fun _ : list N => @nil N)", nil); err != nil {
		return err
	}
	return drv.WriteJSON(*fl.Out+"/impl.json", rep)
}
