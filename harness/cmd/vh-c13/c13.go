package main

// C13 — client accounting.  Drives the REAL client (client.New / UseStub / Connect / Q /
// StartSending / StopSending / AwaitConverged / Status) against a scripted stub server over an
// in-memory gRPC connection, one script step at a time, waits deterministically until the client
// has absorbed the step, records Pending()/Results()/Status() as Gallina terms for the comparison
// with Client/Queues.v, and evaluates the property's own predicate (conservation etc.) directly.

import (
	"context"
	"errors"
	"fmt"
	"sort"
	"strings"
	"time"

	"verifharness/drv"

	"github.com/openconfig/gribigo/client"
	"google.golang.org/grpc/codes"
	"google.golang.org/grpc/status"

	aftpb "github.com/openconfig/gribi/v1/proto/gribi_aft"
	spb "github.com/openconfig/gribi/v1/proto/service"
)

// OpJ is an AFT operation of a script.
type OpJ struct {
	ID   uint64 `json:"id"`
	Type int    `json:"t"`    // 0 INVALID 1 ADD 2 REPLACE 3 DELETE
	Kind int    `json:"kind"` // 0 none 1 ipv4 2 ipv6 3 mpls 4 nhg 5 nh
	Key  uint64 `json:"key"`
}

// ResJ is one AFTResult of a scripted response.
type ResJ struct {
	ID uint64 `json:"id"`
	St int    `json:"st"` // AFTResult.Status number: 0 UNSET 2 FAILED 3 RIB 4 FIB 5 FIB_FAILED
}

// Step is one step of a client script.
type Step struct {
	K      string `json:"k"` // q start stop resp recverr senderr await
	Ops    []OpJ  `json:"ops,omitempty"`
	Elec   bool   `json:"elec,omitempty"`
	Params bool   `json:"params,omitempty"`
	Res    []ResJ `json:"res,omitempty"`
	Code   int    `json:"code,omitempty"` // recverr: gRPC status code
}

// Case is a client script.
type Case struct {
	Fib    bool   `json:"fib"`
	Params bool   `json:"params"`
	Elec   bool   `json:"elec"`
	Steps  []Step `json:"steps"`
}

func (o OpJ) norm() OpJ {
	if o.Kind <= 0 || o.Kind > 5 || o.Key == 0 {
		o.Kind, o.Key = 0, 0
	}
	return o
}

func (o OpJ) proto() *spb.AFTOperation {
	o = o.norm()
	p := &spb.AFTOperation{Id: o.ID, NetworkInstance: "DEFAULT", Op: spb.AFTOperation_Operation(o.Type)}
	switch o.Kind {
	case 1:
		p.Entry = &spb.AFTOperation_Ipv4{Ipv4: &aftpb.Afts_Ipv4EntryKey{Prefix: fmt.Sprintf("10.0.0.%d/32", o.Key), Ipv4Entry: &aftpb.Afts_Ipv4Entry{}}}
	case 2:
		p.Entry = &spb.AFTOperation_Ipv6{Ipv6: &aftpb.Afts_Ipv6EntryKey{Prefix: fmt.Sprintf("2001:db8::%d/128", o.Key), Ipv6Entry: &aftpb.Afts_Ipv6Entry{}}}
	case 3:
		p.Entry = &spb.AFTOperation_Mpls{Mpls: &aftpb.Afts_LabelEntryKey{Label: &aftpb.Afts_LabelEntryKey_LabelUint64{LabelUint64: o.Key}, LabelEntry: &aftpb.Afts_LabelEntry{}}}
	case 4:
		p.Entry = &spb.AFTOperation_NextHopGroup{NextHopGroup: &aftpb.Afts_NextHopGroupKey{Id: o.Key, NextHopGroup: &aftpb.Afts_NextHopGroup{}}}
	case 5:
		p.Entry = &spb.AFTOperation_NextHop{NextHop: &aftpb.Afts_NextHopKey{Index: o.Key, NextHop: &aftpb.Afts_NextHop{}}}
	}
	return p
}

func (o OpJ) coq() string {
	o = o.norm()
	return fmt.Sprintf("mkop %d %d %d %d", o.ID, o.Type, o.Kind, o.Key)
}

func optypeOf(t int) int {
	switch t {
	case 1:
		return 1
	case 3:
		return 2
	case 2:
		return 3
	}
	return 0
}

func stCoq(st int) string {
	switch st {
	case 2:
		return "SFailed"
	case 3:
		return "SRib"
	case 4:
		return "SFib"
	case 5:
		return "SFibFailed"
	}
	return "SOther"
}

func bcoq(b bool) string {
	if b {
		return "true"
	}
	return "false"
}

func (s Step) coq() string {
	switch s.K {
	case "q":
		ops := []string{}
		for _, o := range s.Ops {
			ops = append(ops, o.coq())
		}
		return fmt.Sprintf("Q (mkmsg %s %s %s)", drv.CoqList(ops), bcoq(s.Elec), bcoq(s.Params))
	case "start":
		return "StartSending"
	case "stop":
		return "StopSending"
	case "resp":
		rs := []string{}
		for _, r := range s.Res {
			rs = append(rs, fmt.Sprintf("(%d, %s)", r.ID, stCoq(r.St)))
		}
		return fmt.Sprintf("Resp (mkrsp %s %s %s)", drv.CoqList(rs), bcoq(s.Elec), bcoq(s.Params))
	case "recverr":
		return "RecvErr"
	case "senderr":
		return "SendErr"
	case "eof":
		return "Eof"
	case "await":
		return "Await"
	}
	return "Await (* bad step *)"
}

func (s Step) request() *spb.ModifyRequest {
	m := &spb.ModifyRequest{}
	for _, o := range s.Ops {
		m.Operation = append(m.Operation, o.proto())
	}
	if s.Elec {
		m.ElectionId = &spb.Uint128{High: 0, Low: 7}
	}
	if s.Params {
		m.Params = &spb.SessionParameters{}
	}
	return m
}

func (s Step) response() *spb.ModifyResponse {
	m := &spb.ModifyResponse{}
	for _, r := range s.Res {
		m.Result = append(m.Result, &spb.AFTResult{Id: r.ID, Status: spb.AFTResult_Status(r.St)})
	}
	if s.Elec {
		m.ElectionId = &spb.Uint128{High: 0, Low: 9}
	}
	if s.Params {
		m.SessionParamsResult = &spb.SessionParametersResult{}
	}
	return m
}

// sanitise makes a (possibly shrunk or hand-written) script runnable: steps of an unknown kind are
// dropped and a request queued while not sending is dropped when 3 requests are already waiting, so
// that StartSending never has more than modifyBuffer requests to push (with a dead sender the tree
// blocks there for ever: that is C14's finding, kept out of C13's scripts).
func sanitise(c Case) Case {
	out := Case{Fib: c.Fib, Params: c.Params, Elec: c.Elec}
	if out.Fib {
		out.Params = true // FIBACK() is an option, hence SessParams != nil
	}
	if out.Elec {
		out.Params = true
	}
	sending := false
	waiting := 0
	for _, s := range c.Steps {
		switch s.K {
		case "q":
			if !sending {
				if waiting >= 3 {
					continue
				}
				waiting++
			}
		case "start":
			sending, waiting = true, 0
		case "stop":
			sending = false
		case "resp", "recverr", "senderr", "await", "eof":
		default:
			continue
		}
		out.Steps = append(out.Steps, s)
	}
	return out
}

// Obs is what the client shows after a step.
type Obs struct {
	Pend      []uint64
	Elec, Par bool
	Results   []string // Gallina
	ResIDs    []resObs
	SE, RE    int
	Await     string // "", AwOk, AwPending, AwErr a b
	Hang      string
}

type resObs struct {
	nilr     bool
	op       bool
	id       uint64
	st       int
	det      *[3]uint64
	terminal bool
}

func (o Obs) coq() string {
	ids := []string{}
	for _, i := range o.Pend {
		ids = append(ids, fmt.Sprint(i))
	}
	aw := "None"
	if o.Await != "" {
		aw = "(Some (" + o.Await + "))"
	}
	return fmt.Sprintf("mkobs %s %s %s %s %d %d %s", drv.CoqList(ids), bcoq(o.Elec), bcoq(o.Par), drv.CoqList(o.Results), o.SE, o.RE, aw)
}

func detOf(d *client.OpDetailsResults) [3]uint64 {
	var kind, key uint64
	var k uint64
	switch {
	case d.IPv4Prefix != "":
		fmt.Sscanf(d.IPv4Prefix, "10.0.0.%d/32", &k)
		kind, key = 1, k
	case d.IPv6Prefix != "":
		fmt.Sscanf(d.IPv6Prefix, "2001:db8::%d/128", &k)
		kind, key = 2, k
	case d.MPLSLabel != 0:
		kind, key = 3, d.MPLSLabel
	case d.NextHopGroupID != 0:
		kind, key = 4, d.NextHopGroupID
	case d.NextHopIndex != 0:
		kind, key = 5, d.NextHopIndex
	}
	return [3]uint64{uint64(d.Type), kind, key}
}

func removes(fib bool, st int) bool {
	switch st {
	case 2, 4, 5:
		return true
	case 3:
		return !fib
	}
	return false
}

func observe(c *client.Client, fib bool) (Obs, error) {
	var o Obs
	st, err := guardedStatus(c)
	if err != nil {
		return o, err
	}
	for _, p := range st.PendingTransactions {
		switch v := p.(type) {
		case *client.PendingOp:
			o.Pend = append(o.Pend, v.Op.GetId())
		case *client.ElectionReqDetails:
			o.Elec = true
		case *client.SessionParamReqDetails:
			o.Par = true
		}
	}
	for _, r := range st.Results {
		switch {
		case r == nil:
			o.Results = append(o.Results, "RNil")
			o.ResIDs = append(o.ResIDs, resObs{nilr: true})
		case r.CurrentServerElectionID != nil:
			o.Results = append(o.Results, "RElec "+bcoq(r.ClientError != ""))
			o.ResIDs = append(o.ResIDs, resObs{})
		case r.SessionParameters != nil:
			o.Results = append(o.Results, "RParams "+bcoq(r.ClientError != ""))
			o.ResIDs = append(o.ResIDs, resObs{})
		default:
			ro := resObs{op: true, id: r.OperationID, st: int(r.ProgrammingResult), terminal: removes(fib, int(r.ProgrammingResult))}
			d := "None"
			if r.Details != nil {
				x := detOf(r.Details)
				ro.det = &x
				d = fmt.Sprintf("(Some (%d, %d, %d))", x[0], x[1], x[2])
			}
			o.Results = append(o.Results, fmt.Sprintf("ROp %d %s %s", r.OperationID, stCoq(int(r.ProgrammingResult)), d))
			o.ResIDs = append(o.ResIDs, ro)
		}
	}
	o.SE, o.RE = len(st.SendErrs), len(st.ReadErrs)
	return o, nil
}

// opInst is one operation handed to Q: the very message the client was given, so that the pending queue can be
// asked for THIS operation (PendingOp.Op is the pointer that was queued) and not just for its id.
type opInst struct {
	step int
	op   OpJ
	ptr  *spb.AFTOperation
	qErr bool // the Q call that carried it left a send error on record
}

// runner executes one script on a fresh client.
type runner struct {
	f *fabric
}

// runCase returns the observation after every step and the oracle's verdict ("" = property holds).
func (r *runner) runCase(cs Case) ([]Obs, string) {
	opts := []client.Opt{}
	if cs.Fib {
		opts = append(opts, client.FIBACK())
	}
	if cs.Elec {
		opts = append(opts, client.ElectedPrimaryClient(&spb.Uint128{High: 0, Low: 7}))
	}
	if cs.Params && !cs.Fib && !cs.Elec {
		opts = append(opts, client.PersistEntries())
	}
	c, err := client.New(opts...)
	if err != nil {
		return nil, "client.New: " + err.Error()
	}
	p := newProbe()
	r.f.setProbe(p)
	if err := c.UseStub(spb.NewGRIBIClient(r.f.conn)); err != nil {
		return nil, err.Error()
	}
	ctx, cancel := context.WithCancel(context.Background())
	defer cancel()
	if err := c.Connect(ctx); err != nil {
		return nil, "Connect: " + err.Error()
	}
	h := r.f.nextStream()
	if h == nil {
		return nil, "server did not see the Modify RPC"
	}
	// the receiver goroutine is inside its first Recv
	waitFor(func() bool { return p.recvEntered.Load() >= 1 })

	var (
		obs         []Obs
		problem     string
		sending     bool
		waiting     int   // requests in the client's sendq
		handed      int64 // requests handed to a live sender
		senderAlive = true
		recvAlive   = true
		streamDead  bool
		armed       bool
		respSent    int64
		queued      = map[uint64]OpJ{}
		dupIDs      bool
		instances   []*opInst // every operation handed to Q, in order
	)
	note := func(i int, format string, a ...any) {
		if problem == "" {
			problem = fmt.Sprintf("step %d: ", i) + fmt.Sprintf(format, a...)
		}
	}
	drainDone := func() bool {
		select {
		case <-c.Done():
			return true
		case <-time.After(watchdog):
			return false
		}
	}
	// hand n requests to the sender and wait until it has dealt with them
	afterHand := func(i int, n int) {
		if n == 0 || !senderAlive {
			return
		}
		willFail := armed || streamDead
		if !willFail {
			handed += int64(n)
			if !waitFor(func() bool { return p.sendReturned.Load() >= handed }) {
				note(i, "HANG: sender did not send %d requests (sent %d)", handed, p.sendReturned.Load())
			}
			return
		}
		// the first of them fails, the sender returns
		if !waitFor(func() bool { return p.sendFailed.Load() >= 1 }) {
			note(i, "HANG: Send was expected to fail")
		}
		if !drainDone() {
			note(i, "HANG: Done() not signalled after the sender failed")
		}
		senderAlive, armed = false, false
	}
	call := func(i int, what string, fn func()) bool {
		done := make(chan struct{})
		go func() { defer close(done); fn() }()
		select {
		case <-done:
			return true
		case <-time.After(watchdog):
			note(i, "HANG: %s did not return", what)
			return false
		}
	}

	for i, s := range cs.Steps {
		before, _ := observe(c, cs.Fib)
		wantReadErr := ""
		ribOnly := []uint64{}
		switch s.K {
		case "q":
			for _, o := range s.Ops {
				if _, ok := queued[o.ID]; ok {
					dupIDs = true
				}
				queued[o.ID] = o.norm()
			}
			m := s.request()
			for j, o := range s.Ops {
				instances = append(instances, &opInst{step: i, op: o.norm(), ptr: m.Operation[j]})
			}
			if !call(i, "Q", func() { c.Q(m) }) {
				break
			}
			if sending {
				afterHand(i, 1)
			} else {
				waiting++
			}
		case "start":
			n := waiting
			if cs.Params {
				n++
			}
			if cs.Elec {
				n++
			}
			if !call(i, "StartSending", func() { c.StartSending() }) {
				break
			}
			sending, waiting = true, 0
			afterHand(i, n)
		case "stop":
			c.StopSending()
			sending = false
		case "senderr":
			p.failNext.Store(true)
			armed = true
		case "resp":
			if !recvAlive || streamDead {
				break
			}
			// what the property expects of this response (model-free): see oracle below
			pendSet := map[uint64]bool{}
			for _, id := range before.Pend {
				pendSet[id] = true
			}
			term := map[uint64]bool{}
			for _, ro := range before.ResIDs {
				if ro.op && ro.terminal {
					term[ro.id] = true
				}
			}
			for _, x := range s.Res {
				_, known := queued[x.ID]
				if !known && wantReadErr == "" {
					wantReadErr = fmt.Sprintf("result (%d, %s) for an id that was never queued", x.ID, stCoq(x.St))
				} else if removes(cs.Fib, x.St) && (term[x.ID] || !pendSet[x.ID]) && wantReadErr == "" {
					wantReadErr = fmt.Sprintf("second terminal result (%d, %s)", x.ID, stCoq(x.St))
				}
				if removes(cs.Fib, x.St) {
					term[x.ID] = true
					delete(pendSet, x.ID)
				}
			}
			if cs.Fib && !s.Elec && !s.Params {
				all := len(s.Res) > 0
				for _, x := range s.Res {
					if x.St != 3 {
						all = false
					}
				}
				if all {
					for _, x := range s.Res {
						if pendSet[x.ID] {
							ribOnly = append(ribOnly, x.ID)
						}
					}
				}
			}
			if !h.send(s.response()) {
				note(i, "HANG: server could not send the response")
				break
			}
			respSent++
			// absorbed: the receiver is back in Recv for the next message, or it has returned
			want := respSent + 1
			if !waitFor(func() bool {
				if p.recvEntered.Load() >= want {
					return true
				}
				st, _ := guardedStatus(c)
				return st != nil && len(st.ReadErrs) > 0
			}) {
				note(i, "HANG: the client did not absorb the response")
			}
			if st, _ := guardedStatus(c); st != nil && len(st.ReadErrs) > 0 {
				recvAlive = false
				if !drainDone() {
					note(i, "HANG: Done() not signalled after the receiver failed")
				}
			}
		case "eof":
			// the server ends the RPC with status OK: the receiver reads io.EOF; nothing is recorded, nothing completed
			if !recvAlive || streamDead {
				break
			}
			failedBefore := p.recvFailed.Load()
			h.end(nil)
			if !waitFor(func() bool { return p.recvFailed.Load() > failedBefore }) {
				note(i, "HANG: the receiver did not notice the end of the stream")
			}
			recvAlive = false
			if !drainDone() {
				note(i, "HANG: Done() not signalled after the server ended the RPC")
			}
		case "recverr":
			if !recvAlive {
				break
			}
			code := codes.Code(s.Code)
			if code == codes.OK {
				code = codes.Internal
			}
			h.end(status.Error(code, "scripted failure"))
			if !waitFor(func() bool { st, _ := guardedStatus(c); return st != nil && len(st.ReadErrs) > 0 }) {
				note(i, "HANG: receive error not recorded")
			}
			recvAlive, streamDead = false, true
			if !drainDone() {
				note(i, "HANG: Done() not signalled after the receiver failed")
			}
		}
		o, err := observe(c, cs.Fib)
		if err != nil {
			note(i, "Status(): %v", err)
		}
		if s.K == "await" {
			d := 2 * time.Second
			if o.SE == 0 && o.RE == 0 && (len(o.Pend) > 0 || o.Elec || o.Par || waiting > 0) {
				d = 15 * time.Millisecond // expected not to converge: do not wait long
			}
			actx, acancel := context.WithTimeout(context.Background(), d)
			var aerr error
			ok := call(i, "AwaitConverged", func() { aerr = c.AwaitConverged(actx) })
			acancel()
			var ce *client.ClientErr
			switch {
			case !ok:
				o.Await = "AwPending"
			case aerr == nil:
				o.Await = "AwOk"
			case errors.As(aerr, &ce):
				o.Await = fmt.Sprintf("AwErr %d %d", len(ce.Send), len(ce.Recv))
			default:
				o.Await = "AwPending"
			}
			// oracle: AwaitConverged
			conv := waiting == 0 && len(o.Pend) == 0 && !o.Elec && !o.Par
			switch {
			case o.SE+o.RE > 0 && o.Await != fmt.Sprintf("AwErr %d %d", o.SE, o.RE):
				note(i, "AwaitConverged = %s although %d send and %d receive errors are recorded", o.Await, o.SE, o.RE)
			case o.SE+o.RE == 0 && conv && o.Await != "AwOk":
				note(i, "AwaitConverged = %s although nothing is queued or pending and no error is recorded", o.Await)
			case o.SE+o.RE == 0 && !conv && o.Await != "AwPending":
				note(i, "AwaitConverged = %s with %d queued requests, pending %v election %v params %v", o.Await, waiting, o.Pend, o.Elec, o.Par)
			}
		}
		obs = append(obs, o)

		// ---- oracle, duplicate ids or not: an operation handed to Q is never silently gone.  At all times it is
		// pending (the pending queue holds THIS operation under its id), or resulted (a result for its id carrying
		// its type and key), or the Q call that carried it left a send error on record; errors stay on record.
		if before.RE > o.RE || before.SE > o.SE {
			note(i, "recorded errors disappeared")
		}
		if s.K == "q" && o.SE > before.SE {
			for _, in := range instances {
				if in.step == i {
					in.qErr = true
				}
			}
		}
		pendPtr := map[*spb.AFTOperation]bool{}
		if pt, err := c.Pending(); err == nil {
			for _, x := range pt {
				if po, ok := x.(*client.PendingOp); ok {
					pendPtr[po.Op] = true
				}
			}
		}
		for _, in := range instances {
			if pendPtr[in.ptr] || in.qErr {
				continue
			}
			w := [3]uint64{uint64(optypeOf(in.op.Type)), uint64(in.op.Kind), in.op.Key}
			resulted := false
			for _, ro := range o.ResIDs {
				if ro.op && ro.id == in.op.ID && ro.det != nil && *ro.det == w {
					resulted = true
				}
			}
			if !resulted {
				note(i, "operation %s handed to Q in step %d is silently gone: the pending queue does not hold it (pending ids %v), no result carries its id, type and key, and its Q call recorded no error (%d send errors on record)",
					in.op.coq(), in.step, o.Pend, o.SE)
				break
			}
		}

		// ---- oracle: the property's own predicate on Pending()/Results() (only for distinct ids)
		if dupIDs {
			continue
		}
		inPend := map[uint64]bool{}
		for _, id := range o.Pend {
			inPend[id] = true
			if _, ok := queued[id]; !ok {
				note(i, "pending id %d was never queued", id)
			}
		}
		nterm := map[uint64]int{}
		for _, ro := range o.ResIDs {
			if !ro.op {
				continue
			}
			q, ok := queued[ro.id]
			if ro.terminal {
				nterm[ro.id]++
				if !ok {
					note(i, "terminal result for id %d which was never queued", ro.id)
				}
			}
			if ro.det != nil {
				if !ok {
					note(i, "result with details for id %d which was never queued", ro.id)
				} else if w := [3]uint64{uint64(optypeOf(q.Type)), uint64(q.Kind), q.Key}; *ro.det != w {
					note(i, "result for id %d carries (type,kind,key) %v, the queued operation has %v", ro.id, *ro.det, w)
				}
			} else if !(cs.Fib && ro.st == 3) {
				note(i, "result for id %d without details and status %d", ro.id, ro.st)
			}
		}
		ids := []uint64{}
		for id := range queued {
			ids = append(ids, id)
		}
		sort.Slice(ids, func(a, b int) bool { return ids[a] < ids[b] })
		for _, id := range ids {
			switch {
			case inPend[id] && nterm[id] != 0:
				note(i, "operation %d is pending and has %d terminal results", id, nterm[id])
			case !inPend[id] && nterm[id] == 0:
				note(i, "operation %d is lost: neither pending nor resulted", id)
			case nterm[id] > 1:
				note(i, "operation %d completed %d times", id, nterm[id])
			}
		}
		if wantReadErr != "" && o.RE == 0 {
			note(i, "protocol violation by the server did not surface as an error: %s in %s (fib_ack=%v); no receive error recorded", wantReadErr, s.coq(), cs.Fib)
		}
		for _, id := range ribOnly {
			if !inPend[id] {
				note(i, "RIB acknowledgement completed operation %d in FIB-ack mode", id)
			}
		}
	}

	// tear down: end the RPC, then Close under the watchdog
	cancel()
	if !streamDead {
		h.end(nil)
	}
	closed := make(chan struct{})
	go func() { c.Close(); close(closed) }()
	select {
	case <-closed:
	case <-time.After(watchdog):
		if problem == "" {
			problem = "HANG: Close did not return at the end of the script"
		}
	}
	return obs, problem
}

// ------------------------------------------------------------------------------ generator

func genCase(r *drv.Rng) Case {
	c := Case{Fib: r.Chance(1, 2), Elec: r.Chance(1, 3)}
	c.Params = c.Fib || c.Elec || r.Chance(1, 3)
	nextID := uint64(1 + r.Intn(3))
	type sop struct {
		id     uint64
		rib    bool // RIB ack already sent (FIB mode)
		closed bool // terminal result sent
	}
	var live []*sop   // ops queued and not completed by the script
	var closed []*sop // ops completed
	sending := false
	waiting := 0
	recvAlive := true
	violate := r.Chance(1, 3)
	// some scripts reuse operation ids: the same id twice inside ONE request (different type and key), the id of a
	// pending operation in a later request (both rejected: send error, the rest of the message is not registered),
	// the id of a completed operation (accepted)
	dups := r.Chance(1, 5)
	nsteps := 6 + r.Intn(16)
	add := func(s Step) { c.Steps = append(c.Steps, s) }
	genQ := func() {
		if !sending && waiting >= 3 {
			return
		}
		s := Step{K: "q"}
		n := r.Intn(4)
		if r.Chance(1, 8) {
			n = 0
		}
		dupHere := dups && r.Chance(1, 2)
		if dupHere && n == 0 {
			n = 1 + r.Intn(3)
		}
		for j := 0; j < n; j++ {
			o := OpJ{ID: nextID, Type: drv.Pick(r, 1, 1, 2, 3, 3, 0), Kind: 1 + r.Intn(5), Key: uint64(1 + r.Intn(4))}
			if r.Chance(1, 12) {
				o.Kind, o.Key = 0, 0
			}
			nextID += uint64(1 + r.Intn(2))
			s.Ops = append(s.Ops, o)
		}
		rejectedFrom := len(s.Ops) // operations from this index on are not registered by the client
		if dupHere {
			// a second, different operation with an id that is already taken, at a random place of the request
			twin := func(id uint64) OpJ {
				return OpJ{ID: id, Type: drv.Pick(r, 1, 2, 3), Kind: 1 + r.Intn(5), Key: uint64(5 + r.Intn(4))}
			}
			insert := func(at int, o OpJ) {
				s.Ops = append(s.Ops[:at], append([]OpJ{o}, s.Ops[at:]...)...)
			}
			switch x := r.Intn(4); {
			case x <= 1 || (x == 2 && len(live) == 0) || (x == 3 && len(closed) == 0): // inside this request
				k := r.Intn(len(s.Ops))
				at := k + 1 + r.Intn(len(s.Ops)-k)
				insert(at, twin(s.Ops[k].ID))
				rejectedFrom = at
			case x == 2: // the id of an operation that is pending
				at := r.Intn(len(s.Ops) + 1)
				insert(at, twin(live[r.Intn(len(live))].id))
				rejectedFrom = at
			default: // the id of an operation that has been completed: accepted
				at := r.Intn(len(s.Ops) + 1)
				insert(at, twin(closed[r.Intn(len(closed))].id))
			}
		}
		for j, o := range s.Ops {
			if j < rejectedFrom {
				live = append(live, &sop{id: o.ID})
			}
		}
		if n == 0 || r.Chance(1, 10) {
			s.Elec = r.Chance(1, 2)
			s.Params = !s.Elec && r.Chance(1, 2)
		}
		if !sending {
			waiting++
		}
		add(s)
	}
	termSt := func() int {
		if c.Fib {
			return drv.Pick(r, 4, 4, 4, 5, 2)
		}
		return drv.Pick(r, 3, 3, 3, 2)
	}
	genResp := func() {
		s := Step{K: "resp"}
		switch x := r.Intn(12); {
		case x == 0:
			s.Elec = true
		case x == 1:
			s.Params = true
		default:
			k := 1 + r.Intn(3)
			for j := 0; j < k && len(live) > 0; j++ {
				idx := r.Intn(len(live)) // any order across ids
				o := live[idx]
				switch {
				case c.Fib && !o.rib && r.Chance(2, 3):
					s.Res = append(s.Res, ResJ{ID: o.id, St: 3})
					o.rib = true
				default:
					s.Res = append(s.Res, ResJ{ID: o.id, St: termSt()})
					o.closed = true
					live = append(live[:idx], live[idx+1:]...)
					closed = append(closed, o)
				}
			}
		}
		if violate && r.Chance(1, 4) {
			switch r.Intn(6) {
			case 0: // unknown id, terminal
				s.Res = append(s.Res, ResJ{ID: 900 + uint64(r.Intn(3)), St: termSt()})
			case 1: // unknown id, RIB ack
				s.Res = append(s.Res, ResJ{ID: 900 + uint64(r.Intn(3)), St: 3})
			case 2: // duplicate terminal result
				if len(closed) > 0 {
					s.Res = append(s.Res, ResJ{ID: closed[r.Intn(len(closed))].id, St: termSt()})
				}
			case 3: // late RIB ack after the terminal result (tolerated in FIB mode)
				if len(closed) > 0 {
					s.Res = append(s.Res, ResJ{ID: closed[r.Intn(len(closed))].id, St: 3})
				}
			case 4: // results together with an election id
				if len(s.Res) > 0 {
					s.Elec = true
				} else {
					s.Elec, s.Params = true, true
				}
			case 5: // status UNSET
				if len(live) > 0 {
					s.Res = append(s.Res, ResJ{ID: live[r.Intn(len(live))].id, St: 0})
				}
			}
			if r.Chance(1, 2) && len(s.Res) > 1 { // the offending result first
				s.Res[0], s.Res[len(s.Res)-1] = s.Res[len(s.Res)-1], s.Res[0]
			}
		}
		if len(s.Res) == 0 && !s.Elec && !s.Params && r.Chance(3, 4) {
			return
		}
		add(s)
	}
	for i := 0; i < nsteps; i++ {
		switch x := r.Intn(40); {
		case x < 13:
			genQ()
		case x < 17:
			if !sending {
				add(Step{K: "start"})
				sending, waiting = true, 0
			} else if r.Chance(1, 3) {
				add(Step{K: "stop"})
				sending = false
			}
		case x < 32:
			if !sending && len(live) == 0 && r.Chance(1, 2) {
				add(Step{K: "start"})
				sending, waiting = true, 0
			}
			genResp()
		case x < 36:
			add(Step{K: "await"})
		case x < 37:
			if violate {
				add(Step{K: "recverr", Code: drv.Pick(r, int(codes.Internal), int(codes.Unavailable), int(codes.FailedPrecondition), int(codes.Canceled))})
				recvAlive = false
			}
		case x < 38:
			if violate {
				add(Step{K: "senderr"})
			}
		default:
			genQ()
		}
	}
	_ = recvAlive
	// finish: send what is waiting, answer what is live, await
	if r.Chance(4, 5) {
		if !sending {
			add(Step{K: "start"})
		}
		for len(live) > 0 && r.Chance(9, 10) {
			genRespLen := len(c.Steps)
			genResp()
			if len(c.Steps) == genRespLen {
				break
			}
		}
		if c.Params && r.Chance(4, 5) {
			add(Step{K: "resp", Params: true})
		}
		if c.Elec && r.Chance(4, 5) {
			add(Step{K: "resp", Elec: true})
		}
	}
	if recvAlive && r.Chance(1, 5) {
		// the server ends the RPC cleanly, whatever is still unanswered
		add(Step{K: "eof"})
	}
	add(Step{K: "await"})
	return c
}

func caseKey(c Case) string {
	var b strings.Builder
	fmt.Fprintf(&b, "%v%v%v|", c.Fib, c.Params, c.Elec)
	for _, s := range c.Steps {
		b.WriteString(s.coq() + ";")
	}
	return b.String()
}

func runC13(args []string) error {
	f := drv.NewFlags("c13")
	if err := f.Parse(args); err != nil {
		return err
	}
	client.BusyLoopDelay = time.Millisecond
	r := drv.NewRng(*f.Seed)
	var cases []Case
	if *f.Replay != "" {
		if err := drv.ReadJSON(*f.Replay, &cases); err != nil {
			return err
		}
	} else {
		for i := 0; i < *f.N; i++ {
			cases = append(cases, genCase(r))
		}
	}
	fab, err := newFabric()
	if err != nil {
		return err
	}
	run := &runner{f: fab}
	rep := drv.Report{Property: "C13", Seed: *f.Seed, Shard: drv.ShardSize, Stats: map[string]int{}, Cases: len(cases),
		Rule: "client scripts against a scripted stub server over in-memory gRPC; some scripts carry the same operation id twice inside one request or reuse the id of a pending / completed operation; non-trivial = at least 2 operations completed, at least one response batching >= 2 results or answering ids out of queue order, and an AwaitConverged; distinct by the canonical text of configuration and steps"}
	var coq []string
	distinct := map[string]bool{}
	for i, c0 := range cases {
		c := sanitise(c0)
		obs, problem := run.runCase(c)
		if problem != "" {
			rep.Violations = append(rep.Violations, drv.Verdict{Case: i, Problem: problem})
		}
		steps := []string{}
		completed, batched, reordered, awaits := 0, false, false, 0
		var lastID uint64
		idsSoFar := map[uint64]bool{}
		seen2 := map[uint64]bool{}
		for j, s := range c.Steps {
			if j >= len(obs) {
				break
			}
			steps = append(steps, fmt.Sprintf("(%s, %s)", s.coq(), obs[j].coq()))
			rep.Stats["step_"+s.K]++
			switch s.K {
			case "resp":
				if len(s.Res) >= 2 {
					batched = true
				}
				for _, x := range s.Res {
					if x.ID < lastID {
						reordered = true
					}
					lastID = x.ID
					rep.Stats["result_status_"+stCoq(x.St)]++
				}
				if s.Elec {
					rep.Stats["resp_election"]++
				}
				if s.Params {
					rep.Stats["resp_params"]++
				}
			case "await":
				awaits++
				rep.Stats["await_"+strings.Fields(obs[j].Await + " ?")[0]]++
			case "q":
				rep.Stats["ops_queued"] += len(s.Ops)
				seen := map[uint64]bool{}
				for _, o := range s.Ops {
					if seen[o.ID] {
						rep.Stats["q_same_id_twice_in_one_request"]++
						break
					}
					seen[o.ID] = true
				}
				for _, o := range s.Ops {
					if idsSoFar[o.ID] && !seen2[o.ID] {
						rep.Stats["q_id_of_an_earlier_request"]++
						break
					}
				}
				for _, o := range s.Ops {
					idsSoFar[o.ID] = true
				}
			}
		}
		if len(obs) > 0 {
			last := obs[len(obs)-1]
			for _, ro := range last.ResIDs {
				if ro.op && ro.terminal {
					completed++
				}
				if ro.nilr {
					rep.Stats["nil_results"]++
				}
			}
			if last.RE > 0 {
				rep.Stats["cases_with_read_error"]++
			}
			if last.SE > 0 {
				rep.Stats["cases_with_send_error"]++
			}
		}
		if c.Fib {
			rep.Stats["cases_fib_ack"]++
		}
		if completed >= 2 && (batched || reordered) && awaits > 0 {
			distinct[caseKey(c)] = true
		}
		coq = append(coq, fmt.Sprintf("((%s, %s, %s),\n  %s)", bcoq(c.Fib), bcoq(c.Params), bcoq(c.Elec), drv.CoqList(steps)))
		if i < 2 || i == len(cases)-1 {
			txt := []string{fmt.Sprintf("fib=%v params=%v elec=%v", c.Fib, c.Params, c.Elec)}
			for j, s := range c.Steps {
				if j < len(obs) {
					txt = append(txt, s.coq()+" => "+obs[j].coq())
				}
			}
			rep.Samples = append(rep.Samples, txt)
		}
	}
	rep.Nontrivial = len(distinct)
	if err := drv.WriteJSON(*f.Out+"/cases.json", cases); err != nil {
		return err
	}
	if err := drv.WriteCasesV(*f.Out, "From Coq Require Import List NArith Bool.\nFrom GV.Client Require Import Queues.\nImport ListNotations.\nOpen Scope N_scope.", "ccase", "cmismatches", coq); err != nil {
		return err
	}
	return drv.WriteJSON(*f.Out+"/impl.json", rep)
}
