package main

import (
	"fmt"
	"runtime"
	"testing"
)

// capTB is a testing.TB that records instead of failing a test. It embeds the interface (nil) to
// satisfy its unexported method and overrides everything the fluent package can reach.
type capTB struct {
	testing.TB
	fatals int
	errors int
}

func (c *capTB) Helper()               {}
func (c *capTB) Name() string          { return "vh-c18" }
func (c *capTB) Log(...any)            {}
func (c *capTB) Logf(string, ...any)   {}
func (c *capTB) Error(...any)          { c.errors++ }
func (c *capTB) Errorf(string, ...any) { c.errors++ }
func (c *capTB) Fail()                 { c.errors++ }
func (c *capTB) Failed() bool          { return c.fatals > 0 || c.errors > 0 }
func (c *capTB) Fatal(...any)          { c.fatals++; runtime.Goexit() }
func (c *capTB) Fatalf(string, ...any) { c.fatals++; runtime.Goexit() }
func (c *capTB) FailNow()              { c.fatals++; runtime.Goexit() }
func (c *capTB) Cleanup(func())        {}

// capture runs f in its own goroutine (t.Fatal ends it with runtime.Goexit, as the testing package
// does). It returns the number of fatal calls and a description of anything else that went wrong
// (panic, non-fatal t.Error): neither is a behaviour a program of builder calls may show.
func capture(f func(t testing.TB)) (fatals int, odd string) {
	c := &capTB{}
	done := make(chan struct{})
	go func() {
		defer close(done)
		defer func() {
			if r := recover(); r != nil {
				odd = fmt.Sprintf("panic: %v", r)
			}
		}()
		f(c)
	}()
	<-done
	if odd == "" && c.errors > 0 {
		odd = "non-fatal t.Error"
	}
	return c.fatals, odd
}
