// vh-c18 is the correspondence / oracle harness of property C18 (package fluent): it generates
// PROGRAMS — builder calls in any order with repeats, interleaved with AddEntry / ReplaceEntry /
// DeleteEntry / UpdateElectionID, connection calls and the lifecycle calls Start / StartSending / Stop /
// Start again on one or two fluent clients — runs them through the real fluent API against recording
// spb.GRIBIClient stubs (one per Start, i.e. per client.Client), and writes
//   <out>/cases.json   the programs (replayable inputs)
//   <out>/cases_<k>.v  the programs with the captured ModifyRequests / OpProto / EntryProto
//                      messages as Gallina terms for Tools/FluentObs.v
//   <out>/impl.json    verdicts of the model-free oracle (ids distinct and strictly increasing, 1,2,3,..., over
//                      the whole life of a fluent client, restarts included; op types, election stamps from
//                      the script, queued messages unchanged by later builder calls) and statistics
package main

import "verifharness/drv"

func main() { drv.Main(map[string]drv.Cmd{"c18": runC18}) }
