// vh-c18 is the correspondence / oracle harness of property C18 (package fluent): it generates
// PROGRAMS — builder calls in any order with repeats, interleaved with AddEntry / ReplaceEntry /
// DeleteEntry / UpdateElectionID and connection calls on one or two fluent clients — runs them
// through the real fluent API against a recording spb.GRIBIClient stub, and writes
//   <out>/cases.json   the programs (replayable inputs)
//   <out>/cases_<k>.v  the programs with the captured ModifyRequests / OpProto / EntryProto
//                      messages as Gallina terms for Tools/FluentObs.v
//   <out>/impl.json    verdicts of the model-free oracle (ids 1,2,3,..., op types, election stamps from
//                      the script, queued messages unchanged by later builder calls) and statistics
package main

import "verifharness/drv"

func main() { drv.Main(map[string]drv.Cmd{"c18": runC18}) }
