package main

import (
	"fmt"
	"strings"

	"google.golang.org/protobuf/proto"

	"verifharness/drv"

	aftpb "github.com/openconfig/gribi/v1/proto/gribi_aft"
	enums "github.com/openconfig/gribi/v1/proto/gribi_aft/enums"
	spb "github.com/openconfig/gribi/v1/proto/service"
	wpb "github.com/openconfig/ygot/proto/ywrapper"
)

// The captured protobuf messages are turned into the abstract messages of Tools/Fluent.v. To make
// sure the abstract form loses nothing ("... and nothing else"), each message is first reduced to a
// Go mirror of the abstract form, the mirror is turned back into a protobuf, and that must be
// proto.Equal to the captured message; the Gallina term is printed from the mirror.

type aIP struct {
	Prefix string
	NHG    *uint64
	NHGNI  *string
	Meta   *string
}
type aLabel struct {
	Label  *uint64
	NHG    *uint64
	NHGNI  *string
	Popped []uint64
}
type aUDP6 struct {
	DSCP, DstPort, TTL, SrcPort *uint64
	DstIP, SrcIP                *string
}
type aEncap struct {
	Type uint64
	MPLS *[]uint64
	UDP6 *aUDP6
}
type aIfRef struct {
	Name string
	Sub  *uint64
}
type aEncapKey struct {
	Index uint64
	H     aEncap
}
type aBody struct {
	IP, Mac, NI *string
	IfRef       *aIfRef
	IPinIP      *[2]string // src, dst
	Pop         *bool
	Pushed      []uint64
	Encap       []aEncapKey
	Decap, Enc  uint64
}
type aNH struct {
	Index uint64
	Body  *aBody
}
type aNHG struct {
	ID     uint64
	Backup *uint64
	NHs    [][2]uint64
}
type aPayload struct {
	Kind  string // ipv4 ipv6 label nh nhg
	IP    *aIP
	Label *aLabel
	NH    *aNH
	NHG   *aNHG
}
type aOp struct {
	ID    uint64
	NI    string
	Op    uint64
	Elec  *[2]uint64 // high, low
	Entry aPayload
}
type aEntry struct {
	NI    string
	Entry aPayload
}
type aReq struct {
	Ops    []aOp
	Params *[3]uint64
	Elec   *[2]uint64
}

// ---- protobuf -> mirror (nil-safe getters only; whatever is not read here is caught by the round trip)

func uv(v *wpb.UintValue) *uint64 {
	if v == nil {
		return nil
	}
	x := v.GetValue()
	return &x
}
func sv(v *wpb.StringValue) *string {
	if v == nil {
		return nil
	}
	x := v.GetValue()
	return &x
}

func absIP4(k *aftpb.Afts_Ipv4EntryKey) *aIP {
	e := k.GetIpv4Entry()
	a := &aIP{Prefix: k.GetPrefix(), NHG: uv(e.GetNextHopGroup()), NHGNI: sv(e.GetNextHopGroupNetworkInstance())}
	if m := e.GetEntryMetadata(); m != nil {
		x := string(m.GetValue())
		a.Meta = &x
	}
	return a
}
func absIP6(k *aftpb.Afts_Ipv6EntryKey) *aIP {
	e := k.GetIpv6Entry()
	a := &aIP{Prefix: k.GetPrefix(), NHG: uv(e.GetNextHopGroup()), NHGNI: sv(e.GetNextHopGroupNetworkInstance())}
	if m := e.GetEntryMetadata(); m != nil {
		x := string(m.GetValue())
		a.Meta = &x
	}
	return a
}
func absLabel(k *aftpb.Afts_LabelEntryKey) *aLabel {
	e := k.GetLabelEntry()
	a := &aLabel{NHG: uv(e.GetNextHopGroup()), NHGNI: sv(e.GetNextHopGroupNetworkInstance())}
	if l, ok := k.GetLabel().(*aftpb.Afts_LabelEntryKey_LabelUint64); ok {
		x := l.LabelUint64
		a.Label = &x
	}
	for _, p := range e.GetPoppedMplsLabelStack() {
		a.Popped = append(a.Popped, p.GetPoppedMplsLabelStackUint64())
	}
	return a
}
func absEncap(h *aftpb.Afts_NextHop_EncapHeader) aEncap {
	a := aEncap{Type: uint64(h.GetType())}
	if m := h.GetMpls(); m != nil {
		ls := []uint64{}
		for _, l := range m.GetMplsLabelStack() {
			ls = append(ls, l.GetMplsLabelStackUint64())
		}
		a.MPLS = &ls
	}
	if u := h.GetUdpV6(); u != nil {
		a.UDP6 = &aUDP6{DSCP: uv(u.GetDscp()), DstIP: sv(u.GetDstIp()), DstPort: uv(u.GetDstUdpPort()), TTL: uv(u.GetIpTtl()),
			SrcIP: sv(u.GetSrcIp()), SrcPort: uv(u.GetSrcUdpPort())}
	}
	return a
}
func absNH(k *aftpb.Afts_NextHopKey) *aNH {
	a := &aNH{Index: k.GetIndex()}
	n := k.GetNextHop()
	if n == nil {
		return a
	}
	b := &aBody{IP: sv(n.GetIpAddress()), Mac: sv(n.GetMacAddress()), NI: sv(n.GetNetworkInstance()),
		Decap: uint64(n.GetDecapsulateHeader()), Enc: uint64(n.GetEncapsulateHeader())}
	if r := n.GetInterfaceRef(); r != nil {
		b.IfRef = &aIfRef{Name: r.GetInterface().GetValue(), Sub: uv(r.GetSubinterface())}
	}
	if t := n.GetIpInIp(); t != nil {
		b.IPinIP = &[2]string{t.GetSrcIp().GetValue(), t.GetDstIp().GetValue()}
	}
	if p := n.GetPopTopLabel(); p != nil {
		x := p.GetValue()
		b.Pop = &x
	}
	for _, l := range n.GetPushedMplsLabelStack() {
		b.Pushed = append(b.Pushed, l.GetPushedMplsLabelStackUint64())
	}
	for _, h := range n.GetEncapHeader() {
		b.Encap = append(b.Encap, aEncapKey{Index: h.GetIndex(), H: absEncap(h.GetEncapHeader())})
	}
	a.Body = b
	return a
}
func absNHG(k *aftpb.Afts_NextHopGroupKey) *aNHG {
	g := k.GetNextHopGroup()
	a := &aNHG{ID: k.GetId(), Backup: uv(g.GetBackupNextHopGroup())}
	for _, n := range g.GetNextHop() {
		a.NHs = append(a.NHs, [2]uint64{n.GetIndex(), n.GetNextHop().GetWeight().GetValue()})
	}
	return a
}

func absElec(u *spb.Uint128) *[2]uint64 {
	if u == nil {
		return nil
	}
	return &[2]uint64{u.GetHigh(), u.GetLow()}
}

func absOp(o *spb.AFTOperation) aOp {
	a := aOp{ID: o.GetId(), NI: o.GetNetworkInstance(), Op: uint64(o.GetOp()), Elec: absElec(o.GetElectionId())}
	switch v := o.GetEntry().(type) {
	case *spb.AFTOperation_Ipv4:
		a.Entry = aPayload{Kind: "ipv4", IP: absIP4(v.Ipv4)}
	case *spb.AFTOperation_Ipv6:
		a.Entry = aPayload{Kind: "ipv6", IP: absIP6(v.Ipv6)}
	case *spb.AFTOperation_Mpls:
		a.Entry = aPayload{Kind: "label", Label: absLabel(v.Mpls)}
	case *spb.AFTOperation_NextHop:
		a.Entry = aPayload{Kind: "nh", NH: absNH(v.NextHop)}
	case *spb.AFTOperation_NextHopGroup:
		a.Entry = aPayload{Kind: "nhg", NHG: absNHG(v.NextHopGroup)}
	}
	return a
}

func absEntry(o *spb.AFTEntry) aEntry {
	a := aEntry{NI: o.GetNetworkInstance()}
	switch v := o.GetEntry().(type) {
	case *spb.AFTEntry_Ipv4:
		a.Entry = aPayload{Kind: "ipv4", IP: absIP4(v.Ipv4)}
	case *spb.AFTEntry_Ipv6:
		a.Entry = aPayload{Kind: "ipv6", IP: absIP6(v.Ipv6)}
	case *spb.AFTEntry_Mpls:
		a.Entry = aPayload{Kind: "label", Label: absLabel(v.Mpls)}
	case *spb.AFTEntry_NextHop:
		a.Entry = aPayload{Kind: "nh", NH: absNH(v.NextHop)}
	case *spb.AFTEntry_NextHopGroup:
		a.Entry = aPayload{Kind: "nhg", NHG: absNHG(v.NextHopGroup)}
	}
	return a
}

func absReq(m *spb.ModifyRequest) aReq {
	a := aReq{Elec: absElec(m.GetElectionId())}
	for _, o := range m.GetOperation() {
		a.Ops = append(a.Ops, absOp(o))
	}
	if p := m.GetParams(); p != nil {
		a.Params = &[3]uint64{uint64(p.GetRedundancy()), uint64(p.GetPersistence()), uint64(p.GetAckType())}
	}
	return a
}

// ---- mirror -> protobuf

func puv(v *uint64) *wpb.UintValue {
	if v == nil {
		return nil
	}
	return &wpb.UintValue{Value: *v}
}
func psv(v *string) *wpb.StringValue {
	if v == nil {
		return nil
	}
	return &wpb.StringValue{Value: *v}
}

type hdrT = enums.OpenconfigAftTypesEncapsulationHeaderType

func (a *aIP) v4() *aftpb.Afts_Ipv4EntryKey {
	e := &aftpb.Afts_Ipv4Entry{NextHopGroup: puv(a.NHG), NextHopGroupNetworkInstance: psv(a.NHGNI)}
	if a.Meta != nil {
		e.EntryMetadata = &wpb.BytesValue{Value: []byte(*a.Meta)}
	}
	return &aftpb.Afts_Ipv4EntryKey{Prefix: a.Prefix, Ipv4Entry: e}
}
func (a *aIP) v6() *aftpb.Afts_Ipv6EntryKey {
	e := &aftpb.Afts_Ipv6Entry{NextHopGroup: puv(a.NHG), NextHopGroupNetworkInstance: psv(a.NHGNI)}
	if a.Meta != nil {
		e.EntryMetadata = &wpb.BytesValue{Value: []byte(*a.Meta)}
	}
	return &aftpb.Afts_Ipv6EntryKey{Prefix: a.Prefix, Ipv6Entry: e}
}
func (a *aLabel) pb() *aftpb.Afts_LabelEntryKey {
	e := &aftpb.Afts_LabelEntry{NextHopGroup: puv(a.NHG), NextHopGroupNetworkInstance: psv(a.NHGNI)}
	for _, p := range a.Popped {
		e.PoppedMplsLabelStack = append(e.PoppedMplsLabelStack, &aftpb.Afts_LabelEntry_PoppedMplsLabelStackUnion{PoppedMplsLabelStackUint64: p})
	}
	k := &aftpb.Afts_LabelEntryKey{LabelEntry: e}
	if a.Label != nil {
		k.Label = &aftpb.Afts_LabelEntryKey_LabelUint64{LabelUint64: *a.Label}
	}
	return k
}
func (a aEncap) pb() *aftpb.Afts_NextHop_EncapHeader {
	h := &aftpb.Afts_NextHop_EncapHeader{Type: hdrT(a.Type)}
	if a.MPLS != nil {
		h.Mpls = &aftpb.Afts_NextHop_EncapHeader_Mpls{}
		for _, l := range *a.MPLS {
			h.Mpls.MplsLabelStack = append(h.Mpls.MplsLabelStack, &aftpb.Afts_NextHop_EncapHeader_Mpls_MplsLabelStackUnion{MplsLabelStackUint64: l})
		}
	}
	if u := a.UDP6; u != nil {
		h.UdpV6 = &aftpb.Afts_NextHop_EncapHeader_UdpV6{Dscp: puv(u.DSCP), DstIp: psv(u.DstIP), DstUdpPort: puv(u.DstPort),
			IpTtl: puv(u.TTL), SrcIp: psv(u.SrcIP), SrcUdpPort: puv(u.SrcPort)}
	}
	return h
}
func (a *aNH) pb() *aftpb.Afts_NextHopKey {
	k := &aftpb.Afts_NextHopKey{Index: a.Index}
	b := a.Body
	if b == nil {
		return k
	}
	n := &aftpb.Afts_NextHop{IpAddress: psv(b.IP), MacAddress: psv(b.Mac), NetworkInstance: psv(b.NI),
		DecapsulateHeader: hdrT(b.Decap), EncapsulateHeader: hdrT(b.Enc)}
	if b.IfRef != nil {
		n.InterfaceRef = &aftpb.Afts_NextHop_InterfaceRef{Interface: &wpb.StringValue{Value: b.IfRef.Name}, Subinterface: puv(b.IfRef.Sub)}
	}
	if b.IPinIP != nil {
		n.IpInIp = &aftpb.Afts_NextHop_IpInIp{SrcIp: &wpb.StringValue{Value: b.IPinIP[0]}, DstIp: &wpb.StringValue{Value: b.IPinIP[1]}}
	}
	if b.Pop != nil {
		n.PopTopLabel = &wpb.BoolValue{Value: *b.Pop}
	}
	for _, l := range b.Pushed {
		n.PushedMplsLabelStack = append(n.PushedMplsLabelStack, &aftpb.Afts_NextHop_PushedMplsLabelStackUnion{PushedMplsLabelStackUint64: l})
	}
	for _, h := range b.Encap {
		n.EncapHeader = append(n.EncapHeader, &aftpb.Afts_NextHop_EncapHeaderKey{Index: h.Index, EncapHeader: h.H.pb()})
	}
	k.NextHop = n
	return k
}
func (a *aNHG) pb() *aftpb.Afts_NextHopGroupKey {
	g := &aftpb.Afts_NextHopGroup{BackupNextHopGroup: puv(a.Backup)}
	for _, n := range a.NHs {
		g.NextHop = append(g.NextHop, &aftpb.Afts_NextHopGroup_NextHopKey{Index: n[0],
			NextHop: &aftpb.Afts_NextHopGroup_NextHop{Weight: &wpb.UintValue{Value: n[1]}}})
	}
	return &aftpb.Afts_NextHopGroupKey{Id: a.ID, NextHopGroup: g}
}
func pElec(e *[2]uint64) *spb.Uint128 {
	if e == nil {
		return nil
	}
	return &spb.Uint128{High: e[0], Low: e[1]}
}
func (a aOp) pb() *spb.AFTOperation {
	o := &spb.AFTOperation{Id: a.ID, NetworkInstance: a.NI, Op: spb.AFTOperation_Operation(a.Op), ElectionId: pElec(a.Elec)}
	switch a.Entry.Kind {
	case "ipv4":
		o.Entry = &spb.AFTOperation_Ipv4{Ipv4: a.Entry.IP.v4()}
	case "ipv6":
		o.Entry = &spb.AFTOperation_Ipv6{Ipv6: a.Entry.IP.v6()}
	case "label":
		o.Entry = &spb.AFTOperation_Mpls{Mpls: a.Entry.Label.pb()}
	case "nh":
		o.Entry = &spb.AFTOperation_NextHop{NextHop: a.Entry.NH.pb()}
	case "nhg":
		o.Entry = &spb.AFTOperation_NextHopGroup{NextHopGroup: a.Entry.NHG.pb()}
	}
	return o
}
func (a aEntry) pb() *spb.AFTEntry {
	o := &spb.AFTEntry{NetworkInstance: a.NI}
	switch a.Entry.Kind {
	case "ipv4":
		o.Entry = &spb.AFTEntry_Ipv4{Ipv4: a.Entry.IP.v4()}
	case "ipv6":
		o.Entry = &spb.AFTEntry_Ipv6{Ipv6: a.Entry.IP.v6()}
	case "label":
		o.Entry = &spb.AFTEntry_Mpls{Mpls: a.Entry.Label.pb()}
	case "nh":
		o.Entry = &spb.AFTEntry_NextHop{NextHop: a.Entry.NH.pb()}
	case "nhg":
		o.Entry = &spb.AFTEntry_NextHopGroup{NextHopGroup: a.Entry.NHG.pb()}
	}
	return o
}
func (a aReq) pb() *spb.ModifyRequest {
	m := &spb.ModifyRequest{ElectionId: pElec(a.Elec)}
	for _, o := range a.Ops {
		m.Operation = append(m.Operation, o.pb())
	}
	if a.Params != nil {
		m.Params = &spb.SessionParameters{Redundancy: spb.SessionParameters_ClientRedundancy(a.Params[0]),
			Persistence: spb.SessionParameters_AFTPersistence(a.Params[1]), AckType: spb.SessionParameters_AFTResultStatusType(a.Params[2])}
	}
	return m
}

// faithful reports whether the abstract form of m says everything m says.
func faithful(m proto.Message, back proto.Message) string {
	if proto.Equal(m, back) {
		return ""
	}
	return fmt.Sprintf("message carries something the fluent API has no call for: got {%v}, the fields the API can set give {%v}", m, back)
}

// ---- mirror -> Gallina

func cOptN(v *uint64) string {
	if v == nil {
		return "None"
	}
	return fmt.Sprintf("(Some %d)", *v)
}
func cOptS(v *string) string {
	if v == nil {
		return "None"
	}
	return "(Some " + coqStr(*v) + ")"
}
func cElec(e *[2]uint64) string {
	if e == nil {
		return "None"
	}
	return fmt.Sprintf("(Some (%d, %d))", e[0], e[1])
}
func (a *aIP) coq() string {
	return fmt.Sprintf("(MkIp %s %s %s %s)", coqStr(a.Prefix), cOptN(a.NHG), cOptS(a.NHGNI), cOptS(a.Meta))
}
func (a *aLabel) coq() string {
	return fmt.Sprintf("(MkLabel %s %s %s %s)", cOptN(a.Label), cOptN(a.NHG), cOptS(a.NHGNI), coqNs(a.Popped))
}
func (a aEncap) coq() string {
	m, u := "None", "None"
	if a.MPLS != nil {
		m = "(Some " + coqNs(*a.MPLS) + ")"
	}
	if x := a.UDP6; x != nil {
		u = fmt.Sprintf("(Some (MkUdp6 %s %s %s %s %s %s))", cOptN(x.DSCP), cOptS(x.DstIP), cOptN(x.DstPort), cOptN(x.TTL), cOptS(x.SrcIP), cOptN(x.SrcPort))
	}
	return fmt.Sprintf("(MkEncap %d %s %s)", a.Type, m, u)
}
func (a *aNH) coq() string {
	if a.Body == nil {
		return fmt.Sprintf("(MkNh %d None)", a.Index)
	}
	b := a.Body
	ifr, ipip, pop := "None", "None", "None"
	if b.IfRef != nil {
		ifr = fmt.Sprintf("(Some (%s, %s))", coqStr(b.IfRef.Name), cOptN(b.IfRef.Sub))
	}
	if b.IPinIP != nil {
		ipip = fmt.Sprintf("(Some (%s, %s))", coqStr(b.IPinIP[0]), coqStr(b.IPinIP[1]))
	}
	if b.Pop != nil {
		pop = fmt.Sprintf("(Some %v)", *b.Pop)
	}
	hs := []string{}
	for _, h := range b.Encap {
		hs = append(hs, fmt.Sprintf("(%d, %s)", h.Index, h.H.coq()))
	}
	return fmt.Sprintf("(MkNh %d (Some (MkBody %s %s %s %s %s %s %s %s %d %d)))", a.Index, cOptS(b.IP), ifr, cOptS(b.Mac), ipip, cOptS(b.NI),
		pop, coqNs(b.Pushed), drv.CoqList(hs), b.Decap, b.Enc)
}
func (a *aNHG) coq() string {
	ns := []string{}
	for _, n := range a.NHs {
		ns = append(ns, fmt.Sprintf("(%d, %d)", n[0], n[1]))
	}
	return fmt.Sprintf("(MkNhg %d %s %s)", a.ID, cOptN(a.Backup), drv.CoqList(ns))
}
func (p aPayload) coq() string {
	switch p.Kind {
	case "ipv4":
		return "(PIPv4 " + p.IP.coq() + ")"
	case "ipv6":
		return "(PIPv6 " + p.IP.coq() + ")"
	case "label":
		return "(PLabel " + p.Label.coq() + ")"
	case "nh":
		return "(PNH " + p.NH.coq() + ")"
	case "nhg":
		return "(PNHG " + p.NHG.coq() + ")"
	}
	// no entry at all: cannot come out of a builder; printed as something no model run produces
	return "(PNHG (MkNhg 0 (Some 0) [(0, 0); (0, 0); (0, 0); (0, 0); (0, 0); (0, 0); (0, 0); (0, 0)]))"
}
func (a aOp) coq() string {
	return fmt.Sprintf("(MkOp %d %s %d %s %s)", a.ID, coqStr(a.NI), a.Op, cElec(a.Elec), a.Entry.coq())
}
func (a aEntry) coq() string {
	return fmt.Sprintf("(MkEntry %s %s)", coqStr(a.NI), a.Entry.coq())
}
func (a aReq) coq() string {
	ops := []string{}
	for _, o := range a.Ops {
		ops = append(ops, o.coq())
	}
	p := "None"
	if a.Params != nil {
		p = fmt.Sprintf("(Some (%d, %d, %d))", a.Params[0], a.Params[1], a.Params[2])
	}
	return fmt.Sprintf("(MkReq [%s] %s %s)", strings.Join(ops, ";\n        "), p, cElec(a.Elec))
}
