package main

import (
	"fmt"
	"strings"

	"verifharness/drv"
)

// Step is one step of a program.
//
//	new    b kind                 b := fluent.IPv4Entry() | IPv6Entry() | LabelEntry() | NextHopEntry() |
//	                              NextHopGroupEntry() | MPLSEncapHeader() | UDPV6EncapHeader()
//	call   b m s n h refs         b.<m>(args): strings in s, numbers in n, a Header in h, builder names in refs
//	proto  b                      b.OpProto(), b.EntryProto() are observed
//	client c m n refs             method m of client c (connection calls, Start, Stop, StartSending, AddEntry,
//	                              ReplaceEntry, DeleteEntry, UpdateElectionID); Start may come again, after
//	                              Stop or not: every successful Start gives the fluent client a new client.Client
type Step struct {
	K    string   `json:"k"`
	B    int      `json:"b"`
	C    int      `json:"c"`
	Kind string   `json:"kind,omitempty"`
	M    string   `json:"m,omitempty"`
	S    []string `json:"s,omitempty"`
	N    []uint64 `json:"n,omitempty"`
	H    int64    `json:"h,omitempty"`
	Refs []int    `json:"refs,omitempty"`
}

// Prog is a case.
type Prog struct {
	Steps []Step `json:"steps"`
}

func (s Step) s(i int) string {
	if i < len(s.S) {
		return s.S[i]
	}
	return ""
}

func (s Step) n(i int) uint64 {
	if i < len(s.N) {
		return s.N[i]
	}
	return 0
}

func (s Step) u32s() []uint32 {
	out := []uint32{}
	for _, v := range s.N {
		out = append(out, uint32(v))
	}
	return out
}

// ----------------------------------------------------------------------------- tables

var kindCoq = map[string]string{"ipv4": "KIPv4", "ipv6": "KIPv6", "label": "KLabel", "nh": "KNH", "nhg": "KNHG",
	"mpls": "KMplsHdr", "udp6": "KUdp6Hdr"}

func isHdrKind(k string) bool   { return k == "mpls" || k == "udp6" }
func isEntryKind(k string) bool { return k == "ipv4" || k == "ipv6" || k == "label" || k == "nh" || k == "nhg" }

// argument shapes of the builder methods
const (
	aS    = "s"    // string
	aB    = "b"    // []byte
	aN    = "n"    // uint64
	aN32  = "n32"  // uint32
	aNN   = "nn"   // uint64, uint64
	aSS   = "ss"   // string, string
	aSN   = "sn"   // string, uint64
	aL32  = "l32"  // ...uint32
	aL64  = "l64"  // ...uint64
	aH    = "h"    // Header
	aRefs = "refs" // ...encapHeader
	a0    = ""
)

var methodArgs = map[string]string{
	"WithPrefix": aS, "WithNetworkInstance": aS, "WithNextHopGroup": aN, "WithNextHopGroupNetworkInstance": aS,
	"WithMetadata": aB, "WithElectionID": aNN, "WithLabel": aN32, "WithPoppedLabelStack": aL32,
	"WithIndex": aN, "WithIPAddress": aS, "WithInterfaceRef": aS, "WithSubinterfaceRef": aSN, "WithMacAddress": aS,
	"WithIPinIP": aSS, "WithNextHopNetworkInstance": aS, "WithPopTopLabel": a0, "WithPushedLabelStack": aL32,
	"AddEncapHeader": aRefs, "WithDecapsulateHeader": aH, "WithEncapsulateHeader": aH,
	"WithID": aN, "WithBackupNHG": aN, "AddNextHop": aNN,
	"WithLabels": aL64,
	"WithDSCP":   aN, "WithDstIP": aS, "WithDstUDPPort": aN, "WithIPTTL": aN, "WithSrcIP": aS, "WithSrcUDPPort": aN,
}

// the method set of each builder type (every With*/Add* method of fluent.go)
var kindMethods = map[string][]string{
	"ipv4":  {"WithPrefix", "WithNetworkInstance", "WithNextHopGroup", "WithNextHopGroupNetworkInstance", "WithMetadata", "WithElectionID"},
	"ipv6":  {"WithPrefix", "WithNetworkInstance", "WithNextHopGroup", "WithNextHopGroupNetworkInstance", "WithMetadata", "WithElectionID"},
	"label": {"WithLabel", "WithNetworkInstance", "WithNextHopGroup", "WithNextHopGroupNetworkInstance", "WithPoppedLabelStack"},
	"nh": {"WithIndex", "WithNetworkInstance", "WithIPAddress", "WithInterfaceRef", "WithSubinterfaceRef", "WithMacAddress", "WithIPinIP",
		"WithNextHopNetworkInstance", "WithPopTopLabel", "WithPushedLabelStack", "AddEncapHeader", "WithDecapsulateHeader",
		"WithEncapsulateHeader", "WithElectionID"},
	"nhg":  {"WithID", "WithNetworkInstance", "WithBackupNHG", "AddNextHop", "WithElectionID"},
	"mpls": {"WithLabels"},
	"udp6": {"WithDSCP", "WithDstIP", "WithDstUDPPort", "WithIPTTL", "WithSrcIP", "WithSrcUDPPort"},
}

var clientArgs = map[string]string{
	"WithRedundancyMode": aN, "WithInitialElectionID": aNN, "WithPersistence": a0, "WithFIBACK": a0,
	"Start": a0, "Stop": a0, "StartSending": a0, "AddEntry": aRefs, "ReplaceEntry": aRefs, "DeleteEntry": aRefs, "UpdateElectionID": aNN,
}

// ----------------------------------------------------------------------------- Gallina

func coqStr(s string) string { return `"` + strings.ReplaceAll(s, `"`, `""`) + `"` }

func coqNs(xs []uint64) string {
	out := []string{}
	for _, x := range xs {
		out = append(out, fmt.Sprint(x))
	}
	return drv.CoqList(out)
}

func coqInts(xs []int) string {
	out := []string{}
	for _, x := range xs {
		if x >= 0 {
			out = append(out, fmt.Sprint(x))
		}
	}
	return drv.CoqList(out)
}

func coqZ(z int64) string { return fmt.Sprintf("(%d)%%Z", z) }

// coq prints the step as a term of type Fluent.step; ok is false for a step the program format does
// not know (dropped on both sides).
func (s Step) coq() (string, bool) {
	if s.B < 0 || s.C < 0 {
		return "", false
	}
	switch s.K {
	case "new":
		k, ok := kindCoq[s.Kind]
		if !ok {
			return "", false
		}
		return fmt.Sprintf("SNew %d %s", s.B, k), true
	case "proto":
		return fmt.Sprintf("SProto %d", s.B), true
	case "call":
		sh, ok := methodArgs[s.M]
		if !ok {
			return "", false
		}
		return fmt.Sprintf("SCall %d (%s%s)", s.B, s.M, s.coqArgs(sh)), true
	case "client":
		sh, ok := clientArgs[s.M]
		if !ok {
			return "", false
		}
		return fmt.Sprintf("SClient %d (C%s%s)", s.C, s.M, s.coqArgs(sh)), true
	}
	return "", false
}

func (s Step) coqArgs(shape string) string {
	switch shape {
	case aS, aB:
		return " " + coqStr(s.s(0))
	case aN:
		return fmt.Sprintf(" %d", s.n(0))
	case aN32:
		return fmt.Sprintf(" %d", uint32(s.n(0)))
	case aNN:
		return fmt.Sprintf(" %d %d", s.n(0), s.n(1))
	case aSS:
		return " " + coqStr(s.s(0)) + " " + coqStr(s.s(1))
	case aSN:
		return " " + coqStr(s.s(0)) + fmt.Sprintf(" %d", s.n(0))
	case aL32:
		xs := []uint64{}
		for _, v := range s.u32s() {
			xs = append(xs, uint64(v))
		}
		return " " + coqNs(xs)
	case aL64:
		return " " + coqNs(s.N)
	case aH:
		return " " + coqZ(s.H)
	case aRefs:
		return " " + coqInts(s.Refs)
	}
	return ""
}

func (p Prog) coq() string {
	out := []string{}
	for _, s := range p.Steps {
		if t, ok := s.coq(); ok {
			out = append(out, t)
		}
	}
	return "[" + strings.Join(out, ";\n    ") + "]"
}

// ----------------------------------------------------------------------------- generator

var (
	niPool   = []string{"", "DEFAULT", "VRF-A", "VRF-B"}
	v4Pool   = []string{"", "1.0.0.0/8", "10.1.0.0/16", "192.0.2.1/32", "192.0.2.77/24", "10.1.2.3/8", "203.0.113.1"}
	v6Pool   = []string{"", "2001:db8::/32", "2001:db8::1/128", "::/0", "2001:DB8::/32", "2001:db8:0:0::/32", "2001:db8::7/64"}
	ipPool   = []string{"", "192.0.2.1", "198.51.100.7", "2001:db8::2"}
	ifPool   = []string{"", "eth0", "Ethernet1/1"}
	macPool  = []string{"", "00:00:5e:00:53:01", "02:00:00:00:00:01"}
	metaPool = []string{"", "m", "meta-1", "a \"quoted\" value"}
	numPool  = []uint64{0, 1, 2, 3, 7, 42, 1<<32 - 1, 1 << 32, 1 << 63, 1<<64 - 1}
	u32Pool  = []uint64{0, 1, 3, 16, 100, 1048575, 1<<32 - 1}
	hdrPool  = []int64{0, 1, 2, 3, 4, -1}
)

func pickNum(r *drv.Rng) uint64 {
	if r.Chance(1, 4) {
		return uint64(r.Intn(6))
	}
	return drv.Pick(r, numPool...)
}

func pickStr(r *drv.Rng, method string, kind string) string {
	switch method {
	case "WithPrefix":
		if kind == "ipv6" {
			return drv.Pick(r, v6Pool...)
		}
		return drv.Pick(r, v4Pool...)
	case "WithNetworkInstance", "WithNextHopGroupNetworkInstance", "WithNextHopNetworkInstance":
		return drv.Pick(r, niPool...)
	case "WithMetadata":
		return drv.Pick(r, metaPool...)
	case "WithInterfaceRef", "WithSubinterfaceRef":
		return drv.Pick(r, ifPool...)
	case "WithMacAddress":
		return drv.Pick(r, macPool...)
	}
	return drv.Pick(r, ipPool...)
}

func pickList(r *drv.Rng, pool []uint64) []uint64 {
	n := r.Intn(4)
	out := []uint64{}
	for i := 0; i < n; i++ {
		out = append(out, drv.Pick(r, pool...))
	}
	return out
}

func genID(r *drv.Rng) (lo, hi uint64) {
	switch r.Intn(6) {
	case 0:
		return drv.Pick(r, drv.BoundaryWords...), drv.Pick(r, drv.BoundaryWords...)
	case 1:
		return r.Uint64(), r.Uint64()
	}
	return uint64(1 + r.Intn(9)), uint64(r.Intn(3))
}

type genBuilder struct {
	name int
	kind string
	used []string
}

type genClient struct {
	name    int
	phase   int // 0 config, 1 started (g.c exists)
	mode    uint64
	hasInit bool
	modeSet bool
	stopped bool // Stop was called on the current client.Client
	sending bool // StartSending was called on the current client.Client
	stopPct int  // chance (in %) that a step on the running client is Stop
	cfgLeft int
}

// genProg simulates a test author: builders are created, configured in any order with repeats, used
// in Modify calls while still being changed, and clients change their election id in between. One
// program in three dwells on the client lifecycle (Start, operations, Stop, Start again, operations,
// ...): it is longer, has more client steps and stops its clients more often.
func genProg(r *drv.Rng) Prog {
	var p Prog
	life := r.Chance(1, 3)
	nEntry := 1 + r.Intn(4)
	kinds := []string{}
	hasNH := false
	for i := 0; i < nEntry; i++ {
		k := drv.Pick(r, "nh", "nh", "nh", "nh", "nhg", "nhg", "nhg", "ipv4", "ipv4", "ipv6", "label", "label")
		hasNH = hasNH || k == "nh"
		kinds = append(kinds, k)
	}
	if hasNH {
		for i, n := 0, r.Intn(4); i < n; i++ {
			kinds = append(kinds, drv.Pick(r, "mpls", "mpls", "udp6"))
		}
	}
	r.Shuffle(len(kinds), func(i, j int) { kinds[i], kinds[j] = kinds[j], kinds[i] })
	todo := []genBuilder{}
	for i, k := range kinds {
		todo = append(todo, genBuilder{name: i + 1, kind: k})
	}
	created := []*genBuilder{}
	nClients := 1
	if r.Chance(1, 4) {
		nClients = 2
	}
	clients := []*genClient{}
	for i := 0; i < nClients; i++ {
		c := &genClient{name: i, cfgLeft: 1 + r.Intn(3), stopPct: 7}
		if life {
			c.stopPct = 16
		}
		clients = append(clients, c)
	}
	names := func(f func(string) bool) []int {
		out := []int{}
		for _, b := range created {
			if f(b.kind) {
				out = append(out, b.name)
			}
		}
		return out
	}
	ticks := 8 + r.Intn(34)
	callShare := 62
	if life {
		ticks += 14
		callShare = 50
	}
	for t := 0; t < ticks; t++ {
		x := r.Intn(100)
		switch {
		case len(todo) > 0 && (len(created) == 0 || x < 18):
			b := todo[0]
			todo = todo[1:]
			p.Steps = append(p.Steps, Step{K: "new", B: b.name, Kind: b.kind})
			created = append(created, &b)
		case x < callShare && len(created) > 0:
			b := created[r.Intn(len(created))]
			ms := kindMethods[b.kind]
			m := ms[r.Intn(len(ms))]
			if b.kind == "nh" && len(names(isHdrKind)) > 0 && r.Chance(1, 5) {
				m = "AddEncapHeader"
			} else if len(b.used) > 0 && r.Chance(2, 5) {
				m = b.used[r.Intn(len(b.used))] // set the same field again: the last call must win
			}
			if r.Chance(1, 60) {
				m = drv.Pick(r, "WithPrefix", "WithLabels", "WithIndex", "WithElectionID") // a method of another builder type: no-op
			}
			b.used = append(b.used, m)
			s := Step{K: "call", B: b.name, M: m}
			switch methodArgs[m] {
			case aS, aB:
				s.S = []string{pickStr(r, m, b.kind)}
			case aN:
				s.N = []uint64{pickNum(r)}
			case aN32:
				s.N = []uint64{drv.Pick(r, u32Pool...)}
			case aNN:
				if m == "WithElectionID" {
					lo, hi := genID(r)
					s.N = []uint64{lo, hi}
				} else {
					s.N = []uint64{pickNum(r), pickNum(r)}
				}
			case aSS:
				s.S = []string{pickStr(r, m, b.kind), pickStr(r, m, b.kind)}
			case aSN:
				s.S = []string{pickStr(r, m, b.kind)}
				s.N = []uint64{pickNum(r)}
			case aL32:
				s.N = pickList(r, u32Pool)
			case aL64:
				s.N = pickList(r, numPool)
			case aH:
				s.H = drv.Pick(r, hdrPool...)
			case aRefs:
				hs := names(isHdrKind)
				s.Refs = []int{}
				for i, n := 0, r.Intn(4); i < n && len(hs) > 0; i++ {
					s.Refs = append(s.Refs, hs[r.Intn(len(hs))])
				}
				if r.Chance(1, 40) {
					s.Refs = append(s.Refs, r.Intn(9)) // maybe not a header: dropped on both sides
				}
			}
			p.Steps = append(p.Steps, s)
		case x < callShare+5 && len(created) > 0:
			p.Steps = append(p.Steps, Step{K: "proto", B: created[r.Intn(len(created))].name})
		default:
			c := clients[r.Intn(len(clients))]
			p.Steps = append(p.Steps, genClientStep(r, c, names(isEntryKind), names(func(string) bool { return true })))
		}
	}
	return p
}

func genClientStep(r *drv.Rng, c *genClient, entries, all []int) Step {
	s := Step{K: "client", C: c.name}
	cfg := func() {
		x := r.Intn(10)
		if c.phase == 0 && !c.modeSet {
			x = 0 // a client first says which redundancy mode it uses
		}
		switch {
		case x < 5:
			c.modeSet = true
			s.M = "WithRedundancyMode"
			c.mode = drv.Pick(r, uint64(2), 2, 2, 2, 2, 2, 1, 1, 0, 3)
			s.N = []uint64{c.mode}
		case x < 8:
			s.M = "WithInitialElectionID"
			lo, hi := genID(r)
			s.N = []uint64{lo, hi}
			c.hasInit = true
		case x < 9:
			s.M = "WithPersistence"
		default:
			s.M = "WithFIBACK"
		}
	}
	start := func() {
		s.M = "Start"
		if c.mode == 2 && !c.hasInit {
			return // fatal before client.New: whatever client.Client is in place stays in place
		}
		c.phase = 1
		c.stopped, c.sending = false, false
	}
	if c.phase == 0 {
		if r.Chance(1, 40) {
			s.M = "Stop" // before the first Start: g.c is nil, nothing happens
			return s
		}
		if c.cfgLeft > 0 {
			c.cfgLeft--
			cfg()
			return s
		}
		if c.mode == 2 && !c.hasInit && r.Chance(9, 10) {
			s.M = "WithInitialElectionID"
			lo, hi := genID(r)
			s.N = []uint64{lo, hi}
			c.hasInit = true
			return s
		}
		start()
		if c.phase == 0 {
			c.cfgLeft = 1 // Start is fatal; configure and try again
		}
		return s
	}
	x := r.Intn(100)
	if c.stopped {
		// a stopped client is mostly started again; sometimes it is reconfigured first (the new
		// client.Client takes the settings as they are then), used although stopped (the operations
		// stay unsent but consume ids), stopped once more, or told to send (not a program: skipped)
		switch y := r.Intn(100); {
		case y < 58:
			start()
			return s
		case y < 70:
			cfg()
			return s
		case y < 90:
			x = r.Intn(75) // AddEntry / ReplaceEntry / DeleteEntry / UpdateElectionID below
		case y < 95:
			s.M = "Stop"
			return s
		default:
			s.M = "StartSending"
			return s
		}
	}
	if !c.stopped && !c.sending && r.Chance(1, 6) {
		x = 75 // a client that is not sending yet is told to send a little more often
	}
	if !c.stopped && !c.sending && x >= 85 && x < 85+c.stopPct && r.Chance(1, 2) {
		x = 0 // ... and stopped a little less often before it has sent anything
	}
	switch {
	case x < 38:
		s.M = "AddEntry"
	case x < 50:
		s.M = "ReplaceEntry"
	case x < 62:
		s.M = "DeleteEntry"
	case x < 75:
		s.M = "UpdateElectionID"
		lo, hi := genID(r)
		s.N = []uint64{lo, hi}
		return s
	case x < 83:
		s.M = "StartSending"
		c.sending = true
		return s
	case x < 85:
		start() // again, without Stop: the running client.Client is dropped as it is
		return s
	case x < 85+c.stopPct:
		s.M = "Stop"
		c.stopped = true
		return s
	default:
		cfg()
		return s
	}
	n := drv.Pick(r, 0, 1, 1, 1, 1, 1, 1, 2, 2, 2, 3, 3)
	s.Refs = []int{}
	for i := 0; i < n && len(entries) > 0; i++ {
		s.Refs = append(s.Refs, entries[r.Intn(len(entries))])
	}
	if r.Chance(1, 40) && len(all) > 0 {
		s.Refs = append(s.Refs, all[r.Intn(len(all))]) // maybe a header builder: not an entry, dropped on both sides
	}
	return s
}

// fixedProgs are hand-written programs that are always run first: every method of every builder once,
// and the aliasing shapes (header changed after AddEncapHeader, builder changed after AddEntry, one
// builder used by two clients).
func fixedProgs() []Prog {
	var all Prog
	name := 1
	hdrs := []int{}
	for _, k := range []string{"mpls", "udp6", "ipv4", "ipv6", "label", "nh", "nhg"} {
		all.Steps = append(all.Steps, Step{K: "new", B: name, Kind: k})
		for _, m := range kindMethods[k] {
			s := Step{K: "call", B: name, M: m}
			switch methodArgs[m] {
			case aS, aB:
				s.S = []string{"v-" + m}
			case aN, aN32:
				s.N = []uint64{uint64(len(m))}
			case aNN:
				s.N = []uint64{uint64(len(m)), 5}
			case aSS:
				s.S = []string{"src", "dst"}
			case aSN:
				s.S = []string{"eth1"}
				s.N = []uint64{9}
			case aL32, aL64:
				s.N = []uint64{100, 200}
			case aH:
				s.H = 3
			case aRefs:
				s.Refs = hdrs
			}
			all.Steps = append(all.Steps, s)
		}
		if isHdrKind(k) {
			hdrs = append(hdrs, name)
		}
		all.Steps = append(all.Steps, Step{K: "proto", B: name})
		name++
	}
	all.Steps = append(all.Steps,
		Step{K: "client", C: 0, M: "WithRedundancyMode", N: []uint64{2}},
		Step{K: "client", C: 0, M: "WithInitialElectionID", N: []uint64{1, 0}},
		Step{K: "client", C: 0, M: "Start"},
		Step{K: "client", C: 0, M: "AddEntry", Refs: []int{3, 4, 5, 6, 7}},
		Step{K: "client", C: 0, M: "UpdateElectionID", N: []uint64{2, 0}},
		Step{K: "client", C: 0, M: "StartSending"},
		Step{K: "client", C: 0, M: "ReplaceEntry", Refs: []int{5, 6}},
		Step{K: "client", C: 0, M: "DeleteEntry", Refs: []int{7}},
	)
	alias := Prog{Steps: []Step{
		{K: "new", B: 1, Kind: "mpls"}, {K: "new", B: 2, Kind: "nh"},
		{K: "call", B: 1, M: "WithLabels", N: []uint64{10}},
		{K: "call", B: 2, M: "WithIndex", N: []uint64{1}},
		{K: "call", B: 2, M: "AddEncapHeader", Refs: []int{1, 1}},
		{K: "call", B: 1, M: "WithLabels", N: []uint64{20}}, // after AddEncapHeader: visible in later messages
		{K: "client", C: 0, M: "Start"},
		{K: "client", C: 1, M: "WithRedundancyMode", N: []uint64{2}},
		{K: "client", C: 1, M: "WithInitialElectionID", N: []uint64{7, 1}},
		{K: "client", C: 1, M: "Start"},
		{K: "client", C: 0, M: "AddEntry", Refs: []int{2}},
		{K: "call", B: 1, M: "WithLabels", N: []uint64{30}}, // after AddEntry: the queued message must keep [10 20]
		{K: "call", B: 2, M: "WithIndex", N: []uint64{2}},
		{K: "client", C: 1, M: "AddEntry", Refs: []int{2, 2}},
		{K: "client", C: 0, M: "DeleteEntry", Refs: []int{2}},
		{K: "proto", B: 2},
	}}
	none := Prog{Steps: []Step{
		{K: "new", B: 1, Kind: "nh"}, {K: "new", B: 2, Kind: "label"}, {K: "new", B: 3, Kind: "nhg"},
		{K: "client", C: 0, M: "WithRedundancyMode", N: []uint64{2}},
		{K: "client", C: 0, M: "Start"}, // fatal: no election id
		{K: "client", C: 0, M: "AddEntry", Refs: []int{1}},
		{K: "client", C: 0, M: "WithInitialElectionID", N: []uint64{3, 4}},
		{K: "client", C: 0, M: "Start"},
		{K: "client", C: 0, M: "AddEntry", Refs: []int{}},
		{K: "client", C: 0, M: "AddEntry", Refs: []int{1, 2, 3}},
		{K: "call", B: 1, M: "WithElectionID", N: []uint64{9, 9}},
		{K: "call", B: 2, M: "WithLabel", N: []uint64{0}},
		{K: "client", C: 0, M: "WithRedundancyMode", N: []uint64{1}},
		{K: "client", C: 0, M: "ReplaceEntry", Refs: []int{1, 2}},
		{K: "client", C: 0, M: "WithRedundancyMode", N: []uint64{2}},
		{K: "client", C: 0, M: "WithInitialElectionID", N: []uint64{5, 5}},
		{K: "client", C: 0, M: "ReplaceEntry", Refs: []int{2, 1}},
	}}
	// the lifecycle of the compliance suite's flushServer (Start, StartSending, work, Stop, Start again
	// on the same fluent client), with operations before, between and after, an election id update that
	// must survive the restart, a reconfiguration taken up by the second client.Client, a Start without
	// Stop, a Start that is fatal on a started client, Stop before the first Start and Stop twice
	restart := Prog{Steps: []Step{
		{K: "new", B: 1, Kind: "ipv4"}, {K: "new", B: 2, Kind: "nhg"}, {K: "new", B: 3, Kind: "nh"},
		{K: "call", B: 1, M: "WithPrefix", S: []string{"1.0.0.0/8"}},
		{K: "call", B: 2, M: "WithID", N: []uint64{1}},
		{K: "call", B: 3, M: "WithIndex", N: []uint64{1}},
		{K: "client", C: 0, M: "Stop"},
		{K: "client", C: 0, M: "WithRedundancyMode", N: []uint64{2}},
		{K: "client", C: 0, M: "WithInitialElectionID", N: []uint64{1, 0}},
		{K: "client", C: 0, M: "Start"},
		{K: "client", C: 0, M: "AddEntry", Refs: []int{3, 2}},
		{K: "client", C: 0, M: "StartSending"},
		{K: "client", C: 0, M: "AddEntry", Refs: []int{1}},
		{K: "client", C: 0, M: "UpdateElectionID", N: []uint64{2, 0}},
		{K: "client", C: 0, M: "Stop"},
		{K: "client", C: 0, M: "DeleteEntry", Refs: []int{1}}, // on the stopped client: unsent, id 4
		{K: "client", C: 0, M: "Stop"},
		{K: "client", C: 0, M: "StartSending"}, // stopped: skipped
		{K: "client", C: 0, M: "WithPersistence"},
		{K: "client", C: 0, M: "Start"},
		{K: "client", C: 0, M: "ReplaceEntry", Refs: []int{1, 2}}, // ids 5, 6, stamped (0,2)
		{K: "client", C: 0, M: "StartSending"},                    // handshake: PRESERVE now, election id (0,1)
		{K: "client", C: 0, M: "AddEntry", Refs: []int{3}},
		{K: "client", C: 0, M: "Start"}, // without Stop
		{K: "client", C: 0, M: "AddEntry", Refs: []int{3}},
		{K: "client", C: 0, M: "Start"}, // replaced before it ever sent
		{K: "client", C: 0, M: "DeleteEntry", Refs: []int{3, 2, 1}},
	}}
	fatal := Prog{Steps: []Step{
		{K: "new", B: 1, Kind: "label"}, {K: "call", B: 1, M: "WithLabel", N: []uint64{100}},
		{K: "client", C: 0, M: "WithRedundancyMode", N: []uint64{1}},
		{K: "client", C: 0, M: "Start"},
		{K: "client", C: 0, M: "AddEntry", Refs: []int{1}},
		{K: "client", C: 0, M: "StartSending"},
		{K: "client", C: 0, M: "WithRedundancyMode", N: []uint64{2}},
		{K: "client", C: 0, M: "Start"}, // fatal: no election id; the running client stays
		{K: "client", C: 0, M: "AddEntry", Refs: []int{1}},
		{K: "client", C: 0, M: "Stop"},
		{K: "client", C: 0, M: "Start"}, // fatal again, the stopped client stays
		{K: "client", C: 0, M: "AddEntry", Refs: []int{1}},
		{K: "client", C: 0, M: "WithInitialElectionID", N: []uint64{4, 0}},
		{K: "client", C: 0, M: "Start"},
		{K: "client", C: 0, M: "AddEntry", Refs: []int{1, 1}},
	}}
	return []Prog{all, alias, none, restart, fatal}
}
