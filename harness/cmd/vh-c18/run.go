package main

import (
	"context"
	"fmt"
	"io"
	"sync"
	"testing"
	"time"

	"github.com/openconfig/gribigo/client"
	"github.com/openconfig/gribigo/fluent"
	"google.golang.org/grpc"
	"google.golang.org/protobuf/proto"

	spb "github.com/openconfig/gribi/v1/proto/service"
)

// ----------------------------------------------------------------------------- recording stub

// recStub is the spb.GRIBIClient handed to fluent's WithStub. Its Modify stream records the very
// *spb.ModifyRequest pointers the client sends (no serialisation in between), never answers, and
// ends when the client half-closes.
type recStub struct {
	spb.GRIBIClient // Get / Flush are never called
	mu              sync.Mutex
	cond            *sync.Cond
	msgs            []*spb.ModifyRequest
	closed          chan struct{}
	once            sync.Once
}

func newStub() *recStub {
	s := &recStub{closed: make(chan struct{})}
	s.cond = sync.NewCond(&s.mu)
	return s
}

func (s *recStub) Modify(ctx context.Context, _ ...grpc.CallOption) (grpc.BidiStreamingClient[spb.ModifyRequest, spb.ModifyResponse], error) {
	return &recStream{s: s, ctx: ctx}, nil
}

type recStream struct {
	grpc.ClientStream
	s   *recStub
	ctx context.Context
}

func (r *recStream) Send(m *spb.ModifyRequest) error {
	r.s.mu.Lock()
	r.s.msgs = append(r.s.msgs, m)
	r.s.cond.Broadcast()
	r.s.mu.Unlock()
	return nil
}

func (r *recStream) Recv() (*spb.ModifyResponse, error) {
	select {
	case <-r.s.closed:
		return nil, io.EOF
	case <-r.ctx.Done(): // a client.Client that a later Start replaced without Stop: released at the end of the case
		return nil, r.ctx.Err()
	}
}

func (r *recStream) CloseSend() error {
	r.s.once.Do(func() { close(r.s.closed) })
	return nil
}

func (r *recStream) Context() context.Context { return r.ctx }

// wait blocks until n messages have been recorded.
func (s *recStub) wait(n int) bool {
	deadline := time.Now().Add(10 * time.Second)
	s.mu.Lock()
	defer s.mu.Unlock()
	for len(s.msgs) < n {
		if time.Now().After(deadline) {
			return false
		}
		t := time.AfterFunc(50*time.Millisecond, func() { s.mu.Lock(); s.cond.Broadcast(); s.mu.Unlock() })
		s.cond.Wait()
		t.Stop()
	}
	return true
}

func (s *recStub) snapshot() []*spb.ModifyRequest {
	s.mu.Lock()
	defer s.mu.Unlock()
	return append([]*spb.ModifyRequest{}, s.msgs...)
}

// ----------------------------------------------------------------------------- builders

// bobj is one builder object of the program. The fluent builder types are unexported, so each
// object carries closures over the concretely typed value.
type bobj struct {
	kind  string
	entry fluent.GRIBIEntry // nil for header builders
	hdr   any               // the header builder (implements fluent's unexported encapHeader)
	call  func(s Step, e *exec) bool
	// script-side bookkeeping for the oracle (what the program asked for, not what the code did)
	ni    string
	own   *[2]uint64 // last WithElectionID (high, low)
	calls int
}

type ipLike[T any] interface {
	WithPrefix(string) T
	WithNetworkInstance(string) T
	WithNextHopGroup(uint64) T
	WithNextHopGroupNetworkInstance(string) T
	WithMetadata([]byte) T
	WithElectionID(uint64, uint64) T
	fluent.GRIBIEntry
}

func newIP[T ipLike[T]](kind string, b T) *bobj {
	o := &bobj{kind: kind, entry: b}
	o.call = func(s Step, e *exec) bool {
		switch s.M {
		case "WithPrefix":
			b.WithPrefix(s.s(0))
		case "WithNetworkInstance":
			b.WithNetworkInstance(s.s(0))
			o.ni = s.s(0)
		case "WithNextHopGroup":
			b.WithNextHopGroup(s.n(0))
		case "WithNextHopGroupNetworkInstance":
			b.WithNextHopGroupNetworkInstance(s.s(0))
		case "WithMetadata":
			buf := []byte(s.s(0))
			e.slices = append(e.slices, buf)
			b.WithMetadata(buf)
		case "WithElectionID":
			b.WithElectionID(s.n(0), s.n(1))
			o.own = &[2]uint64{s.n(1), s.n(0)}
		default:
			return false
		}
		return true
	}
	return o
}

// addHdrs calls the variadic AddEncapHeader with a dynamic list: its element type (fluent's
// unexported encapHeader interface) is inferred from the method value.
func addHdrs[E any, R any](f func(...E) R, hs []any) {
	xs := make([]E, 0, len(hs))
	for _, h := range hs {
		xs = append(xs, h.(E))
	}
	f(xs...)
}

func newBuilder(kind string) *bobj {
	switch kind {
	case "ipv4":
		return newIP("ipv4", fluent.IPv4Entry())
	case "ipv6":
		return newIP("ipv6", fluent.IPv6Entry())
	case "label":
		b := fluent.LabelEntry()
		o := &bobj{kind: kind, entry: b}
		o.call = func(s Step, e *exec) bool {
			switch s.M {
			case "WithLabel":
				b.WithLabel(uint32(s.n(0)))
			case "WithNetworkInstance":
				b.WithNetworkInstance(s.s(0))
				o.ni = s.s(0)
			case "WithNextHopGroup":
				b.WithNextHopGroup(s.n(0))
			case "WithNextHopGroupNetworkInstance":
				b.WithNextHopGroupNetworkInstance(s.s(0))
			case "WithPoppedLabelStack":
				b.WithPoppedLabelStack(s.u32s()...)
			default:
				return false
			}
			return true
		}
		return o
	case "nh":
		b := fluent.NextHopEntry()
		o := &bobj{kind: kind, entry: b}
		o.call = func(s Step, e *exec) bool {
			switch s.M {
			case "WithIndex":
				b.WithIndex(s.n(0))
			case "WithNetworkInstance":
				b.WithNetworkInstance(s.s(0))
				o.ni = s.s(0)
			case "WithIPAddress":
				b.WithIPAddress(s.s(0))
			case "WithInterfaceRef":
				b.WithInterfaceRef(s.s(0))
			case "WithSubinterfaceRef":
				b.WithSubinterfaceRef(s.s(0), s.n(0))
			case "WithMacAddress":
				b.WithMacAddress(s.s(0))
			case "WithIPinIP":
				b.WithIPinIP(s.s(0), s.s(1))
			case "WithNextHopNetworkInstance":
				b.WithNextHopNetworkInstance(s.s(0))
			case "WithPopTopLabel":
				b.WithPopTopLabel()
			case "WithPushedLabelStack":
				b.WithPushedLabelStack(s.u32s()...)
			case "AddEncapHeader":
				hs := []any{}
				for _, r := range s.Refs {
					if h := e.builders[r]; h != nil && h.hdr != nil {
						hs = append(hs, h.hdr)
					} else {
						e.stats["ref_not_a_header"]++
					}
				}
				addHdrs(b.AddEncapHeader, hs)
			case "WithDecapsulateHeader":
				b.WithDecapsulateHeader(fluent.Header(s.H))
			case "WithEncapsulateHeader":
				b.WithEncapsulateHeader(fluent.Header(s.H))
			case "WithElectionID":
				b.WithElectionID(s.n(0), s.n(1))
				o.own = &[2]uint64{s.n(1), s.n(0)}
			default:
				return false
			}
			return true
		}
		return o
	case "nhg":
		b := fluent.NextHopGroupEntry()
		o := &bobj{kind: kind, entry: b}
		o.call = func(s Step, e *exec) bool {
			switch s.M {
			case "WithID":
				b.WithID(s.n(0))
			case "WithNetworkInstance":
				b.WithNetworkInstance(s.s(0))
				o.ni = s.s(0)
			case "WithBackupNHG":
				b.WithBackupNHG(s.n(0))
			case "AddNextHop":
				b.AddNextHop(s.n(0), s.n(1))
			case "WithElectionID":
				b.WithElectionID(s.n(0), s.n(1))
				o.own = &[2]uint64{s.n(1), s.n(0)}
			default:
				return false
			}
			return true
		}
		return o
	case "mpls":
		b := fluent.MPLSEncapHeader()
		o := &bobj{kind: kind, hdr: b}
		o.call = func(s Step, e *exec) bool {
			if s.M != "WithLabels" {
				return false
			}
			b.WithLabels(s.N...)
			return true
		}
		return o
	case "udp6":
		b := fluent.UDPV6EncapHeader()
		o := &bobj{kind: kind, hdr: b}
		o.call = func(s Step, e *exec) bool {
			switch s.M {
			case "WithDSCP":
				b.WithDSCP(s.n(0))
			case "WithDstIP":
				b.WithDstIP(s.s(0))
			case "WithDstUDPPort":
				b.WithDstUDPPort(s.n(0))
			case "WithIPTTL":
				b.WithIPTTL(s.n(0))
			case "WithSrcIP":
				b.WithSrcIP(s.s(0))
			case "WithSrcUDPPort":
				b.WithSrcUDPPort(s.n(0))
			default:
				return false
			}
			return true
		}
		return o
	}
	return nil
}

// ----------------------------------------------------------------------------- execution

// want is what the script says one queued ModifyRequest must be (model-free expectation).
type want struct {
	step  int
	elec  *[2]uint64 // UpdateElectionID: (high, low)
	op    spb.AFTOperation_Operation
	kinds []string      // entry kinds, in order
	nis   []string      // network instances asked for, in order
	stamp []*[2]uint64  // expected election id of each operation (nil: none)
	whose []string      // own / current / none (statistics)
}

// snap is a message that has been queued (or returned by OpProto / EntryProto) together with a deep
// copy taken at that moment.
type snap struct {
	what string
	live proto.Message
	copy proto.Message
}

// inc is one client.Client of a fluent client: made by a successful Start, in place until the next one.
type inc struct {
	stub     *recStub // the stub this client.Client was given (a fresh one per Start)
	everSent bool     // StartSending was called on it
	sending  bool
	stopped  bool
	cut      int    // number of queueing calls made before the first Stop (-1: never stopped)
	wants    []want // the queueing calls made while it was in place, in order
	seenOps  map[uint64]bool
	sentinel *spb.ModifyRequest // marker injected after StartSending: everything before it has reached the stream
	hs       int                // messages the client sent by itself before the queue (session parameters, initial election id)
	pending  []*spb.AFTOperation // every operation queued on it, by id (Status().PendingTransactions when its time was over)
}

// nSent is the number of queueing calls whose request can have reached the stream.
func (in *inc) nSent() int {
	switch {
	case !in.everSent:
		return 0
	case in.cut >= 0:
		return in.cut
	}
	return len(in.wants)
}

// stream is what the Modify stream of this client.Client received, without the harness's marker.
func (in *inc) stream() []*spb.ModifyRequest {
	out := []*spb.ModifyRequest{}
	for _, m := range in.stub.snapshot() {
		if m != in.sentinel {
			out = append(out, m)
		}
	}
	return out
}

// unsent is what was queued on this client.Client and never reached its stream, by id.
func (in *inc) unsent() (ops []*spb.AFTOperation, onStream int) {
	sent := map[*spb.AFTOperation]bool{}
	for _, m := range in.stream() {
		for _, o := range m.GetOperation() {
			sent[o] = true
		}
	}
	for _, o := range in.pending {
		if !sent[o] {
			ops = append(ops, o)
		}
	}
	return ops, len(sent)
}

type cl struct {
	name    int
	fc      *fluent.GRIBIClient
	started bool // a Start succeeded: g.c exists
	fatals  int
	mode    uint64
	cur     *[2]uint64
	incs    []*inc // one per successful Start, oldest first
	// how the application reaches the Modify API: odd-numbered clients took one handle (fc.Modify()) when the
	// client was created and use it for every AddEntry/ReplaceEntry/DeleteEntry, whatever was set on the client or
	// through other handles since; the others ask for a fresh handle each time
	add, rep, del func(t testing.TB, es ...fluent.GRIBIEntry)
}

// inc is the client.Client in place (c.started only).
func (c *cl) inc() *inc { return c.incs[len(c.incs)-1] }

type protoPair struct {
	op    *spb.AFTOperation
	entry *spb.AFTEntry
}

type exec struct {
	builders map[int]*bobj
	clients  map[int]*cl
	order    []int // client names in order of first use
	protos   []protoPair
	snaps    []snap
	slices   [][]byte
	stats    map[string]int
	problems []string
	ctx      context.Context
	cancel   context.CancelFunc
	// shape of the program, for the non-triviality rule
	queuedOps         int
	callsAfterQueue   int
	repeatedSetter    bool
	stampedFromClient int
	restarts          int  // successful Starts on a client that had been started before
	opsAcrossRestart  bool // one fluent client queued operations on at least two of its client.Clients
	sentAcrossRestart bool // ... and at least two of its Modify streams received operations
}

func (e *exec) problem(f string, a ...any) { e.problems = append(e.problems, fmt.Sprintf(f, a...)) }

func (e *exec) keep(what string, m proto.Message) {
	e.snaps = append(e.snaps, snap{what: what, live: m, copy: proto.Clone(m)})
}

func (e *exec) client(name int) *cl {
	if c := e.clients[name]; c != nil {
		return c
	}
	c := &cl{name: name, fc: fluent.NewClient()}
	if name%2 == 1 {
		h := c.fc.Modify()
		c.add = func(t testing.TB, es ...fluent.GRIBIEntry) { h.AddEntry(t, es...) }
		c.rep = func(t testing.TB, es ...fluent.GRIBIEntry) { h.ReplaceEntry(t, es...) }
		c.del = func(t testing.TB, es ...fluent.GRIBIEntry) { h.DeleteEntry(t, es...) }
	} else {
		c.add = func(t testing.TB, es ...fluent.GRIBIEntry) { c.fc.Modify().AddEntry(t, es...) }
		c.rep = func(t testing.TB, es ...fluent.GRIBIEntry) { c.fc.Modify().ReplaceEntry(t, es...) }
		c.del = func(t testing.TB, es ...fluent.GRIBIEntry) { c.fc.Modify().DeleteEntry(t, es...) }
	}
	e.clients[name] = c
	e.order = append(e.order, name)
	return c
}

// afterQueue snapshots what the client call just queued: the operations (reachable through
// Status().PendingTransactions: the pending queue holds the very *AFTOperation that is in the queued
// ModifyRequest) and the election id, and, when the client is sending, the ModifyRequest itself.
func (e *exec) afterQueue(c *cl, step int) {
	var st *client.ClientStatus
	_, odd := capture(func(t testing.TB) { st = c.fc.Status(t) })
	if odd != "" || st == nil {
		e.problem("step %d: Status: %s", step, odd)
		return
	}
	for _, p := range st.PendingTransactions {
		switch v := p.(type) {
		case *client.PendingOp:
			if in := c.inc(); !in.seenOps[v.Op.GetId()] {
				in.seenOps[v.Op.GetId()] = true
				e.keep(fmt.Sprintf("operation %d of client %d (start %d) queued at step %d", v.Op.GetId(), c.name, len(c.incs), step), v.Op)
			}
		case *client.ElectionReqDetails:
			e.keep(fmt.Sprintf("election id of client %d queued by step %d", c.name, step), v.ID)
		}
	}
	if len(st.SendErrs) != 0 || len(st.ReadErrs) != 0 {
		e.problem("step %d: client %d reports errors: send %v recv %v", step, c.name, st.SendErrs, st.ReadErrs)
	}
}

// pendingOps reads every operation queued on the client.Client in place (the stub never answers, so
// none is ever cleared), by id.
func (e *exec) pendingOps(c *cl, step int) []*spb.AFTOperation {
	var st *client.ClientStatus
	_, odd := capture(func(t testing.TB) { st = c.fc.Status(t) })
	if odd != "" || st == nil {
		e.problem("step %d: Status: %s", step, odd)
		return nil
	}
	out := []*spb.AFTOperation{}
	for _, p := range st.PendingTransactions {
		if v, ok := p.(*client.PendingOp); ok {
			out = append(out, v.Op)
		}
	}
	return out
}

func (e *exec) startSending(c *cl, step int) {
	in := c.inc()
	_, odd := capture(func(t testing.TB) { c.fc.StartSending(e.ctx, t) })
	if odd != "" {
		e.problem("step %d: StartSending: %s", step, odd)
		return
	}
	in.sending, in.everSent = true, true
	// a marker request (InjectRequest: queued as it is) tells when the handshake and the flushed queue
	// have all reached the stream
	in.sentinel = &spb.ModifyRequest{}
	capture(func(t testing.TB) { c.fc.Modify().InjectRequest(t, in.sentinel) })
	deadline := time.Now().Add(10 * time.Second)
	for {
		msgs := in.stub.snapshot()
		if len(msgs) > 0 && msgs[len(msgs)-1] == in.sentinel {
			break
		}
		if time.Now().After(deadline) {
			e.problem("step %d: client %d: the Modify stream did not receive the queue", step, c.name)
			return
		}
		in.stub.wait(len(msgs) + 1)
	}
	msgs := in.stream()
	in.hs = len(msgs) - len(in.wants)
	for i, m := range msgs {
		e.keep(fmt.Sprintf("ModifyRequest %d of client %d, start %d (flushed by step %d)", i, c.name, len(c.incs), step), m)
	}
}

// stopClient calls Stop on the fluent client (with a watchdog).
func (e *exec) stopClient(c *cl) {
	done := make(chan struct{})
	go func() { defer close(done); capture(func(t testing.TB) { c.fc.Stop(t) }) }()
	select {
	case <-done:
	case <-time.After(10 * time.Second):
		e.problem("client %d: Stop did not return", c.name)
	}
}

func (e *exec) run(p Prog) {
	for i, s := range p.Steps {
		if s.B < 0 || s.C < 0 {
			continue
		}
		switch s.K {
		case "new":
			if e.builders[s.B] == nil {
				if b := newBuilder(s.Kind); b != nil {
					e.builders[s.B] = b
					e.stats["new_"+s.Kind]++
				}
			}
		case "call":
			b := e.builders[s.B]
			if b == nil {
				continue
			}
			if _, known := methodArgs[s.M]; !known {
				continue
			}
			var ok bool
			_, odd := capture(func(testing.TB) { ok = b.call(s, e) })
			if odd != "" {
				e.problem("step %d: %s.%s: %s", i, b.kind, s.M, odd)
			}
			if ok {
				e.stats["call_"+s.M]++
				b.calls++
				if e.queuedOps > 0 {
					e.callsAfterQueue++
				}
			} else {
				e.stats["call_not_in_method_set"]++
			}
		case "proto":
			b := e.builders[s.B]
			if b == nil || b.entry == nil {
				continue
			}
			op, err1 := b.entry.OpProto()
			en, err2 := b.entry.EntryProto()
			if err1 != nil || err2 != nil {
				e.problem("step %d: OpProto / EntryProto error: %v %v", i, err1, err2)
				continue
			}
			e.protos = append(e.protos, protoPair{op, en})
			e.keep(fmt.Sprintf("OpProto result of step %d", i), op)
			e.keep(fmt.Sprintf("EntryProto result of step %d", i), en)
			e.stats["proto"]++
		case "client":
			if _, known := clientArgs[s.M]; !known {
				continue
			}
			e.clientStep(i, s)
		}
	}
	// end of program: every started client that is neither sending nor stopped is told to send, so
	// that its queue becomes visible
	for _, name := range e.order {
		c := e.clients[name]
		if !c.started {
			continue
		}
		if in := c.inc(); !in.sending && !in.stopped {
			e.startSending(c, len(p.Steps))
		}
		c.inc().pending = e.pendingOps(c, len(p.Steps))
		n, ns := 0, 0
		for _, in := range c.incs {
			if len(in.pending) > 0 {
				n++
			}
			if u, onStream := in.unsent(); onStream > 0 && len(u) < len(in.pending) {
				ns++
			}
		}
		if n >= 2 {
			e.opsAcrossRestart = true
		}
		if ns >= 2 {
			e.sentAcrossRestart = true
		}
	}
}

func (e *exec) clientStep(i int, s Step) {
	c := e.client(s.C)
	e.stats["client_"+s.M]++
	switch s.M {
	case "WithRedundancyMode":
		c.fc.Connection().WithRedundancyMode(fluent.RedundancyMode(int64(s.n(0))))
		c.mode = s.n(0)
	case "WithInitialElectionID":
		c.fc.Connection().WithInitialElectionID(s.n(0), s.n(1))
		c.cur = &[2]uint64{s.n(1), s.n(0)}
	case "WithPersistence":
		c.fc.Connection().WithPersistence()
	case "WithFIBACK":
		c.fc.Connection().WithFIBACK()
	case "Start":
		// every Start hands the fluent client a stub of its own, so that each client.Client has its own
		// recorded stream; the client.Client in place is read out before it is replaced
		var old []*spb.AFTOperation
		if c.started {
			old = e.pendingOps(c, i)
		}
		stub := newStub()
		c.fc.Connection().WithStub(stub)
		f, odd := capture(func(t testing.TB) { c.fc.Start(e.ctx, t) })
		if odd != "" {
			e.problem("step %d: Start: %s", i, odd)
		}
		c.fatals += f
		switch {
		case f > 0:
			e.stats["start_fatal"]++
			if c.started {
				e.stats["start_fatal_on_started_client"]++
			}
		case odd == "":
			if c.started {
				e.restarts++
				e.stats["restart"]++
				if !c.inc().stopped {
					e.stats["restart_without_stop"]++
				}
				c.inc().pending = old
			}
			c.started = true
			c.incs = append(c.incs, &inc{stub: stub, cut: -1, seenOps: map[uint64]bool{}})
		}
	case "Stop":
		e.stopClient(c) // before the first Start g.c is nil and nothing happens
		if !c.started {
			e.stats["stop_not_started"]++
			return
		}
		in := c.inc()
		if !in.stopped {
			in.stopped = true
			in.cut = len(in.wants)
		} else {
			e.stats["stop_again"]++
		}
		in.sending = false
	case "StartSending":
		// on a stopped client.Client the call is not a program (Close has closed the channel to the
		// sender): the client has to be started again first
		if !c.started || c.inc().sending || c.inc().stopped {
			e.stats["skipped_startsending"]++
			return
		}
		e.startSending(c, i)
	case "UpdateElectionID":
		if !c.started {
			e.stats["skipped_not_started"]++
			return
		}
		f, odd := capture(func(t testing.TB) { c.fc.Modify().UpdateElectionID(t, s.n(0), s.n(1)) })
		if odd != "" || f > 0 {
			e.problem("step %d: UpdateElectionID: fatal=%d %s", i, f, odd)
		}
		c.fatals += f
		c.cur = &[2]uint64{s.n(1), s.n(0)}
		c.inc().wants = append(c.inc().wants, want{step: i, elec: &[2]uint64{s.n(1), s.n(0)}})
		e.queued(c, i)
	case "AddEntry", "ReplaceEntry", "DeleteEntry":
		if !c.started {
			e.stats["skipped_not_started"]++
			return
		}
		w := want{step: i}
		entries := []fluent.GRIBIEntry{}
		for _, r := range s.Refs {
			b := e.builders[r]
			if b == nil || b.entry == nil {
				e.stats["ref_not_an_entry"]++
				continue
			}
			entries = append(entries, b.entry)
			w.kinds = append(w.kinds, b.kind)
			w.nis = append(w.nis, b.ni)
			switch {
			case b.own != nil:
				id := *b.own
				w.stamp = append(w.stamp, &id)
				w.whose = append(w.whose, "own")
			case c.mode == 2 && c.cur != nil:
				id := *c.cur
				w.stamp = append(w.stamp, &id)
				w.whose = append(w.whose, "current")
				e.stampedFromClient++
			default:
				w.stamp = append(w.stamp, nil)
				w.whose = append(w.whose, "none")
			}
			if b.calls >= 2 {
				e.repeatedSetter = true
			}
		}
		var f int
		var odd string
		switch s.M {
		case "AddEntry":
			w.op = spb.AFTOperation_ADD
			f, odd = capture(func(t testing.TB) { c.add(t, entries...) })
		case "ReplaceEntry":
			w.op = spb.AFTOperation_REPLACE
			f, odd = capture(func(t testing.TB) { c.rep(t, entries...) })
		case "DeleteEntry":
			w.op = spb.AFTOperation_DELETE
			f, odd = capture(func(t testing.TB) { c.del(t, entries...) })
		}
		if odd != "" || f > 0 {
			e.problem("step %d: %s: fatal=%d %s", i, s.M, f, odd)
		}
		c.fatals += f
		c.inc().wants = append(c.inc().wants, w)
		e.queuedOps += len(entries)
		e.stats[fmt.Sprintf("ops_per_request_%d", len(entries))]++
		e.queued(c, i)
	}
}

// queued is called after a call that queues exactly one ModifyRequest.
func (e *exec) queued(c *cl, step int) {
	in := c.inc()
	switch {
	case in.sending:
		e.stats["queued_while_sending"]++
		// handshake + marker + everything queued so far
		if !in.stub.wait(in.hs + 1 + len(in.wants)) {
			e.problem("step %d: client %d: the Modify stream received %d messages, %d expected", step, c.name, len(in.stream()), in.hs+len(in.wants))
		}
		if msgs := in.stream(); len(msgs) > 0 {
			e.keep(fmt.Sprintf("ModifyRequest %d of client %d, start %d (sent by step %d)", len(msgs)-1, c.name, len(c.incs), step), msgs[len(msgs)-1])
		}
	case in.stopped:
		e.stats["queued_on_stopped_client"]++
	default:
		e.stats["queued_before_sending"]++
	}
	e.afterQueue(c, step)
}

// storm keeps changing every builder, sub-builder, client and argument slice after the program has
// ended: nothing of it may show in the messages already queued, sent or returned.
func (e *exec) storm() {
	hdrs := []any{}
	for _, b := range e.builders {
		if b.hdr != nil {
			hdrs = append(hdrs, b.hdr)
		}
	}
	for name, b := range e.builders {
		for _, m := range kindMethods[b.kind] {
			s := Step{K: "call", B: name, M: m, S: []string{"MUTATED", "MUTATED-2"}, N: []uint64{4242, 4343}, H: 1}
			for r, h := range e.builders {
				if h.hdr != nil {
					s.Refs = append(s.Refs, r)
				}
			}
			if _, odd := capture(func(testing.TB) { b.call(s, e) }); odd != "" {
				e.problem("storm: %s.%s: %s", b.kind, m, odd)
			}
		}
	}
	for _, buf := range e.slices {
		for i := range buf {
			buf[i] ^= 0x5a
		}
	}
	for _, c := range e.clients {
		c.fc.Connection().WithInitialElectionID(8888, 8888)
		c.fc.Connection().WithRedundancyMode(fluent.ElectedPrimaryClient)
		if c.started {
			capture(func(t testing.TB) { c.fc.Modify().UpdateElectionID(t, 7777, 7777) })
		}
	}
}

// checkSnaps re-compares every kept message with the copy taken when it was queued.
func (e *exec) checkSnaps(when string) {
	for _, s := range e.snaps {
		if !proto.Equal(s.live, s.copy) {
			e.problem("%s changed %s: was {%v} is {%v}", s.what, when, s.copy, s.live)
			return
		}
	}
}

func (e *exec) stop() {
	for _, c := range e.clients {
		if c.started {
			e.stopClient(c)
		}
	}
	e.cancel()
}

func newExec(stats map[string]int) *exec {
	ctx, cancel := context.WithCancel(context.Background())
	return &exec{builders: map[int]*bobj{}, clients: map[int]*cl{}, stats: stats, ctx: ctx, cancel: cancel}
}
