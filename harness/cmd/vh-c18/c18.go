package main

import (
	"encoding/json"
	"fmt"
	"strings"

	"verifharness/drv"

	spb "github.com/openconfig/gribi/v1/proto/service"
)

// obs is what one program run produced.
type obs struct {
	clients  []clientObs
	protos   []protoPair
	problems []string // verdicts of the model-free oracle
	e        *exec
}

type clientObs struct {
	name   int
	stream []*spb.ModifyRequest
	fatals int
}

func kindOfEntry(op *spb.AFTOperation) string {
	switch op.GetEntry().(type) {
	case *spb.AFTOperation_Ipv4:
		return "ipv4"
	case *spb.AFTOperation_Ipv6:
		return "ipv6"
	case *spb.AFTOperation_Mpls:
		return "label"
	case *spb.AFTOperation_NextHop:
		return "nh"
	case *spb.AFTOperation_NextHopGroup:
		return "nhg"
	}
	return "none"
}

// runProg executes the program through the real fluent API and evaluates the property's own
// predicate on what came out (no model involved).
func runProg(p Prog, stats map[string]int) obs {
	e := newExec(stats)
	e.run(p)
	o := obs{e: e, protos: e.protos}
	for _, name := range e.order {
		c := e.clients[name]
		o.clients = append(o.clients, clientObs{name: name, stream: c.stream(), fatals: c.fatals})
	}
	// ---- oracle
	for _, co := range o.clients {
		c := e.clients[co.name]
		e.oracleClient(c, co.stream)
	}
	for i, pp := range e.protos {
		if pp.op.GetId() != 0 || pp.op.GetOp() != spb.AFTOperation_INVALID {
			e.problem("OpProto %d: id %d / op %v set by the builder", i, pp.op.GetId(), pp.op.GetOp())
		}
		if pp.op.GetNetworkInstance() != pp.entry.GetNetworkInstance() {
			e.problem("OpProto / EntryProto %d disagree on the network instance", i)
		}
		if a, b := absOp(pp.op).Entry, absEntry(pp.entry).Entry; a.coq() != b.coq() {
			e.problem("OpProto / EntryProto %d disagree on the payload", i)
		}
		if msg := faithful(pp.op, absOp(pp.op).pb()); msg != "" {
			e.problem("OpProto %d: %s", i, msg)
		}
		if msg := faithful(pp.entry, absEntry(pp.entry).pb()); msg != "" {
			e.problem("EntryProto %d: %s", i, msg)
		}
	}
	// later builder calls never alter messages already queued: first the calls of the program itself,
	// then a storm of calls on every builder, sub-builder and client
	e.checkSnaps("by a later call of the program")
	if len(e.problems) == 0 {
		e.storm()
		e.checkSnaps("by calls made after the program")
	}
	e.stop()
	o.problems = e.problems
	return o
}

func (e *exec) oracleClient(c *cl, stream []*spb.ModifyRequest) {
	if !c.started {
		if len(stream) != 0 {
			e.problem("client %d never started but its stream received %d messages", c.name, len(stream))
		}
		return
	}
	hs := len(stream) - len(c.wants)
	if hs < 0 || hs > 2 {
		e.problem("client %d: %d ModifyRequests on the stream for %d queueing calls", c.name, len(stream), len(c.wants))
		return
	}
	for i := 0; i < hs; i++ {
		if len(stream[i].GetOperation()) != 0 {
			e.problem("client %d: a request that no AddEntry/ReplaceEntry/DeleteEntry call made carries operations", c.name)
		}
	}
	next := uint64(1)
	for i, w := range c.wants {
		m := stream[hs+i]
		if msg := faithful(m, absReq(m).pb()); msg != "" {
			e.problem("client %d request %d: %s", c.name, i, msg)
		}
		if w.elec != nil {
			got := m.GetElectionId()
			if got == nil || got.GetHigh() != w.elec[0] || got.GetLow() != w.elec[1] || len(m.GetOperation()) != 0 || m.GetParams() != nil {
				e.problem("client %d: UpdateElectionID of step %d queued {%v}", c.name, w.step, m)
			}
			continue
		}
		if m.GetElectionId() != nil || m.GetParams() != nil {
			e.problem("client %d: the request of step %d carries an election id / parameters of its own: {%v}", c.name, w.step, m)
		}
		if len(m.GetOperation()) != len(w.kinds) {
			e.problem("client %d: step %d passed %d entries, the request has %d operations", c.name, w.step, len(w.kinds), len(m.GetOperation()))
			continue
		}
		for j, op := range m.GetOperation() {
			// ids: 1, 2, 3, ... in queue order
			if op.GetId() != next {
				e.problem("client %d: operation %d of the request of step %d has id %d, want %d (ids of one client are 1,2,3,... in queue order)", c.name, j, w.step, op.GetId(), next)
			}
			next++
			if op.GetOp() != w.op {
				e.problem("client %d: operation id %d has type %v, the call was %v", c.name, op.GetId(), op.GetOp(), w.op)
			}
			if k := kindOfEntry(op); k != w.kinds[j] {
				e.problem("client %d: operation id %d carries a %s entry (%T), the builder was a %s builder", c.name, op.GetId(), k, op.GetEntry(), w.kinds[j])
			}
			if op.GetNetworkInstance() != w.nis[j] {
				e.problem("client %d: operation id %d is for network instance %q, the last WithNetworkInstance said %q", c.name, op.GetId(), op.GetNetworkInstance(), w.nis[j])
			}
			got, wantID := op.GetElectionId(), w.stamp[j]
			switch {
			case wantID == nil && got != nil:
				e.problem("client %d: operation id %d is stamped with election id (%d,%d); want none (%s)", c.name, op.GetId(), got.GetHigh(), got.GetLow(), w.whose[j])
			case wantID != nil && (got == nil || got.GetHigh() != wantID[0] || got.GetLow() != wantID[1]):
				e.problem("client %d: operation id %d is stamped with {%v}; want (%d,%d), the %s election id at queue time", c.name, op.GetId(), got, wantID[0], wantID[1], w.whose[j])
			}
			e.stats["stamp_"+w.whose[j]]++
		}
	}
}

// ----------------------------------------------------------------------------- output

func (o obs) coq(p Prog) string {
	cs := []string{}
	for _, c := range o.clients {
		ms := []string{}
		for _, m := range c.stream {
			ms = append(ms, absReq(m).coq())
		}
		cs = append(cs, fmt.Sprintf("MkCObs %d [%s] %d", c.name, strings.Join(ms, ";\n      "), c.fatals))
	}
	ps := []string{}
	for _, pp := range o.protos {
		ps = append(ps, fmt.Sprintf("(%s, %s)", absOp(pp.op).coq(), absEntry(pp.entry).coq()))
	}
	return fmt.Sprintf("MkCase\n   %s\n   [%s]\n   [%s]", p.coq(), strings.Join(cs, ";\n    "), strings.Join(ps, ";\n    "))
}

func (o obs) text() []string {
	out := []string{}
	for _, c := range o.clients {
		for i, m := range c.stream {
			out = append(out, fmt.Sprintf("client %d request %d: %v", c.name, i, m))
		}
	}
	return out
}

func runC18(args []string) error {
	f := drv.NewFlags("c18")
	if err := f.Parse(args); err != nil {
		return err
	}
	r := drv.NewRng(*f.Seed)
	var cases []Prog
	if *f.Replay != "" {
		if err := drv.ReadJSON(*f.Replay, &cases); err != nil {
			return err
		}
	} else {
		cases = fixedProgs()
		for i := 0; i < *f.N; i++ {
			cases = append(cases, genProg(r))
		}
	}
	rep := drv.Report{Property: "C18", Seed: *f.Seed, Shard: drv.ShardSize, Stats: map[string]int{}, Cases: len(cases),
		Rule: "programs of builder calls (any order, repeats) interleaved with AddEntry/ReplaceEntry/DeleteEntry/UpdateElectionID and connection " +
			"calls on one or two clients; non-trivial = at least two operations queued, an entry with at least two builder calls on it queued, " +
			"at least one builder call made after an operation was queued, and at least one operation stamped with the client's current election id; " +
			"distinct by the canonical JSON of the program"}
	// serialise before running: a crash still leaves the replay
	if err := drv.WriteJSON(*f.Out+"/cases.json", cases); err != nil {
		return err
	}
	var coq []string
	distinct := map[string]bool{}
	for i, p := range cases {
		o := runProg(p, rep.Stats)
		if len(o.problems) > 0 {
			rep.Violations = append(rep.Violations, drv.Verdict{Case: i, Problem: o.problems[0]})
		}
		e := o.e
		rep.Stats[fmt.Sprintf("clients_%d", len(o.clients))]++
		rep.Stats["steps_total"] += len(p.Steps)
		rep.Stats["operations_queued"] += e.queuedOps
		if e.queuedOps >= 2 && e.repeatedSetter && e.callsAfterQueue > 0 && e.stampedFromClient > 0 {
			b, _ := json.Marshal(p)
			distinct[string(b)] = true
		}
		coq = append(coq, o.coq(p))
		if len(rep.Samples) < 3 && (i == 1 || i%211 == 5) {
			rep.Samples = append(rep.Samples, map[string]any{"program": p.coq(), "stream": o.text()})
		}
	}
	rep.Nontrivial = len(distinct)
	if err := drv.WriteCasesV(*f.Out, "From Coq Require Import String List NArith ZArith.\nFrom GV.Tools Require Import Fluent FluentObs.\nImport ListNotations.\nOpen Scope string_scope.\nOpen Scope N_scope.",
		"fcase", "fmismatches", coq); err != nil {
		return err
	}
	return drv.WriteJSON(*f.Out+"/impl.json", rep)
}
