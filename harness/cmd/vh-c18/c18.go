package main

import (
	"encoding/json"
	"fmt"
	"strings"

	"verifharness/drv"

	spb "github.com/openconfig/gribi/v1/proto/service"
)

// obs is what one program run produced.
type obs struct {
	clients  []clientObs
	protos   []protoPair
	problems []string // verdicts of the model-free oracle
	e        *exec
}

// incObs is what one client.Client of a fluent client did: the requests its stream received, and the
// operations queued on it that never reached a stream (by id).
type incObs struct {
	stream []*spb.ModifyRequest
	unsent []*spb.AFTOperation
}

type clientObs struct {
	name   int
	incs   []incObs // one per successful Start, oldest first
	fatals int
}

func kindOfEntry(op *spb.AFTOperation) string {
	switch op.GetEntry().(type) {
	case *spb.AFTOperation_Ipv4:
		return "ipv4"
	case *spb.AFTOperation_Ipv6:
		return "ipv6"
	case *spb.AFTOperation_Mpls:
		return "label"
	case *spb.AFTOperation_NextHop:
		return "nh"
	case *spb.AFTOperation_NextHopGroup:
		return "nhg"
	}
	return "none"
}

// runProg executes the program through the real fluent API and evaluates the property's own
// predicate on what came out (no model involved).
func runProg(p Prog, stats map[string]int) obs {
	e := newExec(stats)
	e.run(p)
	o := obs{e: e, protos: e.protos}
	for _, name := range e.order {
		c := e.clients[name]
		co := clientObs{name: name, fatals: c.fatals}
		for k, in := range c.incs {
			stream := in.stream()
			unsent, onStream := in.unsent()
			if len(in.pending) != onStream+len(unsent) {
				e.problem("client %d, start %d: %d operations on the stream, %d of them in the pending queue of %d", name, k+1, onStream, len(in.pending)-len(unsent), len(in.pending))
			}
			co.incs = append(co.incs, incObs{stream: stream, unsent: unsent})
		}
		o.clients = append(o.clients, co)
	}
	// ---- oracle
	for _, co := range o.clients {
		c := e.clients[co.name]
		e.oracleClient(c, co)
	}
	for i, pp := range e.protos {
		if pp.op.GetId() != 0 || pp.op.GetOp() != spb.AFTOperation_INVALID {
			e.problem("OpProto %d: id %d / op %v set by the builder", i, pp.op.GetId(), pp.op.GetOp())
		}
		if pp.op.GetNetworkInstance() != pp.entry.GetNetworkInstance() {
			e.problem("OpProto / EntryProto %d disagree on the network instance", i)
		}
		if a, b := absOp(pp.op).Entry, absEntry(pp.entry).Entry; a.coq() != b.coq() {
			e.problem("OpProto / EntryProto %d disagree on the payload", i)
		}
		if msg := faithful(pp.op, absOp(pp.op).pb()); msg != "" {
			e.problem("OpProto %d: %s", i, msg)
		}
		if msg := faithful(pp.entry, absEntry(pp.entry).pb()); msg != "" {
			e.problem("EntryProto %d: %s", i, msg)
		}
	}
	// later builder calls never alter messages already queued: first the calls of the program itself,
	// then a storm of calls on every builder, sub-builder and client
	e.checkSnaps("by a later call of the program")
	if len(e.problems) == 0 {
		e.storm()
		e.checkSnaps("by calls made after the program")
	}
	e.stop()
	o.problems = e.problems
	return o
}

// idSeq follows the ids of ONE fluent client over its whole life (all its client.Clients, in the order
// the operations were queued): they must be pairwise distinct and strictly increasing — a restart must
// not hand out an id again — and, more precisely, 1, 2, 3, ...
type idSeq struct {
	last uint64 // greatest id seen so far (0: none)
	next uint64
}

// checkOp evaluates the per-operation clauses of the property on one queued operation.
func (e *exec) checkOp(c *cl, k int, w want, j int, op *spb.AFTOperation, ids *idSeq) {
	id := op.GetId()
	if ids.last > 0 && id <= ids.last {
		e.problem("client %d, start %d: operation %d of the request of step %d has id %d although id %d was handed out before: the ids of one fluent client must be distinct and strictly increasing over its whole life, restarts included",
			c.name, k+1, j, w.step, id, ids.last)
	}
	if id != ids.next {
		e.problem("client %d, start %d: operation %d of the request of step %d has id %d, want %d (ids of one fluent client are 1,2,3,... in queue order, across restarts)", c.name, k+1, j, w.step, id, ids.next)
	}
	if id > ids.last {
		ids.last = id
	}
	ids.next++
	if op.GetOp() != w.op {
		e.problem("client %d: operation id %d has type %v, the call was %v", c.name, id, op.GetOp(), w.op)
	}
	if kd := kindOfEntry(op); kd != w.kinds[j] {
		e.problem("client %d: operation id %d carries a %s entry (%T), the builder was a %s builder", c.name, id, kd, op.GetEntry(), w.kinds[j])
	}
	if op.GetNetworkInstance() != w.nis[j] {
		e.problem("client %d: operation id %d is for network instance %q, the last WithNetworkInstance said %q", c.name, id, op.GetNetworkInstance(), w.nis[j])
	}
	got, wantID := op.GetElectionId(), w.stamp[j]
	switch {
	case wantID == nil && got != nil:
		e.problem("client %d: operation id %d is stamped with election id (%d,%d); want none (%s)", c.name, id, got.GetHigh(), got.GetLow(), w.whose[j])
	case wantID != nil && (got == nil || got.GetHigh() != wantID[0] || got.GetLow() != wantID[1]):
		e.problem("client %d: operation id %d is stamped with {%v}; want (%d,%d), the %s election id at queue time", c.name, id, got, wantID[0], wantID[1], w.whose[j])
	}
	e.stats["stamp_"+w.whose[j]]++
	if k > 0 {
		e.stats["ops_after_restart"]++
		if w.whose[j] == "current" {
			e.stats["stamp_current_after_restart"]++
		}
	}
}

func (e *exec) oracleClient(c *cl, co clientObs) {
	if !c.started {
		if len(co.incs) != 0 {
			e.problem("client %d never started but has %d Modify streams", c.name, len(co.incs))
		}
		return
	}
	ids := &idSeq{next: 1}
	for k, in := range c.incs {
		stream, unsent := co.incs[k].stream, co.incs[k].unsent
		nSent := in.nSent()
		if !in.everSent && len(stream) != 0 {
			e.problem("client %d, start %d: never told to send but its stream received %d messages", c.name, k+1, len(stream))
			return
		}
		hs := len(stream) - nSent
		if hs < 0 || hs > 2 || (!in.everSent && hs != 0) {
			e.problem("client %d, start %d: %d ModifyRequests on the stream for %d queueing calls made before Stop", c.name, k+1, len(stream), nSent)
			return
		}
		for i := 0; i < hs; i++ {
			if len(stream[i].GetOperation()) != 0 {
				e.problem("client %d: a request that no AddEntry/ReplaceEntry/DeleteEntry call made carries operations", c.name)
			}
		}
		// what reached the stream: one request per queueing call made before Stop, in order
		for i, w := range in.wants[:nSent] {
			m := stream[hs+i]
			if msg := faithful(m, absReq(m).pb()); msg != "" {
				e.problem("client %d request %d: %s", c.name, i, msg)
			}
			if w.elec != nil {
				got := m.GetElectionId()
				if got == nil || got.GetHigh() != w.elec[0] || got.GetLow() != w.elec[1] || len(m.GetOperation()) != 0 || m.GetParams() != nil {
					e.problem("client %d: UpdateElectionID of step %d queued {%v}", c.name, w.step, m)
				}
				continue
			}
			if m.GetElectionId() != nil || m.GetParams() != nil {
				e.problem("client %d: the request of step %d carries an election id / parameters of its own: {%v}", c.name, w.step, m)
			}
			if len(m.GetOperation()) != len(w.kinds) {
				e.problem("client %d: step %d passed %d entries, the request has %d operations", c.name, w.step, len(w.kinds), len(m.GetOperation()))
				continue
			}
			for j, op := range m.GetOperation() {
				e.checkOp(c, k, w, j, op, ids)
			}
		}
		// what stayed behind (queued on the stopped client, or never flushed before the client was
		// replaced): the operations are in the pending queue of that client.Client
		u := 0
		for _, w := range in.wants[nSent:] {
			for j := range w.kinds {
				if u >= len(unsent) {
					e.problem("client %d, start %d: step %d queued %d operations that did not go to the stream, the pending queue holds only %d such operations in all", c.name, k+1, w.step, len(w.kinds), len(unsent))
					return
				}
				op := unsent[u]
				u++
				if msg := faithful(op, absOp(op).pb()); msg != "" {
					e.problem("client %d unsent operation %d: %s", c.name, op.GetId(), msg)
				}
				e.checkOp(c, k, w, j, op, ids)
				e.stats["ops_unsent"]++
			}
		}
		if u != len(unsent) {
			e.problem("client %d, start %d: %d operations are pending that reached no stream and that no call of the program queued", c.name, k+1, len(unsent)-u)
		}
	}
}

// ----------------------------------------------------------------------------- output

func (o obs) coq(p Prog) string {
	cs := []string{}
	for _, c := range o.clients {
		is := []string{}
		for _, in := range c.incs {
			ms, us := []string{}, []string{}
			for _, m := range in.stream {
				ms = append(ms, absReq(m).coq())
			}
			for _, u := range in.unsent {
				us = append(us, absOp(u).coq())
			}
			is = append(is, fmt.Sprintf("MkIObs [%s]\n      [%s]", strings.Join(ms, ";\n      "), strings.Join(us, ";\n      ")))
		}
		cs = append(cs, fmt.Sprintf("MkCObs %d [%s] %d", c.name, strings.Join(is, ";\n     "), c.fatals))
	}
	ps := []string{}
	for _, pp := range o.protos {
		ps = append(ps, fmt.Sprintf("(%s, %s)", absOp(pp.op).coq(), absEntry(pp.entry).coq()))
	}
	return fmt.Sprintf("MkCase\n   %s\n   [%s]\n   [%s]", p.coq(), strings.Join(cs, ";\n    "), strings.Join(ps, ";\n    "))
}

func (o obs) text() []string {
	out := []string{}
	for _, c := range o.clients {
		for k, in := range c.incs {
			for i, m := range in.stream {
				out = append(out, fmt.Sprintf("client %d start %d request %d: %v", c.name, k+1, i, m))
			}
			for _, u := range in.unsent {
				out = append(out, fmt.Sprintf("client %d start %d unsent: %v", c.name, k+1, u))
			}
		}
	}
	return out
}

func runC18(args []string) error {
	f := drv.NewFlags("c18")
	if err := f.Parse(args); err != nil {
		return err
	}
	r := drv.NewRng(*f.Seed)
	var cases []Prog
	if *f.Replay != "" {
		if err := drv.ReadJSON(*f.Replay, &cases); err != nil {
			return err
		}
	} else {
		cases = fixedProgs()
		for i := 0; i < *f.N; i++ {
			cases = append(cases, genProg(r))
		}
	}
	rep := drv.Report{Property: "C18", Seed: *f.Seed, Shard: drv.ShardSize, Stats: map[string]int{}, Cases: len(cases),
		Rule: "programs of builder calls (any order, repeats) interleaved with AddEntry/ReplaceEntry/DeleteEntry/UpdateElectionID, connection " +
			"calls and the lifecycle calls Start / StartSending / Stop / Start again on one or two clients (Stats: programs_with_restart, " +
			"programs_ops_across_restart = operations queued on at least two client.Clients of one fluent client, programs_sent_across_restart = " +
			"operations on at least two Modify streams of one fluent client); non-trivial = at least two operations queued, an entry with at least two builder calls on it queued, " +
			"at least one builder call made after an operation was queued, and at least one operation stamped with the client's current election id; " +
			"distinct by the canonical JSON of the program"}
	// serialise before running: a crash still leaves the replay
	if err := drv.WriteJSON(*f.Out+"/cases.json", cases); err != nil {
		return err
	}
	var coq []string
	distinct := map[string]bool{}
	for i, p := range cases {
		o := runProg(p, rep.Stats)
		if len(o.problems) > 0 {
			rep.Violations = append(rep.Violations, drv.Verdict{Case: i, Problem: o.problems[0]})
		}
		e := o.e
		rep.Stats[fmt.Sprintf("clients_%d", len(o.clients))]++
		rep.Stats["steps_total"] += len(p.Steps)
		rep.Stats["operations_queued"] += e.queuedOps
		if e.restarts > 0 {
			rep.Stats["programs_with_restart"]++
		}
		if e.opsAcrossRestart {
			rep.Stats["programs_ops_across_restart"]++
		}
		if e.sentAcrossRestart {
			rep.Stats["programs_sent_across_restart"]++
		}
		if e.queuedOps >= 2 && e.repeatedSetter && e.callsAfterQueue > 0 && e.stampedFromClient > 0 {
			b, _ := json.Marshal(p)
			distinct[string(b)] = true
		}
		coq = append(coq, o.coq(p))
		if len(rep.Samples) < 3 && (i == 3 || i%211 == 5) {
			rep.Samples = append(rep.Samples, map[string]any{"program": p.coq(), "stream": o.text()})
		}
	}
	rep.Nontrivial = len(distinct)
	if err := drv.WriteCasesV(*f.Out, "From Coq Require Import String List NArith ZArith.\nFrom GV.Tools Require Import Fluent FluentObs.\nImport ListNotations.\nOpen Scope string_scope.\nOpen Scope N_scope.",
		"fcase", "fmismatches", coq); err != nil {
		return err
	}
	return drv.WriteJSON(*f.Out+"/impl.json", rep)
}
